#!/bin/bash
# usage: tools/run_all.sh quick|thorough [seed]   — runs every check, prints one summary line each
cd "$(dirname "$0")/.."
tier=${1:-quick}; seed=${2:-20260930}
for p in C01 C02 C03 C04 C05 C06 C07 C08 C09 C10 C11 C12 C13 C14 C15 C16 C17 C18 C19 C20; do
  out=$(VERIF_SEED=$seed ./vcheck $p $tier 2>&1); rc=$?
  echo "rc=$rc $(echo "$out" | grep -c '^VIOLATION') violations | $(echo "$out" | tail -1 | cut -c1-170)"
done

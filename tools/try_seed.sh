#!/bin/bash
# tools/try_seed.sh <patch.diff> <demo.py> <Cxx> [more Cxx…]
# confirms a seeded change in a scratch worktree (suite passes, demo fails with / passes without), then runs the quick checks against it
patch=$(readlink -f "$1"); demo=$(readlink -f "$2"); shift 2
W=/tmp/tryseed_$$
git -C /repo worktree add -q --detach $W HEAD || exit 3
trap 'git -C /repo worktree remove --force $W' EXIT
cd $W
OMP_NUM_THREADS=1 OPENBLAS_NUM_THREADS=1 PYTHONPATH=$W /venv/bin/python "$demo" >/dev/null 2>&1; echo "demo without change: rc=$?"
git apply "$patch" || { echo "patch does not apply"; exit 3; }
OMP_NUM_THREADS=1 OPENBLAS_NUM_THREADS=1 PYTHONPATH=$W /venv/bin/python "$demo" >/dev/null 2>&1; echo "demo with change:    rc=$?"
OMP_NUM_THREADS=1 OPENBLAS_NUM_THREADS=1 PYTHONPATH=$W /venv/bin/python -m pytest -q -p no:cacheprovider --timeout=900 2>&1 | tail -1
cd /verif
for p in "$@"; do
  out=$(VERIF_REPO=$W ./vcheck $p quick 2>&1); rc=$?
  echo "$p rc=$rc $(echo "$out" | grep -c '^VIOLATION') violation lines | $(echo "$out" | grep '^VIOLATION' | head -1) | $(echo "$out" | tail -1 | cut -c1-150)"
done

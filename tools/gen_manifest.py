#!/usr/bin/env python3
"""regenerate /verif/MANIFEST.json from the table below"""
import json, os
V = os.path.dirname(os.path.dirname(os.path.abspath(__file__)))
props = [json.loads(l) for l in open(os.path.join(V, "properties.jsonl"))]

NOTE = "Lean kernel + Mathlib; axioms propext/Classical.choice/Quot.sound (audited every run); hand-written model tied to /repo by the correspondence harness (differential, 1e-9 rel); external numerics (np.roots, eigh, RNG, libm) are model parameters with monitored contracts"
LEVEL = {
    "C01": ("proof", "Lean theorems for every dimension/mass vector/state count: an accepted hop conserves KE+V exactly, a rejected hop is a no-op, "
            "the chosen scale factor is a root of the code's quadratic; Verlet on a harmonic surface conserves a shadow energy exactly and the "
            "true-energy drift is bounded by (Omega dt^2/2) E0 for ANY number of steps. Partial: O(dt^2) drift on a general smooth potential is "
            "not derived in Lean (Richardson-ratio test on the implementation, labelled a test). Model tied to hop_to_it of all four hopping "
            "classes, to advance_position/velocity of SH and MD, and to whole runs Composed step (MudModel/Step.lean): an accepted hop inside a whole simulate() step conserves KE + E_active and its target is never the active state (StepThm.shStep_hop_energy); whole FSSH runs are reproduced snapshot by snapshot by the model.", "7 C01", NOTE,
            "Lean 4 theorems (ring/field identities, induction over steps) + correspondence on boundary-directed hops"),
    "C02": ("proof", "Lean theorems (Mathlib matrices over C, via a proved ring-hom bridge from the model) for every N and dt: the midpoint generator "
            "is Hermitian; the code's step matrix is C diag(e^{-i lambda dt}) C^H and is unitary when C is (eigh's contract, monitored); U rho U^H "
            "preserves Hermiticity, unit trace, positive semi-definiteness (hence populations in [0,1]) and purity; by induction the state is valid "
            "after ANY list of exponential steps. linear-rk4: general RK4 invariance theorems (invariant subspaces, annihilated functionals) "
            "instantiated on the model's interaction-picture run: trace and Hermiticity preserved exactly for any sub-step count. The property "
            "is FALSE for linear-rk4 as far as positivity/purity go: Lean counterexample rk4_purity_witness (one step from a pure state gives "
            "tr rho^2 = 1145/1152), replayed on the implementation and the model driver on every run; KNOWN FINDING rk4-not-unitary "
            "(signature: linear-rk4 only, trace/Hermiticity exact, defect vanishing under sub-step refinement). Hops do not touch rho; a collapse "
            "gives the pure state that is active after the step's hop attempt", "7 C02", NOTE,
            "Lean 4 theorems (Matrix/unitary/PosSemidef, induction over steps, RK4 invariance) + correspondence with captured eigh"),
    "C03": ("proof", "Lean theorems for every N: flux identity for rho'=-i[W,rho], antisymmetry, zero self-flux, g=max(0,b dt/rho_kk)>=0, sum rule, "
            "complete specification of the cumulative-partition scan (hop to n iff zeta in n's slot; zero-width slots never chosen), Poisson total "
            "1-exp(-G) and unchanged branching ratios. Tied to surface_hopping/hopper with thresholds exactly on and one ulp either side of "
            "every boundary of dyadic partitions", "7 C03", NOTE, "Lean 4 theorems (Finset algebra, list induction) + exact-boundary correspondence"),
    "C04": ("proof", "Lean theorems: upward hop accepted iff (v.u)^2/(2 sum u_i^2/m_i) > gap (strict), downward always; momentum change is "
            "s*u (parallel to the direction); the applied root has the smaller magnitude and both are roots; rejected hop is a no-op; event fields. "
            "Event bookkeeping (MudModel/Events.lean): for ANY list of attempts the hop log is sound and complete w.r.t. the active-state "
            "sequence (one event per change, from/to = states before/after, no event without change, steps increasing, frustrated count). "
            "Run-level event/active-state consistency is also checked on the implementation for both trace stores Whole FSSH runs (every snapshot and every hop / frustrated-hop event) are reproduced by the composed-step model; StepThm.shStep_event relates the logged event to the state change of the step.", "7 C04", NOTE,
            "Lean 4 theorems + correspondence with gaps at 1e-13..0.3 relative distance from the threshold"),
    "C05": ("proof", "Lean theorems. (A) any model, N, dimension: the derivative coupling of the model's basis transformation has zero diagonal, is "
            "antisymmetric, the off-diagonal force matrix equals (E_i-E_j) d_ij above the gap guard, force = diagonal of the force matrix; first-order "
            "perturbation theory in Mathlib matrices: if C(x) stays orthonormal and diagonalises V(x) to first order then dE_i = (C^T V' C)_ii "
            "(Hellmann-Feynman: force = -grad E_i) and <phi_i|phi_j'> = (C^T V' C)_ij/(E_j-E_i) (coupling = overlap derivative). (B) HasDerivAt "
            "theorems, for all constructor parameters, that each hand-written dV entry is the derivative of the V entry: simple and extended (x != 0), "
            "dual, super, model X, model S; models W and Z: what dV must be, and counterexample theorems for what the pinned dV returns (KNOWN "
            "FINDINGS: test_subotnik_model_w/z pin arrays computed from the wrong dV). (C) harmonic force = -grad E for a symmetric Hessian. The Lean "
            "V/dV entries and the basis transformation are tied to the Python by correspondence; Shin-Metiu, the 5-D vibronic model and Subotnik2D are "
            "covered by the convergence-checked finite-difference oracle only (stated) Subotnik2D and the 5-D vibronic model now have Lean entries with per-coordinate HasDerivAt theorems and their own correspondence ops.", "7 C05", NOTE,
            "Lean 4 theorems (matrix perturbation algebra, HasDerivAt per model entry) + correspondence + finite-difference oracle"),
    "C06": ("proof", "Lean theorems, any N and dimension: after the sign fix every column has non-negative overlap with its reference column and the "
            "fix only multiplies columns by +-1; flipping columns by signs s multiplies (C^T dV C)_pq by s_p s_q, hence forces are invariant and "
            "couplings / force-matrix entries change by that factor only (magnitudes invariant) - so energies, forces and coupling magnitudes depend "
            "on the position alone given that eigh is a function of V(x); update() rebinds every result attribute of the new object to a fresh "
            "location, so no earlier result is written. Along a whole path of any length (induction over the path, `track`): every tracked set has non-negative overlaps with its predecessor, is the fresh set of its own position times column signs, and two histories reaching the same position by different paths from different references get the same forces, coupling magnitudes and force-matrix magnitudes. Tied to the code by whole-path correspondence (op track: every tracked set of 3..8 continued updates, captured eigh), by sign-fix correspondence with captured eigh and by update scripts on one "
            "shared model object (smooth paths, jumps, revisits, interleaved continuations) checked for overlaps, history independence, bit-stability "
            "of earlier results and absence of shared arrays", "7 C06", NOTE,
            "Lean 4 theorems (Finset algebra of the basis rotation, location model of update) + script oracle"),
    "C07": ("proof", "Lean theorems, exact, any dimension/state count/force field/number of steps: velocity Verlet is time-symmetric; reversing velocities "
            "conjugates the midpoint generator; the code's step matrix equals exp(-i dt W) for ANY unitary eigendecomposition (independent of eigh's "
            "choice); the electronic step with the reversed generator undoes the step on the conjugated state; nuclear+electronic step and whole "
            "forward-then-reversed runs return to the start. Order two: PROVED for harmonic models (any modes, masses, number of steps, |omega dt|<=1) with explicit constants - exact flow (HasDerivAt), local error <= (|x|+|v/omega|)|omega dt|^3, stability (shadow invariant), global error after k steps <= k|omega dt|^3 |z0| = (|omega|T)(omega dt)^2 |z0|; a generator that does not change along the path is integrated without discretisation error (exp_steps_compose); PARTIAL for a general smooth force (symmetric + consistent => even order is cited, not formalised); "
            "the factor four is a Richardson test on the implementation (two finest ratios of four levels). The model has both the true-midpoint and "
            "the aliased generator; the correspondence of single real steps tells them apart The composed step is Verlet + midpoint generator + exp exactly when no event is logged (StepThm.shStep_event, shStep_common); whole hop-free runs correspond.", "7 C07", NOTE,
            "Lean 4 theorems (ring identities, Matrix.exp conjugation/transposition, induction over steps) + single-step correspondence"),
    "C08": ("proof", "Lean theorems for any N, n: potential = Re tr(rho H); hopping is the identity for any number of steps; mean-field force "
            "= population term + coherence term; exact deviation of the code's force (coherence term missing), partial equality (diagonal rho or "
            "diagonal force matrix), 2-state witness; energy balance d/dt(KE+tr rho H) = v.(F_used - F_meanfield). The pinned _force violates the "
            "property (KNOWN FINDING, suite pins it): the model keeps both variants, the correspondence tries the mean-field force first and reports "
            "the finding only when the code matches exactly the pinned formula; any other deviation is a VIOLATION Whole Ehrenfest runs in both representations correspond to ehStep/ehRun; StepThm.ehRun_spec: label constant and rho valid along any run.", "7 C08", NOTE,
            "Lean 4 theorems (Finset double sums, flux identity of C03) + dual-variant correspondence"),
    "C09": ("proof", "Lean theorems: closed form 1-(1-a)exp(-sum G) of the accumulation for any rate list, attempt iff threshold below it, first "
            "attempt = first crossing (complete spec), reset and fresh threshold, user thresholds first, inverse-CDF target slot of length g_j/G, "
            "hop-time law prod(1-p_i) p_k (Poisson equivalence), zero-rate steps never attempt. Tied to TrajectoryCum.hopper on driven sequences Whole cumulative-FSSH runs correspond to cumStep/cumRun (snapshots, events, accumulator, threshold).", "7 C09", NOTE,
            "Lean 4 theorems (list induction, Real.exp algebra) + sequence correspondence"),
    "C10": ("proof", "Lean theorems for any sample tree and any sequence of next_zeta calls (several thresholds per call, exhaustion): marginal weights, "
            "last_dw = sum of the dw just passed, children of a crossing carry base*last_dw*sum_t r_t split into nspawn copies, accounting of crossed dw, "
            "one-level conservation parent + children = base (explicit hypothesis sum dw = 1 only when the stack is exhausted; exact loss base*(1-sum dw) "
            "otherwise), and tree_conservation by induction over the spawned family: all trajectories from one initial condition sum to the initial weight; "
            "tensor structure of from_quadrature forests (total weight = product of level sums = 1). Child start point / parent untouched: checked on the "
            "implementation (hop on clone, batches)", "7 C10", NOTE, "Lean 4 theorems (list accounting, induction over a nested family tree) + op-sequence correspondence + batch oracle"),
    "C11": ("proof", "Lean theorems, any N and target: after the hop shift the new active state's diagonal moments vanish and all differences of diagonal "
            "moments are unchanged; counterexample theorem for the originally pinned view-subtraction (N=2, target 0) with the partial statement it does "
            "satisfy; both RK4 moment integrators preserve Hermiticity exactly (via the general RK4 invariance theorem); the exponential position-moment "
            "integrator preserves Hermiticity; collapse gives zero moments and the pure active state. PARTIAL: Hermiticity of the exponential momentum-"
            "moment integrator (three-index expression) and the dt->0 agreement of the two integrators are checked on the implementation only. All four "
            "integrator branches, the shift for every target, and collapses with both stores are tied to the code Hermiticity is now proved for BOTH moment integrators incl. the exponential momentum-moment one (delP_exp_hermitian) and lifted to whole A-FSSH runs with hops and collapses (StepThm.afRun_hermitian); gamma_collapse and the collapse loop are modelled (MudModel/Collapse.lean); whole A-FSSH runs correspond incl. moments, generators, hop and collapse events.", "7 C11", NOTE,
            "Lean 4 theorems (Hermitian subspace invariance, Hadamard/unitary conjugation) + correspondence with captured eigh"),
    "C12": ("proof", "Lean theorems about the hidden state: the k-th threshold used is the k-th element of (user list ++ generator stream); the repaired "
            "__deepcopy__ shares a store location between clone and original only through attributes named in shallow_only (the queue); equal states "
            "evolve equally for any step function and any number of steps; SeedSequence.spawn bookkeeping (keys distinct, prefix-stable, never repeated "
            "- from C19); counterexample theorem: the originally pinned value test raises for every object holding an array; on the composed step models a run "
            "splits at any step into the first part and the run continued from the state AND the carried electronics (shRun_append; afRun_append: for "
            "A-FSSH the electronics of the last TWO positions - the repaired simulate() keeps them). Reproducibility of whole "
            "batches (also from the caller's own arrays and on one shared model object), batch-size independence, clone continuation (also of clones taken "
            "while the original runs) and an attribute-graph scan for shared memory are checked on the implementation for every class and both stores. Statistical independence of numpy streams is numpy's contract", "7 C12", NOTE,
            "Lean 4 theorems (store/location model of deepcopy, list lemmas) + implementation oracles on clones and batches"),
    "C13": ("proof", "Lean theorems on the loop model, every interruption point k, trace_every and stopping rule: the run over a concatenated "
            "position stream splits at k into the first part and the loop restarted from the state reached there; the unlogged box latch is "
            "recomputed correctly while the run is going; hence the restarted simulate() (no initial snapshot) logs exactly the entries the "
            "uninterrupted run logs after step k and ends in the same state; counterexample theorem for the originally pinned step counter. "
            "The electronic gauge at the restart point is a KNOWN FINDING (fresh eigh sign; reference coefficients not logged): such cases are "
            "reported as KNOWN-FINDING and re-checked with the tracked electronics handed to restart(), where exact agreement is required. Tied to "
            "real restarts from YAML logs (Ehrenfest, MD, FSSH with thresholds; page sizes 1..16; both rules) StepThm.shRun_append / shRun_drop, ehRun_append / _drop, cumRun_append / _drop, verletRun_add: for FSSH, Ehrenfest, cumulative FSSH and single-surface MD a run over a++b is the run over a followed by the run over b from the state and electronics the first part ended with, i.e. the restarted run logs exactly the uninterrupted log with the first |a| entries dropped.", "7 C13", NOTE,
            "Lean 4 theorems (induction over the position stream, split lemma) + restart oracle at sampled/every interruption point"),
    "C14": ("proof", "Lean refinement of the YAML store to 'a plain list of snapshots', for every page size >= 1 and every history: collect = append "
            "(invariant preserved, all file operations succeed), len, indexing incl. negative indices and IndexError, reload reproduces the object state "
            "(also at exact multiples of the page size), in-memory store refines the same list (stores_agree for every index), clone holds the same "
            "history under a name proved absent from the directory, writes to one trace leave all others untouched. Tied to real stores by random "
            "operation scripts over several traces in one directory (results AND directory listing compared), bit-exact numeric content incl. "
            "adversarial doubles, collect CLI rows. YAML text round-trip of doubles is PyYAML's (checked bit-exactly, not proved)", "7 C14", NOTE,
            "Lean 4 refinement proof (representation invariant, list lemmas) + script correspondence"),
    "C15": ("proof", "Lean theorem crash_prefix: for every history (>=1 snapshot), every page size >= 1 and EVERY crash point at file-operation "
            "granularity the files load, satisfy the representation invariant and hold the completed snapshots or those plus the in-flight one; a "
            "collect on the reloaded trace extends it without duplicates; counterexample theorem for the originally pinned operation order. Tied to "
            "the code by injecting a failure before every write-mode open of every generated history (exhaustive per history) and comparing load "
            "result, contents and directory with the model's prediction for both orders", "7 C15", NOTE,
            "Lean 4 theorem over all prefixes of the operation sequence + exhaustive fault injection per history"),
    "C16": ("proof", "Lean theorems about the stop rule and logging loop for EVERY position stream, limits, box, trace_every, start time/counter: "
            "nothing logged if a limit is met at the start; otherwise the run takes exactly K>=1 steps, K the FIRST step whose check fails (latch = inside "
            "at an earlier check) - never earlier, never later; log = [initial] ++ [steps 0<k<K with (n0+k)%te=0] ++ [final], final exactly once, times "
            "t0+k dt strictly increasing for dt>0; termination within max_steps-n0 steps; the final state does not depend on trace_every and the last logged "
            "entry is that final state for every stride; kinetic energy = 1/2 sum p^2/m of the logged momentum. The "
            "dynamics are abstracted as the position stream (taken from a limit-free run of the same trajectory). Tied to continue_simulating of all "
            "classes incl. MD on boundary-directed states and to whole runs with random limits; even-sampling children checked on the implementation StepThm.shRun_clock/shRun_length: step counter and clock of the k-th logged state of a composed run.", "7 C16", NOTE,
            "Lean 4 theorems (induction over the position stream) + predicate and run-level correspondence"),
    "C17": ("proof", "Lean theorems for any list of traces with weights >= 0, total > 0: every table entry in [0,1], entries sum to one (1-D), "
            "table/counts/histogram invariant under List.Perm, counts = cardinality, hop histogram sums to one, driver row = row-major table. "
            "Tied to real batches of all five classes (even-sampling trees with unequal weights), both stores, summarize() text and CLI rows", "7 C17", NOTE,
            "Lean 4 theorems (list sums, permutations) + correspondence on real batches"),
    "C18": ("proof", "Lean theorems for EVERY point count n and interval a<b: midpoint/trapezoid/Simpson have positive weights, strictly increasing nodes "
            "in [a,b], weights summing to b-a and are exact to degree 1/1/3 (Simpson via a panel decomposition of the loop's 1,4,2,..,4,1 pattern, all odd n); "
            "affine transport: a rule exact to degree d on [-1,1] is exact to degree d on [a,b] under the code's map (all polynomials), so Gauss-Legendre = "
            "numpy leggauss contract + this theorem; counterexample theorem for the originally pinned weights*=0.5. Clenshaw-Curtis is modelled completely "
            "(the inverse FFT by its definition, the inverse DFT): for every n>=2 the weights sum to b-a (roots-of-unity sums + telescoping), nodes strictly "
            "increasing in [a,b] with ends a and b, ALL weights positive and none smaller than the end weights (every entry of the ifft input but the first is <= 0, so each output is >= wcc0 > 0), symmetric, and the rule is exact for linear functions (cc_exact_linear). Partial: CC exactness to "
            "degree n-1 beyond degree 1 for all n is not proved; CC and the leggauss contract are tested per n (2..64 quick, ..384 thorough) in 60-digit "
            "arithmetic. Spawn-stack tensor structure: oracle on the implementation (theorem with the SpawnStack model, C10)", "7 C18", NOTE,
            "Lean 4 theorems (Finset sums, induction on panels, Polynomial.comp + integral substitution) + correspondence for all five rules"),
    "C19": ("proof", "Lean theorems: scaled Boltzmann momenta have kinetic energy per dof exactly kT/2 (any masses>0, T>=0, any draws with "
            "non-zero KE); unscaled p_i = sqrt(m_i kT) z_i; normal generator deviations sigma/2 and 1/sigma, skipped iff a negative component; "
            "SeedSequence.spawn bookkeeping: children keys pairwise distinct, prefix-stable in the number requested, never repeated by later spawns. The generator loops themselves (constGen, normalGen, boltzmannGen): the constant generator yields exactly the requested number of identical conditions; the normal generator never yields more than requested, every yielded sample is the sample of one of the draws with no negative momentum component, the samples for k requests are a prefix of those for k' >= k; every Boltzmann sample with scaling has KE exactly kT/2 per dof; in all three the seeds carried by the yielded samples are pairwise distinct (a skipped draw's seed is never reused). Correspondence of whole generator calls (also on generator objects called before) with ops normalgen/constgen/boltzgen. "
            "Normality/independence of numpy's draws is numpy's contract (stated, not proved)", "7 C19", NOTE,
            "Lean 4 theorems (Real.sqrt algebra, list lemmas) + correspondence with recovered normal draws"),
    "C20": ("proof", "Lean theorems at R/C about the model of poisson_prob_scale (value at 0, exact closed form outside the switch, "
            "series within |x|^5/600 inside it for real and complex x, strictly decreasing on [0,inf) across the switch, range (0,1]); "
            "model tied to the code by bit-level correspondence (4e-15) on boundary-directed scalars; float accuracy of libm is partial "
            "(60-digit oracle, a test)", "7 C20",
            "Lean kernel + Mathlib; axioms propext/Classical.choice/Quot.sound; correspondence harness; libm accuracy not proved",
            "Lean 4 theorems (Real.exp_bound, convex secant slopes) + Float/impl correspondence"),
}
PENDING_UNUSED = "check not built yet in this round (planned: Lean model + theorems + correspondence, DESIGN.md section 7)"

checks, na = [], []
for p in props:
    pid = p["id"]
    if pid in LEVEL:
        cat, text, ref, note, tech = LEVEL[pid]
        checks.append({
            "property_id": pid,
            "quick_cmd": "./vcheck %s quick" % pid,
            "thorough_cmd": "./vcheck %s thorough" % pid,
            "evidence_file": "evidence/%s.json" % pid,
            "replay_cmd_template": "./vcheck %s --replay {path}" % pid,
            "engine": "lean4-model+correspondence",
            "level_claimed": {"category": cat, "text": text, "design_ref": "DESIGN.md section " + ref},
            "level_note": note,
            "technique": tech,
        })
    else:
        na.append({"property_id": pid, "reason": PENDING_UNUSED})

man = {
    "version": 1,
    "setup_cmd": "cd lean && lake build MudModel MudExec MudProof && cd .. && (test -d .pydeps/mpmath || /venv/bin/pip install -q --no-index --find-links /opt/veriftools/wheels --target .pydeps mpmath)",
    "hooks": {"guard": "SMPARKER_MUDSLIDE_VERIF", "enable": "no source hooks: the harness wraps/patches mudslide objects at run time; vcheck exports SMPARKER_MUDSLIDE_VERIF=1 (unused by /repo)",
              "baseline_off_cmd": "cd /repo && /venv/bin/python -m pytest -ra -q -p no:cacheprovider --timeout=900 --continue-on-collection-errors",
              "source_commits": [], "add_only": True},
    "engines": [{"name": "lean4-model+correspondence", "path": "lean/ + harness/",
                 "serves_properties": [c["property_id"] for c in checks],
                 "kind_free_text": "Lean 4 theorems about a hand-written polymorphic model (proved at R/C, executed at Float) + differential correspondence check against /repo + failing-input search"}],
    "checks": checks,
    "not_applicable": na,
    "notes": "fix: commits in /repo are listed in known_findings.txt (fixed: lines). Exit 2 = harness error/timeout, never a verdict.",
}
json.dump(man, open(os.path.join(V, "MANIFEST.json"), "w"), indent=1)
print("claimed:", [c["property_id"] for c in checks], "pending:", len(na))

#!/usr/bin/env python3
"""regenerate /verif/MANIFEST.json from the table below"""
import json, os
V = os.path.dirname(os.path.dirname(os.path.abspath(__file__)))
props = [json.loads(l) for l in open(os.path.join(V, "properties.jsonl"))]

LEVEL = {
    "C20": ("proof", "Lean theorems at R/C about the model of poisson_prob_scale (value at 0, exact closed form outside the switch, "
            "series within |x|^5/600 inside it for real and complex x, strictly decreasing on [0,inf) across the switch, range (0,1]); "
            "model tied to the code by bit-level correspondence (4e-15) on boundary-directed scalars; float accuracy of libm is partial "
            "(60-digit oracle, a test)", "7 C20",
            "Lean kernel + Mathlib; axioms propext/Classical.choice/Quot.sound; correspondence harness; libm accuracy not proved",
            "Lean 4 theorems (Real.exp_bound, convex secant slopes) + Float/impl correspondence"),
}
PENDING = "check not built yet in this round (planned: Lean model + theorems + correspondence, DESIGN.md section 7)"

checks, na = [], []
for p in props:
    pid = p["id"]
    if pid in LEVEL:
        cat, text, ref, note, tech = LEVEL[pid]
        checks.append({
            "property_id": pid,
            "quick_cmd": "./vcheck %s quick" % pid,
            "thorough_cmd": "./vcheck %s thorough" % pid,
            "evidence_file": "evidence/%s.json" % pid,
            "replay_cmd_template": "./vcheck %s --replay {path}" % pid,
            "engine": "lean4-model+correspondence",
            "level_claimed": {"category": cat, "text": text, "design_ref": "DESIGN.md section " + ref},
            "level_note": note,
            "technique": tech,
        })
    else:
        na.append({"property_id": pid, "reason": PENDING})

man = {
    "version": 1,
    "setup_cmd": "cd lean && lake build MudModel MudExec MudProof && cd .. && (test -d .pydeps/mpmath || /venv/bin/pip install -q --no-index --find-links /opt/veriftools/wheels --target .pydeps mpmath)",
    "hooks": {"guard": "SMPARKER_MUDSLIDE_VERIF", "enable": "no source hooks: the harness wraps/patches mudslide objects at run time; vcheck exports SMPARKER_MUDSLIDE_VERIF=1 (unused by /repo)",
              "baseline_off_cmd": "cd /repo && /venv/bin/python -m pytest -ra -q -p no:cacheprovider --timeout=900 --continue-on-collection-errors",
              "source_commits": [], "add_only": True},
    "engines": [{"name": "lean4-model+correspondence", "path": "lean/ + harness/",
                 "serves_properties": [c["property_id"] for c in checks],
                 "kind_free_text": "Lean 4 theorems about a hand-written polymorphic model (proved at R/C, executed at Float) + differential correspondence check against /repo + failing-input search"}],
    "checks": checks,
    "not_applicable": na,
    "notes": "fix: commits in /repo are listed in known_findings.txt (fixed: lines). Exit 2 = harness error/timeout, never a verdict.",
}
json.dump(man, open(os.path.join(V, "MANIFEST.json"), "w"), indent=1)
print("claimed:", [c["property_id"] for c in checks], "pending:", len(na))

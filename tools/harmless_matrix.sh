#!/bin/bash
# tools/harmless_matrix.sh [lanes] [regex] [seed] — applies every harmless/<id>/patch.diff (behaviour-preserving refactorings
# written by sub-agents) to a scratch worktree of /repo (never to /repo) and runs ALL twenty quick checks against it.
# Every line printed is a check that did NOT stay quiet (rc != 0): on these patches any alarm is a false alarm of the
# machinery unless the refactoring turns out not to be behaviour-preserving after all.
cd "$(dirname "$0")/.."
lanes=${1:-4}; seed=${3:-20260930}
ids=($(ls harmless | sort | grep -E "${2:-.}"))
run_lane() {
  lane=$1; W=/tmp/harmlane_$lane
  i=0
  for id in "${ids[@]}"; do
    i=$((i+1)); [ $((i % lanes)) -eq $lane ] || continue
    (cd $W && git checkout -q -- . && git apply /verif/harmless/$id/patch.diff) || { echo "$id patch-does-not-apply"; continue; }
    bad=0
    for p in C01 C02 C03 C04 C05 C06 C07 C08 C09 C10 C11 C12 C13 C14 C15 C16 C17 C18 C19 C20; do
      out=$(VERIF_SEED=$seed VERIF_REPO=$W ./vcheck $p quick 2>&1); rc=$?
      [ $rc -eq 0 ] && continue
      bad=$((bad+1))
      echo "$id $p rc=$rc | $(echo "$out" | grep '^VIOLATION' | head -1 | cut -c1-160) | $(echo "$out" | tail -1 | cut -c1-160)"
    done
    echo "$id quiet-on $((20-bad))/20"
  done
}
for l in $(seq 0 $((lanes-1))); do git -C /repo worktree add -q --detach /tmp/harmlane_$l HEAD || exit 3; done
for l in $(seq 0 $((lanes-1))); do run_lane $l > /tmp/harmlane_$l.log 2>&1 & done
wait
for l in $(seq 0 $((lanes-1))); do git -C /repo worktree remove --force /tmp/harmlane_$l; done
cat /tmp/harmlane_*.log | sort
rm -f /tmp/harmlane_*.log

#!/bin/bash
# usage: tools/run_par.sh quick|thorough [seed] [lanes] [regex]  — like run_all.sh, but several checks at a time (one summary line each, sorted)
cd "$(dirname "$0")/.."
tier=${1:-quick}; seed=${2:-20260930}; lanes=${3:-6}; re=${4:-.}
one() {
  p=$1
  out=$(VERIF_SEED=$seed ./vcheck $p $tier 2>&1); rc=$?
  echo "$p rc=$rc $(echo "$out" | grep -c '^VIOLATION') violations | $(echo "$out" | tail -1 | cut -c1-170)"
}
export -f one; export tier seed
printf "%s\n" C01 C02 C03 C04 C05 C06 C07 C08 C09 C10 C11 C12 C13 C14 C15 C16 C17 C18 C19 C20 | grep -E "$re" | xargs -P $lanes -I{} bash -c 'one {}' | sort

#!/bin/bash
# tools/cross_matrix.sh [lanes] [regex] [seed] — applies seeded/<id>/patch.diff (ids matching the regex) to scratch worktrees and runs
# ALL twenty quick checks against each: prints, per change, which checks raise a violation (and whether with a failing input).
cd "$(dirname "$0")/.."
lanes=${1:-4}; seed=${3:-20260930}
ids=($(ls seeded | sort | grep -E "${2:-.}"))
run_lane() {
  lane=$1; W=/tmp/crosslane_$lane
  i=0
  for id in "${ids[@]}"; do
    i=$((i+1)); [ $((i % lanes)) -eq $lane ] || continue
    (cd $W && git checkout -q -- . && git apply /verif/seeded/$id/patch.diff) || { echo "$id patch-does-not-apply"; continue; }
    hits=""
    for p in C01 C02 C03 C04 C05 C06 C07 C08 C09 C10 C11 C12 C13 C14 C15 C16 C17 C18 C19 C20; do
      out=$(VERIF_SEED=$seed VERIF_REPO=$W ./vcheck $p quick 2>&1); rc=$?
      [ $rc -eq 0 ] && continue
      tag=$p; [ $rc -ge 2 ] && tag="$p(exit$rc)"
      [ $rc -eq 1 ] && echo "$out" | grep '^VIOLATION' | grep -q 'no-failing-input-found' && tag="$p(corr-only)"
      hits="$hits $tag"
    done
    echo "$id caught-by:$hits"
  done
}
for l in $(seq 0 $((lanes-1))); do git -C /repo worktree add -q --detach /tmp/crosslane_$l HEAD || exit 3; done
for l in $(seq 0 $((lanes-1))); do run_lane $l > /tmp/crosslane_$l.log 2>&1 & done
wait
for l in $(seq 0 $((lanes-1))); do git -C /repo worktree remove --force /tmp/crosslane_$l; done
cat /tmp/crosslane_*.log | sort
rm -f /tmp/crosslane_*.log

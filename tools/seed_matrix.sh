#!/bin/bash
# tools/seed_matrix.sh [lanes]  — applies every seeded/<id>/patch.diff to a scratch worktree of /repo (never to /repo),
# runs the quick check of the property it was written against, prints one line per change, removes the worktrees.
# A seeded dir may name further checks in meta.json ("also": ["C11"]).
cd "$(dirname "$0")/.."
lanes=${1:-4}
ids=($(ls seeded | sort | grep -E "${2:-.}"))
run_lane() {
  lane=$1; W=/tmp/seedlane_$lane
  i=0
  for id in "${ids[@]}"; do
    i=$((i+1)); [ $((i % lanes)) -eq $lane ] || continue
    prop=${id%%-*}
    also=$(python3 -c "import json,sys; print(' '.join(json.load(open('seeded/$id/meta.json')).get('also',[])))" 2>/dev/null)
    (cd $W && git checkout -q -- . && git apply /verif/seeded/$id/patch.diff) || { echo "$id patch-does-not-apply"; continue; }
    for p in $prop $also; do
      out=$(VERIF_REPO=$W ./vcheck $p quick 2>&1); rc=$?
      kind="MISSED"; [ $rc -eq 1 ] && kind="caught"
      [ $rc -eq 1 ] && echo "$out" | grep '^VIOLATION' | grep -q 'no-failing-input-found' && kind="caught(no-failing-input-found)"
      [ $rc -ge 2 ] && kind="HARNESS-ERROR"
      echo "$id $p $kind | $(echo "$out" | tail -1 | sed 's/.*theorems/theorems/' | cut -c1-120)"
    done
  done
}
for l in $(seq 0 $((lanes-1))); do git -C /repo worktree add -q --detach /tmp/seedlane_$l HEAD || exit 3; done   # one at a time: git locks
for l in $(seq 0 $((lanes-1))); do run_lane $l > /tmp/seedlane_$l.log 2>&1 & done
wait
for l in $(seq 0 $((lanes-1))); do git -C /repo worktree remove --force /tmp/seedlane_$l; done
cat /tmp/seedlane_*.log | sort
rm -f /tmp/seedlane_*.log

# -*- coding: utf-8 -*-
"""Shared by C02, C07, C11: capture of numpy.linalg.eigh, electronic-step cases on fake electronics."""
import numpy as np

from .core import fb, fbs, cbs, unfb
from .synth import FakeElec, ShellModel, random_rho


class EighCapture:
    """wraps numpy.linalg.eigh for the duration of a `with` block and records (input, eigenvalues, eigenvectors);
    also monitors LAPACK's contract: ||C^H C - 1||, ||A C - C diag(w)|| on the Hermitian part of the input"""

    def __init__(self):
        self.calls = []
        self.worst_orth = 0.0
        self.worst_resid = 0.0

    def __enter__(self):
        self.orig = np.linalg.eigh
        cap = self

        def wrapped(a, *args, **kw):
            w, c = cap.orig(a, *args, **kw)
            a_ = np.array(a, copy=True)
            cap.calls.append((a_, np.array(w, copy=True), np.array(c, copy=True)))
            ah = np.tril(a_) + np.tril(a_, -1).conj().T      # LAPACK reads the lower triangle
            if np.iscomplexobj(ah):
                ah = ah - 1j * np.diag(np.diag(ah).imag)
            sc = max(1e-300, float(np.max(np.abs(ah))))
            cap.worst_orth = max(cap.worst_orth, float(np.max(np.abs(c.conj().T @ c - np.eye(len(w))))))
            cap.worst_resid = max(cap.worst_resid, float(np.max(np.abs(ah @ c - c * w))) / sc)
            return w, c
        np.linalg.eigh = wrapped
        return self

    def __exit__(self, *exc):
        np.linalg.eigh = self.orig
        return False


FALLBACKS = {"count": 0}


def first_eigh(cap, where, W=None):
    """the first numpy.linalg.eigh call captured inside `where`: the model is fed LAPACK's result.
    A rewrite may obtain the propagator some other way (scipy, an aliased import, expm); the propagator exp(-i W dt) does not
    depend on which eigenbasis of W is used, so when the caller can name the Hermitian generator `W` the harness
    diagonalises it itself and the comparison of the resulting states stays as strict as before."""
    from .core import CorrespondenceBroken
    if cap.calls:
        return cap.calls[0]
    if W is not None:
        W = np.array(W, copy=True)
        w, c = cap.orig(W) if hasattr(cap, "orig") else np.linalg.eigh(W)
        FALLBACKS["count"] += 1
        return W, np.array(w), np.array(c)
    raise CorrespondenceBroken("%s did not call numpy.linalg.eigh: the model cannot be fed the eigen-decomposition it used" % where)


def elec_case(rng, N=None, n=None, rho_kind=None, scale=0.05):
    """two fake electronics objects (previous and current step) with symmetric H, antisymmetric couplings"""
    N = N or int(rng.integers(2, 9))
    n = n or int(rng.integers(1, 4))

    def sym():
        a = rng.normal(size=(N, N)) * scale
        return 0.5 * (a + a.T) + np.diag(np.arange(N) * scale)

    def anti():
        d = rng.normal(size=(N, N, n))
        return d - np.transpose(d, (1, 0, 2))
    H0 = sym()
    H1 = H0 + 0.05 * sym()
    d0 = anti()
    d1 = d0 + 0.05 * anti()
    v0 = rng.normal(size=n) * 0.02
    v1 = v0 + rng.normal(size=n) * 0.002
    if rng.random() < 0.08:
        # far out in the asymptotic region couplings underflow to EXACTLY zero: diagonal Hamiltonians, no derivative coupling,
        # the generator W is diagonal; rho still has to be rotated by the phases e^{-i (E_i - E_j) dt}
        H0 = np.diag(np.diag(H0))
        H1 = np.diag(np.diag(H1))
        d0 = np.zeros_like(d0)
        d1 = np.zeros_like(d1)
    kind = rho_kind or ["pure", "mixed", "basis"][int(rng.integers(0, 3))]
    rho = random_rho(rng, N, kind)
    dt = float(10 ** rng.uniform(-1, 1.3))
    return dict(N=N, n=n, H0=H0, H1=H1, d0=d0, d1=d1, v0=v0, v1=v1, rho=rho, dt=dt, kind=kind,
                mass=10 ** rng.uniform(2, 4, size=n))


def make_traj(c, integ="exp", cls="TrajectorySH", **opts):
    import mudslide
    shell = ShellModel(c["N"], c["mass"])
    if c.get("int_mass"):
        # integer-VALUED masses handed over as an int64 array (a user-defined model may do that)
        shell = ShellModel(c["N"], np.asarray(c["mass"]).astype(np.int64), dtype=None)
    t = getattr(mudslide, cls)(shell, np.zeros(c["n"]), np.zeros(c["n"]), np.array(c["rho"]),
                               state0=0, dt=c["dt"], electronic_integration=integ, **opts)
    t.velocity = np.array(c["v1"], dtype=np.float64)
    t.last_velocity = np.array(c["v0"], dtype=np.float64)
    return t


def elecs(c):
    e0 = FakeElec(np.diag(c["H0"]), dc=np.array(c["d0"]), H=np.array(c["H0"]))
    e1 = FakeElec(np.diag(c["H1"]), dc=np.array(c["d1"]), H=np.array(c["H1"]))
    return e0, e1


def parse_cmat(toks, N):
    vals = [unfb(t) for t in toks[:2 * N * N]]
    return (np.array(vals[0::2]) + 1j * np.array(vals[1::2])).reshape(N, N)

# -*- coding: utf-8 -*-
"""Whole FSSH runs against the composed step of the model (MudModel/Step.lean, op `shrun`): the real TrajectorySH is run
on a synthetic multi-state multi-dimensional model; what it reads from outside at every step (electronics at the new
position, the eigen-decomposition LAPACK returned for the midpoint generator, the random threshold) is recorded and handed
to the model, which then has to reproduce every snapshot (position, momentum, density matrix, active state) and every
hop / frustrated-hop event of the run."""
import numpy as np

from .core import fb, fbs, cbs, unfb, allclose, safe_oracle, raised_in_repo, Model
from .synth import SynthModel, random_rho
from . import eleccommon as ec


def make_spec(rng, hops=True, cls="TrajectorySH"):
    N, n = int(rng.integers(2, 5)), int(rng.integers(1, 4))
    K = int(rng.integers(15, 50))
    # thresholds: hop-free runs use unreachable values; otherwise small values so that several attempts happen
    zetas = [1e300] * (K + 3) if not hops else [float(z) for z in rng.random(K + 3) * rng.choice([0.02, 0.1, 0.5])]
    if cls == "TrajectoryCum" and hops:
        zetas = [float(z) for z in rng.random(K + 3) * rng.choice([0.05, 0.3, 0.9])]
    return dict(cls=cls, representation=("diabatic" if (cls == "Ehrenfest" and rng.random() < 0.5) else "adiabatic"), N=N, n=n, K=K, model_seed=int(rng.integers(1, 10 ** 6)), x0=[float(v) for v in rng.normal(size=n) * 0.5],
                p0=[float(v) for v in rng.normal(size=n) * 10 + 5], state=int(rng.integers(0, N)),
                dt=float(rng.choice([1.0, 4.0, 10.0])), zetas=zetas, t0=float(rng.choice([0.0, 3.5])))


def _elec_record(e, N):
    return (np.array(e.hamiltonian(), copy=True), np.array(e.derivative_coupling_tensor(), copy=True),
            np.array([e.force(i) for i in range(N)]))


def _generator(t, last, this, cap, which):
    """fallback for steps that did not go through numpy.linalg.eigh (see eleccommon.first_eigh): the Hermitian generator the
    exponential integrators diagonalise, as the implementation's own public hamiltonian_propagator gives it; None otherwise"""
    if cap.calls or getattr(t, which, "exp") != "exp":
        return None
    try:
        return np.array(t.hamiltonian_propagator(last, this))
    except Exception:
        return None


class RecordMismatch(Exception):
    """the trace simulate() returned is not the record of the run that was just made"""


def record_run(spec):
    """run the implementation; returns (line for the model driver, snapshots, events, eigh contract monitors)"""
    import mudslide
    rng = np.random.Generator(np.random.PCG64(spec["model_seed"]))
    N, n, K = spec["N"], spec["n"], spec["K"]
    cls = spec.get("cls", "TrajectorySH")
    model = SynthModel(rng, N, n, scale=0.03, gap=0.02, quad=0.004, mass=10 ** rng.uniform(2.5, 3.5, size=n),
                       representation=spec.get("representation", "adiabatic"))
    rho0 = random_rho(rng, N, "pure")
    t = getattr(mudslide, cls)(model, np.array(spec["x0"]), np.array(spec["p0"]), rho0, state0=spec["state"], dt=spec["dt"],
                               t0=spec["t0"], max_steps=K, zeta_list=list(spec["zetas"]), seed_sequence=1)
    cum = []
    z0 = float(getattr(t, "zeta", 0.0))
    if cls == "TrajectoryCum":
        orig_hopper = t.hopper

        def hopper(g):
            bg = type(t.random_state.bit_generator)()
            bg.state = t.random_state.bit_generator.state
            gen = np.random.Generator(bg)
            u, nxt = float(gen.random()), float(gen.uniform())
            cum.append((u, float(t.zeta_list[0]) if len(t.zeta_list) else nxt))
            return orig_hopper(g)
        t.hopper = hopper
    elecs, caps = [], []
    orig_update = model.update

    def upd(X, *a, **kw):
        r = orig_update(X, *a, **kw)
        elecs.append(_elec_record(r, N))
        return r
    model.update = upd
    orig_pe = t.propagate_electronics
    mon = {"orth": 0.0, "resid": 0.0}

    def pe(last, this, dt):
        with ec.EighCapture() as cap:
            orig_pe(last, this, dt)
        caps.append(ec.first_eigh(cap, "propagate_electronics", W=_generator(t, last, this, cap, "electronic_integration")))
        mon["orth"] = max(mon["orth"], cap.worst_orth)
        mon["resid"] = max(mon["resid"], cap.worst_resid)
    t.propagate_electronics = pe
    tr = t.simulate()
    snaps = list(tr)
    steps = len(snaps) - 1
    if steps != len(caps) or len(elecs) != steps + 1:
        # e.g. a trace object shared between trajectories (a mutable default): the second run of a process returns the first run's
        # snapshots too
        raise RecordMismatch("simulate() returned a trace with %d snapshots for a run of %d steps (%d electronic propagations, %d model "
                             "updates; max_steps=%d): the trace is not the record of this run" % (len(snaps), len(caps), len(caps), len(elecs), K))
    op = {"TrajectorySH": "shrun", "Ehrenfest": "ehrun", "TrajectoryCum": "cumrun"}[cls]
    line = [op, N, n, steps] + fbs(model.mass) + [fb(spec["dt"])] + fbs(spec["x0"]) + fbs(np.array(spec["p0"]) / model.mass) + \
        cbs(rho0) + [spec["state"], fb(spec["t0"])] + ([fb(z0)] if cls == "TrajectoryCum" else [])
    H, dc, F = elecs[0]
    line += fbs(H) + fbs(dc) + fbs(F)
    for k in range(steps):
        H, dc, F = elecs[k + 1]
        _a, w, cf = caps[k]
        line += fbs(H) + fbs(dc) + fbs(F) + fbs(w) + cbs(cf) + [fb(spec["zetas"][k])]
        if cls == "TrajectoryCum":
            line += [fb(cum[k][0]), fb(cum[k][1])]
    events = sorted([(e["time"], 1, e["from"], e["to"]) for e in tr.hops] +
                    [(e["time"], 0, e["from"], e["to"]) for e in tr.events.get("frustrated_hop", [])])
    return line, snaps, events, mon, np.array(model.mass)


def compare(spec, out, snaps, events, mass):
    """model output of `shrun` against the implementation's snapshots and events; returns (problem or None, stats)"""
    N, n = spec["N"], spec["n"]
    steps = len(snaps) - 1
    if out[0] != "ok":
        return "model said %r" % (out[:3],), {}
    cls = spec.get("cls", "TrajectorySH")
    per = 2 * n + 2 * N * N + {"TrajectorySH": 3, "Ehrenfest": 2, "TrajectoryCum": 5}[cls]
    toks = out[1:]
    if len(toks) != per * steps:
        return "model returned %d tokens for %d steps" % (len(toks), steps), {}
    mev = []
    for k in range(steps):
        tk = toks[per * k: per * (k + 1)]
        x = np.array([unfb(v) for v in tk[:n]])
        v = np.array([unfb(v) for v in tk[n:2 * n]])
        rho = ec.parse_cmat(tk[2 * n:2 * n + 2 * N * N], N)
        base = 2 * n + 2 * N * N
        st = int(tk[base])
        ev, to = (int(tk[base + 1]), int(tk[base + 2])) if cls != "Ehrenfest" else (-1, -1)
        s = snaps[k + 1]
        if cls == "Ehrenfest":
            pot = unfb(tk[base + 1])
            if abs(pot - s["potential"]) > 1e-9 * (abs(s["potential"]) + 1e-3):
                return "step %d: potential %r in the log, model tr(rho H) = %r" % (k + 1, s["potential"], pot), {}
        if cls == "TrajectoryCum":
            pc, zz = unfb(tk[base + 3]), unfb(tk[base + 4])
            if abs(pc - s["prob_cum"]) > 1e-9 * max(abs(pc), abs(s["prob_cum"])) or zz != s["zeta"]:
                return "step %d: prob_cum/zeta %r/%r in the log, model %r/%r" % (k + 1, s["prob_cum"], s["zeta"], pc, zz), {}
        sx, sp, srho = np.asarray(s["position"]), np.asarray(s["momentum"]), np.asarray(s["density_matrix"])
        if st != int(s["active"]):
            return "step %d: model on state %d, implementation on %d" % (k + 1, st, s["active"]), {}
        if not allclose(x, sx, 1.0 + float(np.max(np.abs(sx)))) or not allclose(v * mass, sp, float(np.max(np.abs(sp))) + 1e-300):
            return "step %d: position/momentum differ (model x %r impl %r)" % (k + 1, x, sx), {}
        if not allclose(np.concatenate([rho.real.ravel(), rho.imag.ravel()]), np.concatenate([srho.real.ravel(), srho.imag.ravel()]), 1.0, rtol=1e-8):
            return "step %d: density matrix differs by %.3g" % (k + 1, float(np.max(np.abs(rho - srho)))), {}
        if ev >= 0:
            mev.append((k, ev, to))
    # events: the implementation stamps them with the time BEFORE the step's `time += dt`
    iev = [(int(round((tm - spec["t0"]) / spec["dt"])), acc, to) for (tm, acc, _fr, to) in events]
    if iev != mev:
        return "events differ: implementation %r, model %r" % (iev[:6], mev[:6]), {}
    return None, {"steps": steps, "accepted": sum(1 for e in mev if e[1] == 1), "frustrated": sum(1 for e in mev if e[1] == 0)}


@safe_oracle
def oracle_whole_run(args):
    """one whole run of the real class against the composed-step model (used to replay a run on which the implementation
    raised, or on which it and the model differ): the implementation has to get through the run, and the model has to
    reproduce every snapshot and event"""
    spec = dict(args)
    if spec.get("cls") == "AugmentedFSSH":
        line, states, hop_ev, col_ev, caps, mass = record_afssh(spec)
        prob = afssh_property_problem(states)
        st = {}
        if prob is None:
            out = Model().run([line])[0]
            prob, st = compare_afssh(spec, out, states, hop_ev, col_ev, caps, mass)
    else:
        try:
            for _rep in range(int(spec.get("repeat", 1))):      # (state shared between trajectories shows from the second run on)
                line, snaps, events, mon, mass = record_run(spec)
        except RecordMismatch as e:
            return False, {"problem": str(e)}, {"problem": None}, str(e)
        out = Model().run([line])[0]
        prob, st = compare(spec, out, snaps, events, mass)
    return prob is None, dict(st, problem=prob), {"problem": None}, prob or "ok"


def _guarded_record(ctx, label, spec, fn):
    """record one run of the implementation; if the implementation itself raises, that run is a failing input"""
    try:
        return fn(spec)
    except RecordMismatch:
        spec = dict(spec, repeat=2)
        ok, obs, req, text = oracle_whole_run(spec)
        ctx.case(None)
        if not ok:
            ctx.oracle_fail(label + "-trace-not-this-run", "whole_run", spec, obs, req, text)
        return None
    except Exception as e:  # noqa
        if not raised_in_repo(e):
            raise
        ok, obs, req, text = oracle_whole_run(spec)
        ctx.case(None)
        ctx.oracle_fail(label + "-raised", "whole_run", spec, obs, req, text)
        return None


def run_correspondence(ctx, count, hops=True, label="shrun", cls="TrajectorySH"):
    rng = ctx.rng
    specs, lines, recs = [], [], []
    for _ in range(count):
        spec = make_spec(rng, hops=hops, cls=cls)
        got = _guarded_record(ctx, label, spec, record_run)
        if got is None:
            continue
        line, snaps, events, mon, mass = got
        ctx.monitor("eigh_orthonormality", mon["orth"])
        ctx.monitor("eigh_residual_rel", mon["resid"])
        specs.append(spec); lines.append(line); recs.append((snaps, events, mass))
    outs = ctx.model.run(lines)
    for spec, out, (snaps, events, mass) in zip(specs, outs, recs):
        prob, st = compare(spec, out, snaps, events, mass)
        ctx.case((label, spec["N"], spec["n"], min(st.get("accepted", 0), 3), min(st.get("frustrated", 0), 2)),
                 {"op": label, "N": spec["N"], "n": spec["n"], "steps": len(snaps) - 1, "impl_events": events[:4]})
        ctx.count(label + "_runs")
        ctx.count(label + "_steps", st.get("steps", 0))
        ctx.count(label + "_accepted_hops", st.get("accepted", 0))
        ctx.count(label + "_frustrated_hops", st.get("frustrated", 0))
        if prob:
            ctx.corr_mismatch(label, {k: v for k, v in spec.items() if k != "zetas"}, prob)


# ------------------------------------------------------------------------------------------------
# A-FSSH whole runs (MudModel/AStep.lean, op `afrun`)
# ------------------------------------------------------------------------------------------------
def record_afssh(spec):
    """run AugmentedFSSH (two states, exponential integrators) and record everything it reads from outside per step, plus its
    own state after every step (position, velocity, rho, active state, both moment tensors)"""
    import mudslide
    rng = np.random.Generator(np.random.PCG64(spec["model_seed"]))
    N, n, K = 2, spec["n"], spec["K"]
    model = SynthModel(rng, N, n, scale=0.03, gap=0.02, quad=0.004, mass=10 ** rng.uniform(2.5, 3.5, size=n))
    rho0 = random_rho(rng, N, "pure")
    t = mudslide.AugmentedFSSH(model, np.array(spec["x0"]), np.array(spec["p0"]), rho0, state0=spec["state"], dt=spec["dt"],
                               t0=spec["t0"], max_steps=K, zeta_list=list(spec["zetas"]), seed_sequence=spec.get("seed", 1))
    elecs, capR, capP, capE, states, randoms, per_step_es = [], [], [], [], [], [], []
    orig_update = model.update

    def upd(X, *a, **kw):
        r = orig_update(X, *a, **kw)
        elecs.append(_elec_record(r, N) + (np.array(r.force_matrix(), copy=True),))
        return r
    model.update = upd

    def capture(orig, store):
        def f(last, this, *a):
            with ec.EighCapture() as cap:
                orig(last, this, *a)
            store.append(ec.first_eigh(cap, getattr(orig, "__name__", "a moment/electronic propagation call"),
                                       W=_generator(t, last, this, cap, "electronic_integration" if orig is orig_pe else "augmented_integration")))
        return f
    orig_pe = t.propagate_electronics
    t.advance_delR = capture(t.advance_delR, capR)
    t.advance_delP = capture(t.advance_delP, capP)
    t.propagate_electronics = capture(t.propagate_electronics, capE)
    orig_random = t.random

    def rnd():
        v = orig_random()
        randoms.append(float(v))
        return v
    t.random = rnd
    orig_sh = t.surface_hopping
    gscale = float(spec.get("gamma_scale", 1.0))
    if gscale != 1.0:
        # (collapses are rare with the physical rate on short runs: the rate is scaled up in the implementation; the model gets the
        #  random numbers divided by the same factor - the loop, the reset and the rate itself are what is being compared)
        orig_gamma = t.gamma_collapse
        t.gamma_collapse = lambda electronics=None: orig_gamma(electronics) * gscale

    def sh(last, this):
        k0 = len(randoms)
        orig_sh(last, this)
        per_step_es.append(list(randoms[k0:]))
        states.append((np.array(t.position), np.array(t.velocity), np.array(t.rho), int(t.state), np.array(t.delR), np.array(t.delP)))
    t.surface_hopping = sh
    tr = t.simulate()
    steps = len(states)
    line = ["afrun", N, n, steps] + fbs(model.mass) + [fb(spec["dt"])] + fbs(spec["x0"]) + fbs(np.array(spec["p0"]) / model.mass) + \
        fbs(np.zeros(n)) + cbs(rho0) + [spec["state"], fb(spec["t0"])]
    H, dc, F, FM = elecs[0]
    line += fbs(H) + fbs(dc) + fbs(F) + fbs(FM)
    for k in range(steps):
        H, dc, F, FM = elecs[k + 1]
        line += fbs(H) + fbs(dc) + fbs(F) + fbs(FM)
        for cap in (capR[k], capP[k], capE[k]):
            line += fbs(cap[1]) + cbs(cap[2])
        # e < gscale * gamma  <=>  e / gscale < gamma: the model computes the physical rate, the scaled loop sees e / gscale
        line += [fb(spec["zetas"][k]), len(per_step_es[k])] + fbs([e / gscale for e in per_step_es[k]])
    hop_ev = sorted([(e["time"], 1, e["to"]) for e in tr.hops] + [(e["time"], 0, e["to"]) for e in tr.events.get("frustrated_hop", [])])
    col_ev = [e["time"] for e in tr.events.get("collapse", [])]
    return line, states, hop_ev, col_ev, (capR, capP, capE), np.array(model.mass)


def afssh_property_problem(states):
    """C11 on the implementation's own run: both moment tensors Hermitian after every step (relative 1e-9)"""
    for k, (_x, _v, _rho, _st, dR, dP) in enumerate(states):
        for name, X in (("delR", dR), ("delP", dP)):
            size = float(np.max(np.abs(X)))
            err = float(np.max(np.abs(X - np.conj(np.transpose(X, (0, 2, 1))))))
            if not np.all(np.isfinite(X)) or err > 1e-9 * size + 1e-300:
                return "step %d: %s of the implementation is not Hermitian (defect %.3g of %.3g)" % (k + 1, name, err, size)
    return None


def compare_afssh(spec, out, states, hop_ev, col_ev, caps, mass):
    N, n = 2, spec["n"]
    steps = len(states)
    if out[0] != "ok":
        return "model said %r" % (out[:3],), {}
    cm = 2 * N * N
    per = 2 * n + cm + 4 + 2 * cm + 2 * n * cm
    toks = out[1:]
    if len(toks) != per * steps:
        return "model returned %d tokens for %d steps (expected %d)" % (len(toks), steps, per * steps), {}
    capR, capP, capE = caps
    nacc = nfr = ncol = 0
    mhops, mcols = [], []

    def same(a, b, sc=None, rtol=1e-8):
        sc = sc if sc is not None else float(np.max(np.abs(b))) + 1e-300
        return allclose(np.concatenate([np.real(a).ravel(), np.imag(a).ravel()]), np.concatenate([np.real(b).ravel(), np.imag(b).ravel()]), sc, rtol=rtol)
    for k in range(steps):
        tk = toks[per * k: per * (k + 1)]
        x = np.array([unfb(v) for v in tk[:n]])
        v = np.array([unfb(v) for v in tk[n:2 * n]])
        p = 2 * n
        rho = ec.parse_cmat(tk[p:p + cm], N); p += cm
        st, ev, to, nc = int(tk[p]), int(tk[p + 1]), int(tk[p + 2]), int(tk[p + 3]); p += 4
        HR = ec.parse_cmat(tk[p:p + cm], N); p += cm
        W = ec.parse_cmat(tk[p:p + cm], N); p += cm
        dR = np.array([ec.parse_cmat(tk[p + q * cm:p + (q + 1) * cm], N) for q in range(n)]); p += n * cm
        dP = np.array([ec.parse_cmat(tk[p + q * cm:p + (q + 1) * cm], N) for q in range(n)])
        sx, sv, srho, sst, sdR, sdP = states[k]
        if st != sst:
            return "step %d: model on state %d, implementation on %d" % (k + 1, st, sst), {}
        if not allclose(x, sx, 1.0 + float(np.max(np.abs(sx)))) or not allclose(v, sv, float(np.max(np.abs(sv))) + 1e-300):
            return "step %d: position/velocity differ" % (k + 1), {}
        if not same(rho, srho, 1.0):
            return "step %d: density matrix differs by %.3g" % (k + 1, float(np.max(np.abs(rho - srho)))), {}
        # the generators handed to eigh (LAPACK reads the lower triangle)
        for name, mine, cap in (("advance_delR", HR, capR[k]), ("advance_delP", W, capP[k]), ("propagate_electronics", W, capE[k])):
            if not same(np.tril(mine), np.tril(cap[0])):
                return "step %d: the generator of %s differs from the model's (which electronics / velocities enter it)" % (k + 1, name), {}
        msc = max(float(np.max(np.abs(sdR))), float(np.max(np.abs(sdP))), 1e-30)
        if not same(dR, sdR, float(np.max(np.abs(sdR))) + 1e-12 * msc, rtol=1e-7) or not same(dP, sdP, float(np.max(np.abs(sdP))) + 1e-12 * msc, rtol=1e-7):
            return "step %d: moments differ (delR %.3g, delP %.3g)" % (k + 1, float(np.max(np.abs(dR - sdR))), float(np.max(np.abs(dP - sdP)))), {}
        if ev >= 0:
            mhops.append((k, ev, to))
            nacc += ev == 1
            nfr += ev == 0
        if nc:
            mcols.append(k)
            ncol += nc
    ihops = [(int(round((tm - spec["t0"]) / spec["dt"])), acc, to) for (tm, acc, to) in hop_ev]
    icols = [int(round((tm - spec["t0"]) / spec["dt"])) for tm in col_ev]
    if ihops != mhops:
        return "hop events differ: implementation %r, model %r" % (ihops[:6], mhops[:6]), {}
    if icols != mcols:
        return "collapse events differ: implementation at steps %r, model %r" % (icols[:8], mcols[:8]), {}
    return None, {"steps": steps, "accepted": nacc, "frustrated": nfr, "collapses": ncol}


def run_afssh_correspondence(ctx, count, label="afrun"):
    rng = ctx.rng
    specs, lines, recs = [], [], []
    for i in range(count):
        n = int(rng.integers(1, 4))
        K = int(rng.integers(15, 45))
        spec = dict(n=n, K=K, model_seed=int(rng.integers(1, 10 ** 6)), x0=[float(v) for v in rng.normal(size=n) * 0.5],
                    p0=[float(v) for v in rng.normal(size=n) * 10 + 5], state=int(rng.integers(0, 2)), dt=float(rng.choice([1.0, 4.0, 10.0])),
                    zetas=[float(z) for z in rng.random(K + 3) * rng.choice([0.05, 0.3, 1.0])], t0=float(rng.choice([0.0, 3.5])),
                    seed=int(rng.integers(1, 2 ** 31)), gamma_scale=float([1.0, 30.0, 1000.0][i % 3]), cls="AugmentedFSSH")
        got = _guarded_record(ctx, label, spec, record_afssh)
        if got is None:
            continue
        line, states, hop_ev, col_ev, caps, mass = got
        specs.append(spec); lines.append(line); recs.append((states, hop_ev, col_ev, caps, mass))
    outs = ctx.model.run(lines)
    for spec, out, (states, hop_ev, col_ev, caps, mass) in zip(specs, outs, recs):
        pp = afssh_property_problem(states)
        if pp:
            ctx.oracle_fail(label + "-moments-not-hermitian", "whole_run", spec, {"problem": pp}, {"problem": None}, pp)
        prob, st = compare_afssh(spec, out, states, hop_ev, col_ev, caps, mass)
        ctx.case((label, spec["n"], min(st.get("accepted", 0), 2), min(st.get("collapses", 0), 2)),
                 {"op": label, "n": spec["n"], "steps": len(states), "hops": hop_ev[:3], "collapses": col_ev[:3]})
        ctx.count(label + "_runs")
        ctx.count(label + "_steps", st.get("steps", 0))
        ctx.count(label + "_accepted_hops", st.get("accepted", 0))
        ctx.count(label + "_frustrated_hops", st.get("frustrated", 0))
        ctx.count(label + "_collapses", st.get("collapses", 0))
        if prob:
            ctx.corr_mismatch(label, {k: v for k, v in spec.items() if k != "zetas"}, prob)

# -*- coding: utf-8 -*-
"""whole generator loops (`__call__(nsamples)`) against MudModel.Generators.{normalGen, constGen, boltzmannGen}"""
import numpy as np


def _prior(rng, ent):
    """a SeedSequence with some spawning history, and its (key, counter)"""
    ss = np.random.SeedSequence(ent)
    for _ in range(int(rng.integers(0, 3))):
        ss = ss.spawn(int(rng.integers(1, 4)))[-1] if rng.random() < 0.5 else (ss.spawn(int(rng.integers(1, 4))), ss)[1]
    return ss


def build(rng, mudslide, fbs, fb, count):
    KB = mudslide.constants.boltzmann
    lines, keep = [], []
    for i in range(count):
        kind = ["normal", "const", "boltzmann"][i % 3]
        n = int(rng.integers(1, 4))
        k = int(rng.integers(1, 9))
        ent = int(rng.integers(0, 2 ** 31))
        tseed = int(rng.integers(1, 2 ** 31))
        prior = int(rng.integers(0, 3))            # earlier calls of the SAME generator object: the counter has advanced
        if kind == "normal":
            x0 = rng.normal(size=n) * 5
            k0 = np.abs(rng.normal(size=n)) * rng.choice([0.3, 3.0, 30.0])
            sigma = 10 ** rng.uniform(-0.7, 1.3, size=n)
            g = mudslide.TrajGenNormal(x0, k0, 0, sigma, seed=ent, seed_traj=tseed)
            r2 = np.random.default_rng(tseed)
            for _ in range(prior):
                kk = int(rng.integers(1, 4))
                list(g(kk))
                for _j in range(kk):
                    r2.standard_normal(n), r2.standard_normal(n)
            nsp = int(g.seed_sequence.n_children_spawned)
            draws = [(r2.standard_normal(n), r2.standard_normal(n)) for _ in range(k)]
            got = list(g(k))
            line = ["normalgen", n, k] + fbs(x0) + fbs(k0) + fbs(sigma) + [ent, 0, nsp, k]
            for zx, zk in draws:
                line += fbs(zx) + fbs(zk)
            args = {"kind": kind, "x0": x0, "k0": k0, "sigma": sigma, "seed": ent, "tseed": tseed, "k": k, "prior_spawned": nsp}
        elif kind == "const":
            g = mudslide.TrajGenConst(rng.normal(size=n), rng.normal(size=n), 0, seed=ent)
            for _ in range(prior):
                list(g(int(rng.integers(1, 4))))
            nsp = int(g.seed_sequence.n_children_spawned)
            got = list(g(k))
            line = ["constgen", ent, 0, nsp, k]
            args = {"kind": kind, "seed": ent, "k": k, "prior_spawned": nsp, "n": n}
        else:
            mass = 10 ** rng.uniform(0, 4, size=n)
            T = float(10 ** rng.uniform(0, 3.5))
            scale = bool(rng.integers(0, 2))
            g = mudslide.TrajGenBoltzmann(rng.normal(size=n), mass, T, 0, scale=scale, seed=ent, momentum_seed=tseed)
            r2 = np.random.default_rng(tseed)
            for _ in range(prior):
                kk = int(rng.integers(1, 4))
                list(g(kk))
                for _j in range(kk):
                    r2.standard_normal(n)
            nsp = int(g.seed_sequence.n_children_spawned)
            draws = [r2.standard_normal(n) for _ in range(k)]
            got = [(np.array(a), np.array(b), c, d) for a, b, c, d in g(k)]
            line = ["boltzgen", int(scale), n, k] + fbs(g.position) + fbs(mass) + [fb(KB * T), ent, 0, nsp, k]
            for z in draws:
                line += fbs(z)
            args = {"kind": kind, "mass": mass, "T": T, "scale": scale, "seed": ent, "tseed": tseed, "k": k, "prior_spawned": nsp}
        lines.append(line)
        keep.append((args, n, got, int(g.seed_sequence.n_children_spawned)))
    return lines, keep


def compare(keep, outs, unfb, allclose):
    """yields (args, n_yielded_model, problem or None)"""
    for (args, n, got, after), o in zip(keep, outs):
        toks = o[1:]
        cnt = int(toks[0])
        pos = 1
        prob = None
        model = []
        for _ in range(cnt):
            ln = int(toks[pos])
            key = [int(t) for t in toks[pos + 1:pos + 1 + ln]]
            pos += 1 + ln
            if args["kind"] == "normal":
                x = np.array([unfb(t) for t in toks[pos:pos + n]])
                kk = np.array([unfb(t) for t in toks[pos + n:pos + 2 * n]])
                pos += 2 * n
                model.append((key, x, kk))
            elif args["kind"] == "boltzmann":
                p = np.array([unfb(t) for t in toks[pos:pos + n]])
                pos += n
                model.append((key, None, p))
            else:
                model.append((key, None, None))
        mafter = int(toks[pos])
        if o[0] != "ok":
            prob = "model driver: %r" % (o[:3],)
        elif cnt != len(got):
            prob = "the model yields %d samples, the generator %d" % (cnt, len(got))
        elif mafter != after:
            prob = "spawn counter after the call: model %d, generator %d" % (mafter, after)
        else:
            for j, ((key, x, kk), s) in enumerate(zip(model, got)):
                q = s[3].get("seed_sequence") if isinstance(s[3], dict) else None
                ikey = [int(v) for v in q.spawn_key] if isinstance(q, np.random.SeedSequence) else None
                if ikey != key:
                    prob = "sample %d carries seed key %r, the model %r" % (j, ikey, key)
                    break
                if x is not None and not allclose(s[0], x, float(np.max(np.abs(x))) + 1, rtol=1e-13):
                    prob = "sample %d: position %r, model %r" % (j, s[0], x)
                    break
                if kk is not None and not allclose(s[1], kk, float(np.max(np.abs(kk))) + 1, rtol=1e-12):
                    prob = "sample %d: momentum %r, model %r" % (j, s[1], kk)
                    break
        yield args, n, cnt, prob

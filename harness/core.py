# -*- coding: utf-8 -*-
"""Core of the /verif harness: Lean build + audit, model driver, comparison, evidence, verdict.

Run with /venv/bin/python, PYTHONPATH=/repo:/verif (set by ./vcheck).
"""
import hashlib
import ast
import json
import math
import os
import re
import struct
import subprocess
import sys
import time

import numpy as np

VERIF = os.path.dirname(os.path.dirname(os.path.abspath(__file__)))
LEAN = os.path.join(VERIF, "lean")
REPO = os.environ.get("VERIF_REPO", "/repo")
STD_AXIOMS = {"propext", "Classical.choice", "Quot.sound"}
FORBIDDEN = re.compile(r"\b(sorry|admit|native_decide|bv_decide|implemented_by|unsafe)\b|^\s*axiom\s|maxHeartbeats\s+0\b")


# ------------------------------------------------------------------------------------------------
# bit-exact doubles on the wire
# ------------------------------------------------------------------------------------------------
def fb(x):
    """double -> protocol token"""
    return "x%016x" % struct.unpack("<Q", struct.pack("<d", float(x)))[0]


def unfb(tok):
    return struct.unpack("<d", struct.pack("<Q", int(tok[1:], 16)))[0]


def fbs(xs):
    return [fb(x) for x in np.asarray(xs, dtype=np.float64).ravel()]


def cbs(zs):
    out = []
    for z in np.asarray(zs, dtype=np.complex128).ravel():
        out.append(fb(z.real))
        out.append(fb(z.imag))
    return out


def hexf(x):
    return float(x).hex()


def jsonable(o):
    """make numpy things JSON-serialisable, doubles exactly (via repr round trip)"""
    if isinstance(o, dict):
        return {str(k): jsonable(v) for k, v in o.items()}
    if isinstance(o, (list, tuple)):
        return [jsonable(v) for v in o]
    if isinstance(o, np.ndarray):
        if np.iscomplexobj(o):
            return {"__complex__": True, "re": jsonable(o.real), "im": jsonable(o.imag)}
        return jsonable(o.tolist())
    if isinstance(o, (np.bool_, bool)):
        return bool(o)
    if isinstance(o, (np.integer,)):
        return int(o)
    if isinstance(o, (np.floating, float)):
        f = float(o)
        if math.isnan(f) or math.isinf(f):
            return {"__float__": repr(f)}
        return f
    if isinstance(o, (complex, np.complexfloating)):
        return {"__complex__": True, "re": float(o.real), "im": float(o.imag)}
    return o


def unjson(o):
    if isinstance(o, dict):
        if "__float__" in o:
            return float(o["__float__"])
        if o.get("__complex__"):
            re_, im_ = unjson(o["re"]), unjson(o["im"])
            return np.asarray(re_) + 1j * np.asarray(im_)
        return {k: unjson(v) for k, v in o.items()}
    if isinstance(o, list):
        return [unjson(v) for v in o]
    return o


# ------------------------------------------------------------------------------------------------
# Lean side
# ------------------------------------------------------------------------------------------------
def _run(cmd, cwd=None, timeout=3600, inp=None):
    p = subprocess.run(cmd, cwd=cwd, input=inp, stdout=subprocess.PIPE, stderr=subprocess.STDOUT,
                       text=True, timeout=timeout)
    return p.returncode, p.stdout


def lake_build(targets, clean=False):
    """build the given lake targets; returns (ok, output).
    Builds are serialised across processes (several checks started at once on a fresh checkout would otherwise run `lake build` in
    one directory at the same time; seen in a parallel thorough run: three checks reported "lake build failed" although every file
    compiles). A failed build is repeated once under the lock before it is believed."""
    import fcntl
    lock_path = os.path.join(LEAN, ".verif-build.lock")
    with open(lock_path, "w") as lock:
        fcntl.flock(lock, fcntl.LOCK_EX)
        try:
            if clean:
                _run(["lake", "clean"], cwd=LEAN)
            rc, out = _run(["lake", "build"] + list(targets), cwd=LEAN, timeout=7200)
            if rc != 0:
                rc, out = _run(["lake", "build"] + list(targets), cwd=LEAN, timeout=7200)
        finally:
            fcntl.flock(lock, fcntl.LOCK_UN)
    return rc == 0, out


def strip_comments(src):
    """remove Lean block comments (nested) and line comments"""
    out = []
    i, depth, n = 0, 0, len(src)
    while i < n:
        if src.startswith("/-", i):
            depth += 1
            i += 2
        elif src.startswith("-/", i) and depth > 0:
            depth -= 1
            i += 2
        elif depth > 0:
            if src[i] == "\n":
                out.append("\n")
            i += 1
        elif src.startswith("--", i):
            while i < n and src[i] != "\n":
                i += 1
        else:
            out.append(src[i])
            i += 1
    return "".join(out)


def source_grep():
    """reject sorry/admit/axiom/native_decide/... outside comments in every Lean file of the project"""
    hits = []
    for root, _dirs, files in os.walk(LEAN):
        if ".lake" in root:
            continue
        for fn in files:
            if fn.endswith(".lean"):
                path = os.path.join(root, fn)
                with open(path, encoding="utf-8") as f:
                    src = strip_comments(f.read())
                for ln, line in enumerate(src.split("\n"), 1):
                    if FORBIDDEN.search(line):
                        hits.append("%s:%d: %s" % (os.path.relpath(path, LEAN), ln, line.strip()))
    return hits


def audit(pid):
    """run the axiom audit file of a property.
    returns dict(ok, theorems: {name: [axioms]}, bad: [...], output)"""
    f = os.path.join("MudProof", "Audit", pid + ".lean")
    rc, out = _run(["lake", "env", "lean", f], cwd=LEAN, timeout=3600)
    theorems = {}
    # "'Name' depends on axioms: [a, b]"  /  "'Name' does not depend on any axioms"
    flat = re.sub(r"\s+", " ", out)
    for m in re.finditer(r"'([^']+)' depends on axioms: \[([^\]]*)\]", flat):
        theorems[m.group(1)] = [a.strip() for a in m.group(2).split(",") if a.strip()]
    for m in re.finditer(r"'([^']+)' does not depend on any axioms", flat):
        theorems[m.group(1)] = []
    bad = []
    for name, axs in theorems.items():
        extra = [a for a in axs if a not in STD_AXIOMS]
        if extra:
            bad.append("%s uses %s" % (name, extra))
    if rc != 0:
        bad.append("audit file failed to elaborate (rc=%d)" % rc)
    if rc == 0 and re.search(r":\d+:\d+: error|^error", out, flags=re.M):
        bad.append("audit output contains an error")
    return {"ok": not bad and len(theorems) > 0, "theorems": theorems, "bad": bad, "output": out}


class Model:
    """the Lean model driver, batch mode: collect lines, run once, get outputs back"""

    def __init__(self):
        self.calls = 0

    def run(self, lines):
        if not lines:
            return []
        inp = "\n".join(" ".join(map(str, l)) if not isinstance(l, str) else l for l in lines) + "\n"
        rc, out = _run(["lake", "env", "lean", "--run", "Main.lean"], cwd=LEAN, inp=inp, timeout=7200)
        res = [l.split() for l in out.strip("\n").split("\n")]
        if rc != 0 or len(res) != len(lines):
            raise RuntimeError("model driver failed rc=%d, %d lines in, %d out:\n%s" %
                               (rc, len(lines), len(res), out[-2000:]))
        self.calls += len(lines)
        return res


# ------------------------------------------------------------------------------------------------
# numeric comparison
# ------------------------------------------------------------------------------------------------
RTOL = 1e-9
ATOL = 1e-13


def close(a, b, scale=None, rtol=RTOL, atol=ATOL):
    """|a-b| <= rtol*scale + atol, NaN equals NaN, inf equals same inf"""
    a = float(a)
    b = float(b)
    if math.isnan(a) or math.isnan(b):
        return math.isnan(a) and math.isnan(b)
    if math.isinf(a) or math.isinf(b):
        return a == b
    if scale is None:
        scale = max(abs(a), abs(b))
    return abs(a - b) <= rtol * scale + atol


def allclose(xs, ys, scale=None, rtol=RTOL, atol=ATOL):
    xs = np.asarray(xs, dtype=np.float64).ravel()
    ys = np.asarray(ys, dtype=np.float64).ravel()
    if xs.shape != ys.shape:
        return False
    if scale is None:
        scale = max([1e-300] + [abs(v) for v in xs if math.isfinite(v)] + [abs(v) for v in ys if math.isfinite(v)])
    return all(close(a, b, scale, rtol, atol) for a, b in zip(xs, ys))


# ------------------------------------------------------------------------------------------------
# source fingerprints (information only)
# ------------------------------------------------------------------------------------------------
def fingerprint(relpath, names):
    """sha1 of the AST dump of named functions/classes in a repo file (information only)"""
    out = {}
    try:
        with open(os.path.join(REPO, relpath), encoding="utf-8") as f:
            tree = ast.parse(f.read())
    except Exception as e:  # pragma: no cover
        return {"error": str(e)}
    for node in ast.walk(tree):
        if isinstance(node, (ast.FunctionDef, ast.ClassDef)) and node.name in names:
            out.setdefault(node.name, hashlib.sha1(ast.dump(node).encode()).hexdigest()[:12])
    return out


class time_limit:
    """`with time_limit(20):` raises TimeoutError inside the block after that many seconds (SIGALRM; main thread only): for calls
    into the implementation that take milliseconds on the unchanged tree and may loop or blow up on a changed one"""

    def __init__(self, seconds):
        self.seconds = float(seconds)

    def __enter__(self):
        import signal

        def handler(signum, frame):
            raise TimeoutError("no result within %.0f s" % self.seconds)
        self.old = signal.signal(signal.SIGALRM, handler)
        signal.setitimer(signal.ITIMER_REAL, self.seconds)
        return self

    def __exit__(self, *exc):
        import signal
        signal.setitimer(signal.ITIMER_REAL, 0.0)
        signal.signal(signal.SIGALRM, self.old)
        return False


class CorrespondenceBroken(Exception):
    """the implementation no longer does something the model's tie to it relies on (e.g. it did not call the library routine
    whose result the model is fed): not a harness error, a broken correspondence"""


def raised_in_repo(exc):
    """the /repo frame in which (or below which, inside a library it called) the exception was raised, if the raise
    happened underneath implementation code rather than in the harness or in a harness callback; else None"""
    import traceback
    tb = traceback.extract_tb(exc.__traceback__)
    last_repo = max([i for i, f in enumerate(tb) if f.filename.startswith(REPO + os.sep)], default=-1)
    last_verif = max([i for i, f in enumerate(tb) if f.filename.startswith(VERIF + os.sep)], default=-1)
    if last_repo > last_verif:
        return tb[last_repo], (tb[last_verif] if last_verif >= 0 else None)
    return None


class _Neutral(float):
    """stands for any field of an oracle's observation when the implementation raised instead of answering"""
    def __iter__(self):
        return iter(())

    def __len__(self):
        return 0

    def __getitem__(self, k):
        return _Neutral(0.0)


class ExcObs(dict):
    """observation of an oracle whose implementation call raised: every field the call site may read is neutral (0 / empty)"""
    def __missing__(self, key):
        return _Neutral(0.0)


def safe_oracle(fn):
    """an oracle evaluates the property on the IMPLEMENTATION; if the implementation raises while doing what the
    property says it can do, that is a failing input (reported with the exception), not a harness crash"""
    import functools

    @functools.wraps(fn)
    def wrapper(args):
        try:
            return fn(args)
        except Exception as e:  # noqa
            where = raised_in_repo(e)
            if not where:
                raise
            last = where[0]
            text = "implementation raised %s: %s (at %s:%d in %s)" % (
                type(e).__name__, str(e)[:200], os.path.relpath(last.filename, REPO), last.lineno, last.name)
            return False, ExcObs({"exception": type(e).__name__, "message": str(e)[:300]}), {"exception": None}, text
    return wrapper


# ------------------------------------------------------------------------------------------------
# known findings
# ------------------------------------------------------------------------------------------------
def load_known():
    known, fixed = {}, []
    path = os.path.join(VERIF, "known_findings.txt")
    if os.path.exists(path):
        for line in open(path, encoding="utf-8"):
            line = line.strip()
            if line.startswith("known:"):
                m = re.search(r"property=(\S+)\s+id=(\S+)\s+(.*)", line)
                if m:
                    known[(m.group(1), m.group(2))] = m.group(3)
            elif line.startswith("fixed:"):
                fixed.append(line)
    return known, fixed


# ------------------------------------------------------------------------------------------------
# check context
# ------------------------------------------------------------------------------------------------
class Ctx:
    def __init__(self, pid, tier, seed):
        self.pid = pid
        self.tier = tier
        self.seed = seed
        self.rng = np.random.Generator(np.random.PCG64(seed))
        self.t0 = time.time()
        self.model = Model()
        self.evaluations = 0
        self.nontrivial = set()
        self.samples = []
        self.hist = {}
        self.near_ties = 0
        self.corr_mismatches = []      # (op, case dict, detail)
        self.oracle_failures = []      # (sig, oracle name, args, observed, required, text)
        self.known_hits = {}           # sig -> text
        self.proof = {"obligations": 0, "discharged": 0, "theorems": {}, "broken": []}
        self.assumptions = []
        self.monitors = {}
        self.fingerprints = {}
        self.rule = ""
        self.extra = {}
        self.known, self.fixed = load_known()

    # -- bookkeeping ---------------------------------------------------------------------------
    def thorough(self):
        return self.tier == "thorough"

    def budget(self, quick, thorough):
        return thorough if self.thorough() else quick

    def count(self, key, n=1):
        self.hist[key] = self.hist.get(key, 0) + n

    def case(self, nontrivial_key=None, sample=None):
        self.evaluations += 1
        if nontrivial_key is not None:
            self.nontrivial.add(nontrivial_key)
        if sample is not None and len(self.samples) < 6:
            self.samples.append(jsonable(sample))

    def monitor(self, key, value):
        v = float(value)
        if key not in self.monitors or v > self.monitors[key]:
            self.monitors[key] = v

    # -- proof obligations ---------------------------------------------------------------------
    def proofs(self, targets=None):
        pid = self.pid
        targets = targets or ["MudModel", "MudExec", "MudProof.Properties." + pid, "MudProof.StepThm"]
        ok, out = lake_build(targets)
        if not ok:
            self.proof["broken"].append("lake build failed: " + out[-1500:])
        hits = source_grep()
        if hits:
            self.proof["broken"].append("forbidden tokens: " + "; ".join(hits[:5]))
        if ok:
            a = audit(pid)
            self.proof["theorems"] = a["theorems"]
            self.proof["obligations"] = len(a["theorems"])
            self.proof["discharged"] = len([t for t, ax in a["theorems"].items()
                                            if all(x in STD_AXIOMS for x in ax)])
            if not a["ok"]:
                self.proof["broken"].extend(a["bad"] or ["audit found no theorems"])
            if self.thorough():
                rc, out2 = _run(["lake", "env", "leanchecker", "MudProof.Properties." + pid, "MudProof.StepThm"], cwd=LEAN,
                                timeout=7200)
                self.extra["leanchecker_rc"] = rc
                if rc != 0:
                    self.proof["broken"].append("leanchecker failed: " + out2[-800:])
        return not self.proof["broken"]

    # -- findings ------------------------------------------------------------------------------
    def corr_mismatch(self, op, case, detail):
        if len(self.corr_mismatches) < 50:
            self.corr_mismatches.append((op, jsonable(case), detail))
        self.count("corr_mismatch:" + op)

    def pinned_match(self, sig, op, case, detail):
        """the implementation matches the model's `Pinned` variant (the defective behaviour of a listed known
        finding) instead of the `Spec` variant: a known finding if listed, otherwise a broken correspondence"""
        if (self.pid, sig) in self.known:
            self.known_hits.setdefault(sig, self.known[(self.pid, sig)])
            self.count("matches_pinned:" + sig)
        else:
            self.corr_mismatch(op, case, detail)

    def oracle_fail(self, sig, oracle, args, observed, required, text):
        """a concrete input on which the IMPLEMENTATION breaks the property.
        sig: stable signature (call site / defect id) matched against known_findings.txt"""
        if (self.pid, sig) in self.known:
            if sig not in self.known_hits:
                self.known_hits[sig] = self.known[(self.pid, sig)]
            self.count("known_finding_inputs:" + sig)
            return
        if len(self.oracle_failures) < 20:
            self.oracle_failures.append((sig, oracle, jsonable(args), jsonable(observed), jsonable(required), text))
        self.count("oracle_fail:" + sig)

    # -- verdict -------------------------------------------------------------------------------
    def finish(self):
        pid = self.pid
        wall = time.time() - self.t0
        from . import eleccommon
        if eleccommon.FALLBACKS["count"]:
            # steps of the implementation that obtained their propagator without numpy.linalg.eigh; decomposition done here
            self.count("eigh-decompositions-by-harness-fallback", eleccommon.FALLBACKS["count"])
        # runs against a scratch tree (VERIF_REPO set: seeded-change trials) must not overwrite the evidence of /repo
        evdir = os.path.join(VERIF, "evidence") if REPO == "/repo" else os.path.join(VERIF, "replays", "scratch-evidence")
        os.makedirs(evdir, exist_ok=True)
        # (replays of runs against a scratch tree go to their own directory too: they must not overwrite those of /repo)
        rdir = "replays" if REPO == "/repo" else os.path.join("replays", "scratch")
        os.makedirs(os.path.join(VERIF, rdir), exist_ok=True)
        violations = []
        for n, (sig, oracle, args, obs, req, text) in enumerate(self.oracle_failures):
            path = os.path.join(rdir, "%s-%d-%d.json" % (pid, self.seed, n))
            with open(os.path.join(VERIF, path), "w") as f:
                json.dump({"property": pid, "kind": "failing-input", "signature": sig, "oracle": oracle,
                           "args": args, "observed": obs, "required": req, "text": text,
                           "replay_cmd": "./vcheck %s --replay %s" % (pid, path)}, f, indent=1)
            violations.append("VIOLATION property=%s replay=%s" % (pid, path))
            if n >= 4:
                break
        if not self.oracle_failures and (self.proof["broken"] or self.corr_mismatches):
            path = os.path.join(rdir, "%s-%d-unproved.json" % (pid, self.seed))
            with open(os.path.join(VERIF, path), "w") as f:
                json.dump({"property": pid, "kind": "no-failing-input-found",
                           "broken_proof_obligations": self.proof["broken"],
                           "broken_correspondence": [
                               {"operation": op, "case": case, "detail": detail}
                               for op, case, detail in self.corr_mismatches[:10]],
                           "text": "the property is no longer shown to hold: the theorem(s)/correspondence "
                                   "named here no longer check; the failing-input search found no input "
                                   "on which the implementation breaks the property itself"}, f, indent=1)
            violations.append("VIOLATION property=%s replay=%s no-failing-input-found" % (pid, path))

        cov = {
            "obligations": self.proof["obligations"],
            "discharged": self.proof["discharged"],
            "checker_cmd": "cd /verif/lean && lake build MudProof.Properties.%s MudProof.StepThm && lake env lean MudProof/Audit/%s.lean"
                           % (pid, pid) + (" && lake env leanchecker MudProof.Properties.%s" % pid if self.thorough() else ""),
            "trusted_base": [
                "Lean 4.33.0 kernel; Mathlib v4.33.0 as installed",
                "axioms (audited this run): " + ", ".join(sorted({a for ax in self.proof["theorems"].values() for a in ax}) or ["none"]),
                "hand-written model MudModel/* tied to /repo by the correspondence check of this run (differential testing, tolerance 1e-9 rel)",
                "external numerics passed to the model as parameters with monitored contracts (eigh, roots, RNG, libm)",
            ],
            "theorems": self.proof["theorems"],
            "evaluations": int(self.evaluations),
            "distinct_nontrivial": int(len(self.nontrivial)),
            "rule": self.rule,
            "samples": self.samples or [{"note": "no correspondence case was generated"}],
            "histogram": self.hist,
            "near_ties_skipped": self.near_ties,
            "monitors": self.monitors,
            "model_driver_lines": self.model.calls,
            "correspondence_mismatches": len(self.corr_mismatches),
            "known_findings_replayed": sorted(self.known_hits),
            "source_fingerprints": self.fingerprints,
        }
        cov.update(self.extra)
        ev = {"property_id": pid, "tier": self.tier, "seed": int(self.seed), "level": "proof",
              "coverage": cov, "assumptions": self.assumptions, "wall_s": round(wall, 2),
              "violations": len(violations)}
        with open(os.path.join(evdir, pid + ".json"), "w") as f:
            json.dump(jsonable(ev), f, indent=1)

        for sig, text in sorted(self.known_hits.items()):
            print("KNOWN-FINDING: property=%s %s (%s)" % (pid, text, sig))
        # a listed finding that no longer reproduces is just reported for information
        for (p, sig), text in self.known.items():
            if p == pid and sig not in self.known_hits:
                print("note: listed finding %s did not reproduce in this run" % sig)
        for v in violations:
            print(v)
        print("%s %s seed=%d: theorems %d/%d, correspondence cases %d (distinct non-trivial %d), "
              "mismatches %d, failing inputs %d, wall %.1fs" %
              (pid, self.tier, self.seed, self.proof["discharged"], self.proof["obligations"],
               self.evaluations, len(self.nontrivial), len(self.corr_mismatches),
               len(self.oracle_failures), wall))
        sys.stdout.flush()
        return 1 if violations else 0

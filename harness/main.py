# -*- coding: utf-8 -*-
"""entry point: python -m harness.main <Cxx> quick|thorough | --replay <path>"""
import importlib
import json
import os
import sys
import traceback

from . import core


def main(argv):
    if len(argv) < 2:
        print(__doc__)
        return 2
    pid = argv[0]
    mod = importlib.import_module("harness.props." + pid.lower())
    if argv[1] == "--replay":
        path = argv[2]
        with open(path if os.path.isabs(path) else os.path.join(core.VERIF, path)) as f:
            rep = json.load(f)
        if rep.get("kind") != "failing-input":
            print(json.dumps(rep, indent=1))
            print("replay: this file names a proof obligation / correspondence that no longer checks; "
                  "re-run ./vcheck %s quick" % pid)
            return 0
        fn = mod.ORACLES[rep["oracle"]]
        ok, observed, required, text = fn(core.unjson(rep["args"]))
        print("replay %s: %s" % (rep["oracle"], "property holds on this input" if ok else "PROPERTY FAILS"))
        print(" observed:", core.jsonable(observed))
        print(" required:", core.jsonable(required))
        print(" ", text)
        return 0 if ok else 1
    tier = os.environ.get("VERIF_TIER") or argv[1]
    if tier not in ("quick", "thorough"):
        tier = argv[1]
    seed = int(os.environ.get("VERIF_SEED", "20260930"))
    ctx = core.Ctx(pid, tier, seed)
    try:
        mod.run(ctx)
    except core.CorrespondenceBroken as e:
        ctx.corr_mismatch("tie-to-the-implementation", {}, str(e))
        return ctx.finish()
    except Exception as e:
        # an exception raised INSIDE /repo code, on an input the harness feeds it on every run of the unchanged tree, is a
        # broken correspondence (the implementation no longer does what the model does there): reported as such
        where = core.raised_in_repo(e)
        if where:
            traceback.print_exc()
            last, caller = where
            ctx.corr_mismatch("implementation-raised", {"harness_call": "%s:%d" % (os.path.basename(caller.filename), caller.lineno) if caller else "?"},
                              "implementation raised %s: %s (at %s:%d in %s) during the correspondence run; the run stopped there" % (
                                  type(e).__name__, str(e)[:200], os.path.relpath(last.filename, core.REPO), last.lineno, last.name))
            return ctx.finish()
        # any other crash of the machinery is not a verdict about the property: exit 2
        traceback.print_exc()
        print("harness error in %s (exit 2, no verdict)" % pid)
        return 2
    return ctx.finish()


if __name__ == "__main__":
    sys.exit(main(sys.argv[1:]))

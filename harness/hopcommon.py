# -*- coding: utf-8 -*-
"""Shared by C01 and C04: hop cases, the implementation's hop_to_it on all hopping classes, run-level helpers."""
import math
import queue

import numpy as np

from .core import fb, fbs, unfb, close, allclose
from .synth import FakeElec, ShellModel, SynthModel

CLASSES = ["TrajectorySH", "TrajectoryCum", "AugmentedFSSH", "EvenSamplingTrajectory"]


def get_class(name):
    import mudslide
    return getattr(mudslide, name)


def make_case(rng, kind=None):
    """one hop case: masses, velocity, direction, energies, source, target.
    kind: 'down' | 'up-near' (gap placed at a chosen relative distance from the threshold) | 'up-far'"""
    n = int(rng.integers(1, 5))
    N = int(rng.integers(2, 6))
    mass = 10 ** rng.uniform(0, 4, size=n)
    if rng.random() < 0.2:
        mass[:] = mass[0]
    intm = rng.random() < 0.12
    if intm:
        mass = np.ceil(mass)          # integer-VALUED masses; impl_hop hands them to the trajectory as an int64 array
    v = rng.normal(size=n) * 10 ** rng.uniform(-3, 0)
    d = rng.normal(size=n) * 10 ** rng.uniform(-2, 2)
    if n > 1 and rng.random() < 0.25:
        d[int(rng.integers(0, n))] = 0.0          # direction with a zero component
    if rng.random() < 0.1:
        d = v * mass * (1.0 if rng.random() < 0.5 else -1.0)   # aligned with the momentum
    s, t = [int(x) for x in rng.choice(N, 2, replace=False)]
    E = np.sort(rng.normal(size=N)) * 0.05
    u = d / np.linalg.norm(d)
    a = float(np.sum(u * u / mass))
    b = float(2 * np.dot(v, u))
    avail = b * b / (8 * a) * 2      # (v.u)^2/(2a) = b^2/(8a)
    avail = b * b / (8 * a)
    if kind is None:
        kind = rng.choice(["down", "up-near", "up-far", "perp-down", "perp-up"], p=[0.26, 0.46, 0.18, 0.06, 0.04])
    delta = 0.0
    if kind in ("perp-down", "perp-up"):
        # the velocity has NO component along the rescaling direction (exactly: b = 2 v.u = 0), or the particle is at rest:
        # nothing can be taken out (every upward hop is frustrated), a downward hop gains +-sqrt(2 gap / a) along u
        d = np.zeros(n)
        j = int(rng.integers(0, n))
        d[j] = float(rng.choice([-1.0, 1.0]) * 10 ** rng.uniform(-2, 2))
        v = v.copy()
        v[j] = 0.0
        if n == 1 or rng.random() < 0.3:
            v[:] = 0.0
        avail = 0.0
        gap = (-abs(rng.normal()) * 0.05 - 1e-6) if kind == "perp-down" else abs(rng.normal()) * 0.05 + 1e-6
    elif kind == "down":
        gap = -abs(rng.normal()) * 0.05 - 1e-6
    elif kind == "up-near":
        delta = float(rng.choice([-1, 1]) * 10 ** rng.uniform(-13, -0.5))
        gap = avail * (1 + delta)
    else:
        gap = avail * float(rng.choice([0.01, 0.3, 3.0, 100.0]))
    E[t] = E[s] + gap
    c = dict(n=n, N=N, mass=mass, v=v, d=d, E=E, s=s, t=t, kind=str(kind), delta=delta, int_mass=bool(intm))
    if rng.random() < 0.4:
        c["afssh_scale"] = float(10 ** -rng.uniform(0, 14))      # only read by the A-FSSH class: length of the moment difference
    if N >= 3 and rng.random() < 0.3:
        # a FRUSTRATED attempt towards a third state, along another direction, on the same trajectory object right before the
        # judged hop: nothing of it may survive into the next hop
        others = [j for j in range(N) if j not in (s, t)]
        pt = int(others[int(rng.integers(0, len(others)))])
        # unreachable whatever the direction: the kinetic energy along ANY direction is at most the total kinetic energy
        # (thorough seed 80: `avail`, the energy along the judged direction, was used here; with heavy masses the total was larger)
        E[pt] = E[s] + 1e3 * (0.5 * float(np.sum(np.asarray(mass, dtype=np.float64) * np.asarray(v) ** 2)) + abs(avail) + 1.0)
        c["pre"] = dict(t=pt, d=rng.normal(size=n) * 10 ** rng.uniform(-1, 1))
    return c


def model_line(c):
    return ["hop", c["n"], c["N"]] + fbs(c["mass"]) + fbs(c["v"]) + fbs(c["d"]) + fbs(c["E"]) + [c["s"], c["t"]]


def parse_model(c, o):
    n = c["n"]
    acc = int(o[1])
    st = int(o[2])
    v = np.array([unfb(x) for x in o[3:3 + n]])
    evf, evt = int(o[3 + n]), int(o[4 + n])
    a, b, cc, sr, br = [unfb(x) for x in o[5 + n:10 + n]]
    return dict(accepted=acc, state=st, v=v, evFrom=evf, evTo=evt, a=a, b=b, c=cc, s=sr, sbig=br)


def impl_hop(c, clsname):
    """apply the implementation's hop_to_it for one case on a trajectory of the given class"""
    cls = get_class(clsname)
    n, N = c["n"], c["N"]
    mass = np.array(c["mass"], dtype=np.float64)
    mdtype = np.float64
    if c.get("int_mass"):
        mdtype = None
    v = np.array(c["v"], dtype=np.float64)
    d = np.array(c["d"], dtype=np.float64)
    E = np.array(c["E"], dtype=np.float64)
    s, t = int(c["s"]), int(c["t"])
    dc = np.zeros((N, N, n))
    dc[s, t, :] = d
    dc[t, s, :] = -d
    elec = FakeElec(E, dc=dc, forces=np.zeros((N, n)), force_matrix=np.zeros((N, N, n)))
    rho = np.zeros((N, N), dtype=np.complex128)
    rho[s, s] = 1.0
    opts = dict(state0=s, dt=1.0, t0=3.5, seed_sequence=11, zeta_list=[0.5] * 4)
    q = queue.Queue()
    if clsname == "EvenSamplingTrajectory":
        from mudslide.even_sampling import SpawnStack
        stack = SpawnStack.from_quadrature([2, 2], method="midpoint")
        opts["spawn_stack"] = stack
    traj = cls(ShellModel(N, mass.astype(np.int64) if mdtype is None else mass, dtype=mdtype), np.zeros(n), v * mass, rho,
               queue=q, electronics=elec, **opts)
    traj.velocity = np.array(v)
    hop = {"target": t, "weight": 1.0, "zeta": 0.25, "prob": 0.5}
    parent_before = None
    if clsname == "AugmentedFSSH":
        # A-FSSH rescales along the difference of the diagonal momentum moments, whatever its length (it is normalised), NOT along
        # the derivative coupling: the coupling is given an unrelated direction and the moments a length between 1 and 1e-14
        # (first steps of a run, right after a collapse)
        d_mom = d * float(c.get("afssh_scale", 1.0))
        # (both diagonals non-zero, so that the shift of the moments by the new active state's diagonal is visible)
        traj.delP[:, s, s] = 0.5 * d_mom
        traj.delP[:, t, t] = -0.5 * d_mom
        for j_ in range(N):
            traj.delR[:, j_, j_] = 0.1 * (j_ + 1) * (1.0 + np.arange(n))
        other = np.cos(np.arange(n) + 1.0) * float(np.linalg.norm(d))
        dc[s, t, :] = other
        dc[t, s, :] = -other
    pre = c.get("pre") if clsname != "EvenSamplingTrajectory" else None
    npre = 0
    if pre is not None:
        pt, pd = int(pre["t"]), np.array(pre["d"], dtype=np.float64)
        dc[s, pt, :] = pd
        dc[pt, s, :] = -pd
        if clsname == "AugmentedFSSH":
            traj.delP[:, pt, pt] = 0.5 * d_mom - pd    # direction of rescale = delP[s,s] - delP[pt,pt] = pd
        v_before = np.array(traj.velocity)
        traj.hop_to_it([{"target": pt, "weight": 1.0, "zeta": 0.2, "prob": 0.4}], elec)
        pre_problem = None
        if traj.state != s or not np.array_equal(traj.velocity, v_before):
            # the gap of the preparatory attempt is 1000 x (kinetic energy + 1): it cannot be allowed
            pre_problem = ("a hop attempt towards a state %.3g above, with kinetic energy %.3g in all, was not frustrated (state %d -> %d)"
                           % (E[pt] - E[s], 0.5 * float(np.sum(mass * v * v)), s, traj.state))
            traj.state = s
            traj.velocity = np.array(v_before)
        npre = 1
    if clsname == "EvenSamplingTrajectory":
        traj.spawn_stack.next_zeta(0.3, traj.random_state)      # crosses the first threshold (0.25)
        hop["stack"] = traj.spawn_stack.spawn(1.0)
        parent_before = (np.array(traj.velocity), traj.state, np.array(traj.position), np.array(traj.rho))
    traj.hop_to_it([hop], elec)
    subject = traj
    parent_ok = True
    if clsname == "EvenSamplingTrajectory":
        subject = q.get_nowait()
        parent_ok = (np.array_equal(traj.velocity, parent_before[0]) and traj.state == parent_before[1]
                     and np.array_equal(traj.position, parent_before[2]) and np.array_equal(traj.rho, parent_before[3])
                     and q.empty())
    tr = subject.tracer
    hops = list(tr.hops)
    fr = list(tr.events.get("frustrated_hop", []))[npre:]          # (the preparatory frustrated attempt is not the judged one)
    if pre is None:
        pre_problem = None
    moments = None
    if clsname == "AugmentedFSSH":
        moments = dict(delP_target=np.array(subject.delP[:, t, t]), delR_target=np.array(subject.delR[:, t, t]),
                       delP_source=np.array(subject.delP[:, s, s]), delR_source=np.array(subject.delR[:, s, s]))
    return dict(pre_problem=pre_problem, state=int(subject.state), v=np.array(subject.velocity), hops=hops, frustrated=fr,
                accepted=int(subject.state == t and len(hops) == 1), parent_ok=parent_ok,
                time=3.5, moments=moments)


def energy_check(c, r):
    """|dKE + dV| relative to the energies involved, for an accepted hop; exact no-op for a rejected one"""
    mass, v, E = np.array(c["mass"]), np.array(c["v"]), np.array(c["E"])
    ke0 = 0.5 * float(np.sum(mass * v * v))
    ke1 = 0.5 * float(np.sum(mass * r["v"] * r["v"]))
    if r["state"] == c["t"]:
        err = abs((ke1 + E[c["t"]]) - (ke0 + E[c["s"]]))
        scale = max(ke0, ke1, abs(E[c["t"]] - E[c["s"]]), 1e-300)
        return err <= 1e-10 * scale, err / scale
    return bool(np.array_equal(r["v"], v)) and r["state"] == c["s"], 0.0


def margin(c):
    """relative distance of the acceptance test from its threshold, in 60-digit arithmetic"""
    import mpmath as mp
    mp.mp.dps = 60
    mass = [mp.mpf(float(x)) for x in c["mass"]]
    v = [mp.mpf(float(x)) for x in c["v"]]
    d = [mp.mpf(float(x)) for x in c["d"]]
    nrm = mp.sqrt(sum(x * x for x in d))
    u = [x / nrm for x in d]
    a = sum(ui * ui / mi for ui, mi in zip(u, mass))
    b = 2 * sum(vi * ui for vi, ui in zip(v, u))
    dE = -(mp.mpf(float(c["E"][c["t"]])) - mp.mpf(float(c["E"][c["s"]])))
    if dE > 0:
        return True, 1.0
    cc = -2 * dE
    lhs, rhs = b * b, 4 * a * cc
    sc = max(abs(lhs), abs(rhs), mp.mpf(10) ** -300)
    return bool(lhs > rhs), float(abs(lhs - rhs) / sc)

# -*- coding: utf-8 -*-
"""Synthetic user-defined models and helpers shared by the property harnesses.

SynthModel is a DiabaticModel_ subclass defined here (a "user-defined diabatic model" in the sense of the
properties): nstates 2..12, ndim 1..9, unequal masses,
    V(x) = A + sum_k B_k x_k + 1/2 sum_kl C_kl x_k x_l  + sum_t T_t tanh(w_t . x)      (all symmetric matrices)
It reaches the multi-state, multi-dimensional, unequal-mass region no built-in covers at once.
"""
import numpy as np

from mudslide.models.electronics import DiabaticModel_, AdiabaticModel_


class SynthModel(DiabaticModel_):
    def __init__(self, rng, nstates, ndim, representation="adiabatic", scale=0.02, gap=0.03, quad=0.01,
                 ntanh=1, mass=None, reference=None):
        DiabaticModel_.__init__(self, representation=representation, reference=reference,
                                nstates=nstates, ndim=ndim)
        N, n = nstates, ndim

        def sym():
            a = rng.normal(size=(N, N))
            return 0.5 * (a + a.T)

        self.A = scale * sym() + np.diag(gap * np.arange(N))
        self.B = [scale * 0.3 * sym() for _ in range(n)]
        self.C = {}
        for k in range(n):
            for l in range(k, n):
                self.C[(k, l)] = quad * (0.3 * sym() if k != l else 0.3 * sym() + np.eye(N))
        self.T = [scale * sym() for _ in range(ntanh)]
        self.w = [rng.normal(size=n) * 0.7 for _ in range(ntanh)]
        if mass is None:
            mass = 10 ** rng.uniform(0, 4, size=n) * 20.0
        self.mass = np.array(mass, dtype=np.float64).reshape(n)

    def V(self, X):
        X = np.asarray(X, dtype=np.float64)
        out = np.array(self.A)
        n = self.ndim()
        for k in range(n):
            out = out + self.B[k] * X[k]
        for (k, l), c in self.C.items():
            out = out + (0.5 if k == l else 1.0) * c * X[k] * X[l]
        for t, w in zip(self.T, self.w):
            out = out + t * np.tanh(np.dot(w, X))
        return out

    def dV(self, X):
        X = np.asarray(X, dtype=np.float64)
        N, n = self.nstates(), self.ndim()
        out = np.zeros([n, N, N])
        for k in range(n):
            out[k] += self.B[k]
        for (k, l), c in self.C.items():
            if k == l:
                out[k] += c * X[k]
            else:
                out[k] += c * X[l]
                out[l] += c * X[k]
        for t, w in zip(self.T, self.w):
            with np.errstate(over="ignore"):
                s = 1.0 / np.cosh(np.dot(w, X)) ** 2      # far out: cosh overflows to inf, the term is exactly 0
            for k in range(n):
                out[k] += t * s * w[k]
        return out


class FakeElec:
    """electronics stand-in with prescribed Hamiltonian diagonal, couplings and forces"""

    def __init__(self, energies, dc=None, forces=None, force_matrix=None, H=None):
        self.energies = np.array(energies, dtype=np.float64)
        self._H = np.diag(self.energies) if H is None else np.array(H)
        self._dc = dc
        self._forces = forces
        self._fm = force_matrix
        self._reference = None

    def nstates(self):
        return self._H.shape[0]

    def ndim(self):
        return self._dc.shape[2] if self._dc is not None else self._forces.shape[1]

    def hamiltonian(self):
        return self._H

    def derivative_coupling(self, i, j):
        return self._dc[i, j, :]

    def derivative_coupling_tensor(self):
        return self._dc

    def force(self, i=0):
        return self._forces[i, :]

    def force_matrix(self):
        return self._fm

    def NAC_matrix(self, v):
        return np.einsum("ijk,k->ij", self._dc, v)

    def as_dict(self):
        return {"nstates": self.nstates(), "hamiltonian": self._H.tolist()}


class ShellModel:
    """minimal model object for constructing a trajectory whose electronics are supplied by hand"""

    def __init__(self, nstates, mass, dtype=np.float64):
        # dtype=None keeps the caller's dtype: a user-defined model may well hand over integer-valued masses as an int array
        self.mass = np.array(mass, dtype=dtype) if dtype is not None else np.array(mass)
        self._n = nstates

    def nstates(self):
        return self._n

    def ndim(self):
        return len(self.mass)

    def update(self, x, electronics=None):
        raise RuntimeError("ShellModel cannot compute")


def random_rho(rng, N, kind):
    """density matrices: 'basis' (pure basis state), 'pure' (random pure), 'mixed' (PSD trace 1)"""
    if kind == "basis":
        k = int(rng.integers(0, N))
        rho = np.zeros((N, N), dtype=np.complex128)
        rho[k, k] = 1.0
        return rho
    if kind == "pure":
        c = rng.normal(size=N) + 1j * rng.normal(size=N)
        c /= np.linalg.norm(c)
        return np.outer(c, c.conj())
    a = rng.normal(size=(N, N)) + 1j * rng.normal(size=(N, N))
    rho = a @ a.conj().T
    return rho / np.trace(rho).real


def random_hermitian(rng, N, scale=1.0):
    a = rng.normal(size=(N, N)) + 1j * rng.normal(size=(N, N))
    return scale * 0.5 * (a + a.conj().T)


class BlocksModel(AdiabaticModel_):
    """a user-defined model on AdiabaticModel_ (an auxiliary problem truncated to a few states, like the built-in Shin-Metiu
    model): four basis functions in two symmetry blocks (a, a*) and (b, b*) that do not couple to each other,

        <a|H|a> = k/2 |r|^2 + g x^3,  <a*|H|a*> = <a|H|a> + D,  <a|H|a*> = t    and the same with -g for block b.

    The two lowest eigenstates (one per block) cross at x = 0 (symmetry-allowed, twice differentiable surfaces); eigh of the
    block-diagonal matrix returns eigenvectors with EXACT zeros, so the state continued through the crossing has overlap
    exactly 0.0 with the reference state of the same index."""

    def __init__(self, ndim=1, mass=2000.0, k=0.01, g=0.004, D=0.2, t=0.03, representation="adiabatic", reference=None):
        AdiabaticModel_.__init__(self, representation=representation, reference=reference, nstates=2, ndim=ndim)
        self.mass = np.array(mass, dtype=np.float64).reshape(-1) * np.ones(ndim)
        self.k, self.g, self.D, self.t = k, g, D, t

    def V(self, X):
        X = np.asarray(X, dtype=np.float64)
        harm = 0.5 * self.k * float(np.dot(X, X))
        cub = self.g * X[0] ** 3
        out = np.zeros([4, 4], dtype=np.float64)
        out[0, 0] = harm + cub
        out[1, 1] = harm + cub + self.D
        out[2, 2] = harm - cub
        out[3, 3] = harm - cub + self.D
        out[0, 1] = out[1, 0] = self.t
        out[2, 3] = out[3, 2] = self.t
        return out

    def dV(self, X):
        X = np.asarray(X, dtype=np.float64)
        out = np.zeros([self.ndim(), 4, 4], dtype=np.float64)
        for d in range(self.ndim()):
            for i in range(4):
                out[d, i, i] = self.k * X[d]
        dcub = 3.0 * self.g * X[0] ** 2
        out[0, 0, 0] += dcub
        out[0, 1, 1] += dcub
        out[0, 2, 2] -= dcub
        out[0, 3, 3] -= dcub
        return out

# -*- coding: utf-8 -*-
"""C07 — second-order accuracy and time reversibility of the hop-free step."""
import numpy as np

from ..core import fb, fbs, cbs, unfb, close, allclose, fingerprint, safe_oracle
from ..synth import SynthModel, random_rho
from .. import eleccommon as ec
from .. import runcommon as rc


def _model(spec):
    rng = np.random.Generator(np.random.PCG64(spec["model_seed"]))
    if spec.get("builtin") == "shin-metiu":
        # the built-in model on AdiabaticModel_ (truncated auxiliary problem): LAPACK's native eigenvector signs change along
        # the path, the states handed from step to step must not
        import mudslide
        m = mudslide.models.scattering_models["shin-metiu"](nstates=spec["N"], **spec.get("kwargs", {}))
        rho_ = np.zeros((spec["N"], spec["N"]), dtype=np.complex128)
        rho_[spec["state"], spec["state"]] = 1.0      # pure active state: the coherences that build up carry the coupling signs
        return m, rho_, rng
    if spec.get("builtin"):
        # a built-in model with three states that exchange their character along a LONG path (Subotnik model X): the states
        # handed from step to step have to be continued from the PREVIOUS step all the way
        import mudslide
        m = mudslide.models.scattering_models[spec["builtin"]](**spec.get("kwargs", {}))
        rho_ = np.zeros((spec["N"], spec["N"]), dtype=np.complex128)
        rho_[spec["state"], spec["state"]] = 1.0
        return m, rho_, rng
    m = SynthModel(rng, spec["N"], spec["n"], scale=0.03, gap=0.02, quad=0.004, mass=10 ** rng.uniform(2.5, 3.5, size=spec["n"]),
                   representation=spec.get("representation", "adiabatic"))
    rho0 = random_rho(rng, spec["N"], "pure")
    return m, rho0, rng


def _traj(spec, dt, steps, x0=None, p0=None, rho0=None, electronics=None, integ=None):
    import mudslide
    model, rho_init, rng = _model(spec)
    x0 = np.array(spec["x0"]) if x0 is None else x0
    p0 = np.array(spec["p0"]) if p0 is None else p0
    rho0 = rho_init if rho0 is None else rho0
    t = mudslide.TrajectorySH(model, x0, p0, rho0, state0=spec["state"], dt=dt, max_steps=steps, zeta_list=[1e300] * (steps + 5),
                              electronic_integration=integ or spec.get("integ", "exp"), electronics=electronics,
                              max_electronic_dt=spec.get("max_edt", 0.1), seed_sequence=1)
    return t


def one_step(spec):
    """one hop-free step of the real class, mirroring the body of simulate(); returns everything the model needs"""
    t = _traj(spec, spec["dt"], 5)
    model = t.model
    # bring the trajectory a few steps in so that last_velocity etc. are in their steady-state roles
    t.electronics = model.update(t.position)
    last = None
    for _ in range(spec.get("warm", 2)):
        t.advance_position(last, t.electronics)
        last, t.electronics = t.electronics, model.update(t.position, electronics=t.electronics)
        t.advance_velocity(last, t.electronics)
        t.propagate_electronics(last, t.electronics, t.dt)
    before = dict(x=np.array(t.position), v=np.array(t.velocity), rho=np.array(t.rho),
                  H0=np.array(t.electronics.hamiltonian()), d0=np.array(t.electronics.derivative_coupling_tensor()),
                  F0=np.array(t.electronics.force(t.state)))
    t.advance_position(last, t.electronics)
    last, t.electronics = t.electronics, model.update(t.position, electronics=t.electronics)
    t.advance_velocity(last, t.electronics)
    with ec.EighCapture() as cap:
        t.propagate_electronics(last, t.electronics, t.dt)
    after = dict(x=np.array(t.position), v=np.array(t.velocity), rho=np.array(t.rho),
                 H1=np.array(t.electronics.hamiltonian()), d1=np.array(t.electronics.derivative_coupling_tensor()),
                 F1=np.array(t.electronics.force(t.state)), last_v=np.array(t.last_velocity))
    W, w, C = ec.first_eigh(cap, "propagate_electronics", W=(None if cap.calls else t.hamiltonian_propagator(last, t.electronics)))
    return before, after, W, w, C, np.array(model.mass), cap


@safe_oracle
def oracle_reverse(args):
    """forward K steps, reverse the momenta and conjugate rho, forward K steps: back at the initial state (1e-9)"""
    spec = dict(args)
    K = spec["steps"]
    if spec.get("md"):
        import mudslide
        rng = np.random.Generator(np.random.PCG64(spec["model_seed"]))
        nd = spec["n"]
        model = mudslide.models.HarmonicModel(np.zeros(nd), 0.0, np.diag(rng.uniform(0.001, 0.01, size=nd)), rng.uniform(500, 3000, size=nd))
        x0, p0 = rng.normal(size=nd), rng.normal(size=nd) * 3
        f = mudslide.AdiabaticMD(model, x0, p0, dt=spec["dt"], max_steps=K)
        f.simulate()
        b = mudslide.AdiabaticMD(model, np.array(f.position), -np.array(f.velocity * f.mass), dt=spec["dt"], max_steps=K)
        b.simulate()
        ex = float(np.max(np.abs(b.position - x0)))
        ep = float(np.max(np.abs(-b.velocity * b.mass - p0)))
        ok = ex <= 1e-9 * (1 + float(np.max(np.abs(x0)))) and ep <= 1e-9 * (1 + float(np.max(np.abs(p0))))
        return ok, {"x_error": ex, "p_error": ep}, {"max": 1e-9}, "MD forward+reverse returns with errors %.3g (x) %.3g (p)" % (ex, ep)
    f = _traj(spec, spec["dt"], K)
    x0, p0, rho0 = np.array(f.position), np.array(f.velocity * f.mass), np.array(f.rho)
    f.simulate()
    # continue the adiabatic gauge of the forward run instead of drawing a fresh eigh sign
    b = _traj(spec, spec["dt"], K, x0=np.array(f.position), p0=-np.array(f.velocity * f.mass), rho0=np.conj(f.rho),
              electronics=f.electronics)
    b.state = f.state
    b.simulate()
    ex = float(np.max(np.abs(b.position - x0)))
    ep = float(np.max(np.abs(-b.velocity * b.mass - p0)))
    er = float(np.max(np.abs(np.conj(b.rho) - rho0)))
    ok = ex <= 1e-9 * (1 + float(np.max(np.abs(x0)))) and ep <= 1e-9 * (1 + float(np.max(np.abs(p0)))) and er <= 1e-9
    return ok, {"x_error": ex, "p_error": ep, "rho_error": er}, {"max": 1e-9}, \
        "forward+reverse run returns with errors %.3g (x) %.3g (p) %.3g (rho)" % (ex, ep, er)


@safe_oracle
def oracle_order(args):
    """x, p and rho at a fixed final time at dt, dt/2, dt/4, dt/8: successive differences shrink ~4x (second order).
    Judged on the two finest ratios, and only when both say "not second order" (a coarse, non-asymptotic level gives
    scattered ratios and is not evidence either way)"""
    spec = dict(args)
    res = []
    # the initial condition is defined ONCE, as a user doing a convergence study would, and handed to every construction
    _m, rho_shared, _r = _model(spec)
    x_shared, p_shared = np.array(spec["x0"], dtype=np.float64), np.array(spec["p0"], dtype=np.float64)
    keep = (np.array(x_shared), np.array(p_shared), np.array(rho_shared))
    bad = []
    min_gap = None
    for k in range(4):
        t = _traj(spec, spec["dt"] / 2 ** k, spec["steps"] * 2 ** k, x0=x_shared, p0=p_shared, rho0=rho_shared)
        tr_ = t.simulate()
        res.append((np.array(t.position), np.array(t.velocity * t.mass), np.array(t.rho)))
        if k == 3:
            # "for all SMOOTH models ... in the asymptotic regime": the smallest gap between adjacent electronic levels the finest
            # run comes across (a random model can have a near-crossing on the path: a cusp in the adiabatic surface, narrower
            # than any of the steps - thorough seed 82: gap 1e-4 on a model whose levels are 0.02 apart, x and p at first order)
            try:
                min_gap = min(float(np.min(np.diff(np.linalg.eigvalsh(np.asarray(s_["electronics"]["hamiltonian"]))))) for s_ in tr_)
            except Exception:  # noqa
                min_gap = None
        if not (np.array_equal(x_shared, keep[0]) and np.array_equal(p_shared, keep[1]) and np.array_equal(rho_shared, keep[2])):
            bad.append("the run at dt/%d modified the caller's initial-condition arrays (x0, p0 or rho0): later runs start elsewhere" % 2 ** k)
            break
    out = {}
    if bad:
        return False, {"problems": bad}, {"ratio": "about 4 (>= 3)"}, bad[0]
    # only the ADIABATIC surfaces have that cusp: in the diabatic representation forces and Hamiltonian are the smooth V, dV
    # themselves whatever the spacing of the eigenvalues of V
    if min_gap is not None and min_gap < 3e-3 and not (spec.get("strict") or spec.get("judge")) and spec.get("representation", "adiabatic") == "adiabatic":
        return True, {"not_judged": "the path passes a near-degeneracy (smallest level spacing %.3g): not a smooth model at these steps" % min_gap,
                      "rho": {"ratio": 4.0, "ratios": [4.0, 4.0], "differences": [0.0, 0.0, 0.0]}}, {"ratio": "about 4 (>= 3)"}, "not judged"
    for name, idx in (("x", 0), ("p", 1), ("rho", 2)):
        e = [float(np.max(np.abs(res[k][idx] - res[k + 1][idx]))) for k in range(3)]
        sc = float(np.max(np.abs(res[3][idx]))) + 1e-300
        ratios = [e[k] / max(e[k + 1], 1e-300) for k in range(2)]
        out[name] = {"differences": e, "ratios": ratios, "ratio": ratios[-1]}
        if e[1] > 1e-8 * sc and ratios[0] < 3.0 and ratios[1] < 3.0:
            bad.append("%s: ratios %.2f, %.2f" % (name, ratios[0], ratios[1]))
        elif spec.get("strict") and e[2] > 1e-11 * sc and not all(3.0 <= r <= 5.5 for r in ratios):
            # a directed run known to be deep in the asymptotic regime on a smooth model (ratios 3.997..4.009 over 30 initial
            # conditions on the unchanged tree): scattered ratios are evidence there
            bad.append("%s: ratios %.2f, %.2f (asymptotic run)" % (name, ratios[0], ratios[1]))
        elif spec.get("strict") and name == "rho" and e[2] > float(spec.get("fine_bound", 1.0)):
            # ... and whose last step-halving difference is 1.2e-7 at most on the unchanged tree (30 initial conditions)
            bad.append("rho: still changes by %.3g between dt/4 and dt/8 (at most 1.2e-7 expected for this run)" % e[2])
    if not bad and spec.get("cross", True):
        # "converge to the EXACT solution": a scheme can converge at second order to something else. The two electronic
        # integrators discretise the same equation, so at the finest level they differ by no more than their own errors, which
        # the last Richardson differences estimate (error ~ difference / 3); judged only when both look asymptotic
        other = "linear-rk4" if spec.get("integ", "exp") == "exp" else "exp"
        ro = []
        for k in (2, 3):
            t = _traj(spec, spec["dt"] / 2 ** k, spec["steps"] * 2 ** k, x0=x_shared, p0=p_shared, rho0=rho_shared, integ=other)
            t.simulate()
            ro.append(np.array(t.rho))
        est_this = float(np.max(np.abs(res[2][2] - res[3][2])))
        est_other = float(np.max(np.abs(ro[0] - ro[1])))
        cross = float(np.max(np.abs(res[3][2] - ro[1])))
        out["cross"] = {"difference_between_integrators": cross, "own_estimates": [est_this, est_other]}
        asym = all(2.5 <= r <= 6.0 for r in out["rho"]["ratios"]) or out["rho"]["differences"][1] <= 1e-8
        if asym and cross > 5.0 * (est_this + est_other) + 1e-9:
            bad.append("rho: the two electronic integrators differ by %.3g at dt/8 while their own step-halving differences are %.3g and %.3g"
                       % (cross, est_this, est_other))
            return False, out, {"ratio": "about 4 (>= 3)", "cross": "<= 5 x (own estimates)"}, \
                "second-order convergence, but not to the solution the other integrator converges to: " + bad[0]
    if not bad and spec.get("exact"):
        # ... and to the EXACT solution itself: x' = p/m, p' = -<phi_s|dV|phi_s>, i c' = V(x) c integrated independently (classical RK4,
        # step dt/16, in the DIABATIC basis: no eigenvector is carried from step to step, so no phase convention enters); compared are
        # position, momentum and the magnitudes |rho_ij| in the adiabatic basis at the end point (they do not depend on eigenvector signs)
        model, _rho, _r = _model(spec)
        s_, mass = int(spec["state"]), float(np.asarray(model.mass)[0])

        def rhs(y):
            x = np.array([y[0].real])
            Vx, dVx = np.asarray(model.V(x)), np.asarray(model.dV(x))[0]
            _w, C = np.linalg.eigh(Vx)
            f = -float(C[:, s_] @ dVx @ C[:, s_])
            return np.concatenate([[y[1].real / mass, f], -1j * (Vx @ y[2:])])
        _w0, C0 = np.linalg.eigh(np.asarray(model.V(x_shared)))
        y = np.concatenate([[x_shared[0], p_shared[0]], C0[:, s_]]).astype(np.complex128)
        h = spec["dt"] / 16.0
        for _ in range(int(spec["steps"]) * 16):
            k1 = rhs(y); k2 = rhs(y + 0.5 * h * k1); k3 = rhs(y + 0.5 * h * k2); k4 = rhs(y + h * k3)
            y = y + h / 6.0 * (k1 + 2 * k2 + 2 * k3 + k4)
        _w1, C1 = np.linalg.eigh(np.asarray(model.V(np.array([y[0].real]))))
        ca = C1.T @ y[2:]
        rho_exact = np.abs(np.outer(ca, ca.conj()))
        fine = res[3]
        est = {nm: out[nm]["differences"][2] for nm in ("x", "p", "rho")}
        dev = {"x": abs(fine[0][0] - y[0].real), "p": abs(fine[1][0] - y[1].real), "rho": float(np.max(np.abs(np.abs(fine[2]) - rho_exact)))}
        out["exact"] = {"deviation_of_the_finest_run": dev, "its_own_last_halving_differences": est}
        for nm in ("x", "p", "rho"):
            if dev[nm] > 5.0 * est[nm] + 1e-7 * (1.0 + abs(y[1].real) if nm == "p" else 1.0):
                return False, out, {"deviation from the exact solution": "<= 5 x (last step-halving difference)"}, \
                    "second-order convergence, but NOT to the exact solution: %s at dt/8 is %.3g away from the independently integrated " \
                    "solution while halving the step changed it by %.3g only" % (nm if nm != "rho" else "|rho|", dev[nm], est[nm])
    return not bad, out, {"ratio": "about 4 (>= 3)"}, "error does not shrink fourfold when dt is halved: " + ", ".join(bad)


@safe_oracle
def oracle_final_time(args):
    """"at a fixed final time": a run ended by max_time=T takes round(T/dt) steps and its last snapshot is AT T (1e-8), also for
    steps that are not binary fractions (the clock is accumulated by time += dt and may land a few ulp below T)"""
    import mudslide
    spec = dict(args)
    T = float(spec["T"])
    problems = []
    for dt in spec["dts"]:
        if spec.get("md"):
            rng = np.random.Generator(np.random.PCG64(spec["model_seed"]))
            nd = spec["n"]
            model = mudslide.models.HarmonicModel(np.zeros(nd), 0.0, np.diag(rng.uniform(0.001, 0.01, size=nd)), rng.uniform(500, 3000, size=nd))
            t = mudslide.AdiabaticMD(model, rng.normal(size=nd), rng.normal(size=nd) * 3, dt=dt, max_time=T)
        else:
            model, rho0, _r = _model(spec)
            t = mudslide.TrajectorySH(model, np.array(spec["x0"]), np.array(spec["p0"]), rho0, state0=spec["state"], dt=dt, max_time=T,
                                      zeta_list=[1e300] * (int(T / dt) + 10), electronic_integration=spec.get("integ", "exp"), seed_sequence=1)
        tr = t.simulate()
        last = list(tr)[-1]
        steps = int(round(T / dt))
        if abs(last["time"] - T) > 1e-8 or t.nsteps != steps:
            problems.append("dt=%r: the run ended at t=%r after %d steps; the requested final time is %r (%d steps)" % (dt, last["time"], t.nsteps, T, steps))
    return not problems, {"problems": problems[:3]}, {"final_time": T}, "; ".join(problems[:2]) or "ok"


ORACLES = {"final_time": oracle_final_time, "whole_run": rc.oracle_whole_run, "reverse": oracle_reverse, "order": oracle_order}


def run(ctx):
    ctx.rule = ("single hop-free steps of the real TrajectorySH on synthetic smooth models (N=2..4 states, n=1..3 dims, unequal "
                "masses, coherent rho), every piece compared with the model: Verlet update, midpoint generator (true midpoint "
                "velocity), exponential step with the captured eigh; forward/reverse runs (FSSH exp integrator, single-surface MD; also released from "
                "rest and in the diabatic representation) and Richardson levels dt..dt/8 for both integrators in both representations. Non-trivial = n>=2 or N>=3; distinct by (check, N, n, integrator)")
    ctx.assumptions += ["order two is a Lean theorem for harmonic models only (verlet_harmonic_global_error, explicit constants); for a general smooth force symmetric + consistent => even order is cited, and the factor four is tested by Richardson ratios",
                        "the reversed run continues the adiabatic gauge of the forward run (its final electronics object is passed on)"]
    ctx.fingerprints["mudslide/trajectory_sh.py"] = fingerprint(
        "mudslide/trajectory_sh.py", ["advance_position", "advance_velocity", "hamiltonian_propagator", "propagate_electronics", "simulate"])
    ctx.fingerprints["mudslide/adiabatic_md.py"] = fingerprint("mudslide/adiabatic_md.py", ["advance_position", "advance_velocity"])
    ctx.proofs()
    rng = ctx.rng
    specs = []
    for i in range(ctx.budget(40, 2000)):
        N, n = int(rng.integers(2, 5)), int(rng.integers(1, 4))
        specs.append(dict(N=N, n=n, model_seed=int(rng.integers(1, 10 ** 6)), x0=list(rng.normal(size=n) * 0.5),
                          p0=list(rng.normal(size=n) * 10 + 5), state=int(rng.integers(0, N)), dt=float(rng.choice([1.0, 4.0, 10.0])),
                          warm=int(rng.integers(0, 3))))
    lines, keep = [], []
    for spec in specs:
        before, after, W, w, C, mass, cap = one_step(spec)
        N, n = spec["N"], spec["n"]
        ctx.monitor("eigh_orthonormality", cap.worst_orth)
        ctx.monitor("eigh_residual_rel", cap.worst_resid)
        lines.append(["verlet", n] + fbs(mass) + fbs(before["x"]) + fbs(before["v"]) + fbs(before["F0"]) + fbs(after["F1"]) + [fb(spec["dt"])])
        lines.append(["hamprop", N, n] + fbs(after["H1"]) + fbs(before["H0"]) + fbs(after["d1"]) + fbs(before["d0"]) + fbs(after["v"]) + fbs(before["v"]))
        lines.append(["hamprop", N, n] + fbs(after["H1"]) + fbs(before["H0"]) + fbs(after["d1"]) + fbs(before["d0"]) + fbs(after["v"]) + fbs(after["v"]))
        lines.append(["expstep", N] + fbs(w) + cbs(C) + [fb(spec["dt"])] + cbs(before["rho"]))
        keep.append((spec, before, after, W))
    outs = ctx.model.run(lines)
    for k, (spec, before, after, W) in enumerate(keep):
        N, n = spec["N"], spec["n"]
        ov, ow, owp, oe = outs[4 * k: 4 * k + 4]
        mx = np.array([unfb(t) for t in ov[1:1 + n]])
        mv = np.array([unfb(t) for t in ov[1 + n:1 + 2 * n]])
        Wm, Wp = ec.parse_cmat(ow[1:], N), ec.parse_cmat(owp[1:], N)
        rm = ec.parse_cmat(oe[1:], N)
        ctx.case((N, n, spec["dt"]) if (n >= 2 or N >= 3) else None,
                 {"op": "full-step", "spec": spec, "impl_x": after["x"], "model_x": mx, "impl_W00": W[0, 0], "model_W00": Wm[0, 0]})
        ctx.count("steps")
        if not (allclose(after["x"], mx, 1.0 + float(np.max(np.abs(mx)))) and allclose(after["v"], mv, float(np.max(np.abs(mv))))):
            ctx.corr_mismatch("step.verlet", spec, "x', v' differ")
        sc = float(np.max(np.abs(W)))

        def same(A, B):
            return allclose(np.concatenate([A.real.ravel(), A.imag.ravel()]), np.concatenate([B.real.ravel(), B.imag.ravel()]), sc)
        Wl = np.tril(W)          # eigh reads the lower triangle: compare there (the upper one is scratch space of the caller)
        if same(np.tril(Wm), Wl):
            ctx.count("generator_matches_true_midpoint")
        elif same(np.tril(Wp), Wl):
            ctx.pinned_match("last-velocity-alias", "step.generator", spec,
                             "the generator is built from the NEW velocity only (last_velocity aliases velocity)")
        else:
            ctx.corr_mismatch("step.generator", spec, "W differs from both variants")
        if not same(rm, after["rho"]):
            ctx.corr_mismatch("step.expstep", spec, "rho' differs")
    # whole hop-free runs against the composed step of the model (MudModel/Step.lean)
    rc.run_correspondence(ctx, ctx.budget(6, 150), hops=False, label="shrun_hopfree")
    for i in range(ctx.budget(12, 150)):
        N, n = int(rng.integers(2, 4)), int(rng.integers(1, 3))
        spec = dict(N=N, n=n, model_seed=int(rng.integers(1, 10 ** 6)), x0=list(rng.normal(size=n) * 0.5), p0=list(rng.normal(size=n) * 10 + 5),
                    state=int(rng.integers(0, N)), dt=float(rng.choice([2.0, 5.0])), steps=int(rng.integers(10, 40)), md=(i % 4 == 3))
        if i % 4 == 1:
            spec["p0"] = [0.0] * n                      # released from rest: the first midpoint velocity averages with exactly zero
        if i % 4 == 2:
            spec["representation"] = "diabatic"         # non-diagonal electronic Hamiltonian, no derivative coupling
        ok, obs, req, text = oracle_reverse(spec)
        ctx.case(("reverse", "md" if spec["md"] else "fssh", N, n, i % 4))
        ctx.count("reverse_runs")
        if "rho_error" in obs:
            ctx.monitor("max_reverse_rho_error", obs["rho_error"])
        if not ok:
            sig = "time-reversal:" + ("md" if spec["md"] else "fssh")
            if not spec["md"] and obs.get("rho_error", 0) > 1e-9 and obs.get("x_error", 1) <= 1e-9:
                sig = "last-velocity-alias"
            ctx.oracle_fail(sig, "reverse", spec, obs, req, text)
    for i in range(ctx.budget(3, 30)):
        N, n = int(rng.integers(2, 4)), int(rng.integers(1, 3))
        a = dict(N=N, n=n, model_seed=int(rng.integers(1, 10 ** 6)), x0=list(rng.normal(size=n) * 0.5), p0=list(rng.normal(size=n) * 10 + 5),
                 state=int(rng.integers(0, N)), T=float(rng.choice([6.0, 12.0, 60.0])), dts=[0.4, 0.2, 0.1, 0.05, 0.3, 0.6][:4 + i % 3],
                 integ=["exp", "linear-rk4"][i % 2], md=(i % 3 == 2))
        if a["T"] == 60.0:
            a["dts"] = [0.4, 0.3, 0.6]
        ok, obs, req, text = oracle_final_time(a)
        ctx.case(("final-time", a["T"], a["md"]))
        ctx.count("runs_to_a_fixed_final_time", len(a["dts"]))
        if not ok:
            ctx.oracle_fail("final-time", "final_time", a, obs, req, text)
    for i in range(ctx.budget(9, 62)):
        N, n = int(rng.integers(2, 4)), int(rng.integers(1, 3))
        spec = dict(N=N, n=n, model_seed=int(rng.integers(1, 10 ** 6)), x0=list(rng.normal(size=n) * 0.5), p0=list(rng.normal(size=n) * 10 + 5),
                    state=int(rng.integers(0, N)), dt=4.0, steps=16, integ=["exp", "linear-rk4"][i % 2], max_edt=0.5)
        if (i // 2) % 2 == 1:
            spec["representation"] = "diabatic"
        if i % 31 == 8:
            spec = dict(builtin="shin-metiu", N=3, n=1, model_seed=int(rng.integers(1, 10 ** 6)), x0=[float(rng.uniform(-6.8, -6.4))],
                        p0=[float(rng.uniform(12.0, 16.0))], state=0, dt=4.0, steps=60, strict=True, fine_bound=2e-5, integ=["exp", "linear-rk4"][(i // 31) % 2], max_edt=0.5)
        if i % 31 == 6:
            spec = dict(builtin="modelx", N=3, n=1, model_seed=1, x0=[float(rng.uniform(-12.5, -11.5))], p0=[float(rng.uniform(28.0, 32.0))], state=0,
                        dt=4.0, steps=300, judge=True, exact=True, integ=["exp", "linear-rk4"][(i // 31) % 2], max_edt=0.5)
            ctx.count("richardson_long_path_through_exchanging_states")
        ok, obs, req, text = oracle_order(spec)
        ctx.case(("order", spec["integ"], N, n, spec.get("representation", "adiabatic")))
        ctx.count("richardson_triples")
        if obs.get("not_judged"):
            ctx.count("richardson_triples_not_judged_near_degeneracy")
        if "rho" in obs:
            ctx.monitor("min_rho_ratio_neg", -obs["rho"]["ratio"])
        if not ok:
            only_rho = "rho" in text and "x:" not in text and "p:" not in text
            ctx.oracle_fail("last-velocity-alias" if only_rho else "convergence-order", "order", spec, obs, req, text)

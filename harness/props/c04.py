# -*- coding: utf-8 -*-
"""C04 — frustrated hops rejected; rescale along the coupling vector; event log consistent."""
import math
import os
import shutil
import tempfile

import numpy as np
import yaml

from ..core import fb, fbs, unfb, close, allclose, fingerprint, safe_oracle
from .. import hopcommon as hc
from .. import runcommon as rc
from . import c01


@safe_oracle
def oracle_hop_rule(args):
    """accepted iff KE along the direction exceeds the gap (60-digit arithmetic; ties inside 1e-12 not judged);
    the momentum change is parallel to the direction and uses the smaller-magnitude root; events logged once"""
    c = dict(args["case"])
    cls = args["cls"]
    r = hc.impl_hop(c, cls)
    want, marg = hc.margin(c)
    mass, v, d = np.array(c["mass"]), np.array(c["v"]), np.array(c["d"])
    u = d / np.linalg.norm(d)
    problems = []
    if r.get("pre_problem"):
        problems.append(r["pre_problem"])
    if marg >= 1e-12 and bool(r["accepted"]) != want:
        problems.append("accepted=%d but the rule says %d (margin %.3g)" % (r["accepted"], want, marg))
    if not np.all(np.isfinite(r["v"])):
        problems.append("velocity after the hop attempt is not finite: %r" % (r["v"].tolist(),))
    elif r["accepted"]:
        dp = mass * (r["v"] - v)
        s = float(np.dot(dp, u))
        perp = dp - s * u
        if np.linalg.norm(perp) > 1e-9 * max(np.linalg.norm(dp), 1e-300) + 1e-13 * np.linalg.norm(mass * v):
            problems.append("momentum change not parallel to the direction: perp %r" % (perp,))
        a = float(np.sum(u * u / mass))
        b = float(2 * np.dot(v, u))
        cc = 2.0 * (c["E"][c["t"]] - c["E"][c["s"]])
        if s != 0.0 and cc != 0.0:
            other = cc / (a * s)          # product of the roots is c/a
            if abs(s) > abs(other) * (1 + 1e-9):
                problems.append("not the smaller root: s=%r other=%r" % (s, other))
        ev = r["hops"]
        if not (len(ev) == 1 and len(r["frustrated"]) == 0 and ev[0]["from"] == c["s"] and ev[0]["to"] == c["t"]
                and ev[0]["time"] == r["time"]):
            problems.append("hop event log %r / %r" % (ev, r["frustrated"]))
    else:
        exact = np.array_equal(r["v"], v) if cls != "EvenSamplingTrajectory" else allclose(r["v"], v, rtol=4e-16, atol=0)
        if not exact or r["state"] != c["s"]:
            problems.append("rejected hop changed velocity/state")
        ev = r["frustrated"]
        if not (len(ev) == 1 and len(r["hops"]) == 0 and ev[0]["from"] == c["s"] and ev[0]["to"] == c["t"]
                and ev[0]["time"] == r["time"]):
            problems.append("frustrated event log %r / %r" % (ev, r["hops"]))
    if not r["parent_ok"]:
        problems.append("even-sampling parent was modified by the child's hop")
    return not problems, {"accepted": r["accepted"], "v": r["v"], "problems": problems}, \
        {"accepted": want, "margin": marg}, "; ".join(problems) or "ok"


def _events_of(trace):
    """(hop events, frustrated events) of a trace of either store"""
    if hasattr(trace, "hops"):
        return list(trace.hops), list(trace.events.get("frustrated_hop", []))
    path = os.path.join(trace.location, trace.event_log)
    with open(path) as f:
        evs = yaml.safe_load(f) or []
    return [e for e in evs if e.get("event") == "hop"], [e for e in evs if e.get("event") == "frustrated_hop"]


@safe_oracle
def oracle_restart_events(args):
    """a run stopped right after the step of an ACCEPTED hop, restarted from its log and continued: over the whole log every change
    of the active state between consecutive snapshots still has exactly one hop event, every hop event a change, and the
    continuation is on the state the log ended on"""
    import mudslide
    model = mudslide.models.scattering_models[args["model"]]()
    K, dt = int(args["K"]), float(args["dt"])
    zetas = [float(z) for z in args["zetas"]]
    cls = getattr(mudslide, args["cls"])

    def make(**kw):
        return cls(model, np.array([args["x0"]]), np.array([args["p0"]]), 0, dt=dt, seed_sequence=7, **kw)
    full = make(max_steps=K, zeta_list=list(zetas)).simulate()
    hop_steps = sorted({int(round(h["time"] / dt)) for h in full.hops})
    problems, tried = [], 0
    for hstep in hop_steps[:3]:
        k = hstep + 1                                     # the run stops right after the step that hopped
        if k >= K - 1:
            continue
        tried += 1
        tmp = None
        try:
            kw = {}
            if args.get("store") == "yaml":
                tmp = tempfile.mkdtemp(prefix="verif-c04-")
                kw["tracer"] = mudslide.YAMLTrace(base_name="t", location=tmp, log_pitch=int(args.get("pitch", 5)))
            first = make(max_steps=k, zeta_list=list(zetas), **kw)
            log = first.simulate()
            n0 = len(log)
            used = len(zetas) - len(first.zeta_list)
            r = cls.restart(model, log, max_steps=K, zeta_list=list(zetas[used:]), seed_sequence=7)
            tr = r.simulate()
            snaps = list(tr)
            hops, _fr = _events_of(tr)
            usedh = [False] * len(hops)
            for s0, s1 in zip(snaps[:-1], snaps[1:]):
                if s0["active"] != s1["active"]:
                    idx = [i for i, h in enumerate(hops) if h["time"] == s0["time"] and h["from"] == s0["active"] and h["to"] == s1["active"]]
                    if len(idx) != 1:
                        problems.append("restart after the hop at step %d: state change %d->%d at t=%r has %d hop events"
                                        % (hstep, s0["active"], s1["active"], s0["time"], len(idx)))
                    else:
                        usedh[idx[0]] = True
            loose = [h for h, u_ in zip(hops, usedh) if not u_]
            if loose:
                problems.append("restart after the hop at step %d: hop event(s) without a state change: %r" % (hstep, loose[:2]))
            if len(snaps) > n0 and snaps[n0]["active"] != snaps[n0 - 1]["active"] and not any(
                    h["time"] == snaps[n0 - 1]["time"] for h in hops):
                problems.append("the continuation runs on state %d, the log ended on state %d" % (snaps[n0]["active"], snaps[n0 - 1]["active"]))
        finally:
            if tmp:
                shutil.rmtree(tmp, ignore_errors=True)
        if problems:
            break
    return not problems, {"hops_in_the_uninterrupted_run": len(hop_steps), "restarts_tried": tried, "problems": problems[:3]}, \
        {"problems": []}, "; ".join(problems[:2]) or "ok"


@safe_oracle
def oracle_run_events(args):
    """with every step logged: each change of active state between consecutive snapshots <-> exactly one hop event
    (time of the earlier snapshot, from/to the two states); each rejection <-> exactly one frustrated_hop event"""
    spec = dict(args)
    tmp = None
    if spec.get("store") == "yaml":
        import mudslide
        tmp = tempfile.mkdtemp(prefix="verif-c04-")
        spec["options"] = dict(spec.get("options", {}))
        spec["options"]["tracer"] = mudslide.YAMLTrace(base_name="t", location=tmp, log_pitch=spec.get("pitch", 7))
    try:
        traces, recs = c01._run_spec(spec)
        problems = []
        rej = [(tid, tm, b[0], t) for b, a, t, tid, tm in recs if a[0] == b[0]]
        nrej = len(rej)
        allfr = set()
        nchanges = 0
        for tr in traces:
            snaps = list(tr)
            hops, fr = _events_of(tr)
            used = [False] * len(hops)
            for s0, s1 in zip(snaps[:-1], snaps[1:]):
                if s0["active"] != s1["active"]:
                    nchanges += 1
                    idx = [i for i, h in enumerate(hops) if h["time"] == s0["time"] and h["from"] == s0["active"]
                           and h["to"] == s1["active"]]
                    if len(idx) != 1:
                        problems.append("state change %d->%d at t=%r has %d hop events" %
                                        (s0["active"], s1["active"], s0["time"], len(idx)))
                    else:
                        used[idx[0]] = True
            # an even-sampling child that is stopped the moment it is spawned (zero weight, or a limit already
            # met) never logs a snapshot of its own: its single hop event sits at the time of the last snapshot
            # and there are no "consecutive snapshots" around it; that case is outside this property (C10/C16)
            loose = [h for h, u_ in zip(hops, used) if not u_]
            tail = [h for h in loose if snaps and h["time"] == snaps[-1]["time"]]
            if len(tail) <= 1 and len(tail) == len(loose):
                loose = []
            if loose:
                problems.append("hop event(s) without a state change: %r" % loose)
            # the frustrated_hop events of a trace are exactly the rejections recorded through it, in order (for a clone:
            # what its source held at the clone, then its own) - nothing leaks in from siblings or from the original
            want_fr = list(getattr(tr, "_verif_fr", []))
            got_fr = [(float(e["time"]), int(e["from"]), int(e["to"]), float(e["zeta"])) for e in fr]
            if got_fr != want_fr:
                extra = [e for e in got_fr if e not in want_fr]
                missing = [e for e in want_fr if e not in got_fr]
                problems.append("frustrated_hop events of a trace differ from the rejections recorded through it: %d unexpected %r, "
                                "%d missing %r" % (len(extra), extra[:2], len(missing), missing[:2]))
            times = {s["time"]: s["active"] for s in snaps}
            for e in fr:
                allfr.add((e["time"], e["from"], e["to"], e["zeta"]))
                if e["time"] in times and times[e["time"]] != e["from"]:
                    problems.append("frustrated event %r does not match the active state %r" % (e, times[e["time"]]))
        if len(traces) == 1:
            if len(_events_of(traces[0])[1]) != nrej:
                problems.append("%d frustrated_hop events but %d rejections happened" % (len(_events_of(traces[0])[1]), nrej))
        # (even-sampling children inherit their parent's events: matched both ways instead of counted)
        bytrace = {id(tr): _events_of(tr)[1] for tr in traces}
        for tid, tm, fr_, to_ in rej:
            if tid in bytrace and sum(1 for e in bytrace[tid] if e["time"] == tm - 0.0 and e["from"] == fr_ and e["to"] == to_) < 1:
                # the child's clock is advanced after its hop: its event carries the parent's time
                if sum(1 for e in bytrace[tid] if e["from"] == fr_ and e["to"] == to_) < 1:
                    problems.append("rejection %d->%d at t=%r left no frustrated_hop event" % (fr_, to_, tm))
        keys = {(fr_, to_) for _tid, _tm, fr_, to_ in rej}
        for (tm, fr_, to_, _z) in allfr:
            if (fr_, to_) not in keys:
                problems.append("frustrated_hop event %d->%d at t=%r without a rejection" % (fr_, to_, tm))
        multi = sum(1 for tr in traces if 1 <= getattr(tr, "_verif_inherited", 0) < len(getattr(tr, "_verif_fr", [])))
        return not problems, {"state_changes": nchanges, "rejections": nrej, "traces": len(traces), "traces_with_inherited_and_own_rejections": multi,
                              "problems": problems[:4]}, \
            {"problems": []}, "; ".join(problems[:3]) or "ok"
    finally:
        if tmp:
            shutil.rmtree(tmp, ignore_errors=True)


ORACLES = {"restart_events": oracle_restart_events, "whole_run": rc.oracle_whole_run, "hop_rule": oracle_hop_rule, "run_events": oracle_run_events}


def run(ctx):
    ctx.rule = ("hop cases as in C01 (n=1..4, N=2..5, unequal masses, direction with zero components / aligned / "
                "random), gap at relative distance 1e-13..0.3 on both sides of the acceptance threshold, all four "
                "hopping classes; whole runs with hops on synthetic multi-D models with both trace stores. "
                "Non-trivial = n>=2 or |delta|<1e-3 or run with >=1 hop; distinct by (class, n, N, outcome, kind, decade)")
    ctx.assumptions += ["acceptance near-ties (relative margin < 1e-12 in 60-digit arithmetic) are not judged",
                        "A-FSSH rescale direction is taken from the implementation's delP (moments are C11)"]
    ctx.fingerprints["mudslide/trajectory_sh.py"] = fingerprint(
        "mudslide/trajectory_sh.py", ["hop_allowed", "direction_of_rescale", "rescale_component", "hop_to_it"])
    ctx.fingerprints["mudslide/afssh.py"] = fingerprint("mudslide/afssh.py", ["direction_of_rescale"])
    ctx.proofs()
    rng = ctx.rng

    cases = [hc.make_case(rng, kind=("up-near" if i % 3 else None)) for i in range(ctx.budget(600, 60000))]
    outs = ctx.model.run([hc.model_line(c) for c in cases])
    for i, (c, o) in enumerate(zip(cases, outs)):
        cls = hc.CLASSES[i % 4]
        m = hc.parse_model(c, o)
        ok, obs, req, text = oracle_hop_rule({"case": c, "cls": cls})
        if "exception" in obs:
            ctx.case(None)
            ctx.oracle_fail("hop-rule:" + cls, "hop_rule", {"case": c, "cls": cls}, obs, req, text)
            continue
        r = hc.impl_hop(c, cls)
        want, marg = hc.margin(c)
        dec = int(math.floor(math.log10(abs(c["delta"])))) if c["delta"] else 0
        ctx.case((cls, c["n"], c["N"], r["accepted"], c["kind"], dec) if (c["n"] >= 2 or abs(c["delta"]) < 1e-3) else None,
                 {"op": "hop", "class": cls, "case": c, "impl_accepted": r["accepted"], "model_accepted": m["accepted"]})
        ctx.count("hop:%s:%s" % (c["kind"], "acc" if r["accepted"] else "rej"))
        ctx.count("margin_decade:%d" % (int(math.floor(math.log10(marg))) if marg > 0 else -99))
        if r["accepted"] != m["accepted"]:
            if marg < 1e-12:
                ctx.near_ties += 1
            else:
                ctx.corr_mismatch("hop.accepted", c, "model %d impl %d on %s" % (m["accepted"], r["accepted"], cls))
        else:
            evs = r["hops"] if r["accepted"] else r["frustrated"]
            if len(evs) != 1 or evs[0]["from"] != m["evFrom"] or evs[0]["to"] != m["evTo"]:
                ctx.corr_mismatch("hop.event", c, "impl events %r, model (%d,%d)" % (evs, m["evFrom"], m["evTo"]))
            if r["accepted"] and m["s"] != 0.0:
                dp = float(np.dot(np.array(c["mass"]) * (r["v"] - np.array(c["v"])), np.array(c["d"]) / np.linalg.norm(c["d"])))
                tie_roots = abs(m["b"]) <= 1e-14 * math.sqrt(abs(m["a"] * m["c"]) + 1e-300)
                # a root next to a double root (gap at the acceptance threshold) is ill-conditioned: its error is
                # ~sqrt(eps) of its size whatever the root finder; compare with that conditioning, not with 1e-9
                near_double = abs(m["sbig"] - m["s"]) <= 1e-3 * abs(m["s"])
                rt = 1e-6 if near_double else 1e-9
                # np.roots takes the eigenvalues of the companion matrix: the SMALL root of a pair of widely separated roots carries
                # an absolute error ~ eps * |big root| (thorough seed 79: roots 1e-3 and -4.9e4, relative error 1.9e-9 on the small one)
                rt = max(rt, 4e-15 * abs(m["sbig"] / m["s"]))
                if not (close(dp, m["s"], max(abs(m["s"]), 1e-300), rtol=rt) or (tie_roots and close(-dp, m["s"], abs(m["s"])))):
                    ctx.corr_mismatch("hop.root", c, "impl scale %r, model root %r (other %r)" % (dp, m["s"], m["sbig"]))
        if not ok:
            ctx.oracle_fail("hop-rule:" + cls, "hop_rule", {"case": c, "cls": cls}, obs, req, text)

    # whole runs against the composed step of the model (MudModel/Step.lean): every snapshot and every event
    rc.run_correspondence(ctx, ctx.budget(12, 300), hops=True, label="shrun")

    # stop right after a hop, restart, continue: events vs active sequence over the whole log
    for j in range(ctx.budget(4, 40)):
        Kr = int(rng.integers(28, 40))
        a = dict(cls=["TrajectorySH", "TrajectoryCum"][j % 2], model=["simple", "dual"][(j // 2) % 2], x0=-1.5, p0=float(rng.uniform(14, 22)),
                 dt=10.0, K=Kr, zetas=[float(v) for v in 0.02 * rng.random(Kr + 6)], store=["memory", "yaml"][(j // 2) % 2], pitch=int(rng.integers(2, 8)))
        ok, obs, req, text = oracle_restart_events(a)
        ctx.case(("restart-events", a["cls"], a["store"], obs.get("restarts_tried", 0) > 0))
        ctx.count("restarts_right_after_an_accepted_hop", int(obs.get("restarts_tried", 0)))
        if not ok:
            ctx.oracle_fail("restart-events:" + a["cls"], "restart_events", a, obs, req, text)

    # run level: events vs active sequence, both stores
    # (how many hops and rejections a batch of random runs contains varies a lot with the seed: batches are added until the
    # check has seen a minimum of both, so that a quiet seed does not mean a weak check)
    specs = c01._run_specs(ctx, ctx.budget(16, 160))
    i = -1
    seen_changes = seen_rej = seen_rej_es = 0
    while True:
        i += 1
        if i >= len(specs):
            if (seen_changes >= 60 and seen_rej >= 20 and seen_rej_es >= 3) or len(specs) >= ctx.budget(80, 320):
                break
            # rejections over two generations of an even-sampling TREE (a trace that inherited a rejection from the trace it was
            # cloned from and then suffered its own) are what the per-trace event bookkeeping is about: when they are what is
            # missing, cold trees on the lowest state are added (upward hops mostly frustrated)
            if seen_changes >= 60 and seen_rej >= 20:
                more = c01._run_specs(ctx, 8, only="EvenSamplingTrajectory")
                for sp in more:
                    sp.update(p0=list(rng.normal(size=sp["n"]) * 0.5 + 0.5), state=0, gap=0.05, dt=1.0, coherent=False)
                specs += more
            else:
                specs += c01._run_specs(ctx, 8)
            ctx.count("run_batches_added_for_minimum_events")
        spec = specs[i]
        if i % 2 == 1 and spec["cls"] in ("TrajectorySH", "TrajectoryCum"):
            spec["store"] = "yaml"
            spec["pitch"] = int(rng.integers(1, 9))
            spec["steps"] = min(spec["steps"], 60)
        ok, obs, req, text = oracle_run_events(spec)
        seen_changes += int(obs.get("state_changes", 0))
        seen_rej += int(obs.get("rejections", 0))
        seen_rej_es += int(obs.get("traces_with_inherited_and_own_rejections", 0))
        ctx.count("run_traces_with_inherited_and_own_rejections", int(obs.get("traces_with_inherited_and_own_rejections", 0)))
        ctx.case(("run", spec["cls"], spec.get("store", "memory"), obs["state_changes"] > 0, obs["rejections"] > 0))
        ctx.count("run:%s:%s" % (spec["cls"], spec.get("store", "memory")))
        ctx.count("run_state_changes", obs["state_changes"])
        ctx.count("run_rejections", obs["rejections"])
        if not ok:
            ctx.oracle_fail("event-log:" + spec["cls"], "run_events", spec, obs, req, text)

# -*- coding: utf-8 -*-
"""C13 — restarting from a log reproduces the uninterrupted trajectory."""
import os
import shutil
import tempfile

import numpy as np

from ..core import fb, fbs, unfb, close, allclose, fingerprint, safe_oracle
from ..synth import SynthModel, random_rho


def _setup(spec):
    """model, class, constructor arguments for one deterministic trajectory"""
    import mudslide
    rng = np.random.Generator(np.random.PCG64(spec["model_seed"]))
    cls = getattr(mudslide, spec["cls"])
    if spec["cls"] == "AdiabaticMD":
        nd = spec["n"]
        model = mudslide.models.HarmonicModel(np.zeros(nd), 0.0, np.diag(rng.uniform(0.001, 0.01, size=nd)), rng.uniform(500, 3000, size=nd))
        args = (model, rng.normal(size=nd), rng.normal(size=nd) * 3)
        kw = {}
    else:
        if spec.get("builtin"):
            model = mudslide.models.scattering_models[spec["builtin"]]()
            x0, p0 = np.array([float(spec["x0"])]), np.array([float(spec["p0"])])
        else:
            model = SynthModel(rng, spec["N"], spec["n"], scale=0.03, gap=0.02, quad=0.004, mass=10 ** rng.uniform(2.5, 3.5, size=spec["n"]))
            x0, p0 = rng.normal(size=spec["n"]) * 0.5, rng.normal(size=spec["n"]) * 10 + 5
        N = model.nstates()
        rho0 = random_rho(rng, N, "pure") if spec["cls"] == "Ehrenfest" else 0
        kw = {"state0": 0} if spec["cls"] == "Ehrenfest" else {}
        if spec.get("rho") == "mixed":
            # a mixed (impure) initial density matrix: tr rho^2 < 1, so any "renormalisation" of rho shows
            rho0 = random_rho(rng, N, "mixed")
            kw = {"state0": 0}
        args = (model, x0, p0, rho0)
        if spec["cls"] == "TrajectorySH":
            kw["zeta_list"] = [float(z) for z in spec["zetas"]]
        if spec.get("integ"):
            kw["electronic_integration"] = spec["integ"]
    return model, cls, args, kw


def _limits(spec, K=None):
    if spec["rule"] == "max_steps":
        return {"max_steps": spec["K"] if K is None else K}
    return {"max_time": spec["t0"] + spec["dt"] * (spec["K"] if K is None else K), "max_steps": 100000}


def _fields(s):
    out = {"time": s["time"], "position": np.asarray(s["position"]), "momentum": np.asarray(s["momentum"])}
    if "density_matrix" in s:
        out["density_matrix"] = np.asarray(s["density_matrix"])
        out["active"] = s["active"]
    return out


def energies_of(spec):
    """(total energies of the uninterrupted run, total energies of the log of the interrupted-and-restarted run, restart index)"""
    keep = {}
    orig = _fields

    def with_energy(s):
        out = orig(s)
        keep.setdefault("e", []).append(float(s["energy"]))
        return out
    globals()["_fields"] = with_energy
    try:
        U, R, n_before, _g = run_case(spec)
    finally:
        globals()["_fields"] = orig
    e = keep["e"]
    return e[:len(U)], e[len(U):], n_before


def _same_snap(a, b):
    for k in a:
        if k == "active":
            if a[k] != b[k]:
                return "active state %r vs %r" % (a[k], b[k])
        elif k == "time":
            if not close(a[k], b[k], abs(b[k]) + 1.0, rtol=1e-12):
                return "time %r vs %r" % (a[k], b[k])
        else:
            x, y = np.asarray(a[k]), np.asarray(b[k])
            sc = float(np.max(np.abs(y))) + 1e-12
            if x.shape != y.shape or float(np.max(np.abs(x - y))) > 1e-8 * sc:
                return "%s differs by %.3g" % (k, float(np.max(np.abs(x - y))))
    return None


def run_case(spec, repair_gauge=False):
    """uninterrupted run vs (run stopped after k steps -> restart from its YAML log)"""
    import mudslide
    from mudslide.tracer import load_log
    model, cls, args, kw = _setup(spec)
    k = spec["k"]
    full = cls(*args, dt=spec["dt"], t0=spec["t0"], seed_sequence=1, **_limits(spec), **kw)
    U = [_fields(s) for s in full.simulate()]
    tmp = tempfile.mkdtemp(prefix="verif-c13-")
    try:
        model2, cls, args, kw = _setup(spec)
        tr = mudslide.YAMLTrace(base_name="traj", location=tmp, log_pitch=spec["pitch"])
        part = cls(*args, dt=spec["dt"], t0=spec["t0"], seed_sequence=1, tracer=tr, max_steps=k, **kw)
        part.simulate()
        main = os.path.join(tmp, tr.main_log)
        log = load_log(main)
        n_before = len(log)
        opts = dict(_limits(spec))
        if spec.get("integ") and spec["cls"] != "AdiabaticMD":
            opts["electronic_integration"] = spec["integ"]       # (an option of the run, handed to the restart as any other)
        if spec["cls"] == "TrajectorySH":
            opts["zeta_list"] = [float(z) for z in spec["zetas"]][k:]
        gauge_differs = False
        if spec["cls"] != "AdiabaticMD":
            fresh = model2.update(np.array(part.position))
            tracked = part.electronics
            ov = np.sum(np.asarray(fresh._reference) * np.asarray(tracked._reference), axis=0)
            gauge_differs = bool(np.any(ov < 0))
            if repair_gauge:
                opts["electronics"] = tracked
        r = cls.restart(model2, log, **opts)
        r.simulate()
        final = load_log(main)
        R = [_fields(s) for s in final]
    finally:
        shutil.rmtree(tmp, ignore_errors=True)
    return U, R, n_before, gauge_differs


@safe_oracle
def oracle_restart(args):
    """the snapshots appended after the restart equal those of the uninterrupted run (times, positions, momenta, density
    matrix, active state) and the run ends at the same step"""
    spec = dict(args)
    U, R, n_before, gauge_differs = run_case(spec, repair_gauge=spec.get("repair_gauge", False))
    problems = []
    if len(R) != len(U):
        problems.append("restarted log has %d snapshots, the uninterrupted run %d (interrupted after %d steps)" % (len(R), len(U), spec["k"]))
    first_bad = None
    for i in range(n_before, min(len(R), len(U))):
        msg = _same_snap(R[i], U[i])
        if msg:
            first_bad = (i, msg)
            problems.append("snapshot %d after the restart: %s" % (i, msg))
            break
    only_rho = first_bad is not None and first_bad[1].startswith("density_matrix")
    return not problems, {"uninterrupted": len(U), "restarted": len(R), "gauge_differs": gauge_differs,
                          "first_difference": first_bad, "only_density_matrix": only_rho, "problems": problems[:2]}, \
        {"snapshots": len(U)}, "; ".join(problems[:2]) or "ok"


@safe_oracle
def oracle_restart_segments(args):
    """a run made in SEGMENTS from one log object: stopped after k1 steps, restarted from its trace object and stopped after k2 steps,
    restarted from the same object again and run to the end (the tracked electronics are handed on, so the listed gauge finding
    does not enter): every snapshot of the final log equals the uninterrupted run's"""
    import mudslide
    spec = dict(args)
    model, cls, cargs, kw = _setup(spec)
    full = cls(*cargs, dt=spec["dt"], t0=spec["t0"], seed_sequence=1, max_steps=spec["K"], **kw)
    U = [_fields(s) for s in full.simulate()]
    tmp = tempfile.mkdtemp(prefix="verif-c13s-")
    problems = []
    try:
        model2, cls, cargs, kw = _setup(spec)
        tr = mudslide.YAMLTrace(base_name="traj", location=tmp, log_pitch=spec["pitch"]) if spec.get("store", "yaml") == "yaml" \
            else mudslide.tracer.InMemoryTrace()
        cur = cls(*cargs, dt=spec["dt"], t0=spec["t0"], seed_sequence=1, tracer=tr, max_steps=spec["ks"][0], **kw)
        cur.simulate()
        for stop in list(spec["ks"][1:]) + [spec["K"]]:
            done = len(tr) - 1
            opts = {"max_steps": stop}
            if spec.get("integ") and spec["cls"] != "AdiabaticMD":
                opts["electronic_integration"] = spec["integ"]
            if spec["cls"] == "TrajectorySH":
                opts["zeta_list"] = [float(z) for z in spec["zetas"]][done:]
            if spec["cls"] != "AdiabaticMD":
                opts["electronics"] = cur.electronics
            cur = cls.restart(model2, tr, **opts)
            cur.simulate()
        R = [_fields(s) for s in tr]
    finally:
        shutil.rmtree(tmp, ignore_errors=True)
    if len(R) != len(U):
        problems.append("the log of the run made in segments %r has %d snapshots, the uninterrupted run %d" % (spec["ks"], len(R), len(U)))
    for i in range(min(len(R), len(U))):
        msg = _same_snap(R[i], U[i])
        if msg:
            problems.append("snapshot %d of the run made in segments %r: %s" % (i, spec["ks"], msg))
            break
    return not problems, {"uninterrupted": len(U), "segments": len(R), "problems": problems[:2]}, {"snapshots": len(U)}, "; ".join(problems[:2]) or "ok"


ORACLES = {"restart": oracle_restart, "restart_segments": oracle_restart_segments}


def _model_check(ctx, spec, U):
    """the loop model: restarted run = second half of the split uninterrupted run (positions from the uninterrupted run)"""
    # te = 1, positions of the uninterrupted run; the model predicts the appended (step, time) pairs
    return


def run(ctx):
    ctx.rule = ("deterministic trajectories (Ehrenfest with coherent initial state, single-surface MD on a harmonic model, FSSH with "
                "supplied thresholds) on synthetic multi-state multi-D models and built-ins; interrupted after k steps for a seeded "
                "sample of k (thorough: every k), page sizes 1..16, both stopping rules; restarted from the YAML log. Non-trivial = "
                "k>=2 and the restart point not on a page boundary, or a gauge flip at the restart point; distinct by (class, rule, k, pitch)")
    ctx.assumptions += ["dt is reconstructed as a difference of two logged times (one rounding): times compared to 1e-12 relative",
                        "the electronic gauge at the restart point is a KNOWN FINDING (reference coefficients are not logged): cases "
                        "whose fresh eigh sign differs from the tracked one are re-run with the tracked electronics handed to "
                        "restart() so that everything else is still compared"]
    ctx.fingerprints["mudslide/trajectory_sh.py"] = fingerprint("mudslide/trajectory_sh.py", ["restart", "simulate", "snapshot"])
    ctx.fingerprints["mudslide/adiabatic_md.py"] = fingerprint("mudslide/adiabatic_md.py", ["restart", "simulate", "snapshot"])
    ctx.proofs()
    rng = ctx.rng
    # loop-model correspondence: split runs (uses the `loop` op with restarting = 1)
    lines, keep = [], []
    for i in range(ctx.budget(30, 1500)):
        K = int(rng.integers(3, 15))
        k = int(rng.integers(1, K))
        te = int(rng.choice([1, 1, 2, 3]))
        dt = float(rng.choice([0.5, 1.0, 20.0]))
        xs = rng.normal(size=(K + 3, 1))
        # uninterrupted from step 0 with max_steps K; restarted from step k at time k*dt
        lines.append(["loop", K, fb(1e25), 0, 1, fb(dt), te, 0, 0, fb(0.0), 0, 0] + fbs(xs[0]) + [K + 2] + fbs(xs[1:]))
        t = 0.0
        for _ in range(k):
            t = t + dt
        lines.append(["loop", K, fb(1e25), 0, 1, fb(dt), te, 1, k, fb(t), 0, 0] + fbs(xs[k]) + [K + 2 - k] + fbs(xs[k + 1:]))
        keep.append((K, k, te))
    outs = ctx.model.run(lines)
    for j, (K, k, te) in enumerate(keep):
        a, b = outs[2 * j], outs[2 * j + 1]
        la = [(int(a[5 + 2 * q]), unfb(a[6 + 2 * q])) for q in range(int(a[4]))]
        lb = [(int(b[5 + 2 * q]), unfb(b[6 + 2 * q])) for q in range(int(b[4]))]
        ctx.case(("split", te, k % te == 0), {"op": "loop-split", "K": K, "k": k, "te": te, "restarted_log": lb[:4]})
        ctx.count("model_split_runs")
        if a[2] != b[2] or [e for e in la if e[0] > k] != lb:
            ctx.corr_mismatch("restart.model-split", {"K": K, "k": k, "te": te}, "uninterrupted %r restarted %r" % (la, lb))

    # runs made in three segments from ONE trace object (two restarts from the same log)
    for i in range(ctx.budget(6, 90)):
        cls = ["Ehrenfest", "AdiabaticMD", "TrajectorySH"][i % 3]
        K = int(rng.integers(9, 20))
        k1 = int(rng.integers(1, K - 4))
        k2 = int(rng.integers(k1 + 1, K - 1))
        a = dict(cls=cls, N=int(rng.integers(2, 4)), n=int(rng.integers(1, 3)), model_seed=int(rng.integers(1, 10 ** 6)), dt=float(rng.choice([2.0, 5.0])),
                 t0=0.0, K=K, ks=[k1, k2], pitch=int(rng.choice([1, 3, 5, 512])), store=["yaml", "yaml", "memory"][(i // 3) % 3],
                 zetas=[float(v) for v in 0.2 + 0.8 * rng.random(K + 4)])
        ok, obs, req, text = oracle_restart_segments(a)
        ctx.case(("segments", cls, a["store"], a["pitch"]))
        ctx.count("runs_made_in_three_segments_from_one_log_object")
        if not ok:
            ctx.oracle_fail("restart-in-segments:" + cls, "restart_segments", a, obs, req, text)
    classes = ["Ehrenfest", "AdiabaticMD", "TrajectorySH"]
    nrandom = ctx.budget(9, 150)
    for i in range(nrandom + ctx.budget(2, 12)):
        cls = classes[i % 3] if i < nrandom else "TrajectorySH"
        K = int(rng.integers(4, 14))
        spec = dict(cls=cls, N=int(rng.integers(2, 4)), n=int(rng.integers(1, 3)), model_seed=int(rng.integers(1, 10 ** 6)),
                    dt=float(rng.choice([2.0, 5.0])), t0=float(rng.choice([0.0, 3.5])), K=K, rule=["max_steps", "max_time"][(i // 3) % 2],
                    pitch=int(rng.integers(1, 17)), zetas=[float(v) for v in 0.2 + 0.8 * rng.random(K + 4)])
        if i % 4 == 1 and cls != "AdiabaticMD":
            spec["rho"] = "mixed"
        if i % 3 == 2:
            # a time step that is not exactly representable (0.5 fs = 20.67 a.u. and the like): the logged clock is an accumulated
            # sum, so anything that counts steps by dividing times has to get the rounding right; longer runs, many restart points
            spec["dt"] = float(rng.choice([20.67, 0.1, 4.7, 1.0 / 3.0]))
            spec["K"] = K = int(rng.integers(20, 46))
            spec["zetas"] = [float(v) for v in 0.2 + 0.8 * rng.random(K + 4)]
        if cls == "TrajectorySH" and (i // 3) % 2 == 1:
            # small thresholds: hops happen, and some interruption points fall right after a step with an accepted hop
            spec["zetas"] = [float(v) for v in 0.08 * rng.random(spec["K"] + 4)]
            spec["many_restarts"] = True
        if i % 6 == 5:
            spec.update(builtin=str(rng.choice(["simple", "dual", "extended"])), x0=-3.0, p0=float(rng.uniform(8, 20)))
        if i >= nrandom:
            # directed: FSSH through a crossing with tiny thresholds, EVERY interruption point - some fall right after a step with
            # an accepted hop, where the active state of the last snapshot differs from the one before it
            K = int(rng.integers(24, 36))
            spec = dict(cls="TrajectorySH", builtin=["simple", "dual"][i % 2], x0=-1.5, p0=float(rng.uniform(14, 22)), N=2, n=1, model_seed=1,
                        dt=10.0, t0=0.0, K=K, rule="max_steps", pitch=int(rng.integers(1, 9)),
                        zetas=[float(v) for v in 0.02 * rng.random(K + 4)], many_restarts=True)
            if (i - nrandom) % 2 == 1:
                spec["integ"] = "linear-rk4"        # the interpolating integrator: nothing it keeps between steps may outlive a hop
        elif cls != "AdiabaticMD" and i % 5 == 4:
            spec["integ"] = "linear-rk4"
        K = spec["K"]
        ks = range(1, K) if (ctx.thorough() or spec.pop("many_restarts", False)) else sorted(set(int(v) for v in rng.integers(1, K, size=3 if K < 20 else 8)))
        if i < nrandom and i % 9 in (0, 4):
            # directed: logs of more than ten pages at the interruption point (page names ...-log_10 sort before ...-log_2 as strings)
            pt = 1 + (i % 9 == 4)
            spec["pitch"] = pt
            spec["K"] = K = 14 * pt + 3
            spec["zetas"] = [float(v) for v in 0.2 + 0.8 * rng.random(K + 4)]
            ks = [11 * pt, 11 * pt + 1, 12 * pt + 1, 14 * pt]
            ctx.count("restarts_from_logs_of_more_than_ten_pages", len(ks))
        if i < nrandom and i % 9 in (2, 7):
            # directed: a run ended by max_time = K x dt with a step that is not a binary fraction, EVERY interruption point (the
            # restarted clock accumulates a dt inferred from two logged times: both clocks have to stop on the same step)
            spec["dt"] = float([0.1, 0.7][i % 9 == 7])
            spec["t0"] = 0.0
            spec["rule"] = "max_time"
            spec["K"] = K = int(rng.integers(10, 15))
            spec["zetas"] = [float(v) for v in 0.2 + 0.8 * rng.random(K + 4)]
            ks = range(1, K)
            ctx.count("restarts_of_runs_ended_by_max_time_with_non_dyadic_dt", K - 1)
        for k in ks:
            a = dict(spec, k=int(k))
            ok, obs, req, text = oracle_restart(a)
            ctx.case((cls, spec["rule"], int(k), spec["pitch"], bool(obs.get("gauge_differs")), spec.get("rho", "pure")),
                     {"check": "restart", "spec": {kk: vv for kk, vv in a.items() if kk != "zetas"}, "result": {kk: obs.get(kk) for kk in ("uninterrupted", "restarted", "gauge_differs")}})
            ctx.count("restart:%s:%s" % (cls, spec["rule"]))
            if ok:
                continue
            if "exception" in obs:
                ctx.oracle_fail("restart-raised:" + cls, "restart", a, obs, req, text)
                continue
            if obs["gauge_differs"]:
                # the listed finding: a fresh eigh sign at the restart point. It first shows in the density matrix and, once the
                # electronic state feeds back (hop probabilities, mean-field force), in everything else. The discriminator is the
                # re-run with the tracked electronics handed to restart(): with the gauge continued EVERYTHING must agree exactly;
                # only then is the difference attributed to the finding
                a2 = dict(a, repair_gauge=True)
                ok2, obs2, req2, text2 = oracle_restart(a2)
                ctx.count("restart_rechecked_in_tracked_gauge")
                if ok2:
                    ctx.oracle_fail("restart-fresh-gauge", "restart", a, obs, req, text)
                else:
                    ctx.oracle_fail("restart:" + cls, "restart", a2, obs2, req2, text2)
            elif obs["uninterrupted"] != obs["restarted"] and spec["rule"] == "max_steps" and obs["restarted"] == obs["uninterrupted"] - 1:
                ctx.oracle_fail("restart-step-counter", "restart", a, obs, req, text)
            else:
                ctx.oracle_fail("restart:" + cls, "restart", a, obs, req, text)

# -*- coding: utf-8 -*-
"""C09 — cumulative FSSH: hop exactly when the accumulated probability crosses its threshold."""
import math

import numpy as np

from ..core import fb, fbs, unfb, close, fingerprint, safe_oracle
from ..synth import ShellModel
from .. import runcommon as rc


def _mk(N, zeta_list, seed, options=None):
    from mudslide.cumulative_sh import TrajectoryCum
    rho = np.zeros((N, N), dtype=np.complex128)
    rho[0, 0] = 1.0
    if options is not None:
        # the caller's own options dictionary (one dict, one list object) handed to several trajectories, as BatchedTraj does
        return TrajectoryCum(ShellModel(N, [1.0]), [0.0], [0.0], rho, **options)
    return TrajectoryCum(ShellModel(N, [1.0]), [0.0], [0.0], rho, state0=0, dt=1.0,
                         zeta_list=list(zeta_list), seed_sequence=seed)


def _peek(traj):
    """(u, next uniform) the trajectory's generator would produce next, without consuming them"""
    bg = type(traj.random_state.bit_generator)()
    bg.state = traj.random_state.bit_generator.state
    g = np.random.Generator(bg)
    return float(g.random()), float(g.uniform())


def drive(seq, zetas, seed, options=None):
    """run the implementation's hopper over a sequence of rate vectors.
    returns per step: (attempted, target, zeta_used, prob, prob_cum_after, zeta_after, u, newzeta)"""
    N = len(seq[0])
    t = _mk(N, zetas, seed, options)
    z0 = float(t.zeta)
    out = []
    held, held_vals = None, None
    drive.mutated = None
    for k_, g in enumerate(seq):
        u, nxt = _peek(t)
        newz = float(t.zeta_list[0]) if t.zeta_list else nxt
        # a caller whose rates do not change from one step to the next keeps ONE array and hands it over again: the hopper must
        # leave its argument alone
        if held is None or held_vals != list(g):
            held, held_vals = np.array(g, dtype=np.float64), list(g)
        r = t.hopper(held)
        if drive.mutated is None and not np.array_equal(held, np.array(held_vals, dtype=np.float64)):
            drive.mutated = (k_, held_vals[:4], [float(v) for v in held[:4]])
        if r:
            out.append((1, int(r[0]["target"]), float(r[0]["zeta"]), float(r[0]["prob"]), float(t.prob_cum),
                        float(t.zeta), u, newz))
        else:
            out.append((0, -1, 0.0, 0.0, float(t.prob_cum), float(t.zeta), u, newz))
    return z0, out


@safe_oracle
def oracle_first_crossing(args):
    """attempt at the first step at which 1 - prod exp(-G_i) (since the last attempt) exceeds the current threshold
    (60-digit arithmetic, ties within 1e-12 not judged); target by inverse CDF of g/G; reset to 0; thresholds from
    the user list in order"""
    import mpmath as mp
    mp.mp.dps = 60
    seq = [list(map(float, g)) for g in args["seq"]]
    zetas = [float(z) for z in args["zetas"]]
    problems = []
    if args.get("shared_options"):
        # two trajectories are built from ONE options dictionary holding ONE threshold list; the first is driven to the end,
        # then the second: each has to start from the head of the user's list, and the user's list is the user's
        mine = list(zetas)
        options = dict(state0=0, dt=1.0, zeta_list=mine, seed_sequence=args["seed"])
        drive(seq, zetas, args["seed"], options)
        z0, out = drive(seq, zetas, args["seed"], options)
        if mine != zetas:
            problems.append("the caller's own threshold list was changed: %r -> %r" % (zetas[:4], mine[:4]))
    else:
        z0, out = drive(seq, zetas, args["seed"])
    if drive.mutated is not None:
        problems.append("step %d: the hopper changed the rate vector it was given (%r -> %r)" % drive.mutated)
    if zetas and z0 != zetas[0]:
        problems.append("first threshold %r is not the head of the user list %r" % (z0, zetas[0]))
    zi = 1
    zeta = z0
    Gsum = mp.mpf(0)          # sum of the totals since the last attempt: prod exp(-G_i) = exp(-Gsum)
    for k, (g, o) in enumerate(zip(seq, out)):
        G = sum(mp.mpf(x) for x in g)
        Gsum = Gsum + G
        acc = -mp.expm1(-Gsum)          # 1 - prod exp(-G_i), accurate however small
        tie = abs(acc - mp.mpf(zeta)) <= mp.mpf(10) ** -12 * max(acc, mp.mpf(zeta))     # relative: tiny thresholds are judged too
        want = acc > mp.mpf(zeta)
        if tie:
            # follow the implementation through the tie
            want = bool(o[0])
        if bool(o[0]) != bool(want):
            problems.append("step %d: attempted=%d but accumulated %s vs threshold %r" % (k, o[0], mp.nstr(acc, 20), zeta))
            break
        if o[0]:
            if o[2] != zeta:
                problems.append("step %d: reported threshold %r, current is %r" % (k, o[2], zeta))
            if not close(o[3], float(acc), rtol=1e-9, atol=0.0):
                problems.append("step %d: reported prob %r, accumulated is %s" % (k, o[3], mp.nstr(acc, 17)))
            if o[4] != 0.0:
                problems.append("step %d: accumulation not reset (%r)" % (k, o[4]))
            # target: inverse CDF of g/G at the generator's uniform number
            Gf = math.fsum(g)
            cdf = np.cumsum(np.array(g) / Gf)
            cdf = cdf / cdf[-1]
            u = o[6]
            wt = int(np.searchsorted(cdf, u, side="right"))
            near = np.min(np.abs(cdf - u)) < 1e-12
            if o[1] != wt and not near:
                problems.append("step %d: target %d, inverse CDF of g/G at u=%r gives %d" % (k, o[1], u, wt))
            if g[o[1]] == 0.0:
                problems.append("step %d: target %d has zero rate" % (k, o[1]))
            # fresh threshold: next of the user list, else the generator
            if zi < len(zetas):
                if o[5] != zetas[zi]:
                    problems.append("step %d: new threshold %r, next of the user list is %r" % (k, o[5], zetas[zi]))
                zi += 1
            elif o[5] != o[7]:
                problems.append("step %d: new threshold %r is not the generator's next number %r" % (k, o[5], o[7]))
            zeta = o[5]
            Gsum = mp.mpf(0)
        else:
            if not close(o[4], float(acc), rtol=1e-9, atol=0.0):
                problems.append("step %d: stored accumulation %r, should be %s" % (k, o[4], mp.nstr(acc, 17)))
            if o[5] != zeta:
                problems.append("step %d: threshold changed without an attempt" % k)
    return not problems, {"steps": out[:12], "problems": problems[:4]}, {"problems": []}, "; ".join(problems[:3]) or "ok"


@safe_oracle
def oracle_surface(args):
    """through TrajectoryCum.surface_hopping itself, for every value of the `hopping_probability` option: what is accumulated is
    1 - prod exp(-G_i) with G_i = sum_n max(0, 2 Im(rho_kn W_nk) dt / rho_kk) the RAW total rate of the step (the Poisson form is
    already what the accumulation does; nothing else is applied to the rates)"""
    from .. import eleccommon as ec
    rng = np.random.Generator(np.random.PCG64(args["seed"]))
    c = ec.elec_case(rng, N=int(args["N"]), n=int(args["n"]), rho_kind="pure", scale=float(args.get("scale", 0.05)))
    c["dt"] = float(args["dt"])
    opts = {"zeta_list": [1e300] * 50}
    if args.get("option") is not None:
        opts["hopping_probability"] = args["option"]
    t = ec.make_traj(c, "exp", cls="TrajectoryCum", **opts)
    k = int(args["state"]) % c["N"]
    t.state = k
    e0, e1 = ec.elecs(c)
    problems, Gsum = [], 0.0
    for step in range(int(args["steps"])):
        W = np.asarray(t.hamiltonian_propagator(e0, e1))
        rho = np.asarray(t.rho)
        g = 2.0 * np.imag(rho[k, :] * W[:, k]) * c["dt"] / np.real(rho[k, k])
        g[k] = 0.0
        g = np.maximum(g, 0.0)
        Gsum += float(np.sum(g))
        t.surface_hopping(e0, e1)
        want = -math.expm1(-Gsum)
        if not close(float(t.prob_cum), want, rtol=1e-9, atol=0.0):
            problems.append("step %d, option %r: accumulated %r, 1 - prod exp(-G_i) = %r (sum of raw rates %r)"
                            % (step, args.get("option"), float(t.prob_cum), want, Gsum))
            break
        t.propagate_electronics(e0, e1, c["dt"])
    return not problems, {"accumulated": float(t.prob_cum), "G": Gsum, "problems": problems}, {"accumulated": -math.expm1(-Gsum)}, \
        "; ".join(problems) or "ok"


@safe_oracle
def oracle_frustrated_reset(args):
    """an attempt that turns out to be FRUSTRATED is an attempt all the same: after it the accumulated probability is zero and
    a fresh threshold (the next of the user list) is in force, so the next attempt comes at the first later step whose fresh
    accumulation exceeds the fresh threshold"""
    from .. import eleccommon as ec
    rng = np.random.Generator(np.random.PCG64(args["seed"]))
    c = ec.elec_case(rng, N=int(args["N"]), n=int(args["n"]), rho_kind="pure", scale=0.3)
    c["dt"] = float(args["dt"])
    k = int(args["state"]) % c["N"]
    # every other state lies far above the active one: any attempt from k is frustrated
    for H in (c["H0"], c["H1"]):
        for j in range(c["N"]):
            if j != k:
                H[j, j] += 1e6
    zl = [float(z) for z in args["zetas"]]
    t = ec.make_traj(c, "exp", cls="TrajectoryCum", zeta_list=list(zl))
    t.state = k
    e0, e1 = ec.elecs(c)
    t.electronics = e1                    # (simulate() keeps the current electronics here; hop_to_it reads the coupling from it)
    problems, Gsum, zi = [], 0.0, 1
    zeta = zl[0]
    attempts = 0
    for step in range(int(args["steps"])):
        W = np.asarray(t.hamiltonian_propagator(e0, e1))
        rho = np.asarray(t.rho)
        g = 2.0 * np.imag(rho[k, :] * W[:, k]) * c["dt"] / np.real(rho[k, k])
        g[k] = 0.0
        g = np.maximum(g, 0.0)
        Gsum += float(np.sum(g))
        acc = -math.expm1(-Gsum)
        nfr0 = len(t.tracer.events.get("frustrated_hop", []))
        t.surface_hopping(e0, e1)
        attempted = len(t.tracer.events.get("frustrated_hop", [])) > nfr0
        want = acc > zeta and abs(acc - zeta) > 1e-12 * max(acc, zeta)
        if abs(acc - zeta) <= 1e-12 * max(acc, zeta):
            want = attempted
        if attempted != want:
            problems.append("step %d: attempted=%s, accumulated %r vs threshold %r (state %d, every hop frustrated)" % (step, attempted, acc, zeta, k))
            break
        if t.state != k:
            problems.append("step %d: a hop over a gap of 1e6 was accepted" % step)
            break
        if attempted:
            attempts += 1
            if float(t.prob_cum) != 0.0:
                problems.append("step %d: after the frustrated attempt the accumulated probability is %r, not 0" % (step, float(t.prob_cum)))
                break
            if zi < len(zl) and float(t.zeta) != zl[zi]:
                problems.append("step %d: after the frustrated attempt the threshold is %r, the next of the list is %r" % (step, float(t.zeta), zl[zi]))
                break
            zeta = float(t.zeta)
            zi += 1
            Gsum = 0.0
        t.propagate_electronics(e0, e1, c["dt"])
    return not problems, {"attempts": attempts, "problems": problems}, {"problems": []}, "; ".join(problems) or "ok"


@safe_oracle
def oracle_poisson_equivalence(args):
    """standard FSSH with hopping_probability='poisson' and cumulative FSSH implement the same per-step law: for one rate vector g
    the standard method's total hop probability is 1 - exp(-G) (G = sum g), what the cumulative accumulator holds after that step
    from zero; with one threshold the two take the same hop/stay decision; the standard method's target slots have lengths
    (g_j / G)(1 - exp(-G))"""
    from mudslide.trajectory_sh import TrajectorySH
    g = np.array(args["g"], dtype=np.float64)
    N = len(g)
    G = math.fsum(g)
    want = -math.expm1(-G)
    rho = np.zeros((N, N), dtype=np.complex128)
    rho[0, 0] = 1.0
    problems = []

    def std(zeta):
        t = TrajectorySH(ShellModel(N, [1.0]), [0.0], [0.0], rho, state0=0, dt=1.0, hopping_probability="poisson",
                         zeta_list=[zeta], seed_sequence=7)
        r = t.hopper(np.array(g))
        return (int(r[0]["target"]) if r else -1), float(t.hopping)

    def cum(zeta):
        t = _mk(N, [zeta, 0.5], 7)
        r = t.hopper(np.array(g))
        return bool(r), float(r[0]["prob"]) if r else float(t.prob_cum)
    _t, hop = std(0.999999)
    if not close(hop, want, rtol=1e-12, atol=0.0) and abs(hop - want) > 1e-300:
        problems.append("standard FSSH (poisson): total hop probability %r for rates %r, 1-exp(-G) = %r" % (hop, g.tolist(), want))
    _a, acc = cum(0.9999999)
    if not close(acc, want, rtol=1e-12, atol=0.0) and abs(acc - want) > 1e-300:
        problems.append("cumulative FSSH accumulates %r in one step, 1-exp(-G) = %r" % (acc, want))
    if 1e-9 < want < 1 - 1e-9:
        for z in (want * (1 - 1e-6), want * (1 + 1e-6)):
            if z >= 1.0:
                continue
            ts, _h = std(z)
            tc, _p = cum(z)
            if (ts >= 0) != tc:
                problems.append("threshold %r (1-exp(-G) = %r): standard method %s, cumulative %s" %
                                (z, want, "hops" if ts >= 0 else "stays", "hops" if tc else "stays"))
        # slot edges of the standard method: cumulative sums of (g_j/G)(1-exp(-G))
        edges = np.cumsum(g / G * want) if G > 0 else np.zeros(N)
        for j in range(N):
            if g[j] <= 0 or edges[j] >= 1.0:
                continue
            lo = edges[j - 1] if j else 0.0
            mid = 0.5 * (lo + edges[j])
            if edges[j] - lo > 1e-9:
                tj, _h = std(mid)
                if tj != j:
                    problems.append("threshold %r lies in the slot of state %d (edges %r), the standard method picks %d" % (mid, j, edges.tolist(), tj))
    return not problems, {"total": hop, "problems": problems[:3]}, {"total": want}, "; ".join(problems[:2]) or "ok"


ORACLES = {"poisson_equivalence": oracle_poisson_equivalence, "whole_run": rc.oracle_whole_run, "first_crossing": oracle_first_crossing, "surface": oracle_surface,
           "frustrated_reset": oracle_frustrated_reset}


def _gen_seq(rng, thorough):
    N = int(rng.integers(2, 9))
    K = int(rng.integers(5, 200 if thorough else 60))
    regime = rng.choice(["tiny", "small", "mixed", "large", "zeros", "tiny-thr", "tiny-stretch", "constant"])
    seq = []
    const = rng.random(N) * 10 ** rng.uniform(-2.5, -0.5)
    for k in range(K):
        if regime == "constant":
            # flat region: the same rate vector step after step (several attempts in a row from one unchanged vector)
            g = np.array(const)
        elif regime == "tiny-thr":
            # per-step totals far below 1e-12 AND thresholds of the same order (set below): hops still have to happen
            g = rng.random(N) * 10 ** rng.uniform(-17, -12.5)
        elif regime == "tiny-stretch":
            # ordinary steps now and then, long stretches of steps with totals < 1e-12 in between; the thresholds (set
            # below) sit inside a stretch
            g = rng.random(N) * (rng.uniform(0.01, 0.2) if k % 17 == 0 else 10 ** rng.uniform(-13.5, -12.2))
        elif regime == "tiny":
            g = rng.random(N) * 10 ** rng.uniform(-300, -6)
        elif regime == "small":
            g = rng.random(N) * 10 ** rng.uniform(-3, -1)
        elif regime == "large":
            g = rng.random(N) * rng.uniform(0.2, 3.0)
        elif regime == "zeros":
            g = rng.random(N) * 0.05 if rng.random() < 0.4 else np.zeros(N)
        else:
            g = rng.random(N) * 10 ** rng.uniform(-8, 0.5)
        g[0] = 0.0                        # active state 0: the caller zeroes the self-hop
        if rng.random() < 0.3:
            g[int(rng.integers(1, N))] = 0.0 if N > 2 else g[1]
        seq.append([float(x) for x in g])
    nz = int(rng.integers(0, 8))
    zetas = [float(x) for x in rng.random(nz)]
    if nz and rng.random() < 0.3:
        # thresholds that are exactly 0.0 (legal, and what Generator.uniform can return): an attempt at the first step with a
        # positive total rate, none on a zero-rate step
        zetas[0] = 0.0
        if nz > 2:
            zetas[int(rng.integers(1, nz))] = 0.0
    if regime == "large" and rng.random() < 0.5:
        zetas = [float(x) for x in rng.random(nz) * 0.2]      # many successive hops
    if regime in ("tiny-thr", "tiny-stretch"):
        # thresholds placed where the exact accumulated probability 1-prod exp(-G) crosses inside the sequence:
        # after a random number of further steps, strictly between two partial sums (never on one)
        zetas, k = [], 0
        while k < K - 3 and len(zetas) < 6:
            if regime == "tiny-thr":
                j = k + int(rng.integers(1, 6))
            else:
                j = (k // 17) * 17 + 17 * int(rng.integers(0, 2)) + int(rng.integers(3, 15))
            if j >= K or j <= k:
                break
            G = [math.fsum(seq[i]) for i in range(k, j + 1)]
            lo, hi = -math.expm1(-math.fsum(G[:-1])), -math.expm1(-math.fsum(G))
            if hi > lo * (1 + 1e-6) and hi > 0:
                zetas.append(float(lo + (hi - lo) * rng.uniform(0.2, 0.8)))
            else:
                break
            k = j + 1
        zetas.append(2.0)                                       # unreachable from here on: the list never runs out mid-run
    return seq, zetas, str(regime)


def run(ctx):
    ctx.rule = ("sequences of 5..200 per-step rate vectors (N=2..8) in regimes tiny(1e-300..1e-6)/small/mixed/large(>1 "
                "totals)/with zero steps/tiny totals (<1e-12) with thresholds of the same order/long stretches of tiny-total "
                "steps with the threshold inside the stretch, user threshold lists of length 0..7 followed by the generator; driven through "
                "TrajectoryCum.hopper directly. Non-trivial = at least one attempt and N>=3 or >=2 successive attempts; "
                "distinct by (regime, N, #attempts bucket, user-list length)")
    ctx.assumptions += ["np.longdouble accumulation in the implementation vs double in the model: inside 1e-9 tolerance; "
                        "threshold near-ties (1e-12) not judged",
                        "Generator.choice(p=) draws one uniform double and applies searchsorted(cdf, u, 'right') (numpy contract)"]
    ctx.fingerprints["mudslide/cumulative_sh.py"] = fingerprint("mudslide/cumulative_sh.py", ["hopper", "__init__"])
    ctx.proofs()
    rng = ctx.rng
    # the per-step law of standard FSSH with Poisson probabilities is the one cumulative FSSH accumulates (second sentence of C09)
    for i in range(ctx.budget(40, 2000)):
        N = int(rng.integers(2, 7))
        g = rng.random(N) * float(rng.choice([1e-3, 0.05, 0.5, 2.0]))
        g[0] = 0.0
        if N >= 3 and rng.random() < 0.3:
            g[int(rng.integers(1, N))] = 0.0
        a = {"g": [float(v) for v in g]}
        ok, obs, req, text = oracle_poisson_equivalence(a)
        ctx.case(("poisson-equivalence", N, int(np.sum(g > 0))) if N >= 3 else None)
        ctx.count("poisson_equivalence")
        if not ok:
            ctx.oracle_fail("poisson-equivalence", "poisson_equivalence", a, obs, req, text)
    # whole cumulative-FSSH runs against the composed step of the model: snapshots, events, accumulator and threshold
    rc.run_correspondence(ctx, ctx.budget(10, 250), hops=True, label="cumrun", cls="TrajectoryCum")
    for i in range(ctx.budget(30, 1500)):
        a = {"seed": int(rng.integers(1, 2 ** 31)), "N": int(rng.integers(2, 6)), "n": int(rng.integers(1, 3)), "state": int(rng.integers(0, 5)),
             "dt": float(rng.choice([1.0, 10.0, 40.0])), "steps": int(rng.integers(1, 6)), "option": [None, "tully", "poisson"][i % 3],
             "scale": float(rng.choice([0.05, 0.3]))}
        ok, obs, req, text = oracle_surface(a)
        ctx.case(("surface", a["option"], a["N"], float(obs["G"]) > 0.1))
        ctx.count("surface_hopping:%s" % a["option"])
        ctx.monitor("max_total_rate_through_surface_hopping", float(obs["G"]))
        if not ok:
            ctx.oracle_fail("cumulative-surface-hopping:%s" % a["option"], "surface", a, obs, req, text)
    for i in range(ctx.budget(20, 800)):
        a = {"seed": int(rng.integers(1, 2 ** 31)), "N": int(rng.integers(2, 5)), "n": int(rng.integers(1, 3)), "state": int(rng.integers(0, 4)),
             "dt": float(rng.choice([1.0, 5.0, 20.0])), "steps": int(rng.integers(6, 16)), "zetas": [float(z) for z in rng.random(20) * 0.3]}
        ok, obs, req, text = oracle_frustrated_reset(a)
        ctx.case(("frustrated-reset", a["N"], min(int(obs["attempts"]), 3)))
        ctx.count("frustrated_attempts_through_surface_hopping", int(obs["attempts"]))
        if not ok:
            ctx.oracle_fail("cumulative-frustrated-reset", "frustrated_reset", a, obs, req, text)
    cases, lines = [], []
    for i in range(ctx.budget(250, 20000)):
        seq, zetas, regime = _gen_seq(rng, ctx.thorough())
        seed = int(rng.integers(1, 2 ** 31))
        z0, out = drive(seq, zetas, seed)
        N = len(seq[0])
        line = ["cumseq", N, len(seq), fb(z0)]
        for g, o in zip(seq, out):
            line += fbs(g) + [fb(o[6]), fb(o[7])]
        cases.append((seq, zetas, seed, regime, z0, out))
        lines.append(line)
    outs = ctx.model.run(lines)
    for (seq, zetas, seed, regime, z0, out), o in zip(cases, outs):
        N = len(seq[0])
        natt = sum(x[0] for x in out)
        ctx.case((regime, N, min(natt, 5), len(zetas)) if natt >= 1 and (N >= 3 or natt >= 2) else None,
                 {"op": "cumseq", "regime": regime, "N": N, "steps": len(seq), "attempts": natt,
                  "zetas": zetas, "first_rates": seq[:2], "impl_first_steps": out[:3]})
        ctx.count("regime:" + regime)
        ctx.count("attempts", natt)
        ctx.count("steps", len(seq))
        bad = None
        desync = False
        for k, imp in enumerate(out):
            m = o[1 + 6 * k: 7 + 6 * k]
            matt, mt, mz, mp_, mpc, mza = int(m[0]), int(m[1]), unfb(m[2]), unfb(m[3]), unfb(m[4]), unfb(m[5])
            if matt != imp[0]:
                # near-tie on the threshold: accumulated values agree but fall on different sides
                acc_m = mp_ if matt else mpc
                acc_i = imp[3] if imp[0] else imp[4]
                zcur = mz if matt else mza
                zc = imp[2] if imp[0] else imp[5]
                if abs(acc_m - acc_i) <= 1e-12 * max(abs(acc_i), abs(acc_m)) and abs(acc_i - zc) <= 1e-12 * max(abs(acc_i), abs(zc)):
                    ctx.near_ties += 1
                    desync = True
                    break
                bad = "step %d: model attempted=%d impl attempted=%d" % (k, matt, imp[0])
                break
            if matt:
                cdf = np.cumsum(np.array(seq[k]) / math.fsum(seq[k]))
                near = np.min(np.abs(cdf / cdf[-1] - imp[6])) < 1e-12
                if (mt != imp[1] and not near) or mz != imp[2] or not close(mp_, imp[3], rtol=1e-9, atol=0.0) or mpc != imp[4] or mza != imp[5]:
                    bad = "step %d: model (%d,%r,%r,%r,%r) impl %r" % (k, mt, mz, mp_, mpc, mza, imp)
                    break
            elif not close(mpc, imp[4], rtol=1e-9, atol=0.0) or mza != imp[5]:
                bad = "step %d: model prob_cum %r zeta %r; impl %r %r" % (k, mpc, mza, imp[4], imp[5])
                break
        if bad:
            ctx.corr_mismatch("cumseq", {"seq": seq, "zetas": zetas, "seed": seed}, bad)
        if desync:
            continue
        ok, obs, req, text = oracle_first_crossing({"seq": seq, "zetas": zetas, "seed": seed})
        if not ok:
            ctx.oracle_fail("cumulative-hopper", "first_crossing", {"seq": seq, "zetas": zetas, "seed": seed}, obs, req, text)
        if zetas and len(obs.get("steps", [])) and sum(1 for st_ in obs["steps"] if st_[0]) >= 1 and ctx.hist.get("cum:shared_options", 0) < ctx.budget(12, 400):
            a_ = {"seq": seq, "zetas": zetas, "seed": seed, "shared_options": True}
            ctx.count("cum:shared_options")
            ok, obs, req, text = oracle_first_crossing(a_)
            if not ok:
                ctx.oracle_fail("cumulative-hopper-shared-options", "first_crossing", a_, obs, req, text)

# -*- coding: utf-8 -*-
"""C10 — even-sampling conserves statistical weight over the whole spawned tree."""
import copy
import math

import numpy as np

from ..core import fb, fbs, unfb, close, allclose, fingerprint, safe_oracle
from ..synth import ShellModel, FakeElec


def random_tree(rng, depth, dyadic=True):
    """explicit sample tree: sorted thresholds, dw summing to one per level (or not: user trees may lose weight)"""
    n = int(rng.integers(1, 6))
    z = np.sort(rng.random(n))
    if dyadic:
        parts = rng.integers(1, 16, size=n).astype(float)
        dw = parts / parts.sum()
    else:
        # user trees need not integrate to one, but their differential weights are a partition of at most the unit
        # interval (sum dw <= 1); a tree with sum dw > 1 is malformed input (negative marginal weight) and outside the property
        dw = rng.random(n)
        dw = dw * float(rng.uniform(0.3, 1.0)) / float(dw.sum())
    out = []
    for i in range(n):
        kids = random_tree(rng, depth - 1, dyadic) if depth > 1 and rng.random() < 0.8 else []
        out.append({"zeta": float(z[i]), "dw": float(dw[i]), "children": kids, "spawn_size": int(rng.integers(1, 4))})
    return out


def tree_tokens(t):
    toks = [len(t)]
    for s in t:
        toks += [fb(s["zeta"]), fb(s["dw"]), int(s.get("spawn_size", 1))] + tree_tokens(s["children"])
    return toks


def summary(ss):
    return [int(ss.izeta), float(ss.zeta_), float(ss.marginal_weight), float(ss.last_dw), float(ss.weight())]


def run_ops(tree, base, ops):
    """apply an op list to real SpawnStack objects; returns per-op output lists"""
    from mudslide.even_sampling import SpawnStack
    hs = [SpawnStack(copy.deepcopy(tree), base)]
    out = []
    for op in ops:
        st = hs[op[1]]
        if op[0] == "nz":
            st.next_zeta(op[2])
            out.append(summary(st))
        elif op[0] == "w":
            out.append(summary(st))
        elif op[0] == "ss":
            out.append(summary(st) + [int(st.spawn_size())])
        elif op[0] == "sp":
            try:
                c = st.spawn(op[2])
                hs.append(c)
                out.append(summary(st) + [float(c.base_weight), len(c.sample_stack)])
            except Exception as e:
                if "differential weight" not in str(e):
                    raise
                out.append(summary(st) + ["Exception"])
        elif op[0] == "cw":
            ns, r = op[2], op[3]
            ws = []
            for rt in r:
                for _ in range(ns):
                    ws.append(float(st.spawn((1.0 / ns) * rt).base_weight))
            out.append(summary(st) + ws)
    return out


def gen_ops(rng, tree):
    from mudslide.even_sampling import SpawnStack
    shadow = SpawnStack(copy.deepcopy(tree), 1.0)      # only to know whether a crossing has happened yet
    ops, nh = [], 1
    live_sizes = {0: len(tree)}
    trees = {0: tree}
    moved = {0: False}
    a = {0: 0.0}
    for _ in range(int(rng.integers(3, 25))):
        h = int(rng.integers(0, nh))
        if live_sizes[h] == 0:
            continue
        r = rng.random()
        if r < 0.45:
            zs = [s["zeta"] for s in trees[h]]
            pick = rng.random()
            if pick < 0.4:
                v = float(zs[int(rng.integers(0, len(zs)))])          # exactly on a threshold (strict <)
            elif pick < 0.6:
                v = float(np.nextafter(zs[int(rng.integers(0, len(zs)))], 2.0))
            else:
                v = float(min(1.2, a[h] + rng.random() * 0.5))
            a[h] = max(a[h], v)
            ops.append(("nz", h, v))
            shadow.next_zeta(v)
            moved[h] = shadow.izeta > 0          # spawn()/spawn_size() are only meaningful after a crossing
        elif r < 0.55:
            ops.append(("w", h))
        elif r < 0.65 and moved[h]:
            ops.append(("ss", h))
        elif r < 0.85 and moved[h]:
            ops.append(("sp", h, float(rng.random())))
            # the child's tree is only known to the implementation/model; make it addressable if non-empty later
            nh_child = nh
            live_sizes[nh_child] = 0
            nh += 1
        elif moved[h]:
            k = int(rng.integers(1, 4))
            r_ = rng.random(k)
            r_ = r_ / r_.sum()
            ops.append(("cw", h, int(rng.integers(1, 4)), [float(x) for x in r_]))
    return ops


def ops_tokens(ops):
    toks = []
    for op in ops:
        if op[0] == "nz":
            toks += ["nz", op[1], fb(op[2])]
        elif op[0] in ("w", "ss"):
            toks += [op[0], op[1]]
        elif op[0] == "sp":
            toks += ["sp", op[1], fb(op[2])]
        elif op[0] == "cw":
            toks += ["cw", op[1], op[2], len(op[3])] + fbs(op[3])
    return toks


@safe_oracle
def oracle_stack_weights(args):
    """after any sequence of next_zeta calls: parent weight + base * (sum of crossed dw) = base when the stack is not
    exhausted (and = base * sum(dw) when it is); weights non-negative; children of a crossing carry base*last_dw*r_t/nspawn"""
    from mudslide.even_sampling import SpawnStack
    tree, base = args["tree"], float(args["base"])
    st = SpawnStack(copy.deepcopy(tree), base)
    crossed = 0.0
    problems = []
    dws = [s["dw"] for s in tree]
    for a in args["as"]:
        before = st.izeta
        st.next_zeta(float(a))
        if st.izeta != before:
            crossed += float(st.last_dw)
            want = sum(dws[before:st.izeta])
            if not close(st.last_dw, want, 1.0, rtol=1e-13):
                problems.append("last_dw %r after crossing [%d,%d), sum of dw is %r" % (st.last_dw, before, st.izeta, want))
            r = np.array(args["r"])
            ns = int(args["ns"])
            kids = [float(st.spawn((1.0 / ns) * rt).base_weight) for rt in r for _ in range(ns)]
            if not close(sum(kids), base * st.last_dw * float(np.sum(r)), abs(base) + 1e-300, rtol=1e-12) or min(kids) < 0:
                problems.append("children carry %r, expected base*last_dw*sum(r) = %r" % (sum(kids), base * st.last_dw * float(np.sum(r))))
        if st.izeta < before:
            problems.append("izeta moved backwards")
    total = float(st.weight()) + base * crossed
    exhausted = st.izeta == len(tree)
    want = base * (sum(dws) if exhausted else 1.0)
    if not close(total, want, abs(base), rtol=1e-12) or st.weight() < -1e-15:
        problems.append("parent %r + children %r = %r, expected %r (exhausted=%s)" % (st.weight(), base * crossed, total, want, exhausted))
    return not problems, {"parent": float(st.weight()), "children": base * crossed, "exhausted": exhausted, "problems": problems[:3]}, \
        {"total": want}, "; ".join(problems[:2]) or "ok"


@safe_oracle
def oracle_batch(args):
    """a whole even-sampling batch: weights non-negative and summing to the initial weight (1); every child starts at its
    parent's phase-space point at the hop time on the target state (or the parent's state if frustrated); outcomes sum to 1"""
    import mudslide
    model = mudslide.models.scattering_models[args["model"]]()
    gen = mudslide.TrajGenConst(args["x0"], args["k"], 0, seed=args["seed"])
    nroots = int(args.get("samples", 1))
    kw = dict(samples=nroots, dt=args["dt"], bounds=[-args["box"], args["box"]], max_steps=args["maxsteps"], spawn_stack=args["stack"],
              quadrature=args["quadrature"], mcsamples=args.get("mcsamples", 1))
    if args.get("tree") is not None:
        from mudslide.even_sampling import SpawnStack
        kw["spawn_stack"] = SpawnStack(copy.deepcopy(args["tree"]))
    if args.get("max_time") is not None:
        kw["max_time"] = float(args["max_time"])          # the OTHER way of limiting a run
    b = mudslide.BatchedTraj(model, gen, mudslide.EvenSamplingTrajectory, **kw)
    tm = b.compute()
    problems = []
    ws = [float(t.weight) for t in tm.traces]
    if min(ws) < 0:
        problems.append("negative weight %r" % min(ws))
    if not close(sum(ws), float(nroots), float(nroots), rtol=1e-11):
        problems.append("weights of the %d trajectories sum to %r; %d initial condition(s) of weight one each were run" % (len(ws), sum(ws), nroots))
    oc = np.asarray(tm.outcomes)
    if not close(float(np.sum(oc)), 1.0, 1.0, rtol=1e-11):
        problems.append("batch outcomes sum to %r" % float(np.sum(oc)))
    # child start = parent's phase-space point at the hop time
    bytime = {}
    for ti, t in enumerate(tm.traces):
        for s in t:
            bytime.setdefault(s["time"], []).append((ti, s))
    nchecked = 0
    for ti, t in enumerate(tm.traces):
        evs = list(t.hops) + list(t.events.get("frustrated_hop", []))
        if not evs or t.weight == 0.0:
            continue
        last = max(evs, key=lambda e: e["time"])
        # below the depth of the sample tree a trajectory has an empty stack and hops in place like cumulative
        # FSSH (no clone): only the first `depth` events of a trace are spawns
        # (the depth varies from branch to branch in explicit trees, so only a trace's FIRST event is known to be a spawn:
        #  traces with exactly one event are judged)
        if len(evs) != 1:
            continue
        snaps = list(t)
        own = [s for s in snaps if s["time"] > last["time"]]
        if not own:
            # born on the step at which a limit is met: the child must still be recorded where it starts
            problems.append("child born at t=%r has no snapshot of its own: its start (the parent's point at the hop time, on the "
                            "target state) is not in its trace" % last["time"])
            continue
        first = own[0]
        if not close(first["time"], last["time"] + args["dt"], abs(first["time"]) + 1, rtol=1e-12):
            problems.append("child's first own snapshot at t=%r, hop at t=%r" % (first["time"], last["time"]))
        twins = [s for (tj, s) in bytime.get(first["time"], []) if tj != ti and
                 np.array_equal(s["position"], first["position"]) and
                 allclose(s["density_matrix"].view(np.float64), first["density_matrix"].view(np.float64), 1.0, rtol=1e-13)]
        if not twins:
            problems.append("child starting at t=%r has no parent/sibling at the same phase-space point" % first["time"])
        accepted = any(h is last for h in t.hops) or last in t.hops
        want_state = last["to"] if accepted else last["from"]
        if first["active"] != want_state:
            problems.append("child starts on state %d, expected %d" % (first["active"], want_state))
        nchecked += 1
    return not problems, {"ntraces": len(ws), "sum": sum(ws), "children_checked": nchecked, "problems": problems[:3]}, \
        {"sum": 1.0}, "; ".join(problems[:2]) or "ok"


def _es_traj(tree, base, N, n, s, seed):
    """an even-sampling trajectory on hand-made electronics (degenerate energies: every hop is allowed) with the given tree"""
    import queue
    import mudslide
    from mudslide.even_sampling import SpawnStack
    from ..synth import FakeElec, ShellModel
    rng = np.random.Generator(np.random.PCG64(seed))
    mass = 10 ** rng.uniform(0, 3, size=n)
    dc = rng.normal(size=(N, N, n))
    dc = dc - np.transpose(dc, (1, 0, 2))
    elec = FakeElec(np.zeros(N), dc=dc, forces=np.zeros((N, n)), force_matrix=np.zeros((N, N, n)))
    rho = np.zeros((N, N), dtype=np.complex128)
    rho[s, s] = 1.0
    q = queue.Queue()
    t = mudslide.EvenSamplingTrajectory(ShellModel(N, mass), rng.normal(size=n), rng.normal(size=n) * mass, rho, queue=q,
                                        electronics=elec, state0=s, dt=1.0, seed_sequence=seed,
                                        spawn_stack=SpawnStack(copy.deepcopy(tree), base))
    t.update_weight(t.spawn_stack.weight())
    return t, q, elec


def _cross(traj, q, elec, a, ratios):
    """make the trajectory's accumulated probability equal to `a` in one hopper call with branching `ratios` (zero on the
    active state), carry out the spawn; returns (#thresholds crossed, dw crossed, children)"""
    st = traj.spawn_stack
    before = st.izeta
    dws = [float(x["dw"]) for x in st.sample_stack]
    G = -math.log1p(-(a - float(traj.prob_cum)) / (1.0 - float(traj.prob_cum)))
    probs = np.array(ratios, dtype=np.float64) * G
    targets = traj.hopper(probs)
    if not targets:
        return 0, 0.0, []
    traj.hop_to_it(targets, elec)
    kids = []
    while not q.empty():
        kids.append(q.get_nowait())
    return st.izeta - before, float(sum(dws[before:st.izeta])), kids


@safe_oracle
def oracle_generations(args):
    """two generations of spawning through EvenSamplingTrajectory.hopper/hop_to_it on a tree of depth >= 2 with N >= 3 states:
    each child carries (its parent's base weight) x (dw crossed) x (branching ratio) / multiplicity, the parent keeps the
    marginal rest, and the same holds again when a child crosses a threshold of its own sub-tree (its base weight being the
    weight it was born with); weights are non-negative and each family sums to what its parent had"""
    tree, base, N, s = args["tree"], float(args["base"]), int(args["N"]), int(args["s"])
    traj, q, elec = _es_traj(tree, base, N, int(args["n"]), s, int(args["seed"]))
    problems = []
    w0 = float(traj.weight)
    if not close(w0, base, abs(base), rtol=1e-12):
        problems.append("initial weight %r, base %r" % (w0, base))
    r1 = np.array(args["r1"], dtype=np.float64)
    ncross, dw, kids = _cross(traj, q, elec, float(args["a1"]), r1)
    exhausted = traj.spawn_stack.izeta == len(tree)
    gen2 = 0
    if ncross:
        per_target = {}
        for c in kids:
            per_target.setdefault(int(c.state), []).append(c)
        for t_, cs in per_target.items():
            want = base * dw * r1[t_] / len(cs)
            for c in cs:
                if not close(float(c.weight), want, abs(base), rtol=1e-12) or c.weight < 0:
                    problems.append("child on state %d born with weight %r, base*dw*ratio/multiplicity = %r" % (t_, float(c.weight), want))
        tot = float(traj.weight) + sum(float(c.weight) for c in kids)
        if not exhausted and not close(tot, base, abs(base), rtol=1e-12):
            problems.append("parent %r + children %r = %r, parent had %r" % (float(traj.weight), tot - float(traj.weight), tot, base))
        # second generation: every child with a sub-tree crosses its own thresholds
        for ci, c in enumerate(kids):
            sub = c.spawn_stack.sample_stack
            if not sub:
                continue
            born = float(c.weight)
            r2 = np.array(args["r2"], dtype=np.float64)
            r2 = np.where(np.arange(N) == c.state, 0.0, r2)
            r2 = r2 / r2.sum()
            zs = [float(x["zeta"]) for x in sub]
            a2 = float(args["a2"][ci % len(args["a2"])])
            if any(abs(a2 - z) < 1e-9 for z in zs) or a2 <= float(c.prob_cum):
                continue
            q2 = c.queue
            nc2, dw2, grand = _cross(c, q2, elec, a2, r2)
            if not nc2:
                if float(c.weight) != born:
                    problems.append("child %d changed weight %r -> %r without crossing" % (ci, born, float(c.weight)))
                continue
            gen2 += 1
            ex2 = c.spawn_stack.izeta == len(sub)
            pt = {}
            for g in grand:
                pt.setdefault(int(g.state), []).append(g)
            for t_, gs in pt.items():
                want = born * dw2 * r2[t_] / len(gs)
                for g in gs:
                    if not close(float(g.weight), want, abs(born) + 1e-300, rtol=1e-12) or g.weight < 0:
                        problems.append("grandchild on state %d born with %r; its parent's weight*dw*ratio/multiplicity = %r"
                                        % (t_, float(g.weight), want))
            tot2 = float(c.weight) + sum(float(g.weight) for g in grand)
            if not ex2 and not close(tot2, born, abs(born) + 1e-300, rtol=1e-12):
                problems.append("child %d: %r kept + %r to its children = %r, it was born with %r"
                                % (ci, float(c.weight), tot2 - float(c.weight), tot2, born))
            if problems:
                break
    return not problems, {"crossed": ncross, "children": len(kids), "second_generation_crossings": gen2, "problems": problems[:3]}, \
        {"problems": []}, "; ".join(problems[:2]) or "ok"


@safe_oracle
def oracle_stack_ops(args):
    """a script of SpawnStack operations (next_zeta / weight / spawn_size / spawn / children weights) on a given tree runs through:
    every crossing - also the one that exhausts the stack - can be followed by spawn()"""
    ops = [tuple(o) for o in args["ops"]]
    out = run_ops(copy.deepcopy(args["tree"]), float(args["base"]), ops)
    return True, {"results": len(out)}, {}, "ok"


ORACLES = {"stack_ops": oracle_stack_ops, "stack_weights": oracle_stack_weights, "batch": oracle_batch, "generations": oracle_generations}


def run(ctx):
    ctx.rule = ("explicit sample trees (depth 1..3, 1..5 samples per level, dyadic dw summing to one, and user trees that do "
                "not) and from_quadrature stacks (five rules, mcsamples 1..3); op sequences next_zeta (values exactly on, one "
                "ulp above, and between thresholds; several thresholds per call; exhaustion) / weight / spawn_size / spawn / "
                "children of a crossing; whole batches on the 1-D models. Non-trivial = a call crossing >=2 thresholds, or an "
                "exhausted stack, or depth>=2; distinct by (depth, #samples, #ops, exhausted, multi-cross)")
    ctx.assumptions += ["the empty-stack branch of next_zeta (plain cumulative hopping with the generator) is C09's"]
    ctx.fingerprints["mudslide/even_sampling.py"] = fingerprint(
        "mudslide/even_sampling.py", ["SpawnStack", "hopper", "hop_to_it", "clone"])
    ctx.proofs()
    rng = ctx.rng
    from mudslide.even_sampling import SpawnStack
    cases, lines = [], []
    for i in range(ctx.budget(150, 10000)):
        depth = int(rng.integers(1, 4))
        if i % 3 == 0:
            method = ["gl", "cc", "midpoint", "trapezoid", "simpson"][i % 5]
            ns = [int(v) for v in rng.integers(2, 5, size=depth)]
            if method == "simpson":
                ns = [v | 1 for v in ns]
            tree = SpawnStack.from_quadrature(ns, method=method, mcsamples=int(rng.integers(1, 4))).sample_stack
            tree = copy.deepcopy(tree)
            for lvl in _walk(tree):
                lvl["zeta"], lvl["dw"] = float(lvl["zeta"]), float(lvl["dw"])
        else:
            tree = random_tree(rng, depth, dyadic=(i % 3 == 1))
        base = float(rng.choice([1.0, 0.5, rng.random()]))
        ops = gen_ops(rng, tree)
        if not ops:
            continue
        cases.append((tree, base, ops, depth))
        lines.append(["stack"] + tree_tokens(tree) + [fb(base)] + ops_tokens(ops))
    outs = ctx.model.run(lines)
    for (tree, base, ops, depth), o in zip(cases, outs):
        try:
            impl = run_ops(tree, base, ops)
        except Exception as e_:  # noqa
            from ..core import raised_in_repo
            if not raised_in_repo(e_):
                raise
            a_ = {"tree": tree, "base": base, "ops": [list(op) for op in ops]}
            ok, obs, req, text = oracle_stack_ops(a_)
            ctx.case(None)
            if not ok:
                ctx.oracle_fail("stack-ops-raised", "stack_ops", a_, obs, req, text)
            continue
        groups, cur = [], []
        for t in o[1:]:
            if t == ";":
                groups.append(cur); cur = []
            else:
                cur.append(t)
        nz = [op for op in ops if op[0] == "nz"]
        exhausted = any(g[0] == len(tree) for g in impl)
        multi = False
        prev = 0
        for op, g in zip(ops, impl):
            if op[0] == "nz" and op[1] == 0:
                multi = multi or (g[0] - prev >= 2)
                prev = g[0]
        ctx.case((depth, len(tree), len(ops) // 5, exhausted, multi) if (multi or exhausted or depth >= 2) else None,
                 {"op": "stack", "tree_top": [(s["zeta"], s["dw"]) for s in tree], "base": base, "ops": [list(map(str, op)) for op in ops[:10]],
                  "impl": impl[:6]})
        ctx.count("stack_ops", len(ops))
        ctx.count("exhausted" if exhausted else "not_exhausted")
        bad = None
        if o[0] != "ok" or len(groups) != len(impl):
            bad = "model said %r" % (o[:5],)
        else:
            for k, (g, im, op) in enumerate(zip(groups, impl, ops)):
                mvals = [int(g[0])] + [unfb(t) for t in g[1:5]]
                extra_m, extra_i = g[5:], im[5:]
                ok = mvals[0] == im[0] and all(close(a, b, 1.0, rtol=1e-12) for a, b in zip(mvals[1:], im[1:5]))
                if ok and op[0] == "ss":
                    ok = int(extra_m[0]) == extra_i[0]
                if ok and op[0] == "sp":
                    if extra_i[0] == "Exception":
                        ok = extra_m[0] == "Exception"
                    else:
                        ok = extra_m[0] != "Exception" and close(unfb(extra_m[0]), extra_i[0], 1.0, rtol=1e-12) and int(extra_m[1]) == extra_i[1]
                if ok and op[0] == "cw":
                    ok = len(extra_m) == len(extra_i) and all(close(unfb(a), b, 1.0, rtol=1e-12) for a, b in zip(extra_m, extra_i))
                if not ok:
                    bad = "op %d %r: model %r impl %r" % (k, op, g, im)
                    break
        if bad:
            ctx.corr_mismatch("stack", {"tree": tree, "base": base, "ops": [list(op) for op in ops]}, bad)
        a = {"tree": tree, "base": base, "as": sorted(float(op[2]) for op in nz if op[1] == 0) or [0.5],
             "r": [0.25, 0.75], "ns": int(rng.integers(1, 4))}
        ok, obs, req, text = oracle_stack_weights(a)
        if not ok:
            ctx.oracle_fail("stack-weights", "stack_weights", a, obs, req, text)

    # two generations of spawning through the trajectory class itself (depth >= 2, N >= 3: fractional branching ratios)
    for i in range(ctx.budget(40, 3000)):
        depth = int(rng.integers(2, 4))
        if i % 2 == 0:
            ns = [int(v) for v in rng.integers(2, 5, size=depth)]
            method = ["gl", "cc", "midpoint", "trapezoid"][(i // 2) % 4]
            tree = copy.deepcopy(SpawnStack.from_quadrature(ns, method=method, mcsamples=int(rng.integers(1, 4))).sample_stack)
            for lvl in _walk(tree):
                lvl["zeta"], lvl["dw"] = float(lvl["zeta"]), float(lvl["dw"])
        else:
            tree = random_tree(rng, depth, dyadic=True)
        N = int(rng.integers(3, 6))
        s_ = int(rng.integers(0, N))
        r1 = rng.random(N) + 0.05
        r1[s_] = 0.0
        r1 = r1 / r1.sum()
        zs = sorted(float(x["zeta"]) for x in tree)
        # a1 strictly between thresholds (or past the last): crosses 1..all of them
        j = int(rng.integers(0, len(zs)))
        lo, hi = zs[j], (zs[j + 1] if j + 1 < len(zs) else min(1.0, zs[j] + 0.2))
        if not hi > lo + 1e-6 or lo <= 0.0 or lo >= 0.999:
            continue
        a = {"tree": tree, "base": float(rng.choice([1.0, 0.5, rng.random()])), "N": N, "n": int(rng.integers(1, 4)), "s": s_,
             "seed": int(rng.integers(1, 2 ** 31)), "r1": [float(v) for v in r1], "a1": float(lo + (hi - lo) * rng.uniform(0.1, 0.9)) if hi < 1.0 or j + 1 < len(zs) else float(lo + (0.9999 - lo) * 0.5),
             "r2": [float(v) for v in rng.random(N) + 0.05], "a2": [float(v) for v in rng.uniform(0.05, 0.97, size=3)]}
        if not (0.0 < a["a1"] < 1.0):
            continue
        ok, obs, req, text = oracle_generations(a)
        ctx.case(("generations", depth, N, min(int(obs["second_generation_crossings"]), 3), int(obs["crossed"]) >= 2))
        ctx.count("generation_scripts")
        ctx.count("second_generation_crossings", int(obs["second_generation_crossings"]))
        if not ok:
            ctx.oracle_fail("spawn-generations", "generations", a, obs, req, text)

    # corpus: a spawn on the step at which the parent leaves the box (C16 thorough, seed 77)
    a = dict(model="dual", x0=-5.910094565027199, k=24.449487706745874, seed=926698, dt=20.0, box=1.6821206732895315,
             maxsteps=3000, stack=[3], quadrature="trapezoid", mcsamples=1)
    ok, obs, req, text = oracle_batch(a)
    ctx.case(("batch-corpus", "born-on-exit-step"))
    if not ok:
        ctx.oracle_fail("es-child-born-finished-not-logged" if "no snapshot of its own" in text else "batch-weights", "batch", a, obs, req, text)
    # directed: ONE user-supplied SpawnStack object (explicit tree) serves several initial conditions of a batch, on runs that are
    # sure to cross thresholds: every initial condition's tree sums to its own initial weight
    for i in range(ctx.budget(6, 30)):
        a = dict(model=["simple", "dual", "super"][i % 3], x0=-4.0, k=float(rng.uniform(8, 22)), seed=int(rng.integers(1, 10 ** 6)), dt=20.0,
                 box=3.0, maxsteps=2500, stack=[3], quadrature="gl", mcsamples=1, tree=random_tree(rng, 2, dyadic=True),
                 samples=int(rng.integers(2, 4)))
        ok, obs, req, text = oracle_batch(a)
        ctx.case(("batch-shared-stack-object", a["model"], a["samples"]))
        ctx.count("batches_with_one_stack_object_for_several_initial_conditions")
        if not ok:
            ctx.oracle_fail("batch-weights", "batch", a, obs, req, text)
    # directed: the tree is cut - by max_steps and by max_time - on the very steps on which its children are born in a free run
    for i in range(ctx.budget(2, 12)):
        a0 = dict(model=["simple", "dual"][i % 2], x0=-4.0, k=float(rng.uniform(8, 20)), seed=int(rng.integers(1, 10 ** 6)), dt=20.0, box=3.0,
                  maxsteps=2500, stack=[3], quadrature="gl", mcsamples=1)
        import mudslide
        gen_ = mudslide.TrajGenConst(a0["x0"], a0["k"], 0, seed=a0["seed"])
        free = mudslide.BatchedTraj(mudslide.models.scattering_models[a0["model"]](), gen_, mudslide.EvenSamplingTrajectory, samples=1, dt=20.0,
                                    bounds=[-3.0, 3.0], max_steps=2500, spawn_stack=[3], quadrature="gl").compute()
        births = sorted({int(round(t.hops[0]["time"] / 20.0)) for t in free.traces if t.hops} |
                        {int(round(e["time"] / 20.0)) for t in free.traces for e in t.events.get("frustrated_hop", [])[:1]})
        for st_ in births[:2]:
            for how in ("max_steps", "max_time"):
                a = dict(a0)
                if how == "max_steps":
                    a["maxsteps"] = st_ + 1
                else:
                    a["max_time"] = (st_ + 1) * 20.0
                ok, obs, req, text = oracle_batch(a)
                ctx.case(("batch-cut-at-birth", a["model"], how))
                ctx.count("batches_cut_on_a_birth_step:" + how)
                if not ok:
                    ctx.oracle_fail("es-child-born-finished-not-logged" if "no snapshot of its own" in text else "batch-weights", "batch", a, obs, req, text)
    for i in range(ctx.budget(8, 150)):
        a = dict(model=["simple", "dual", "extended", "super"][i % 4], x0=float(-rng.uniform(3.5, 6)), k=float(rng.uniform(6, 28)),
                 seed=int(rng.integers(1, 10 ** 6)), dt=20.0, box=float(rng.uniform(2.0, 3.0)), maxsteps=2500,
                 stack=[int(rng.integers(2, 5))] + ([2] if rng.random() < 0.4 else []),
                 quadrature=str(rng.choice(["gl", "midpoint", "trapezoid", "cc"])), mcsamples=int(rng.integers(1, 3)))
        if i % 4 == 3:
            a["tree"] = random_tree(rng, 2, dyadic=True)
        if i % 2 == 1:
            a["samples"] = int(rng.integers(2, 4))      # several initial conditions built from ONE user-supplied stack / option value
        ok, obs, req, text = oracle_batch(a)
        ctx.case(("batch", a["model"], a["quadrature"], len(a["stack"]), a["mcsamples"], a.get("tree") is not None, a.get("samples", 1)))
        ctx.count("batches")
        if "ntraces" in obs:
            ctx.count("batch_traces", obs["ntraces"])
            ctx.count("children_checked", obs["children_checked"])
        if not ok:
            ctx.oracle_fail("batch-weights", "batch", a, obs, req, text)


def _walk(tree):
    for s in tree:
        yield s
        for c in _walk(s["children"]):
            yield c

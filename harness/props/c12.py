# -*- coding: utf-8 -*-
"""C12 — reproducibility from seeds, independent streams, threshold order, clones."""
import queue

import numpy as np

from ..core import fingerprint, safe_oracle, close
from ..synth import SynthModel

CLASSES = ["TrajectorySH", "TrajectoryCum", "Ehrenfest", "AugmentedFSSH", "EvenSamplingTrajectory"]


def _same(a, b):
    """deep bit-exact equality of snapshot/event structures"""
    if isinstance(a, dict):
        return isinstance(b, dict) and set(a) == set(b) and all(_same(a[k], b[k]) for k in a)
    if isinstance(a, (list, tuple)):
        return isinstance(b, (list, tuple)) and len(a) == len(b) and all(_same(x, y) for x, y in zip(a, b))
    if isinstance(a, np.ndarray) or isinstance(b, np.ndarray):
        a, b = np.asarray(a), np.asarray(b)
        return a.shape == b.shape and a.tobytes() == b.tobytes()
    if isinstance(a, float) and isinstance(b, float):
        return np.float64(a).tobytes() == np.float64(b).tobytes()
    return a == b


def _trace_sig(t):
    return {"weight": float(t.weight), "snaps": list(t), "hops": list(t.hops), "events": {k: list(v) for k, v in t.events.items()}}


def _batch(spec, samples=None):
    import mudslide
    model = spec["_model"] if spec.get("_model") is not None else mudslide.models.scattering_models[spec["model"]]()
    kw = dict(samples=samples or spec["samples"], dt=spec["dt"], bounds=[-spec["box"], spec["box"]], max_steps=spec["maxsteps"])
    if spec.get("_arrays") is not None:
        # the user's OWN arrays (position, momentum, a complex density matrix as initial state), handed to every run and every
        # batch member: "the same initial conditions" means these objects, unchanged
        x_, k_, rho_ = spec["_arrays"]
        gen = mudslide.TrajGenConst(x_, k_, rho_, seed=spec["seed"])
        kw["state0"] = 0
    elif spec.get("gen") == "normal":
        # normally distributed initial conditions (the `--ksampling normal` path): trajectory i and its random stream must not
        # depend on how many are asked for
        gen = mudslide.TrajGenNormal(np.array([float(spec["x0"])]), np.array([float(spec["k"])]), 0, sigma=1.0, seed=spec["seed"],
                                     seed_traj=int(spec["seed"]) + 5)
    else:
        gen = mudslide.TrajGenConst(spec["x0"], spec["k"], 0, seed=spec["seed"])
    if spec["cls"] == "EvenSamplingTrajectory":
        # (a list of sizes, or the user's own SpawnStack instance - one object for every run made from these options)
        kw["spawn_stack"] = spec["_stack_obj"] if spec.get("_stack_obj") is not None else spec["stack"]
        kw["samples"] = 1
    b = mudslide.BatchedTraj(model, gen, getattr(mudslide, spec["cls"]), **kw)
    return [_trace_sig(t) for t in b.compute().traces]


@safe_oracle
def oracle_repro(args):
    """same model, initial conditions, options and seeds -> identical snapshots and events, for every class incl. complete
    even-sampling trees; trajectory i does not depend on the batch size; members use distinct streams"""
    import random as pyrandom
    spec = dict(args)
    # "from seeds": nothing may come from the process-wide generators; they are put in different states before each run
    if spec.get("shared_model"):
        # ONE model object serves the run, its repetition and the bigger batch (a scan over momenta, a later batch): nothing a run
        # leaves behind in it - eigenvector phases, buffers - may reach the next one
        import mudslide
        spec["_model"] = mudslide.models.scattering_models[spec["model"]]()
    keep = None
    if spec.get("array_state") and spec["cls"] != "EvenSamplingTrajectory":
        spec["_arrays"] = (np.array([float(spec["x0"])]), np.array([float(spec["k"])]),
                           np.array([[0.6, 0.3 + 0.1j], [0.3 - 0.1j, 0.4]], dtype=np.complex128))
        keep = [np.array(v) for v in spec["_arrays"]]
    if spec.get("stack_object") and spec["cls"] == "EvenSamplingTrajectory":
        from mudslide.even_sampling import SpawnStack
        spec["_stack_obj"] = SpawnStack.from_quadrature(list(spec["stack"]), method="gl")
    np.random.seed(12345)
    pyrandom.seed(12345)
    a = _batch(spec)
    np.random.seed(54321)
    pyrandom.seed(54321)
    b = _batch(spec)
    problems = []
    if len(a) != len(b) or not all(_same(x, y) for x, y in zip(a, b)):
        problems.append("two runs with identical inputs differ")
    if spec.get("_stack_obj") is not None:
        c_ = _batch(dict(spec, _stack_obj=None))
        if len(a) != len(c_) or not all(_same(x, y) for x, y in zip(a, c_)):
            problems.append("the tree grown from the user's SpawnStack object differs from the tree of the same quadrature given as a list of sizes")
    if spec.get("_model") is not None:
        # ... and the model object itself answers as a brand-new one does (couplings carry the eigenvector signs: bit for bit)
        import mudslide
        fresh = mudslide.models.scattering_models[spec["model"]]()
        for xq in (float(spec["x0"]), 0.5 * float(spec["x0"]), 0.1, -0.5 * float(spec["x0"]), -float(spec["x0"]), abs(float(spec["box"]))):
            u_ = spec["_model"].update(np.array([xq]))
            v_ = fresh.update(np.array([xq]))
            if not (_same(np.asarray(u_.derivative_coupling_tensor()), np.asarray(v_.derivative_coupling_tensor())) and
                    _same(np.asarray(u_.hamiltonian()), np.asarray(v_.hamiltonian())) and
                    _same(np.asarray(u_.force_matrix()), np.asarray(v_.force_matrix()))):
                problems.append("after the runs the model object evaluates x=%r differently from a brand-new model (the runs left "
                                "something behind in it: the next run, batch member or scan point starts from it)" % xq)
                break
    if keep is not None and not all(np.array_equal(u, v) for u, v in zip(keep, spec["_arrays"])):
        problems.append("the runs changed the caller's own initial-condition arrays (position, momentum or density matrix)")
    if keep is not None and len(a) >= 2 and not _same(a[0]["snaps"][0]["density_matrix"], a[1]["snaps"][0]["density_matrix"]):
        problems.append("batch members do not start from the same density matrix")
    if spec["cls"] != "EvenSamplingTrajectory":
        c = _batch(spec, samples=spec["samples"] + 3)
        if not all(_same(x, y) for x, y in zip(a, c[:len(a)])):
            problems.append("trajectory i changes when the batch grows from %d to %d" % (spec["samples"], spec["samples"] + 3))
        if spec["cls"] in ("TrajectorySH", "AugmentedFSSH") and len(c) >= 2:
            zs = [tuple(s["zeta"] for s in t["snaps"][:6]) for t in c]
            if len(set(zs)) != len(zs):
                problems.append("two batch members drew the same thresholds")
    return not problems, {"traces": len(a), "problems": problems}, {"problems": []}, "; ".join(problems) or "ok"


@safe_oracle
def oracle_zeta_order(args):
    """user thresholds are consumed in the order given before any generator number is used"""
    import mudslide
    model = mudslide.models.scattering_models[args["model"]]()
    zl = [float(z) for z in args["zetas"]]
    cls = getattr(mudslide, args["cls"])
    t = cls(model, [args["x0"]], [args["k"]], 0, dt=20.0, max_steps=args["steps"], zeta_list=list(zl), seed_sequence=args["seed"])
    tr = t.simulate()
    used = [float(s["zeta"]) for s in tr]
    stream = np.random.default_rng(np.random.SeedSequence(args["seed"]))
    problems = []
    if args["cls"] == "TrajectorySH":
        # one threshold per step: snapshot k (k>=1) shows the threshold drawn in step k
        want = (zl + [float(stream.uniform()) for _ in range(len(used))])[:len(used) - 1]
        if used[1:] != want:
            problems.append("thresholds used %r, expected %r" % (used[1:6], want[:5]))
    else:
        # cumulative: a new threshold only after an attempt; the distinct values in order must be a prefix of the user list
        seq = [used[0]] + [b for a, b in zip(used[:-1], used[1:]) if b != a]
        k = min(len(seq), len(zl))
        if seq[:k] != zl[:k]:
            problems.append("thresholds used %r, user list %r" % (seq[:5], zl[:5]))
    return not problems, {"used": used[:8], "problems": problems}, {"zetas": zl[:8]}, "; ".join(problems) or "ok"


def _mk(spec):
    import mudslide
    rng = np.random.Generator(np.random.PCG64(spec["model_seed"]))
    if spec["cls"] == "AdiabaticMD":
        nd = spec["n"]
        model = mudslide.models.HarmonicModel(np.zeros(nd), 0.0, np.diag(rng.uniform(0.001, 0.01, size=nd)), rng.uniform(500, 3000, size=nd))
        return mudslide.AdiabaticMD(model, rng.normal(size=nd), rng.normal(size=nd) * 3, dt=5.0, max_steps=spec["k"],
                                    seed_sequence=spec["seed"], queue=queue.Queue())
    N = 2 if spec["cls"] == "AugmentedFSSH" else spec["N"]
    model = SynthModel(rng, N, spec["n"], scale=0.1, gap=0.0, mass=10 ** rng.uniform(0, 1.5, size=spec["n"]))
    cls = getattr(mudslide, spec["cls"])
    if spec.get("cold"):
        # slow, on the lowest state, with tiny thresholds: a hop is attempted at nearly every step and refused (frustrated-hop
        # events are logged before AND after the clone is taken)
        steps = spec["k"] + spec["more"] + 5
        return cls(model, rng.normal(size=spec["n"]) * 0.5, rng.normal(size=spec["n"]) * 0.3 + 0.3, 0, dt=0.5, max_steps=spec["k"],
                   seed_sequence=spec["seed"], queue=queue.Queue(), zeta_list=[1e-7] * steps)
    return cls(model, rng.normal(size=spec["n"]) * 0.5, rng.normal(size=spec["n"]) * 2 + 1, 0, dt=0.5, max_steps=spec["k"],
               seed_sequence=spec["seed"], queue=queue.Queue())


def _shared(a, b, path="", seen=None, out=None, depth=0):
    """mutable state reachable from both objects: numpy arrays sharing memory, identical lists/dicts/objects"""
    if out is None:
        out, seen = [], set()
    if depth > 6 or (id(a), id(b)) in seen:
        return out
    seen.add((id(a), id(b)))
    if isinstance(a, np.ndarray) and isinstance(b, np.ndarray):
        if a.size and b.size and np.shares_memory(a, b):
            out.append(path)
        return out
    if isinstance(a, (int, float, str, bool, complex, type(None), np.generic, np.random.SeedSequence)):
        return out
    if a is b:
        out.append(path)
        return out
    if isinstance(a, dict) and isinstance(b, dict):
        for k in a:
            if k in b:
                _shared(a[k], b[k], path + "[%r]" % (k,), seen, out, depth + 1)
    elif isinstance(a, (list, tuple)) and isinstance(b, (list, tuple)):
        for i, (x, y) in enumerate(zip(a, b)):
            _shared(x, y, path + "[%d]" % i, seen, out, depth + 1)
    elif hasattr(a, "__dict__") and hasattr(b, "__dict__"):
        for k in a.__dict__:
            if k in b.__dict__:
                _shared(a.__dict__[k], b.__dict__[k], path + "." + k, seen, out, depth + 1)
    return out


@safe_oracle
def oracle_clone(args):
    """a clone taken after k steps evolves exactly as the original from that step and shares no mutable state with it
    other than the work queue"""
    spec = dict(args)
    t = _mk(spec)
    tmp = None
    if spec.get("store") == "yaml":
        import tempfile
        import mudslide
        tmp = tempfile.mkdtemp(prefix="verif-c12-")
        t.tracer = mudslide.YAMLTrace(base_name="traj", location=tmp, log_pitch=spec.get("pitch", 4))
    try:
        return _clone_check(spec, t)
    finally:
        if tmp:
            import shutil
            shutil.rmtree(tmp, ignore_errors=True)


def _clone_check(spec, t):
    t.simulate()
    n0 = len(t.tracer)
    ev0 = sum(len(v) for v in getattr(t.tracer, "events", {}).values()) if isinstance(getattr(t.tracer, "events", None), dict) else 0
    c = t.clone()
    problems = []
    sh = [p for p in _shared(t, c) if p not in (".queue",)]
    if c.queue is not t.queue:
        problems.append("the work queue is not shared")
    if sh:
        problems.append("clone shares mutable state with the original: %r" % sh[:5])
    for o in (t, c):
        o.duration["max_steps"] = spec["k"] + spec["more"]
    t.simulate()
    c.simulate()
    a = list(t.tracer)[n0:]
    b = list(c.tracer)[n0:]
    if len(a) != len(b) or not _same(a, b):
        problems.append("the clone's continuation differs from the original's (%d vs %d snapshots)" % (len(b), len(a)))
    if hasattr(t.tracer, "hops") and not _same(list(t.tracer.hops), list(c.tracer.hops)):
        problems.append("hop events differ between clone and original")
    ev1 = 0
    if isinstance(getattr(t.tracer, "events", None), dict) and isinstance(getattr(c.tracer, "events", None), dict):
        # original and clone did the same thing: the same events, each logged once in each of the two stores
        ea = {k: [dict(e) for e in v] for k, v in t.tracer.events.items()}
        eb = {k: [dict(e) for e in v] for k, v in c.tracer.events.items()}
        ev1 = sum(len(v) for v in ea.values())
        if not _same([ea], [eb]):
            problems.append("the events logged by the clone differ from the original's")
        for k, v in ea.items():
            tms = [(e.get("time"), e.get("from"), e.get("to")) for e in v]
            if len(set(tms)) != len(tms):
                problems.append("an event of kind %r is logged twice in one store: %r" % (k, tms[:6]))
    if len(c.tracer) != len(t.tracer):
        problems.append("trace lengths differ")
    if spec.get("store") == "yaml":
        import os
        from mudslide.tracer import load_log
        if os.path.join(t.tracer.location, t.tracer.main_log) == os.path.join(c.tracer.location, c.tracer.main_log):
            problems.append("clone and original write to the same log files")
        else:
            for o in (t, c):
                on_disk = len(list(load_log(os.path.join(o.tracer.location, o.tracer.main_log))))
                if on_disk != len(o.tracer):
                    problems.append("log on disk holds %d snapshots, the trace object recorded %d" % (on_disk, len(o.tracer)))
    return not problems, {"continued_snapshots": len(a), "events_at_clone": ev0, "events_at_end": ev1, "problems": problems[:3]}, \
        {"problems": []}, "; ".join(problems[:2]) or "ok"


@safe_oracle
def oracle_clone_midrun(args):
    """a clone taken WHILE the original is running (through a trace() hook, after step k) and then run on its own evolves exactly
    as the uninterrupted original does from that step: same snapshots, same events (with their logged rates), same A-FSSH
    moments at the end. (The clone's own log repeats the snapshot at which it was taken: simulate() logs its starting point.)"""
    import mudslide
    spec = dict(args)
    k = int(spec["k"])
    rng = np.random.Generator(np.random.PCG64(spec["model_seed"]))
    if spec.get("builtin"):
        model = mudslide.models.scattering_models[spec["builtin"]]()
        x0, p0 = np.array([-5.0]), np.array([float(spec["p"])])
        dt = 10.0
    else:
        N = 2 if spec["cls"] == "AugmentedFSSH" else spec["N"]
        model = SynthModel(rng, N, spec["n"], scale=0.1, gap=0.0, mass=10 ** rng.uniform(0, 1.5, size=spec["n"]))
        x0, p0 = rng.normal(size=spec["n"]) * 0.5, rng.normal(size=spec["n"]) * 2 + 1
        dt = 0.5
    base = getattr(mudslide, spec["cls"])
    clones = []

    class Hooked(base):
        def trace(self, force=False):
            base.trace(self, force)
            if self.nsteps == k and not clones and not getattr(self, "_verif_is_clone", False):
                c_ = self.clone()
                c_._verif_is_clone = True
                clones.append(c_)
    t = Hooked(model, x0, p0, 0, dt=dt, max_steps=k + int(spec["more"]), seed_sequence=spec["seed"], queue=queue.Queue())
    t.simulate()
    problems = []
    if not clones:
        return True, {"cloned": False}, {}, "the run ended before step %d" % k
    c = clones[0]
    c.simulate()
    a = list(t.tracer)
    b = list(c.tracer)
    ia = [i for i, s_ in enumerate(a) if s_["time"] > a[0]["time"] + (k - 0.5) * dt]
    tail_a = a[ia[0]:] if ia else []
    tail_b = b[len(b) - len(tail_a):] if len(tail_a) <= len(b) else b
    if len(tail_a) != len(tail_b) or not _same(tail_a, tail_b):
        bad = next((i for i, (x_, y_) in enumerate(zip(tail_a, tail_b)) if not _same(x_, y_)), None)
        problems.append("the clone's snapshots after step %d differ from the original's (first at +%r steps; %d vs %d snapshots)"
                        % (k, bad, len(tail_b), len(tail_a)))
    tc = a[ia[0]]["time"] if ia else None
    for kind in set(getattr(t.tracer, "events", {})) | set(getattr(c.tracer, "events", {})):
        ea = [dict(e) for e in t.tracer.events.get(kind, []) if tc is not None and e.get("time", 0) >= tc - dt]
        eb = [dict(e) for e in c.tracer.events.get(kind, []) if tc is not None and e.get("time", 0) >= tc - dt]
        if not _same(ea, eb):
            problems.append("%s events after the clone differ: original %r, clone %r" % (kind, ea[:2], eb[:2]))
    if not _same(list(t.tracer.hops), list(c.tracer.hops)):
        problems.append("hop events differ between clone and original")
    for attr in ("delR", "delP", "rho", "position", "velocity"):
        if hasattr(t, attr) and not _same(np.asarray(getattr(t, attr)), np.asarray(getattr(c, attr))):
            problems.append("%s at the end differs between clone and original by %.3g" %
                            (attr, float(np.max(np.abs(np.asarray(getattr(t, attr)) - np.asarray(getattr(c, attr)))))))
    return not problems, {"cloned": True, "snapshots_compared": len(tail_a),
                          "events": {kk: len(v) for kk, v in getattr(t.tracer, "events", {}).items()}, "problems": problems[:3]}, \
        {"problems": []}, "; ".join(problems[:2]) or "ok"


@safe_oracle
def oracle_es_fresh_stream(args):
    """even-sampling spawns receive a fresh seed sequence: children keys differ from the parent's and from each other"""
    import mudslide
    from mudslide.even_sampling import SpawnStack
    model = mudslide.models.scattering_models["simple"]()
    q = queue.Queue()
    t = mudslide.EvenSamplingTrajectory(model, [-3.0], [15.0], 0, dt=20.0, max_steps=400, queue=q, seed_sequence=args["seed"],
                                        spawn_stack=[3], quadrature="midpoint", bounds=[-4, 4], mcsamples=int(args.get("mcsamples", 1)))
    t.simulate()
    kids = []
    while not q.empty():
        kids.append(q.get())
    keys = [tuple(k.seed_sequence.spawn_key) for k in kids]
    problems = []
    if len(set(keys)) != len(keys) or tuple(t.seed_sequence.spawn_key) in keys:
        problems.append("spawned trajectories share a seed sequence: %r" % (keys,))
    # the streams themselves: the next number each child (and the parent) would draw
    def peek(tr):
        bg = type(tr.random_state.bit_generator)()
        bg.state = tr.random_state.bit_generator.state
        return float(np.random.Generator(bg).random())
    draws = [peek(k) for k in kids] + [peek(t)]
    if len(set(draws)) != len(draws):
        problems.append("trajectories of one tree would draw the same random numbers: %r" % (draws,))
    return not problems, {"children": len(kids), "keys": keys}, {"distinct": True}, "; ".join(problems) or "ok"


@safe_oracle
def oracle_hopper_repro(args):
    """the hop decisions (whether, where to, with which threshold) of a hopping class on a prescribed sequence of rate vectors
    with N >= 3 states depend on the trajectory's seed only: two trajectories with the same seed agree whatever state the
    process-wide generators are in, and a different seed gives a different decision sequence"""
    import random as pyrandom
    import mudslide
    from ..synth import ShellModel
    N, seq = int(args["N"]), [np.array(g, dtype=np.float64) for g in args["seq"]]

    def once(seed, gseed):
        np.random.seed(gseed)
        pyrandom.seed(gseed)
        rho = np.zeros((N, N), dtype=np.complex128)
        rho[0, 0] = 1.0
        t = getattr(mudslide, args["cls"])(ShellModel(N, [1.0]), [0.0], [0.0], rho, state0=0, dt=1.0, seed_sequence=seed)
        out = []
        for g in seq:
            r = t.hopper(np.array(g))
            out.append([(int(h["target"]), float(h["zeta"]), float(h["prob"])) for h in r])
        return out
    a, b, c = once(args["seed"], 1), once(args["seed"], 2), once(args["seed"] + 1, 1)
    problems = []
    if a != b:
        k = next(i for i, (x, y) in enumerate(zip(a, b)) if x != y)
        problems.append("same seed, different hop decisions at step %d: %r vs %r (only the process-wide generators differ)" % (k, a[k], b[k]))
    nh = sum(1 for x in a if x)
    if nh >= 3 and a == c:
        problems.append("a different seed gives the identical decision sequence (%d hops)" % nh)
    return not problems, {"hops": nh, "targets": sorted({h[0] for x in a for h in x}), "problems": problems}, {"problems": []}, \
        "; ".join(problems) or "ok"


ORACLES = {"clone_midrun": oracle_clone_midrun, "hopper_repro": oracle_hopper_repro, "repro": oracle_repro, "zeta_order": oracle_zeta_order, "clone": oracle_clone, "es_fresh_stream": oracle_es_fresh_stream}


def run(ctx):
    ctx.rule = ("batches of all five classes on the 1-D models run twice / with a larger batch; threshold lists of 1..9 distinct "
                "entries; clones of SH / cumulative / Ehrenfest / A-FSSH / MD trajectories taken after k = 1..12 steps on "
                "synthetic multi-state multi-D models, both continued; scan of the attribute graphs for shared memory. "
                "Non-trivial = batch with >=2 members or hops, clone after >=1 step; distinct by (check, class, k / size)")
    ctx.assumptions += ["that distinct SeedSequence spawn keys give statistically independent streams is numpy's contract",
                        "CPython copy.deepcopy semantics (fresh objects, memo) are external"]
    ctx.fingerprints["mudslide/trajectory_sh.py"] = fingerprint("mudslide/trajectory_sh.py", ["__deepcopy__", "clone", "draw_new_zeta"])
    ctx.fingerprints["mudslide/adiabatic_md.py"] = fingerprint("mudslide/adiabatic_md.py", ["__deepcopy__", "clone"])
    ctx.fingerprints["mudslide/batch.py"] = fingerprint("mudslide/batch.py", ["compute"])
    ctx.proofs()
    rng = ctx.rng
    # model-level correspondence of the threshold order
    lines, keep = [], []
    for i in range(ctx.budget(40, 2000)):
        zl = [float(v) for v in rng.random(int(rng.integers(0, 6)))]
        st = [float(v) for v in rng.random(int(rng.integers(1, 8)))]
        k = int(rng.integers(0, len(zl) + len(st) + 1))
        from ..core import fbs, unfb
        lines.append(["draws", k, len(zl)] + fbs(zl) + [len(st)] + fbs(st))
        keep.append((zl, st, k))
    outs = ctx.model.run(lines)
    for (zl, st, k), o in zip(keep, outs):
        from ..core import unfb
        got = [unfb(t) for t in o[1:]]
        ctx.case(("draws", len(zl) > 0, k > len(zl)) if zl and k > len(zl) else None)
        if got != (zl + st)[:k]:
            ctx.corr_mismatch("draws", {"zl": zl, "stream": st, "k": k}, "model %r" % got)

    for i in range(ctx.budget(20, 150)):
        cls = CLASSES[i % 5]
        spec = dict(cls=cls, model=str(rng.choice(["simple", "dual", "extended"])), x0=float(-rng.uniform(3, 5)), k=float(rng.uniform(8, 25)),
                    seed=int(rng.integers(1, 2 ** 31)), samples=int(rng.integers(1, 4)), dt=20.0, box=2.5, maxsteps=1500, stack=[2, 2])
        if (i // 5) % 2 == 1 and cls != "AugmentedFSSH":      # (the A-FSSH collapse is implemented for two states only: `assert nstates == 2`)
            # three states: a hop has two open target channels, the target itself is a random decision
            spec.update(model="super", samples=int(rng.integers(4, 9)), x0=float(-rng.uniform(6, 8)), box=6.0, k=float(rng.uniform(5, 20)))
        elif (i // 5) % 4 in (0, 2) and cls not in ("EvenSamplingTrajectory", "AdiabaticMD"):
            spec.update(array_state=True, samples=max(2, spec["samples"]))
            ctx.count("repro_with_the_callers_own_arrays")
        if cls in ("TrajectorySH", "TrajectoryCum") and (i // 5) % 4 == 2:
            spec["gen"] = "normal"
            spec["samples"] = max(2, spec["samples"])
            spec.pop("array_state", None)
            ctx.count("repro_with_normally_distributed_initial_conditions")
        if i % 5 in (0, 1, 2) and (i // 5) % 2 == 1:
            # three-state Subotnik models (their tracked eigenvector phases at the end of a transmitted run differ from eigh's
            # native ones at the start), one model object for everything
            mdl = ["modelx", "models"][i % 2]
            spec.update(model=mdl, shared_model=True, x0=float(-rng.uniform(5.5, 6.5)), box=7.0, dt=10.0,
                        k=float(rng.uniform(13, 18)) if mdl == "modelx" else float(rng.uniform(22, 28)), samples=2, maxsteps=3000)
            spec.pop("array_state", None)
            ctx.count("repro_on_one_shared_model_object")
        if cls == "EvenSamplingTrajectory" and (i // 5) % 2 == 0:
            spec.update(stack=[3, 2], stack_object=True)
            ctx.count("repro_of_even_sampling_trees_from_one_SpawnStack_object")
        ok, obs, req, text = oracle_repro(spec)
        spec.pop("_arrays", None)
        spec.pop("_model", None)
        spec.pop("_stack_obj", None)
        ctx.case(("repro", cls, spec["samples"], spec["model"] == "super"), {"check": "repro", "spec": spec})
        ctx.count("repro:" + cls)
        if not ok:
            ctx.oracle_fail("reproducibility:" + cls, "repro", spec, obs, req, text)
    for i in range(ctx.budget(12, 300)):
        N = int(rng.integers(3, 7))
        seq = rng.random((int(rng.integers(20, 60)), N)) * 0.2
        seq[:, 0] = 0.0
        a = dict(cls=["TrajectorySH", "TrajectoryCum"][i % 2], N=N, seq=[[float(v) for v in g] for g in seq], seed=int(rng.integers(1, 2 ** 31)))
        ok, obs, req, text = oracle_hopper_repro(a)
        ctx.case(("hopper-repro", a["cls"], N, len(obs["targets"]) >= 2))
        ctx.count("hopper_repro")
        ctx.count("hopper_repro_hops", int(obs["hops"]))
        if not ok:
            ctx.oracle_fail("hopper-reproducibility:" + a["cls"], "hopper_repro", a, obs, req, text)
    for i in range(ctx.budget(8, 100)):
        a = dict(cls=["TrajectorySH", "TrajectoryCum"][i % 2], model=str(rng.choice(["simple", "dual", "extended"])), x0=-3.0,
                 k=float(rng.uniform(8, 20)), seed=int(rng.integers(1, 2 ** 31)), steps=int(rng.integers(5, 40)),
                 zetas=[float(v) for v in rng.random(int(rng.integers(1, 10)))])
        if a["cls"] == "TrajectoryCum":
            a["zetas"] = [float(v) * 0.05 for v in a["zetas"]]       # small thresholds: several attempts
        if i % 4 >= 2:
            # a supplied threshold that is exactly zero is a threshold too (never two equal neighbours: the cumulative oracle reads
            # the thresholds off the snapshots and cannot tell a repeated value from an unchanged one)
            a["zetas"][0] = 0.0
            if a["cls"] == "TrajectorySH" and len(a["zetas"]) > 3:
                a["zetas"][2] = 0.0
        ok, obs, req, text = oracle_zeta_order(a)
        ctx.case(("zeta-order", a["cls"], len(a["zetas"])), {"check": "zeta_order", "args": a})
        ctx.count("zeta_order")
        if not ok:
            ctx.oracle_fail("threshold-order", "zeta_order", a, obs, req, text)
    nclone, i, informative = ctx.budget(15, 300), -1, 0
    while True:
        i += 1
        if i >= nclone and (informative >= 3 or i >= nclone + ctx.budget(24, 100)):
            break
        cls = ["TrajectorySH", "TrajectoryCum", "Ehrenfest", "AugmentedFSSH", "AdiabaticMD"][i % 5]
        spec = dict(cls=cls, N=int(rng.integers(2, 4)), n=int(rng.integers(1, 3)), model_seed=int(rng.integers(1, 10 ** 6)),
                    seed=int(rng.integers(1, 2 ** 31)), k=int(rng.integers(1, 13)), more=int(rng.integers(3, 12)))
        if i % 3 == 2 and cls != "AugmentedFSSH":
            spec["store"] = "yaml"
            spec["pitch"] = int(rng.integers(1, 6))
        if i >= nclone:
            # directed: clones taken from a trajectory that has ALREADY logged events and goes on logging them
            spec.update(cls=["TrajectorySH", "TrajectoryCum"][i % 2], cold=True, k=int(rng.integers(15, 40)), more=int(rng.integers(15, 40)))
            spec.pop("store", None)
            spec.pop("pitch", None)
        ok, obs, req, text = oracle_clone(spec)
        if obs.get("events_at_clone", 0) >= 1 and obs.get("events_at_end", 0) > obs.get("events_at_clone", 0):
            informative += 1
            ctx.count("clones_taken_with_events_logged_before_and_after")
        ctx.case(("clone", cls, spec["k"], spec.get("store", "memory")), {"check": "clone", "spec": spec})
        ctx.count("clone:" + cls)
        if not ok:
            sig = "clone:" + cls
            if "same log files" in text:
                sig = "clone-shares-yaml-files"
            ctx.oracle_fail(sig, "clone", spec, obs, req, text)
    # clones taken while the original keeps running
    for i in range(ctx.budget(12, 200)):
        cls = ["AugmentedFSSH", "TrajectorySH", "TrajectoryCum", "Ehrenfest"][i % 4]
        a = dict(cls=cls, N=int(rng.integers(2, 4)), n=int(rng.integers(1, 3)), model_seed=int(rng.integers(1, 10 ** 6)),
                 seed=int(rng.integers(1, 2 ** 31)), k=int(rng.integers(2, 25)), more=int(rng.integers(5, 30)))
        if cls == "AugmentedFSSH" and (i // 4) % 2 == 0:
            # through the coupling region of a built-in model, long enough for collapses (their logged rates are compared)
            a.update(builtin=["dual", "simple"][(i // 8) % 2], p=float(rng.uniform(10, 18)), k=int(rng.integers(30, 60)), more=int(rng.integers(80, 120)))
        ok, obs, req, text = oracle_clone_midrun(a)
        ctx.case(("clone-midrun", cls, bool(a.get("builtin"))), {"check": "clone_midrun", "spec": a})
        ctx.count("clone_midrun:" + cls)
        ctx.count("clone_midrun_collapse_events_compared", int(obs.get("events", {}).get("collapse", 0)) if isinstance(obs.get("events"), dict) else 0)
        if not ok:
            ctx.oracle_fail("clone-midrun:" + cls, "clone_midrun", a, obs, req, text)
    for i in range(ctx.budget(4, 20)):
        a = {"seed": int(rng.integers(1, 2 ** 31)), "mcsamples": [1, 3][i % 2]}
        ok, obs, req, text = oracle_es_fresh_stream(a)
        ctx.case(("es-fresh-stream", obs.get("children", 0), a["mcsamples"]))
        if not ok:
            ctx.oracle_fail("es-stream", "es_fresh_stream", a, obs, req, text)

# -*- coding: utf-8 -*-
"""C02 — the electronic density matrix stays a valid quantum state."""
import numpy as np

from ..core import fb, fbs, cbs, unfb, close, allclose, fingerprint, safe_oracle
from ..synth import SynthModel, random_rho
from .. import eleccommon as ec


def _valid_state(rho, pure0=None, tol=1e-10):
    """Hermitian, unit trace, populations in [0,1] (positive semi-definite), purity"""
    problems = []
    herm = float(np.max(np.abs(rho - rho.conj().T)))
    if herm > tol:
        problems.append("not Hermitian (%.3g)" % herm)
    tr = np.trace(rho)
    if abs(tr - 1.0) > tol:
        problems.append("trace %r" % tr)
    pops = np.real(np.diag(rho))
    if np.any(pops < -tol) or np.any(pops > 1 + tol):
        problems.append("population outside [0,1]: %r" % pops.tolist())
    ev = np.linalg.eigvalsh(0.5 * (rho + rho.conj().T))
    if ev.min() < -tol:
        problems.append("negative eigenvalue %.3g" % ev.min())
    if pure0:
        pur = float(np.real(np.trace(rho @ rho)))
        if abs(pur - 1.0) > max(tol, pure0):
            problems.append("purity %.12g" % pur)
    return problems


@safe_oracle
def oracle_step(args):
    """one call of propagate_electronics on a valid state yields a valid state (exp: to 1e-10; linear-rk4: Hermitian and
    unit trace to 1e-10, positivity/purity to the RK4 truncation error 1e-6)"""
    c = {k: (np.array(v) if isinstance(v, (list, np.ndarray)) else v) for k, v in args["case"].items()}
    t = ec.make_traj(c, args["integ"])
    e0, e1 = ec.elecs(c)
    t.propagate_electronics(e0, e1, c["dt"])
    pure = c["kind"] in ("pure", "basis")
    if args["integ"] == "exp":
        problems = _valid_state(t.rho, pure0=1e-10 if pure else None)
    else:
        problems = [p for p in _valid_state(t.rho, pure0=1e-5 if pure else None, tol=1e-10)
                    if p.startswith("not Hermitian") or p.startswith("trace")]
        problems += [p for p in _valid_state(t.rho, pure0=1e-5 if pure else None, tol=1e-6)
                     if not (p.startswith("not Hermitian") or p.startswith("trace"))]
    obs = {"rho": t.rho, "problems": problems}
    if problems and args["integ"] == "linear-rk4" and not any(p.startswith("not Hermitian") or p.startswith("trace") for p in problems):
        # positivity / purity off by more than 1e-6 after ONE linear-rk4 step (thorough seed 86: smallest eigenvalue -2.6e-6, six states,
        # long step): is it the truncation error of the non-unitary RK4 scheme - the listed finding - and nothing else? Then it falls
        # at fourth order when the electronic sub-step is refined
        def defect(r):
            ev = np.linalg.eigvalsh(0.5 * (r + r.conj().T))
            d = max(0.0, -float(ev.min()), float(ev.max()) - 1.0)
            return max(d, abs(float(np.real(np.trace(r @ r))) - 1.0)) if pure else d
        d0 = defect(t.rho)
        e0_ = float(getattr(t, "max_electronic_dt", 0.1))
        for k in (4.0, 16.0):
            t2 = ec.make_traj(c, args["integ"], max_electronic_dt=e0_ / k)
            a_, b_ = ec.elecs(c)
            t2.propagate_electronics(a_, b_, c["dt"])
            if np.all(np.isfinite(t2.rho)) and defect(t2.rho) <= max(1e-9, d0 / 16.0):
                obs["only_rk4_truncation"] = True
                break
    return not problems, obs, {"problems": []}, "; ".join(problems) or "ok"


@safe_oracle
def oracle_run(args):
    """along a real run (any class, either integrator, coherent/mixed initial state) every logged density matrix is a
    valid state; hop attempts (accepted or frustrated) do not alter it; an A-FSSH collapse leaves the pure active state"""
    import mudslide
    from mudslide.trajectory_sh import TrajectorySH
    spec = dict(args)
    rng = np.random.Generator(np.random.PCG64(spec["model_seed"]))
    if spec.get("builtin"):
        model = mudslide.models.scattering_models[spec["builtin"]](**spec.get("kwargs", {}))
        N, n = model.nstates(), model.ndim()
        x0, p0 = np.array(spec["x0"], dtype=np.float64), np.array(spec["p0"], dtype=np.float64)
    else:
        N, n = spec["N"], spec["n"]
        model = SynthModel(rng, N, n, scale=0.1, gap=0.0, mass=10 ** rng.uniform(0, 1.5, size=n))
        x0, p0 = rng.normal(size=n) * 0.5, rng.normal(size=n) * 2 + 1
    rho0 = random_rho(rng, N, spec["rho"])
    if spec["rho"] == "basis":
        rho0 = np.zeros((N, N), dtype=complex)
        rho0[0, 0] = 1.0
    records = []
    orig = TrajectorySH.hop_to_it

    def wrapped(self, hop_targets, electronics=None):
        before = np.array(self.rho, copy=True)
        orig(self, hop_targets, electronics)
        records.append(float(np.max(np.abs(self.rho - before))))
    TrajectorySH.hop_to_it = wrapped
    from mudslide.afssh import AugmentedFSSH
    orig_sh = AugmentedFSSH.surface_hopping
    collapse_problems, collapse_info = [], {"with_hop": 0}

    def wrapped_sh(self, last_electronics, this_electronics):
        n0 = len(self.tracer.events.get("collapse", [])) if hasattr(self.tracer, "events") else 0
        state0 = self.state
        orig_sh(self, last_electronics, this_electronics)
        n1 = len(self.tracer.events.get("collapse", [])) if hasattr(self.tracer, "events") else 0
        if n1 > n0:
            want = np.zeros_like(self.rho)
            want[self.state, self.state] = 1.0
            collapse_info["with_hop"] += int(self.state != state0)
            if not np.array_equal(self.rho, want):
                collapse_problems.append("t=%r: after the collapse rho is not the pure ACTIVE state %d (state before the step's hop "
                                         "attempt: %d); populations %r" % (self.time, self.state, state0, np.real(np.diag(self.rho)).tolist()))
    AugmentedFSSH.surface_hopping = wrapped_sh
    try:
        cls = getattr(mudslide, spec["cls"])
        extra = {"max_electronic_dt": spec["max_edt"]} if "max_edt" in spec else {}
        if spec.get("zetas") is not None:
            extra["zeta_list"] = [float(z) for z in spec["zetas"]]
        t = cls(model, x0, p0, rho0, state0=0, dt=spec["dt"], max_steps=spec["steps"], seed_sequence=spec["seed"],
                electronic_integration=spec["integ"], **extra)
        tr = t.simulate()
    finally:
        TrajectorySH.hop_to_it = orig
        AugmentedFSSH.surface_hopping = orig_sh
    problems = list(collapse_problems[:2])
    pure = spec["rho"] in ("pure", "basis")
    collapsed = {e["time"] for e in tr.events.get("collapse", [])} if hasattr(tr, "events") else set()
    # Hermiticity and unit trace are exact for both integrators (Lean: conj_hermitian/conj_trace, rk4_hermitian/rk4_trace):
    # judged strictly. Positivity / populations / purity: strictly too; for linear-rk4 a deviation is then examined below
    defect, defect_at = 0.0, None
    for s in tr:
        rho = s["density_matrix"]
        if not np.all(np.isfinite(rho)):
            problems.append("t=%r: the density matrix is not finite (NaN/inf entries)" % (s["time"],))
            break
        herm = float(np.max(np.abs(rho - rho.conj().T)))
        size = max(1.0, float(np.max(np.abs(rho))))       # (an unstable RK4 run grows: the exact invariants are judged relative to |rho|)
        if herm > 1e-9 * size or abs(np.trace(rho) - 1) > 1e-9 * size:
            problems.append("t=%r: Hermiticity error %.3g, trace %r" % (s["time"], herm, np.trace(rho)))
            break
        ev = np.linalg.eigvalsh(0.5 * (rho + rho.conj().T))
        d = max(0.0, -float(ev.min()), float(ev.max()) - 1.0)
        if pure and not collapsed:
            d = max(d, abs(float(np.real(np.trace(rho @ rho))) - 1.0))
        if d > defect:
            defect, defect_at = d, s["time"]
    rk4_truncation = None
    # an UNSTABLE RK4 run (|H_eff| x sub-step beyond the stability limit 2.8: near-degenerate levels of a random model, coupling 1/gap)
    # grows until it overflows: "not finite" is then the same defect in its extreme form (thorough seed 83) and is examined in the same
    # way - Hermiticity and trace held (relative to |rho|) up to the overflow, and the defect vanishes under refinement
    nonfinite_only = bool(problems) and all("not finite" in p_ for p_ in problems)
    if defect > 1e-9 or nonfinite_only:
        msg = "t=%r: positivity/purity defect %.3g (negative eigenvalue, population outside [0,1] or tr rho^2 != 1)" % (defect_at, defect)
        if spec["integ"] == "linear-rk4" and (not problems or nonfinite_only) and not spec.get("_refining"):
            # is this the truncation error of the (non-unitary) RK4 scheme - Lean witness rk4_purity_witness - and nothing else?
            # then it vanishes when the electronic sub-step is refined (4th order); any other cause does not
            rk4_truncation = False
            e0 = float(spec.get("max_edt", 0.1))
            for k in (4.0, 16.0, 64.0):
                sub = dict(spec, max_edt=e0 / k, _refining=True)
                ok2, obs2, _r, _t = oracle_run(sub)
                if "exception" in obs2:
                    break
                if ok2 or (not obs2.get("strict_problems") and obs2.get("defect", 1.0) <= max(1e-9, min(defect, 1.0) / 16.0)):
                    rk4_truncation = True
                    break
        if defect > 1e-9:
            problems.append(msg)
    if records and max(records) != 0.0:
        problems.append("a hop attempt changed the density matrix by %.3g" % max(records))
    strict = [p for p in problems if "positivity/purity defect" not in p and not (rk4_truncation and "not finite" in p)]
    return not problems, {"snapshots": len(tr), "hop_attempts": len(records), "collapses": len(collapsed),
                          "collapses_in_hop_steps": collapse_info["with_hop"], "defect": defect, "strict_problems": strict[:2],
                          "only_rk4_truncation": bool(rk4_truncation) and not strict, "problems": problems[:2]}, \
        {"problems": []}, "; ".join(problems[:2]) or "ok"


@safe_oracle
def oracle_collapse(args):
    """an A-FSSH collapse replaces the density matrix by the pure active state (and zeroes the moments)"""
    import mudslide
    rng = np.random.Generator(np.random.PCG64(args["seed"]))
    c = ec.elec_case(rng, N=2, n=int(args["n"]), rho_kind="pure")
    t = ec.make_traj(c, "exp", cls="AugmentedFSSH")
    t.state = int(args["state"])
    t.rho = np.array(c["rho"])
    if args.get("eps") is not None:
        # the state that is removed holds only eps of the population (1e-12 .. 1e-4): the collapse still has to leave EXACTLY the
        # pure active state - the coherence sqrt(eps) is what would survive a skipped reset
        eps = float(args["eps"])
        a_ = int(args["state"])
        r_ = np.zeros((2, 2), dtype=complex)
        r_[a_, a_] = 1.0 - eps
        r_[1 - a_, 1 - a_] = eps
        r_[a_, 1 - a_] = np.sqrt(eps * (1.0 - eps)) * np.exp(0.7j)
        r_[1 - a_, a_] = np.conj(r_[a_, 1 - a_])
        t.rho = r_
    t.delR += rng.normal(size=t.delR.shape)
    t.delP += rng.normal(size=t.delP.shape)
    t.gamma_collapse = lambda electronics=None: np.array([2.0, 2.0])       # force the collapse branch
    t.hopper = lambda g: []
    if args.get("hop"):
        # hop attempt and collapse in the same call: the collapse projects onto the state active AFTER the attempt
        t.hopper = lambda g: [{"target": 1 - int(args["state"]), "weight": 1.0, "zeta": 0.1, "prob": 0.5}]
        t.rho = np.zeros((2, 2), dtype=complex)
        t.rho[int(args["state"]), int(args["state"])] = 1.0
    e0, e1 = ec.elecs(c)
    e1._fm = np.zeros((2, 2, c["n"]))
    t.surface_hopping(e0, e1)
    want = np.zeros((2, 2), dtype=complex)
    want[t.state, t.state] = 1.0
    ok = np.array_equal(t.rho, want) and not np.any(t.delR) and not np.any(t.delP) and len(t.tracer.events.get("collapse", [])) == 1
    return ok, {"rho": t.rho, "events": len(t.tracer.events.get("collapse", [])), "hopped": int(t.state != int(args["state"]))}, {"rho": want}, \
        "after a collapse rho is not the pure active state / moments not zero / event not recorded"


WITNESS = dict(N=2, n=1, mass=[1.0], dt=1.0, H0=[[0.0, 0.0], [0.0, 0.0]], H1=[[0.0, 0.0], [0.0, 0.0]],
               d0=[[[0.0], [1.0]], [[-1.0], [0.0]]], d1=[[[0.0], [1.0]], [[-1.0], [0.0]]], v0=[0.5], v1=[0.5],
               rho=[[1.0, 0.0], [0.0, 0.0]], kind="basis")


@safe_oracle
def oracle_rk4_witness(args):
    """replay of the Lean counterexample `Mud.C02.rk4_purity_witness` on the implementation: ONE linear-rk4 step (dt = 1, one
    sub-step) from |0><0| with a degenerate zero Hamiltonian and the constant coupling tau.v = [[0, 1/2], [-1/2, 0]].
    The property asks for a pure state; the RK4 scheme gives tr rho^2 = 1145/1152"""
    c = {k: (np.array(v) if isinstance(v, list) else v) for k, v in WITNESS.items()}
    c["rho"] = np.array(c["rho"], dtype=np.complex128)
    t = ec.make_traj(c, "linear-rk4", max_electronic_dt=float(args.get("max_edt", 1.0)), starting_electronic_intervals=1)
    e0, e1 = ec.elecs(c)
    t.propagate_electronics(e0, e1, 1.0)
    rho = np.array(t.rho)
    pur = float(np.real(np.trace(rho @ rho)))
    herm = float(np.max(np.abs(rho - rho.conj().T)))
    ok = abs(pur - 1.0) <= 1e-9
    return ok, {"purity": pur, "trace": complex(np.trace(rho)), "hermiticity_error": herm, "rho": rho,
                "equals_lean_witness": abs(pur - 1145.0 / 1152.0) <= 1e-12 and abs(np.trace(rho) - 1) <= 1e-12 and herm <= 1e-12}, \
        {"purity": 1.0}, "after one linear-rk4 step from a pure state tr rho^2 = %.15g (Lean witness: 1145/1152 = %.15g)" % (pur, 1145.0 / 1152.0)


@safe_oracle
def oracle_restart_valid(args):
    """a run that is stopped, restarted from its log and continued: every density matrix logged before AND after the restart is
    a valid state (the step count of a run includes the steps taken after a restart)"""
    from . import c13
    spec = dict(args)
    U, R, n_before, gauge = c13.run_case(spec)
    problems = []
    for which, snaps in (("uninterrupted", U), ("restarted", R)):
        for i, s in enumerate(snaps):
            if "density_matrix" not in s:
                continue
            p = _valid_state(np.asarray(s["density_matrix"]), tol=1e-9)
            if p:
                problems.append("%s run, snapshot %d (%s the restart at %d): %s" % (which, i, "after" if i >= n_before else "before", n_before, "; ".join(p)))
                break
    return not problems, {"snapshots": len(R), "restart_at": n_before, "problems": problems[:2]}, {"problems": []}, "; ".join(problems[:2]) or "ok"


ORACLES = {"restart_valid": oracle_restart_valid, "rk4_witness": oracle_rk4_witness, "step": oracle_step, "run": oracle_run, "collapse": oracle_collapse}


def _rk4_blowup_behind_exception(spec, obs):
    """a linear-rk4 run that RAISED (A-FSSH asserts on its moments, eigh refuses NaN, ...): is it the listed finding - the RK4 scheme
    leaving its stability region, rho growing without bound, everything downstream going to inf/NaN - and nothing else? Then the
    same run with a finer electronic sub-step is completely valid (thorough seed 81: |rho| = 2253 after 210 steps with masses ~2,
    moments NaN, `assert` in direction_of_rescale; valid at max_electronic_dt / 64)"""
    if "exception" not in obs or spec.get("integ") != "linear-rk4":
        return False
    e0 = float(spec.get("max_edt", 0.1))
    for k in (4.0, 16.0, 64.0, 256.0):
        ok2, obs2, _r, _t = oracle_run(dict(spec, max_edt=e0 / k, _refining=True))
        if ok2:
            return True
    return False


def run(ctx):
    ctx.rule = ("single propagate_electronics calls on fake electronics with N=2..8 states, n=1..3 dims, pure/mixed/basis "
                "rho, dt 0.1..20, both integrators (eigh output captured and handed to the model); whole runs of all classes "
                "on synthetic multi-state models and built-ins (incl. Shin-Metiu with linear-rk4) with coherent and mixed "
                "initial states. Non-trivial = N>=3 or coherent rho or linear-rk4; distinct by (integrator, N, rho kind, decade of dt)")
    ctx.assumptions += ["numpy.linalg.eigh is a parameter of the model (its output is captured); contract monitored: "
                        "||C^H C - 1||, ||W C - C diag||",
                        "linear-rk4 preserves positivity/purity only up to its truncation error: no exact theorem exists (partial)"]
    ctx.fingerprints["mudslide/trajectory_sh.py"] = fingerprint(
        "mudslide/trajectory_sh.py", ["hamiltonian_propagator", "propagate_electronics"])
    ctx.fingerprints["mudslide/propagation.py"] = fingerprint("mudslide/propagation.py", ["rk4"])
    ctx.proofs()
    rng = ctx.rng
    cases, lines, meta = [], [], []
    nrandom = ctx.budget(120, 6000)
    for i in range(nrandom + 1):
        c = ec.elec_case(rng)
        integ = ["exp", "linear-rk4"][i % 2]
        topts = {}
        if i == nrandom:
            # the input of the Lean counterexample rk4_purity_witness: implementation and model driver on the same step
            c = {k: (np.array(v) if isinstance(v, list) else v) for k, v in WITNESS.items()}
            c["rho"] = np.array(c["rho"], dtype=np.complex128)
            integ, topts = "linear-rk4", {"max_electronic_dt": 1.0, "starting_electronic_intervals": 1}
        t = ec.make_traj(c, integ, **topts)
        e0, e1 = ec.elecs(c)
        W = t.hamiltonian_propagator(e0, e1)
        with ec.EighCapture() as cap:
            t.propagate_electronics(e0, e1, c["dt"])
        ctx.monitor("eigh_orthonormality", cap.worst_orth)
        ctx.monitor("eigh_residual_rel", cap.worst_resid)
        N, n = c["N"], c["n"]
        lines.append(["hamprop", N, n] + fbs(c["H1"]) + fbs(c["H0"]) + fbs(c["d1"]) + fbs(c["d0"]) + fbs(c["v1"]) + fbs(c["v0"]))
        meta.append(("hamprop", c, W, integ))
        if not cap.calls and integ != "exp":
            # the rk4 step did not go through numpy.linalg.eigh (some shortcut): the model cannot be fed LAPACK's result;
            # the state it produced is judged by the oracle alone
            ctx.corr_mismatch(integ + "step", {"N": N, "dt": c["dt"]}, "propagate_electronics(%s) did not call numpy.linalg.eigh" % integ)
            ok_, obs_, req_, text_ = oracle_step({"case": c, "integ": integ})
            if not ok_:
                ctx.oracle_fail("invalid-state-after-step:" + integ, "step", {"case": c, "integ": integ}, obs_, req_, text_)
            continue
        # exp: the propagator exp(-i W dt) is independent of the eigenbasis, so a step that obtained it without
        # numpy.linalg.eigh is compared through the harness's own decomposition of the (already compared) generator W
        a, w, cf = ec.first_eigh(cap, "propagate_electronics", W=W)
        if integ == "exp":
            lines.append(["expstep", N] + fbs(w) + cbs(cf) + [fb(c["dt"])] + cbs(c["rho"]))
        else:
            lines.append(["rk4step", N, n] + fbs(w) + fbs(cf) + fbs(c["H0"]) + fbs(c["H1"]) + fbs(c["d0"]) + fbs(c["d1"]) +
                         fbs(c["v0"]) + fbs(c["v1"]) + [fb(c["dt"]), fb(t.max_electronic_dt), int(t.starting_electronic_intervals)] +
                         cbs(c["rho"]))
        meta.append((integ, c, np.array(t.rho), integ))
    outs = ctx.model.run(lines)
    for (kind, c, want, integ), o in zip(meta, outs):
        N = c["N"]
        if kind == "hamprop":
            got = ec.parse_cmat(o[1:], N)
            if o[0] != "ok" or not allclose(np.concatenate([got.real.ravel(), got.imag.ravel()]),
                                            np.concatenate([want.real.ravel(), want.imag.ravel()]), float(np.max(np.abs(want)))):
                ctx.corr_mismatch("hamprop", c, "W differs")
            continue
        toks = o[1:] if kind == "exp" else o[2:]
        got = ec.parse_cmat(toks, N)
        import math
        ctx.case((kind, N, c["kind"], int(math.floor(math.log10(c["dt"])))) if (N >= 3 or c["kind"] != "basis" or kind != "exp") else None,
                 {"op": kind, "N": N, "dt": c["dt"], "rho_kind": c["kind"], "impl_rho_diag": np.real(np.diag(want)),
                  "model_rho_diag": np.real(np.diag(got))})
        ctx.count("step:" + kind)
        if o[0] != "ok" or not allclose(np.concatenate([got.real.ravel(), got.imag.ravel()]),
                                        np.concatenate([want.real.ravel(), want.imag.ravel()]), 1.0, rtol=1e-9):
            ctx.corr_mismatch(kind + "step", c, "rho' differs: model diag %r impl diag %r" % (np.diag(got), np.diag(want)))
        if c.get("kind") == "basis" and c["dt"] == 1.0 and N == 2 and not np.any(c["H0"]):
            pur = float(np.real(np.trace(got @ got)))
            ctx.monitor("model_driver_purity_on_lean_witness_minus_1145/1152", abs(pur - 1145.0 / 1152.0))
            if abs(pur - 1145.0 / 1152.0) > 1e-12:
                ctx.corr_mismatch("rk4-witness", {}, "model driver gives tr rho^2 = %r on the witness input, Lean proves 1145/1152" % pur)
            continue
        ok, obs, req, text = oracle_step({"case": c, "integ": integ})
        if not ok:
            ctx.oracle_fail("rk4-not-unitary" if obs.get("only_rk4_truncation") else "invalid-state-after-step:" + integ, "step",
                            {"case": c, "integ": integ}, obs, req, text)

    # the Lean counterexample to purity under linear-rk4, replayed on the implementation and on the model driver
    ok, obs, req, text = oracle_rk4_witness({})
    ctx.case(("rk4-witness",), {"op": "rk4-witness", "impl_purity": obs["purity"], "lean_purity": 1145.0 / 1152.0})
    if not ok:
        ctx.oracle_fail("rk4-not-unitary" if obs.get("equals_lean_witness") else "rk4-witness-other", "rk4_witness", {}, obs, req, text)
    # corpus: inputs found by earlier thorough runs (seed 77) on which the RK4 defect is large
    for spec in ({"cls": "TrajectorySH", "N": 2, "n": 1, "model_seed": 237721, "seed": 517071, "dt": 0.5, "steps": 150, "integ": "linear-rk4", "rho": "basis"},):
        ok, obs, req, text = oracle_run(spec)
        ctx.case(("run-corpus", spec["cls"]))
        if not ok:
            ctx.oracle_fail("rk4-not-unitary" if obs.get("only_rk4_truncation") else "invalid-state-in-run:%s:%s" % (spec["cls"], spec["integ"]),
                            "run", spec, obs, req, text)

    classes = ["TrajectorySH", "TrajectoryCum", "Ehrenfest", "AugmentedFSSH", "EvenSamplingTrajectory"]
    for i in range(ctx.budget(12, 200)):
        cls = classes[i % 4]
        spec = dict(cls=cls, N=2 if cls == "AugmentedFSSH" else int(rng.integers(2, 5)), n=int(rng.integers(1, 3)),
                    model_seed=int(rng.integers(1, 10 ** 6)), seed=int(rng.integers(1, 10 ** 6)), dt=float(rng.choice([0.25, 0.5])),
                    steps=int(ctx.budget(80, 300)), integ=["exp", "linear-rk4"][(i // 4) % 2], rho=["pure", "mixed", "basis"][i % 3])
        ok, obs, req, text = oracle_run(spec)
        ctx.case(("run", cls, spec["integ"], spec["rho"]))
        ctx.count("run:%s:%s" % (cls, spec["integ"]))
        if "hop_attempts" in obs:
            ctx.count("hop_attempts_in_runs", obs["hop_attempts"])
        if not ok:
            # the listed finding is exactly: linear-rk4, Hermiticity and trace exact, and the positivity/purity defect vanishes
            # when the electronic sub-step is refined (truncation error of the non-unitary RK4 scheme); anything else is not it
            sig = "rk4-not-unitary" if (obs.get("only_rk4_truncation") or _rk4_blowup_behind_exception(spec, obs)) \
                else "invalid-state-in-run:%s:%s" % (cls, spec["integ"])
            ctx.oracle_fail(sig, "run", spec, obs, req, text)
        if obs.get("defect") is not None and spec["integ"] == "linear-rk4":
            ctx.monitor("max_rk4_positivity_purity_defect_in_runs", float(obs["defect"]))
    # Shin-Metiu (AdiabaticModel_) with the interpolating integrator
    for i in range(ctx.budget(1, 6)):
        spec = dict(cls="TrajectorySH", builtin="shin-metiu", x0=[-2.0 + 0.3 * i], p0=[15.0], model_seed=1, seed=3, dt=5.0,
                    steps=int(ctx.budget(6, 25)), integ="linear-rk4", rho="basis")
        ok, obs, req, text = oracle_run(spec)
        ctx.case(("run", "shin-metiu", "linear-rk4"))
        ctx.count("run:shin-metiu:linear-rk4")
        if not ok:
            ctx.oracle_fail("adiabatic-model-coupling-diagonal" if "Hermiticity" in text else "invalid-state-in-run:shin-metiu",
                            "run", spec, obs, req, text)
    # more kept states than the default three (the couplings of an AdiabaticModel_ beyond 3 states), coherent start, both integrators;
    # and a run started exactly ON a degeneracy (conical intersection of the linear vibronic model with E1 == E2)
    for i in range(ctx.budget(4, 16)):
        if i % 2 == 0:
            spec = dict(cls=["TrajectorySH", "Ehrenfest"][(i // 2) % 2], builtin="shin-metiu", kwargs={"nstates": int(rng.integers(4, 7)), "nel": 32},
                        x0=[float(rng.uniform(-4, 4))], p0=[float(rng.uniform(10, 20))], model_seed=int(rng.integers(1, 10 ** 6)), seed=3, dt=4.0,
                        steps=int(ctx.budget(8, 25)), integ=["linear-rk4", "exp"][(i // 4) % 2], rho="pure")
        else:
            p_ = [0.0, 0.0, 0.0, 0.0, float(rng.choice([-1.0, 1.0]) * 10 ** rng.uniform(-3, 0))]
            spec = dict(cls=["TrajectorySH", "Ehrenfest", "TrajectoryCum"][(i // 2) % 3], builtin="vibronic", kwargs={"E1": 9.0, "E2": 9.0},
                        x0=[0.0] * 5, p0=p_, model_seed=int(rng.integers(1, 10 ** 6)), seed=3, dt=float(rng.choice([0.5, 2.0])),
                        steps=int(ctx.budget(10, 30)), integ="exp", rho="pure")
            # (exponential integrator only: ON the intersection the regularised coupling is ~5e8, far beyond the stability bound of
            # the RK4 scheme whatever the sub-step - the listed finding rk4-not-unitary in its most extreme form, not judged again)
        ok, obs, req, text = oracle_run(spec)
        ctx.case(("run", spec["builtin"], spec["integ"], spec["cls"]))
        ctx.count("run:%s:%s" % (spec["builtin"], spec["integ"]))
        if not ok:
            sig = "rk4-not-unitary" if obs.get("only_rk4_truncation") else "invalid-state-in-run:%s:%s" % (spec["builtin"], spec["integ"])
            ctx.oracle_fail(sig, "run", spec, obs, req, text)
    # the DIABATIC representation (no derivative coupling at all) with hop attempts at every step that has a positive rate, both
    # integrators: attempts - accepted or not - leave the electronic data of the step, hence the next generator, as they are
    # (with no coupling vector there is nothing to rescale along: an attempt towards a HIGHER diabat is rejected, one towards a lower
    # diabat raises LinAlgError in np.roots on the pinned tree - outside what C02 speaks about; the runs below stay where the active
    # diabat is the lowest one: x < 0 on the simple avoided crossing, everywhere on the super-exchange model)
    for i in range(ctx.budget(4, 24)):
        spec = dict(cls="TrajectorySH", builtin=["simple", "super"][i % 2], kwargs={"representation": "diabatic"},
                    x0=[float(-rng.uniform(3.0, 3.4))], p0=[float(rng.uniform(22, 29))], model_seed=int(rng.integers(1, 10 ** 6)), seed=7,
                    dt=2.0, steps=95, integ=["linear-rk4", "exp"][(i // 2) % 2], rho="basis", zetas=[1.0] * 20 + [1e-12] * 100)
        if spec["builtin"] == "super":
            spec.update(x0=[float(-rng.uniform(4.0, 6.0))], p0=[float(rng.uniform(8, 20))], steps=int(rng.integers(150, 400)), dt=5.0,
                        zetas=[1.0] * 20 + [1e-12] * 500)
        ok, obs, req, text = oracle_run(spec)
        ctx.case(("run-diabatic-attempts", spec["builtin"], spec["integ"], int(obs.get("hop_attempts", 0)) > 0))
        ctx.count("run_diabatic_with_forced_attempts:" + spec["integ"])
        ctx.count("hop_attempts_in_the_diabatic_representation", int(obs.get("hop_attempts", 0)))
        if not ok:
            sig = "rk4-not-unitary" if obs.get("only_rk4_truncation") else "invalid-state-in-run:%s:%s" % (spec["builtin"], spec["integ"])
            ctx.oracle_fail(sig, "run", spec, obs, req, text)
    # stop / restart from the log / continue, with mixed and pure initial states
    for i in range(ctx.budget(6, 80)):
        K = int(rng.integers(6, 14))
        a = dict(cls=["Ehrenfest", "TrajectorySH"][i % 2], N=int(rng.integers(2, 4)), n=int(rng.integers(1, 3)), model_seed=int(rng.integers(1, 10 ** 6)),
                 dt=float(rng.choice([2.0, 5.0])), t0=0.0, K=K, k=int(rng.integers(2, K - 1)), rule="max_steps", pitch=int(rng.integers(1, 9)),
                 zetas=[float(v) for v in 0.2 + 0.8 * rng.random(K + 4)], rho=["mixed", "mixed", "pure"][i % 3])
        ok, obs, req, text = oracle_restart_valid(a)
        ctx.case(("restart-valid", a["cls"], a["rho"]))
        ctx.count("restart_valid_runs")
        if not ok:
            ctx.oracle_fail("invalid-state-after-restart:" + a["cls"], "restart_valid", a, obs, req, text)
    for i in range(ctx.budget(24, 400)):
        a = {"seed": int(rng.integers(1, 10 ** 6)), "n": int(rng.integers(1, 4)), "state": i % 2, "hop": i >= 8}
        if i % 4 == 1 and not a["hop"] or i % 8 == 5:
            a["hop"] = False
            a["eps"] = float(10 ** rng.uniform(-12, -4))
        ok, obs, req, text = oracle_collapse(a)
        ctx.case(("collapse", a["n"], a["state"], a["hop"], int(obs["hopped"])))
        ctx.count("collapse")
        ctx.count("collapse_in_the_step_of_an_accepted_hop", int(obs["hopped"]))
        if not ok:
            ctx.oracle_fail("collapse", "collapse", a, obs, req, text)

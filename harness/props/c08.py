# -*- coding: utf-8 -*-
"""C08 — Ehrenfest: mean-field potential and force, no hops, energy conservation."""
import numpy as np

from ..core import fb, fbs, cbs, unfb, close, allclose, fingerprint, safe_oracle
from ..synth import FakeElec, ShellModel, SynthModel, random_rho
from .. import runcommon as rc


def _traj(N, n, rho, mass, state=0, dt=1.0):
    from mudslide.ehrenfest import Ehrenfest
    return Ehrenfest(ShellModel(N, mass), np.zeros(n), np.zeros(n), np.array(rho), state0=state, dt=dt)


def _case(rng):
    N = int(rng.integers(2, 8))
    n = int(rng.integers(1, 5))
    rho = random_rho(rng, N, ["pure", "mixed", "basis"][int(rng.integers(0, 3))])
    tiny = rng.random() < 0.2
    if tiny:
        # a coherent state with populations of 1e-9 .. 1e-5 on all but one state: those states still carry force
        amp = np.sqrt(10 ** rng.uniform(-9, -5, size=N)) * np.exp(2j * np.pi * rng.random(N))
        amp[int(rng.integers(0, N))] = 1.0
        amp = amp / np.linalg.norm(amp)
        rho = np.outer(amp, amp.conj())
    H = np.diag(np.sort(rng.normal(size=N)) * 0.1)
    if rng.random() < 0.5:
        # a non-diagonal electronic Hamiltonian (diabatic representation): tr(rho H) has a coherence part
        off = rng.normal(size=(N, N)) * 0.05
        H = H + np.triu(off, 1) + np.triu(off, 1).T
    FM = rng.normal(size=(N, N, n)) * 0.05
    if tiny:
        FM = FM * 1e4                      # steep surfaces on the barely populated states
    FM = 0.5 * (FM + np.transpose(FM, (1, 0, 2)))
    F = np.array([FM[i, i, :] for i in range(N)])
    return dict(N=N, n=n, rho=rho, H=H, FM=FM, F=F, mass=10 ** rng.uniform(0, 4, size=n))


def impl_pf(c):
    t = _traj(c["N"], c["n"], c["rho"], c["mass"])
    e = FakeElec(np.diag(np.array(c["H"])), forces=np.array(c["F"]), force_matrix=np.array(c["FM"]), H=np.array(c["H"]))
    return float(t.potential_energy(e)), np.array(t._force(e))


@safe_oracle
def oracle_force(args):
    """potential = Re tr(rho H); nuclear force = -tr(rho grad H) = sum_ij Re(rho_ij) FM_ji including coherences"""
    c = {k: (np.array(v) if isinstance(v, (list, np.ndarray)) else v) for k, v in args.items()}
    pot, force = impl_pf(c)
    rho, H, FM = np.array(c["rho"]), np.array(c["H"]), np.array(c["FM"])
    wantp = float(np.real(np.trace(rho @ H)))
    wantf = np.real(np.einsum("ij,jix->x", rho, FM))
    # scale of the comparison: the size of the terms that are summed, sum_ij |rho_ij| |FM_ji| (not the largest force entry:
    # a barely populated state on a steep surface contributes little, and must still be counted)
    sc = float(np.max(np.einsum("ij,jix->x", np.abs(rho), np.abs(FM)))) + 1e-300
    okp = close(pot, wantp, float(np.max(np.abs(H))))
    okf = allclose(force, wantf, sc, rtol=1e-11)
    pinned = np.real(np.einsum("ii,iix->x", rho, FM))
    return okp and okf, {"potential": pot, "force": force, "is_population_weighted_force": allclose(force, pinned, sc, rtol=1e-11)}, \
        {"potential": wantp, "force": wantf}, \
        "Ehrenfest force %r differs from the mean-field force -tr(rho grad H) = %r (coherence term missing)" % (force.tolist(), wantf.tolist()) \
        if not okf else ("potential differs from tr(rho H)" if not okp else "ok")


def _run(spec, dt, steps):
    from mudslide.ehrenfest import Ehrenfest
    rng = np.random.Generator(np.random.PCG64(spec["model_seed"]))
    if spec.get("builtin"):
        import mudslide
        model = mudslide.models.scattering_models[spec["builtin"]](representation=spec.get("representation", "adiabatic"))
        rho0 = np.zeros((model.nstates(), model.nstates()), dtype=np.complex128)
        rho0[spec["state"], spec["state"]] = 1.0
    else:
        model = SynthModel(rng, spec["N"], spec["n"], scale=spec.get("scale", 0.03), gap=0.01, representation=spec.get("representation", "adiabatic"))
        rho0 = random_rho(rng, spec["N"], "pure")
    t = Ehrenfest(model, np.array(spec["x0"]), np.array(spec["p0"]), rho0, state0=spec["state"], dt=dt, max_steps=steps,
                  electronic_integration=spec.get("integ", "exp"))
    forces = []
    orig = t._force

    def spy(electronics=None):
        f = orig(electronics)
        el = electronics if electronics is not None else t.electronics
        forces.append((np.array(f), np.real(np.einsum("ij,jix->x", t.rho, el.force_matrix())),
                       np.real(np.einsum("ii,iix->x", t.rho, el.force_matrix()))))
        return f
    t._force = spy
    tr = t.simulate()
    return list(tr), forces


@safe_oracle
def oracle_run(args):
    """along a real Ehrenfest run: active label constant, potential = tr(rho H) in every snapshot, the force used by the
    integrator equals -tr(rho grad H) assembled from force_matrix(), and KE + tr(rho H) drifts by an amount that
    shrinks with the time step"""
    spec = dict(args)
    snaps, forces = _run(spec, spec["dt"], spec["steps"])
    problems = []
    if len({s["active"] for s in snaps}) != 1:
        problems.append("active label changed")
    for s in snaps:
        Hm = np.array(s["electronics"]["hamiltonian"])
        if not close(s["potential"], float(np.real(np.trace(s["density_matrix"] @ Hm))), float(np.max(np.abs(Hm)))):
            problems.append("potential != tr(rho H) at t=%r" % s["time"])
            break
        if not close(s["energy"], s["potential"] + s["kinetic"], abs(s["kinetic"]) + abs(s["potential"])):
            problems.append("energy != kinetic + potential")
            break
    worst = max(float(np.max(np.abs(a - b))) for a, b, _c in forces)
    fs = max(float(np.max(np.abs(b))) for a, b, _c in forces)
    force_ok = worst <= 1e-9 * fs + 1e-14
    is_pinned = max(float(np.max(np.abs(a - c))) for a, _b, c in forces) <= 1e-9 * fs + 1e-14
    e = np.array([s["energy"] for s in snaps])
    d1 = float(np.max(np.abs(e - e[0])))
    snaps2, _ = _run(spec, spec["dt"] / 2, spec["steps"] * 2)
    e2 = np.array([s["energy"] for s in snaps2])
    d2 = float(np.max(np.abs(e2 - e2[0])))
    ke = max(abs(s["kinetic"]) for s in snaps) + 1e-300
    drift_ok = d1 <= 1e-10 * ke or d2 <= 0.6 * d1
    # the two electronic integrators approximate the same equation: on the same run their final density matrices differ by a
    # discretisation error that shrinks with dt (second order -> x0.25). Judged grossly: a difference that is sizeable AND does not
    # shrink means one of them integrates something else (this is independent of the listed force finding)
    balance_ok, r1, r2 = True, 0.0, 0.0
    if spec.get("integ") == "linear-rk4":
        other = dict(spec, integ="exp")
        o1, _ = _run(other, spec["dt"], spec["steps"])
        o2, _ = _run(other, spec["dt"] / 2, spec["steps"] * 2)
        r1 = float(np.max(np.abs(np.asarray(o1[-1]["density_matrix"]) - np.asarray(snaps[-1]["density_matrix"]))))
        r2 = float(np.max(np.abs(np.asarray(o2[-1]["density_matrix"]) - np.asarray(snaps2[-1]["density_matrix"]))))
        if r2 > 0.02 and r2 > 0.75 * r1:
            # confirm at a third level before judging (a run through a near-degeneracy is not asymptotic at dt yet)
            o3, _ = _run(other, spec["dt"] / 4, spec["steps"] * 4)
            s3, _ = _run(spec, spec["dt"] / 4, spec["steps"] * 4)
            r3 = float(np.max(np.abs(np.asarray(o3[-1]["density_matrix"]) - np.asarray(s3[-1]["density_matrix"]))))
            balance_ok = not (r3 > 0.02 and r3 > 0.75 * r2)
            if not balance_ok:
                # ... and only if the exponential integrator itself is in its asymptotic regime on this run: its own final rho must
                # settle under step halving. (Thorough seed 85: a random 4-state model with a very light particle - the final density
                # matrix of EITHER integrator still changes by O(1) at every halving down to dt/64; the entries carry phases E t with
                # energies of order 100, nothing is converged, and "the two integrators differ" says nothing.)
                e12 = float(np.max(np.abs(np.asarray(o1[-1]["density_matrix"]) - np.asarray(o2[-1]["density_matrix"]))))
                e23 = float(np.max(np.abs(np.asarray(o2[-1]["density_matrix"]) - np.asarray(o3[-1]["density_matrix"]))))
                if e23 > 0.02 and e23 > 0.6 * e12:
                    balance_ok = True
                    spec["_not_asymptotic"] = (e12, e23)
    return (not problems) and force_ok and drift_ok and balance_ok, \
        {"max_force_deviation": worst, "drift_dt": d1, "drift_dt/2": d2, "problems": problems[:2],
         "force_ok": force_ok, "drift_ok": drift_ok, "is_population_weighted_force": is_pinned,
         "balance_residual_dt": r1, "balance_residual_dt/2": r2, "balance_ok": balance_ok,
         "integrator_comparison_not_judged_exp_not_asymptotic": list(spec["_not_asymptotic"]) if spec.get("_not_asymptotic") else None}, \
        {"max_force_deviation": 0.0, "drift ratio": "<= 0.6 (second order: 0.25)"}, \
        ("force used differs from -tr(rho grad H) by %.3g; " % worst if not force_ok else "") + \
        ("energy drift %.3g at dt, %.3g at dt/2 (does not vanish with dt); " % (d1, d2) if not drift_ok else "") + \
        ("final rho of linear-rk4 and exp differ by %.3g at dt and %.3g at dt/2 (does not vanish with dt); " % (r1, r2)
         if not balance_ok else "") + "; ".join(problems)


@safe_oracle
def oracle_restart(args):
    """an Ehrenfest run stopped in a mixed state, restarted from its log with Ehrenfest.restart and continued IS an Ehrenfest run:
    same class, the label never changes, no hop events, and the logged potential is tr(rho H) in every continued snapshot"""
    import mudslide
    import tempfile
    import shutil
    rep = args.get("representation", "adiabatic")
    model = mudslide.models.scattering_models[args["model"]](representation=rep)
    k, K, dt = int(args["k"]), int(args["K"]), float(args["dt"])
    tmp = None
    problems = []
    try:
        kw = {}
        if args.get("store") == "yaml":
            tmp = tempfile.mkdtemp(prefix="verif-c08-")
            kw["tracer"] = mudslide.YAMLTrace(base_name="t", location=tmp, log_pitch=int(args.get("pitch", 4)))
        first = mudslide.Ehrenfest(model, np.array([args["x0"]]), np.array([args["p0"]]), 0, dt=dt, max_steps=k, seed_sequence=5, **kw)
        log = first.simulate()
        n0 = len(log)
        r = mudslide.Ehrenfest.restart(model, log, max_steps=K)
        if type(r).__name__ != "Ehrenfest":
            problems.append("Ehrenfest.restart returned a %s" % type(r).__name__)
        tr = r.simulate()
        snaps = list(tr)
        for s_ in snaps[n0:]:
            el = mudslide.models.scattering_models[args["model"]](representation=rep).update(np.array(s_["position"], dtype=np.float64))
            Hm = np.asarray(el.hamiltonian())
            want = float(np.real(np.trace(np.asarray(s_["density_matrix"]) @ Hm)))
            # (adiabatic: tr(rho H) does not depend on the eigenvector signs - H is diagonal there)
            if abs(want - s_["potential"]) > 1e-9 * (1e-3 + abs(want)):
                problems.append("t=%r after the restart: logged potential %r, tr(rho H) = %r" % (s_["time"], s_["potential"], want))
                break
        if len({s_["active"] for s_ in snaps}) != 1:
            problems.append("the active label changes after the restart: %r" % sorted({s_["active"] for s_ in snaps}))
        nh = len(tr.hops) if hasattr(tr, "hops") else 0
        if nh:
            problems.append("%d hop events in an Ehrenfest log" % nh)
        if len(snaps) != K + 1:
            problems.append("the combined log has %d snapshots, %d expected" % (len(snaps), K + 1))
    finally:
        if tmp:
            shutil.rmtree(tmp, ignore_errors=True)
    return not problems, {"problems": problems[:3]}, {"problems": []}, "; ".join(problems[:2]) or "ok"


ORACLES = {"restart": oracle_restart, "whole_run": rc.oracle_whole_run, "force": oracle_force, "run": oracle_run}


def run(ctx):
    ctx.rule = ("random (rho, H, force matrix) with N=2..7 states, n=1..4 dims, pure/mixed/basis rho, diagonal and non-diagonal H, handed to the real "
                "Ehrenfest.potential_energy/_force; whole Ehrenfest runs on synthetic multi-state models with coherent initial "
                "states at dt and dt/2, both integrators, adiabatic and diabatic representation. Non-trivial = rho with coherences and off-diagonal forces; distinct by (N, n, rho kind)")
    ctx.assumptions += ["energy conservation 'up to a discretisation error that vanishes with dt' is tested by halving dt "
                        "(a test); the exact balance d/dt(KE+tr rho H) = v.(F_used - F_meanfield) is the Lean theorem energy_rate"]
    ctx.fingerprints["mudslide/ehrenfest.py"] = fingerprint("mudslide/ehrenfest.py", ["potential_energy", "_force", "surface_hopping"])
    ctx.proofs()
    rng = ctx.rng
    cases = [_case(rng) for _ in range(ctx.budget(300, 30000))]
    lines = [["ehrenfest", c["N"], c["n"]] + cbs(c["rho"]) + fbs(c["H"]) + fbs(c["F"]) + fbs(c["FM"]) for c in cases]
    outs = ctx.model.run(lines)
    for c, o in zip(cases, outs):
        n = c["n"]
        mp_ = unfb(o[1])
        pinned = np.array([unfb(t) for t in o[2:2 + n]])
        spec = np.array([unfb(t) for t in o[2 + n:2 + 2 * n]])
        pot, force = impl_pf(c)
        coh = float(np.max(np.abs(c["rho"] - np.diag(np.diag(c["rho"])))))
        ctx.case((c["N"], n, coh > 1e-3) if coh > 1e-3 else None,
                 {"op": "ehrenfest", "N": c["N"], "n": n, "impl_force": force, "model_spec_force": spec,
                  "model_pinned_force": pinned})
        sc = float(np.max(np.einsum("ij,jix->x", np.abs(c["rho"]), np.abs(c["FM"])))) + 1e-300
        if not close(pot, mp_, float(np.max(np.abs(c["H"])))):
            ctx.corr_mismatch("ehrenfest.potential", c, "model %r impl %r" % (mp_, pot))
        if allclose(force, spec, sc, rtol=1e-11):
            ctx.count("force_matches_spec")
        elif allclose(force, pinned, sc, rtol=1e-11):
            ctx.pinned_match("ehrenfest-force-no-coherence", "ehrenfest.force", c,
                             "implementation matches the pinned force (no coherence term), not -tr(rho grad H)")
        else:
            ctx.corr_mismatch("ehrenfest.force", c, "impl %r matches neither spec %r nor pinned %r" % (force, spec, pinned))
        ok, obs, req, text = oracle_force(c)
        if not ok:
            if "exception" in obs:
                sig = "ehrenfest-raised"
            elif not close(obs["potential"], req["potential"], float(np.max(np.abs(c["H"])))):
                sig = "ehrenfest-potential"
            else:
                # the listed finding is exactly "population-weighted force, coherence term missing"; any other wrong
                # force is a different violation
                sig = "ehrenfest-force-no-coherence" if obs["is_population_weighted_force"] else "ehrenfest-force-other"
            ctx.oracle_fail(sig, "force", c, obs, req, text)
    # whole Ehrenfest runs (adiabatic and diabatic representation) against the composed step of the model (MudModel/Step.lean):
    # every snapshot - position, momentum, density matrix, constant label, logged potential = tr(rho H)
    rc.run_correspondence(ctx, ctx.budget(8, 200), hops=False, label="ehrun", cls="Ehrenfest")
    # scattering runs on the built-in models that START IN THE ASYMPTOTIC REGION (coupling ~ 1e-40 there) and then cross the
    # coupling region, in the diabatic representation: the logged potential has to be tr(rho H) all the way
    # stop in a mixed state, restart from the log, continue
    for i in range(ctx.budget(4, 24)):
        Kr = int(rng.integers(40, 60))
        a = dict(model=["simple", "dual"][i % 2], representation=["adiabatic", "diabatic"][(i // 2) % 2], x0=-1.5, p0=float(rng.uniform(10, 25)),
                 dt=10.0, K=Kr, k=int(rng.integers(15, 30)), store=["memory", "yaml"][i % 2], pitch=int(rng.integers(2, 9)))
        ok, obs, req, text = oracle_restart(a)
        ctx.case(("restart", a["model"], a["representation"], a["store"]))
        ctx.count("ehrenfest_restarts")
        if not ok:
            ctx.oracle_fail("ehrenfest-restart", "restart", a, obs, req, text)
    for i in range(ctx.budget(2, 12)):
        spec = dict(builtin=["simple", "dual", "extended"][i % 3], N=2, n=1, model_seed=1, x0=[-10.0], p0=[float(rng.uniform(10, 25))], state=0,
                    dt=20.0, steps=int(rng.integers(80, 140)), integ=["exp", "linear-rk4"][i % 2], representation="diabatic")
        snaps, _f = _run(spec, spec["dt"], spec["steps"])
        ctx.case(("asymptotic-start", spec["builtin"], spec["integ"]))
        ctx.count("runs_from_the_asymptotic_region")
        for sn in snaps:
            Hm = np.array(sn["electronics"]["hamiltonian"])
            want = float(np.real(np.trace(np.asarray(sn["density_matrix"]) @ Hm)))
            if not close(sn["potential"], want, float(np.max(np.abs(Hm))) + 1e-300):
                ok_, obs_, req_, text_ = oracle_run(spec)
                ctx.oracle_fail("ehrenfest-run", "run", spec, obs_, req_, text_ if not ok_ else
                                "potential %r != tr(rho H) = %r at t=%r" % (sn["potential"], want, sn["time"]))
                break
    for i in range(ctx.budget(8, 60)):
        N = int(rng.integers(2, 5))
        n = int(rng.integers(1, 3))
        spec = dict(N=N, n=n, model_seed=int(rng.integers(1, 10 ** 6)), x0=list(rng.normal(size=n) * 0.3),
                    p0=list(rng.normal(size=n) * 8 + 4), state=0, dt=float(rng.choice([2.0, 4.0])), steps=60,
                    integ=["exp", "linear-rk4"][i % 2])
        if (i // 2) % 2 == 1:
            spec["representation"] = "diabatic"
            spec["scale"] = 0.1            # strong diabatic coupling: sizeable population transfer within the run
            spec["N"] = max(N, 3)          # (2x2 eigenvector matrices are symmetric up to signs: transposition slips hide there)
        ok, obs, req, text = oracle_run(spec)
        ctx.case(("run", N, n, spec["integ"], spec.get("representation", "adiabatic")))
        if "balance_residual_dt" in obs:
            ctx.monitor("max_rk4_vs_exp_final_rho_difference_at_dt/2", float(obs["balance_residual_dt/2"]))
        ctx.count("runs")
        if not ok:
            if obs.get("problems"):
                ctx.oracle_fail("ehrenfest-run", "run", spec, obs, req, text)
            pin = obs.get("is_population_weighted_force")
            if obs.get("force_ok") is False:
                ctx.oracle_fail("ehrenfest-force-no-coherence" if pin else "ehrenfest-force-other", "run", spec, obs, req, text)
            if obs.get("drift_ok") is False:
                ctx.oracle_fail("ehrenfest-energy-drift" if (pin and obs.get("force_ok") is False) else "ehrenfest-energy-drift-other",
                                "run", spec, obs, req, text)
            if obs.get("balance_ok") is False:
                ctx.oracle_fail("ehrenfest-integrators-disagree", "run", spec, obs, req, text)
            if "exception" in obs:
                ctx.oracle_fail("ehrenfest-run", "run", spec, obs, req, text)

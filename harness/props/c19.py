# -*- coding: utf-8 -*-
"""C19 — initial-condition generators deliver the requested ensembles."""
import numpy as np

from ..core import fb, fbs, unfb, close, allclose, fingerprint, safe_oracle

KB = 3.166811563455557e-6


def _keys(samples):
    """identity of the seed each sample carries: (entropy, spawn key) of a SeedSequence, or the plain value of anything else"""
    out = []
    for s in samples:
        q = s[3]["seed_sequence"]
        if isinstance(q, np.random.SeedSequence):
            out.append(("seq", str(q.entropy), tuple(int(v) for v in q.spawn_key)))
        else:
            out.append(("plain", repr(q)))
    return out


@safe_oracle
def oracle_boltzmann(args):
    """scaled: KE per degree of freedom is kT/2 (1e-13); unscaled: p = sqrt(m kT) z with the generator's own
    standard normals; one distinct seed sequence per sample; sample i independent of the number requested"""
    import mudslide
    from mudslide.math import boltzmann_velocities
    mass = np.array(args["mass"], dtype=np.float64)
    T, ns, scale = float(args["T"]), int(args["ns"]), bool(args["scale"])
    pos = np.zeros_like(mass)
    # integer-valued masses handed over as an int64 array (a user may well do that) must behave like the same float masses
    mass_in = mass.astype(np.int64) if args.get("int_mass") else mass
    g = mudslide.TrajGenBoltzmann(pos, mass_in, T, 0, scale=scale, seed=args["seed"], momentum_seed=args["mseed"])
    samples = list(g(ns))
    problems = []
    if len(samples) != ns:
        problems.append("%d samples for %d requested" % (len(samples), ns))
    kt = KB * T
    z = np.random.default_rng(args["mseed"]).standard_normal((ns, mass.size))
    for i, (x, p, st, par) in enumerate(samples):
        p = np.asarray(p)
        if scale:
            ke = 0.5 * np.sum(p * p / mass) / mass.size
            if not close(ke, 0.5 * kt, 0.5 * kt, rtol=1e-13):
                problems.append("sample %d: KE per dof %r, kT/2 = %r" % (i, ke, 0.5 * kt))
            raw = np.sqrt(kt * mass) * z[i]
            if not allclose(p / np.linalg.norm(p), raw / np.linalg.norm(raw), 1.0, rtol=1e-12):
                problems.append("sample %d: scaled momenta not parallel to the raw draws" % i)
        else:
            if not allclose(p, np.sqrt(kt * mass) * z[i], float(np.max(np.sqrt(kt * mass))) * 5, rtol=1e-13):
                problems.append("sample %d: p != sqrt(m kT) z" % i)
    keys = _keys(samples)
    if len(set(keys)) != len(keys):
        problems.append("seed sequences not distinct: %r" % (keys,))
    again = list(g(ns))                      # a second batch from the SAME generator object
    if len(set(keys + _keys(again))) != len(keys) + len(again):
        problems.append("a second call of the same generator hands out seed sequences of the first: %r then %r" % (keys[:3], _keys(again)[:3]))
    g2 = mudslide.TrajGenBoltzmann(pos, mass_in, T, 0, scale=scale, seed=args["seed"], momentum_seed=args["mseed"])
    more = list(g2(ns + 3))
    if _keys(more)[:ns] != keys or any(not np.array_equal(a[1], b[1]) for a, b in zip(samples, more)):
        problems.append("sample i changes when more samples are requested")
    # the helper in mudslide.math
    v = boltzmann_velocities(mass_in, T, scale=scale, seed=args["mseed"])
    if not allclose(v * mass, np.asarray(samples[0][1]), float(np.max(np.abs(samples[0][1]))), rtol=1e-13):
        problems.append("math.boltzmann_velocities disagrees with TrajGenBoltzmann on the same seed")
    return not problems, {"nsamples": len(samples), "first_p": samples[0][1], "problems": problems[:3]}, \
        {"ke_per_dof": 0.5 * kt}, "; ".join(problems[:2]) or "ok"


@safe_oracle
def oracle_const_normal(args):
    """const: exactly n identical samples; normal: x = x0 + (sigma/2) z, k = k0 + z/sigma, no negative momentum
    yielded; distinct seed sequences"""
    import mudslide
    ns = int(args["ns"])
    problems = []
    x0, k0 = np.array(args["x0"]), np.array(args["k0"])
    g = mudslide.TrajGenConst(x0, k0, 1, seed=args["seed"])
    s = list(g(ns))
    if len(s) != ns or any(not (np.array_equal(a[0], x0) and np.array_equal(a[1], k0) and a[2] == 1) for a in s):
        problems.append("const generator: %d samples, not all identical" % len(s))
    if len(set(_keys(s))) != len(s):
        problems.append("const generator: seed sequences not distinct")
    s_again = list(g(ns))
    if len(set(_keys(s) + _keys(s_again))) != len(s) + len(s_again):
        problems.append("const generator: a second call hands out the seed sequences of the first again")
    sigma = np.array(args["sigma"])
    if args.get("int_sigma"):
        # an integer-typed width (a python int, an int64 array): the same numbers as the float width
        sigma = np.maximum(1, np.round(sigma)).astype(np.int64)
    sigma_in = (int(sigma.flat[0]) if (args.get("int_sigma") == "scalar" and sigma.size == 1) else sigma)
    g = mudslide.TrajGenNormal(x0, k0, 0, sigma_in, seed=args["seed"], seed_traj=args["tseed"])
    sigma = np.asarray(sigma, dtype=np.float64)
    s = list(g(ns))
    rng = np.random.default_rng(args["tseed"])
    want = []
    for i in range(ns):
        zx = rng.standard_normal(x0.size)
        zk = rng.standard_normal(x0.size)
        x = x0 + 0.5 * sigma * zx
        k = k0 + (1.0 / sigma) * zk
        if not np.any(k < 0.0):
            want.append((x, k, i))
    if len(s) != len(want):
        problems.append("normal generator yielded %d samples, expected %d of %d" % (len(s), len(want), ns))
    else:
        for a, (x, k, i) in zip(s, want):
            if not (allclose(a[0], x, float(np.max(np.abs(x))) + 1, rtol=1e-13) and
                    allclose(a[1], k, float(np.max(np.abs(k))) + 1, rtol=1e-13)):
                problems.append("normal generator: sample differs from centre + deviation*z")
                break
            if np.any(np.asarray(a[1]) < 0):
                problems.append("negative momentum yielded")
    if len(set(_keys(s))) != len(s):
        problems.append("normal generator: seed sequences not distinct")
    big = list(mudslide.TrajGenNormal(x0, k0 + 50.0, 0, sigma, seed=args["seed"], seed_traj=args["tseed"])(6000)) if args.get("big") else []
    kb = _keys(big)
    if len(set(kb)) != len(kb):
        dup = [k for k in set(kb) if kb.count(k) > 1][:1]
        problems.append("normal generator: %d of 6000 samples carry a seed that another sample of the same call carries too (e.g. %r)"
                        % (len(kb) - len(set(kb)), dup))
    s_again = list(g(ns))
    if len(set(_keys(s) + _keys(s_again))) != len(s) + len(s_again):
        problems.append("normal generator: a second call hands out the seed sequences of the first again")
    return not problems, {"yielded": len(s), "problems": problems[:3]}, {"expected": len(want)}, "; ".join(problems[:2]) or "ok"


@safe_oracle
def oracle_samples_after_runs(args):
    """the initial conditions a generator hands out are the REQUESTED ones for every sample, also after the trajectories of the
    earlier samples have been run (a batch runs them one after the other): every trajectory starts at the requested position, and
    the generator's own position array is what the user put in"""
    import mudslide
    from ..synth import SynthModel
    rng = np.random.Generator(np.random.PCG64(args["seed"]))
    n = int(args["n"])
    model = SynthModel(rng, 2, n, scale=0.03, gap=0.05, mass=10 ** rng.uniform(2.5, 3.5, size=n))
    x0 = np.array(rng.normal(size=n), dtype=np.float64)          # a float64 array of shape (ndim,): the user's own object
    keep = np.array(x0)
    if args["gen"] == "const":
        gen = mudslide.TrajGenConst(x0, np.array(rng.normal(size=n) * 5 + 8), 0, seed=args["seed"])
    else:
        gen = mudslide.TrajGenBoltzmann(x0, np.array(model.mass), 300.0, 0, scale=True, seed=args["seed"], momentum_seed=args["seed"] + 1)
    ns = int(args["samples"])
    b = mudslide.BatchedTraj(model, gen, getattr(mudslide, args["cls"]), samples=ns, dt=2.0, max_steps=int(args["steps"]))
    tm = b.compute()
    problems = []
    for j, tr in enumerate(tm.traces):
        first = np.asarray(list(tr)[0]["position"], dtype=np.float64)
        if not np.array_equal(first, keep):
            problems.append("trajectory %d starts at %r, requested %r" % (j, first.tolist(), keep.tolist()))
            break
    if not np.array_equal(x0, keep):
        problems.append("the position array given to the generator was changed: %r -> %r" % (keep.tolist(), x0.tolist()))
    if not np.array_equal(np.asarray(gen.position, dtype=np.float64), keep):
        problems.append("the generator's position is %r after the batch, requested %r" % (np.asarray(gen.position).tolist(), keep.tolist()))
    return not problems, {"trajectories": len(tm.traces), "problems": problems[:3]}, {"problems": []}, "; ".join(problems[:2]) or "ok"


ORACLES = {"samples_after_runs": oracle_samples_after_runs, "boltzmann": oracle_boltzmann, "const_normal": oracle_const_normal}


def run(ctx):
    ctx.rule = ("Boltzmann: 1..9 masses log-uniform 1..1e5, T 1..1e4 K, 1..6 samples, scaling on/off; normal: centres, widths "
                "0.2..20 incl. centres near zero so that skips occur; const; SeedSequence.spawn bookkeeping with prior spawns. "
                "Non-trivial = >=2 dofs with unequal masses, or a skipped sample, or prior spawns; distinct by (generator, n, flags)")
    ctx.assumptions += ["the standard-normal draws themselves (distribution, independence) are numpy's contract; the harness "
                        "recovers them from an identically seeded generator and feeds them to the model"]
    ctx.fingerprints["mudslide/batch.py"] = fingerprint("mudslide/batch.py", ["TrajGenConst", "TrajGenNormal", "TrajGenBoltzmann"])
    ctx.fingerprints["mudslide/math.py"] = fingerprint("mudslide/math.py", ["boltzmann_velocities"])
    ctx.proofs()
    rng = ctx.rng
    import mudslide
    lines, keep = [], []
    for i in range(ctx.budget(200, 20000)):
        n = int(rng.integers(1, 10))
        mass = 10 ** rng.uniform(0, 5, size=n)
        T = float(10 ** rng.uniform(0, 4))
        if i % 4 >= 2:
            # cold ensembles (down to 1e-9 K): the kinetic energies are tiny but the statement is the same
            T = float(10 ** rng.uniform(-9, 0))
            ctx.count("boltz:cold")
        scale = bool(i % 2)
        mseed = int(rng.integers(1, 2 ** 31))
        seed = int(rng.integers(1, 2 ** 31))
        ns = int(rng.integers(1, 7))
        args = {"mass": mass, "T": T, "ns": ns, "scale": scale, "seed": seed, "mseed": mseed}
        if i % 8 >= 6:
            mass = np.ceil(mass)
            args.update(mass=mass, int_mass=True)
            ctx.count("boltz:int64_masses")
        g = mudslide.TrajGenBoltzmann(np.zeros(n), mass.astype(np.int64) if args.get("int_mass") else mass, T, 0, scale=scale,
                                      seed=seed, momentum_seed=mseed)
        samples = list(g(ns))
        z = np.random.default_rng(mseed).standard_normal((ns, n))
        j = int(rng.integers(0, ns))
        lines.append(["boltz", int(scale), n] + fbs(mass) + fbs(z[j]) + [fb(KB * T)])
        keep.append((args, np.asarray(samples[j][1]), n, scale))
    outs = ctx.model.run(lines)
    for (args, p, n, scale), o in zip(keep, outs):
        mp_ = np.array([unfb(t) for t in o[1:1 + n]])
        ctx.case(("boltz", n, scale) if n >= 2 else None, {"op": "boltz", "args": args, "impl_p": p, "model_p": mp_})
        ctx.count("boltz:scale=%d" % scale)
        if o[0] != "ok" or not allclose(p, mp_, float(np.max(np.abs(p))), rtol=1e-12):
            ctx.corr_mismatch("boltz", args, "model %r impl %r" % (mp_, p))
        if scale:
            ctx.monitor("max_rel_dev_scaled_KE", abs(unfb(o[1 + n]) / (0.5 * KB * args["T"]) - 1))
        ok, obs, req, text = oracle_boltzmann(args)
        if not ok:
            ctx.oracle_fail("boltzmann", "boltzmann", args, obs, req, text)

    for i in range(ctx.budget(6, 60)):
        a = {"gen": ["const", "boltzmann"][i % 2], "cls": ["TrajectorySH", "Ehrenfest", "TrajectoryCum"][i % 3], "n": int(rng.integers(1, 4)),
             "samples": int(rng.integers(2, 5)), "steps": int(rng.integers(3, 12)), "seed": int(rng.integers(1, 2 ** 31))}
        ok, obs, req, text = oracle_samples_after_runs(a)
        ctx.case(("samples-after-runs", a["gen"], a["cls"], a["n"]))
        ctx.count("samples_after_runs")
        if not ok:
            ctx.oracle_fail("samples-after-runs", "samples_after_runs", a, obs, req, text)
    lines, keep = [], []
    for i in range(ctx.budget(150, 10000)):
        n = int(rng.integers(1, 4))
        x0 = rng.normal(size=n) * 5
        k0 = np.abs(rng.normal(size=n)) * rng.choice([0.3, 3.0, 30.0])
        sigma = 10 ** rng.uniform(-0.7, 1.3, size=n)
        args = {"x0": x0, "k0": k0, "sigma": sigma, "ns": int(rng.integers(1, 9)),
                "seed": int(rng.integers(1, 2 ** 31)), "tseed": int(rng.integers(1, 2 ** 31)), "big": i % 25 == 0}
        if i % 6 == 5:
            # integer-VALUED widths (2, 4, 8 ...): the oracle hands them over as a python int / an int64 array
            sigma = np.array([float(v) for v in rng.integers(1, 9, size=n)])
            args["sigma"] = sigma
            args["int_sigma"] = "scalar" if n == 1 else "array"
            ctx.count("normal:integer_typed_sigma")
        r2 = np.random.default_rng(args["tseed"])
        zx, zk = r2.standard_normal(n), r2.standard_normal(n)
        g = mudslide.TrajGenNormal(x0, k0, 0, sigma, seed=args["seed"], seed_traj=args["tseed"])
        first = list(g(1))
        lines.append(["normal", n] + fbs(x0) + fbs(k0) + fbs(sigma) + fbs(zx) + fbs(zk))
        keep.append((args, first, n))
    outs = ctx.model.run(lines)
    for (args, first, n), o in zip(keep, outs):
        mx = np.array([unfb(t) for t in o[1:1 + n]])
        mk = np.array([unfb(t) for t in o[1 + n:1 + 2 * n]])
        skip = int(o[1 + 2 * n])
        ctx.case(("normal", n, skip), {"op": "normal", "args": args, "model_skip": skip})
        ctx.count("normal:skip=%d" % skip)
        bad = (len(first) == 0) != bool(skip)
        if not bad and first:
            bad = not (allclose(first[0][0], mx, float(np.max(np.abs(mx))) + 1, rtol=1e-13) and
                       allclose(first[0][1], mk, float(np.max(np.abs(mk))) + 1, rtol=1e-13))
        if bad:
            ctx.corr_mismatch("normal", args, "model x %r k %r skip %d; impl %r" % (mx, mk, skip, first))
        ok, obs, req, text = oracle_const_normal(args)
        if not ok:
            ctx.oracle_fail("const-normal", "const_normal", args, obs, req, text)

    # whole generator loops (`__call__(nsamples)`, also on a generator object that has been called before) against
    # MudModel.Generators.{normalGen, constGen, boltzmannGen}: which draws are yielded, with which seed, in which order
    from .. import genloops
    glines, gkeep = genloops.build(rng, mudslide, fbs, fb, ctx.budget(90, 3000))
    gouts = ctx.model.run(glines)
    for gargs, gn, gcnt, gprob in genloops.compare(gkeep, gouts, unfb, allclose):
        skipped = gcnt < gargs["k"]
        ctx.case(("genloop", gargs["kind"], gn, skipped, gargs["prior_spawned"] > 0)
                 if (skipped or gargs["prior_spawned"] > 0 or gn >= 2) else None,
                 {"op": "genloop", "kind": gargs["kind"], "requested": gargs["k"], "yielded_by_model": gcnt})
        ctx.count("genloop:%s%s" % (gargs["kind"], ":with_skips" if skipped else ""))
        if gprob:
            ctx.corr_mismatch("genloop:" + gargs["kind"], gargs, gprob)

    # SeedSequence.spawn bookkeeping
    lines, keep = [], []
    for i in range(ctx.budget(60, 2000)):
        ent = int(rng.integers(0, 2 ** 31))
        ss = np.random.SeedSequence(ent)
        prior = int(rng.integers(0, 4))
        for _ in range(prior):
            ss = ss.spawn(int(rng.integers(1, 4)))[-1] if rng.random() < 0.5 else (ss.spawn(int(rng.integers(1, 4))), ss)[1]
        key = [int(v) for v in ss.spawn_key]
        nsp = int(ss.n_children_spawned)
        k = int(rng.integers(1, 8))
        kids = ss.spawn(k)
        lines.append(["spawn", ent, len(key)] + key + [nsp, k])
        keep.append((ent, key, nsp, k, [[int(v) for v in c.spawn_key] for c in kids], int(ss.n_children_spawned)))
    outs = ctx.model.run(lines)
    for (ent, key, nsp, k, kidkeys, after), o in zip(keep, outs):
        toks = [int(t) for t in o[1:]]
        got, pos = [], 0
        for _ in range(k):
            ln = toks[pos]
            got.append(toks[pos + 1:pos + 1 + ln])
            pos += 1 + ln
        ctx.case(("spawn", len(key), nsp > 0, k) if (nsp > 0 or key) else None)
        ctx.count("spawn")
        if got != kidkeys or toks[pos] != after:
            ctx.corr_mismatch("spawn", {"entropy": ent, "key": key, "nspawned": nsp, "k": k},
                              "model %r / %d, numpy %r / %d" % (got, toks[pos], kidkeys, after))

# -*- coding: utf-8 -*-
"""C05 — every built-in model returns mutually consistent energies, forces and couplings."""
import os
import shutil
import tempfile

import numpy as np

from ..core import fb, fbs, unfb, close, allclose, fingerprint, safe_oracle
from ..synth import SynthModel, BlocksModel
from .. import eleccommon as ec

REGISTERED = ["simple", "dual", "extended", "super", "shin-metiu", "modelx", "models", "modelw", "modelz", "vibronic"]


def make_model(spec):
    """built-in model with (possibly non-default) constructor parameters, or Subotnik2D / a synthetic one"""
    import sys
    import mudslide
    mod = sys.modules["mudslide.models.scattering_models"]
    name = spec["name"]
    kw = dict(spec.get("kwargs", {}))
    if spec.get("representation"):
        kw["representation"] = spec["representation"]
    if name == "subotnik2d":
        return mod.Subotnik2D(**kw)
    if name == "blocks":
        kw.pop("representation", None)
        return BlocksModel(**kw)
    if name == "synth":
        rng = np.random.Generator(np.random.PCG64(spec["seed"]))
        return SynthModel(rng, spec["N"], spec["n"], representation=spec.get("representation", "adiabatic"))
    return mudslide.models.scattering_models[name](**kw)


def random_spec(rng, name):
    kw = {}
    if rng.random() < 0.5:
        if name == "simple":
            kw = dict(a=float(rng.uniform(0.005, 0.02)), b=float(rng.uniform(1, 2)), c=float(rng.uniform(0.003, 0.01)), d=float(rng.uniform(0.5, 1.5)))
        elif name == "dual":
            kw = dict(a=float(rng.uniform(0.05, 0.2)), b=float(rng.uniform(0.2, 0.4)), c=float(rng.uniform(0.01, 0.03)), e=float(rng.uniform(0.03, 0.08)))
        elif name == "extended":
            kw = dict(a=float(rng.uniform(0.0003, 0.002)), b=float(rng.uniform(0.05, 0.2)), c=float(rng.uniform(0.5, 1.2)))
        elif name == "super":
            kw = dict(v22=float(rng.uniform(0.005, 0.02)), v12=float(rng.uniform(0.0005, 0.003)), v23=float(rng.uniform(0.005, 0.02)))
            if rng.random() < 0.7:
                # a small but non-zero gap (1e-6..1e-5) on top of large absolute energies (0.5): well conditioned, not degenerate
                delta = float(10 ** rng.uniform(-6, -5))
                kw = dict(v11=0.5, v22=0.5 + delta, v33=0.6, v12=float(rng.uniform(0.2, 0.6)) * delta, v23=1e-4)
        elif name in ("modelx", "models"):
            kw = dict(a=float(rng.uniform(0.01, 0.04)), b=float(rng.uniform(1, 2)), c=float(rng.uniform(0.003, 0.01)), xp=float(rng.uniform(5, 9)))
        elif name in ("modelw", "modelz"):
            kw = dict(nstates=int(rng.choice([2, 4, 6, 8, 10])), eps=float(rng.uniform(0.05, 0.2)))
        elif name == "shin-metiu":
            kw = dict(nstates=int(rng.integers(2, 7)), nel=32)      # also MORE kept states than the default three
    if kw and name in ("simple", "dual", "extended") and rng.random() < 0.6:
        # the sign of a diabatic coupling constant is only a phase convention: negative values are legal
        key = {"simple": "c", "dual": "c", "extended": "b"}[name]
        kw[key] = -kw[key]
    if name == "blocks":
        nd = int(rng.integers(1, 3))
        kw = dict(ndim=nd, mass=[float(v) for v in 10 ** rng.uniform(2.5, 3.5, size=nd)], k=float(rng.uniform(0.005, 0.02)),
                  g=float(rng.uniform(0.002, 0.008)), D=float(rng.uniform(0.1, 0.3)), t=float(rng.uniform(0.01, 0.05)))
    if name == "shin-metiu" and "nel" not in kw:
        kw["nel"] = 32
        kw["nstates"] = int(rng.integers(3, 7))
    if name == "subotnik2d":
        kw["mass"] = [2000.0, 2000.0]
        if rng.random() < 0.6:
            # non-default parameters (the defaults have d == g: a factor d written for g goes unnoticed there)
            kw.update(d=float(rng.uniform(0.1, 0.5)), g=float(rng.uniform(0.1, 0.5)), f=float(rng.uniform(0.02, 0.08)), w=float(rng.uniform(0.5, 3.0)))
    return {"name": name, "kwargs": kw}


def random_position(rng, model, name):
    n = model.ndim()
    if name == "shin-metiu":
        return rng.uniform(-6, 6, size=n)
    if name == "vibronic":
        return rng.normal(size=n) * 0.5
    if name == "blocks":
        x = rng.uniform(-2, 2, size=n)
        if abs(x[0]) < 0.2:
            x[0] = 0.2 if x[0] >= 0 else -0.2     # the symmetry-allowed crossing itself (x = 0) is a degeneracy
        return x
    if name in ("modelw", "modelz"):
        return rng.uniform(-0.5, 0.5, size=n)
    x = rng.uniform(-8, 8, size=n)
    if name == "super" and getattr(model, "v11", 0.0) == 0.5:
        x = rng.uniform(-1.2, 1.2, size=n)           # inside the coupling region of the near-degenerate pair
    if name in ("simple", "extended") and abs(x[0]) < 0.05:      # documented kink at 0
        x[0] = 0.3
    return x


def _fd1(f, x, k, h):
    e = np.zeros_like(x)
    e[k] = 1.0
    d1 = (f(x + h * e) - f(x - h * e)) / (2 * h)
    d2 = (f(x + 2 * h * e) - f(x - 2 * h * e)) / (4 * h)
    return (4 * d1 - d2) / 3


class FD:
    """Richardson central differences at two step sizes; an estimate is only used as evidence when the two agree
    (a model varying on a shorter scale than the step - e.g. near an avoided crossing - is not judged)"""
    unreliable = 0

    @staticmethod
    def diff(f, x, k, h, tol):
        a = _fd1(f, x, k, h)
        b = _fd1(f, x, k, h / 2)
        if float(np.max(np.abs(a - b))) > 0.1 * tol:
            FD.unreliable += 1
            return None
        return b


def _fd(f, x, k, h):
    return _fd1(f, x, k, h)


@safe_oracle
def oracle_model(args):
    """at one position: H symmetric (diagonal, ascending when adiabatic); dV = grad V with shape (ndim,N,N); force = -grad E_i;
    coupling antisymmetric, zero diagonal, = <phi_i|grad phi_j>; off-diagonal force matrix = (E_i-E_j) d_ij"""
    model = make_model(args)
    x = np.array(args["x"], dtype=np.float64)
    N, n = model.nstates(), model.ndim()
    rep = args.get("representation", "adiabatic")
    el = model.update(x)
    H = np.asarray(el.hamiltonian())
    problems = []
    if H.shape != (N, N) or not np.allclose(H, H.T, atol=1e-14):
        problems.append("Hamiltonian not symmetric or wrong shape %r" % (H.shape,))
    E = np.diag(H)
    if rep == "adiabatic":
        if np.max(np.abs(H - np.diag(E))) > 0 or np.any(np.diff(E) < 0):
            problems.append("adiabatic Hamiltonian not diagonal/ascending")
    h = 2e-4 if args["name"] in ("modelw", "modelz") else 1e-3
    sc_e = float(np.max(np.abs(H))) + 1e-12
    # diabatic gradient (not for AdiabaticModel_: its V is the auxiliary grid Hamiltonian)
    V = np.asarray(model.V(x))
    dV = np.asarray(model.dV(x))
    if dV.shape != (n,) + V.shape:
        problems.append("dV has shape %r, documented shape is %r" % (dV.shape, (n,) + V.shape))
    else:
        for k in range(n):
            tol = 1e-6 * (float(np.max(np.abs(dV))) + float(np.max(np.abs(V))) + 1e-12)
            num = FD.diff(lambda y: np.asarray(model.V(y)), x, k, h, tol)
            if num is None:
                continue
            err = float(np.max(np.abs(num - dV[k])))
            if err > tol:
                problems.append("dV[%d] is not dV/dx_%d of V (max error %.3g)" % (k, k, err))
                break
    # "... at a position": V(x) and dV(x) are functions of x. The same call after the model evaluated OTHER points (the stencil above,
    # a far point), and the first call on a fresh model object (dV before any V), have to give the same matrices
    if dV.shape == (n,) + V.shape:
        far = x + 0.37 + 0.11 * np.arange(n)
        model.V(far)
        dV_after_far_V = np.asarray(model.dV(x))
        model.dV(far)
        V_after_far_dV = np.asarray(model.V(x))
        fresh = make_model(args)
        dV_first = np.asarray(fresh.dV(x))
        V_after = np.asarray(fresh.V(x))
        for nm_, a_, b_ in (("dV(x) after V was evaluated elsewhere", dV_after_far_V, dV), ("V(x) after dV was evaluated elsewhere", V_after_far_dV, V),
                            ("dV(x) as the first call on a fresh model", dV_first, dV), ("V(x) after dV(x) on a fresh model", V_after, V)):
            if a_.shape != b_.shape or not np.array_equal(a_, b_):
                problems.append("%s differs from the value at the same x (max %.3g): the result depends on the call history"
                                % (nm_, float(np.max(np.abs(a_ - b_))) if a_.shape == b_.shape else float("nan")))
                break
    dc = np.asarray(el.derivative_coupling_tensor())
    fm = np.asarray(el.force_matrix())
    force = np.array([el.force(i) for i in range(N)])
    if dc.shape != (N, N, n) or fm.shape != (N, N, n) or force.shape != (N, n):
        problems.append("shapes: coupling %r, force matrix %r, force %r" % (dc.shape, fm.shape, force.shape))
        return False, {"problems": problems}, {}, "; ".join(problems)
    for nm_, arr_ in (("Hamiltonian", H), ("derivative coupling", dc), ("force matrix", fm), ("force", force)):
        if not np.all(np.isfinite(arr_)):
            problems.append("%s is not finite (%d NaN/inf entries)" % (nm_, int(np.sum(~np.isfinite(arr_)))))
    if problems and any("not finite" in p_ for p_ in problems):
        return False, {"problems": problems[:3]}, {"problems": []}, "%s at x=%r: %s" % (args["name"], x.tolist(), "; ".join(problems[:2]))
    if np.max(np.abs(dc + np.transpose(dc, (1, 0, 2)))) > 1e-9 * (1 + float(np.max(np.abs(dc)))):
        problems.append("derivative coupling not antisymmetric")
    diag = max(float(np.max(np.abs(dc[i, i, :]))) for i in range(N))
    if diag != 0.0:
        problems.append("derivative coupling has a non-zero diagonal (%.3g)" % diag)
    if args.get("degenerate"):
        # at an exact degeneracy the eigenvectors (hence forces and couplings) are not unique and the surfaces are not smooth:
        # only the algebraic facts above (symmetric H, shapes, dV = grad V, antisymmetric coupling with zero diagonal) are judged
        if np.min(np.abs(np.diff(E))) != 0.0:
            problems.append("the point was meant to be exactly degenerate (harness)")
    elif rep == "adiabatic":
        gaps_ok = np.min(np.abs(np.diff(E))) > 1e-6 if N > 1 else True
        # force = -grad E_i  (state energies along each coordinate, sign-tracked states)
        # neighbouring points are requested either on the shared model object or on the result itself
        # (`elec.update(y, elec)`, the idiom of mudslide/surface.py); the result `el` must keep describing ITS point
        chained = bool(args.get("chained"))

        def energies(y):
            e2 = el.update(y, electronics=el) if chained else model.update(y, electronics=el)
            return np.diag(np.asarray(e2.hamiltonian()))
        for k in range(n):
            tol = 2e-6 * (float(np.max(np.abs(force))) + sc_e)
            numE = FD.diff(energies, x, k, h, tol)
            if numE is None:
                continue
            force_now = np.array([el.force(i) for i in range(N)])          # read again AFTER the neighbours were computed
            err = float(np.max(np.abs(-numE - force_now[:, k])))
            if err > tol:
                problems.append("force is not -dE/dx_%d (max error %.3g)" % (k, err))
                break
        if gaps_ok:
            # off-diagonal force matrix = (E_i - E_j) d_ij ; diagonal = force
            want = (E[:, None] - E[None, :])[:, :, None] * dc
            off = fm - np.array([[fm[i, j] if i == j else 0 * fm[i, j] for j in range(N)] for i in range(N)])
            if np.max(np.abs(off - want)) > 1e-9 * (float(np.max(np.abs(fm))) + 1e-12):
                problems.append("off-diagonal force matrix != (E_i - E_j) d_ij")
            if np.max(np.abs(np.array([fm[i, i] for i in range(N)]) - force)) > 1e-12 * (1 + float(np.max(np.abs(force)))):
                problems.append("diagonal of the force matrix != force")
            # coupling = <phi_i | d/dx phi_j>
            C0 = np.asarray(el._reference)

            def coeffs(y):
                e2 = el.update(y, electronics=el) if chained else model.update(y, electronics=el)
                return np.asarray(e2._reference)
            for k in range(n):
                tol = 5e-6 * (1 + float(np.max(np.abs(dc))))
                dC = FD.diff(coeffs, x, k, h, tol)
                if dC is None:
                    continue
                num = C0.T @ dC
                dc_now = np.asarray(el.derivative_coupling_tensor())
                err = float(np.max(np.abs(num - dc_now[:, :, k])))
                if err > tol:
                    problems.append("derivative coupling is not <phi_i|d/dx_%d phi_j> (max error %.3g)" % (k, err))
                    break
    else:
        if np.max(np.abs(dc)) != 0.0 or not np.allclose(H, V):
            problems.append("diabatic representation: H != V or non-zero coupling")
        if dV.shape == (n,) + V.shape and np.max(np.abs(force + np.array([[dV[k][i, i] for k in range(n)] for i in range(N)]))) > 1e-14:
            problems.append("diabatic force != -diag dV")
        if dV.shape == (n,) + V.shape and np.max(np.abs(fm + np.transpose(dV, (1, 2, 0)))) > 1e-14 * (1 + float(np.max(np.abs(dV)))):
            problems.append("diabatic force matrix != -dV in the (state, state, dimension) layout")
    return not problems, {"problems": problems[:3]}, {"problems": []}, \
        "%s at x=%r: %s" % (args["name"], x.tolist(), "; ".join(problems[:2]) or "ok")


def _is_pinned_wz(model, x, name):
    """does dV(x) equal the pinned (wrong) formula of models W / Z, and is that the only thing wrong (V itself is right)?"""
    N = model.nstates()
    v = 0.1 / np.sqrt(N)
    m = np.arange(0, N) + 1
    want = np.full((N, N), v)
    if name == "modelw":
        slopes = np.tan(0.5 * np.pi - (2 * m - 1) * np.pi / (2 * N))
        np.fill_diagonal(want, slopes + (m - 1) * model.eps)
        Vd = slopes * x[0] + (m - 1) * model.eps
    else:
        d = np.zeros(N)
        d[:N // 2] = x[0] + (m[:N // 2] - 1) * model.eps
        d[N // 2:] = -x[0] + (N - m[N // 2:]) * model.eps
        np.fill_diagonal(want, d)
        Vd = d
    Vw = np.full((N, N), v)
    np.fill_diagonal(Vw, Vd)
    return bool(np.allclose(np.asarray(model.dV(x))[0], want, rtol=1e-12, atol=1e-14) and
                np.allclose(np.asarray(model.V(x)), Vw, rtol=1e-12, atol=1e-14))


@safe_oracle
def oracle_harmonic(args):
    """HarmonicModel: force = -grad E (symmetric Hessian), and a save/load round trip (json and yaml) changes nothing"""
    import mudslide
    rng = np.random.Generator(np.random.PCG64(args["seed"]))
    n = int(args["n"])
    a = rng.normal(size=(n, n))
    H0 = a @ a.T * 0.01 + np.eye(n) * 0.005
    x0 = rng.normal(size=n)
    m = mudslide.models.HarmonicModel(x0, float(rng.normal()), H0, rng.uniform(500, 3000, size=n))
    x = rng.normal(size=n)
    el = m.update(x)
    problems = []

    def energy(y):
        return np.asarray(m.update(y).hamiltonian()).ravel()[0]
    for k in range(n):
        num = _fd(lambda y: np.array([energy(y)]), x, k, 1e-3)[0]
        if abs(-num - el.force(0)[k]) > 1e-7 * (1 + abs(num)):
            problems.append("harmonic force[%d] != -dE/dx" % k)
    tmp = tempfile.mkdtemp(prefix="verif-c05-")
    try:
        for ext in ("json", "yaml"):
            fn = os.path.join(tmp, "m." + ext)
            m.to_file(fn)
            m2 = mudslide.models.HarmonicModel.from_file(fn)
            same = (np.array_equal(m2.x0, m.x0) and m2.E0 == m.E0 and np.array_equal(m2.H0, m.H0) and np.array_equal(m2.mass, m.mass))
            if not same:
                problems.append("%s round trip changed the model" % ext)
            e2 = m2.update(x)
            if not (np.array_equal(np.asarray(e2.hamiltonian()), np.asarray(el.hamiltonian())) and np.array_equal(e2.force(0), el.force(0))):
                problems.append("%s round trip changed energies/forces" % ext)
    finally:
        shutil.rmtree(tmp, ignore_errors=True)
    return not problems, {"problems": problems}, {"problems": []}, "; ".join(problems) or "ok"


ORACLES = {"model": oracle_model, "harmonic": oracle_harmonic}


def _entry_correspondence(ctx):
    """the Lean definitions of V / dV entries (the ones the HasDerivAt theorems are about) against the Python classes"""
    import mudslide
    rng = ctx.rng
    models = mudslide.models.scattering_models
    jobs = []   # (line, callable giving (V-entry, dV-entry), label)

    def mk(name, **kw):
        m_ = models[name](**kw)
        m_._vspec = {"name": name, "kwargs": kw}      # for the failing-input search when an entry disagrees with the model
        return m_

    def search(m_, x_):
        spec_ = dict(getattr(m_, "_vspec", {}), x=[x_])
        if "name" not in spec_ or spec_["name"] in ("modelw", "modelz"):
            return
        ok_, obs_, req_, text_ = oracle_model(spec_)
        if not ok_:
            ctx.oracle_fail("model-inconsistent:" + spec_["name"], "model", spec_, obs_, req_, text_)
    for _ in range(ctx.budget(20, 1000)):
        x = float(rng.uniform(-6, 6))
        if abs(x) < 0.05:
            x = 0.4
        a, b, c, d, e0 = [float(v) for v in (rng.uniform(0.01, 0.1), rng.uniform(0.3, 1.6), rng.uniform(0.003, 0.02), rng.uniform(0.05, 1.0), rng.uniform(0.02, 0.08))]
        xp = float(rng.uniform(4, 8))
        m = mk("simple", a=a, b=b, c=c, d=d)
        jobs.append((["mv", 0, fb(a), fb(b), fb(0), 0, 0, fb(x)], m, (0, 0), "simple11"))
        jobs.append((["mv", 1, fb(c), fb(d), fb(0), 0, 0, fb(x)], m, (0, 1), "simple12"))
        m = mk("dual", a=a, b=b, c=c, d=d, e=e0)
        jobs.append((["mv", 2, fb(a), fb(b), fb(e0), 0, 0, fb(x)], m, (1, 1), "dual22"))
        jobs.append((["mv", 3, fb(c), fb(d), fb(0), 0, 0, fb(x)], m, (0, 1), "dual12"))
        # (the sign of a diabatic coupling constant is a phase convention: both signs are legal)
        sg = float(rng.choice([1.0, -1.0]))
        m = mk("simple", a=a, b=b, c=sg * c, d=d)
        jobs.append((["mv", 1, fb(sg * c), fb(d), fb(0), 0, 0, fb(x)], m, (0, 1), "simple12"))
        m = mk("dual", a=a, b=b, c=sg * c, d=d, e=e0)
        jobs.append((["mv", 3, fb(sg * c), fb(d), fb(0), 0, 0, fb(x)], m, (0, 1), "dual12"))
        m = mk("extended", a=a, b=sg * b, c=c)
        jobs.append((["mv", 4, fb(sg * b), fb(c), fb(0), 0, 0, fb(x)], m, (0, 1), "extended12"))
        m = mk("super", v12=a, v23=c)
        jobs.append((["mv", 5, fb(a), fb(0), fb(0), 0, 0, fb(x)], m, (0, 1), "super12"))
        jobs.append((["mv", 5, fb(c), fb(0), fb(0), 0, 0, fb(x)], m, (1, 2), "super23"))
        m = mk("modelx", a=a, b=b, c=c, xp=xp)
        for ent, ij in ((6, (0, 0)), (7, (1, 1)), (8, (2, 2))):
            jobs.append((["mv", ent, fb(a), fb(b), fb(xp), 0, 0, fb(x)], m, ij, "modelx%d%d" % ij))
        jobs.append((["mv", 9, fb(c), fb(0.0), fb(0), 0, 0, fb(x)], m, (0, 1), "modelx12"))
        jobs.append((["mv", 9, fb(c), fb(xp), fb(0), 0, 0, fb(x)], m, (0, 2), "modelx13"))
        jobs.append((["mv", 9, fb(c), fb(-xp), fb(0), 0, 0, fb(x)], m, (1, 2), "modelx23"))
        m = mk("models", a=a, b=b, c=c, d=d, xp=xp)
        jobs.append((["mv", 10, fb(a), fb(b), fb(xp), 0, 0, fb(x)], m, (0, 0), "models11"))
        jobs.append((["mv", 11, fb(a), fb(d), fb(0), 0, 0, fb(x)], m, (2, 2), "models33"))
        jobs.append((["mv", 12, fb(c), fb(xp), fb(0), 0, 0, fb(x)], m, (0, 1), "models12"))
        N = int(rng.choice([2, 4, 8]))
        eps = float(rng.uniform(0.05, 0.2))
        k = int(rng.integers(1, N + 1))
        xs = float(rng.uniform(-0.5, 0.5))
        mw = mk("modelw", nstates=N, eps=eps)
        slope = float(np.tan(0.5 * np.pi - (2 * k - 1) * np.pi / (2 * N)))
        jobs.append((["mv", 13, fb(slope), fb(eps), fb(0), k, 0, fb(xs)], mw, (k - 1, k - 1), "modelw"))
        mz = mk("modelz", nstates=N, eps=eps)
        jobs.append((["mv", 14, fb(eps), fb(0), fb(0), k, N, fb(xs)], mz, (k - 1, k - 1), "modelz"))
    # the two multi-dimensional diabatic models, every entry of V and of every gradient component
    md_lines, md_keep, md_specs = [], [], []
    for _ in range(ctx.budget(12, 600)):
        a, b, c, d, f, g, w = [float(v) for v in (rng.uniform(0.1, 0.3), rng.uniform(0.3, 0.9), rng.uniform(0.005, 0.03), rng.uniform(0.1, 0.5),
                                                  rng.uniform(0.02, 0.08), rng.uniform(0.1, 0.5), rng.uniform(0.5, 3.0))]
        x, y = float(rng.uniform(-4, 4)), float(rng.uniform(-6, 6))
        from mudslide.models.scattering_models import Subotnik2D
        m = Subotnik2D(a=a, b=b, c=c, d=d, f=f, g=g, w=w)
        md_lines.append(["sub2d"] + [fb(v) for v in (a, b, c, d, f, g, w, np.pi * 0.5, x, y)])
        md_specs.append({"name": "subotnik2d", "kwargs": dict(a=a, b=b, c=c, d=d, f=f, g=g, w=w, mass=[2000.0, 2000.0]), "x": [x, y]})
        V = np.asarray(m.V(np.array([x, y]))); dV = np.asarray(m.dV(np.array([x, y])))
        md_keep.append(("sub2d", [V[0, 0], V[1, 1], V[0, 1], dV[0, 0, 0], dV[0, 1, 1], dV[0, 0, 1], dV[1, 1, 1]],
                        [dV[1, 0, 0], dV[1, 0, 1], V[1, 0] - V[0, 1], dV[0, 1, 0] - dV[0, 0, 1]]))
        mv = mudslide.models.scattering_models["vibronic"]() if "vibronic" in mudslide.models.scattering_models else None
        if mv is not None:
            X = rng.normal(size=5) * 1.5
            md_specs.append(None)
            md_lines.append(["vib", fb(mv.E1), fb(mv.E2), fb(mv.lamb), fb(mv.r0sqrtw5mh)] + fbs(mv.om) + fbs(mv.k1) + fbs(mv.k2) + fbs(mv.An) +
                            fbs(X[:4]) + [fb(X[4])])
            V = np.asarray(mv.V(X)); dV = np.asarray(mv.dV(X))
            md_keep.append(("vib", [V[0, 0], V[1, 1], V[0, 1]] + [dV[i, 0, 0] for i in range(4)] + [dV[i, 1, 1] for i in range(4)] +
                            [dV[4, 0, 0], dV[4, 0, 1]],
                            [dV[4, 1, 1] - dV[4, 0, 0], V[1, 0] - V[0, 1]] + [dV[i, 0, 1] for i in range(4)]))
    for (label, want, zeros), o, sp_ in zip(md_keep, ctx.model.run(md_lines), md_specs):
        got = [unfb(t) for t in o[1:1 + len(want)]]
        ctx.case(("entry", label), {"op": label, "impl": want[:4], "model": got[:4]})
        ctx.count("entry:" + label)
        sc = max(max(abs(v) for v in want), 1e-12)
        if o[0] != "ok" or not allclose(got, want, sc, rtol=1e-11):
            ctx.corr_mismatch("mv." + label, {}, "entries: model %r impl %r" % (got, want))
            if sp_ is not None:
                # failing-input search: the model oracle (finite differences of V against dV, ...) on these very parameters
                ok_, obs_, req_, text_ = oracle_model(sp_)
                if not ok_:
                    ctx.oracle_fail("model-inconsistent:" + sp_["name"], "model", sp_, obs_, req_, text_)
        if any(abs(z) > 1e-14 * sc for z in zeros):
            ctx.corr_mismatch("mv." + label + ".structure", {}, "entries the model has as zero / equal are %r" % (zeros,))
    outs = ctx.model.run([j[0] for j in jobs])
    for (line, m, (i, j), label), o in zip(jobs, outs):
        x = unfb(line[-1])
        V = float(np.asarray(m.V(np.array([x])))[i, j])
        dV = float(np.asarray(m.dV(np.array([x])))[0, i, j])
        mV, mD = unfb(o[1]), unfb(o[2])
        ctx.case(("entry", label), {"op": "mv", "entry": label, "x": x, "impl": [V, dV], "model": [mV, mD]})
        ctx.count("entry:" + label)
        sc = max(abs(V), abs(dV), 1e-12)
        if o[0] != "ok" or not close(V, mV, sc, rtol=1e-11):
            ctx.corr_mismatch("mv." + label, {"x": x}, "V entry: model %r impl %r" % (mV, V))
            search(m, x)
        elif close(dV, mD, sc, rtol=1e-11):
            ctx.count("entry_dV_matches_gradient")
        elif label in ("modelw", "modelz") and close(dV, unfb(o[3]), sc, rtol=1e-11):
            ctx.pinned_match(label + "-dV-is-not-gradient", "mv." + label, {"x": x},
                             "dV entry matches the pinned (non-gradient) formula")
        else:
            ctx.corr_mismatch("mv." + label, {"x": x}, "dV entry: model %r impl %r" % (mD, dV))
            search(m, x)


def run(ctx):
    ctx.rule = ("the 10 registered models with default and random non-default constructor parameters (state counts 2..10 for the "
                "parametrised ones), Subotnik2D, synthetic multi-D models; random positions in each model's domain away from the "
                "documented kinks; both representations. eigh output captured and handed to the model. Non-trivial = N>=3 or "
                "n>=2 or non-default parameters; distinct by (model, representation, N, parameter set)")
    ctx.assumptions += ["numpy.linalg.eigh (orthonormal eigenvectors, ascending eigenvalues) is a parameter of the model; monitored",
                        "finite-difference oracle: Richardson central differences, thresholds 1e-6 relative"]
    ctx.fingerprints["mudslide/models/electronics.py"] = fingerprint(
        "mudslide/models/electronics.py", ["_compute_basis_states", "_compute_force", "_compute_force_matrix",
                                           "_compute_derivative_coupling", "compute", "update"])
    ctx.fingerprints["mudslide/models/scattering_models.py"] = fingerprint(
        "mudslide/models/scattering_models.py", ["V", "dV"])
    ctx.proofs()
    rng = ctx.rng
    names = REGISTERED + ["subotnik2d", "synth", "blocks"]
    lines, keep = [], []
    per = ctx.budget(4, 120)
    for name in names:
        for r in range(per):
            if name == "synth":
                spec = {"name": "synth", "seed": int(rng.integers(1, 10 ** 6)), "N": int(rng.integers(2, 7)), "n": int(rng.integers(1, 5))}
            else:
                spec = random_spec(rng, name)
                if name == "super" and r == 1:
                    delta = float(10 ** rng.uniform(-6, -5.4))
                    spec["kwargs"] = dict(v11=0.5, v22=0.5 + delta, v33=0.6, v12=float(rng.uniform(0.2, 0.6)) * delta, v23=1e-4)
            if name not in ("shin-metiu", "blocks") and r % 4 == 3:
                spec["representation"] = "diabatic"
            if name == "vibronic" and r % 4 == 2:
                # exactly ON the conical intersection (E1 == E2, origin): the two adiabatic energies are bit-for-bit equal, the
                # gap guard of the derivative coupling is what is exercised; only the algebraic facts are judged there
                spec["kwargs"] = dict(E1=9.0, E2=9.0)
                spec["degenerate"] = True
            try:
                model = make_model(spec)
            except Exception as e:
                ok, obs, req, text = oracle_model(dict(spec, x=[0.0]))
                ctx.case(None)
                ctx.oracle_fail("model-constructor:" + name, "model", dict(spec, x=[0.0]), obs, req, text)
                continue
            x = random_position(rng, model, name)
            if spec.get("degenerate"):
                x = np.zeros(model.ndim())
                ctx.count("exactly_degenerate_points")
            spec["x"] = x
            if r % 2 == 1 and name != "shin-metiu":
                spec["chained"] = True
                ctx.count("chained_neighbour_requests")
            try:
                prev = model.update(random_position(rng, model, name))
                with ec.EighCapture() as cap:
                    el = model.update(x, electronics=prev)
            except Exception:
                ok, obs, req, text = oracle_model(spec)
                ctx.case(None)
                ctx.oracle_fail("model-update-raises:" + name, "model", spec, obs, req, text)
                continue
            N, n = model.nstates(), model.ndim()
            if spec.get("representation") != "diabatic" and name not in ("shin-metiu", "blocks"):
                ctx.monitor("eigh_orthonormality", cap.worst_orth)
                # raw eigenvectors are unique up to the signs the sign fix removes, so a model class that diagonalises V by some
                # other route than numpy.linalg.eigh is compared through the harness's own decomposition of its V(x)
                _a, w, cf = ec.first_eigh(cap, "model.update", W=(None if cap.calls else np.asarray(model.V(x))))
                dV = np.asarray(model.dV(x))
                if dV.shape == (n, N, N):
                    guard = 1e-10
                    lines.append(["basis", N, n, 1] + fbs(cf) + fbs(prev._reference) + fbs(w) + [fb(guard)] + fbs(dV))
                    keep.append((spec, el, N, n))
            ok, obs, req, text = oracle_model(spec)
            ctx.case((name, spec.get("representation", "adiabatic"), N, bool(spec.get("kwargs"))) if (N >= 3 or n >= 2 or spec.get("kwargs")) else None,
                     {"op": "model", "spec": spec})
            ctx.count("model:" + name)
            if not ok:
                sig = "model-inconsistent:" + name
                if name in ("modelw", "modelz") and _is_pinned_wz(model, x, name):
                    # the listed finding is exactly "dV returns V's layout"; anything else about these models is new
                    sig = name + "-dV-is-not-gradient"
                ctx.oracle_fail(sig, "model", spec, obs, req, text)
    outs = ctx.model.run(lines)
    for (spec, el, N, n), o in zip(keep, outs):
        vals = np.array([unfb(t) for t in o[1:]])
        k0 = N * N
        mc = vals[:k0].reshape(N, N)
        mf = vals[k0:k0 + N * n].reshape(N, n)
        mfm = vals[k0 + N * n:k0 + N * n + N * N * n].reshape(N, N, n)
        mdc = vals[k0 + N * n + N * N * n:].reshape(N, N, n)
        force = np.array([el.force(i) for i in range(N)])
        ok = (allclose(mc, el._reference, 1.0) and allclose(mf, force, float(np.max(np.abs(force))) + 1e-300) and
              allclose(mfm, el.force_matrix(), float(np.max(np.abs(el.force_matrix()))) + 1e-300) and
              allclose(mdc, el.derivative_coupling_tensor(), float(np.max(np.abs(el.derivative_coupling_tensor()))) + 1e-300, rtol=1e-8))
        ctx.count("basis_corr")
        if o[0] != "ok" or not ok:
            ctx.corr_mismatch("basis", spec, "sign-fixed coefficients / force / force matrix / coupling differ from the model")
    ctx.count("finite_differences_not_converged_skipped", FD.unreliable)
    _entry_correspondence(ctx)
    for i in range(ctx.budget(6, 100)):
        a = {"seed": int(rng.integers(1, 10 ** 6)), "n": int(rng.integers(1, 6))}
        ok, obs, req, text = oracle_harmonic(a)
        ctx.case(("harmonic", a["n"]))
        ctx.count("harmonic")
        if not ok:
            ctx.oracle_fail("harmonic", "harmonic", a, obs, req, text)

# -*- coding: utf-8 -*-
"""C18 — quadrature rules integrate exactly to their degree on any interval; spawn stacks are tensor products."""
import itertools
import math

import numpy as np

from ..core import fb, fbs, unfb, close, allclose, fingerprint, safe_oracle

METHODS = ["midpoint", "trapezoid", "simpson", "gl", "cc"]
DEGREE = {"midpoint": lambda n: 1, "trapezoid": lambda n: 1, "simpson": lambda n: 3,
          "gl": lambda n: 2 * n - 1, "cc": lambda n: n - 1}


def _quad(n, a, b, method):
    from mudslide.integration import quadrature
    return quadrature(n, a, b, method=method)


@safe_oracle
def oracle_rule(args):
    """nodes distinct, increasing, inside [a,b]; weights positive, sum b-a; exact for polynomials up to the rule's
    degree (tested on the powers of the normalised variable t=(2x-a-b)/(b-a), 60-digit arithmetic)"""
    import mpmath as mp
    mp.mp.dps = 60
    n, a, b, method = int(args["n"]), float(args["a"]), float(args["b"]), args["method"]
    x, w = _quad(n, a, b, method)
    x = np.asarray(x, dtype=np.float64)
    w = np.asarray(w, dtype=np.float64)
    problems = []
    span = b - a
    eps = 1e-12 * max(abs(a), abs(b), span)
    if x.shape != (n,) or w.shape != (n,):
        problems.append("shapes %r %r" % (x.shape, w.shape))
    if not np.all(np.diff(x) > 0):
        problems.append("nodes not strictly increasing")
    if not (np.all(x >= a - eps) and np.all(x <= b + eps)):
        problems.append("nodes outside [a,b]")
    if not np.all(w > 0):
        problems.append("non-positive weight")
    if not close(float(np.sum(w)), span, span, rtol=1e-11):
        problems.append("weights sum to %r, interval length is %r" % (float(np.sum(w)), span))
    deg = DEGREE[method](n)
    xa, xb = mp.mpf(a), mp.mpf(b)
    ts = [(2 * mp.mpf(float(v)) - xa - xb) / (xb - xa) for v in x]
    ws = [mp.mpf(float(v)) for v in w]
    worst = 0.0
    # conditioning of the node positions: one rounding of x is eps*max(|a|,|b|)/(b-a) in the normalised variable
    cond = 2.3e-16 * max(abs(a), abs(b)) / span
    for k in range(0, deg + 1):
        got = sum(wi * ti ** k for wi, ti in zip(ws, ts))
        want = (xb - xa) / 2 * (1 + (-1) ** k) / (k + 1)
        err = abs(got - want) / (xb - xa)
        worst = max(worst, float(err))
        if err > 1e-11 * max(1, n / 8) + 8 * cond * (k + 1):
            problems.append("degree %d moment off by %.3g (relative to b-a)" % (k, float(err)))
            break
    return not problems, {"sum_w": float(np.sum(w)), "worst_moment_error": worst, "problems": problems[:3]}, \
        {"sum_w": span, "degree": deg}, "%s n=%d on [%r,%r]: %s" % (method, n, a, b, "; ".join(problems[:2]) or "ok")


@safe_oracle
def oracle_stack(args):
    """from_quadrature(nsamples).unravel(): points = Cartesian product of the per-level nodes on [0,1],
    weights = products of the per-level weights, total weight 1"""
    from mudslide.even_sampling import SpawnStack
    ns, method = [int(v) for v in args["nsamples"]], args["method"]
    sizes = list(ns)                       # ONE list object handed to the builder twice, as BatchedTraj does with its option
    if args.get("via_batch"):
        # the stack a trajectory of a BATCH carries when the sizes and the rule are given as options of the batch driver
        import mudslide
        captured = []

        class Cap(mudslide.EvenSamplingTrajectory):
            def __init__(self, *a, **kw):
                mudslide.EvenSamplingTrajectory.__init__(self, *a, **kw)
                captured.append(self.spawn_stack)
        model = mudslide.models.scattering_models["simple"]()
        b = mudslide.BatchedTraj(model, mudslide.TrajGenConst(-5.0, 10.0, 0, seed=3), Cap, samples=1, spawn_stack=sizes, quadrature=method,
                                 dt=20.0, max_steps=1, bounds=[-6, 6])
        b.compute()
        ss = captured[0]
        ss_again = SpawnStack.from_quadrature(sizes, method=method)
    else:
        ss = SpawnStack.from_quadrature(sizes, method=method)
        ss_again = SpawnStack.from_quadrature(sizes, method=method)
    from ..core import time_limit
    try:
        with time_limit(20):
            if args.get("append"):
                # one more layer appended to every leaf afterwards (SpawnStack.append_layer): the result is the tensor product with
                # that layer, whatever the depth of the stack it is appended to
                ka = int(args["append"])
                xa, wa = _quad(ka, 0.0, 1.0, method)
                ss.append_layer([float(v) for v in xa], [float(v) for v in wa])
                ns = ns + [ka]
            pw = ss.unravel()
    except (TimeoutError, RecursionError, MemoryError) as e:
        return False, {"npoints": -1, "problems": ["%s: %s" % (type(e).__name__, e)]}, {"total": 1.0}, \
            "from_quadrature(%r,%s)%s: flattening the stack did not finish (%s); a few hundred points are expected" % (
                ns, method, " + appended layer" if args.get("append") else "", type(e).__name__)
    rules = [_quad(k, 0.0, 1.0, method) for k in ns]
    want = []
    for idx in itertools.product(*[range(k) for k in ns]):
        pts = tuple(float(rules[l][0][i]) for l, i in enumerate(idx))
        wt = float(np.prod([rules[l][1][i] for l, i in enumerate(idx)]))
        want.append((pts, wt))
    problems = []
    if len(pw) != len(want):
        problems.append("%d flattened points, tensor product has %d" % (len(pw), len(want)))
    else:
        for (p, wgt), (q, v) in zip(pw, want):
            if tuple(float(t) for t in p) != q or not close(float(wgt), v, max(abs(v), 1e-300), rtol=1e-12):
                problems.append("point %r weight %r, tensor product has %r %r" % (p, wgt, q, v))
                break
    tot = float(sum(wgt for _p, wgt in pw))
    if not close(tot, 1.0, 1.0, rtol=1e-11):
        problems.append("flattened weights sum to %r" % tot)
    if sizes != ns[:len(sizes)] or len(sizes) != len(ns) - (1 if args.get("append") else 0):
        problems.append("the caller's size list was changed by the builder: %r -> %r" % (ns, sizes))
    try:
        pw2 = ss_again.unravel()
    except Exception as e:  # noqa
        pw2 = None
        problems.append("a second stack built from the same size list cannot be flattened (%s)" % type(e).__name__)
    if pw2 is not None and not args.get("append") and [(tuple(float(t) for t in p), float(w_)) for p, w_ in pw2] != [(tuple(float(t) for t in p), float(w_)) for p, w_ in pw]:
        problems.append("a second stack built from the same size list differs from the first (%d vs %d points)" % (len(pw2), len(pw)))
    return not problems, {"npoints": len(pw), "total": tot, "problems": problems[:2]}, {"total": 1.0}, \
        "from_quadrature(%r,%s): %s" % (ns, method, "; ".join(problems[:2]) or "ok")


ORACLES = {"rule": oracle_rule, "stack": oracle_stack}


def _capture_ifft(n, a, b):
    """run clenshaw_curtis with np.fft.ifft wrapped to capture its input and output"""
    import mudslide.integration as integ
    cap = {}
    orig = np.fft.ifft

    def wrapped(h, *args, **kw):
        out = orig(h, *args, **kw)
        cap["h"] = np.array(h, copy=True)
        cap["out"] = np.array(out, copy=True)
        return out

    np.fft.ifft = wrapped
    try:
        x, w = integ.clenshaw_curtis(n, a, b)
    finally:
        np.fft.ifft = orig
    return x, w, cap


def run(ctx):
    ctx.rule = ("five rules x point counts n=2..64 (thorough 2..1024; odd n for Simpson) x intervals [-1,1], [0,1], "
                "random [a,b] with |a|,|b| up to 1e3 and widths 1e-3..1e3; malformed stream (even-n Simpson, n<=1, b<=a, "
                "unknown rule); spawn stacks of depth 1..4. Non-trivial = interval other than [0,1] or n>=3; distinct by "
                "(method, n, interval class)")
    ctx.assumptions += ["numpy leggauss (exact to degree 2n-1 on [-1,1]) is a parameter of the model; its "
                        "contract is re-checked per n in 60-digit arithmetic by the oracle (a test, not a theorem)",
                        "numpy.fft.ifft is modelled by its definition (inverse DFT, MudModel ccIdft); numpy's result is compared with "
                        "that definition on every captured call (monitor numpy_ifft_vs_definition)",
                        "Clenshaw-Curtis: sum of weights, nodes and end weights are Lean theorems for all n; interior positivity and "
                        "exactness to degree n-1 for all n are NOT (partial): per-n test"]
    ctx.fingerprints["mudslide/integration.py"] = fingerprint(
        "mudslide/integration.py", ["clenshaw_curtis", "midpoint", "trapezoid", "simpson", "quadrature"])
    ctx.proofs()
    rng = ctx.rng
    nmax = ctx.budget(64, 384)
    ns = sorted(set(list(range(2, 20)) + [int(v) for v in rng.integers(20, nmax + 1, size=ctx.budget(10, 30))] + [nmax]))
    intervals = [(-1.0, 1.0), (0.0, 1.0)]
    for _ in range(ctx.budget(4, 12)):
        a = float(rng.normal() * 10 ** rng.uniform(-1, 3))
        intervals.append((a, a + float(10 ** rng.uniform(-3, 3))))
    jobs = []
    for method in METHODS:
        for n in ns:
            if method == "simpson" and n % 2 == 0:
                continue
            for (a, b) in intervals:
                jobs.append((method, n, a, b))
    lines, extra = [], []
    good = []
    for method, n, a, b in jobs:
        try:
            _quad(n, a, b, method)
            good.append((method, n, a, b))
        except Exception:
            args_ = {"n": n, "a": a, "b": b, "method": method}
            ok_, obs_, req_, text_ = oracle_rule(args_)       # re-raises unless the implementation itself raised
            ctx.case(None)
            ctx.oracle_fail("rule-raised:" + method, "rule", args_, obs_, req_, text_)
    jobs = good
    skipped = set()
    for method, n, a, b in jobs:
        mi = METHODS.index(method)
        if method == "gl":
            t, w = np.polynomial.legendre.leggauss(n)
            lines.append(["quad", 3, n, fb(a), fb(b)] + fbs(t) + fbs(w))
            lines.append(["quad", 4, n, fb(a), fb(b)] + fbs(t) + fbs(w))
            extra.append(None)
            extra.append(None)
        elif method == "cc":
            x, w, cap = _capture_ifft(n, a, b)
            # the whole rule inside the model (its own inverse DFT): needs nothing captured from the implementation
            lines.append(["quad", 6, n, fb(a), fb(b), fb(np.pi)])
            extra.append(cap)
            if "out" not in cap:
                # the rule did not go through np.fft.ifft this time (a remembered result, another transform, a closed form):
                # the post-processing cannot be fed separately; the complete model above still decides the correspondence
                ctx.count("cc_without_numpy_ifft")
                skipped.add((method, n, a, b))
                continue
            lines.append(["quad", 5, n, fb(a), fb(b), fb(np.pi)] + fbs(np.real(cap["out"])))
            lines.append(["cch", n - 1])
            extra.append(cap)
            extra.append(cap)
        else:
            lines.append(["quad", mi, n, fb(a), fb(b)])
            extra.append(None)
    outs = ctx.model.run(lines)
    k = 0
    for method, n, a, b in jobs:
        x, w = _quad(n, a, b, method)
        o = outs[k]
        scale_x = max(abs(a), abs(b))
        scale_w = (b - a)
        iv = "default" if (a, b) == (-1.0, 1.0) else ("unit" if (a, b) == (0.0, 1.0) else "random")
        ctx.case((method, n, iv) if (iv != "unit" or n >= 3) else None,
                 {"op": "quad", "method": method, "n": n, "a": a, "b": b, "impl_points": x[:4], "impl_weights": w[:4]})
        ctx.count("quad:" + method)

        def cmp(o):
            mx = [unfb(t) for t in o[1:1 + n]]
            mw = [unfb(t) for t in o[1 + n:1 + 2 * n]]
            return o[0] == "ok" and allclose(mx, x, scale_x, rtol=1e-12) and allclose(mw, w, scale_w, rtol=1e-11)
        if method == "gl":
            spec_ok, pinned_ok = cmp(outs[k]), cmp(outs[k + 1])
            k += 2
            if not spec_ok:
                ctx.count("gl_matches_pinned" if pinned_ok else "gl_matches_neither")
                ctx.corr_mismatch("quad.gl", {"n": n, "a": a, "b": b},
                                  "implementation differs from the Gauss-Legendre model" +
                                  (" (matches the pinned weights*=0.5 variant)" if pinned_ok else ""))
        elif method == "cc":
            cap = extra[k]
            ok0 = cmp(outs[k])          # the complete model (own inverse DFT)
            k += 1
            if not ok0:
                ctx.corr_mismatch("quad.cc", {"n": n, "a": a, "b": b}, "points/weights differ from the complete Clenshaw-Curtis model")
            if (method, n, a, b) not in skipped:
                ok1 = cmp(outs[k])
                hm = [unfb(t) for t in outs[k + 1][1:]]
                ok2 = allclose(hm, np.real(cap["h"]), float(np.max(np.abs(cap["h"]))), rtol=1e-12) and \
                    float(np.max(np.abs(np.imag(cap["h"])))) == 0.0
                ctx.monitor("cc_ifft_imag_norm", float(np.linalg.norm(np.imag(cap["out"]))))
                # numpy's ifft against its definition (the model's ccIdft): (1/s) sum_j h_j cos(2 pi j k / s)
                sN = n - 1
                jk = np.outer(np.arange(sN), np.arange(sN))
                dft = (np.cos(2.0 * np.pi * jk / sN) @ np.real(cap["h"])) / sN
                ctx.monitor("numpy_ifft_vs_definition", float(np.max(np.abs(dft - np.real(cap["out"])))))
                k += 2
                if not (ok1 and ok2):
                    ctx.corr_mismatch("quad.cc", {"n": n, "a": a, "b": b}, "post-processing ok=%s, ifft input ok=%s" % (ok1, ok2))
        else:
            k += 1
            if not cmp(o):
                ctx.corr_mismatch("quad." + method, {"n": n, "a": a, "b": b}, "points/weights differ")
        ok, obs, req, text = oracle_rule({"n": n, "a": a, "b": b, "method": method})
        ctx.monitor("worst_moment_error:" + method, obs["worst_moment_error"])
        if not ok:
            sig = "gl-weights-not-scaled" if method == "gl" else "rule:" + method
            ctx.oracle_fail(sig, "rule", {"n": n, "a": a, "b": b, "method": method}, obs, req, text)

    # malformed stream: the model rejects what the implementation rejects
    mal = [("simpson", 4, -1.0, 1.0, "simpson-even-n", 2), ("midpoint", 1, 0.0, 1.0, "assert-n>1", 0),
           ("trapezoid", 3, 1.0, 1.0, "assert-b>a", 1), ("simpson", 8, 0.0, 2.0, "simpson-even-n", 2),
           ("cc", 3, 2.0, 1.0, "assert-b>a", 5)]
    outs = ctx.model.run([["quad", mi, n, fb(a), fb(b)] + ([fb(np.pi)] + fbs(np.zeros(n - 1)) if mi == 5 else [])
                          for (_m, n, a, b, _e, mi) in mal])
    for (method, n, a, b, err, _mi), o in zip(mal, outs):
        try:
            _quad(n, a, b, method)
            raised = None
        except (AssertionError, RuntimeError) as e:
            raised = type(e).__name__
        ctx.case(("malformed", method, err))
        ctx.count("malformed")
        if raised is None or o[0] != "err" or o[1] != err:
            ctx.corr_mismatch("quad.malformed", {"method": method, "n": n, "a": a, "b": b},
                              "impl raised %r, model said %r" % (raised, o))
    try:
        _quad(3, 0.0, 1.0, "romberg")
        ctx.corr_mismatch("quad.malformed", {"method": "romberg"}, "unknown rule accepted")
    except RuntimeError:
        pass

    # spawn stacks: tensor products
    for i in range(ctx.budget(40, 400)):
        depth = int(rng.integers(1, 5))
        method = METHODS[i % 5]
        nsamp = [int(v) for v in rng.integers(2, 6 if depth > 2 else 8, size=depth)]
        if method == "simpson":
            nsamp = [v | 1 for v in nsamp]
        a = {"nsamples": nsamp, "method": method}
        if i % 10 == 9:
            # a level with MANY points (its smallest weights are ~1e-4): every node still has to be there
            nsamp = [{"cc": 30, "gl": 70, "midpoint": 40, "trapezoid": 45, "simpson": 41}[method]] + ([2] if i % 20 == 19 else [])
            a = {"nsamples": nsamp, "method": method}
            depth = len(nsamp)
            ctx.count("stack:large_level")
        if i % 4 == 1:
            a["via_batch"] = True                   # sizes and rule handed to the batch driver as options
            ctx.count("stack:via_batch_options")
        if i % 4 == 2 or (i % 4 == 3 and depth >= 3):
            a["append"] = (int(rng.integers(2, 4)) | 1) if method == "simpson" else int(rng.integers(2, 4))   # a layer appended afterwards
            ctx.count("stack:layer_appended")
        ok, obs, req, text = oracle_stack(a)
        ctx.case(("stack", method, depth, tuple(nsamp), bool(a.get("via_batch")), bool(a.get("append"))))
        ctx.count("stack_depth:%d" % depth)
        if not ok:
            ctx.oracle_fail("stack-tensor:" + method, "stack", a, obs, req, text)

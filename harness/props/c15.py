# -*- coding: utf-8 -*-
"""C15 — a YAML log stays loadable after a crash between any two file operations."""
import builtins
import os
import shutil
import tempfile

import numpy as np

from ..core import fingerprint, safe_oracle
from . import c14


class Crash(Exception):
    pass


class Injector:
    """patches `open` as seen by mudslide.tracer: the k-th write/append/exclusive-create open (counted from
    `arm()`) raises before touching the file system: the process 'dies' between two file operations"""

    def __init__(self):
        self.count = 0
        self.fail_at = None
        self.log = []
        self.armed = False

    def __enter__(self):
        import mudslide.tracer as tr
        self.tr = tr
        inj = self

        def opener(file, mode="r", *a, **kw):
            if inj.armed and any(c in mode for c in "wax"):
                inj.count += 1
                if inj.fail_at is not None and inj.count == inj.fail_at:
                    raise Crash("injected crash before file operation %d (%s %s)" % (inj.count, mode, os.path.basename(str(file))))
                inj.log.append((mode, os.path.basename(str(file))))
            return builtins.open(file, mode, *a, **kw)
        tr.open = opener

        # removals and renames are file operations too: a process can die between a remove and a rename
        class OsProxy:
            def __getattr__(self_, name):
                return getattr(os, name)
        proxy = OsProxy()
        for fname in ("remove", "unlink", "rename", "replace"):
            def make(fname):
                real = getattr(os, fname)

                def op(*a, **kw):
                    if inj.armed:
                        inj.count += 1
                        if inj.fail_at is not None and inj.count == inj.fail_at:
                            raise Crash("injected crash before file operation %d (os.%s %s)" % (
                                inj.count, fname, " ".join(os.path.basename(str(x)) for x in a)))
                        inj.log.append((fname, os.path.basename(str(a[0])) if a else ""))
                    return real(*a, **kw)
                return op
            setattr(proxy, fname, make(fname))
        self.real_os = tr.os
        tr.os = proxy

        # file copies (YAMLTrace.clone copies its pages with shutil.copy): one file operation each
        class ShutilProxy:
            def __getattr__(self_, name):
                return getattr(shutil, name)
        sproxy = ShutilProxy()
        for fname in ("copy", "copy2", "copyfile", "move"):
            def make2(fname):
                real = getattr(shutil, fname)

                def op(*a, **kw):
                    if inj.armed:
                        inj.count += 1
                        if inj.fail_at is not None and inj.count == inj.fail_at:
                            raise Crash("injected crash before file operation %d (shutil.%s -> %s)" % (
                                inj.count, fname, os.path.basename(str(a[1])) if len(a) > 1 else ""))
                        inj.log.append((fname, os.path.basename(str(a[1])) if len(a) > 1 else ""))
                    return real(*a, **kw)
                return op
            setattr(sproxy, fname, make2(fname))
        self.real_shutil = getattr(tr, "shutil", None)
        if self.real_shutil is not None:
            tr.shutil = sproxy
        return self

    def __exit__(self, *exc):
        del self.tr.open
        self.tr.os = self.real_os
        if self.real_shutil is not None:
            self.tr.shutil = self.real_shutil
        return False


def crash_history(pitch, n, k, seed):
    """record n snapshots with page size `pitch`, dying before the k-th write-mode open counted after the first
    snapshot is on disk (k=None: no crash). returns dict(dir listing, completed, inflight, load result, ids, ops log)"""
    from mudslide.tracer import YAMLTrace, load_log
    rng = np.random.Generator(np.random.PCG64(seed))
    tmp = tempfile.mkdtemp(prefix="verif-c15-")
    res = {}
    try:
        with Injector() as inj:
            t = YAMLTrace(base_name="traj", location=tmp, log_pitch=pitch)
            snaps = [c14.make_snapshot(rng, i) for i in range(n)]
            t.collect(snaps[0])
            inj.armed = True
            inj.fail_at = k
            completed = 1
            crashed = False
            try:
                for s in snaps[1:]:
                    t.collect(s)
                    completed += 1
            except Crash:
                crashed = True
            inj.armed = False
            res["ops"] = list(inj.log)
            res["completed"] = completed
            res["crashed"] = crashed
            res["total_ops"] = inj.count
            res["dir"] = c14.listing(tmp)
            main = os.path.join(tmp, t.main_log)
            try:
                lt = load_log(main)
                got = list(lt)
                res["load"] = "ok"
                res["ids"] = [g["id"] for g in got]
                res["len"] = len(lt)
                res["content_ok"] = all(c14.same_snapshot(g, snaps[g["id"]]) for g in got)
                # continue on the reloaded trace: two more snapshots, no duplicates, no gaps
                extra = [c14.make_snapshot(rng, 1000 + i) for i in range(2)]
                for s in extra:
                    lt.collect(s)
                after = [g["id"] for g in load_log(main)]
                res["after"] = after
            except Exception as e:  # noqa
                res["load"] = type(e).__name__
                res["ids"] = []
                res["after"] = []
                res["content_ok"] = False
    finally:
        shutil.rmtree(tmp, ignore_errors=True)
    return res


@safe_oracle
def oracle_crash(args):
    """after a crash before the k-th file operation (first snapshot already on disk) the log loads, holds a prefix of the
    recorded snapshots (at most the in-flight one missing), and appending to the reloaded trace continues from it"""
    r = crash_history(args["pitch"], args["n"], args["k"], args["seed"])
    problems = []
    c = r["completed"]
    if r["load"] != "ok":
        problems.append("load_log raised %s after a crash with %d snapshots completed (page size %d)" % (r["load"], c, args["pitch"]))
    else:
        if r["ids"] not in (list(range(c)), list(range(c + 1))):
            problems.append("log holds %r: not a prefix of the %d(+1) recorded snapshots" % (r["ids"], c))
        if r["len"] != len(r["ids"]):
            problems.append("len %d but %d snapshots iterate" % (r["len"], len(r["ids"])))
        if not r["content_ok"]:
            problems.append("snapshot content changed")
        if r["after"] != r["ids"] + [1000, 1001]:
            problems.append("appending after reload gives %r, expected %r" % (r["after"], r["ids"] + [1000, 1001]))
    return not problems, {"completed": c, "load": r["load"], "ids": r["ids"], "dir": r["dir"], "problems": problems[:3]}, \
        {"load": "ok", "ids": "range(%d) or range(%d)" % (c, c + 1)}, "; ".join(problems[:2]) or "ok"


@safe_oracle
def oracle_restart_after_crash(args):
    """a trajectory whose YAML log was cut by a crash is restarted from it and continues from the prefix"""
    import mudslide
    from mudslide.tracer import YAMLTrace, load_log
    tmp = tempfile.mkdtemp(prefix="verif-c15r-")
    try:
        model = mudslide.models.scattering_models[args["model"]]()
        with Injector() as inj:
            tr = YAMLTrace(base_name="traj", location=tmp, log_pitch=args["pitch"])
            t = mudslide.TrajectorySH(model, [-3.0], [12.0], 0, tracer=tr, dt=20.0, max_steps=args["steps"],
                                      zeta_list=[1e300] * 500, seed_sequence=5)
            inj.armed = True
            inj.fail_at = args["k"] + 3        # the first snapshot needs no roll-over: ops 1.. are collects
            try:
                t.simulate()
            except Crash:
                pass
            inj.armed = False
        main = os.path.join(tmp, tr.main_log)
        log = load_log(main)
        n0 = len(log)
        problems = []
        if n0 >= 2:
            t2 = mudslide.TrajectorySH.restart(model, log, max_steps=args["steps"] + 5, zeta_list=[1e300] * 500, seed_sequence=5)
            t2.simulate()
            final = load_log(main)
            times = [s["time"] for s in final]
            if len(final) <= n0:
                problems.append("restart appended nothing")
            if any(b <= a for a, b in zip(times[:-1], times[1:])):
                problems.append("times not strictly increasing after restart: %r" % times[max(0, n0 - 2):n0 + 3])
        return not problems, {"snapshots_before": n0, "problems": problems}, {"problems": []}, "; ".join(problems) or "ok"
    finally:
        shutil.rmtree(tmp, ignore_errors=True)


@safe_oracle
def oracle_crash_in_clone(args):
    """the process dies between two file operations of YAMLTrace.clone() (a trajectory clone / an even-sampling spawn of a trace
    that already spans several pages): the original's files are untouched and still hold everything, and whatever main log the
    half-made clone left behind loads and holds a prefix of the original's snapshots"""
    from mudslide.tracer import YAMLTrace, load_log
    rng = np.random.Generator(np.random.PCG64(args["seed"]))
    tmp = tempfile.mkdtemp(prefix="verif-c15c-")
    problems = []
    try:
        with Injector() as inj:
            t = YAMLTrace(base_name="traj", location=tmp, log_pitch=args["pitch"])
            n = int(args["n"])
            for i in range(n):
                t.collect(c14.make_snapshot(rng, i))
            inj.armed = True
            inj.fail_at = args["k"]
            crashed = False
            try:
                t.clone()
            except Crash:
                crashed = True
            inj.armed = False
            total = inj.count
            first_copy = next((i + 1 for i, (kind, _f) in enumerate(inj.log) if kind in ("copy", "copy2", "copyfile", "move")), None)
        main = os.path.join(tmp, t.main_log)
        ids = [g["id"] for g in load_log(main)]
        if ids != list(range(n)):
            problems.append("after a crash inside clone() the ORIGINAL log holds %r" % (ids,))
        for fn in sorted(os.listdir(tmp)):
            if not fn.endswith(".yaml") or "-log_" in fn or fn.endswith("-events.yaml") or fn == t.main_log:
                continue
            try:
                lc = load_log(os.path.join(tmp, fn))
                cids = [g["id"] for g in lc]
                if len(lc) != len(cids):
                    problems.append("the clone's log %s says it holds %d snapshots, %d are on disk" % (fn, len(lc), len(cids)))
                elif len(cids) >= 2 and (lc[-1]["id"] != cids[-1] or lc[-2]["id"] != cids[-2]):
                    problems.append("the clone's log %s: log[-1], log[-2] are snapshots %r, %r; the last two on disk are %r"
                                    % (fn, lc[-1]["id"], lc[-2]["id"], cids[-2:]))
            except Exception as e:  # noqa
                problems.append("the clone's main log %s does not load after a crash before file operation %r of clone(): %s: %s"
                                % (fn, args["k"], type(e).__name__, str(e)[:80]))
                continue
            if cids != list(range(len(cids))) or len(cids) > n:
                problems.append("the clone's log holds %r: not a prefix of the original's %d snapshots" % (cids, n))
        return not problems, {"crashed": crashed, "file_operations_of_clone": total, "first_copy_operation": first_copy,
                              "problems": problems[:3]}, {"problems": []}, \
            "; ".join(problems[:2]) or "ok"
    finally:
        shutil.rmtree(tmp, ignore_errors=True)


ORACLES = {"crash_in_clone": oracle_crash_in_clone, "crash": oracle_crash, "restart_after_crash": oracle_restart_after_crash}


def run(ctx):
    ctx.rule = ("histories of 2..16 snapshots x page sizes 1..6 x EVERY crash point (before each write/append open after the "
                "first snapshot), exhaustive per history; then load_log, compare directory and contents with the model's "
                "prediction, append two more snapshots; real trajectories cut by a crash are restarted. Non-trivial = crash "
                "inside a page roll-over; distinct by (pitch, completed mod pitch, position inside the collect)")
    ctx.assumptions += ["granularity: an open-for-write/append + write + close is one atomic file operation (as the property "
                        "states); truncation inside one `with open(...,'w')` is outside the quantifier",
                        "fault injection patches `open`, `os.remove/unlink/rename/replace` and `shutil.copy/copy2/copyfile/move` as seen by mudslide.tracer"]
    ctx.fingerprints["mudslide/tracer.py"] = fingerprint("mudslide/tracer.py", ["collect", "write_main_log", "__init__"])
    ctx.proofs()
    rng = ctx.rng
    hist = []
    for pitch in range(1, 5 if not ctx.thorough() else 7):
        for n in sorted(set([2, pitch + 1, 2 * pitch + 1] + [int(v) for v in rng.integers(2, 17, size=ctx.budget(2, 12))])):
            hist.append((pitch, n))
    # more than ten pages (page names ...-log_10 sort before ...-log_2 as strings): crash points around the 11th and 12th page
    hist += [(1, 13), (2, 24)]
    lines, keep = [], []
    for pitch, n in hist:
        seed = int(rng.integers(1, 2 ** 31))
        full = crash_history(pitch, n, None, seed)
        total = full["total_ops"]
        # which order does the implementation use at a roll-over?  (information for the evidence)
        for k in range(1, total + 1):
            r = crash_history(pitch, n, k, seed)
            c = r["completed"]
            # number of file operations of the in-flight collect that were performed
            done_before = sum(1 for _ in range(0))  # placeholder
            keep.append((pitch, n, k, seed, r))
    # model predictions: replay with both orders, crash after j ops of collect number c (0-based id c)
    for pitch, n, k, seed, r in keep:
        c = r["completed"]
        # ops performed in the in-flight collect = k-1 - (ops of completed collects after the first)
        # recompute from the op log of this run: ops are logged only when performed
        performed = len(r["ops"])
        # completed collects 1..c-1 (0-based ids) used some ops; find j by replaying the model both ways
        base = ["trace", "new", pitch] + sum([["col", 0, i] for i in range(c)], [])
        for order in ("crash", "crashp"):
            for j in (0, 1, 2):
                lines.append(base + [order, 0, c, j, "load", 0, "dir"])
    outs = ctx.model.run(lines)
    idx = 0
    for pitch, n, k, seed, r in keep:
        c = r["completed"]
        preds = {}
        for order in ("crash", "crashp"):
            for j in (0, 1, 2):
                o = outs[idx]; idx += 1
                g = c14.split_model(o)
                nops = int(g[-3][0])
                if j <= nops:
                    preds[(order, j)] = (g[-2], g[-1])
        implload = ["ok", str(len(r["ids"])), None] if r["load"] == "ok" else [r["load"]]
        impldir = [str(x) for x in r["dir"]]

        def match(order):
            for (od, j), (ld, dr) in preds.items():
                if od != order:
                    continue
                if dr == impldir and ((ld[0] == "ok" and r["load"] == "ok" and ld[1] == str(len(r["ids"]))) or
                                      (ld[0] != "ok" and ld[0] == r["load"])):
                    return j
            return None
        jr, jp = match("crash"), match("crashp")
        inroll = (c % pitch == 0)
        ctx.case((pitch, c % pitch, jr if jr is not None else -1) if inroll else None,
                 {"op": "crash", "pitch": pitch, "n": n, "k": k, "completed": c, "impl_load": r["load"],
                  "impl_ids": r["ids"], "impl_dir": r["dir"]})
        ctx.count("crash_points")
        ctx.count("crash_in_rollover" if inroll else "crash_in_plain_append")
        if jr is not None:
            ctx.count("matches_repaired_order")
        elif jp is not None:
            ctx.pinned_match("crash-window-index-before-page", "crash", {"pitch": pitch, "n": n, "k": k, "seed": seed},
                             "directory after the crash matches the pinned order (index rewritten before the page exists)")
        else:
            ctx.corr_mismatch("crash", {"pitch": pitch, "n": n, "k": k, "seed": seed},
                              "impl load %r dir %r matches no crash point of the model" % (r["load"], r["dir"]))
        a = {"pitch": pitch, "n": n, "k": k, "seed": seed}
        ok, obs, req, text = oracle_crash(a)
        if not ok:
            sig = "crash-window-index-before-page" if (obs.get("load") == "FileNotFoundError" and inroll) else "crash-unloadable"
            ctx.oracle_fail(sig, "crash", a, obs, req, text)
    # the process dies inside YAMLTrace.clone(): every file operation of the clone of a multi-page trace
    for i in range(ctx.budget(5, 40)):
        pitch = int(rng.integers(1, 5))
        a0 = {"pitch": pitch, "n": pitch * int(rng.integers(2, 5)) + int(rng.integers(0, pitch + 1)), "seed": int(rng.integers(1, 2 ** 31)), "k": None}
        ok, obs, req, text = oracle_crash_in_clone(a0)
        total = int(obs.get("file_operations_of_clone", 0))
        if not ok:
            ctx.oracle_fail("clone-without-crash", "crash_in_clone", a0, obs, req, text)
        # (the first operations of clone() are the constructor of the new trace creating its - still empty - files: "after the
        # first snapshot has been recorded" starts, for the clone, when the recorded pages have begun to arrive: after the first copy)
        for k in range(int(obs.get("first_copy_operation") or total + 1) + 1, total + 1):
            a = dict(a0, k=k)
            ok, obs, req, text = oracle_crash_in_clone(a)
            ctx.case(("crash-in-clone", pitch, k))
            ctx.count("crash_points_inside_clone")
            if not ok:
                ctx.oracle_fail("crash-in-clone", "crash_in_clone", a, obs, req, text)
    for i in range(ctx.budget(6, 60)):
        a = {"model": ["simple", "dual", "extended"][i % 3], "pitch": int(rng.integers(1, 5)), "steps": int(rng.integers(4, 12)),
             "k": int(rng.integers(1, 10))}
        ok, obs, req, text = oracle_restart_after_crash(a)
        ctx.case(("restart-after-crash", a["pitch"], a["k"]))
        ctx.count("restart_after_crash")
        if not ok:
            ctx.oracle_fail("restart-after-crash", "restart_after_crash", a, obs, req, text)

# -*- coding: utf-8 -*-
"""C16 — trajectories stop exactly when specified and log a consistent timeline."""
import numpy as np

from ..core import fb, fbs, unfb, close, allclose, fingerprint, safe_oracle
from ..synth import ShellModel

SH_CLASSES = ["TrajectorySH", "TrajectoryCum", "Ehrenfest", "AugmentedFSSH"]


def _limits_tokens(maxsteps, maxtime, box, nd):
    toks = [int(maxsteps), fb(maxtime), int(box is not None), nd]
    if box is not None:
        lo = np.broadcast_to(np.asarray(box[0], dtype=np.float64), (nd,))
        hi = np.broadcast_to(np.asarray(box[1], dtype=np.float64), (nd,))
        for a, b in zip(lo, hi):
            toks += [fb(a), fb(b)]
    return toks


def _mk(clsname, nd, x, t, n, opts):
    import mudslide
    mass = np.ones(nd) * 2000.0
    if clsname == "AdiabaticMD":
        tr = mudslide.AdiabaticMD(ShellModel(1, mass), x, np.zeros(nd), dt=1.0, t0=t, previous_steps=n, **opts)
    else:
        tr = getattr(mudslide, clsname)(ShellModel(2, mass), x, np.zeros(nd), 0, dt=1.0, t0=t, previous_steps=n, **opts)
    return tr


def gen_pred_case(rng):
    nd = int(rng.integers(1, 4))
    dt = float(rng.choice([0.5, 1.0, 20.0, 0.1]))
    n = int(rng.integers(0, 50))
    maxsteps = int(rng.choice([-1, 0, 1, n, n + 1, max(n - 1, 0), 1000]))
    k = int(rng.integers(0, 60))
    maxtime = float(k * dt)
    t = float(maxtime + rng.choice([0.0, 1e-8, -1e-8, 2e-8, -2e-8, 0.9e-8, -0.9e-8, dt, -dt, 5 * dt, -7 * dt, 1e-9, -1e-9]))
    if rng.random() < 0.2:
        maxtime = 1e25
    box = None
    r = rng.random()
    if r < 0.4:
        b = float(rng.uniform(1, 5))
        box = ([-b] * nd, [b] * nd) if rng.random() < 0.5 else (-b, b)       # per-dimension or scalar bounds
    elif r < 0.7:
        lo = rng.uniform(-5, 0, size=nd)
        hi = lo + rng.uniform(0.5, 6, size=nd)
        box = (list(lo), list(hi))
    x = rng.uniform(-6, 6, size=nd)
    if box is not None and rng.random() < 0.3:
        lo = np.broadcast_to(np.asarray(box[0], dtype=np.float64), (nd,))
        hi = np.broadcast_to(np.asarray(box[1], dtype=np.float64), (nd,))
        j = int(rng.integers(0, nd))
        x = 0.5 * (lo + hi)
        x[j] = [lo[j], hi[j], np.nextafter(lo[j], 10), np.nextafter(hi[j], -10)][int(rng.integers(0, 4))]   # on / next to an edge
    return dict(nd=nd, n=n, t=t, maxsteps=maxsteps, maxtime=maxtime, box=box, x=x, found=bool(rng.random() < 0.5),
                fq=bool(rng.random() < 0.1), cls=str(rng.choice(SH_CLASSES + ["AdiabaticMD"])))


def impl_continue(c):
    opts = dict(max_steps=c["maxsteps"], max_time=c["maxtime"])
    if c["box"] is not None:
        opts["bounds"] = [c["box"][0], c["box"][1]]
    tr = _mk(c["cls"], c["nd"], np.array(c["x"]), c["t"], c["n"], opts)
    tr.duration["found_box"] = c["found"]
    tr.force_quit = c["fq"]
    r = bool(tr.continue_simulating())
    return r, bool(tr.duration["found_box"])


@safe_oracle
def oracle_predicate(args):
    """continue_simulating stops iff: force-quit, or step limit reached, or time within 1e-8 of / beyond the time limit,
    or outside the box after having been inside; the latch is set at the first check made inside the box"""
    c = dict(args)
    got, found = impl_continue(c)
    nd = c["nd"]
    inside = False
    if c["box"] is not None:
        lo = np.broadcast_to(np.asarray(c["box"][0], dtype=np.float64), (nd,))
        hi = np.broadcast_to(np.asarray(c["box"][1], dtype=np.float64), (nd,))
        x = np.asarray(c["x"])
        inside = bool(np.all(lo < x) and np.all(x < hi))
    stop_hard = c["fq"] or (c["maxsteps"] >= 0 and c["n"] >= c["maxsteps"]) or c["t"] >= c["maxtime"] or abs(c["t"] - c["maxtime"]) <= 1e-8
    want = not (stop_hard or (c["found"] and not inside))
    wfound = c["found"] or (inside and not stop_hard)
    ok = (got == want) and (found == wfound)
    return ok, {"continue": got, "found_box": found}, {"continue": want, "found_box": wfound}, \
        "continue_simulating=%r latch=%r, rule says %r latch %r" % (got, found, want, wfound)


def _make_run(spec, limits):
    """build a trajectory of the given class on a built-in model (hop-free: thresholds 1.0), with limits"""
    import mudslide
    opts = dict(dt=spec["dt"], t0=spec.get("t0", 0.0), trace_every=limits.get("te", 1), seed_sequence=spec["seed"],
                max_steps=limits.get("maxsteps", 100000), max_time=limits.get("maxtime", 1e25))
    if limits.get("box") is not None:
        opts["bounds"] = [limits["box"][0], limits["box"][1]]
    if spec["cls"] == "AdiabaticMD":
        nd = spec["nd"]
        H0 = np.diag(np.array(spec["k"]))
        model = mudslide.models.HarmonicModel(np.zeros(nd), 0.0, H0, np.array(spec["mass"]))
        return mudslide.AdiabaticMD(model, np.array(spec["x0"]), np.array(spec["p0"]), **opts), model
    model = mudslide.models.scattering_models[spec["model"]](representation=spec.get("representation", "adiabatic"))
    opts["zeta_list"] = [1e300] * 5000
    tr = getattr(mudslide, spec["cls"])(model, np.array(spec["x0"]), np.array(spec["p0"]), 0, **opts)
    return tr, model


def _snap_consistent(s, cls, mass):
    """energy = kinetic + potential; kinetic from the logged momentum; potential = active-state energy
    (mean-field energy for Ehrenfest, energies[0] for MD)"""
    p = np.asarray(s["momentum"])
    ke = 0.5 * float(np.sum(p * p / mass))
    if not close(s["kinetic"], ke, max(ke, 1e-300), rtol=1e-12):
        return "kinetic %r but momentum gives %r" % (s["kinetic"], ke)
    if not close(s["energy"], s["kinetic"] + s["potential"], abs(s["kinetic"]) + abs(s["potential"]), rtol=1e-14):
        return "energy != kinetic + potential"
    H = np.asarray(s["electronics"]["hamiltonian"])
    if cls == "AdiabaticMD":
        pot = float(H.ravel()[0])
    elif cls == "Ehrenfest":
        pot = float(np.real(np.trace(np.asarray(s["density_matrix"]) @ H)))
    else:
        pot = float(H[s["active"], s["active"]])
    if not close(s["potential"], pot, float(np.max(np.abs(H))) + 1e-300, rtol=1e-12):
        return "potential %r, expected %r" % (s["potential"], pot)
    return None


def check_timeline(snaps, final_nsteps, n0, t0, dt, te, limits, nd, restarting=False):
    """the property on one trace, from its own snapshots (te = 1 needed for the stop rule part)"""
    problems = []
    times = [s["time"] for s in snaps]
    if any(b <= a for a, b in zip(times[:-1], times[1:])):
        problems.append("times not strictly increasing")
    K = final_nsteps - n0
    want_idx = ([] if (restarting or n0 % te) else [0]) + [k for k in range(1, K) if (n0 + k) % te == 0] + [K]
    got_idx = [int(round((t - t0) / dt)) for t in times]
    if got_idx != want_idx:
        problems.append("logged steps %r, schedule says %r" % (got_idx[:12], want_idx[:12]))
    for k, t in zip(got_idx, times):
        if not close(t, t0 + k * dt, abs(t0) + K * abs(dt) + 1e-300, rtol=1e-12):
            problems.append("time %r is not t0 + %d dt" % (t, k))
            break
    return problems


@safe_oracle
def oracle_run(args):
    """a real run with the given limits stops at the first step at which a limit is met (judged on the positions of
    the same dynamics run without limits), logs [initial, every trace_every-th step, final once], times t0+k dt,
    and every snapshot is self-consistent"""
    spec, limits = dict(args["spec"]), dict(args["limits"])
    free, model = _make_run(spec, {"maxsteps": spec["free_steps"]})
    tr_free = free.simulate()
    pos = [np.asarray(s["position"]) for s in tr_free]
    t0, dt, nd = spec.get("t0", 0.0), spec["dt"], len(pos[0])
    # the rule, evaluated independently
    box = limits.get("box")
    lo = hi = None
    if box is not None:
        lo = np.broadcast_to(np.asarray(box[0], dtype=np.float64), (nd,))
        hi = np.broadcast_to(np.asarray(box[1], dtype=np.float64), (nd,))

    def inside(x):
        return box is not None and bool(np.all(lo < x) and np.all(x < hi))
    ms, mt = limits.get("maxsteps", 100000), limits.get("maxtime", 1e25)
    latch = False
    K = None
    t = t0
    for k in range(0, len(pos)):
        hard = (ms >= 0 and k >= ms) or t >= mt or abs(t - mt) <= 1e-8
        if hard or (latch and not inside(pos[k])):
            K = k
            break
        if inside(pos[k]):
            latch = True
        t = t + dt
    if K is None:
        return True, {"note": "limits not reached within the free run"}, {}, "ok"
    run, _ = _make_run(spec, limits)
    tr = run.simulate()
    snaps = list(tr)
    problems = []
    if K == 0:
        if len(snaps) != 0 or run.nsteps != 0:
            problems.append("a limit is met at the start but %d snapshots were logged" % len(snaps))
    else:
        if run.nsteps != K:
            problems.append("stopped after %d steps, the rule says %d" % (run.nsteps, K))
        problems += check_timeline(snaps, run.nsteps, 0, t0, dt, limits.get("te", 1), limits, nd)
        if snaps and not allclose(snaps[-1]["position"], pos[min(run.nsteps, len(pos) - 1)], 1.0, rtol=1e-12):
            problems.append("final snapshot is not the final state")
        for s in snaps:
            msg = _snap_consistent(s, spec["cls"], np.asarray(model.mass))
            if msg:
                problems.append(msg)
                break
    return not problems, {"steps": run.nsteps, "snapshots": len(snaps), "problems": problems[:3]}, {"steps": K}, \
        "; ".join(problems[:2]) or "ok"


@safe_oracle
def oracle_es_children(args):
    """every trajectory of an even-sampling batch (children included) ends only when a limit is met for ITSELF:
    step/time limit, zero weight, or outside the box after having been inside it on its own path"""
    import mudslide
    model = mudslide.models.scattering_models[args["model"]]()
    gen = mudslide.TrajGenConst(args["x0"], args["k"], 0, seed=args["seed"])
    b = mudslide.BatchedTraj(model, gen, mudslide.EvenSamplingTrajectory, samples=1, dt=args["dt"],
                             bounds=[-args["box"], args["box"]], max_steps=args["maxsteps"], spawn_stack=args["stack"],
                             quadrature=args["quadrature"], trace_every=int(args.get("every", 1)))
    tm = b.compute()
    problems = []
    every = int(args.get("every", 1))
    for tr in tm.traces:
        snaps = list(tr)
        if tr.weight == 0.0 or not snaps:
            continue
        # the step counter of every trajectory of the tree - children included - runs on from its parent's: nobody takes more than
        # max_steps steps counted from the root's start, and snapshots sit on the steps divisible by trace_every (plus the final one)
        t0_ = snaps[0]["time"]
        steps_ = [int(round((s_["time"] - t0_) / args["dt"])) for s_ in snaps]
        if steps_[-1] > args["maxsteps"]:
            problems.append("a trajectory of the tree ran %d steps although max_steps = %d (t_end = %r)" % (steps_[-1], args["maxsteps"], snaps[-1]["time"]))
        off = [st_ for st_ in steps_[:-1] if st_ % every != 0]
        if off:
            problems.append("trace_every=%d: snapshots logged at steps %r" % (every, off[:4]))
        xs = [float(s["position"][0]) for s in snaps]
        ins = [(-args["box"] < x < args["box"]) for x in xs]
        nsteps = int(round((snaps[-1]["time"] - snaps[0]["time"]) / args["dt"]))
        hard = nsteps >= args["maxsteps"] - 1
        was_inside = any(ins[:-1])
        evs = list(tr.hops) + list(tr.events.get("frustrated_hop", []))
        born = max([e["time"] for e in evs], default=None)
        if born is not None and len(evs) == 1 and snaps[-1]["time"] <= born:
            # the (only) event of this trace is its birth; nothing was logged after it: the final state of THIS trajectory
            # (at born + dt, on its target state) is missing and the trace ends with its parent's snapshot
            problems.append("child born at t=%r never logged its own state: its trace ends with the parent's snapshot at t=%r on state %d"
                            % (born, snaps[-1]["time"], snaps[-1]["active"]))
        elif not hard and not (was_inside and not ins[-1]):
            problems.append("trace of weight %.4g ends at x=%.4f t=%.1f: no limit met (inside earlier: %s)" %
                            (tr.weight, xs[-1], snaps[-1]["time"], was_inside))
        # earlier snapshots must not already satisfy the stop rule
        latch = False
        for i in range(len(snaps) - 1):
            if latch and not ins[i]:
                problems.append("trace continued after leaving the box at t=%r" % snaps[i]["time"])
                break
            latch = latch or ins[i]
    return not problems, {"traces": len(tm.traces), "problems": problems[:3]}, {"problems": []}, "; ".join(problems[:2]) or "ok"


ORACLES = {"predicate": oracle_predicate, "run": oracle_run, "es_children": oracle_es_children}


def run(ctx):
    ctx.rule = ("stop predicate: random states with max_time on / 1e-8 / 2e-8 around multiples of dt, max_steps in {-1,0,1,n,n+-1}, "
                "scalar and per-dimension boxes with positions on and next to the edges, latch on/off, force-quit, all classes "
                "incl. MD; whole runs: the dynamics are first run without limits, then the model predicts stop step and log "
                "schedule for random (max_steps, max_time, box, trace_every) and real runs are compared; even-sampling batches "
                "with spawns before box entry. Non-trivial = a limit within 2e-8 / one ulp of its threshold, or trace_every>1, "
                "or a box; distinct by (class, which limit stops, te, boundary kind)")
    ctx.assumptions += ["the dynamics are abstracted as the position stream they produce (taken from a limit-free run of the "
                        "same deterministic trajectory)"]
    ctx.fingerprints["mudslide/trajectory_sh.py"] = fingerprint(
        "mudslide/trajectory_sh.py", ["continue_simulating", "currently_interacting", "trace", "simulate", "snapshot",
                                      "duration_initialize"])
    ctx.fingerprints["mudslide/adiabatic_md.py"] = fingerprint("mudslide/adiabatic_md.py", ["continue_simulating", "simulate", "snapshot"])
    ctx.proofs()
    rng = ctx.rng

    # ---------- predicate ----------
    cases = [gen_pred_case(rng) for _ in range(ctx.budget(1500, 100000))]
    lines = [["continue"] + _limits_tokens(c["maxsteps"], c["maxtime"], c["box"], c["nd"]) +
             [c["n"], fb(c["t"]), int(c["found"]), int(c["fq"])] + fbs(c["x"]) for c in cases]
    outs = ctx.model.run(lines)
    for c, o in zip(cases, outs):
        got, found = impl_continue(c)
        near = abs(abs(c["t"] - c["maxtime"]) - 1e-8) < 3e-9
        ctx.case((c["cls"], c["maxsteps"] >= 0, c["box"] is not None, c["found"], near, got)
                 if (near or c["box"] is not None) else None,
                 {"op": "continue", "case": {k: v for k, v in c.items()}, "impl": [got, found]})
        ctx.count("predicate:%s" % ("continue" if got else "stop"))
        if o[0] != "ok" or bool(int(o[1])) != got or bool(int(o[2])) != found:
            # |t - max_time| within rounding of 1e-8: isclose evaluates |a-b| <= atol in floating point; skip exact ties
            ctx.corr_mismatch("continue", c, "model %r impl %r" % (o[1:], (got, found)))
        ok, obs, req, text = oracle_predicate(c)
        if not ok:
            ctx.oracle_fail("stop-predicate:" + c["cls"], "predicate", c, obs, req, text)

    # ---------- whole runs ----------
    nruns = ctx.budget(10, 200)
    for i in range(nruns):
        cls = (SH_CLASSES + ["AdiabaticMD"])[i % 5]
        if cls == "AdiabaticMD":
            nd = int(rng.integers(1, 4))
            spec = dict(cls=cls, nd=nd, k=list(rng.uniform(0.001, 0.01, size=nd)), mass=list(rng.uniform(500, 3000, size=nd)),
                        x0=list(rng.normal(size=nd) * 2), p0=list(rng.normal(size=nd) * 4), dt=float(rng.choice([5.0, 10.0])),
                        seed=int(rng.integers(1, 10 ** 6)), free_steps=120)
        else:
            spec = dict(cls=cls, model=str(rng.choice(["simple", "dual", "extended"])), x0=[float(-rng.uniform(2, 6))],
                        p0=[float(rng.uniform(8, 25))], dt=float(rng.choice([10.0, 20.0])), seed=int(rng.integers(1, 10 ** 6)),
                        free_steps=160)
        spec["t0"] = float(rng.choice([0.0, 3.5, -20.0]))
        if cls == "Ehrenfest" and (i // 5) % 2 == 0:
            spec["representation"] = "diabatic"        # non-diagonal H: the mean-field potential has a coherence part
        free, model = _make_run(spec, {"maxsteps": spec["free_steps"]})
        pos = [np.asarray(s["position"]) for s in free.simulate()]
        nd = len(pos[0])
        lines, lims = [], []
        for j in range(ctx.budget(6, 12)):
            te = int(rng.choice([1, 1, 2, 3, 7]))
            k = int(rng.integers(1, len(pos) - 5))
            limits = {"te": te}
            r = rng.random()
            if r < 0.3:
                limits["maxsteps"] = int(rng.choice([0, 1, k]))
            elif r < 0.6:
                limits["maxtime"] = float(spec["t0"] + k * spec["dt"] + rng.choice([0.0, 1e-8, -1e-8, 2e-8, -2e-8, 0.3 * spec["dt"]]))
            elif r < 0.75:
                # the trajectory STARTS inside the box and leaves it after m steps (m = 1: on its very first step)
                m = int(rng.choice([1, 1, 2, 5]))
                xs = np.array(pos[:m + 1])
                reach = np.max(np.abs(xs[:m] - xs[0]), axis=0) if m > 1 else np.zeros(nd)
                far = np.abs(xs[m] - xs[0])
                d = int(np.argmax(far - reach))
                w = np.full(nd, 1e6)
                w[d] = 0.5 * (far[d] + reach[d])
                if not (reach[d] < w[d] < far[d]):
                    w[d] = 0.5 * far[d]
                limits["box"] = (list(xs[0] - w), list(xs[0] + w)) if (nd > 1 or rng.random() < 0.5) else (float(xs[0][0] - w[0]), float(xs[0][0] + w[0]))
                ctx.count("box_runs_starting_inside")
            else:
                xs = np.array(pos)
                lo, hi = xs.min(axis=0), xs.max(axis=0)
                mid = xs[len(xs) // 2]
                w = np.maximum(0.25 * (hi - lo), 1e-3)
                limits["box"] = (list(mid - w), list(mid + w)) if rng.random() < 0.7 or nd > 1 else (float(mid[0] - w[0]), float(mid[0] + w[0]))
                if rng.random() < 0.3:
                    limits["maxsteps"] = int(k)
            lims.append(limits)
            lines.append(["loop"] + _limits_tokens(limits.get("maxsteps", 100000), limits.get("maxtime", 1e25), limits.get("box"), nd) +
                         [fb(spec["dt"]), te, 0, 0, fb(spec["t0"]), 0, 0] + fbs(pos[0]) + [len(pos) - 1] + fbs(np.array(pos[1:])))
        outs = ctx.model.run(lines)
        for limits, o in zip(lims, outs):
            run_, _ = _make_run(spec, limits)
            tr = run_.simulate()
            times = [float(s["time"]) for s in tr]
            ranout, msteps, nlog = int(o[1]), int(o[2]), int(o[4])
            mtimes = [unfb(o[6 + 2 * q]) for q in range(nlog)]
            which = "steps" if "maxsteps" in limits and "box" not in limits else ("time" if "maxtime" in limits else "box")
            ctx.case((cls, which, limits["te"], min(run_.nsteps, 2), spec.get("representation", "adiabatic")), {"op": "loop", "class": cls, "limits": limits,
                                                                    "impl_steps": run_.nsteps, "impl_times": times[:6],
                                                                    "model_steps": msteps, "model_times": mtimes[:6]})
            ctx.count("run:%s:%s" % (cls, which))
            if ranout:
                ctx.count("model_ran_out_of_positions")
                continue
            if msteps != run_.nsteps or len(times) != nlog or not allclose(times, mtimes, abs(spec["t0"]) + 1e4, rtol=1e-12):
                ctx.corr_mismatch("loop", {"spec": spec, "limits": limits},
                                  "model: %d steps, times %r; impl: %d steps, times %r" % (msteps, mtimes[:5], run_.nsteps, times[:5]))
            ok, obs, req, text = oracle_run({"spec": spec, "limits": limits})
            if not ok:
                ctx.oracle_fail("run-timeline:" + cls, "run", {"spec": spec, "limits": limits}, obs, req, text)

    # ---------- even-sampling children ----------
    # corpus first: a spawn on the very step at which the parent leaves the box (found by the thorough tier, seed 77)
    corpus = [dict(model="dual", x0=-5.910094565027199, k=24.449487706745874, seed=926698, dt=20.0, box=1.6821206732895315,
                   maxsteps=3000, stack=[3], quadrature="trapezoid")]
    gen = [dict(model=["extended", "simple", "dual"][i % 3], x0=float(-rng.uniform(3.5, 6)), k=float(rng.uniform(8, 25)),
                seed=int(rng.integers(1, 10 ** 6)), dt=20.0, box=float(rng.uniform(0.8, 2.5)), maxsteps=3000,
                stack=[int(rng.integers(2, 4))], quadrature=str(rng.choice(["trapezoid", "gl", "midpoint"])))
           for i in range(ctx.budget(4, 60))]
    # a child born on the step at which max_steps is reached
    for i in range(ctx.budget(3, 30)):
        gen.append(dict(model=["simple", "dual", "extended"][i % 3], x0=-4.0, k=float(rng.uniform(10, 25)), seed=int(rng.integers(1, 10 ** 6)),
                        dt=20.0, box=3.0, maxsteps=int(rng.integers(12, 40)), stack=[int(rng.integers(3, 7))], quadrature="midpoint"))
    # max_steps is what ends the run (wide box), children are born well before it; also with a logging stride
    for i in range(ctx.budget(4, 30)):
        gen.append(dict(model=["simple", "dual"][i % 2], x0=-3.0, k=float(rng.uniform(10, 20)), seed=int(rng.integers(1, 10 ** 6)),
                        dt=float(rng.choice([5.0, 10.0])), box=60.0, maxsteps=int(rng.integers(100, 160)), stack=[int(rng.integers(3, 6))],
                        quadrature=["gl", "midpoint"][i % 2], every=[1, 3, 7, 1][i % 4]))
    for a in corpus + gen:
        ok, obs, req, text = oracle_es_children(a)
        ctx.case(("es-children", a["model"], a["quadrature"], a["maxsteps"] < 3000))
        ctx.count("es_batches")
        if not ok:
            sig = "es-children"
            if "never logged its own state" in text:
                sig = "es-child-born-finished-not-logged"
            elif "no limit met" in text:
                sig = "es-child-inherits-parent-latch"
            ctx.oracle_fail(sig, "es_children", a, obs, req, text)

# -*- coding: utf-8 -*-
"""C17 — batch outcome statistics are normalised weighted frequencies of the final states."""
import io
import re
import shutil
import tempfile

import numpy as np

from ..core import fb, fbs, unfb, close, allclose, fingerprint, safe_oracle

MODELS_1D = ["simple", "dual", "extended", "super", "modelx"]
CLASSES = ["TrajectorySH", "TrajectoryCum", "Ehrenfest", "AugmentedFSSH", "EvenSamplingTrajectory"]


def run_batch(spec):
    """returns the TraceManager of one batch"""
    import mudslide
    model = mudslide.models.scattering_models[spec["model"]](mass=spec.get("mass", 2000.0))
    cls = getattr(mudslide, spec["cls"])
    gen = mudslide.TrajGenConst(spec["x0"], spec["k"], spec.get("state", 0), seed=spec["seed"])
    if spec.get("gen") == "normal":
        # momentum spread comparable to the mean: draws with a negative momentum are skipped, so the batch ends up
        # with FEWER trajectories than requested
        gen = mudslide.TrajGenNormal(spec["x0"], spec["k"], spec.get("state", 0), spec["sigma"], seed=spec["seed"], seed_traj=spec["seed"] + 1)
    kw = dict(samples=spec["samples"], dt=spec["dt"], bounds=[-abs(spec["box"]), abs(spec["box"])],
              max_steps=spec.get("max_steps", 4000), trace_every=spec.get("every", 1))
    if spec.get("zeta_list") is not None:
        kw["zeta_list"] = list(spec["zeta_list"])
    if spec["cls"] == "EvenSamplingTrajectory":
        kw["spawn_stack"] = spec.get("stack", [3])
        kw["quadrature"] = spec.get("quadrature", "gl")
    tmp = None
    tm = None
    if spec.get("store") == "yaml":
        tmp = tempfile.mkdtemp(prefix="verif-c17-")
        tm = mudslide.TraceManager(TraceType=mudslide.YAMLTrace, trace_kwargs={"location": tmp, "log_pitch": int(spec.get("pitch", 64))})
    if tm is not None:
        kw["tracemanager"] = tm          # (otherwise the constructor's own default is relied upon, as most users do)
    b = mudslide.BatchedTraj(model, gen, cls, **kw)
    res = b.compute()
    return res, model, tmp


def ends_of(tm):
    out = []
    for t in tm.traces:
        # the reference reads the trace by ITERATION (the recorded snapshots in order), not through the index lookup the
        # summary itself uses
        snaps = list(t)
        last = snaps[-1]
        nh = len(t.hops) if hasattr(t, "hops") else 0
        # the hops of a trace as ITS OWN snapshots show them (changes of the active state between consecutive snapshots)
        changes = sum(1 for a_, b_ in zip(snaps[:-1], snaps[1:]) if a_["active"] != b_["active"])
        out.append(dict(weight=float(t.weight), ndim=len(last["position"]), active=int(last["active"]),
                        pos0=float(last["position"][0]), nhops=nh, changes=changes,
                        tail_hop=bool(nh and hasattr(t, "hops") and t.hops[-1]["time"] == last["time"])))
    return out


@safe_oracle
def oracle_batch(args):
    """the outcome table equals sum_t w_t 1[t ends on (state, side)] / sum_t w_t: entries in [0,1], total 1,
    invariant under reordering; counts() is the unweighted sum; the printed hop histogram matches the traces"""
    spec = dict(args)
    if spec.get("store") != "yaml":
        # another batch was run earlier in the same process, also with the default trace manager (as readme_example.py does):
        # the batch judged below must hand back ITS trajectories only
        warm = dict(spec, samples=1, max_steps=3, cls="TrajectorySH" if spec["cls"] == "EvenSamplingTrajectory" else spec["cls"], gen=None)
        warm.pop("zeta_list", None)
        run_batch(warm)
    tm, model, tmp = run_batch(spec)
    try:
        ends = ends_of(tm)
        nst = model.nstates()
        problems = []
        if spec["cls"] != "EvenSamplingTrajectory" and spec.get("gen") != "normal" and len(ends) != int(spec["samples"]):
            problems.append("the batch of %d trajectories handed back %d traces" % (int(spec["samples"]), len(ends)))
        W = sum(e["weight"] for e in ends)
        want = np.zeros((nst, 2))
        cnt = np.zeros((nst, 2))
        for e in ends:
            side = 0 if e["pos0"] < 0.0 else 1
            want[e["active"], side] += e["weight"] / W
            cnt[e["active"], side] += 1.0
        got = np.asarray(tm.outcomes, dtype=np.float64)
        if got.shape != want.shape or not allclose(got, want, 1.0, rtol=1e-12):
            problems.append("outcomes %r, weighted frequencies %r" % (got.tolist(), want.tolist()))
        if got.size and (np.any(got < 0) or np.any(got > 1 + 1e-12) or not close(float(np.sum(got)), 1.0, 1.0, rtol=1e-12)):
            problems.append("entries outside [0,1] or not summing to one: %r" % (got.tolist(),))
        if any(e["weight"] < 0 for e in ends):
            problems.append("negative trace weight")
        if spec.get("every", 1) == 1 and spec.get("store") != "yaml":
            for j, e in enumerate(ends):
                # (a child stopped the moment it is spawned logs its hop at the time of its last snapshot: one loose event allowed)
                if e["nhops"] != e["changes"] and not (e["nhops"] == e["changes"] + 1 and e["tail_hop"]):
                    problems.append("trace %d lists %d hop events, its own snapshots show %d changes of the active state" % (j, e["nhops"], e["changes"]))
                    break
        # reordering
        perm = np.random.Generator(np.random.PCG64(spec["seed"])).permutation(len(tm.traces))
        keep = list(tm.traces)
        tm.traces = [keep[i] for i in perm]
        got2 = np.asarray(tm.outcome(), dtype=np.float64)
        tm.traces = keep
        if not allclose(got2, got, 1.0, rtol=1e-12):
            problems.append("outcome changes under reordering: %r vs %r" % (got2.tolist(), got.tolist()))
        # counts
        try:
            c = np.asarray(tm.counts(), dtype=np.float64)
            if c.shape != cnt.shape or not np.array_equal(c, cnt):
                problems.append("counts() %r, traces say %r" % (c.tolist(), cnt.tolist()))
        except Exception as e:
            problems.append("counts() raised %s: %s" % (type(e).__name__, e))
        # summary (in-memory store only: it reads .hops/.data)
        hist = None
        if spec.get("store") != "yaml":
            buf = io.StringIO()
            try:
                tm.summarize(file=buf)
                text = buf.getvalue()
                m = re.search(r"# of trajectories: (\d+)", text)
                if not m or int(m.group(1)) != len(ends):
                    problems.append("summary trajectory count")
                rows = re.findall(r"^\s*(\d+)\s+([0-9.eE+-]+)\s*$", text, flags=re.M)
                hist = [float(v) for _i, v in rows]
                maxh = max(e["nhops"] for e in ends)
                wanth = [sum(e["weight"] for e in ends if e["nhops"] == i) / W for i in range(maxh + 1)]
                if len(hist) != len(wanth) or not allclose(hist, wanth, 1.0, rtol=0, atol=2e-12):
                    problems.append("hop histogram %r, traces say %r" % (hist, wanth))
                if hist and not close(sum(hist), 1.0, 1.0, rtol=0, atol=1e-10):
                    problems.append("hop histogram sums to %r" % sum(hist))
            except Exception as e:
                problems.append("summarize() raised %s: %s" % (type(e).__name__, e))
        return not problems, {"outcomes": got, "ntraces": len(ends), "problems": problems[:4], "ends": ends[:6],
                              "hist": hist}, {"outcomes": want, "counts": cnt}, "; ".join(problems[:3]) or "ok"
    finally:
        if tmp:
            shutil.rmtree(tmp, ignore_errors=True)


@safe_oracle
def oracle_cli(args):
    """the averaged rows printed by `python -m mudslide` are the momentum followed by the row-major outcome table"""
    import mudslide
    import mudslide.__main__ as mm
    from mudslide.batch import BatchedTraj
    captured = []
    orig = BatchedTraj.compute

    def wrapped(self):
        r = orig(self)
        ends = []
        for t in r.traces:
            first, last = t[0], t[-1]
            ends.append((float(t.weight), float(np.asarray(first["momentum"]).ravel()[0]), int(last["active"]),
                         float(np.asarray(last["position"]).ravel()[0])))
        captured.append((np.array(r.outcomes, copy=True), ends, self.model.nstates()))
        return r

    BatchedTraj.compute = wrapped
    buf = io.StringIO()
    try:
        mm.main(list(args["argv"]), file=buf)
    finally:
        BatchedTraj.compute = orig
    lines = [l for l in buf.getvalue().split("\n") if l.strip()]
    problems = []
    head, rows = lines[0], lines[1:]
    if not head.startswith("# momentum"):
        problems.append("header %r" % head)
    if len(rows) != len(captured):
        problems.append("%d rows for %d batches" % (len(rows), len(captured)))
    ks = np.linspace(args["kmin"], args["kmax"], args["nk"])
    for row, (oc, ends, nst), k in zip(rows, captured, ks):
        vals = [float(v) for v in row.split()]
        want = [k] + [float(v) for v in oc.ravel()]
        if len(vals) != len(want) or not allclose(vals, want, 1.0, rtol=0, atol=6e-7):
            problems.append("row %r, table %r" % (vals, want))
        # the row is the weighted frequency table of the trajectories run AT THIS momentum (constant initial conditions)
        mine = [e for e in ends if abs(e[1] - k) <= 1e-9 * max(1.0, abs(k))]
        if len(mine) != len(ends):
            problems.append("the batch at k=%r returned %d traces, %d of them started with another momentum" % (k, len(ends), len(ends) - len(mine)))
        W = sum(e[0] for e in mine)
        tab = np.zeros((nst, 2))
        for w, _k, act, x in mine:
            tab[act, 0 if x < 0.0 else 1] += w / W
        if len(vals) == 1 + tab.size and not allclose(vals[1:], tab.ravel(), 1.0, rtol=0, atol=6e-7):
            problems.append("row at k=%r is %r; the trajectories run at this momentum give %r" % (k, vals[1:], tab.ravel().tolist()))
    return not problems, {"text": buf.getvalue()[:400], "problems": problems[:3]}, {"rows": len(captured)}, \
        "; ".join(problems[:2]) or "ok"


@safe_oracle
def oracle_continue(args):
    """the table is asked for, the trajectories are then continued from the very trace objects the manager holds (restart), and the
    table is asked for again: both times it equals the weight-normalised frequencies of the traces' CURRENT final snapshots"""
    import mudslide
    model = mudslide.models.scattering_models[args["model"]]()
    tmp = None
    tm = None
    try:
        if args.get("store") == "yaml":
            tmp = tempfile.mkdtemp(prefix="verif-c17c-")
            tm = mudslide.TraceManager(TraceType=mudslide.YAMLTrace, trace_kwargs={"location": tmp, "log_pitch": 16})
        gen = mudslide.TrajGenConst(args["x0"], args["k"], 0, seed=args["seed"])
        b = mudslide.BatchedTraj(model, gen, mudslide.TrajectorySH, tracemanager=tm, samples=args["samples"], dt=args["dt"],
                                 max_time=args["t1"], bounds=[-100.0, 100.0])
        res = b.compute()
        problems = []

        def table(tmgr):
            ends = ends_of(tmgr)
            W = sum(e["weight"] for e in ends)
            t = np.zeros((model.nstates(), 2))
            c = np.zeros((model.nstates(), 2))
            for e in ends:
                t[e["active"], 0 if e["pos0"] < 0.0 else 1] += e["weight"] / W
                c[e["active"], 0 if e["pos0"] < 0.0 else 1] += 1.0
            return t, c
        for stage in ("first", "after-continue"):
            want, cnt = table(res)
            got = np.asarray(res.outcome(), dtype=np.float64)
            if not allclose(got, want, 1.0, rtol=1e-12):
                problems.append("%s: outcome() %r, the traces' final snapshots give %r" % (stage, got.tolist(), want.tolist()))
            gc = np.asarray(res.counts(), dtype=np.float64)
            if not np.array_equal(gc, cnt):
                problems.append("%s: counts() %r, the traces give %r" % (stage, gc.tolist(), cnt.tolist()))
            if stage == "first":
                for tr in res.traces:
                    t2 = mudslide.TrajectorySH.restart(model, tr, dt=args["dt"], max_time=args["t2"], bounds=[-args["box"], args["box"]],
                                                       seed_sequence=args["seed"] + 17)
                    t2.simulate()
        return not problems, {"problems": problems[:3]}, {"problems": []}, "; ".join(problems[:2]) or "ok"
    finally:
        if tmp:
            shutil.rmtree(tmp, ignore_errors=True)


@safe_oracle
def oracle_trace_every(args):
    """how often snapshots are logged (trace_every) is bookkeeping: the outcome table, the counts and the weights of a batch do not
    depend on it - in particular for an even-sampling tree cut by max_steps on the very step a child is spawned (the child never
    runs: its last snapshot has to be its own, forced, whatever the logging stride)"""
    spec = dict(args)
    spec.pop("every", None)
    base = dict(spec, every=1)
    tmps = []
    tm1, model, _t = run_batch(base)
    tmps.append(_t)
    ref = np.asarray(tm1.outcomes, dtype=np.float64)
    w1 = sorted(float(t.weight) for t in tm1.traces)
    problems = []
    cuts = [None]
    if spec["cls"] == "EvenSamplingTrajectory":
        # the steps at which children were born in the free run: cut the run right there
        steps = sorted({int(round(t.hops[0]["time"] / spec["dt"])) for t in tm1.traces if getattr(t, "hops", None)})
        cuts = [s_ + 1 for s_ in steps[:3]] or [None]
    for cut in cuts:
        b1 = dict(base) if cut is None else dict(base, max_steps=cut)
        r1, _m, _t = run_batch(b1)
        tmps.append(_t)
        o1 = np.asarray(r1.outcomes, dtype=np.float64)
        for k in args.get("strides", [3, 7]):
            rk, _m, _t = run_batch(dict(b1, every=k))
            tmps.append(_t)
            ok_ = np.asarray(rk.outcomes, dtype=np.float64)
            if ok_.shape != o1.shape or not allclose(ok_, o1, 1.0, rtol=1e-12):
                problems.append("max_steps=%r: outcomes with trace_every=%d are %r, with trace_every=1 %r" % (cut, k, ok_.tolist(), o1.tolist()))
            if sorted(float(t.weight) for t in rk.traces) != sorted(float(t.weight) for t in r1.traces):
                problems.append("max_steps=%r: the weights of the traces depend on trace_every" % (cut,))
    for t_ in tmps:                     # (the YAML pages of these batches have been read by now)
        if t_:
            shutil.rmtree(t_, ignore_errors=True)
    return not problems, {"cuts": cuts, "reference": ref, "weights": w1[:6], "problems": problems[:3]}, {"problems": []}, \
        "; ".join(problems[:2]) or "ok"


ORACLES = {"trace_every": oracle_trace_every, "batch": oracle_batch, "cli": oracle_cli, "continue": oracle_continue}


def _specs(ctx, count):
    rng = ctx.rng
    specs = []
    for i in range(count):
        cls = CLASSES[i % 5]
        model = MODELS_1D[int(rng.integers(0, len(MODELS_1D)))]
        if cls == "AugmentedFSSH":
            model = ["simple", "dual", "extended"][int(rng.integers(0, 3))]
        spec = dict(model=model, cls=cls, x0=float(-rng.uniform(3, 6)), k=float(rng.uniform(4, 30)),
                    seed=int(rng.integers(1, 2 ** 31)), samples=int(rng.integers(1, 7)) if cls != "EvenSamplingTrajectory" else 1,
                    dt=float(rng.choice([10.0, 20.0])), box=float(rng.uniform(3, 5)))
        if spec["box"] > abs(spec["x0"]) - 0.5:
            spec["box"] = abs(spec["x0"]) - 0.5
        if cls == "EvenSamplingTrajectory":
            spec["stack"] = [int(rng.integers(2, 4)), 2][: int(rng.integers(1, 3))]
            spec["quadrature"] = str(rng.choice(["gl", "midpoint", "trapezoid"]))
        if i % 4 == 3 and cls != "AugmentedFSSH":
            spec["store"] = "yaml"
            spec["max_steps"] = 600
        if i % 5 in (0, 1) and (i // 5) % 2 == 1:
            # normally distributed initial conditions, 1/sigma ~ k: some of the requested samples are skipped
            spec.update(gen="normal", k=float(rng.uniform(8, 14)), sigma=float(rng.uniform(0.07, 0.12)), samples=int(rng.integers(6, 12)),
                        x0=-8.0, box=5.0)
        specs.append(spec)
    return specs


def run(ctx):
    ctx.rule = ("batches of 1..6 trajectories (even-sampling: whole spawned trees with unequal weights) of all five classes "
                "on the 1-D built-in models simple/dual/extended/super/modelx, random momenta 4..30, both trace stores; the "
                "model is fed the (weight, last snapshot, hop count) of every trace; permutations; CLI rows. Non-trivial = "
                ">=2 traces with distinct end cells or unequal weights; distinct by (class, model, store, #traces, #cells hit)")
    ctx.assumptions += ["the printed numbers are compared after the driver's own %12.6f rounding (6e-7 absolute)"]
    ctx.fingerprints["mudslide/tracer.py"] = fingerprint("mudslide/tracer.py", ["outcome", "counts", "summarize"])
    ctx.proofs()
    specs = _specs(ctx, ctx.budget(20, 400))
    lines, keep = [], []
    for spec in specs:
        try:
            tm, model, tmp = run_batch(spec)
        except Exception:
            ok, obs, req, text = oracle_batch(spec)      # re-raises unless the implementation itself raised
            ctx.case(None)
            ctx.oracle_fail("batch-raised:%s:%s" % (spec["cls"], spec.get("store", "memory")), "batch", spec, obs, req, text)
            continue
        try:
            ends = ends_of(tm)
            nst = model.nstates()
            maxh = max(e["nhops"] for e in ends)
            line = ["batch", nst, len(ends)]
            for e in ends:
                line += [fb(e["weight"]), e["ndim"], e["active"], fb(e["pos0"]), e["nhops"]]
            line.append(maxh)
            lines.append(line)
            keep.append((spec, np.array(tm.outcomes, dtype=np.float64), ends, nst, maxh))
        finally:
            if tmp:
                shutil.rmtree(tmp, ignore_errors=True)
    outs = ctx.model.run(lines)
    for (spec, oc, ends, nst, maxh), o in zip(keep, outs):
        moc = np.array([unfb(t) for t in o[1:1 + 2 * nst]]).reshape(nst, 2)
        cells = len({(e["active"], e["pos0"] < 0) for e in ends})
        uneq = len({e["weight"] for e in ends}) > 1
        ctx.case((spec["cls"], spec["model"], spec.get("store", "memory"), len(ends), cells)
                 if (len(ends) >= 2 and (cells >= 2 or uneq)) else None,
                 {"op": "batch", "spec": spec, "ends": ends[:5], "impl_outcomes": oc, "model_outcomes": moc})
        ctx.count("batch:%s" % spec["cls"])
        ctx.count("traces", len(ends))
        if len(ends) < spec["samples"]:
            ctx.count("batches_with_fewer_traces_than_requested")
        if o[0] != "ok" or oc.shape != moc.shape or not allclose(oc, moc, 1.0, rtol=1e-12):
            ctx.corr_mismatch("batch.outcome", spec, "model %r impl %r" % (moc.tolist(), oc.tolist()))
        ok, obs, req, text = oracle_batch(spec)
        if ok:
            mcnt = np.array([unfb(t) for t in o[1 + 2 * nst:1 + 4 * nst]]).reshape(nst, 2)
            if not np.array_equal(mcnt, req["counts"]):
                ctx.corr_mismatch("batch.counts", spec, "model %r impl %r" % (mcnt.tolist(), req["counts"].tolist()))
            if obs["hist"] is not None:
                mh = [unfb(t) for t in o[1 + 4 * nst:2 + 4 * nst + maxh]]
                if not allclose(mh, obs["hist"], 1.0, rtol=0, atol=2e-12):
                    ctx.corr_mismatch("batch.hist", spec, "model %r impl %r" % (mh, obs["hist"]))
        else:
            sig = "batch-stats"
            if "counts() raised TypeError" in text or "summarize() raised TypeError" in text:
                sig = "counts-summarize-typeerror"
            ctx.oracle_fail(sig, "batch", spec, obs, req, text)

    # batches in which EVERY trajectory hops at least once (the hop-count histogram has no zero-hop entry)
    for i in range(ctx.budget(3, 40)):
        # thresholds supplied: the first one is tiny (every trajectory hops at its first opportunity), the later ones moderate,
        # and the initial momenta differ (normal generator), so the hop counts are >= 1 and not all equal
        spec = dict(model=["simple", "dual", "simple"][i % 3], cls="TrajectorySH", x0=-6.0, k=float(ctx.rng.uniform(24, 30)),
                    seed=int(ctx.rng.integers(1, 2 ** 31)), samples=6, dt=10.0, box=4.0, gen="normal", sigma=float(ctx.rng.uniform(0.3, 0.6)),
                    zeta_list=[1e-9] + [float(v) for v in ctx.rng.random(400) * 0.25])
        ok, obs, req, text = oracle_batch(spec)
        ctx.case(("batch-all-hop", spec["model"]))
        ctx.count("batches_high_momentum")
        if "ends" in obs and min(e["nhops"] for e in obs["ends"]) >= 1:
            ctx.count("batches_where_every_trajectory_hopped")
        if not ok:
            ctx.oracle_fail("batch-stats", "batch", spec, obs, req, text)
    # the logging stride is bookkeeping (even-sampling trees are cut on the steps their children are born)
    for i in range(ctx.budget(3, 24)):
        cls = ["EvenSamplingTrajectory", "TrajectorySH", "EvenSamplingTrajectory"][i % 3]
        a = dict(model=["simple", "dual"][i % 2], cls=cls, x0=-4.0, k=float(ctx.rng.uniform(8, 20)), seed=int(ctx.rng.integers(1, 2 ** 31)),
                 samples=1 if cls == "EvenSamplingTrajectory" else 3, dt=20.0, box=3.0, max_steps=400, stack=[3], quadrature="gl", strides=[3, 7])
        if i % 3 == 2:
            a["store"] = "yaml"
            a["pitch"] = 4          # small pages: every trace of the tree rolls over several times after it was spawned
        ok, obs, req, text = oracle_trace_every(a)
        ctx.case(("trace-every", cls, a.get("store", "memory")))
        ctx.count("trace_every_invariance")
        if not ok:
            ctx.oracle_fail("outcome-depends-on-trace-every", "trace_every", a, obs, req, text)
    # tables asked for, trajectories continued from the manager's own trace objects, tables asked for again (both stores)
    for i in range(ctx.budget(2, 20)):
        a = dict(model="simple", x0=-6.0, k=float(ctx.rng.uniform(12, 20)), seed=int(ctx.rng.integers(1, 2 ** 31)), samples=4, dt=20.0,
                 t1=300.0, t2=4000.0, box=5.0, store=["yaml", "memory"][i % 2])
        ok, obs, req, text = oracle_continue(a)
        ctx.case(("continue", a["store"]))
        ctx.count("continue:" + a["store"])
        if not ok:
            ctx.oracle_fail("outcome-after-continue:" + a["store"], "continue", a, obs, req, text)

    # command-line driver rows
    for i in range(ctx.budget(3, 20)):
        rng = ctx.rng
        method = ["fssh", "cumulative-sh", "ehrenfest", "even-sampling"][i % 4]
        model = ["simple", "dual", "extended", "super"][int(rng.integers(0, 4))]
        kmin, kmax, nk = float(rng.uniform(3, 9)), float(rng.uniform(20, 32)), int(rng.integers(2, 4))
        argv = ["-a", method, "-m", model, "-k", repr(kmin), repr(kmax), "-n", str(nk), "-s", "3", "-z", str(int(rng.integers(1, 10 ** 6))),
                "-x", "-6", "-b", "4", "-T", "3000", "--sample-stack", "2"]
        a = {"argv": argv, "kmin": kmin, "kmax": kmax, "nk": nk}
        ok, obs, req, text = oracle_cli(a)
        ctx.case(("cli", method, model))
        ctx.count("cli_rows", nk)
        if not ok:
            ctx.oracle_fail("cli-row", "cli", a, obs, req, text)

# -*- coding: utf-8 -*-
"""C20 — Poisson probability scaling function (mudslide.math.poisson_prob_scale)."""
import math

import numpy as np

from ..core import fb, unfb, close, fingerprint, safe_oracle

TIGHT = 4e-15      # model and implementation perform the same operations: a few ulp
ACC = 2.5e-15      # "near machine precision": relative error against the 50-digit value
MONO_SLACK = 1e-15  # rounding slack of the monotonicity oracle (about 4 ulp at 1)


def _impl():
    from mudslide.math import poisson_prob_scale
    return poisson_prob_scale


def _exact(z):
    import mpmath as mp
    mp.mp.dps = 60
    if isinstance(z, complex):
        w = mp.mpc(z.real, z.imag)
    else:
        w = mp.mpf(z)
    if w == 0:
        return mp.mpf(1)
    return -mp.expm1(-w) / w


@safe_oracle
def oracle_accuracy(args):
    """implementation vs the 50-digit value of (1-exp(-x))/x"""
    import mpmath as mp
    f = _impl()
    if "im" in args:
        z = complex(args["re"], args["im"])
    else:
        z = float(args["re"])
    got = complex(f(z)) if isinstance(z, complex) else float(f(z))
    ex = _exact(z)
    err = abs(mp.mpmathify(got) - ex) / abs(ex)
    ok = err <= ACC
    return ok, {"value": got, "rel_err": float(err)}, {"value": complex(ex) if isinstance(z, complex) else float(ex),
                                                      "rel_err_max": ACC}, \
        "poisson_prob_scale(%r) relative error %.3g (limit %.3g)" % (z, float(err), ACC)


@safe_oracle
def oracle_monotone(args):
    """for 0 <= x < y the implementation must not increase (beyond rounding slack)"""
    f = _impl()
    x, y = float(args["x"]), float(args["y"])
    fx, fy = float(f(x)), float(f(y))
    ok = fy <= fx + MONO_SLACK and 0.0 < fy <= 1.0 and 0.0 < fx <= 1.0
    return ok, {"f(x)": fx, "f(y)": fy, "f(y)-f(x)": fy - fx}, {"f(y)-f(x) <=": MONO_SLACK, "range": "(0,1]"}, \
        "poisson_prob_scale increases from x=%r to y=%r by %.3g" % (x, y, fy - fx)


@safe_oracle
def oracle_array(args):
    """arrays are the elementwise map of the scalar function"""
    f = _impl()
    xs = np.array(args["xs"])
    out = np.asarray(f(xs))
    sc = np.array([f(v) for v in xs])
    ok = out.shape == xs.shape and bool(np.all((out == sc) | (np.isnan(out) & np.isnan(sc))))
    return ok, out, sc, "array result differs from the elementwise scalar results"


@safe_oracle
def oracle_array_sequence(args):
    """a SEQUENCE of array calls: f is a function of the values it is given. The caller updates its array in place between two calls
    (x *= c); a real and a complex array of one shape follow each other; results of earlier calls are kept and read later. Every
    result has to be the elementwise map of the scalar function at the values passed in THAT call, and stay so."""
    f = _impl()
    xs = np.array(args["xs"], dtype=np.float64)
    ys = np.array([complex(*v) for v in args["ys"]]) if args.get("ys") else None
    problems = []

    def want(arr):
        return np.array([f(v) for v in arr.ravel()]).reshape(arr.shape)

    def same(a, b):
        a, b = np.asarray(a), np.asarray(b)
        return a.shape == b.shape and bool(np.all((a == b) | (np.isnan(a) & np.isnan(b))))
    shape = tuple(args.get("shape") or (len(xs),))
    x = xs.reshape(shape).copy()
    w1 = want(x)
    r1 = f(x)
    if not same(r1, w1):
        problems.append("first call differs from the elementwise scalar results")
    x *= float(args["factor"])                      # the caller's own array, updated in place
    w2 = want(x)
    r2 = f(x)
    if not same(r2, w2):
        problems.append("after the caller updated its array in place (x *= %r) the call returns values for other arguments (max dev %.3g)"
                        % (args["factor"], float(np.nanmax(np.abs(np.asarray(r2) - w2)))))
    if not same(r1, w1):
        problems.append("the result of the FIRST call changed when the function was called again")
    if ys is not None:
        y = ys.reshape(shape)
        w3 = want(y)
        r3 = f(y)
        if not same(r3, w3):
            problems.append("a complex array after a real array of the same shape: result differs from the elementwise scalar results (max dev %.3g)"
                            % float(np.nanmax(np.abs(np.asarray(r3) - w3))))
        if not same(r2, w2):
            problems.append("the result of an earlier call changed when the function was called again")
        r4 = f(x)
        if not same(r4, w2) or not same(r3, w3):
            problems.append("real array again after the complex one: a result differs / an earlier result changed")
    return not problems, {"problems": problems[:3]}, {"problems": []}, "; ".join(problems[:2]) or "ok"


@safe_oracle
def oracle_int_typed(args):
    """a real argument carried as a Python int, a numpy integer scalar or an integer-dtype array gives the value of the same
    number as a float (integers are real arguments too)"""
    f = _impl()
    problems = []
    for v in args["values"]:
        want = float(f(float(v)))
        for name, arg in (("int", int(v)), ("np.int64", np.int64(v)), ("np.int32", np.int32(v))):
            got = f(arg)
            if not close(float(np.asarray(got)), want, abs(want), rtol=4e-15):
                problems.append("f(%s %r) = %r, f(%r) = %r" % (name, v, got, float(v), want))
    arr = np.array(args["values"], dtype=np.int64)
    got = np.asarray(f(arr), dtype=np.float64)
    want = np.array([float(f(float(v))) for v in args["values"]])
    if got.shape != want.shape or not np.all(np.abs(got - want) <= 4e-15 * np.abs(want)):
        problems.append("f(int64 array %r) = %r, elementwise float results %r" % (arr.tolist(), got.tolist(), want.tolist()))
    return not problems, {"problems": problems[:3]}, {"problems": []}, "; ".join(problems[:2]) or "ok"


@safe_oracle
def oracle_afssh_factor(args):
    """the scaling the A-FSSH exponential moment propagator APPLIES, read off the propagated moments: from the pure active state a
    and zero moments, one advance_delP gives delP[x,i,a] = 1/2 F_ia dt f(i (e_a - e_i) dt) exp(-i (e_i - e_a) dt) with
    f(z) = (1 - exp(-z))/z; gaps on both sides of the switch and far below it, all in one array; 60-digit reference, 1e-13"""
    import mpmath as mp
    mp.mp.dps = 60
    from . import c11
    gaps = [float(g) for g in args["gaps"]]
    dt = float(args["dt"])
    N = len(gaps) + 1
    levels = np.concatenate([[0.0], np.array(gaps)])           # active state 0 at the bottom, state i at +gap_i
    FM = np.zeros((N, N, 1))
    FM[0, 1:, 0] = np.array(args["F"])
    FM[1:, 0, 0] = np.array(args["F"])
    rho = np.zeros((N, N), dtype=np.complex128)
    rho[0, 0] = 1.0
    c = dict(N=N, n=1, H0=np.diag(levels), H1=np.diag(levels), d0=np.zeros((N, N, 1)), d1=np.zeros((N, N, 1)), v0=np.array([0.01]),
             v1=np.array([0.01]), rho=rho, dt=dt, mass=np.array([2000.0]), FM=FM, state=0)
    t = c11._afssh(c, "exp")
    t.state = 0
    t.delR = np.zeros((1, N, N), dtype=np.complex128)
    t.delP = np.zeros((1, N, N), dtype=np.complex128)
    e0, e1 = c11._elecs(c)
    t.advance_delP(e0, e1)
    problems, worst = [], 0.0
    for i in range(1, N):
        z = mp.mpc(0, -gaps[i - 1] * dt)                      # i (e_a - e_i) dt with e_a = 0
        want = (1 - mp.exp(-z)) / z if gaps[i - 1] != 0.0 else mp.mpf(1)
        phase = mp.exp(mp.mpc(0, -gaps[i - 1] * dt))          # exp(-i (e_i - e_a) dt)
        got = mp.mpc(complex(t.delP[0, i, 0])) / (mp.mpf(0.5) * mp.mpf(float(args["F"][i - 1])) * mp.mpf(dt) * phase)
        err = float(abs(got - want) / abs(want))
        worst = max(worst, err)
        if err > 1e-13:
            problems.append("gap x dt = %.3g: the propagator applied f = %s, (1-exp(-z))/z = %s (relative error %.3g)"
                            % (gaps[i - 1] * dt, mp.nstr(got, 17), mp.nstr(want, 17), err))
    return not problems, {"worst_relative_error": worst, "problems": problems[:3]}, {"max_relative_error": 1e-13}, \
        "; ".join(problems[:2]) or "ok"


@safe_oracle
def oracle_after_library_use(args):
    """the function's value at zero (and on arrays that contain zeros) does not depend on what else the library did before in the
    same process: after models have been evaluated in both representations and short runs have been made, f(0) = 1, f of a mixed
    array is what it is on a fresh interpreter, and numpy's floating-point error handling is what it was"""
    import mudslide
    from mudslide.math import poisson_prob_scale
    before = dict(np.geterr())
    problems = []
    try:
        ref = np.array(poisson_prob_scale(np.array([0.0, 1e-9, 1e-3, 0.5, 0.0, 3.0])))
        for name in args["models"]:
            for rep in ("adiabatic", "diabatic"):
                m = mudslide.models.scattering_models[name](representation=rep)
                e = m.update(np.array([0.3] * m.ndim()))
                m.update(np.array([0.31] * m.ndim()), electronics=e)
        m = mudslide.models.scattering_models[args["models"][0]](representation="diabatic")
        t = mudslide.TrajectorySH(m, [-1.0], [15.0], 0, dt=5.0, max_steps=4, hopping_probability="poisson", zeta_list=[1.0] * 10, seed_sequence=1)
        t.simulate()
        t = mudslide.Ehrenfest(mudslide.models.scattering_models[args["models"][0]](), [-1.0], [15.0], 0, dt=5.0, max_steps=4, seed_sequence=1)
        t.simulate()
        # the command-line front ends, run in-process (every global flag once)
        import io
        import os
        import tempfile
        from mudslide.mud import mud_main
        with tempfile.TemporaryDirectory(prefix="verif-c20-") as td:
            out = os.path.join(td, "surface.out")
            for flags in ([], ["-d"]):
                try:
                    mud_main(flags + ["surface", "-m", args["models"][0], "-n", "5", "-o", out], file=io.StringIO())
                except SystemExit:
                    pass
        for z in (0.0, 0, 0j, np.float64(0.0), np.zeros(3), np.array([0.0, 1e-9, 1e-3, 0.5, 0.0, 3.0])):
            try:
                v = np.asarray(poisson_prob_scale(z))
            except Exception as e:  # noqa
                problems.append("poisson_prob_scale(%r) raised %s: %s after the library was used" % (z, type(e).__name__, e))
                continue
            want = ref if np.ndim(z) == 1 and np.size(z) == 6 else np.ones(np.shape(z))
            if not np.array_equal(np.asarray(v, dtype=np.complex128), np.asarray(want, dtype=np.complex128)):
                problems.append("poisson_prob_scale(%r) = %r after the library was used, %r before" % (z, v.tolist(), np.asarray(want).tolist()))
        after = dict(np.geterr())
        if after != before:
            problems.append("numpy's floating-point error handling was changed by the library: %r -> %r" % (before, after))
    finally:
        np.seterr(**before)
    return not problems, {"problems": problems[:3]}, {"problems": []}, "; ".join(problems[:2]) or "ok"


ORACLES = {"afssh_factor": oracle_afssh_factor, "after_library_use": oracle_after_library_use, "accuracy": oracle_accuracy, "monotone": oracle_monotone, "array": oracle_array, "array_sequence": oracle_array_sequence, "int_typed": oracle_int_typed}


def _gen_real(ctx, n):
    rng = ctx.rng
    xs = [0.0, -0.0, 1e-3, -1e-3, np.nextafter(1e-3, 0), np.nextafter(1e-3, 1), np.nextafter(-1e-3, 0),
          np.nextafter(-1e-3, -1), 5e-324, 1e-300, 1e-16, 1e-8, 1.0, -1.0, 30.0, 700.0, -50.0]
    for k in range(1, 17):
        for s in (1, -1):
            xs.append(s * 1e-3 * (1 - 10.0 ** -k))
            xs.append(s * 1e-3 * (1 + 10.0 ** -k))
    while len(xs) < n:
        mode = rng.integers(0, 4)
        if mode == 0:
            xs.append(float(rng.choice([-1, 1]) * 10 ** rng.uniform(-12, 2.5)))
        elif mode == 1:
            xs.append(float(rng.choice([-1, 1]) * 1e-3 * (1 + rng.choice([-1, 1]) * 10 ** rng.uniform(-15, -0.3))))
        elif mode == 2:
            xs.append(float(10 ** rng.uniform(-4, -2)))
        else:
            xs.append(float(rng.uniform(0, 5)))
    return xs


def _gen_complex(ctx, n):
    rng = ctx.rng
    zs = []
    for k in range(1, 15):
        for ph in (0.5 * math.pi, -0.5 * math.pi, 0.3, 2.0):
            for s in (1, -1):
                r = 1e-3 * (1 + s * 10.0 ** -k)
                zs.append(complex(r * math.cos(ph), r * math.sin(ph)))
    while len(zs) < n:
        mode = rng.integers(0, 3)
        r = 10 ** rng.uniform(-10, 1.5) if mode else 1e-3 * (1 + rng.choice([-1, 1]) * 10 ** rng.uniform(-14, -0.3))
        if mode == 2:   # purely imaginary: how A-FSSH calls it
            zs.append(complex(0.0, float(rng.choice([-1, 1]) * r)))
        else:
            ph = rng.uniform(0, 2 * math.pi)
            zs.append(complex(r * math.cos(ph), r * math.sin(ph)))
    return zs


def run(ctx):
    ctx.rule = ("real and complex scalars: fixed boundary set around the switch |x|=1e-3 at relative distances "
                "1e-1..1e-16 on both sides, zero, subnormal, large; plus log-uniform magnitudes; arrays mixing both "
                "regimes. Non-trivial = within 10% of the switch, or complex, or |x|>1; distinct by (kind, branch, "
                "decade of distance to the switch, decade of |x|)")
    ctx.assumptions += [
        "floating-point accuracy of libm expm1/exp/sin/cos is not proved; checked against a 60-digit mpmath value",
        "model Float expm1 is a composite (no libm binding in Lean); self-tested against math.expm1 in this run",
    ]
    ctx.fingerprints["mudslide/math.py"] = fingerprint("mudslide/math.py", ["poisson_prob_scale"])
    ctx.proofs()
    rng = ctx.rng
    for i in range(ctx.budget(6, 100)):
        ng = int(rng.integers(4, 10))
        gaps = sorted(set([float(10 ** rng.uniform(-14, 1)) for _ in range(ng)] + [9.9e-4, 1.01e-3]))
        a = {"gaps": gaps, "dt": float(rng.choice([1.0, 0.37, 5.0, 50.0, 400.0])), "F": [float(rng.uniform(0.01, 0.1)) for _ in gaps]}
        ok, obs, req, text = oracle_afssh_factor(a)
        ctx.case(("afssh-factor", len(gaps)))
        ctx.count("afssh_factor_gaps", len(gaps))
        ctx.monitor("worst_afssh_applied_factor_error", float(obs.get("worst_relative_error", 0.0)))
        if not ok:
            ctx.oracle_fail("afssh-applied-scaling", "afssh_factor", a, obs, req, text)
    for ms in (["simple", "dual"], ["super", "extended"]):
        a = {"models": ms}
        ok, obs, req, text = oracle_after_library_use(a)
        ctx.case(("after-library-use", tuple(ms)))
        ctx.count("after_library_use")
        if not ok:
            ctx.oracle_fail("value-depends-on-process-state", "after_library_use", a, obs, req, text)
    f = _impl()

    # --- self-test of the model's expm1 ---
    tests = [float(v) for v in np.concatenate([
        ctx.rng.choice([-1, 1], 300) * 10 ** ctx.rng.uniform(-12, 2, 300), [1e-5, -1e-5, 0.5, -0.5, 0.0]])]
    outs = ctx.model.run([["expm1", fb(v)] for v in tests])
    for v, o in zip(tests, outs):
        got = unfb(o[1])
        if not close(got, math.expm1(v), rtol=2e-15, atol=0.0):
            ctx.corr_mismatch("selftest_expm1", {"x": v}, "model %r libm %r" % (got, math.expm1(v)))

    # --- real scalars ---
    n = ctx.budget(1500, 60000)
    xs = _gen_real(ctx, n)
    outs = ctx.model.run([["pscale", fb(x)] for x in xs])
    maxdiff = 0.0
    for x, o in zip(xs, outs):
        mval, mbranch = unfb(o[1]), int(o[2])
        ival = float(f(x))
        ibranch = int(abs(x) < 1e-3)
        dist = abs(abs(x) / 1e-3 - 1) if x != 0 else 1.0
        key = ("real", mbranch, int(math.floor(math.log10(dist))) if dist > 0 else -99,
               int(math.floor(math.log10(abs(x)))) if x != 0 else -999)
        nontriv = dist < 0.1 or abs(x) > 1
        ctx.case(key if nontriv else None, {"op": "pscale", "x": x, "impl": ival, "model": mval})
        ctx.count("real:branch=%d" % mbranch)
        if o[0] != "ok" or mbranch != ibranch or not close(mval, ival, rtol=TIGHT, atol=0.0):
            ctx.corr_mismatch("pscale", {"x": x}, "model %r (branch %d) impl %r" % (mval, mbranch, ival))
        elif math.isfinite(ival) and ival != 0:
            maxdiff = max(maxdiff, abs(mval - ival) / abs(ival))
        if abs(x) <= 700:
            ok, obs, req, text = oracle_accuracy({"re": x})
            if not ok:
                ctx.oracle_fail("series-truncation" if abs(x) < 1e-3 else "closed-form-accuracy", "accuracy",
                                {"re": x}, obs, req, text)
    ctx.monitor("max_rel_diff_model_vs_impl_real", maxdiff)

    # --- monotone pairs on x >= 0 ---
    pairs = [(float(np.nextafter(1e-3, 0)), 1e-3), (0.0, 5e-324), (0.0, 1e-3), (1e-3 - 1e-15, 1e-3)]
    pos = sorted(set(abs(x) for x in xs if abs(x) <= 700))
    for a, b in zip(pos[:-1], pos[1:]):
        pairs.append((a, b))
    for x in pos[:: max(1, len(pos) // 400)]:
        pairs.append((x, float(np.nextafter(x, np.inf))))
    for x, y in pairs:
        if not x < y:
            continue
        ctx.count("monotone_pairs")
        ok, obs, req, text = oracle_monotone({"x": x, "y": y})
        ctx.case(("mono", x < 1e-3, y < 1e-3) if (x < 1e-3) != (y < 1e-3) else None)
        if not ok:
            ctx.oracle_fail("non-monotone-at-switch" if (x < 1e-3 <= y) else "non-monotone", "monotone",
                            {"x": x, "y": y}, obs, req, text)

    # --- complex scalars ---
    zs = _gen_complex(ctx, ctx.budget(800, 30000))
    outs = ctx.model.run([["pscalec", fb(z.real), fb(z.imag)] for z in zs])
    maxdiff = 0.0
    for z, o in zip(zs, outs):
        mval = complex(unfb(o[1]), unfb(o[2]))
        mbranch = int(o[3])
        ival = complex(f(z))
        ibranch = int(abs(z) < 1e-3)
        dist = abs(abs(z) / 1e-3 - 1)
        key = ("cx", mbranch, int(math.floor(math.log10(dist))) if dist > 0 else -99,
               int(math.floor(math.log10(abs(z)))), z.real == 0.0)
        ctx.case(key, {"op": "pscalec", "z": [z.real, z.imag], "impl": [ival.real, ival.imag]})
        ctx.count("complex:branch=%d" % mbranch)
        if mbranch != ibranch and dist < 1e-13:
            ctx.near_ties += 1          # |z| computed by hypot vs sqrt(re²+im²): last-ulp tie on the switch
            continue
        sc = abs(ival)
        if mbranch != ibranch or not (close(mval.real, ival.real, sc, rtol=TIGHT, atol=0.0)
                                      and close(mval.imag, ival.imag, sc, rtol=TIGHT, atol=0.0)):
            ctx.corr_mismatch("pscalec", {"re": z.real, "im": z.imag}, "model %r impl %r" % (mval, ival))
        else:
            maxdiff = max(maxdiff, abs(mval - ival) / sc)
        ok, obs, req, text = oracle_accuracy({"re": z.real, "im": z.imag})
        if not ok:
            ctx.oracle_fail("series-truncation" if abs(z) < 1e-3 else "closed-form-accuracy", "accuracy",
                            {"re": z.real, "im": z.imag}, obs, req, text)
    ctx.monitor("max_rel_diff_model_vs_impl_complex", maxdiff)

    # --- arrays mixing regimes ---
    for _ in range(ctx.budget(30, 600)):
        k = int(ctx.rng.integers(1, 9))
        arr = [float(v) for v in ctx.rng.choice(xs, k)]
        ok, obs, req, text = oracle_array({"xs": arr})
        ctx.case(("array", k, tuple(abs(v) < 1e-3 for v in arr)))
        if not ok:
            ctx.oracle_fail("array-not-elementwise", "array", {"xs": arr}, obs, req, text)
    # sequences of array calls: in-place updates of the caller's array, real then complex of one shape, earlier results kept
    for i in range(ctx.budget(12, 300)):
        k = int(ctx.rng.choice([1, 2, 3, 4, 6, 8, 9]))
        shape = [3, 3] if k == 9 else ([2, 2] if k == 4 and i % 2 else [k])
        a = {"xs": [float(v) for v in ctx.rng.choice(xs, k)], "shape": shape, "factor": float(ctx.rng.choice([3.0, 0.5, -1.0, 1e-3, 1e3]))}
        if i % 2 == 0:
            a["ys"] = [[float(v.real), float(v.imag)] for v in ctx.rng.choice(zs, k)]
        ok, obs, req, text = oracle_array_sequence(a)
        ctx.case(("array-sequence", k, "ys" in a))
        ctx.count("array_call_sequences")
        if not ok:
            ctx.oracle_fail("array-call-sequence", "array_sequence", a, obs, req, text)
    # integer-typed real arguments
    for i in range(ctx.budget(3, 30)):
        a = {"values": [0, 1] + [int(v) for v in ctx.rng.integers(-5, 40, size=5)]}
        ok, obs, req, text = oracle_int_typed(a)
        ctx.case(("int-typed",))
        ctx.count("int_typed_argument_sets")
        if not ok:
            ctx.oracle_fail("integer-typed-argument", "int_typed", a, obs, req, text)

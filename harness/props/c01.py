# -*- coding: utf-8 -*-
"""C01 — energy conservation: accepted hops exactly; trajectories to O(dt^2)."""
import math

import numpy as np

from ..core import fb, fbs, unfb, close, allclose, fingerprint, safe_oracle
from .. import hopcommon as hc
from ..synth import SynthModel


# ------------------------------------------------------------------------------------------------
# oracles on the implementation
# ------------------------------------------------------------------------------------------------
@safe_oracle
def oracle_hop_energy(args):
    """KE + V is unchanged (1e-10 relative) by an accepted hop; a rejected hop is a no-op"""
    c = dict(args["case"])
    r = hc.impl_hop(c, args["cls"])
    ok, rel = hc.energy_check(c, r) if args["cls"] != "EvenSamplingTrajectory" else _es_energy(c, r)
    ok = ok and r["parent_ok"] and not r.get("pre_problem")
    return ok, {"state": r["state"], "velocity": r["v"], "rel_energy_error": rel, "parent_unchanged": r["parent_ok"],
                "preparatory_attempt": r.get("pre_problem")}, \
        {"rel_energy_error_max": 1e-10}, (r.get("pre_problem") or "hop %d->%d on %s changes KE+V by %.3g (relative)" % (c["s"], c["t"], args["cls"], rel))


def _es_energy(c, r):
    # the even-sampling child is rebuilt from momentum (v*m)/m: a rejected hop is a no-op up to that rounding
    if r["state"] == c["t"]:
        return hc.energy_check(c, r)
    return allclose(r["v"], c["v"], rtol=4e-16, atol=0.0) and r["state"] == c["s"], 0.0


def _patched_run(factory, nsteps_max=None):
    """run trajectories while recording KE+V around every hop_to_it call (all classes, incl. spawned children)"""
    from mudslide.trajectory_sh import TrajectorySH
    records = []
    orig = TrajectorySH.hop_to_it

    def wrapped(self, hop_targets, electronics=None):
        el = electronics if electronics is not None else self.electronics
        H = el.hamiltonian()
        before = (int(self.state), float(self.kinetic_energy()), float(H[self.state, self.state]),
                  np.array(self.velocity), np.array(self.position))
        orig(self, hop_targets, electronics)
        after = (int(self.state), float(self.kinetic_energy()), float(H[self.state, self.state]),
                 np.array(self.velocity), np.array(self.position))
        records.append((before, after, int(hop_targets[0]["target"]), id(self.tracer), float(self.time)))

    # every trace store also keeps, on the side, the rejections recorded THROUGH it (plus what its source held when it was
    # cloned): the specification of its frustrated_hop events, used by C04
    import mudslide.tracer as mt
    orig_fr = mt.Trace_.frustrated_hop

    def wrapped_fr(self, time, hop_from, hop_to, zeta, prob):
        self.__dict__.setdefault("_verif_fr", []).append((float(time), int(hop_from), int(hop_to), float(zeta)))
        return orig_fr(self, time, hop_from, hop_to, zeta, prob)
    mt.Trace_.frustrated_hop = wrapped_fr
    clones = []
    for cls_ in (mt.Trace_, mt.InMemoryTrace, mt.YAMLTrace):
        if "clone" in cls_.__dict__:
            oc = cls_.__dict__["clone"]

            def make(oc):
                def wrapped_clone(self, *a, **kw):
                    out = oc(self, *a, **kw)
                    out.__dict__["_verif_fr"] = list(self.__dict__.get("_verif_fr", []))
                    out.__dict__["_verif_inherited"] = len(out.__dict__["_verif_fr"])
                    return out
                return wrapped_clone
            clones.append((cls_, oc))
            cls_.clone = make(oc)
    TrajectorySH.hop_to_it = wrapped
    try:
        out = factory()
    finally:
        TrajectorySH.hop_to_it = orig
        mt.Trace_.frustrated_hop = orig_fr
        for cls_, oc in clones:
            cls_.clone = oc
    return out, records


def _run_spec(spec):
    """build and run one trajectory/batch from a JSON-able spec; returns (traces, hop records)"""
    import mudslide
    rng = np.random.Generator(np.random.PCG64(spec["model_seed"]))
    mass = None
    if "mass_hi" in spec:
        mass = 10 ** rng.uniform(0, spec["mass_hi"], size=spec["n"])
    model = SynthModel(rng, spec["N"], spec["n"], scale=spec.get("scale", 0.02), gap=spec.get("gap", 0.01), mass=mass)
    if spec.get("blocks"):
        # a user-defined AdiabaticModel_ (truncated auxiliary problem) whose two kept states cross at x = 0
        from ..synth import BlocksModel
        model = BlocksModel(**spec["blocks"])
    if spec.get("builtin"):
        # a built-in model with NON-DEFAULT constructor parameters (the defaults hide a factor that happens to be 1 or equal)
        model = mudslide.models.scattering_models[spec["builtin"]](**spec.get("kwargs", {}))
    if spec.get("int_mass"):
        model.mass = np.ceil(model.mass).astype(np.int64)       # a user-defined model with an integer-dtype mass vector
    if spec.get("precompute"):
        # somebody evaluated the model OBJECT itself first (to read V(x0) and choose p0, as the suite's own model tests do)
        model.compute(np.array(spec["x0"], dtype=np.float64))
    cls = hc.get_class(spec["cls"])
    x0 = np.array(spec["x0"])
    p0 = np.array(spec["p0"])
    opts = dict(dt=spec["dt"], max_steps=spec["steps"], seed_sequence=spec["seed"], trace_every=1)
    opts.update(spec.get("options", {}))

    def factory():
        if spec["cls"] == "EvenSamplingTrajectory":
            gen = mudslide.TrajGenConst(x0, p0, spec["state"], seed=spec["seed"])
            b = mudslide.BatchedTraj(model, gen, cls, samples=1, spawn_stack=spec.get("stack", [2, 2]),
                                     quadrature="midpoint", **opts)
            tm = b.compute()
            return list(tm.traces)
        rho0 = spec["state"]
        if spec.get("coherent"):
            from ..synth import random_rho
            rho0 = 0.5 * random_rho(rng, spec["N"], "pure")
            rho0[spec["state"], spec["state"]] += 0.5
            opts["state0"] = spec["state"]
        t = cls(model, x0, p0, rho0, **opts)
        return [t.simulate()]

    return _patched_run(factory)


@safe_oracle
def oracle_run_hops(args):
    """every accepted hop of a real run conserves KE+V (1e-10 relative); every rejected one is a no-op"""
    traces, recs = _run_spec(args)
    worst, nacc, nrej, bad = 0.0, 0, 0, None
    for before, after, target, _tid, _time in recs:
        if after[0] != before[0]:
            nacc += 1
            err = abs((after[1] + after[2]) - (before[1] + before[2]))
            sc = max(before[1], after[1], abs(after[2] - before[2]), 1e-300)
            worst = max(worst, err / sc)
            if err > 1e-10 * sc or not np.array_equal(after[4], before[4]):
                bad = bad or {"before": before[:3], "after": after[:3]}
        else:
            nrej += 1
            if not (np.array_equal(after[3], before[3]) and np.array_equal(after[4], before[4])):
                bad = bad or {"rejected hop changed the trajectory": [before[:3], after[:3]]}
    return bad is None, {"accepted": nacc, "rejected": nrej, "worst_rel": worst, "bad": bad}, \
        {"worst_rel_max": 1e-10}, "hop inside a %s run does not conserve energy" % args["cls"]


@safe_oracle
def oracle_drift(args):
    """hop-free runs at dt, dt/2, dt/4 over the same time: energy drift shrinks ~4x per halving"""
    drifts = []
    escale = 1e-300

    def level(k):
        spec = dict(args)
        spec["dt"] = args["dt"] / 2 ** k
        spec["steps"] = args["steps"] * 2 ** k
        spec["options"] = dict(args.get("options", {}), zeta_list=[1e300] * (spec["steps"] + 5))
        traces, _ = _run_spec(spec)
        e = np.array([s["energy"] for s in traces[0]])
        return float(np.max(np.abs(e - e[0]))), float(np.max(np.abs([s["kinetic"] for s in traces[0]]))) + 1e-300
    for k in range(3):
        d_, escale = level(k)
        drifts.append(d_)
    noise = 1e-12 * escale

    def judge(ds):
        rs = [a / max(b, 1e-300) for a, b in zip(ds[:-1], ds[1:]) if a > 100 * noise]
        # judged only when every measured ratio says "not second order" (a non-asymptotic run gives scattered ratios)
        return rs, not (rs and all(r < 2.8 for r in rs))
    ratios, ok = judge(drifts)
    if not ok:
        # a coarse step on a steep model is not in the asymptotic regime yet (clean-tree sweep, seed 202: ratios 1.6, 2.6 at dt=4,
        # 3.7, 6.6 two levels down): before judging, go down two more levels and look at the finest ratios only
        for k in (3, 4):
            d_, _e = level(k)
            drifts.append(d_)
        ratios, ok = judge(drifts[-3:])
    return ok, {"drifts": drifts, "ratios": ratios}, {"ratio_min": 2.8, "expected": 4.0}, \
        "energy drift does not shrink quadratically with dt: drifts %r" % drifts


@safe_oracle
def oracle_input_dtype(args):
    """the initial position may be handed over in any numeric dtype (float32 array, numpy float32 scalar, int): the run is the run
    from the same VALUES in double precision - same snapshots bit for bit, hence the same energies"""
    import mudslide
    model_name = args["model"]
    vals = [float(np.float32(v)) for v in args["x0"]]          # values exactly representable in single precision
    runs = {}
    for kind in ("float64", args["kind"]):
        model = mudslide.models.scattering_models[model_name]()
        x = np.array(vals, dtype=np.float64)
        if kind == "float32":
            x = np.array(vals, dtype=np.float32)
        elif kind == "float32-scalar":
            x = np.float32(vals[0])
        elif kind == "list":
            x = list(vals)
        t = getattr(mudslide, args["cls"])(model, x, np.array(args["p0"], dtype=np.float64), 0, dt=float(args["dt"]), max_steps=int(args["steps"]),
                                           zeta_list=[1e300] * (int(args["steps"]) + 5), seed_sequence=3)
        tr = t.simulate()
        runs[kind] = ([np.asarray(s_["position"]).astype(np.float64).tolist() for s_ in tr], [float(s_["energy"]) for s_ in tr],
                      str(np.asarray(t.position).dtype))
    a_, b_ = runs["float64"], runs[args["kind"]]
    problems = []
    if b_[2] != "float64":
        problems.append("the trajectory carries its position as %s when started from a %s position" % (b_[2], args["kind"]))
    if a_[0] != b_[0] or a_[1] != b_[1]:
        k_ = next((i for i, (u, v) in enumerate(zip(a_[0], b_[0])) if u != v), None)
        de = max(abs(u - v) for u, v in zip(a_[1], b_[1]))
        problems.append("started from the same values as %s the run differs from the double-precision run (first at snapshot %r; "
                        "total energies differ by up to %.3g)" % (args["kind"], k_, de))
    return not problems, {"problems": problems[:2]}, {"problems": []}, "; ".join(problems[:2]) or "ok"


@safe_oracle
def oracle_batch_energy(args):
    """a batch whose generator varies the starting point (TrajGenNormal): every trajectory's logged potential is the energy of ITS
    active state at ITS position (fresh model object, 1e-10), from the very first snapshot, and its total energy stays put
    (hop-free: thresholds out of reach; drift bounded by the discretisation error of the slowest member)"""
    import mudslide
    model = mudslide.models.scattering_models[args["model"]]()
    ns = int(args["samples"])
    gen = mudslide.TrajGenNormal(np.array([args["x0"]]), np.array([args["k"]]), 0, sigma=float(args["sigma"]), seed=args["seed"],
                                 seed_traj=int(args["seed"]))
    b = mudslide.BatchedTraj(model, gen, getattr(mudslide, args["cls"]), samples=ns, dt=float(args["dt"]), max_steps=int(args["steps"]),
                             zeta_list=[1e300] * (int(args["steps"]) + 5))
    tm = b.compute()
    problems, worst = [], 0.0
    for j, tr in enumerate(tm.traces):
        snaps = list(tr)
        for s_ in (snaps[0], snaps[len(snaps) // 2], snaps[-1]):
            fresh = mudslide.models.scattering_models[args["model"]]().update(np.array(s_["position"], dtype=np.float64))
            want = float(np.asarray(fresh.hamiltonian())[s_["active"], s_["active"]])
            if abs(want - s_["potential"]) > 1e-10 * (1 + abs(want)):
                problems.append("trajectory %d, t=%r: logged potential %r, energy of state %d at its position %r is %r"
                                % (j, s_["time"], s_["potential"], s_["active"], list(np.asarray(s_["position"])), want))
                break
        e = np.array([s_["energy"] for s_ in snaps])
        ke = max(float(np.max([s_["kinetic"] for s_ in snaps])), 1e-300)
        worst = max(worst, float(np.max(np.abs(e - e[0]))) / ke)
        if float(np.max(np.abs(e - e[0]))) > 1e-3 * ke:
            problems.append("trajectory %d: total energy moves by %.3g (kinetic energy %.3g) in a hop-free run" % (j, float(np.max(np.abs(e - e[0]))), ke))
    return not problems, {"trajectories": len(tm.traces), "worst_relative_drift": worst, "problems": problems[:3]}, {"problems": []}, \
        "; ".join(problems[:2]) or "ok"


@safe_oracle
def oracle_restart_energy(args):
    """a run stopped right after a step with an accepted hop, restarted from its log and continued: the total energy of the
    combined log stays where the uninterrupted run has it (no jump at the restart)"""
    from . import c13
    eu, er, n_before = c13.energies_of(dict(args))
    eu, er = np.array(eu), np.array(er)
    drift_u = float(np.max(np.abs(eu - eu[0])))
    n = min(len(eu), len(er))
    dev = float(np.max(np.abs(er[:n] - eu[:n]))) if n else 0.0
    ok = len(er) == len(eu) and dev <= 10 * drift_u + 1e-10
    return ok, {"restart_at": n_before, "uninterrupted_drift": drift_u, "max_energy_difference": dev, "lengths": [len(eu), len(er)]}, \
        {"max_energy_difference": "<= 10 x drift of the uninterrupted run"}, \
        "after the restart at snapshot %d the logged total energy differs from the uninterrupted run by %.3g (its own drift: %.3g)" % (n_before, dev, drift_u)


ORACLES = {"input_dtype": oracle_input_dtype, "batch_energy": oracle_batch_energy, "restart_energy": oracle_restart_energy, "hop_energy": oracle_hop_energy, "run_hops": oracle_run_hops, "drift": oracle_drift}


# ------------------------------------------------------------------------------------------------
def _run_specs(ctx, count, only=None):
    rng = ctx.rng
    specs = []
    for i in range(count):
        N = int(rng.integers(2, 5))
        n = int(rng.integers(1, 4))
        cls = only or hc.CLASSES[i % 4]
        spec = dict(cls=cls, N=N, n=n, model_seed=int(rng.integers(1, 10 ** 6)), seed=int(rng.integers(1, 10 ** 6)),
                    x0=list(rng.normal(size=n) * 0.5), p0=list(rng.normal(size=n) * 8.0 + 3.0),
                    state=int(rng.integers(0, N)), dt=float(rng.choice([0.25, 0.5, 1.0])), steps=int(ctx.budget(150, 400)),
                    scale=0.1, gap=0.0, mass_hi=1.5, coherent=bool(cls != "EvenSamplingTrajectory"))
        spec["p0"] = list(rng.normal(size=n) * 2.0 + 1.0)
        if cls == "AugmentedFSSH" and N != 2:
            spec["N"] = 2           # the collapse branch asserts two states
            spec["state"] = spec["state"] % 2
        specs.append(spec)
    return specs


def run(ctx):
    ctx.rule = ("hop cases: n=1..4 dims, N=2..5 states, masses log-uniform 1..1e4 (unequal), direction random/zero "
                "components/aligned, gap placed at relative distance 1e-13..0.3 on both sides of the acceptance "
                "threshold or downward; applied to TrajectorySH, TrajectoryCum, AugmentedFSSH, EvenSampling child. "
                "Verlet steps and whole runs on synthetic multi-state multi-D diabatic models. Non-trivial = n>=2 or "
                "unequal masses or |delta|<1e-3; distinct by (class, n, N, accepted, up/down, decade of delta)")
    ctx.assumptions += [
        "np.roots (companion-matrix eigenvalues) is modelled by the closed-form smaller root; residual monitored",
        "O(dt^2) drift for a general smooth potential is not a Lean theorem (harmonic case is); tested by Richardson ratios",
    ]
    ctx.fingerprints["mudslide/trajectory_sh.py"] = fingerprint(
        "mudslide/trajectory_sh.py", ["hop_allowed", "rescale_component", "hop_to_it", "advance_position",
                                      "advance_velocity", "kinetic_energy", "total_energy"])
    ctx.proofs()
    rng = ctx.rng

    # ---------------- function level: hop_to_it on every class ----------------
    cases = [hc.make_case(rng) for _ in range(ctx.budget(500, 50000))]
    outs = ctx.model.run([hc.model_line(c) for c in cases])
    for i, (c, o) in enumerate(zip(cases, outs)):
        cls = hc.CLASSES[i % 4]
        m = hc.parse_model(c, o)
        ok, obs, req, text = oracle_hop_energy({"case": c, "cls": cls})
        if "exception" in obs:
            ctx.case(None)
            ctx.oracle_fail("hop-energy:" + cls, "hop_energy", {"case": c, "cls": cls}, obs, req, text)
            continue
        if not ok:
            ctx.oracle_fail("hop-energy:" + cls, "hop_energy", {"case": c, "cls": cls}, obs, req, text)
        r = hc.impl_hop(c, cls)
        nontriv = c["n"] >= 2 or abs(c["delta"]) < 1e-3
        key = (cls, c["n"], c["N"], r["accepted"], c["kind"],
               int(math.floor(math.log10(abs(c["delta"])))) if c["delta"] else 0)
        ctx.case(key if nontriv else None,
                 {"op": "hop", "class": cls, "mass": c["mass"], "v": c["v"], "d": c["d"], "E": c["E"], "s": c["s"],
                  "t": c["t"], "impl_accepted": r["accepted"], "impl_v": r["v"], "model_v": m["v"]})
        ctx.count("hop:%s:%s" % (c["kind"], "acc" if r["accepted"] else "rej"))
        ok_acc, marg = hc.margin(c)
        if r["accepted"] != m["accepted"]:
            if marg < 1e-12:
                ctx.near_ties += 1
                continue
            ctx.corr_mismatch("hop.accepted", c, "model %d impl %d on %s" % (m["accepted"], r["accepted"], cls))
            continue
        vs = max(float(np.max(np.abs(c["v"]))), float(np.max(np.abs(r["v"]))), 1e-300)
        # exact tie of the two roots (v.u = 0): either sign conserves energy; accept the mirrored root
        tie_roots = abs(m["b"]) <= 1e-14 * math.sqrt(abs(m["a"] * m["c"]) + 1e-300)
        near_double = m["accepted"] and abs(m["sbig"] - m["s"]) <= 1e-3 * abs(m["s"])     # ill-conditioned root (see C04)
        if r["state"] != m["state"] or not (allclose(r["v"], m["v"], vs, rtol=1e-6 if near_double else 1e-9) or tie_roots):
            ctx.corr_mismatch("hop.velocity", c, "model v %r impl v %r on %s" % (m["v"], r["v"], cls))
        # contract of the root finder the model replaces: residual of the quadratic at the model's root
        if m["accepted"]:
            res = abs(m["a"] * m["s"] ** 2 + m["b"] * m["s"] + m["c"])
            ctx.monitor("max_quadratic_residual_rel", res / max(abs(m["c"]), abs(m["b"] * m["s"]), 1e-300))

    # ---------------- kinetic energy / Verlet step ----------------
    from mudslide.trajectory_sh import TrajectorySH
    from mudslide.adiabatic_md import AdiabaticMD
    from ..synth import ShellModel, FakeElec
    lines, vcases = [], []
    for i in range(ctx.budget(200, 5000)):
        n = int(rng.integers(1, 6))
        mass = 10 ** rng.uniform(0, 4, size=n)
        if i % 10 >= 8:
            mass = np.ceil(mass)          # integer-valued: handed to the trajectory as an int64 array below
        x = rng.normal(size=n)
        v = rng.normal(size=n) * 0.01
        F0 = rng.normal(size=n) * 0.05
        F1 = rng.normal(size=n) * 0.05
        dt = float(10 ** rng.uniform(-1, 1.5))
        vcases.append((n, mass, x, v, F0, F1, dt))
        lines.append(["verlet", n] + fbs(mass) + fbs(x) + fbs(v) + fbs(F0) + fbs(F1) + [fb(dt)])
    outs = ctx.model.run(lines)
    for i, ((n, mass, x, v, F0, F1, dt), o) in enumerate(zip(vcases, outs)):
        mx = np.array([unfb(t) for t in o[1:1 + n]])
        mv = np.array([unfb(t) for t in o[1 + n:1 + 2 * n]])
        mke = unfb(o[1 + 2 * n])
        e0 = FakeElec([0.0], forces=F0.reshape(1, n))
        e1 = FakeElec([0.0], forces=F1.reshape(1, n))
        shell = ShellModel(1, mass.astype(np.int64), dtype=None) if i % 10 >= 8 else ShellModel(1, mass)
        if i % 10 >= 8:
            ctx.count("verlet:int64_masses")
        if i % 2 == 0:
            t = TrajectorySH(shell, x, v * mass, 0, dt=dt)
        else:
            t = AdiabaticMD(shell, x, v * mass, dt=dt)
        t.velocity = np.array(v)
        t.advance_position(None, e0)
        t.advance_velocity(e0, e1)
        ke = float(t.kinetic_energy())
        ctx.case(("verlet", n, i % 2) if n >= 2 else None)
        ctx.count("verlet:" + type(t).__name__)
        if not (allclose(t.position, mx, max(1.0, float(np.max(np.abs(mx))))) and
                allclose(t.velocity, mv, float(np.max(np.abs(mv)))) and close(ke, mke, max(ke, 1e-300))):
            ctx.corr_mismatch("verlet", {"mass": mass, "x": x, "v": v, "F0": F0, "F1": F1, "dt": dt},
                              "model x %r v %r ke %r; impl x %r v %r ke %r" % (mx, mv, mke, t.position, t.velocity, ke))

    # ---------------- run level ----------------
    # (batches of random runs are added until a minimum of accepted and rejected hops has been seen: see C04)
    specs = _run_specs(ctx, ctx.budget(16, 200))
    seen_acc = seen_rej = 0
    k_ = -1
    while True:
        k_ += 1
        if k_ >= len(specs):
            if (seen_acc >= 60 and seen_rej >= 20) or len(specs) >= ctx.budget(64, 400):
                break
            specs += _run_specs(ctx, 8)
            ctx.count("run_batches_added_for_minimum_events")
        spec = specs[k_]
        ok, obs, req, text = oracle_run_hops(spec)
        seen_acc += int(obs.get("accepted", 0))
        seen_rej += int(obs.get("rejected", 0))
        ctx.case(("run", spec["cls"], spec["N"], spec["n"], obs["accepted"] > 0, obs["rejected"] > 0), None)
        ctx.count("run:%s" % spec["cls"])
        ctx.count("run_hops_accepted", obs["accepted"])
        ctx.count("run_hops_rejected", obs["rejected"])
        ctx.monitor("worst_rel_hop_energy_error_in_runs", obs["worst_rel"])
        if not ok:
            ctx.oracle_fail("run-hop-energy:" + spec["cls"], "run_hops", spec, obs, req, text)
    for j, spec in enumerate(_run_specs(ctx, ctx.budget(6, 40))):
        spec["cls"] = "TrajectorySH"
        spec["steps"] = 40
        spec.pop("mass_hi")
        if j % 3 == 2:
            spec["int_mass"] = True
        if j % 2 == 1:
            spec["precompute"] = True
        spec["dt"] = float(rng.choice([1.0, 2.0, 4.0]))
        spec["p0"] = list(rng.normal(size=spec["n"]) * 8.0 + 3.0)
        # smooth, well separated surfaces (the hop runs above use gap = 0: near-degenerate random models, whose adiabatic surfaces
        # have features far narrower than any of the time steps tried - clean-tree sweep, seed 402: no convergence down to dt/16)
        spec["gap"] = 0.04
        spec["scale"] = 0.03
        ok, obs, req, text = oracle_drift(spec)
        ctx.case(("drift", spec["N"], spec["n"]))
        ctx.count("drift_runs")
        for r_ in obs["ratios"]:
            ctx.monitor("max_drift_ratio", r_)
        if not ok:
            ctx.oracle_fail("energy-drift-order", "drift", spec, obs, req, text)
    # hop-free runs on the built-in models with non-default parameters: the force has to be minus the gradient of THAT potential
    for j in range(ctx.budget(4, 40)):
        name = ["models", "modelx", "simple", "dual", "extended", "super"][j % 6]
        kw = {"models": dict(a=float(rng.uniform(0.02, 0.04)), b=float(rng.choice([0.5, 2.0, 1.5])), xp=float(rng.uniform(5, 8))),
              "modelx": dict(a=float(rng.uniform(0.02, 0.04)), b=float(rng.choice([0.5, 2.0, 1.5])), xp=float(rng.uniform(5, 8))),
              "simple": dict(a=float(rng.uniform(0.005, 0.02)), b=float(rng.uniform(0.8, 2.5))),
              "dual": dict(a=float(rng.uniform(0.05, 0.2)), b=float(rng.uniform(0.2, 0.5)), e=float(rng.uniform(0.03, 0.08))),
              "extended": dict(b=float(rng.uniform(0.05, 0.2)), c=float(rng.uniform(0.5, 1.5))),
              "super": dict(v22=float(rng.uniform(0.005, 0.02)))}[name]
        nst = 3 if name in ("models", "modelx", "super") else 2
        spec = dict(cls="TrajectorySH", builtin=name, kwargs=kw, N=nst, n=1, model_seed=1, seed=int(rng.integers(1, 10 ** 6)),
                    x0=[-9.0 if name in ("models", "modelx") else -4.0], p0=[float(rng.uniform(15.0, 25.0))], state=int(rng.integers(0, nst)),
                    dt=4.0, steps=int(rng.integers(250, 350)) if name in ("models", "modelx") else 120)
        ok, obs, req, text = oracle_drift(spec)
        ctx.case(("drift-builtin", name))
        ctx.count("drift_runs_on_builtin_models_with_non_default_parameters")
        if not ok:
            ctx.oracle_fail("energy-drift-order", "drift", spec, obs, req, text)
    # the initial position in other numeric dtypes
    for j in range(ctx.budget(4, 24)):
        a = dict(model=["simple", "dual"][j % 2], cls=["TrajectorySH", "TrajectoryCum", "Ehrenfest"][j % 3], kind=["float32", "float32-scalar", "list", "float32"][j % 4],
                 x0=[float(rng.uniform(-2.0, -0.5))], p0=[float(rng.uniform(10, 25))], dt=float(rng.choice([1.0, 4.0])), steps=30)
        ok, obs, req, text = oracle_input_dtype(a)
        ctx.case(("input-dtype", a["kind"], a["cls"]))
        ctx.count("runs_started_from_non_double_positions")
        if not ok:
            ctx.oracle_fail("input-dtype", "input_dtype", a, obs, req, text)
    # batches whose members start at DIFFERENT points
    for j in range(ctx.budget(2, 12)):
        a = dict(model=["simple", "dual"][j % 2], cls=["TrajectorySH", "TrajectoryCum"][(j // 2) % 2], samples=4, x0=float(rng.uniform(-1.5, -0.5)),
                 k=float(rng.uniform(15, 25)), sigma=float(rng.uniform(0.5, 2.0)), seed=int(rng.integers(1, 10 ** 6)), dt=float(rng.choice([1.0, 2.0])), steps=40)
        ok, obs, req, text = oracle_batch_energy(a)
        ctx.case(("batch-energy", a["model"], a["cls"]))
        ctx.count("batch_energy_trajectories", int(obs.get("trajectories", 0)))
        if not ok:
            ctx.oracle_fail("batch-energy", "batch_energy", a, obs, req, text)
    # a single-surface run THROUGH a symmetry-allowed crossing of a truncated (AdiabaticModel_) problem: the continued state has
    # overlap exactly zero with its reference there; the surfaces are twice differentiable, so the drift still shrinks ~4x
    for j in range(ctx.budget(1, 6)):
        nd = 1 + j % 2
        bk = dict(ndim=nd, mass=[2000.0, 500.0][:nd], k=0.01, g=float(rng.uniform(0.003, 0.005)), D=0.2, t=0.03)
        spec = dict(cls=["TrajectorySH", "TrajectoryCum"][j % 2], blocks=bk, N=2, n=nd, model_seed=1, seed=int(rng.integers(1, 10 ** 6)),
                    x0=[-1.0, 0.3][:nd], p0=[float(rng.uniform(8.0, 12.0)), 1.0][:nd], state=0, dt=4.0, steps=160)
        ok, obs, req, text = oracle_drift(spec)
        ctx.case(("drift-through-crossing", nd, spec["cls"]))
        ctx.count("drift_runs_through_symmetry_allowed_crossing")
        if not ok:
            ctx.oracle_fail("energy-drift-order", "drift", spec, obs, req, text)
    # stop / restart / continue with hops around the interruption point
    for i in range(ctx.budget(2, 20)):
        K = int(rng.integers(24, 36))
        spec = dict(cls="TrajectorySH", builtin=["simple", "dual"][i % 2], x0=-1.5, p0=float(rng.uniform(14, 22)), N=2, n=1, model_seed=1,
                    dt=10.0, t0=0.0, K=K, rule="max_steps", pitch=4, zetas=[float(v) for v in 0.02 * rng.random(K + 4)])
        for k in range(2, K - 1, 1 if ctx.thorough() else 2):
            a = dict(spec, k=k)
            ok, obs, req, text = oracle_restart_energy(a)
            ctx.case(("restart-energy", spec["builtin"], k))
            ctx.count("restart_energy_points")
            if not ok:
                ctx.oracle_fail("energy-jump-at-restart", "restart_energy", a, obs, req, text)

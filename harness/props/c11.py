# -*- coding: utf-8 -*-
"""C11 — A-FSSH moments: Hermitian, re-centred at hops, zeroed at collapses."""
import shutil
import tempfile

import numpy as np
import yaml

from ..core import fb, fbs, cbs, unfb, close, allclose, fingerprint, safe_oracle
from ..synth import FakeElec, random_hermitian
from .. import eleccommon as ec


def _herm3(rng, n, N, scale=1.0):
    return np.array([random_hermitian(rng, N, scale) for _ in range(n)])


def _afssh(c, mode, integ="exp"):
    t = ec.make_traj(c, integ, cls="AugmentedFSSH", augmented_integration=mode)
    return t


def _case(rng, N=None):
    c = ec.elec_case(rng, N=N or int(rng.integers(2, 7)), n=int(rng.integers(1, 4)), rho_kind=["pure", "mixed"][int(rng.integers(0, 2))])
    N, n = c["N"], c["n"]
    c["delR"] = _herm3(rng, n, N, 0.3)
    c["delP"] = _herm3(rng, n, N, 2.0)
    fm = rng.normal(size=(N, N, n)) * 0.05
    c["FM"] = 0.5 * (fm + np.transpose(fm, (1, 0, 2)))
    c["state"] = int(rng.integers(0, N))
    if rng.random() < 0.15:
        c["mass"] = np.ceil(np.asarray(c["mass"], dtype=np.float64))
        c["int_mass"] = True
    return c


def _elecs(c):
    e0, e1 = ec.elecs(c)
    N = c["N"]
    for e in (e0, e1):
        e._fm = np.array(c["FM"])
        e._forces = np.array([c["FM"][i, i, :] for i in range(N)])
    return e0, e1


def impl_moments(c, mode, which):
    t = _afssh(c, mode)
    t.state = c["state"]
    t.delR = np.array(c["delR"])
    t.delP = np.array(c["delP"])
    e0, e1 = _elecs(c)
    H = t.hamiltonian_propagator(e0, e1)
    with ec.EighCapture() as cap:
        if which == "R":
            t.advance_delR(e0, e1)
        else:
            t.advance_delP(e0, e1)
    return t, H, cap


def _herm_err(X):
    return float(np.max(np.abs(X - np.conj(np.transpose(X, (0, 2, 1))))))


@safe_oracle
def oracle_hermitian(args):
    """starting from Hermitian moments, advance_delR / advance_delP (exp and rk4) return Hermitian moments"""
    c = {k: (np.array(v) if isinstance(v, (list, np.ndarray)) else v) for k, v in args["case"].items()}
    t, H, cap = impl_moments(c, args["mode"], args["which"])
    X = t.delR if args["which"] == "R" else t.delP
    err = _herm_err(X)
    sc = float(np.max(np.abs(X))) + 1e-300
    ok = err <= 1e-10 * sc
    return ok, {"hermiticity_error": err, "scale": sc}, {"max_rel": 1e-10}, \
        "del%s after the %s integrator is not Hermitian (%.3g)" % (args["which"], args["mode"], err)


@safe_oracle
def oracle_hop_shift(args):
    """after an accepted hop to t the moments are shifted by t's diagonal: diagonal of t vanishes, all differences of
    diagonal moments are unchanged, Hermiticity kept; off-diagonals untouched"""
    c = {k: (np.array(v) if isinstance(v, (list, np.ndarray)) else v) for k, v in args["case"].items()}
    t = _afssh(c, "exp")
    t.delR = np.array(c["delR"])
    t.delP = np.array(c["delP"])
    tgt = int(args["target"])
    t.hop_update(int(args["source"]), tgt)
    problems = []
    for name, new, old in (("delR", t.delR, c["delR"]), ("delP", t.delP, c["delP"])):
        N = c["N"]
        dn = np.array([[new[x, i, i] for i in range(N)] for x in range(c["n"])])
        do = np.array([[old[x, i, i] for i in range(N)] for x in range(c["n"])])
        if np.max(np.abs(dn[:, tgt])) > 1e-14:
            problems.append("%s diagonal of the new active state is %r" % (name, dn[:, tgt].tolist()))
        dd_new = dn[:, :, None] - dn[:, None, :]
        dd_old = do[:, :, None] - do[:, None, :]
        if np.max(np.abs(dd_new - dd_old)) > 1e-12 * (1 + float(np.max(np.abs(do)))):
            problems.append("%s: differences between diagonal moments changed" % name)
        off_new = new - np.array([np.diag(np.diag(new[x])) for x in range(c["n"])])
        off_old = old - np.array([np.diag(np.diag(old[x])) for x in range(c["n"])])
        if not np.array_equal(off_new, off_old):
            problems.append("%s off-diagonal entries changed" % name)
        if _herm_err(new) > 1e-12 * (1 + float(np.max(np.abs(old)))):
            problems.append("%s not Hermitian after the shift" % name)
    return not problems, {"problems": problems[:3]}, {"problems": []}, "; ".join(problems[:2]) or "ok"


@safe_oracle
def oracle_collapse(args):
    """after a collapse: moments zero, rho the pure active state, and the collapse recorded as an event in the store"""
    import mudslide
    rng = np.random.Generator(np.random.PCG64(args["seed"]))
    c = _case(rng, N=2)
    tmp = None
    try:
        kw = {}
        if args["store"] == "yaml":
            tmp = tempfile.mkdtemp(prefix="verif-c11-")
            kw["tracer"] = mudslide.YAMLTrace(base_name="traj", location=tmp, log_pitch=4)
        t = ec.make_traj(c, "exp", cls="AugmentedFSSH", **kw)
        t.state = int(args["state"])
        t.delR = np.array(c["delR"])
        t.delP = np.array(c["delP"])
        t.gamma_collapse = lambda electronics=None: np.array([2.0, 2.0])
        t.hopper = lambda g: []
        if args.get("hop"):
            # a hop attempt and the collapse in the SAME call: the collapse must project onto the state that is active then
            t.hopper = lambda g: [{"target": 1 - int(args["state"]), "weight": 1.0, "zeta": 0.1, "prob": 0.5}]
        e0, e1 = _elecs(c)
        t.surface_hopping(e0, e1)
        want = np.zeros((2, 2), dtype=complex)
        want[t.state, t.state] = 1.0
        problems = []
        hopped = int(t.state != int(args["state"]))
        if np.any(t.delR) or np.any(t.delP):
            problems.append("moments not zero after the collapse")
        if not np.array_equal(t.rho, want):
            problems.append("rho is not the pure active state")
        if args["store"] == "yaml":
            import os
            with open(os.path.join(tmp, t.tracer.event_log)) as f:
                evs = yaml.safe_load(f) or []
            n = len([e for e in evs if "removed" in e])
        else:
            n = len(t.tracer.events.get("collapse", []))
        if n != 1:
            problems.append("%d collapse events recorded in the %s store" % (n, args["store"]))
        return not problems, {"events": n, "hopped": hopped, "problems": problems}, {"events": 1}, "; ".join(problems) or "ok"
    finally:
        if tmp:
            shutil.rmtree(tmp, ignore_errors=True)


@safe_oracle
def oracle_integrators_agree(args):
    """the exp and rk4 moment integrators agree as dt -> 0: their difference over one step shrinks at least ~4x per halving"""
    rng = np.random.Generator(np.random.PCG64(args["seed"]))
    c = _case(rng)
    if args.get("int_mass") is not None:
        c["int_mass"] = bool(args["int_mass"])
        if c["int_mass"]:
            c["mass"] = np.ceil(np.asarray(c["mass"], dtype=np.float64))
    diffs = []
    for k in range(3):
        c2 = dict(c)
        c2["dt"] = args["dt"] / 2 ** k
        a, _, _ = impl_moments(c2, "exp", args["which"])
        b, _, _ = impl_moments(c2, "rk4", args["which"])
        X, Y = (a.delR, b.delR) if args["which"] == "R" else (a.delP, b.delP)
        # compare the increments, which are O(dt)
        Z = c["delR"] if args["which"] == "R" else c["delP"]
        diffs.append(float(np.max(np.abs((X - Z) - (Y - Z)))))
    ok = diffs[2] <= 1e-13 or (diffs[1] <= 0.4 * diffs[0] + 1e-14 and diffs[2] <= 0.4 * diffs[1] + 1e-14)
    return ok, {"differences": diffs}, {"shrink": "<= 0.4 per halving"}, "integrators do not converge to each other: %r" % diffs


@safe_oracle
def oracle_initial_zero(args):
    import mudslide
    model = mudslide.models.scattering_models["simple"]()
    t = mudslide.AugmentedFSSH(model, [-3.0], [10.0], 0, dt=20.0)
    ok = not np.any(t.delR) and not np.any(t.delP) and t.delR.shape == (1, 2, 2)
    return ok, {"delR": t.delR}, {"delR": 0}, "moments do not start at zero"


@safe_oracle
def oracle_run_moments(args):
    """along a real A-FSSH run (either electronic integrator, the moment integrator the class picks by default) the moments
    stay Hermitian and finite after every step, are zero after a collapse, and a collapse leaves rho pure on the active state"""
    import mudslide
    from mudslide.afssh import AugmentedFSSH
    if args["model"] == "subotnik2d":
        # two nuclear dimensions, unequal masses, optionally the diabatic representation (force matrix = -dV in (state,state,dim) layout)
        from mudslide.models.scattering_models import Subotnik2D
        model = Subotnik2D(mass=[2000.0, 500.0], **({"representation": args["representation"]} if args.get("representation") else {}))
        t = AugmentedFSSH(model, [float(args["x0"]), 0.3], [float(args["k"]), 2.0], 0, dt=float(args["dt"]), max_steps=int(args["steps"]),
                          seed_sequence=int(args["seed"]), electronic_integration=args["integ"],
                          **({"augmented_integration": args["aug"]} if args.get("aug") else {}))
    else:
        model = mudslide.models.scattering_models[args["model"]]()
        t = AugmentedFSSH(model, [float(args["x0"])], [float(args["k"])], 0, dt=float(args["dt"]), max_steps=int(args["steps"]),
                          seed_sequence=int(args["seed"]), electronic_integration=args["integ"], bounds=[-5, 5])
    problems = []
    orig = AugmentedFSSH.surface_hopping
    info = {"steps": 0, "collapses": 0, "max_moment": 0.0}

    def wrapped(self, last_electronics, this_electronics):
        n0 = len(self.tracer.events.get("collapse", []))
        orig(self, last_electronics, this_electronics)
        info["steps"] += 1
        for name, X in (("delR", self.delR), ("delP", self.delP)):
            if not np.all(np.isfinite(X)):
                problems.append("%s not finite at t=%r" % (name, self.time))
            elif _herm_err(X) > 1e-9 * (1e-12 + float(np.max(np.abs(X)))) + 1e-14:
                problems.append("%s not Hermitian at t=%r (error %.3g of %.3g)" % (name, self.time, _herm_err(X), float(np.max(np.abs(X)))))
            info["max_moment"] = max(info["max_moment"], float(np.max(np.abs(X))))
        if len(self.tracer.events.get("collapse", [])) > n0:
            info["collapses"] += 1
            want = np.zeros_like(self.rho)
            want[self.state, self.state] = 1.0
            if np.any(self.delR) or np.any(self.delP) or not np.array_equal(self.rho, want):
                problems.append("after the collapse at t=%r moments are not zero / rho is not the pure active state" % self.time)
    AugmentedFSSH.surface_hopping = wrapped
    try:
        t.simulate()
    finally:
        AugmentedFSSH.surface_hopping = orig
    return not problems, dict(info, problems=problems[:3]), {"problems": []}, "; ".join(problems[:2]) or "ok"


@safe_oracle
def oracle_hop_to_it_shift(args):
    """through the real hop_to_it of A-FSSH (not hop_update alone): after an ACCEPTED hop - also one between exactly degenerate
    states, where nothing is rescaled - the new active state's diagonal moments are exactly zero and the old state's are shifted by
    the same amount; a rejected hop leaves the moments alone"""
    from .. import hopcommon as hc
    c = {k: (np.array(v) if isinstance(v, list) else v) for k, v in args["case"].items()}
    r = hc.impl_hop(c, "AugmentedFSSH")
    m = r["moments"]
    n = c["n"]
    s_, t_ = int(c["s"]), int(c["t"])
    dm = np.array(c["d"], dtype=np.float64) * float(c.get("afssh_scale", 1.0))
    r0 = lambda j: 0.1 * (j + 1) * (1.0 + np.arange(n))
    problems = []
    if r["state"] == t_:
        if np.any(m["delP_target"] != 0) or np.any(m["delR_target"] != 0):
            problems.append("after the accepted hop %d->%d (gap %r) the new active state's diagonal moments are delP %r, delR %r"
                            % (s_, t_, float(c["E"][t_] - c["E"][s_]), m["delP_target"].tolist(), m["delR_target"].tolist()))
        if not allclose(np.real(m["delP_source"]), dm, float(np.max(np.abs(dm))) + 1e-300) or \
                not allclose(np.real(m["delR_source"]), r0(s_) - r0(t_), 1.0):
            problems.append("the old state's diagonal moments were not shifted by the new state's")
    else:
        if not (np.array_equal(np.real(m["delP_target"]), -0.5 * dm) and np.array_equal(np.real(m["delP_source"]), 0.5 * dm)
                and np.array_equal(np.real(m["delR_target"]), r0(t_))):
            problems.append("a rejected hop changed the moments")
    return not problems, {"state": r["state"], "problems": problems[:2]}, {"problems": []}, "; ".join(problems[:2]) or "ok"


from .. import runcommon as rc
@safe_oracle
def oracle_after_collapse(args):
    """what follows a collapse: the moments are zero and from then on evolve as those of a trajectory that STARTS with zero moments in the
    same pure state - through the class's own moment steps (either integrator) and its hop shift. A twin that never collapsed (fresh
    zero moments, same pure rho, same label) is taken through the same calls; both have to agree after every call, and after the
    accepted hop the new state's diagonal moments vanish in both."""
    rng = np.random.Generator(np.random.PCG64(args["seed"]))
    c = _case(rng, N=2)
    c["rho"] = np.array([[1.0, 0.0], [0.0, 0.0]], dtype=np.complex128) if int(args["state"]) == 0 else np.array([[0.0, 0.0], [0.0, 1.0]], dtype=np.complex128)
    mode = args["mode"]
    problems = []
    t = _afssh(c, mode)
    t.state = int(args["state"])
    t.rho = np.array(c["rho"])
    t.delR = np.array(c["delR"])
    t.delP = np.array(c["delP"])
    t.gamma_collapse = lambda electronics=None: np.array([2.0, 2.0])
    t.hopper = lambda g: []
    e0, e1 = _elecs(c)
    t.surface_hopping(e0, e1)                      # the collapse
    if np.any(t.delR) or np.any(t.delP) or len(t.tracer.events.get("collapse", [])) != 1:
        problems.append("no collapse / moments not zero after it")
    twin = _afssh(c, mode)
    twin.state = t.state
    twin.rho = np.array(t.rho)
    for k in range(int(args["steps"])):
        for tr_ in (t, twin):
            tr_.advance_delR(e0, e1)
            tr_.advance_delP(e0, e1)
        for nm in ("delR", "delP"):
            a_, b_ = getattr(t, nm), getattr(twin, nm)
            sc = float(np.max(np.abs(b_))) + 1e-300
            if not np.all(np.isfinite(a_)) or float(np.max(np.abs(a_ - b_))) > 1e-11 * sc:
                problems.append("moment step %d after the collapse (%s integrator): %s differs from that of a trajectory started with zero "
                                "moments by %.3g (scale %.3g)" % (k + 1, mode, nm, float(np.max(np.abs(a_ - b_))), sc))
        if problems:
            break
    if not problems:
        tgt = 1 - t.state
        before = {nm: np.array(getattr(t, nm)) for nm in ("delR", "delP")}
        for tr_ in (t, twin):
            tr_.hop_update(tr_.state, tgt)
        for nm in ("delR", "delP"):
            X, X0 = getattr(t, nm), before[nm]
            sc = float(np.max(np.abs(X0))) + 1e-300
            if float(np.max(np.abs(X[:, tgt, tgt]))) > 1e-12 * sc:
                problems.append("hop after a collapse: the new active state's diagonal %s does not vanish (%.3g of %.3g)" % (nm, float(np.max(np.abs(X[:, tgt, tgt]))), sc))
            d_new = X[:, 0, 0] - X[:, 1, 1]
            d_old = X0[:, 0, 0] - X0[:, 1, 1]
            if float(np.max(np.abs(d_new - d_old))) > 1e-12 * sc:
                problems.append("hop after a collapse: the difference of the diagonal %s changed" % nm)
            if float(np.max(np.abs(X - getattr(twin, nm)))) > 1e-11 * sc:
                problems.append("hop after a collapse: %s differs from the never-collapsed twin" % nm)
    return not problems, {"problems": problems[:3]}, {"problems": []}, "; ".join(problems[:2]) or "ok"


ORACLES = {"after_collapse": oracle_after_collapse, "hop_to_it_shift": oracle_hop_to_it_shift, "whole_run": rc.oracle_whole_run, "run_moments": oracle_run_moments, "hermitian": oracle_hermitian, "hop_shift": oracle_hop_shift, "collapse": oracle_collapse,
           "integrators_agree": oracle_integrators_agree, "initial_zero": oracle_initial_zero}


def run(ctx):
    ctx.rule = ("random Hermitian moments with N=2..6 states, n=1..3 dims; hop shifts to EVERY target index; advance_delR/P with "
                "both integrators (eigh captured); collapses with both trace stores. Non-trivial = N>=3 or target not the last "
                "state; distinct by (op, N, n, mode, target)")
    ctx.assumptions += ["Hermiticity of the exponential momentum-moment integrator and dt->0 agreement of the integrators are "
                        "checked on the implementation only (partial)",
                        "numpy.linalg.eigh is a parameter of the model (captured)"]
    ctx.fingerprints["mudslide/afssh.py"] = fingerprint(
        "mudslide/afssh.py", ["hop_update", "advance_delR", "advance_delP", "compute_delF", "surface_hopping", "gamma_collapse", "__init__"])
    ctx.proofs()
    rng = ctx.rng
    ok, obs, req, text = oracle_initial_zero({})
    if not ok:
        ctx.oracle_fail("moments-initial", "initial_zero", {}, obs, req, text)

    # ---------- hop shift ----------
    lines, keep = [], []
    for i in range(ctx.budget(60, 3000)):
        c = _case(rng)
        N = c["N"]
        if i % 5 == 3:
            # the first step after the moments were zeroed: delR lags delP by one step and is still EXACTLY zero
            c["delR"] = np.zeros_like(c["delR"])
            ctx.count("hop_shift:delR_exactly_zero")
        elif i % 5 == 4:
            c["delP"] = np.zeros_like(c["delP"])
            ctx.count("hop_shift:delP_exactly_zero")
        for tgt in range(N):
            src = (tgt + 1) % N
            t = _afssh(c, "exp")
            t.delR = np.array(c["delR"])
            t.delP = np.array(c["delP"])
            t.hop_update(src, tgt)
            x = int(rng.integers(0, c["n"]))
            # the model shifts one diagonal: that of delR or of delP, alternately
            which = "delR" if (i + tgt) % 2 == 0 else "delP"
            lines.append(["hopupdate", N, tgt] + cbs(np.diag(c[which][x])))
            keep.append((dict(c, _which=which), tgt, src, x, np.diag(getattr(t, which)[x]).copy()))
    outs = ctx.model.run(lines)
    for (c, tgt, src, x, got), o in zip(keep, outs):
        N = c["N"]
        vals = [unfb(t) for t in o[1:]]
        spec = np.array(vals[0:2 * N:2]) + 1j * np.array(vals[1:2 * N:2])
        pinned = np.array(vals[2 * N:4 * N:2]) + 1j * np.array(vals[2 * N + 1:4 * N:2])
        ctx.case(("hopupdate", N, tgt) if (N >= 3 or tgt != N - 1) else None,
                 {"op": "hopupdate", "N": N, "target": tgt, "impl_diag": got, "model_spec": spec, "model_pinned": pinned})
        ctx.count("hop_shift:target<last" if tgt < N - 1 else "hop_shift:target=last")
        sc = float(np.max(np.abs(np.diag(c[c["_which"]][x])))) + 1e-300
        c = {k_: v_ for k_, v_ in c.items() if k_ != "_which"}
        same = lambda a, b: allclose(np.concatenate([a.real, a.imag]), np.concatenate([b.real, b.imag]), sc)
        if same(got, spec):
            ctx.count("hop_shift_matches_spec")
        elif same(got, pinned):
            ctx.pinned_match("hop-update-through-view", "hopupdate", {"N": N, "target": tgt},
                             "states above the target are not shifted (subtraction through a view)")
        else:
            ctx.corr_mismatch("hopupdate", {"N": N, "target": tgt}, "impl %r spec %r pinned %r" % (got, spec, pinned))
        a = {"case": c, "target": tgt, "source": src}
        ok, obs, req, text = oracle_hop_shift(a)
        if not ok:
            ctx.oracle_fail("hop-update-through-view" if tgt < N - 1 else "hop-shift", "hop_shift", a, obs, req, text)

    # ---------- the shift through the real hop_to_it, incl. hops between EXACTLY degenerate states ----------
    from .. import hopcommon as hc
    for i in range(ctx.budget(60, 2000)):
        c = hc.make_case(rng, kind=["down", "up-far", "up-near"][i % 3])
        c.pop("pre", None)
        if i % 3 == 0:
            E_ = np.array(c["E"])
            E_[c["t"]] = E_[c["s"]]              # exactly degenerate: the hop is allowed, nothing is rescaled
            c["E"] = E_
            ctx.count("hop_to_it_shift:exactly_degenerate")
        a = {"case": c}
        ok, obs, req, text = oracle_hop_to_it_shift(a)
        ctx.case(("hop-to-it-shift", c["N"], c["n"], obs.get("state") == c["t"]) if c["N"] >= 3 else None)
        ctx.count("hop_to_it_shift:" + ("accepted" if obs.get("state") == c["t"] else "rejected"))
        if not ok:
            ctx.oracle_fail("hop-to-it-shift", "hop_to_it_shift", a, obs, req, text)

    # ---------- moment propagation ----------
    lines, keep = [], []
    for i in range(ctx.budget(60, 3000)):
        c = _case(rng)
        mode = ["exp", "rk4"][i % 2]
        which = ["R", "P"][(i // 2) % 2]
        if mode == "exp" and (i // 4) % 3 == 0:
            # nearly degenerate propagator eigenvalues: |gap x dt| from 1e-13 to 1e-5, deep inside the series side of the scaling
            # function (1-exp(-z))/z that the exponential moment integrator applies (C20) - where forming 1-exp(-z) by subtraction
            # loses every digit
            N_ = c["N"]
            levels = np.concatenate([[0.0], np.cumsum(10 ** rng.uniform(-13, -5, size=N_ - 1))]) / c["dt"]
            c["H0"] = np.diag(levels)
            c["H1"] = np.diag(levels)
            c["d0"] = np.zeros_like(c["d0"])
            c["d1"] = np.zeros_like(c["d1"])
            if which == "P":
                # start from zero momentum moments: what comes out IS the source term times the scaling function, compared to 1e-11
                c["delP"] = np.zeros_like(c["delP"])
                c["_strict"] = True
            ctx.count("moment:nearly_degenerate_generator")
        a_ = {"case": c, "mode": mode, "which": which}
        ok_, obs_, req_, text_ = oracle_hermitian(a_)
        if "exception" in obs_:
            ctx.case(None)
            ctx.oracle_fail("moments-raised:%s:%s" % (which, mode), "hermitian", a_, obs_, req_, text_)
            continue
        t, H, cap = impl_moments(c, mode, which)
        N = c["N"]
        x = int(rng.integers(0, c["n"]))
        if mode == "exp":
            _a, eps, co = ec.first_eigh(cap, "advance_del" + which, W=H)
        else:
            eps, co = np.zeros(N), np.eye(N, dtype=complex)
        if which == "R":
            lines.append(["delr", int(mode == "rk4"), N] + fbs(eps) + cbs(co) + cbs(H) + [fb(c["dt"]), fb(c["mass"][x])] +
                         cbs(c["delR"][x]) + cbs(c["delP"][x]))
            want = t.delR[x]
        else:
            F0 = c["FM"][c["state"], c["state"], x]
            lines.append(["delp", int(mode == "rk4"), N] + fbs(eps) + cbs(co) + cbs(H) + [fb(c["dt"])] + cbs(c["delP"][x]) +
                         fbs(c["FM"][:, :, x]) + [fb(F0)] + cbs(c["rho"]))
            want = t.delP[x]
        keep.append((c, mode, which, x, np.array(want)))
    outs = ctx.model.run(lines)
    for (c, mode, which, x, want), o in zip(keep, outs):
        N = c["N"]
        got = ec.parse_cmat(o[1:], N)
        ctx.case((which, mode, N, c["n"]), {"op": "del" + which, "mode": mode, "N": N, "dt": c["dt"],
                                            "impl_00": want[0, 0], "model_00": got[0, 0]})
        ctx.count("moment:%s:%s" % (which, mode))
        sc = float(np.max(np.abs(want))) + 1e-300
        strict = bool(c.pop("_strict", False))
        if o[0] != "ok" or not allclose(np.concatenate([got.real.ravel(), got.imag.ravel()]),
                                        np.concatenate([want.real.ravel(), want.imag.ravel()]), sc, rtol=1e-11 if strict else 1e-8):
            ctx.corr_mismatch("del%s.%s" % (which, mode), {"N": N, "dt": c["dt"]}, "model and implementation differ")
        a = {"case": c, "mode": mode, "which": which}
        ok, obs, req, text = oracle_hermitian(a)
        if not ok:
            ctx.oracle_fail("moments-not-hermitian:%s:%s" % (which, mode), "hermitian", a, obs, req, text)

    for i in range(ctx.budget(24, 400)):
        a = {"seed": int(rng.integers(1, 10 ** 6)), "state": i % 2, "store": ["memory", "yaml"][(i // 2) % 2 if i < 8 else 0],
             "hop": i >= 8 or i % 4 == 3}
        ok, obs, req, text = oracle_collapse(a)
        ctx.case(("collapse", a["store"], a["state"], a["hop"], int(obs["hopped"])))
        ctx.count("collapse:" + a["store"])
        ctx.count("collapse_in_the_step_of_an_accepted_hop", int(obs["hopped"]))
        if not ok:
            sig = "collapse-event-yaml-representer" if obs.get("exception") == "RepresenterError" else "collapse"
            ctx.oracle_fail(sig, "collapse", a, obs, req, text)
    # ---------- collapse rate and collapse loop (MudModel/Collapse.lean) ----------
    lines, keep = [], []
    for i in range(ctx.budget(80, 4000)):
        c = _case(rng, N=2 if i % 2 else None)
        N, n = c["N"], c["n"]
        t = _afssh(c, "exp")
        t.state = c["state"]
        t.delR = np.array(c["delR"])
        t.delP = np.array(c["delP"])
        if rng.random() < 0.3:            # equal momentum moments in some dimension: the 1e-10 guard
            x = int(rng.integers(0, n))
            j = int(rng.integers(0, N))
            t.delP[x, j, j] = t.delP[x, c["state"], c["state"]]
        if rng.random() < 0.2:            # equal position moments: rate zero
            j = int(rng.integers(0, N))
            for x in range(n):
                t.delR[x, j, j] = t.delR[x, c["state"], c["state"]]
        e0, e1 = _elecs(c)
        gam = np.array(t.gamma_collapse(e1))
        R = np.real(np.array([[t.delR[x, j, j] for j in range(N)] for x in range(n)]))
        P = np.real(np.array([[t.delP[x, j, j] for j in range(N)] for x in range(n)]))
        F = np.array([[c["FM"][j, j, x] for x in range(n)] for j in range(N)])
        lines.append(["gamma", N, n, c["state"]] + fbs(R) + fbs(P) + fbs(F) + [fb(c["dt"])])
        keep.append(("gamma", c, gam, None))
        if N == 2:
            # the loop itself, with the real rate and the trajectory's own generator
            bg = type(t.random_state.bit_generator)()
            bg.state = t.random_state.bit_generator.state
            e = float(np.random.Generator(bg).uniform())
            scale = float(rng.choice([1.0, 1.0, 50.0, 1e4]))       # make collapses frequent enough to see both outcomes
            g2 = gam * scale
            t.gamma_collapse = (lambda g2=g2: (lambda electronics=None: np.array(g2)))()
            t.hopper = lambda g: []
            rho_before = np.array(t.rho)
            t.surface_hopping(e0, e1)
            evs = list(t.tracer.events.get("collapse", []))
            lines.append(["collapse", 2, c["state"]] + fbs(g2) + [1, fb(e)])
            keep.append(("collapse", c, (evs, np.array(t.rho), rho_before, bool(np.any(t.delR) or np.any(t.delP)), e, g2), None))
    outs = ctx.model.run(lines)
    for (kind, c, got, _), o in zip(keep, outs):
        N = c["N"]
        if kind == "gamma":
            mg = np.array([unfb(v) for v in o[1:1 + N]])
            ctx.case(("gamma", N, c["n"]) if N >= 3 else None, {"op": "gamma", "N": N, "n": c["n"], "impl": got, "model": mg})
            ctx.count("gamma")
            sc = float(np.max(np.abs(got))) + 1e-300
            if o[0] != "ok" or not allclose(got, mg, sc) or got[c["state"]] != 0.0:
                ctx.corr_mismatch("gamma", {"N": N, "n": c["n"], "state": c["state"]}, "impl %r model %r" % (got, mg))
        else:
            evs, rho, rho_before, moments_left, e, g2 = got
            mcoll, mnev = int(o[1]), int(o[2])
            mev = [(int(o[3 + 2 * q]), unfb(o[4 + 2 * q])) for q in range(mnev)]
            iev = [(int(ev["removed"]), float(ev["gamma"])) for ev in evs]
            ctx.case(("collapse-loop", c["state"], mnev > 0), {"op": "collapse", "state": c["state"], "e": e, "gamma": g2, "impl_events": iev})
            ctx.count("collapse_loop:%s" % ("collapsed" if mnev else "not"))
            want = np.zeros((2, 2), dtype=complex)
            want[c["state"], c["state"]] = 1.0
            ok = iev == mev and (mcoll == 1) == (len(iev) > 0)
            if len(iev) > 0:
                ok = ok and np.array_equal(rho, want) and not moments_left
            else:
                ok = ok and np.array_equal(rho, rho_before)
            if o[0] != "ok" or not ok:
                ctx.corr_mismatch("collapse-loop", {"state": c["state"], "e": e, "gamma": g2}, "impl events %r model %r" % (iev, mev))

    # whole A-FSSH runs against the composed step of the model (MudModel/AStep.lean): every step's position, velocity, rho, label,
    # both moment tensors, the generators handed to eigh in advance_delR / advance_delP / propagate_electronics, hop and collapse events
    from .. import runcommon as rc
    rc.run_afssh_correspondence(ctx, ctx.budget(9, 200))
    for i in range(ctx.budget(6, 80)):
        a = {"model": ["simple", "dual", "extended"][i % 3], "integ": ["exp", "linear-rk4"][(i // 3) % 2], "x0": -4.0,
             "k": float(rng.uniform(8, 25)), "dt": 20.0, "steps": 400, "seed": int(rng.integers(1, 2 ** 31))}
        if i % 3 == 2:
            a.update(model="subotnik2d", representation=["diabatic", None][(i // 6) % 2], aug=["exp", "rk4"][(i // 3) % 2], integ="exp",
                     x0=-3.0, dt=5.0, steps=120)
        ok, obs, req, text = oracle_run_moments(a)
        ctx.case(("run-moments", a["model"], a["integ"], int(obs["collapses"]) > 0))
        ctx.count("afssh_runs:" + a["integ"])
        ctx.count("afssh_run_steps", int(obs["steps"]))
        ctx.count("afssh_run_collapses", int(obs["collapses"]))
        if not ok:
            ctx.oracle_fail("afssh-run-moments:" + a["integ"], "run_moments", a, obs, req, text)
    for i in range(ctx.budget(8, 200)):
        a = {"seed": int(rng.integers(1, 10 ** 6)), "mode": ["rk4", "exp"][i % 2], "state": (i // 2) % 2, "steps": int(rng.integers(1, 4))}
        ok, obs, req, text = oracle_after_collapse(a)
        ctx.case(("after-collapse", a["mode"], a["state"]))
        ctx.count("collapse_then_steps_then_hop:" + a["mode"])
        if not ok:
            ctx.oracle_fail("after-collapse:" + a["mode"], "after_collapse", a, obs, req, text)
    for i in range(ctx.budget(6, 100)):
        a = {"seed": int(rng.integers(1, 10 ** 6)), "dt": 0.2, "which": ["R", "P"][i % 2], "int_mass": i % 3 == 2}
        ok, obs, req, text = oracle_integrators_agree(a)
        ctx.case(("integrators-agree", a["which"]))
        ctx.count("integrators_agree")
        if not ok:
            ctx.oracle_fail("integrators-disagree:" + a["which"], "integrators_agree", a, obs, req, text)

# -*- coding: utf-8 -*-
"""C06 — continuous adiabatic sign; results depend only on position; earlier results are never modified."""
import copy

import numpy as np

from ..core import fb, fbs, unfb, close, allclose, fingerprint, safe_oracle
from . import c05
from .. import eleccommon as ec

RESULT_FIELDS = ["_hamiltonian", "_force", "_derivative_coupling", "_force_matrix", "_reference"]


def gen_script(rng, model, name, thorough):
    """operations over results of ONE shared model object: ('update', new_index, position, continued_from | None)"""
    ops = []
    L = int(rng.integers(4, 30 if thorough else 14))
    pos = []
    for k in range(L):
        mode = rng.random()
        if pos and mode < 0.25:
            x = np.array(pos[int(rng.integers(0, len(pos)))])           # revisit
        elif pos and mode < 0.6:
            x = np.array(pos[-1]) + rng.normal(size=model.ndim()) * 0.05   # smooth path
        else:
            x = c05.random_position(rng, model, name)                    # large jump
        src = None if (k == 0 or rng.random() < 0.2) else int(rng.integers(0, k))   # interleaved "trajectories"
        if name == "blocks" and src is not None and rng.random() < 0.5:
            # through the symmetry-allowed crossing at x = 0: the state continued from has overlap EXACTLY zero with the new
            # state of the same index (the two lowest states swap blocks)
            x = np.array(pos[src])
            x[0] = -x[0]
        pos.append(x)
        # how the new point is requested: on the shared model object (trajectory idiom), or on the earlier result itself
        # (`elec = elec.update(x, elec)`, the idiom of mudslide/surface.py)
        how = "chained" if (src is not None and rng.random() < 0.35) else "model"
        ops.append((k, [float(v) for v in x], src, how))
    return ops


def _snapshot(el):
    return {f: np.array(getattr(el, f), copy=True) for f in RESULT_FIELDS if hasattr(el, f)}


def _accessors(el, N):
    return dict(H=np.array(el.hamiltonian(), copy=True), force=np.array([el.force(i) for i in range(N)]),
                dc=np.array(el.derivative_coupling_tensor(), copy=True), fm=np.array(el.force_matrix(), copy=True))


@safe_oracle
def oracle_script(args):
    """(a) every new set of states has non-negative overlap, state by state, with the set it was continued from;
    (b) energies, forces and coupling magnitudes at a position do not depend on the history;
    (c) computing a new point never changes what was returned for an earlier point, and results share no arrays"""
    spec = dict(args["spec"])
    model = c05.make_model(spec)
    N = model.nstates()
    results, frozen = [], []
    problems = []
    pre = None
    if args.get("precompute") is not None:
        # somebody evaluated the shared model object directly before the trajectories started
        model.compute(np.array(args["precompute"], dtype=np.float64))
        pre = _accessors(model, N)
    for op in [tuple(o) for o in args["ops"]]:
        k, x, src = op[:3]
        how = op[3] if len(op) > 3 else "model"
        x = np.array(x, dtype=np.float64)
        x_caller = np.array(x)                       # the array the caller owns and hands over
        if how == "chained" and src is not None:
            el = results[src].update(x_caller, electronics=results[src])
        else:
            el = model.update(x_caller, electronics=results[src] if src is not None else None)
        if args.get("move_on"):
            # the caller advances ITS position array in place afterwards (`self.position += v dt`, `xx[i] = x` in surface.py):
            # what was returned for the point must not follow it
            x_caller += 0.37
        # (a)
        if src is not None and spec.get("representation") != "diabatic":
            ov = np.sum(np.asarray(el._reference) * np.asarray(frozen[src][0]["_reference"]), axis=0)
            if np.any(ov < 0):
                problems.append("step %d: overlap with the states it was continued from is negative: %r" % (k, ov.tolist()))
        # (b) against a brand-new model object with no history
        fresh = c05.make_model(spec).update(np.array(x))
        a, b = _accessors(el, N), _accessors(fresh, N)
        sc = float(np.max(np.abs(b["H"]))) + 1e-300
        if not (allclose(a["H"], b["H"], sc) and allclose(a["force"], b["force"], float(np.max(np.abs(b["force"]))) + 1e-300) and
                allclose(np.abs(a["dc"]), np.abs(b["dc"]), float(np.max(np.abs(b["dc"]))) + 1e-300, rtol=1e-8) and
                allclose(np.abs(a["fm"]), np.abs(b["fm"]), float(np.max(np.abs(b["fm"]))) + 1e-300, rtol=1e-8)):
            problems.append("step %d: energies/forces/|couplings| depend on what was computed before" % k)
        results.append(el)
        frozen.append((_snapshot(el), _accessors(el, N)))
        # (c) earlier results untouched
        if pre is not None:
            now = _accessors(model, N)
            if any(not np.array_equal(pre[f], now[f]) for f in pre):
                problems.append("computing point %d changed what the directly evaluated model object returns" % k)
        for j in range(len(results) - 1):
            snap, acc = frozen[j]
            now = _snapshot(results[j])
            if any(not np.array_equal(now[f], snap[f]) for f in snap):
                problems.append("computing point %d changed the stored result of point %d" % (k, j))
                break
            acc2 = _accessors(results[j], N)
            if any(not np.array_equal(acc[f], acc2[f]) for f in acc):
                problems.append("computing point %d changed what the accessors of point %d return" % (k, j))
                break
            for f in RESULT_FIELDS:
                if hasattr(el, f) and hasattr(results[j], f):
                    u, v = getattr(el, f), getattr(results[j], f)
                    if isinstance(u, np.ndarray) and isinstance(v, np.ndarray) and u.size and np.shares_memory(u, v):
                        problems.append("results %d and %d share the array %s" % (k, j, f))
        if problems:
            break
    return not problems, {"points": len(results), "problems": problems[:3]}, {"problems": []}, "; ".join(problems[:2]) or "ok"


ORACLES = {"script": oracle_script}


def run(ctx):
    ctx.rule = ("sequences of 4..30 update() calls on ONE shared model object (built-ins with random parameters, Shin-Metiu, "
                "synthetic multi-D models): smooth paths, large jumps, revisits, results continued from arbitrary earlier "
                "results (interleaved trajectories); sign-fix correspondence with captured eigh. Non-trivial = N>=3 or a "
                "continued-from index other than the previous one; distinct by (model, N, #ops, interleaved)")
    ctx.assumptions += ["eigh is a function of V(x) (LAPACK is deterministic): energies/forces/|couplings| then depend on the position "
                        "only by the gauge theorems; checked against a fresh model object per point",
                        "the two `_available` flag arrays are shared between results and only ever set to True"]
    ctx.fingerprints["mudslide/models/electronics.py"] = fingerprint(
        "mudslide/models/electronics.py", ["update", "compute", "_compute_basis_states"])
    ctx.proofs()
    rng = ctx.rng
    names = c05.REGISTERED + ["subotnik2d", "synth", "blocks"]
    lines, keep = [], []
    for i in range(ctx.budget(26, 400)):
        name = names[i % len(names)]
        if name == "synth":
            spec = {"name": "synth", "seed": int(rng.integers(1, 10 ** 6)), "N": int(rng.integers(2, 7)), "n": int(rng.integers(1, 4))}
        else:
            spec = c05.random_spec(rng, name)
        if name not in ("shin-metiu", "blocks", "synth") and (i // len(names)) % 2 == 1 and i % 2 == 0:
            # the diabatic representation: the Hamiltonian handed out IS the model's V(x) (no copy through eigh)
            spec["representation"] = "diabatic"
            ctx.count("scripts_in_the_diabatic_representation")
        model = c05.make_model(spec)
        ops = gen_script(rng, model, name, ctx.thorough())
        if name == "shin-metiu":
            ops = ops[:6]
        a = {"spec": spec, "ops": [list(o) for o in ops]}
        if i % 2 == 1:
            a["move_on"] = True
            ctx.count("scripts_where_the_caller_moves_its_position_array_on")
        if i % 3 == 2:
            a["precompute"] = [float(v) for v in c05.random_position(rng, model, name)]
            ctx.count("scripts_with_direct_compute_first")
        ctx.count("chained_updates", sum(1 for o in ops if o[3] == "chained"))
        ok, obs, req, text = oracle_script(a)
        inter = any(o[2] is not None and o[2] != o[0] - 1 for o in ops)
        ctx.case((name, model.nstates(), len(ops) // 5, inter, "precompute" in a) if (model.nstates() >= 3 or inter) else None,
                 {"op": "update-script", "model": name, "ops": [list(o) for o in ops[:5]]})
        ctx.count("scripts:" + name)
        ctx.count("updates", len(ops))
        if not ok:
            ctx.oracle_fail("update-script:" + name, "script", a, obs, req, text)
        # sign-fix correspondence on the last continued update of the script
        if name not in ("shin-metiu", "blocks") and spec.get("representation") != "diabatic":
            m2 = c05.make_model(spec)
            prev = m2.update(np.array(ops[0][1]))
            x = np.array(ops[-1][1])
            with ec.EighCapture() as cap:
                el = m2.update(x, electronics=prev)
            if True:
                _a, w, cf = ec.first_eigh(cap, "model.update", W=(None if cap.calls else np.asarray(m2.V(x))))
                N, n = m2.nstates(), m2.ndim()
                dV = np.asarray(m2.dV(x))
                if dV.shape == (n, N, N):
                    lines.append(["basis", N, n, 1] + fbs(cf) + fbs(prev._reference) + fbs(w) + [fb(1e-10)] + fbs(dV))
                    keep.append((spec, el, prev, cf, N, n))
    # directed: LARGE jumps from one asymptote to the other (and across the seam of the vibronic model a hair off its symmetry plane):
    # the overlaps with the states continued from are tiny (1e-9 and below) there - of either sign before the fix, never negative after
    for j in range(ctx.budget(6, 30)):
        name = ["simple", "modelx", "vibronic"][j % 3]
        spec = {"name": name, "kwargs": {}}
        if name == "vibronic":
            th = float(rng.choice([-1.0, 1.0]) * 10 ** rng.uniform(-11, -9))
            pts = [[0.0, 0.0, float(x2), 0.0, th] for x2 in (-1.0, -2.8, -1.2, -2.5, -1.89 + 0.3, -1.89 - 0.3)]
        else:
            a_ = float(rng.uniform(4.0, 9.0)) if name == "simple" else float(rng.uniform(12.0, 16.0))
            pts = [[-a_], [a_], [-a_ * 0.9], [a_ * 1.1], [-a_], [a_ * 0.95]]
        ops = [(k, p_, (k - 1 if k else None), "model") for k, p_ in enumerate(pts)]
        a = {"spec": spec, "ops": [list(o) for o in ops]}
        ok, obs, req, text = oracle_script(a)
        ctx.case(("large-jumps", name))
        ctx.count("directed_large_jump_scripts")
        if not ok:
            ctx.oracle_fail("update-script:" + name, "script", a, obs, req, text)
    # directed: a smooth path on the built-in truncated (AdiabaticModel_) model through the stretch where LAPACK's native sign of an
    # eigenvector changes (x in [-6.2, -4.8] for Shin-Metiu): every point continued from the previous one
    for j in range(ctx.budget(2, 10)):
        spec = {"name": "shin-metiu", "kwargs": {"nel": 32, "nstates": int(rng.integers(3, 6))}}
        xs = np.linspace(-6.2 - 0.05 * rng.random(), -4.8 + 0.05 * rng.random(), 16)
        if j % 2 == 1:
            xs = xs[::-1]
        ops = [(k, [float(x_)], (k - 1 if k else None), "model" if k % 3 else "chained") for k, x_ in enumerate(xs)]
        ops[0] = (0, ops[0][1], None, "model")
        a = {"spec": spec, "ops": [list(o) for o in ops]}
        ok, obs, req, text = oracle_script(a)
        ctx.case(("shin-metiu-path", spec["kwargs"]["nstates"], j % 2))
        ctx.count("directed_paths_through_native_sign_changes")
        if not ok:
            ctx.oracle_fail("update-script:shin-metiu", "script", a, obs, req, text)
    # whole PATHS of continued updates (3..8 points, smooth stretches and jumps) against MudModel.Basis.track: every tracked
    # eigenvector set of the path, given the eigh results captured at each point
    from .. import pathtrack
    pnames = [nm for nm in c05.REGISTERED + ["subotnik2d", "synth"] if nm != "shin-metiu"]
    plines, pkeep = pathtrack.build(rng, c05.make_model, c05.random_spec, c05.random_position, ec, fbs, ctx.budget(22, 400), pnames)
    pouts = ctx.model.run(plines)
    for pspec, pN, pL, psmooth, pflips, pprob in pathtrack.compare(pkeep, pouts, unfb, allclose):
        ctx.case(("track", pspec["name"], pN, psmooth, pflips > 0), {"op": "track", "model": pspec["name"], "points": pL, "columns_flipped": pflips})
        ctx.count("tracked_paths")
        ctx.count("tracked_path_points", pL)
        ctx.count("tracked_path_columns_flipped", pflips)
        if pprob:
            ctx.corr_mismatch("track", pspec, pprob)
    # directed: TWO trajectories interleaved on one truncated model, one walking up and one walking down the stretch where LAPACK's
    # native eigenvector signs change: each point is continued from the previous point of ITS OWN trajectory (two calls back)
    for j in range(ctx.budget(2, 10)):
        spec = {"name": "shin-metiu", "kwargs": {"nel": 32, "nstates": int(rng.integers(3, 6))}}
        up = np.linspace(-6.2 - 0.05 * rng.random(), -4.8 + 0.05 * rng.random(), 8)
        down = up[::-1] + 0.013
        ops = []
        for k in range(16):
            xs_ = up if k % 2 == 0 else down
            ops.append((k, [float(xs_[k // 2])], (k - 2 if k >= 2 else None), "model"))
        a = {"spec": spec, "ops": [list(o) for o in ops]}
        ok, obs, req, text = oracle_script(a)
        ctx.case(("shin-metiu-interleaved", spec["kwargs"]["nstates"]))
        ctx.count("directed_interleaved_paths_through_native_sign_changes")
        if not ok:
            ctx.oracle_fail("update-script:shin-metiu", "script", a, obs, req, text)
    outs = ctx.model.run(lines)
    for (spec, el, prev, cf, N, n), o in zip(keep, outs):
        vals = np.array([unfb(t) for t in o[1:1 + N * N]]).reshape(N, N)
        flips = int(np.sum(np.sum(cf * np.asarray(prev._reference), axis=0) < 0))
        ctx.case(("signfix", spec["name"], N, flips > 0), {"op": "signfix", "model": spec["name"], "columns_flipped": flips})
        ctx.count("signfix_columns_flipped", flips)
        if o[0] != "ok" or not allclose(vals, el._reference, 1.0):
            ctx.corr_mismatch("signfix", spec, "sign-fixed coefficients differ from the model")

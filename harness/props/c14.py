# -*- coding: utf-8 -*-
"""C14 — trace stores return exactly what was recorded across paging, reload and cloning."""
import os
import re
import shutil
import tempfile

import numpy as np
import yaml

from ..core import fingerprint, safe_oracle

ADVERSARIAL = [0.0, -0.0, 5e-324, 2.2250738585072014e-308, 1e-300, 1e300, 1.7976931348623157e308, 0.1, 1 / 3.0,
               -2.718281828459045, 123456789.12345679, 1e-17, 6.02214076e23, 0.30000000000000004]


def make_snapshot(rng, k):
    """a snapshot-shaped dict whose numeric content must survive the store bit for bit"""
    n = int(rng.integers(1, 3))
    N = 2
    def num():
        if rng.random() < 0.4:
            return float(ADVERSARIAL[int(rng.integers(0, len(ADVERSARIAL)))])
        return float(rng.normal() * 10 ** rng.uniform(-8, 8))
    rho = [[num() for _ in range(2 * N)] for _ in range(N)]
    return {"id": int(k), "time": float(k) * 0.5, "position": [num() for _ in range(n)],
            "momentum": [num() for _ in range(n)], "potential": num(), "kinetic": abs(num()), "energy": num(),
            "density_matrix": rho, "active": int(rng.integers(0, N)),
            "electronics": {"hamiltonian": [[num(), num()], [num(), num()]], "force": [[num()] * n, [num()] * n]},
            "hopping": num(), "zeta": float(rng.random())}


def same_snapshot(got, rec):
    """got: what the store returned (form_data applied); rec: the recorded dict. exact numeric equality."""
    import numpy as np
    def eq(a, b, key=None):
        if isinstance(b, dict):
            return isinstance(a, dict) and set(a) == set(b) and all(eq(a[k], b[k], k) for k in b)
        if isinstance(b, list):
            arr = np.array(b)
            if key == "density_matrix":
                arr = arr.view(dtype=np.complex128)
            a = np.asarray(a)
            return a.shape == arr.shape and a.dtype == arr.dtype and a.tobytes() == arr.tobytes()
        if isinstance(b, float):
            return isinstance(a, float) and np.float64(a).tobytes() == np.float64(b).tobytes()
        return a == b
    return eq(got, rec)


def gen_script(rng, thorough):
    """a random operation sequence: list of tuples"""
    ops = []
    pitch = int(rng.integers(1, 10))
    nh = 0
    live = []          # handles usable for writing (a loaded handle supersedes the one it was loaded from)
    sizes = {}
    nmem = 0
    ops.append(("new", pitch)); live.append(0); sizes[0] = 0; nh = 1
    ops.append(("mnew",)); nmem = 1
    L = int(rng.integers(5, 80 if thorough else 40))
    for _ in range(L):
        r = rng.random()
        h = int(live[int(rng.integers(0, len(live)))])
        if r < 0.45:
            # aim at lengths around multiples of the pitch
            ops.append(("col", h)); sizes[h] += 1
        elif r < 0.55:
            ops.append(("get", h, int(rng.integers(-sizes[h] - 2, sizes[h] + 2))))
        elif r < 0.60 and sizes[h] >= 1:
            ops.append(("iter", h))
        elif r < 0.65:
            ops.append(("len", h))
        elif r < 0.72 and sizes[h] >= 1:
            ops.append(("load", h)); live[live.index(h)] = nh; sizes[nh] = sizes[h]; nh += 1
        elif r < 0.79 and sizes[h] >= 1:
            ops.append(("clone", h)); live.append(nh); sizes[nh] = sizes[h]; nh += 1
        elif r < 0.84:
            ops.append(("new", int(rng.integers(1, 10)))); live.append(nh); sizes[nh] = 0; nh += 1
        elif r < 0.92:
            ops.append(("ev", h))
        else:
            ops.append(("dir",))
    for h in live:
        ops.append(("len", h))
        if sizes[h] >= 1:          # the property is about sequences of length >= 1 (an empty page file has no items)
            ops.append(("iter", h))
    ops.append(("dir",))
    return ops


def run_impl(ops, rng_seed):
    """execute the script on real stores in a fresh directory.
    returns (result tokens per op, problems found by comparing with the plain-list specification)"""
    import mudslide
    from mudslide.tracer import YAMLTrace, InMemoryTrace, load_log
    rng = np.random.Generator(np.random.PCG64(rng_seed))
    tmp = tempfile.mkdtemp(prefix="verif-c14-")
    handles, spec, evspec, mem, memspec = [], [], [], [], []
    out, problems = [], []
    snapid = 0
    try:
        for op in ops:
            kind = op[0]
            if kind == "new":
                t = YAMLTrace(base_name="traj", location=tmp, log_pitch=op[1])
                handles.append(t); spec.append([]); evspec.append([])
                out.append([_u(t.unique_name)])
            elif kind == "col":
                s = make_snapshot(rng, snapid); snapid += 1
                handles[op[1]].collect(s)
                spec[op[1]].append(s)
                if mem:
                    mem[0].collect(s); memspec[0].append(s)
                out.append([])
            elif kind == "ev":
                e = {"time": float(snapid), "from": 0, "to": 1, "zeta": float(rng.random()), "prob": float(rng.random())}
                handles[op[1]].hop(e["time"], 0, 1, e["zeta"], e["prob"])
                evspec[op[1]].append(dict(e, event="hop"))
                out.append([])
            elif kind == "len":
                n = len(handles[op[1]])
                if n != len(spec[op[1]]):
                    problems.append("len %d, %d snapshots were recorded" % (n, len(spec[op[1]])))
                out.append([n])
            elif kind == "get":
                h, i = op[1], op[2]
                n = len(spec[h])
                try:
                    got = handles[h][i]
                    out.append([got["id"]])
                    if not (-n <= i < n) or not same_snapshot(got, spec[h][i]):
                        problems.append("trace[%d] differs from the %d-th recorded snapshot" % (i, i))
                except IndexError:
                    out.append(["IndexError"])
                    if -n <= i < n:
                        problems.append("IndexError for valid index %d of %d" % (i, n))
                if mem:
                    # the in-memory store must agree on the same index
                    pass
            elif kind == "iter":
                h = op[1]
                got = list(handles[h])
                out.append([len(got)] + [g["id"] for g in got])
                if len(got) != len(spec[h]) or not all(same_snapshot(g, s) for g, s in zip(got, spec[h])):
                    problems.append("iteration differs from the recorded sequence")
            elif kind == "load":
                h = op[1]
                src = handles[h]
                t = load_log(os.path.join(tmp, src.main_log))
                handles.append(t); spec.append(spec[h]); evspec.append(evspec[h])     # same files: shared history
                out.append(["ok", len(t), t.nlogs])
            elif kind == "clone":
                h = op[1]
                t = handles[h].clone()
                handles.append(t); spec.append(list(spec[h])); evspec.append(list(evspec[h]))
                out.append([_u(t.unique_name)])
            elif kind == "dir":
                out.append(listing(tmp))
            elif kind == "mnew":
                mem.append(InMemoryTrace()); memspec.append([])
                out.append([])
        # events on disk
        for t, ev in zip(handles, evspec):
            with open(os.path.join(tmp, t.event_log)) as f:
                got = yaml.safe_load(f) or []
            if got != ev:
                problems.append("event log of %s differs from the recorded events" % t.unique_name)
        # in-memory store agrees with the YAML store fed the same snapshots
        if mem and memspec[0]:
            m, ms = mem[0], memspec[0]
            if len(m) != len(ms) or not all(same_snapshot(g, s) for g, s in zip(list(m), ms)):
                problems.append("in-memory store differs from what was recorded")
            for i in (0, -1, len(ms) - 1, -len(ms)):
                if not same_snapshot(m[i], ms[i]):
                    problems.append("in-memory trace[%d] differs" % i)
    finally:
        shutil.rmtree(tmp, ignore_errors=True)
    return out, problems


def _u(name):
    return int(name.rsplit("-", 1)[1])


def listing(tmp):
    """canonical directory listing: per trace u -> nlogs pitch npages [page lengths] nevents, sorted by u"""
    mains = {}
    pages = {}
    events = {}
    for fn in os.listdir(tmp):
        m = re.fullmatch(r"traj-(\d+)\.yaml", fn)
        if m:
            with open(os.path.join(tmp, fn)) as f:
                d = yaml.safe_load(f)
            u = int(m.group(1))
            ok = d["logfiles"] == ["traj-%d-log_%d.yaml" % (u, i) for i in range(d["nlogs"])] and \
                d["event_log"] == "traj-%d-events.yaml" % u and d["name"] == "traj-%d" % u
            mains[u] = (d["nlogs"], d["log_pitch"], ok)
            continue
        m = re.fullmatch(r"traj-(\d+)-log_(\d+)\.yaml", fn)
        if m:
            with open(os.path.join(tmp, fn)) as f:
                d = yaml.safe_load(f)
            pages.setdefault(int(m.group(1)), {})[int(m.group(2))] = len(d) if d else 0
            continue
        m = re.fullmatch(r"traj-(\d+)-events\.yaml", fn)
        if m:
            with open(os.path.join(tmp, fn)) as f:
                d = yaml.safe_load(f)
            events[int(m.group(1))] = len(d) if d else 0
            continue
        mains[-1] = ("unexpected file " + fn, 0, False)
    out = [len(mains)]
    for u in sorted(mains):
        nl, pitch, ok = mains[u]
        pg = pages.get(u, {})
        contiguous = sorted(pg) == list(range(len(pg)))
        out += [u, nl, pitch, len(pg)] + [pg[i] for i in sorted(pg)] + [events.get(u, -1)]
        if not ok or not contiguous:
            out.append("MALFORMED")
    return out


def script_line(ops):
    toks = ["trace"]
    x = 0
    e = 0
    for op in ops:
        if op[0] == "col":
            toks += ["col", op[1], x]; x += 1
        elif op[0] == "ev":
            toks += ["ev", op[1], e]; e += 1
        else:
            toks += list(op)
    return toks


def split_model(o):
    groups, cur = [], []
    for t in o[1:]:
        if t == ";":
            groups.append(cur); cur = []
        else:
            cur.append(t)
    return groups


@safe_oracle
def oracle_script(args):
    """the stores return exactly what was recorded: len, indexing (negative too), iteration, after reload and clone"""
    ops = [tuple(o) for o in args["ops"]]
    out, problems = run_impl(ops, args["seed"])
    return not problems, {"problems": problems[:4]}, {"problems": []}, "; ".join(problems[:3]) or "ok"


@safe_oracle
def oracle_collect_cli(args):
    """`mudslide collect` tabulates exactly the logged values"""
    from mudslide.tracer import YAMLTrace
    from mudslide.collect import collect, legend, legend_format
    rng = np.random.Generator(np.random.PCG64(args["seed"]))
    tmp = tempfile.mkdtemp(prefix="verif-c14c-")
    try:
        t = YAMLTrace(base_name="c", location=tmp, log_pitch=args["pitch"])
        snaps = []
        for k in range(args["n"]):
            s = make_snapshot(rng, k)
            for key in ("potential", "kinetic", "energy"):
                s[key] = float(rng.normal() * 10 ** rng.uniform(-3, 3))
            t.collect(s); snaps.append(s)
        logname = os.path.join(tmp, t.main_log)
        collect(logname, args["keys"])
        with open(logname + ".dat") as f:
            lines = f.read().split("\n")
        rows = [l for l in lines[1:] if l.strip()]
        problems = []
        if len(rows) != len(snaps):
            problems.append("%d rows for %d snapshots" % (len(rows), len(snaps)))
        for row, s in zip(rows, snaps):
            want = " " + " ".join([format(s[legend[k]], legend_format[k]) for k in args["keys"]])
            if row != want:
                problems.append("row %r, logged values give %r" % (row, want))
                break
        return not problems, {"problems": problems[:2]}, {"rows": len(snaps)}, "; ".join(problems[:2]) or "ok"
    finally:
        shutil.rmtree(tmp, ignore_errors=True)


@safe_oracle
def oracle_mem_script(args):
    """the in-memory store against the plain-list specification under clone-then-diverge histories: after any sequence of
    collect / hop / frustrated hop / collapse-type events / clone over several handles, every handle holds exactly the
    snapshots and events recorded through it (plus what its source held when it was cloned): nothing leaks between a
    clone and its original, in either direction"""
    from mudslide.tracer import InMemoryTrace
    rng = np.random.Generator(np.random.PCG64(args["seed"]))
    hs = [InMemoryTrace()]
    spec = [{"snaps": [], "hops": [], "events": {}}]
    sid = 0
    problems = []
    for op in args["ops"]:
        kind, h = op[0], op[1]
        if kind == "col":
            sn = make_snapshot(rng, sid); sid += 1
            hs[h].collect(sn); spec[h]["snaps"].append(sn)
        elif kind == "hop":
            e = (float(sid), 0, 1, float(rng.random()), float(rng.random()))
            hs[h].hop(*e)
            spec[h]["hops"].append({"event": "hop", "time": e[0], "from": 0, "to": 1, "zeta": e[3], "prob": e[4]})
        elif kind == "fr":
            e = (float(sid), 1, 0, float(rng.random()), float(rng.random()))
            hs[h].frustrated_hop(*e)
            spec[h]["events"].setdefault("frustrated_hop", []).append(
                {"event": "frustrated_hop", "time": e[0], "from": 1, "to": 0, "zeta": e[3], "prob": e[4]})
        elif kind == "ev":
            d = {"time": float(sid), "removed": [1], "gamma": float(rng.random())}
            hs[h].record_event(op[2], dict(d))
            spec[h]["events"].setdefault(op[2], []).append(d)
        elif kind == "clone":
            hs.append(hs[h].clone())
            spec.append({"snaps": list(spec[h]["snaps"]), "hops": list(spec[h]["hops"]),
                         "events": {k: list(v) for k, v in spec[h]["events"].items()}})
        # after EVERY op every handle must equal its specification
        for j, (t, sp) in enumerate(zip(hs, spec)):
            if len(t) != len(sp["snaps"]) or not all(same_snapshot(g, r) for g, r in zip(list(t), sp["snaps"])):
                problems.append("after %r: handle %d holds %d snapshots, %d were recorded through it" % (op, j, len(t), len(sp["snaps"])))
            hops = [{k: v for k, v in e.items()} for e in t.hops]
            if [(e["time"], e["zeta"]) for e in hops] != [(e["time"], e["zeta"]) for e in sp["hops"]]:
                problems.append("after %r: handle %d has %d hop events, specification %d" % (op, j, len(hops), len(sp["hops"])))
            got = {k: [e["time"] for e in v] for k, v in t.events.items() if v}
            want = {k: [e["time"] for e in v] for k, v in sp["events"].items() if v}
            if got != want:
                problems.append("after %r: handle %d events %r, specification %r" % (op, j, got, want))
        if problems:
            break
    return not problems, {"handles": len(hs), "problems": problems[:3]}, {"problems": []}, "; ".join(problems[:2]) or "ok"


@safe_oracle
def oracle_two_dirs(args):
    """several YAML stores with the SAME base name in DIFFERENT directories (each run in its own directory with the default name, a run
    next to its reference, a log reloaded elsewhere): after any interleaving of collect / index / iterate / reload on them, every store
    returns exactly the snapshots recorded through it"""
    from mudslide.tracer import YAMLTrace, load_log
    rng = np.random.Generator(np.random.PCG64(args["seed"]))
    dirs = [tempfile.mkdtemp(prefix="verif-c14d-") for _ in range(int(args["ndirs"]))]
    problems = []
    try:
        hs = [YAMLTrace(base_name="traj", location=d, log_pitch=int(p_)) for d, p_ in zip(dirs, args["pitches"])]
        spec = [[] for _ in hs]
        sid = 0
        for op in args["ops"]:
            kind, h = op[0], int(op[1])
            if kind == "col":
                sn = make_snapshot(rng, sid); sid += 1
                hs[h].collect(sn); spec[h].append(sn)
            elif kind == "get" and spec[h]:
                i = int(op[2]) % len(spec[h])
                for i_ in (i, i - len(spec[h])):
                    if not same_snapshot(hs[h][i_], spec[h][i_]):
                        problems.append("store %d (directory %d): trace[%d] is not the %d-th snapshot recorded through it" % (h, h, i_, i))
            elif kind == "iter" and spec[h]:       # (the property is about sequences of length >= 1: an empty page file has no items)
                got = list(hs[h])
                if len(got) != len(spec[h]) or not all(same_snapshot(g, r) for g, r in zip(got, spec[h])):
                    problems.append("store %d: iteration differs from the recorded sequence" % h)
            elif kind == "load" and spec[h]:
                hs[h] = load_log(os.path.join(dirs[h], hs[h].main_log))
            if problems:
                break
        if not problems:
            for h, (t, sp) in enumerate(zip(hs, spec)):
                if len(t) != len(sp) or not all(same_snapshot(t[i], sp[i]) for i in range(len(sp))) or \
                        (sp and not all(same_snapshot(g, r) for g, r in zip(list(t), sp))):
                    problems.append("store %d: final content (by index or by iteration) differs from what was recorded through it" % h)
    finally:
        for d in dirs:
            shutil.rmtree(d, ignore_errors=True)
    return not problems, {"problems": problems[:3]}, {"problems": []}, "; ".join(problems[:2]) or "ok"


ORACLES = {"script": oracle_script, "collect_cli": oracle_collect_cli, "mem_script": oracle_mem_script, "two_dirs": oracle_two_dirs}


def run(ctx):
    ctx.rule = ("random operation sequences (5..80 ops) over several traces in one directory: new (pitch 1..9) / collect / "
                "index (incl. negative and out of range) / iterate / len / reload / clone / hop event / directory listing; "
                "snapshots carry adversarial doubles (subnormal, 1e+-300, -0.0, 17-digit). Non-trivial = contains a reload or "
                "clone and a page roll-over; distinct by (pitch, #ops, #reloads, #clones, max length mod pitch == 0)")
    ctx.assumptions += ["PyYAML text round-trip of doubles is external; checked bit-exactly on every snapshot read back",
                        "the model's directory is a map trace-id -> files; real file names are canonicalised by regex"]
    ctx.fingerprints["mudslide/tracer.py"] = fingerprint("mudslide/tracer.py", ["YAMLTrace", "InMemoryTrace", "form_data"])
    ctx.fingerprints["mudslide/util.py"] = fingerprint("mudslide/util.py", ["find_unique_name"])
    ctx.proofs()
    rng = ctx.rng
    scripts = [gen_script(rng, ctx.thorough()) for _ in range(ctx.budget(60, 3000))]
    # directed: lengths at exact multiples of the pitch, then reload, then continue
    for pitch in range(1, 6):
        for mult in (1, 2, 3):
            ops = [("new", pitch)] + [("col", 0)] * (pitch * mult) + [("load", 0), ("len", 1), ("col", 1), ("col", 1), ("iter", 1),
                                                                       ("get", 1, -1), ("get", 1, pitch * mult), ("clone", 1),
                                                                       ("col", 2), ("iter", 2), ("iter", 1), ("dir",)]
            scripts.append(ops)
    # directed: more than ten pages (page names log_10, log_11, ... after log_9), reload, index from both ends, append, reload
    for pitch, n in ((1, 12), (1, 23), (2, 23), (2, 26), (3, 34)):
        if not ctx.thorough() and (pitch, n) in ((2, 26), (3, 34)):
            continue
        scripts.append([("new", pitch)] + [("col", 0)] * n + [("load", 0), ("len", 1), ("iter", 1), ("get", 1, -1), ("get", 1, -2),
                                                            ("get", 1, n - 1), ("get", 1, 10 * pitch), ("get", 1, 2 * pitch),
                                                            ("col", 1), ("col", 1), ("load", 1), ("len", 2), ("iter", 2),
                                                            ("get", 2, -1), ("clone", 2), ("iter", 3), ("dir",)])
    outs = ctx.model.run([script_line(ops) for ops in scripts])
    for ops, o in zip(scripts, outs):
        seed = int(rng.integers(1, 2 ** 31))
        try:
            impl_out, problems = run_impl(ops, seed)
        except Exception as e_:  # noqa
            from ..core import raised_in_repo
            if not raised_in_repo(e_):
                raise
            # the store raised in the middle of a script: that script is the failing input (judged by the oracle, which records it)
            a_ = {"ops": [list(x) for x in ops], "seed": seed}
            ok_, obs_, req_, text_ = oracle_script(a_)
            ctx.case(None)
            ctx.oracle_fail("trace-store-raised", "script", a_, obs_, req_, text_)
            continue
        groups = split_model(o)
        nl = sum(1 for x in ops if x[0] == "load")
        nc = sum(1 for x in ops if x[0] == "clone")
        ncol = sum(1 for x in ops if x[0] == "col")
        pitch = ops[0][1]
        ctx.case((pitch, len(ops) // 10, nl, nc, ncol % pitch == 0) if (nl + nc >= 1 and ncol > pitch) else None,
                 {"op": "trace-script", "ops": [list(x) for x in ops[:25]], "impl": impl_out[:25]})
        ctx.count("ops", len(ops))
        ctx.count("reloads", nl)
        ctx.count("clones", nc)
        if o[0] != "ok" or len(groups) != len(impl_out):
            ctx.corr_mismatch("trace", {"ops": [list(x) for x in ops]}, "model said %r" % (o[:6],))
        else:
            for k, (g, io, op) in enumerate(zip(groups, impl_out, ops)):
                if [str(t) for t in io] != g:
                    ctx.corr_mismatch("trace." + op[0], {"ops": [list(x) for x in ops], "seed": seed},
                                      "op %d %r: model %r impl %r" % (k, op, g, io))
                    break
        if problems:
            ctx.oracle_fail("trace-store", "script", {"ops": [list(x) for x in ops], "seed": seed},
                            {"problems": problems[:4]}, {"problems": []}, "; ".join(problems[:3]))
    # same-named stores in different directories
    for i in range(ctx.budget(10, 300)):
        nd = int(rng.integers(2, 4))
        ops = []
        for _ in range(int(rng.integers(10, 40))):
            h = int(rng.integers(0, nd))
            r = rng.random()
            ops.append(["col", h] if r < 0.5 else ["get", h, int(rng.integers(0, 50))] if r < 0.8 else ["iter", h] if r < 0.9 else ["load", h])
        a = {"seed": int(rng.integers(1, 2 ** 31)), "ndirs": nd, "pitches": [int(v) for v in rng.integers(1, 6, size=nd)], "ops": ops}
        ok, obs, req, text = oracle_two_dirs(a)
        ctx.case(("two-dirs", nd, len(ops) // 10))
        ctx.count("scripts_over_same_named_stores_in_different_directories")
        if not ok:
            ctx.oracle_fail("trace-store-two-directories", "two_dirs", a, obs, req, text)
    # in-memory store: clone-then-diverge histories with events of types that already exist at the clone
    for i in range(ctx.budget(30, 1000)):
        ops, nh = [], 1
        for _ in range(int(rng.integers(6, 40))):
            h = int(rng.integers(0, nh))
            r = rng.random()
            if r < 0.35:
                ops.append(["col", h])
            elif r < 0.5:
                ops.append(["hop", h])
            elif r < 0.65:
                ops.append(["fr", h])
            elif r < 0.8:
                ops.append(["ev", h, str(rng.choice(["collapse", "custom"]))])
            elif nh < 5:
                ops.append(["clone", h]); nh += 1
        a = {"seed": int(rng.integers(1, 2 ** 31)), "ops": ops}
        ok, obs, req, text = oracle_mem_script(a)
        ctx.case(("mem-script", nh, len(ops) // 10))
        ctx.count("mem_scripts")
        ctx.count("mem_clones", nh - 1)
        if not ok:
            ctx.oracle_fail("in-memory-store", "mem_script", a, obs, req, text)
    for i in range(ctx.budget(6, 100)):
        a = {"seed": int(rng.integers(1, 2 ** 31)), "pitch": int(rng.integers(1, 6)), "n": int(rng.integers(1, 14)),
             "keys": ["tkpea", "te", "a", "kp", "etk"][i % 5]}
        if i % 3 == 2:
            # more than ten pages (page names ...-log_10 sort before ...-log_2 as strings)
            a["pitch"] = int(rng.integers(1, 4))
            a["n"] = a["pitch"] * int(rng.integers(11, 15)) + int(rng.integers(0, a["pitch"] + 1))
            ctx.count("collect_cli_more_than_ten_pages")
        ok, obs, req, text = oracle_collect_cli(a)
        ctx.case(("collect-cli", a["keys"], a["pitch"]))
        ctx.count("collect_cli")
        if not ok:
            ctx.oracle_fail("collect-cli", "collect_cli", a, obs, req, text)

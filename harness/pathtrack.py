# -*- coding: utf-8 -*-
"""whole paths of continued updates against MudModel.Basis.track (op `track`)"""
import numpy as np


def build(rng, make_model, random_spec, random_position, ec, fbs, count, names):
    lines, keep = [], []
    for i in range(count):
        name = names[i % len(names)]
        if name == "synth":
            spec = {"name": "synth", "seed": int(rng.integers(1, 10 ** 6)), "N": int(rng.integers(2, 7)), "n": int(rng.integers(1, 4))}
        else:
            spec = random_spec(rng, name)
        m = make_model(spec)
        N = m.nstates()
        L = int(rng.integers(3, 9))
        pts = [np.array(random_position(rng, m, name), dtype=np.float64) for _ in range(L + 1)]
        if i % 2 == 0:
            # a smooth stretch: small steps from the first point (the rest of the scripts are jumps)
            step = np.array(random_position(rng, m, name), dtype=np.float64) * 0.02
            pts = [pts[0] + k * step for k in range(L + 1)]
        el = m.update(pts[0])
        ref0 = np.array(el._reference, copy=True)
        fresh, tracked = [], []
        ok = True
        for x in pts[1:]:
            with ec.EighCapture() as cap:
                el = m.update(x, electronics=el)
            _a, w, cf = ec.first_eigh(cap, "model.update", W=(None if cap.calls else np.asarray(m.V(x))))
            if np.asarray(cf).shape != (N, N):
                ok = False            # a truncated auxiliary problem (more basis functions than states): not this op
                break
            fresh.append(np.array(cf, copy=True))
            tracked.append(np.array(el._reference, copy=True))
        if not ok:
            continue
        line = ["track", N, L] + fbs(ref0)
        for c in fresh:
            line += fbs(c)
        lines.append(line)
        keep.append((spec, N, L, ref0, fresh, tracked, i % 2 == 0))
    return lines, keep


def compare(keep, outs, unfb, allclose):
    for (spec, N, L, ref0, fresh, tracked, smooth), o in zip(keep, outs):
        prob = None
        flips = 0
        if o[0] != "ok" or len(o) != 1 + L * N * N:
            prob = "model driver: %r" % (o[:2],)
        else:
            vals = np.array([unfb(t) for t in o[1:]]).reshape(L, N, N)
            prev = ref0
            for k in range(L):
                flips += int(np.sum(np.sum(fresh[k] * prev, axis=0) < 0))
                if not allclose(vals[k], tracked[k], 1.0):
                    prob = "tracked eigenvectors at point %d of the path differ from the model" % (k + 1)
                    break
                prev = tracked[k]
        yield spec, N, L, smooth, flips, prob

/-
  MudProof.RealInst — the scalar operation classes of the model at `ℝ`.
  (`Add ℝ`, `Mul ℝ`, … `NatCast ℝ` are Mathlib's own instances, so `ring`, `field_simp`,
  `linarith` see ordinary real arithmetic in the unfolded model definitions.)
-/
import Mathlib.Analysis.SpecialFunctions.Exp
import Mathlib.Analysis.SpecialFunctions.Sqrt
import Mathlib.Analysis.SpecialFunctions.Trigonometric.Basic
import Mathlib.Analysis.SpecialFunctions.Trigonometric.DerivHyp
import MudModel.Num

namespace Mud

noncomputable instance : HasSqrt ℝ := ⟨Real.sqrt⟩
noncomputable instance : HasExp ℝ := ⟨Real.exp, fun x => Real.exp x - 1⟩
noncomputable instance : HasTrig ℝ := ⟨Real.sin, Real.cos, Real.tanh, Real.cosh⟩
noncomputable instance : HasAbs ℝ := ⟨fun x => |x|⟩

@[simp] theorem sqrt_real (x : ℝ) : sqrt x = Real.sqrt x := rfl
@[simp] theorem exp_real (x : ℝ) : exp x = Real.exp x := rfl
@[simp] theorem expm1_real (x : ℝ) : expm1 x = Real.exp x - 1 := rfl
@[simp] theorem abs_real (x : ℝ) : HasAbs.abs x = |x| := rfl
@[simp] theorem sin_real (x : ℝ) : sin x = Real.sin x := rfl
@[simp] theorem cos_real (x : ℝ) : cos x = Real.cos x := rfl
@[simp] theorem tanh_real (x : ℝ) : tanh x = Real.tanh x := rfl
@[simp] theorem cosh_real (x : ℝ) : cosh x = Real.cosh x := rfl

@[simp] theorem lit_real (n : ℕ) : (lit n : ℝ) = (n : ℝ) := rfl
@[simp] theorem frac_real (p q : ℕ) : (frac p q : ℝ) = (p : ℝ) / (q : ℝ) := rfl

theorem vsum_eq_sum {n : ℕ} (f : Fin n → ℝ) : vsum f = ∑ i, f i := by
  unfold vsum; exact List.sum_ofFn

end Mud

/-
  Theorems about the COMPOSED FSSH step `Mud.shStep` / run `Mud.shRun` (MudModel/Step.lean = the body of
  `TrajectorySH.simulate()` in the order of the code), used by several properties:

  * `shStep_common`      clock, step counter, ρ' = expStep ρ (whatever the hop decision), Verlet position, last_velocity  (C02, C07, C16)
  * `shStep_event`       nothing logged ⇒ the step is exactly Verlet + exp (hop-free step); frustrated ⇒ state and velocity
                         untouched; accepted ⇒ the event names (old state, new state)                                     (C04, C07)
  * `shStep_hop_energy`  at an accepted hop inside a step KE + E_active is conserved (the hopper never returns the active
                         state: `C03.hopper_zero_slot`, so the rescale direction is a genuine coupling vector)             (C01)
  * `shRun_length`, `shRun_clock`   one logged state per input, step counter and clock of the k-th                        (C16)
  * `shRun_rho_valid`    along a whole run WITH hops every density matrix is a valid state, pure if it started pure         (C02)

  * `ehStep_spec`, `ehRun_spec`   Ehrenfest step/run: label constant, ρ valid along the run, logged potential = Re tr(ρ' H')  (C08, C02)
  * `cumStep_common`, `cumStep_event`   cumulative-FSSH step: clock, ρ' = expStep ρ, events vs state                     (C09, C04)

  * `afHop_common`, `afCollapse_spec`, `afStep_rho`, `pureState_valid`   whole A-FSSH step: with a collapse ρ is the (valid) pure
                         state of the label active AFTER the step's hop attempt and both moments vanish; otherwise ρ' = expStep ρ  (C11, C02)

  * `shiftDiag_hermitian`, `afStep_hermitian`, `afRun_hermitian`, `initial_moments_hermitian`   both moment tensors and ρ stay Hermitian
  * `afRun_append`, `afEnd_snoc`   an A-FSSH run splits at any step into the first part and the run continued from the state AND
                                   the electronics of the last two positions (what `simulate()` has to carry over: fix c6fce94)
                         along a whole A-FSSH run with hops (`hop_update`) and collapses, for any eigh results, dt, thresholds   (C11)

  * `shRun_append`, `shEnd_last`   a run over `a ++ b` = run over `a`, then run over `b` from the state and electronics the first part ended
                         with: a restart reproduces the uninterrupted run iff it reconstructs that pair                       (C13)

  * `shRun_drop`, `ehRun_append/_drop`, `cumRun_append/_drop`   the same for every interruption point as a statement about the log
                         (`drop`), and for Ehrenfest and cumulative-FSSH runs                                                  (C13)

  The tie to the code is the whole-run correspondence (`harness/runcommon.py`, op `shrun`): the real TrajectorySH is run,
  what it reads from outside at each step is recorded, and the model has to reproduce every snapshot and every event.
-/
import MudProof.Properties.C01
import MudProof.Properties.C03
import MudProof.Properties.C02
import MudProof.Properties.C11
import MudModel.Step
import MudModel.AStep
namespace Mud.StepThm
open Mud Matrix
open scoped ComplexOrder

variable {N n : ℕ}

/-- the parts of the step that do not depend on the hop decision -/
theorem shStep_common (m : Fin n → ℝ) (dt : ℝ) (eLast : Elec ℝ N n) (inp : StepIn ℝ N n) (s : SH ℝ N n) :
    let r := (shStep m dt eLast inp s).1
    r.time = s.time + dt ∧ r.nsteps = s.nsteps + 1 ∧
    r.rho = expStep inp.diags inp.coeff dt s.rho ∧
    (∀ i, r.x.get i = advancePosition s.x.get s.v.get (accel (eLast.force s.state) m) dt i) ∧
    r.vlast = s.v := by
  simp only [shStep]
  split
  · simp
  · split
    · split <;> simp
    · simp

/-- the velocity after the Verlet half of the step -/
noncomputable def vVerlet (m : Fin n → ℝ) (dt : ℝ) (eLast : Elec ℝ N n) (inp : StepIn ℝ N n) (s : SH ℝ N n) : Fin n → ℝ :=
  advanceVelocity s.v.get (accel (eLast.force s.state) m) (accel (inp.elec.force s.state) m) dt

/-- the three outcomes of the hop part, read off the logged event:
    * nothing logged  ⇒ state unchanged, velocity = Verlet velocity (a hop-free step IS the Verlet + exp step);
    * frustrated      ⇒ state and velocity unchanged, event names (old state, target);
    * accepted        ⇒ new state = target ≠ …, event names (old state, new state), and the velocity is the rescaled one -/
theorem shStep_event (m : Fin n → ℝ) (dt : ℝ) (eLast : Elec ℝ N n) (inp : StepIn ℝ N n) (s : SH ℝ N n) :
    let r := shStep m dt eLast inp s
    (r.2 = none → r.1.state = s.state ∧ ∀ i, r.1.v.get i = vVerlet m dt eLast inp s i) ∧
    (∀ a b, r.2 = some (false, a, b) → a = s.state.val ∧ r.1.state = s.state ∧ ∀ i, r.1.v.get i = vVerlet m dt eLast inp s i) ∧
    (∀ a b, r.2 = some (true, a, b) → a = s.state.val ∧ r.1.state.val = b) := by
  simp only [shStep, vVerlet]
  split
  · simp
  · split
    · split <;> simp
    · simp

/-- **energy at an accepted hop inside a step** (C01): kinetic energy after the step + energy of the new state =
    kinetic energy of the Verlet velocity + energy of the old state, the energies being the diagonal of the NEW Hamiltonian -/
theorem shStep_hop_energy (m : Fin n → ℝ) (hm : ∀ i, 0 < m i) (dt : ℝ) (eLast : Elec ℝ N n) (inp : StepIn ℝ N n) (s : SH ℝ N n)
    (hd : ∀ t : Fin N, t ≠ s.state → ∃ x, inp.elec.dc s.state t x ≠ 0) (hζ : 0 ≤ inp.zeta)
    (a b : ℕ) (hev : (shStep m dt eLast inp s).2 = some (true, a, b)) :
    ∃ t : Fin N, t.val = b ∧ (shStep m dt eLast inp s).1.state = t ∧
      kinetic m (shStep m dt eLast inp s).1.v.get + inp.elec.H.get t t
        = kinetic m (vVerlet m dt eLast inp s) + inp.elec.H.get s.state s.state := by
  simp only [shStep] at hev ⊢
  split at hev
  · simp at hev
  · rename_i t p hop
    split at hev
    · rename_i ht
      split at hev
      · rename_i hacc
        simp only [Option.some.injEq, Prod.mk.injEq, true_and] at hev
        refine ⟨⟨t, ht⟩, hev.2, ?_, ?_⟩
        · simp [hop, ht, hacc]
        · simp only [hop, ht, dite_true, hacc, if_true]
          by_cases hts : (⟨t, ht⟩ : Fin N) = s.state
          · -- the hopper never returns the active state: its slot has zero width (`C03.hopper_zero_slot`, `gkndt_self`)
            exfalso
            have hk : t = s.state.val := congrArg Fin.val hts
            have hop' := hop
            simp only [hopper, C03.tully_probs] at hop'
            refine C03.hopper_zero_slot inp.zeta hζ _ ?_ s.state.val (by simp) ?_ p (hk ▸ hop')
            · intro q hq
              simp only [List.mem_ofFn] at hq
              obtain ⟨j, rfl⟩ := hq
              exact C03.gkndt_nonneg _ _ _ _ _
            · simp [C03.gkndt_self]
          · have := C01.hop_energy_exact m _ (fun x => inp.elec.dc s.state ⟨t, ht⟩ x) hm (hd _ hts)
              (fun i => inp.elec.H.get i i) s.state ⟨t, ht⟩ hacc
            simpa [vVerlet, kinetic] using this
      · simp at hev
    · simp at hev

/-! ### whole runs -/

theorem shRun_length (m : Fin n → ℝ) (dt : ℝ) (e : Elec ℝ N n) (s : SH ℝ N n) (inps : List (StepIn ℝ N n)) :
    (shRun m dt e s inps).length = inps.length := by
  induction inps generalizing e s with
  | nil => rfl
  | cons inp rest ih => simp [shRun, ih]

/-- step counter and clock of the k-th logged state of a run: `nsteps₀ + k + 1`, and the clock is `dt` added `k+1` times -/
theorem shRun_clock (m : Fin n → ℝ) (dt : ℝ) (e : Elec ℝ N n) (s : SH ℝ N n) (inps : List (StepIn ℝ N n)) (k : ℕ)
    (hk : k < (shRun m dt e s inps).length) :
    ((shRun m dt e s inps)[k]).1.nsteps = s.nsteps + k + 1 ∧
    ((shRun m dt e s inps)[k]).1.time = s.time + (k + 1 : ℕ) * dt := by
  induction inps generalizing e s k with
  | nil => simp [shRun] at hk
  | cons inp rest ih =>
    have hc := shStep_common m dt e inp s
    simp only at hc
    cases k with
    | zero =>
      simp only [shRun, List.getElem_cons_zero]
      exact ⟨by rw [hc.2.1], by rw [hc.1]; push_cast; ring⟩
    | succ k =>
      simp only [shRun, List.getElem_cons_succ]
      have hk' : k < (shRun m dt inp.elec (shStep m dt e inp s).1 rest).length := by
        simpa [shRun] using hk
      have := ih inp.elec (shStep m dt e inp s).1 k hk'
      rw [this.1, this.2, hc.2.1, hc.1]
      exact ⟨by omega, by push_cast; ring⟩

/-- **the density matrix along a whole run** (C02), hops included: if LAPACK's eigenvector matrices are unitary at every
    step, every logged density matrix is Hermitian, of unit trace, positive semi-definite, and pure if the run started pure.
    Hop attempts — accepted or frustrated — do not enter: `shStep_common` shows ρ after the step is `expStep` of ρ before it
    whatever the hop decision -/
theorem shRun_rho_valid (m : Fin n → ℝ) (dt : ℝ) (e : Elec ℝ N n) (s : SH ℝ N n) (inps : List (StepIn ℝ N n))
    (hC : ∀ inp ∈ inps, (toM inp.coeff)ᴴ * toM inp.coeff = 1) (h : C02.Valid (toM s.rho)) :
    ∀ r ∈ shRun m dt e s inps, C02.Valid (toM r.1.rho) ∧
      (toM s.rho * toM s.rho = toM s.rho → toM r.1.rho * toM r.1.rho = toM r.1.rho) := by
  induction inps generalizing e s with
  | nil => intro r hr; simp [shRun] at hr
  | cons inp rest ih =>
    intro r hr
    have hc := shStep_common m dt e inp s
    simp only at hc
    have hv := C02.expStep_valid inp.diags inp.coeff s.rho dt (hC inp List.mem_cons_self) h
    simp only [shRun, List.mem_cons] at hr
    rcases hr with hr | hr
    · subst hr
      rw [hc.2.2.1]
      exact hv
    · have h1 : C02.Valid (toM (shStep m dt e inp s).1.rho) := by rw [hc.2.2.1]; exact hv.1
      have := ih inp.elec (shStep m dt e inp s).1 (fun i hi => hC i (List.mem_cons_of_mem _ hi)) h1 r hr
      refine ⟨this.1, fun hp => this.2 ?_⟩
      rw [hc.2.2.1]
      exact hv.2 hp

/-! ### Ehrenfest and cumulative FSSH -/

/-- Ehrenfest: the label never changes, the clock advances, ρ' = expStep ρ, the logged potential is `Re tr(ρ' H')` -/
theorem ehStep_spec (m : Fin n → ℝ) (dt : ℝ) (eLast : Elec ℝ N n) (inp : StepIn ℝ N n) (s : SH ℝ N n) :
    (ehStep m dt eLast inp s).1.state = s.state ∧
    (ehStep m dt eLast inp s).1.time = s.time + dt ∧ (ehStep m dt eLast inp s).1.nsteps = s.nsteps + 1 ∧
    (ehStep m dt eLast inp s).1.rho = expStep inp.diags inp.coeff dt s.rho ∧
    (ehStep m dt eLast inp s).2 = ehrenfestPotential (fun a b => (expStep inp.diags inp.coeff dt s.rho).get a b)
      (fun a b => inp.elec.H.get a b) := by
  simp [ehStep]

/-- along a whole Ehrenfest run the active-state label is the initial one and every density matrix is a valid state
    (pure if it started pure), provided LAPACK's eigenvector matrices are unitary -/
theorem ehRun_spec (m : Fin n → ℝ) (dt : ℝ) (e : Elec ℝ N n) (s : SH ℝ N n) (inps : List (StepIn ℝ N n))
    (hC : ∀ inp ∈ inps, (toM inp.coeff)ᴴ * toM inp.coeff = 1) (h : C02.Valid (toM s.rho)) :
    ∀ r ∈ ehRun m dt e s inps, r.1.state = s.state ∧ C02.Valid (toM r.1.rho) ∧
      (toM s.rho * toM s.rho = toM s.rho → toM r.1.rho * toM r.1.rho = toM r.1.rho) := by
  induction inps generalizing e s with
  | nil => intro r hr; simp [ehRun] at hr
  | cons inp rest ih =>
    intro r hr
    have hc := ehStep_spec m dt e inp s
    have hv := C02.expStep_valid inp.diags inp.coeff s.rho dt (hC inp List.mem_cons_self) h
    simp only [ehRun, List.mem_cons] at hr
    rcases hr with hr | hr
    · subst hr
      refine ⟨hc.1, ?_, ?_⟩
      · rw [hc.2.2.2.1]; exact hv.1
      · rw [hc.2.2.2.1]; exact hv.2
    · have h1 : C02.Valid (toM (ehStep m dt e inp s).1.rho) := by rw [hc.2.2.2.1]; exact hv.1
      have := ih inp.elec (ehStep m dt e inp s).1 (fun i hi => hC i (List.mem_cons_of_mem _ hi)) h1 r hr
      refine ⟨by rw [this.1, hc.1], this.2.1, fun hp => this.2.2 ?_⟩
      rw [hc.2.2.2.1]
      exact hv.2 hp

/-- cumulative FSSH step: clock, ρ' = expStep ρ whatever the hopper decides, and the accumulator/threshold pair is exactly what
    `cumHopper` returns for the step's rates -/
theorem cumStep_common (m : Fin n → ℝ) (dt : ℝ) (eLast : Elec ℝ N n) (inp : StepIn ℝ N n) (ci : CumIn ℝ)
    (sc : SH ℝ N n × CumState ℝ) :
    (cumStep m dt eLast inp ci sc).1.1.time = sc.1.time + dt ∧
    (cumStep m dt eLast inp ci sc).1.1.nsteps = sc.1.nsteps + 1 ∧
    (cumStep m dt eLast inp ci sc).1.1.rho = expStep inp.diags inp.coeff dt sc.1.rho := by
  simp only [cumStep]
  split
  · simp
  · simp
  · split
    · split <;> simp
    · simp

/-- no event ⇒ state unchanged; frustrated ⇒ state unchanged; accepted ⇒ event names (old, new) -/
theorem cumStep_event (m : Fin n → ℝ) (dt : ℝ) (eLast : Elec ℝ N n) (inp : StepIn ℝ N n) (ci : CumIn ℝ)
    (sc : SH ℝ N n × CumState ℝ) :
    ((cumStep m dt eLast inp ci sc).2 = none → (cumStep m dt eLast inp ci sc).1.1.state = sc.1.state) ∧
    (∀ a b, (cumStep m dt eLast inp ci sc).2 = some (false, a, b) → a = sc.1.state.val ∧ (cumStep m dt eLast inp ci sc).1.1.state = sc.1.state) ∧
    (∀ a b, (cumStep m dt eLast inp ci sc).2 = some (true, a, b) → a = sc.1.state.val ∧ (cumStep m dt eLast inp ci sc).1.1.state.val = b) := by
  simp only [cumStep]
  split
  · simp
  · simp
  · split
    · split <;> simp
    · simp

/-! ### A-FSSH (MudModel/AStep.lean) -/

/-- the collapse part of an A-FSSH step: with a recorded collapse the density matrix is the pure state of the label that is
    active THEN (after the step's own hop attempt) and both moment tensors are zero in every dimension; without one nothing
    changes; the label itself is never changed by the collapse -/
theorem afCollapse_spec (dt : ℝ) (inp : AStepIn ℝ N n) (a : AF ℝ N n) :
    ((afCollapse dt inp a).2 ≠ [] →
      (afCollapse dt inp a).1.s.rho = pureState a.s.state ∧
      (∀ x, (afCollapse dt inp a).1.delR.get x = zeroMoment) ∧ (∀ x, (afCollapse dt inp a).1.delP.get x = zeroMoment)) ∧
    ((afCollapse dt inp a).2 = [] → (afCollapse dt inp a).1 = a) ∧
    (afCollapse dt inp a).1.s.state = a.s.state := by
  simp only [afCollapse]
  split
  · rename_i he
    simp only [List.isEmpty_iff] at he
    simp [he]
  · rename_i he
    simp only [List.isEmpty_iff] at he
    simp [he]

/-- the hop part: clock, step counter, `last_velocity`, and ρ after it is `expStep` of ρ before it whatever the hop decision -/
theorem afHop_common (m : Fin n → ℝ) (dt : ℝ) (ePrev eLast : ElecA ℝ N n) (inp : AStepIn ℝ N n) (a : AF ℝ N n) :
    (afHop m dt ePrev eLast inp a).1.s.time = a.s.time + dt ∧ (afHop m dt ePrev eLast inp a).1.s.nsteps = a.s.nsteps + 1 ∧
    (afHop m dt ePrev eLast inp a).1.s.vlast = a.s.v ∧
    (afHop m dt ePrev eLast inp a).1.s.rho = expStep inp.diags inp.coeff dt a.s.rho := by
  simp only [afHop]
  split
  · simp
  · split
    · split <;> simp
    · simp

/-- **whole A-FSSH step**: with a collapse ρ is the pure ACTIVE state (active after the step) and the moments are zero;
    without one ρ is `expStep` of ρ before the step -/
theorem afStep_rho (m : Fin n → ℝ) (dt : ℝ) (ePrev eLast : ElecA ℝ N n) (inp : AStepIn ℝ N n) (a : AF ℝ N n) :
    ((afStep m dt ePrev eLast inp a).2.1.2 ≠ [] →
      (afStep m dt ePrev eLast inp a).1.s.rho = pureState (afStep m dt ePrev eLast inp a).1.s.state ∧
      (∀ x, (afStep m dt ePrev eLast inp a).1.delR.get x = zeroMoment) ∧
      (∀ x, (afStep m dt ePrev eLast inp a).1.delP.get x = zeroMoment)) ∧
    ((afStep m dt ePrev eLast inp a).2.1.2 = [] →
      (afStep m dt ePrev eLast inp a).1.s.rho = expStep inp.diags inp.coeff dt a.s.rho) := by
  have hc := afCollapse_spec dt inp (afHop m dt ePrev eLast inp a).1
  have hh := afHop_common m dt ePrev eLast inp a
  simp only [afStep]
  refine ⟨fun h => ?_, fun h => ?_⟩
  · have := hc.1 h
    rw [hc.2.2]
    exact this
  · rw [hc.2.1 h]
    exact hh.2.2.2

/-- the pure state the collapse writes is a valid electronic state on the active label (`C02.collapse_pure`) -/
theorem pureState_valid (k : Fin N) :
    toM (pureState (α := ℝ) k) * toM (pureState k) = toM (pureState k) ∧ (toM (pureState (α := ℝ) k)).IsHermitian ∧
    (toM (pureState (α := ℝ) k)).trace = 1 := by
  have hp := C02.collapse_pure k
  simp only at hp
  have e : toM (pureState (α := ℝ) k) = Matrix.of (fun i j => if i = k ∧ j = k then (1 : ℂ) else 0) := by
    ext i j
    simp only [pureState, toM_apply, Tab.get_ofFn, of_apply]
    split <;> apply Complex.ext <;> simp
  rw [e]
  exact hp

/-! ### C11 at full strength: Hermiticity of the moments along whole A-FSSH runs -/

/-- `hop_update` on a Hermitian moment matrix gives a Hermitian matrix (real diagonal shifted by a real number,
    off-diagonals untouched) -/
theorem shiftDiag_hermitian (T : Tab (Cx ℝ) N N) (t : Fin N) (hT : (toM T).IsHermitian) :
    (toM (shiftDiag T t)).IsHermitian := by
  ext i j
  have hij := congrFun (congrFun hT.eq i) j
  simp only [conjTranspose_apply, toM_apply] at hij
  simp only [conjTranspose_apply, toM_apply, shiftDiag, Tab.get_ofFn, hopUpdate]
  by_cases h : i = j
  · subst h
    have hii := congrFun (congrFun hT.eq i) i
    have htt := congrFun (congrFun hT.eq t) t
    simp only [conjTranspose_apply, toM_apply] at hii htt
    simp only [if_true, toC_sub, star_sub, hii, htt]
  · have h' : ¬ j = i := fun e => h e.symm
    simp only [h, h', if_false]
    exact hij

theorem zeroMoment_hermitian : (toM (zeroMoment (α := ℝ) (N := N))).IsHermitian := by
  ext i j
  simp only [conjTranspose_apply, toM_apply, zeroMoment, Tab.get_ofFn]
  apply Complex.ext <;> simp

/-- the invariant of an A-FSSH trajectory that C11 is about -/
structure MomentsHermitian (a : AF ℝ N n) : Prop where
  rho : (toM a.s.rho).IsHermitian
  delR : ∀ x, (toM (a.delR.get x)).IsHermitian
  delP : ∀ x, (toM (a.delP.get x)).IsHermitian

/-- **one whole A-FSSH step preserves Hermiticity of both moment tensors and of ρ**, whatever happens in it (no hop,
    frustrated hop, accepted hop with `hop_update`, collapse), for any `eigh` results, any `dt`, any thresholds — provided the
    force matrix of the new electronics is symmetric in the state indices (which C05 proves for the models) -/
theorem afStep_hermitian (m : Fin n → ℝ) (dt : ℝ) (ePrev eLast : ElecA ℝ N n) (inp : AStepIn ℝ N n) (a : AF ℝ N n)
    (hfm : ∀ i j x, inp.elec.fm i j x = inp.elec.fm j i x) (h : MomentsHermitian a) :
    MomentsHermitian (afStep m dt ePrev eLast inp a).1 := by
  -- the moments right after the two propagation calls
  have hR1 : ∀ x, (toM (delRexp inp.epsR inp.coR dt (m x) (a.delR.get x) (a.delP.get x))).IsHermitian :=
    fun x => C11.delR_exp_hermitian _ _ _ _ _ _ (h.delR x) (h.delP x)
  have hP1 : ∀ x, (toM (delPexp inp.epsP inp.coP dt (a.delP.get x)
      (delF (Tab.ofFn (fun i j => inp.elec.fm i j x)) (inp.elec.e.force a.s.state x)) a.s.rho)).IsHermitian := by
    intro x
    apply C11.delP_exp_hermitian _ _ _ _ _ _ (h.delP x) h.rho
    intro i j
    simp only [delF, Tab.get_ofFn]
    by_cases hij : i = j
    · subst hij; rfl
    · have : ¬ j = i := fun e => hij e.symm
      simp [hij, this, hfm i j x]
  have hrho1 : (toM (expStep inp.diags inp.coeff dt a.s.rho)).IsHermitian := by
    rw [C02.expStep_eq]
    exact C02.conj_hermitian _ _ h.rho
  -- after the hop part
  have hhop : MomentsHermitian (afHop m dt ePrev eLast inp a).1 := by
    simp only [afHop]
    split
    · exact ⟨hrho1, fun x => by simpa using hR1 x, fun x => by simpa using hP1 x⟩
    · split
      · split
        · refine ⟨hrho1, fun x => ?_, fun x => ?_⟩
          · simp only [Vec.get_ofFn]; exact shiftDiag_hermitian _ _ (hR1 x)
          · simp only [Vec.get_ofFn]; exact shiftDiag_hermitian _ _ (hP1 x)
        · exact ⟨hrho1, fun x => by simpa using hR1 x, fun x => by simpa using hP1 x⟩
      · exact ⟨hrho1, fun x => by simpa using hR1 x, fun x => by simpa using hP1 x⟩
  -- after the collapse part
  have hc := afCollapse_spec dt inp (afHop m dt ePrev eLast inp a).1
  simp only [afStep]
  by_cases he : (afCollapse dt inp (afHop m dt ePrev eLast inp a).1).2 = []
  · rw [hc.2.1 he]; exact hhop
  · obtain ⟨h1, h2, h3⟩ := hc.1 he
    refine ⟨?_, fun x => ?_, fun x => ?_⟩
    · rw [h1]; exact (pureState_valid _).2.1
    · rw [h2 x]; exact zeroMoment_hermitian
    · rw [h3 x]; exact zeroMoment_hermitian

/-- **along a whole A-FSSH run** (any number of steps, hops and collapses included) both moment tensors and ρ stay Hermitian -/
theorem afRun_hermitian (m : Fin n → ℝ) (dt : ℝ) (ePrev eLast : ElecA ℝ N n) (a : AF ℝ N n) (inps : List (AStepIn ℝ N n))
    (hfm : ∀ inp ∈ inps, ∀ i j x, inp.elec.fm i j x = inp.elec.fm j i x) (h : MomentsHermitian a) :
    ∀ r ∈ afRun m dt ePrev eLast a inps, MomentsHermitian r.1 := by
  induction inps generalizing ePrev eLast a with
  | nil => intro r hr; simp [afRun] at hr
  | cons inp rest ih =>
    intro r hr
    have h1 := afStep_hermitian m dt ePrev eLast inp a (hfm inp List.mem_cons_self) h
    simp only [afRun, List.mem_cons] at hr
    rcases hr with hr | hr
    · subst hr; exact h1
    · exact ih eLast inp.elec _ (fun i hi => hfm i (List.mem_cons_of_mem _ hi)) h1 r hr

/-- the run starts in the invariant: zero moments (`__init__`) and a Hermitian ρ -/
theorem initial_moments_hermitian (s : SH ℝ N n) (hρ : (toM s.rho).IsHermitian) :
    MomentsHermitian (⟨s, Vec.ofFn (fun _ => zeroMoment), Vec.ofFn (fun _ => zeroMoment)⟩ : AF ℝ N n) :=
  ⟨hρ, fun x => by simpa using zeroMoment_hermitian, fun x => by simpa using zeroMoment_hermitian⟩

/-! ### restart = splitting the run (C13) -/

/-- the state and the electronics a run ends with (what a restart has to reconstruct) -/
noncomputable def shEnd (m : Fin n → ℝ) (dt : ℝ) (e : Elec ℝ N n) (s : SH ℝ N n) : List (StepIn ℝ N n) → Elec ℝ N n × SH ℝ N n
  | [] => (e, s)
  | inp :: rest => shEnd m dt inp.elec (shStep m dt e inp s).1 rest

/-- **restart at the level of the composed step**: a run over `a ++ b` is the run over `a` followed by the run over `b` started
    from the electronics and the trajectory state the first part ended with. So a restart reproduces the uninterrupted run
    exactly iff it reconstructs that pair - position, velocity, last velocity, ρ, label, clock, step counter and the
    electronics (with their gauge) of the last logged step -/
theorem shRun_append (m : Fin n → ℝ) (dt : ℝ) (e : Elec ℝ N n) (s : SH ℝ N n) (a b : List (StepIn ℝ N n)) :
    shRun m dt e s (a ++ b) = shRun m dt e s a ++ shRun m dt (shEnd m dt e s a).1 (shEnd m dt e s a).2 b := by
  induction a generalizing e s with
  | nil => simp [shRun, shEnd]
  | cons inp rest ih => simp [shRun, shEnd, ih]

/-- the end state is the state of the last logged entry -/
theorem shEnd_last (m : Fin n → ℝ) (dt : ℝ) (e : Elec ℝ N n) (s : SH ℝ N n) (a : List (StepIn ℝ N n)) (h : a ≠ []) :
    ((shRun m dt e s a).getLast (by
      cases a with
      | nil => exact absurd rfl h
      | cons i r => simp [shRun])).1 = (shEnd m dt e s a).2 := by
  induction a generalizing e s with
  | nil => exact absurd rfl h
  | cons inp rest ih =>
    cases rest with
    | nil => simp [shRun, shEnd]
    | cons i2 r2 =>
      have := ih inp.elec (shStep m dt e inp s).1 (by simp)
      simp only [shRun, shEnd] at this ⊢
      rw [List.getLast_cons (by simp)]
      exact this

/-- a restart takes up the uninterrupted run at **every** interruption point: what the restarted run logs is exactly what the
    uninterrupted run logs after the first `a.length` steps -/
theorem shRun_drop (m : Fin n → ℝ) (dt : ℝ) (e : Elec ℝ N n) (s : SH ℝ N n) (a b : List (StepIn ℝ N n)) :
    (shRun m dt e s (a ++ b)).drop a.length = shRun m dt (shEnd m dt e s a).1 (shEnd m dt e s a).2 b := by
  rw [shRun_append, ← shRun_length m dt e s a, List.drop_left]

/-- the same for Ehrenfest runs … -/
noncomputable def ehEnd (m : Fin n → ℝ) (dt : ℝ) (e : Elec ℝ N n) (s : SH ℝ N n) : List (StepIn ℝ N n) → Elec ℝ N n × SH ℝ N n
  | [] => (e, s)
  | inp :: rest => ehEnd m dt inp.elec (ehStep m dt e inp s).1 rest

theorem ehRun_length (m : Fin n → ℝ) (dt : ℝ) (e : Elec ℝ N n) (s : SH ℝ N n) (inps : List (StepIn ℝ N n)) :
    (ehRun m dt e s inps).length = inps.length := by
  induction inps generalizing e s with
  | nil => simp [ehRun]
  | cons inp rest ih => simp [ehRun, ih]

theorem ehRun_append (m : Fin n → ℝ) (dt : ℝ) (e : Elec ℝ N n) (s : SH ℝ N n) (a b : List (StepIn ℝ N n)) :
    ehRun m dt e s (a ++ b) = ehRun m dt e s a ++ ehRun m dt (ehEnd m dt e s a).1 (ehEnd m dt e s a).2 b := by
  induction a generalizing e s with
  | nil => simp [ehRun, ehEnd]
  | cons inp rest ih => simp [ehRun, ehEnd, ih]

theorem ehRun_drop (m : Fin n → ℝ) (dt : ℝ) (e : Elec ℝ N n) (s : SH ℝ N n) (a b : List (StepIn ℝ N n)) :
    (ehRun m dt e s (a ++ b)).drop a.length = ehRun m dt (ehEnd m dt e s a).1 (ehEnd m dt e s a).2 b := by
  rw [ehRun_append, ← ehRun_length m dt e s a, List.drop_left]

/-- … and for cumulative FSSH, whose restart state also holds the accumulated probability and the current threshold -/
noncomputable def cumEnd (m : Fin n → ℝ) (dt : ℝ) (e : Elec ℝ N n) (sc : SH ℝ N n × CumState ℝ) :
    List (StepIn ℝ N n × CumIn ℝ) → Elec ℝ N n × (SH ℝ N n × CumState ℝ)
  | [] => (e, sc)
  | (inp, ci) :: rest => cumEnd m dt inp.elec (cumStep m dt e inp ci sc).1 rest

theorem cumRun_length (m : Fin n → ℝ) (dt : ℝ) (e : Elec ℝ N n) (sc : SH ℝ N n × CumState ℝ)
    (inps : List (StepIn ℝ N n × CumIn ℝ)) : (cumRun m dt e sc inps).length = inps.length := by
  induction inps generalizing e sc with
  | nil => simp [cumRun]
  | cons inp rest ih => obtain ⟨i, c⟩ := inp; simp [cumRun, ih]

theorem cumRun_append (m : Fin n → ℝ) (dt : ℝ) (e : Elec ℝ N n) (sc : SH ℝ N n × CumState ℝ)
    (a b : List (StepIn ℝ N n × CumIn ℝ)) :
    cumRun m dt e sc (a ++ b) = cumRun m dt e sc a ++ cumRun m dt (cumEnd m dt e sc a).1 (cumEnd m dt e sc a).2 b := by
  induction a generalizing e sc with
  | nil => simp [cumRun, cumEnd]
  | cons inp rest ih => obtain ⟨i, c⟩ := inp; simp [cumRun, cumEnd, ih]

theorem cumRun_drop (m : Fin n → ℝ) (dt : ℝ) (e : Elec ℝ N n) (sc : SH ℝ N n × CumState ℝ)
    (a b : List (StepIn ℝ N n × CumIn ℝ)) :
    (cumRun m dt e sc (a ++ b)).drop a.length = cumRun m dt (cumEnd m dt e sc a).1 (cumEnd m dt e sc a).2 b := by
  rw [cumRun_append, ← cumRun_length m dt e sc a, List.drop_left]

/-- single-surface MD: `j + k` steps are `k` steps from the position and velocity reached after `j` (the force is a function of
    the position, so position and velocity are all a restart has to reconstruct) -/
theorem verletRun_add (F : (Fin n → ℝ) → (Fin n → ℝ)) (m : Fin n → ℝ) (dt : ℝ) (j k : ℕ) (xv : (Fin n → ℝ) × (Fin n → ℝ)) :
    verletRun F m dt (j + k) xv = verletRun F m dt k (verletRun F m dt j xv) := by
  induction j generalizing xv with
  | zero => simp [verletRun]
  | succ j ih => rw [Nat.succ_add]; simp only [verletRun]; exact ih _

/-! ### C02 along A-FSSH runs -/

/-- the pure state written by a collapse is a valid electronic state -/
theorem pureState_Valid (k : Fin N) : C02.Valid (toM (pureState (α := ℝ) k)) := by
  obtain ⟨hid, hh, htr⟩ := pureState_valid (N := N) k
  refine ⟨hh, htr, ?_⟩
  have e : toM (pureState (α := ℝ) k) = (toM (pureState (α := ℝ) k))ᴴ * toM (pureState k) := by
    rw [hh.eq, hid]
  rw [e]
  exact Matrix.posSemidef_conjTranspose_mul_self _

/-- **the density matrix along a whole A-FSSH run** (hops and collapses included) is a valid state at every logged step,
    provided LAPACK's eigenvector matrices of `propagate_electronics` are unitary -/
theorem afRun_rho_valid (m : Fin n → ℝ) (dt : ℝ) (ePrev eLast : ElecA ℝ N n) (a : AF ℝ N n) (inps : List (AStepIn ℝ N n))
    (hC : ∀ inp ∈ inps, (toM inp.coeff)ᴴ * toM inp.coeff = 1) (h : C02.Valid (toM a.s.rho)) :
    ∀ r ∈ afRun m dt ePrev eLast a inps, C02.Valid (toM r.1.s.rho) := by
  induction inps generalizing ePrev eLast a with
  | nil => intro r hr; simp [afRun] at hr
  | cons inp rest ih =>
    intro r hr
    have hstep : C02.Valid (toM (afStep m dt ePrev eLast inp a).1.s.rho) := by
      have hr' := afStep_rho m dt ePrev eLast inp a
      by_cases he : (afStep m dt ePrev eLast inp a).2.1.2 = []
      · rw [hr'.2 he]
        exact (C02.expStep_valid inp.diags inp.coeff a.s.rho dt (hC inp List.mem_cons_self) h).1
      · rw [(hr'.1 he).1]
        exact pureState_Valid _
    simp only [afRun, List.mem_cons] at hr
    rcases hr with hr | hr
    · subst hr; exact hstep
    · exact ih eLast inp.elec _ (fun i hi => hC i (List.mem_cons_of_mem _ hi)) hstep r hr

/-- what an A-FSSH run leaves behind for the next step: the electronics of the last TWO positions and the trajectory state
    (`advance_position` of A-FSSH propagates the position moments with the midpoint Hamiltonian of those two) -/
noncomputable def afEnd (m : Fin n → ℝ) (dt : ℝ) :
    ElecA ℝ N n → ElecA ℝ N n → AF ℝ N n → List (AStepIn ℝ N n) → ElecA ℝ N n × ElecA ℝ N n × AF ℝ N n
  | ePrev, eLast, a, [] => (ePrev, eLast, a)
  | ePrev, eLast, a, inp :: rest => afEnd m dt eLast inp.elec (afStep m dt ePrev eLast inp a).1 rest

/-- **splitting an A-FSSH run** (C12/C13): the steps after an interruption are those of the uninterrupted run exactly when the
    continuation starts from the state AND the electronics of the last two positions. `TrajectorySH.simulate()` used to begin
    every call with `last_electronics = None` - i.e. with `ePrev := eLast` - which is a different run (repaired: `c6fce94`). -/
theorem afRun_append (m : Fin n → ℝ) (dt : ℝ) (ePrev eLast : ElecA ℝ N n) (a : AF ℝ N n) (xs ys : List (AStepIn ℝ N n)) :
    afRun m dt ePrev eLast a (xs ++ ys)
      = afRun m dt ePrev eLast a xs
        ++ afRun m dt (afEnd m dt ePrev eLast a xs).1 (afEnd m dt ePrev eLast a xs).2.1 (afEnd m dt ePrev eLast a xs).2.2 ys := by
  induction xs generalizing ePrev eLast a with
  | nil => simp [afRun, afEnd]
  | cons inp rest ih => simp [afRun, afEnd, ih]

/-- the carried pair after at least one step: the previous step's electronics and the last step's -/
theorem afEnd_snoc (m : Fin n → ℝ) (dt : ℝ) (ePrev eLast : ElecA ℝ N n) (a : AF ℝ N n) (xs : List (AStepIn ℝ N n))
    (inp : AStepIn ℝ N n) :
    (afEnd m dt ePrev eLast a (xs ++ [inp])).1 = (afEnd m dt ePrev eLast a xs).2.1 ∧
    (afEnd m dt ePrev eLast a (xs ++ [inp])).2.1 = inp.elec := by
  induction xs generalizing ePrev eLast a with
  | nil => simp [afEnd]
  | cons i r ih => simpa [afEnd] using ih eLast i.elec (afStep m dt ePrev eLast i a).1


end Mud.StepThm

import MudProof.Properties.C06
open Mud.C06
#print axioms sign_fix_overlap
#print axioms sign_fix_is_flip
#print axioms rotated_flip
#print axioms force_gauge_invariant
#print axioms coupling_gauge
#print axioms coupling_abs_gauge_invariant
#print axioms force_matrix_abs_gauge_invariant
#print axioms update_fresh_results
#print axioms track_chain
#print axioms track_is_flip
#print axioms force_history_independent
#print axioms coupling_history_independent
#print axioms coupling_sign_follows_states

import MudProof.Properties.C08
import MudProof.StepThm
open Mud.C08
#print axioms potential_is_trace
#print axioms potential_diag
#print axioms never_hops
#print axioms meanfield_force_split
#print axioms force_deviation
#print axioms force_partial_diag_rho
#print axioms force_partial_diag_force
#print axioms force_witness
#print axioms energy_rate
#print axioms Mud.StepThm.ehStep_spec
#print axioms Mud.StepThm.ehRun_spec

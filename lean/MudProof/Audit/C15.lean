import MudProof.Properties.C15
open Mud.C15
#print axioms crash_one_collect
#print axioms crash_prefix
#print axioms continue_after_crash
#print axioms pinned_crash_window

import MudProof.Properties.C04
import MudProof.StepThm
open Mud.C04
#print axioms hop_allowed_down
#print axioms hop_allowed_up_iff
#print axioms rescale_parallel
#print axioms unitVec_parallel
#print axioms bigRoot_is_root
#print axioms smallest_root
#print axioms hop_event_fields
#print axioms Mud.C01.hop_rejected_noop
#print axioms Mud.C01.hop_energy_exact
#print axioms run_length
#print axioms run_head
#print axioms active_step
#print axioms event_sound
#print axioms event_complete
#print axioms event_steps_increasing
#print axioms event_counts
#print axioms Mud.StepThm.shStep_event

import MudProof.Properties.C01
import MudProof.StepThm
open Mud.C01
#print axioms smallRoot_is_root
#print axioms kinetic_shift
#print axioms rescale_energy
#print axioms quadA_pos
#print axioms allowed_disc
#print axioms hop_energy_exact
#print axioms hop_accepted_state
#print axioms hop_rejected_noop
#print axioms harmonic_shadow_step
#print axioms harmonic_shadow_run
#print axioms harmonic_energy_drift
#print axioms Mud.StepThm.shStep_hop_energy

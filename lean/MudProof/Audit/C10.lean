import MudProof.Properties.C10
open Mud.C10
#print axioms marginal_eq
#print axioms advance_ge
#print axioms advance_le
#print axioms advance_passed
#print axioms crossing_step
#print axioms child_weights_sum
#print axioms child_weights_nonneg
#print axioms crossed_total
#print axioms weight_after
#print axioms one_level_conservation
#print axioms one_level_loss
#print axioms tree_conservation
#print axioms tensor_length
#print axioms tensor_total
#print axioms tensor_total_one

import MudProof.Properties.C19
open Mud.C19
#print axioms boltzmann_raw
#print axioms boltzmann_scaled_ke
#print axioms normal_deviations
#print axioms kskip_iff
#print axioms not_kskip_nonneg
#print axioms spawn_length
#print axioms spawn_keys_distinct
#print axioms spawn_prefix_stable
#print axioms spawn_fresh_after
#print axioms spawn_keys_nodup
#print axioms constGen_length
#print axioms constGen_identical
#print axioms constGen_seeds_nodup
#print axioms normalGen_length_le
#print axioms normalGen_nonneg
#print axioms normalGen_seeds_nodup
#print axioms normalGen_prefix
#print axioms boltzmannGen_length
#print axioms boltzmannGen_ke
#print axioms boltzmannGen_seeds_nodup

import MudProof.Properties.C20
open Mud.C20
#print axioms scale_zero
#print axioms scale_large
#print axioms series_close
#print axioms series_close_switch
#print axioms series_close_complex
#print axioms smallC_iff
#print axioms closedC_eq
#print axioms target_strictAnti
#print axioms series_ge_target
#print axioms scale_strictAnti
#print axioms scale_range
#print axioms pinned_not_monotone

import MudProof.Properties.C14
open Mud.C14
#print axioms created_inv
#print axioms collect_refines
#print axioms history_refines
#print axioms fresh_history
#print axioms len_spec
#print axioms getitem_spec
#print axioms getitem_neg
#print axioms getitem_index_error
#print axioms load_refines
#print axioms mem_getitem_spec
#print axioms mem_getitem_index_error
#print axioms stores_agree
#print axioms uniqueName_fresh
#print axioms clone_same_history
#print axioms clone_inv
#print axioms clone_fresh
#print axioms put_other

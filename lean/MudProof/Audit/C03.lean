import MudProof.Properties.C03
open Mud.C03
#print axioms flux_rate
#print axioms flux_self
#print axioms flux_antisymm
#print axioms gkndt_nonneg
#print axioms gkndt_self
#print axioms gkndt_eq_max
#print axioms gRaw_sum
#print axioms hopperGo_spec
#print axioms hopper_partition
#print axioms hopper_none
#print axioms slot_length
#print axioms hopper_zero_slot
#print axioms tully_probs
#print axioms poisson_total
#print axioms poisson_total_series
#print axioms poisson_ratios

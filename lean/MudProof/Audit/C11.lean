import MudProof.Properties.C11
open Mud.C11
#print axioms hop_shift_target_zero
#print axioms hop_shift_differences
#print axioms hop_shift_hermitian_diag
#print axioms pinned_hop_shift_wrong
#print axioms pinned_hop_shift_partial
#print axioms moment_rhs_hermitian
#print axioms momentYdot_eq
#print axioms moment_rk4_hermitian
#print axioms delR_rk4_hermitian
#print axioms delP_rk4_hermitian
#print axioms hadamard_phase_hermitian
#print axioms expiht_hermitian
#print axioms delR_exp_hermitian
#print axioms collapse_moments_zero

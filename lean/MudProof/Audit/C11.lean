import MudProof.Properties.C11
import MudProof.StepThm
open Mud.C11
#print axioms hop_shift_target_zero
#print axioms hop_shift_differences
#print axioms hop_shift_hermitian_diag
#print axioms pinned_hop_shift_wrong
#print axioms pinned_hop_shift_partial
#print axioms moment_rhs_hermitian
#print axioms momentYdot_eq
#print axioms moment_rk4_hermitian
#print axioms delR_rk4_hermitian
#print axioms delP_rk4_hermitian
#print axioms hadamard_phase_hermitian
#print axioms expiht_hermitian
#print axioms delR_exp_hermitian
#print axioms collapse_moments_zero
#print axioms gamma_active_zero
#print axioms sgn_mul_self
#print axioms sign_factor
#print axioms gamma_formula
#print axioms gamma_zero_of_equal_moments
#print axioms collapseScan_sound
#print axioms collapseScan_nil_iff
#print axioms otherStates_spec
#print axioms otherStates_length
#print axioms no_collapse_of_nonpos
#print axioms collapseStep_spec
#print axioms collapse_gives_pure_active
#print axioms Mud.StepThm.afHop_common
#print axioms Mud.StepThm.afCollapse_spec
#print axioms Mud.StepThm.afStep_rho
#print axioms Mud.StepThm.pureState_valid

import MudProof.Properties.C12
import MudProof.StepThm
open Mud.C12
#print axioms thresholds_in_order
#print axioms clone_fields_same
#print axioms clone_shares_only
#print axioms clone_shares_queue
#print axioms clone_evolves_equally
#print axioms pinned_clone_raises
#print axioms spawn_keys_distinct
#print axioms spawn_prefix_stable
#print axioms spawn_fresh_after
#print axioms Mud.StepThm.afRun_append
#print axioms Mud.StepThm.afEnd_snoc
#print axioms Mud.StepThm.shRun_append

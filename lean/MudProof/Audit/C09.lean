import MudProof.Properties.C09
import MudProof.StepThm
open Mud.C09
#print axioms acc_closed_form
#print axioms acc_fold_closed_form
#print axioms acc_from_zero
#print axioms exp_neg_sum_eq_prod
#print axioms cumHopper_attempt_iff
#print axioms cumHopper_carry
#print axioms cumHopper_reset
#print axioms cumFirst_spec
#print axioms attempt_at_first_crossing
#print axioms zero_rate_no_attempt
#print axioms poisson_equivalence
#print axioms drawZeta_list_first
#print axioms drawZeta_then_stream
#print axioms firstLess_spec
#print axioms choice_slot
#print axioms Mud.StepThm.cumStep_common
#print axioms Mud.StepThm.cumStep_event

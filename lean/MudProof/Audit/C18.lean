import MudProof.Properties.C18
open Mud.C18
#print axioms midpoint_wts_pos
#print axioms midpoint_moment0
#print axioms midpoint_moment1
#print axioms midpoint_pts_strictMono
#print axioms midpoint_pts_mem
#print axioms grid_pts_strictMono
#print axioms grid_pts_mem
#print axioms grid_first
#print axioms grid_last
#print axioms trapezoid_wts_pos
#print axioms trapezoid_moment0
#print axioms trapezoid_moment1
#print axioms simpson_panel
#print axioms simpson_wts_pos
#print axioms panel_exact
#print axioms simpson_moment
#print axioms affine_transport
#print axioms gl_wts_sum
#print axioms gl_wts_pos
#print axioms gl_pts_strictMono
#print axioms gl_pts_mem
#print axioms gl_pinned_sum
#print axioms gl_pinned_wrong_on_default
#print axioms cc_wts_endpoints
#print axioms cc_wts_scale

import MudProof.Properties.C13
import MudProof.StepThm
open Mud.C13
#print axioms loopGo_acc
#print axioms loopGo_append
#print axioms continueSim_restart_latch
#print axioms restart_equiv
#print axioms restart_simulate
#print axioms restart_counter_witness
#print axioms Mud.StepThm.shRun_append
#print axioms Mud.StepThm.shEnd_last
#print axioms Mud.StepThm.shRun_drop
#print axioms Mud.StepThm.ehRun_append
#print axioms Mud.StepThm.ehRun_drop
#print axioms Mud.StepThm.cumRun_append
#print axioms Mud.StepThm.cumRun_drop
#print axioms Mud.StepThm.verletRun_add

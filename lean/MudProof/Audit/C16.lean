import MudProof.Properties.C16
import MudProof.StepThm
open Mud.C16
#print axioms continueSim_fst
#print axioms continueSim_snd
#print axioms no_log_if_stopped_at_start
#print axioms midLog_eq
#print axioms loopGo_spec
#print axioms simulate_spec
#print axioms midLog_indices
#print axioms midLog_times
#print axioms times_strictly_increasing
#print axioms terminates_by_max_steps
#print axioms kinetic_from_momentum
#print axioms Mud.StepThm.shRun_length
#print axioms Mud.StepThm.shRun_clock
#print axioms loopGo_final_indep_te
#print axioms loopGo_last_is_final
#print axioms simulate_final_indep_te

import MudProof.Properties.C17
import MudProof.Properties.C16
open Mud.C17
#print axioms indicator_01
#print axioms indicator_total
#print axioms indicator_multid
#print axioms outcome_nonneg
#print axioms outcome_le_one
#print axioms outcome_total
#print axioms outcome_perm
#print axioms counts_perm
#print axioms hopHist_perm
#print axioms counts_eq_card
#print axioms hopHist_total
#print axioms driverRow_length
#print axioms Mud.C16.simulate_final_indep_te
#print axioms Mud.C16.loopGo_last_is_final

import MudProof.Properties.C07
import MudProof.StepThm
open Mud.C07
#print axioms verlet_reversible
#print axioms verlet_run_reversible
#print axioms verlet_consistent
#print axioms midpoint_needs_old_velocity
#print axioms aliased_midpoint
#print axioms W_reversal
#print axioms propagator_is_exp
#print axioms exp_unitary
#print axioms exp_step_reversible
#print axioms full_step_reversible
#print axioms full_run_reversible
#print axioms Mud.StepThm.shStep_common
#print axioms Mud.StepThm.shStep_event
#print axioms harmonicFlow_solves
#print axioms verlet_harmonic_step
#print axioms verlet_harmonic_local_error
#print axioms shadowS_iterate
#print axioms vmap_iterate_bounded
#print axioms vmap_local
#print axioms vmap_global
#print axioms modeC_verletRun
#print axioms modeC_flow
#print axioms verlet_harmonic_global_error
#print axioms verlet_harmonic_global_error_xv
#print axioms conjStep_iterate
#print axioms exp_steps_compose

import MudProof.Properties.C02
open Mud.C02
#print axioms W_hermitian
#print axioms propagatorU_eq
#print axioms propagatorU_unitary
#print axioms expStep_eq
#print axioms conj_hermitian
#print axioms conj_trace
#print axioms conj_posSemidef
#print axioms conj_idempotent
#print axioms populations_unit_interval
#print axioms expStep_valid
#print axioms exp_history_invariant
#print axioms rk4_invariant
#print axioms rk4_functional
#print axioms commutator_traceless
#print axioms commutator_hermitian
#print axioms rk4Ydot_eq
#print axioms hiMat_hermitian
#print axioms rk4_transport
#print axioms rk4_trace
#print axioms rk4_hermitian
#print axioms collapse_pure

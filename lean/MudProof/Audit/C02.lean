import MudProof.Properties.C02
import MudProof.StepThm
open Mud.C02
#print axioms W_hermitian
#print axioms propagatorU_eq
#print axioms propagatorU_unitary
#print axioms expStep_eq
#print axioms conj_hermitian
#print axioms conj_trace
#print axioms conj_posSemidef
#print axioms conj_idempotent
#print axioms populations_unit_interval
#print axioms expStep_valid
#print axioms exp_history_invariant
#print axioms rk4_invariant
#print axioms rk4_functional
#print axioms commutator_traceless
#print axioms commutator_hermitian
#print axioms rk4Ydot_eq
#print axioms hiMat_hermitian
#print axioms rk4_transport
#print axioms rk4_trace
#print axioms rk4_hermitian
#print axioms collapse_pure
#print axioms rk4V_linear_step
#print axioms rk4V_scalar
#print axioms hiMat_witness
#print axioms trace_sq_two
#print axioms rk4_purity_witness
#print axioms rk4_not_pure
#print axioms Mud.StepThm.shStep_common
#print axioms Mud.StepThm.shRun_rho_valid
#print axioms Mud.StepThm.afStep_rho
#print axioms Mud.StepThm.pureState_Valid
#print axioms Mud.StepThm.afRun_rho_valid

import MudProof.Properties.C02
#print axioms Mud.C02.placeholder_true

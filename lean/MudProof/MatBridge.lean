/-
  MudProof.MatBridge — the model's complex pairs and data-backed matrices as Mathlib's `ℂ` and
  `Matrix (Fin n) (Fin m) ℂ`.  `toC` is a ring homomorphism commuting with conjugation; `toM` turns
  the model's `mmul/mH/mdiag/madd/msub/msmul` into Mathlib's `*`, `ᴴ`, `diagonal`, `+`, `-`, `•`.
-/
import MudProof.RealInst
import MudModel.Electronic
import Mathlib.Data.Complex.Basic
import Mathlib.Analysis.Complex.Exponential
import Mathlib.LinearAlgebra.Matrix.Hermitian
import Mathlib.Algebra.BigOperators.Fin
import Mathlib.Tactic

namespace Mud
open Matrix

def toC (z : Cx ℝ) : ℂ := ⟨z.re, z.im⟩

@[simp] theorem toC_re (z : Cx ℝ) : (toC z).re = z.re := rfl
@[simp] theorem toC_im (z : Cx ℝ) : (toC z).im = z.im := rfl

theorem toC_injective : Function.Injective toC := by
  intro a b h
  cases a; cases b
  have h1 := congrArg Complex.re h
  have h2 := congrArg Complex.im h
  simp at h1 h2
  subst h1; subst h2; rfl

@[simp] theorem toC_add (a b : Cx ℝ) : toC (a + b) = toC a + toC b := by apply Complex.ext <;> simp
@[simp] theorem toC_sub (a b : Cx ℝ) : toC (a - b) = toC a - toC b := by apply Complex.ext <;> simp
@[simp] theorem toC_neg (a : Cx ℝ) : toC (-a) = -toC a := by apply Complex.ext <;> simp
@[simp] theorem toC_mul (a b : Cx ℝ) : toC (a * b) = toC a * toC b := by apply Complex.ext <;> simp
@[simp] theorem toC_zero : toC (0 : Cx ℝ) = 0 := by apply Complex.ext <;> simp
@[simp] theorem toC_conj (a : Cx ℝ) : toC (Cx.conj a) = star (toC a) := by
  apply Complex.ext <;> simp [Cx.conj]
@[simp] theorem toC_ofReal (x : ℝ) : toC (Cx.ofReal x) = (x : ℂ) := by
  apply Complex.ext <;> simp [Cx.ofReal]
@[simp] theorem toC_smul (s : ℝ) (a : Cx ℝ) : toC (Cx.smul s a) = (s : ℂ) * toC a := by
  apply Complex.ext <;> simp [Cx.smul]
@[simp] theorem toC_mulNegI (a : Cx ℝ) : toC (Cx.mulNegI a) = -Complex.I * toC a := by
  apply Complex.ext <;> simp [Cx.mulNegI]
@[simp] theorem toC_expI (θ : ℝ) : toC (Cx.expI θ) = Complex.exp (θ * Complex.I) := by
  apply Complex.ext
  · simp [Cx.expI, Complex.exp_re]
  · simp [Cx.expI, Complex.exp_im]

theorem toC_list_sum (l : List (Cx ℝ)) : toC l.sum = (l.map toC).sum := by
  induction l with
  | nil => simp
  | cons a l ih => simp [ih]

theorem toC_vsum {n : ℕ} (f : Fin n → Cx ℝ) : toC (vsum f) = ∑ i, toC (f i) := by
  unfold vsum
  rw [toC_list_sum, List.map_ofFn, List.sum_ofFn]
  rfl

variable {n m k : ℕ}

/-- a model matrix as a Mathlib matrix -/
def toM (A : Tab (Cx ℝ) n m) : Matrix (Fin n) (Fin m) ℂ := Matrix.of (fun i j => toC (A.get i j))

@[simp] theorem toM_apply (A : Tab (Cx ℝ) n m) (i : Fin n) (j : Fin m) : toM A i j = toC (A.get i j) := rfl

theorem toM_ofFn (f : Fin n → Fin m → Cx ℝ) : toM (Tab.ofFn f) = Matrix.of (fun i j => toC (f i j)) := by
  ext i j; simp [Tab.get_ofFn]

theorem toM_mmul (A : Tab (Cx ℝ) n m) (B : Tab (Cx ℝ) m k) : toM (mmul A B) = toM A * toM B := by
  ext i j
  simp [mmul, Tab.get_ofFn, toC_vsum, Matrix.mul_apply]

theorem toM_mH (A : Tab (Cx ℝ) n m) : toM (mH A) = (toM A)ᴴ := by
  ext i j
  simp [mH, Tab.get_ofFn, Matrix.conjTranspose_apply]

theorem toM_mdiag (v : Fin n → Cx ℝ) : toM (mdiag v) = Matrix.diagonal (fun i => toC (v i)) := by
  ext i j
  simp only [mdiag, toM_apply, Tab.get_ofFn, Matrix.diagonal_apply]
  split <;> simp

theorem toM_madd (A B : Tab (Cx ℝ) n m) : toM (madd A B) = toM A + toM B := by
  ext i j; simp [madd, Tab.get_ofFn]

theorem toM_msub (A B : Tab (Cx ℝ) n m) : toM (msub A B) = toM A - toM B := by
  ext i j; simp [msub, Tab.get_ofFn]

theorem toM_msmul (s : ℝ) (A : Tab (Cx ℝ) n m) : toM (msmul s A) = (s : ℂ) • toM A := by
  ext i j; simp [msmul, Tab.get_ofFn]

theorem toM_mhad (A B : Tab (Cx ℝ) n m) : toM (mhad A B) = Matrix.of (fun i j => toM A i j * toM B i j) := by
  ext i j; simp [mhad, Tab.get_ofFn]

/-- real model matrix as a complex Mathlib matrix -/
def toMR (A : Tab ℝ n m) : Matrix (Fin n) (Fin m) ℂ := Matrix.of (fun i j => ((A.get i j : ℝ) : ℂ))

theorem toM_mofReal (A : Tab ℝ n m) : toM (mofReal A) = toMR A := by
  ext i j; simp [mofReal, Tab.get_ofFn, toMR]

theorem mtrace_eq (A : Tab (Cx ℝ) n n) : toC (mtrace A) = Matrix.trace (toM A) := by
  simp [mtrace, toC_vsum, Matrix.trace]

end Mud

/-
  C15 — a YAML log stays loadable after a crash between any two file operations.

  Subject: `collectOps` / `load` of MudModel/Trace.lean; a file operation (open + write + close)
  is atomic, which is the granularity the property is stated at.

  * `crash_one_collect`     whatever prefix of a `collect`'s file operations was performed, the files
                            load, satisfy the representation invariant, and hold the old sequence or
                            the old sequence plus the snapshot being written
  * `crash_prefix`          for every history (≥ 1 snapshot recorded), every page size ≥ 1 and every
                            crash point: the log loads and contains a prefix of the recorded snapshots,
                            in order, missing at most the in-flight one
  * `continue_after_crash`  a `collect` on the reloaded trace extends that prefix without duplicates
                            (equality of the continued dynamics is C13)
  * `pinned_crash_window`   the originally pinned order (index rewritten before the new page exists)
                            leaves an unloadable directory: pitch 1, one snapshot, crash after the index
                            write  →  `FileNotFoundError`
-/
import MudProof.Properties.C14

namespace Mud.C15
open Mud.Trace Mud.C14

variable {σ ε : Type}

theorem applyAll_nil (f : Files σ ε) : f.applyAll [] = some f := rfl

/-- **one collect, any crash point** -/
theorem crash_one_collect (t : YT) (f : Files σ ε) (x : σ) (hp : 1 ≤ t.pitch) (h : Inv t f)
    (hpos : 1 ≤ t.logsize) (j : ℕ) :
    ∃ fj tj, f.applyAll ((collectOps t x).take j) = some fj ∧ load fj = .ok tj ∧ Inv tj fj ∧
      tj.pitch = t.pitch ∧ (iter tj fj = iter t f ∨ iter tj fj = iter t f ++ [x]) := by
  -- the completed collect
  obtain ⟨f', hall, hinv', hiter', _⟩ := collect_refines t f x hp h
  have hpos' : 1 ≤ (collectNext t).logsize := by
    unfold collectNext; split <;> simp
  have hp' : 1 ≤ (collectNext t).pitch := by rw [collectNext_pitch]; exact hp
  have hdone : ∀ j, (collectOps (ε := ε) t x).length ≤ j →
      ∃ fj tj, f.applyAll ((collectOps t x).take j) = some fj ∧ load fj = .ok tj ∧ Inv tj fj ∧
        tj.pitch = t.pitch ∧ (iter tj fj = iter t f ∨ iter tj fj = iter t f ++ [x]) := by
    intro j hj
    refine ⟨f', collectNext t, ?_, load_refines _ _ hinv' hpos' hp', hinv', collectNext_pitch t, Or.inr hiter'⟩
    rw [List.take_of_length_le hj]; exact hall
  have hzero : ∃ fj tj, f.applyAll ((collectOps (ε := ε) t x).take 0) = some fj ∧ load fj = .ok tj ∧ Inv tj fj ∧
      tj.pitch = t.pitch ∧ (iter tj fj = iter t f ∨ iter tj fj = iter t f ++ [x]) :=
    ⟨f, t, rfl, load_refines t f h hpos hp, h, rfl, Or.inl rfl⟩
  by_cases hroll : rolls t = true
  · have hops : collectOps (ε := ε) t x
        = [.writePage t.nlogs x, .writeMain { nlogs := t.nlogs + 1, pitch := t.pitch }] := by
      unfold collectOps; rw [if_pos hroll]
    rcases j with _ | _ | j
    · exact hzero
    · -- crash after the new page was written, before the index names it
      obtain ⟨full, act, orph, hpages, hfull, hn, hact, horph, hsize, hne, hmain⟩ := h
      have hfullact : act.length = t.pitch := (rolls_iff hp hact hsize hn).mp hroll
      have hlen : f.pages.length = full.length + 1 + orph.length := by
        rw [hpages]; simp; ring
      have hset : listSet f.pages (full.length + 1) [x] = full ++ act :: [[x]] := by
        unfold listSet
        rw [hpages]
        rcases orph with _ | ⟨o, os⟩
        · simp
        · have : os = [] := by
            have h2 : (o :: os).length = os.length + 1 := rfl
            exact List.length_eq_zero_iff.mp (by omega)
          subst this
          have hlt : full.length + 1 < (full ++ act :: [o]).length := by simp
          rw [if_pos hlt, List.set_append]
          simp
      have hinv1 : Inv t ({ f with pages := full ++ act :: [[x]] } : Files σ ε) :=
        ⟨full, act, [[x]], rfl, hfull, hn, hact, by simp, hsize, hne, hmain⟩
      refine ⟨{ f with pages := full ++ act :: [[x]] }, t, ?_, load_refines _ _ hinv1 hpos hp, hinv1, rfl, Or.inl ?_⟩
      · rw [hops]
        simp only [List.take_succ_cons, List.take_zero, Files.applyAll, Files.apply, hn]
        have hle : full.length + 1 ≤ f.pages.length := by omega
        simp [hle, hset]
      · rw [iter_eq (t := t) (f := { f with pages := full ++ act :: [[x]] }) rfl hn,
          iter_eq (t := t) hpages hn]
    · exact hdone (j + 1 + 1) (by rw [hops]; simp)
  · have hops : collectOps (ε := ε) t x = [.appendPage (t.nlogs - 1) x] := by
      unfold collectOps; rw [if_neg hroll]
    rcases j with _ | j
    · exact hzero
    · exact hdone (j + 1) (by rw [hops]; simp)

/-- **T1 (C15).** For every history with at least one recorded snapshot, every page size ≥ 1 and
    **every crash point** (the first `k ≥ 1` collects complete, then any `j` file operations of the
    next one): the files load, and hold a prefix of the recorded snapshots in order — the `k`
    completed ones, or those plus the one being written. -/
theorem crash_prefix (pitch : ℕ) (hp : 1 ≤ pitch) (done : List σ) (hdone : done ≠ []) (x : σ) (j : ℕ) :
    ∃ t f, runCollects (createdYT pitch) (createdFiles (σ := σ) (ε := ε) pitch) done = some (t, f) ∧
      ∃ fj tj, f.applyAll ((collectOps t x).take j) = some fj ∧ load fj = .ok tj ∧ Inv tj fj ∧
        tj.pitch = pitch ∧ (iter tj fj = done ∨ iter tj fj = done ++ [x]) := by
  obtain ⟨t, f, hrun, hinv, hpitch, hiter⟩ : ∃ t f, runCollects (createdYT pitch)
      (createdFiles (σ := σ) (ε := ε) pitch) done = some (t, f) ∧ Inv t f ∧ t.pitch = pitch ∧ iter t f = done := by
    obtain ⟨t, f, h1, h2, h3, h4⟩ := history_refines done (createdYT pitch) (createdFiles (σ := σ) (ε := ε) pitch)
      (by simpa [createdYT] using hp) (created_inv pitch)
    refine ⟨t, f, h1, h2, by simpa [createdYT] using h4, ?_⟩
    rw [h3]; simp [iter, createdFiles, createdYT]
  have hpos : 1 ≤ t.logsize := by
    have := len_spec t f hinv
    rw [hiter] at this
    unfold len at this
    have : 0 < done.length := List.length_pos_iff.mpr hdone
    omega
  obtain ⟨fj, tj, h1, h2, h3, h4, h5⟩ := crash_one_collect t f x (by rw [hpitch]; exact hp) hinv hpos j
  refine ⟨t, f, hrun, fj, tj, h1, h2, h3, by rw [h4, hpitch], ?_⟩
  rw [hiter] at h5; exact h5

/-- **T2 (C15).** a trajectory restarted from such a log continues from that prefix: the next
    `collect` on the reloaded trace appends exactly one snapshot, without duplicates or gaps -/
theorem continue_after_crash (tj : YT) (fj : Files σ ε) (hp : 1 ≤ tj.pitch) (h : Inv tj fj) (y : σ) :
    ∃ f', fj.applyAll (collectOps tj y) = some f' ∧ Inv (collectNext tj) f' ∧
      iter (collectNext tj) f' = iter tj fj ++ [y] := by
  obtain ⟨f', h1, h2, h3, _⟩ := collect_refines tj fj y hp h
  exact ⟨f', h1, h2, h3⟩

/-- **the originally pinned order has a crash window**: page size 1, one snapshot recorded; the next
    `collect` rewrites the index (naming page 1) and then appends to page 1.  A crash between the two
    leaves an index that names a missing file: loading fails with `FileNotFoundError`. -/
theorem pinned_crash_window :
    let t : YT := { pitch := 1, logsize := 1, nlogs := 1 }
    let f : Files ℕ ℕ := { main := ⟨1, 1⟩, pages := [[7]], events := [] }
    ∃ f1, f.applyAll ((collectOpsPinned t 8).take 1) = some f1 ∧ load f1 = .error .fileNotFound := by
  exact ⟨_, rfl, rfl⟩

/-- the same crash point with the repaired order is harmless (non-vacuity of `crash_one_collect`) -/
example :
    let t : YT := { pitch := 1, logsize := 1, nlogs := 1 }
    let f : Files ℕ ℕ := { main := ⟨1, 1⟩, pages := [[7]], events := [] }
    ∃ f1, f.applyAll ((collectOps t 8).take 1) = some f1 ∧ load f1 = .ok t := by
  exact ⟨_, rfl, rfl⟩

end Mud.C15

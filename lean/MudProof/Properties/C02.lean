/-
  C02 — the electronic density matrix stays a valid quantum state.

  Subject: MudModel/Electronic.lean (`hamProp`, `propagatorU`, `expStep`, `rk4One`, `rk4`, `rk4Ydot`)
  at `ℝ`/`ℂ` through `MudProof.MatBridge`, for every number of states `N`, every `dt`.

  exp path (exact):
  * `W_hermitian`            symmetric H, antisymmetric couplings ⇒ the midpoint generator W is Hermitian
  * `propagatorU_eq`         the code's U is  C · diag(e^{-iλdt}) · Cᴴ
  * `propagatorU_unitary`    C unitary (eigh's contract), λ real ⇒ U unitary
  * `expStep_eq`             ρ' = U ρ Uᴴ
  * `conj_hermitian`, `conj_trace`, `conj_posSemidef`, `conj_idempotent`
                             Hermiticity, unit trace, positivity (⇒ populations in [0,1]) and purity are preserved
  * `populations_unit_interval`
  * `exp_history_invariant`  by induction: after ANY list of steps (any generators, any dt per step) the state is
                             Hermitian, trace one, positive semi-definite, and pure if it started pure
  linear-rk4 path (structural facts, exact):
  * `rk4_invariant`          an RK4 run preserves every linear functional that the right-hand side annihilates
                             and every real-linear subspace the right-hand side preserves
  * `commutator_traceless`, `commutator_hermitian`   the right-hand side -i[HI,ρ] is traceless, and Hermitian when HI, ρ are
  * `rk4_trace`, `rk4_hermitian`   ⇒ trace and Hermiticity are preserved **exactly** for any sub-step count
  * `rk4_purity_witness`, `rk4_not_pure`   COUNTEREXAMPLE: one RK4 step from |0><0| under a Hermitian generator gives
                             tr ρ² = 1145/1152 (trace still 1): "a pure state stays pure" is false for linear-rk4 at any
                             finite sub-step (`rk4V_linear_step`: the step is the degree-4 Taylor polynomial of exp(hL)).
                             Known finding `rk4-not-unitary`; positivity/purity under RK4 hold only up to the truncation error.
  Hops do not touch ρ (`Mud.hopToIt` has no ρ argument); collapse: see `collapse_pure` below.
-/
import MudProof.MatBridge
import Mathlib.LinearAlgebra.UnitaryGroup
import Mathlib.LinearAlgebra.Matrix.PosDef
import Mathlib.Tactic

namespace Mud.C02
open Mud Matrix Complex
open scoped ComplexOrder

variable {N n : ℕ}

/-! ### the generator -/

/-- **T1.** with a symmetric Hamiltonian and antisymmetric derivative couplings at both ends of the step
    the midpoint generator `W = H̄ - i d̄·v̄` is Hermitian -/
theorem W_hermitian (H1 H0 : Tab ℝ N N) (d1 d0 : Fin N → Fin N → Fin n → ℝ) (v : Fin n → ℝ)
    (hH1 : ∀ i j, H1.get i j = H1.get j i) (hH0 : ∀ i j, H0.get i j = H0.get j i)
    (hd1 : ∀ i j x, d1 j i x = -d1 i j x) (hd0 : ∀ i j x, d0 j i x = -d0 i j x) :
    (toM (hamProp H1 H0 d1 d0 v)).IsHermitian := by
  ext i j
  simp only [conjTranspose_apply, toM_apply, hamProp, contract, Tab.get_ofFn, frac_real]
  apply Complex.ext
  · simp [hH1 j i, hH0 j i]
  · simp only [star_def, conj_im, toC_im, vsum_eq_sum]
    have : ∑ x, (d1 j i x + d0 j i x) * v x = -∑ x, (d1 i j x + d0 i j x) * v x := by
      rw [← Finset.sum_neg_distrib]
      apply Finset.sum_congr rfl
      intro x _; rw [hd1 i j x, hd0 i j x]; ring
    rw [this]; ring

/-! ### the exponential step -/

/-- the diagonal of phases `e^{-iλdt}` -/
noncomputable def phases (diags : Fin N → ℝ) (dt : ℝ) : Matrix (Fin N) (Fin N) ℂ :=
  Matrix.diagonal (fun i => Complex.exp (-((diags i * dt : ℝ) : ℂ) * Complex.I))

theorem propagatorU_eq (diags : Fin N → ℝ) (coeff : Tab (Cx ℝ) N N) (dt : ℝ) :
    toM (propagatorU diags coeff dt) = toM coeff * phases diags dt * (toM coeff)ᴴ := by
  unfold propagatorU phases
  rw [toM_mmul, toM_mmul, toM_mH, toM_mdiag]
  congr 2
  ext i j
  simp only [diagonal_apply, phaseVec, toC_expI]
  split
  · push_cast; ring_nf
  · rfl

theorem phases_unitary (diags : Fin N → ℝ) (dt : ℝ) :
    (phases diags dt)ᴴ * phases diags dt = 1 := by
  unfold phases
  rw [diagonal_conjTranspose, diagonal_mul_diagonal, ← diagonal_one]
  congr 1
  funext i
  simp only [Pi.star_apply, Complex.star_def]
  rw [← Complex.exp_conj, ← Complex.exp_add]
  simp

/-- **T3.** `C` unitary (eigh's contract), eigenvalues real ⇒ the step matrix `U` is unitary -/
theorem propagatorU_unitary (diags : Fin N → ℝ) (coeff : Tab (Cx ℝ) N N) (dt : ℝ)
    (hC : (toM coeff)ᴴ * toM coeff = 1) :
    (toM (propagatorU diags coeff dt))ᴴ * toM (propagatorU diags coeff dt) = 1 := by
  rw [propagatorU_eq]
  have hC' : toM coeff * (toM coeff)ᴴ = 1 := mul_eq_one_comm.mp hC
  simp only [conjTranspose_mul, conjTranspose_conjTranspose, Matrix.mul_assoc]
  rw [← Matrix.mul_assoc (toM coeff)ᴴ, hC, Matrix.one_mul, ← Matrix.mul_assoc (phases diags dt)ᴴ,
    phases_unitary, Matrix.one_mul, hC']

theorem expStep_eq (diags : Fin N → ℝ) (coeff : Tab (Cx ℝ) N N) (dt : ℝ) (rho : Tab (Cx ℝ) N N) :
    toM (expStep diags coeff dt rho)
      = toM (propagatorU diags coeff dt) * toM rho * (toM (propagatorU diags coeff dt))ᴴ := by
  unfold expStep
  simp only [toM_mmul, toM_mH, Matrix.mul_assoc]

section conj
variable (U ρ : Matrix (Fin N) (Fin N) ℂ)

/-- **T4a.** Hermiticity is preserved by `ρ ↦ U ρ Uᴴ` (any U) -/
theorem conj_hermitian (hρ : ρ.IsHermitian) : (U * ρ * Uᴴ).IsHermitian := by
  unfold Matrix.IsHermitian at *
  simp only [conjTranspose_mul, conjTranspose_conjTranspose, hρ, Matrix.mul_assoc]

/-- **T4b.** the trace is preserved for unitary U -/
theorem conj_trace (hU : Uᴴ * U = 1) : (U * ρ * Uᴴ).trace = ρ.trace := by
  rw [Matrix.trace_mul_comm, ← Matrix.mul_assoc, hU, Matrix.one_mul]

/-- **T4c.** positive semi-definiteness is preserved (any U) -/
theorem conj_posSemidef (hρ : ρ.PosSemidef) : (U * ρ * Uᴴ).PosSemidef := by
  have := hρ.mul_mul_conjTranspose_same U
  exact this

/-- **T4d.** a pure state (`ρ² = ρ`) stays pure for unitary U -/
theorem conj_idempotent (hU : Uᴴ * U = 1) (hρ : ρ * ρ = ρ) : (U * ρ * Uᴴ) * (U * ρ * Uᴴ) = U * ρ * Uᴴ := by
  calc (U * ρ * Uᴴ) * (U * ρ * Uᴴ) = U * ρ * (Uᴴ * U) * ρ * Uᴴ := by simp only [Matrix.mul_assoc]
    _ = U * (ρ * ρ) * Uᴴ := by rw [hU]; simp only [Matrix.mul_one, Matrix.mul_assoc]
    _ = U * ρ * Uᴴ := by rw [hρ]
end conj

/-- **populations in [0,1]**: a positive semi-definite matrix of trace one has every diagonal entry in `[0,1]` -/
theorem populations_unit_interval (ρ : Matrix (Fin N) (Fin N) ℂ) (hρ : ρ.PosSemidef) (htr : ρ.trace = 1)
    (k : Fin N) : 0 ≤ (ρ k k).re ∧ (ρ k k).re ≤ 1 := by
  have hdiag : ∀ i, 0 ≤ ρ i i := fun i => hρ.diag_nonneg
  have hre : ∀ i, 0 ≤ (ρ i i).re := fun i => (Complex.nonneg_iff.mp (hdiag i)).1
  refine ⟨hre k, ?_⟩
  have htr' : ∑ i, (ρ i i).re = 1 := by
    have := congrArg Complex.re htr
    simpa [Matrix.trace] using this
  rw [← htr']
  exact Finset.single_le_sum (fun i _ => hre i) (Finset.mem_univ k)

/-- a valid electronic state -/
structure Valid (ρ : Matrix (Fin N) (Fin N) ℂ) : Prop where
  herm : ρ.IsHermitian
  trace_one : ρ.trace = 1
  psd : ρ.PosSemidef

/-- one exponential step keeps the state valid (and pure if it was) -/
theorem expStep_valid (diags : Fin N → ℝ) (coeff rho : Tab (Cx ℝ) N N) (dt : ℝ)
    (hC : (toM coeff)ᴴ * toM coeff = 1) (h : Valid (toM rho)) :
    Valid (toM (expStep diags coeff dt rho)) ∧
    (toM rho * toM rho = toM rho →
      toM (expStep diags coeff dt rho) * toM (expStep diags coeff dt rho) = toM (expStep diags coeff dt rho)) := by
  have hU := propagatorU_unitary diags coeff dt hC
  rw [expStep_eq]
  exact ⟨⟨conj_hermitian _ _ h.herm, by rw [conj_trace _ _ hU]; exact h.trace_one, conj_posSemidef _ _ h.psd⟩,
    fun hp => conj_idempotent _ _ hU hp⟩

/-- **T5.** history invariant: after ANY list of exponential steps — each with its own eigen-decomposition
    (any model, any positions), its own `dt` — the density matrix is Hermitian with unit trace, positive
    semi-definite (populations in [0,1]) and pure if it started pure -/
theorem exp_history_invariant (steps : List ((Fin N → ℝ) × Tab (Cx ℝ) N N × ℝ))
    (hC : ∀ s ∈ steps, (toM s.2.1)ᴴ * toM s.2.1 = 1) (rho : Tab (Cx ℝ) N N) (h : Valid (toM rho)) :
    let final := steps.foldl (fun r s => expStep s.1 s.2.1 s.2.2 r) rho
    Valid (toM final) ∧ (toM rho * toM rho = toM rho → toM final * toM final = toM final) := by
  induction steps generalizing rho with
  | nil => exact ⟨h, fun hp => hp⟩
  | cons s steps ih =>
    simp only [List.foldl_cons]
    have hs := expStep_valid s.1 s.2.1 rho s.2.2 (hC s (List.mem_cons_self)) h
    have := ih (fun t ht => hC t (List.mem_cons_of_mem _ ht)) (expStep s.1 s.2.1 s.2.2 rho) hs.1
    exact ⟨this.1, fun hp => this.2 (hs.2 hp)⟩

/-! ### Runge–Kutta: exact structural invariants -/

section rk4
variable {Y : Type} [AddCommGroup Y] [Module ℝ Y]

/-- `propagation.rk4` in a real vector space -/
noncomputable def rk4V (ydot : Y → ℝ → Y) (t0 tf : ℝ) (nsteps : ℕ) (y0 : Y) : Y :=
  rk4 (α := ℝ) (· + ·) (fun c y => c • y) ydot t0 tf nsteps y0

/-- **T6 (general).** RK4 preserves any additive subgroup closed under real scaling that the right-hand side maps
    into: every stage and every update stays inside it, for any number of sub-steps -/
theorem rk4_invariant (S : Submodule ℝ Y) (ydot : Y → ℝ → Y) (hy : ∀ y t, y ∈ S → ydot y t ∈ S)
    (t0 tf : ℝ) (nsteps : ℕ) (y0 : Y) (h0 : y0 ∈ S) : rk4V ydot t0 tf nsteps y0 ∈ S := by
  unfold rk4V rk4
  simp only
  have step : ∀ (h t : ℝ) (y : Y), y ∈ S → rk4One (α := ℝ) (· + ·) (fun c y => c • y) ydot h t y ∈ S := by
    intro h t y hyS
    unfold rk4One
    simp only
    have k1 := hy y t hyS
    have k2 := hy _ (t + frac 1 2 * h) (S.add_mem hyS (S.smul_mem (frac 1 2 * h) k1))
    have k3 := hy _ (t + frac 1 2 * h) (S.add_mem hyS (S.smul_mem (frac 1 2 * h) k2))
    have k4 := hy _ (t + h) (S.add_mem hyS (S.smul_mem h k3))
    exact S.add_mem hyS (S.smul_mem _ (S.add_mem (S.add_mem (S.add_mem k1 (S.smul_mem _ k2)) (S.smul_mem _ k3)) k4))
  generalize List.range nsteps = l
  induction l generalizing y0 with
  | nil => exact h0
  | cons i l ih => exact ih _ (step _ _ _ h0)

/-- RK4 preserves the value of any linear functional that the right-hand side annihilates -/
theorem rk4_functional (φ : Y →ₗ[ℝ] ℝ) (ydot : Y → ℝ → Y) (hy : ∀ y t, φ (ydot y t) = 0)
    (t0 tf : ℝ) (nsteps : ℕ) (y0 : Y) : φ (rk4V ydot t0 tf nsteps y0) = φ y0 := by
  unfold rk4V rk4
  simp only
  have step : ∀ (h t : ℝ) (y : Y), φ (rk4One (α := ℝ) (· + ·) (fun c y => c • y) ydot h t y) = φ y := by
    intro h t y
    unfold rk4One
    simp only [map_add, map_smul, hy, smul_zero, add_zero]
  generalize List.range nsteps = l
  induction l generalizing y0 with
  | nil => rfl
  | cons i l ih => rw [List.foldl_cons, ih, step]
end rk4

/-- the commutator right-hand side `-i[HI, ρ]` is traceless, whatever `HI` -/
theorem commutator_traceless (HI ρ : Matrix (Fin N) (Fin N) ℂ) :
    ((-Complex.I) • (HI * ρ - ρ * HI)).trace = 0 := by
  rw [Matrix.trace_smul, Matrix.trace_sub, Matrix.trace_mul_comm]; simp

/-- and Hermitian whenever `HI` and `ρ` are -/
theorem commutator_hermitian (HI ρ : Matrix (Fin N) (Fin N) ℂ) (hH : HI.IsHermitian) (hρ : ρ.IsHermitian) :
    ((-Complex.I) • (HI * ρ - ρ * HI)).IsHermitian := by
  unfold Matrix.IsHermitian at *
  rw [conjTranspose_smul, conjTranspose_sub, conjTranspose_mul, conjTranspose_mul, hH, hρ]
  simp only [star_neg, Complex.star_def, Complex.conj_I, neg_neg]
  rw [← neg_sub, smul_neg, neg_smul]

/-- the interaction-picture generator `HI(t)` of the `linear-rk4` branch as a matrix -/
noncomputable def hiMat (eigs : Fin N → ℝ) (H0 H1 W00 W11 W01 : Tab ℝ N N) (dt t : ℝ) : Matrix (Fin N) (Fin N) ℂ :=
  toM (Tab.ofFn (fun i j =>
    let h := H0.get i j * ((1 - t / dt) - 1) + H1.get i j * (t / dt)
    let w := (1 - t / dt) * (1 - t / dt) * W00.get i j + (t / dt) * (t / dt) * W11.get i j
      + (1 - t / dt) * (t / dt) * W01.get i j
    (⟨h, -w⟩ : Cx ℝ) * (Cx.expI (eigs i * t) * Cx.conj (Cx.expI (eigs j * t)))))

/-- the model's right-hand side is the commutator `-i[HI(t), ρ]` -/
theorem rk4Ydot_eq (eigs : Fin N → ℝ) (H0 H1 W00 W11 W01 : Tab ℝ N N) (dt : ℝ) (rho : Tab (Cx ℝ) N N) (t : ℝ) :
    toM (rk4Ydot eigs H0 H1 W00 W11 W01 dt rho t)
      = (-Complex.I) • (hiMat eigs H0 H1 W00 W11 W01 dt t * toM rho - toM rho * hiMat eigs H0 H1 W00 W11 W01 dt t) := by
  unfold rk4Ydot hiMat
  simp only
  rw [toM_ofFn]
  ext i j
  simp only [of_apply, toC_mulNegI, Matrix.smul_apply, smul_eq_mul, Matrix.sub_apply]
  rw [← toM_apply, toM_msub, toM_mmul, toM_mmul]
  rfl

/-- `HI(t)` is Hermitian when the rotated Hamiltonians are symmetric and the rotated couplings antisymmetric -/
theorem hiMat_hermitian (eigs : Fin N → ℝ) (H0 H1 W00 W11 W01 : Tab ℝ N N) (dt t : ℝ)
    (h0 : ∀ i j, H0.get i j = H0.get j i) (h1 : ∀ i j, H1.get i j = H1.get j i)
    (w00 : ∀ i j, W00.get j i = -W00.get i j) (w11 : ∀ i j, W11.get j i = -W11.get i j)
    (w01 : ∀ i j, W01.get j i = -W01.get i j) : (hiMat eigs H0 H1 W00 W11 W01 dt t).IsHermitian := by
  ext i j
  simp only [hiMat, conjTranspose_apply, toM_apply, Tab.get_ofFn, toC_mul, toC_conj, toC_expI, star_mul',
    star_star]
  rw [h0 j i, h1 j i, w00 i j, w11 i j, w01 i j]
  have e : star (toC (⟨H0.get i j * (1 - t / dt - 1) + H1.get i j * (t / dt),
      -((1 - t / dt) * (1 - t / dt) * -W00.get i j + t / dt * (t / dt) * -W11.get i j
        + (1 - t / dt) * (t / dt) * -W01.get i j)⟩ : Cx ℝ))
      = toC (⟨H0.get i j * (1 - t / dt - 1) + H1.get i j * (t / dt),
        -((1 - t / dt) * (1 - t / dt) * W00.get i j + t / dt * (t / dt) * W11.get i j
          + (1 - t / dt) * (t / dt) * W01.get i j)⟩ : Cx ℝ) := by
    apply Complex.ext <;> simp <;> ring
  rw [e]; ring

/-- transport of an RK4 run along a map that commutes with the vector-space operations and the right-hand side -/
theorem rk4_transport {Y : Type} [AddCommGroup Y] [Module ℝ Y] (f : Tab (Cx ℝ) N N → Y)
    (hadd : ∀ a b, f (madd a b) = f a + f b) (hsmul : ∀ (c : ℝ) a, f (msmul c a) = c • f a)
    (yd : Tab (Cx ℝ) N N → ℝ → Tab (Cx ℝ) N N) (yd' : Y → ℝ → Y) (hyd : ∀ a t, f (yd a t) = yd' (f a) t)
    (t0 tf : ℝ) (ns : ℕ) (y0 : Tab (Cx ℝ) N N) :
    f (rk4 (α := ℝ) madd msmul yd t0 tf ns y0) = rk4V yd' t0 tf ns (f y0) := by
  unfold rk4V rk4
  simp only
  have step : ∀ (h t : ℝ) (y : Tab (Cx ℝ) N N),
      f (rk4One (α := ℝ) madd msmul yd h t y) = rk4One (α := ℝ) (· + ·) (fun c y => c • y) yd' h t (f y) := by
    intro h t y
    unfold rk4One
    simp only [hadd, hsmul, hyd]
  generalize List.range ns = l
  induction l generalizing y0 with
  | nil => rfl
  | cons i l ih => rw [List.foldl_cons, List.foldl_cons, ih, step]

/-- **T6a. trace preserved exactly** by the interaction-picture RK4 run of the `linear-rk4` branch, for any number
    of sub-steps (the rotation into the eigenbasis and the final phase factors are unitary similarity transforms
    and leave the trace alone: `conj_trace`) -/
theorem rk4_trace (eigs : Fin N → ℝ) (H0 H1 W00 W11 W01 : Tab ℝ N N) (dt : ℝ) (ns : ℕ) (rho0 : Tab (Cx ℝ) N N) :
    (toM (rk4 (α := ℝ) madd msmul (fun r t => rk4Ydot eigs H0 H1 W00 W11 W01 dt r t) 0 dt ns rho0)).trace
      = (toM rho0).trace := by
  have tr := rk4_transport (Y := Matrix (Fin N) (Fin N) ℂ) toM toM_madd
    (fun c a => by rw [toM_msmul]; rfl)
    (fun r t => rk4Ydot eigs H0 H1 W00 W11 W01 dt r t)
    (fun X t => (-Complex.I) • (hiMat eigs H0 H1 W00 W11 W01 dt t * X - X * hiMat eigs H0 H1 W00 W11 W01 dt t))
    (fun a t => rk4Ydot_eq eigs H0 H1 W00 W11 W01 dt a t) 0 dt ns rho0
  rw [tr]
  apply Complex.ext
  · exact rk4_functional (Complex.reLm.comp ((Matrix.traceLinearMap (Fin N) ℝ ℂ).restrictScalars ℝ)) _
      (fun y t => by
        show ((-Complex.I) • (hiMat eigs H0 H1 W00 W11 W01 dt t * y - y * hiMat eigs H0 H1 W00 W11 W01 dt t)).trace.re = 0
        rw [commutator_traceless]; rfl) 0 dt ns _
  · exact rk4_functional (Complex.imLm.comp ((Matrix.traceLinearMap (Fin N) ℝ ℂ).restrictScalars ℝ)) _
      (fun y t => by
        show ((-Complex.I) • (hiMat eigs H0 H1 W00 W11 W01 dt t * y - y * hiMat eigs H0 H1 W00 W11 W01 dt t)).trace.im = 0
        rw [commutator_traceless]; rfl) 0 dt ns _

/-- **T6b. Hermiticity preserved exactly** by the same run when `HI(t)` is Hermitian for every `t` -/
theorem rk4_hermitian (eigs : Fin N → ℝ) (H0 H1 W00 W11 W01 : Tab ℝ N N) (dt : ℝ) (ns : ℕ) (rho0 : Tab (Cx ℝ) N N)
    (hHI : ∀ t, (hiMat eigs H0 H1 W00 W11 W01 dt t).IsHermitian) (h0 : (toM rho0).IsHermitian) :
    (toM (rk4 (α := ℝ) madd msmul (fun r t => rk4Ydot eigs H0 H1 W00 W11 W01 dt r t) 0 dt ns rho0)).IsHermitian := by
  have tr := rk4_transport (Y := Matrix (Fin N) (Fin N) ℂ) toM toM_madd
    (fun c a => by rw [toM_msmul]; rfl)
    (fun r t => rk4Ydot eigs H0 H1 W00 W11 W01 dt r t)
    (fun X t => (-Complex.I) • (hiMat eigs H0 H1 W00 W11 W01 dt t * X - X * hiMat eigs H0 H1 W00 W11 W01 dt t))
    (fun a t => rk4Ydot_eq eigs H0 H1 W00 W11 W01 dt a t) 0 dt ns rho0
  rw [tr]
  -- the Hermitian matrices form a real subspace
  let S : Submodule ℝ (Matrix (Fin N) (Fin N) ℂ) :=
    { carrier := {A | A.IsHermitian}
      add_mem' := fun ha hb => Matrix.IsHermitian.add ha hb
      zero_mem' := Matrix.isHermitian_zero
      smul_mem' := fun c A hA => by
        show (c • A).IsHermitian
        unfold Matrix.IsHermitian at *
        rw [conjTranspose_smul, hA]; simp }
  exact rk4_invariant S _ (fun y t hy => commutator_hermitian _ _ (hHI t) hy) 0 dt ns _ h0

/-! ### T7. `linear-rk4` is not unitary: counterexample to purity (the property is false for this integrator) -/

section rk4witness
variable {Y : Type} [AddCommGroup Y] [Module ℝ Y]

/-- one RK4 step for an autonomous LINEAR right-hand side is the degree-4 Taylor polynomial of `exp(hL)` -/
theorem rk4V_linear_step (L : Y →ₗ[ℝ] Y) (h : ℝ) (y0 : Y) :
    rk4V (fun y _ => L y) 0 h 1 y0
      = y0 + h • L y0 + (h ^ 2 / 2) • L (L y0) + (h ^ 3 / 6) • L (L (L y0)) + (h ^ 4 / 24) • L (L (L (L y0))) := by
  unfold rk4V rk4 rk4One
  simp only [List.range_one, List.foldl_cons, List.foldl_nil, map_add, map_smul, frac_real, lit_real]
  norm_num
  module

/-- scalar case `z' = λ z` over `ℂ`: the step multiplies by `R(hλ) = 1 + hλ + (hλ)²/2 + (hλ)³/6 + (hλ)⁴/24` -/
theorem rk4V_scalar (lam : ℂ) (h : ℝ) (z0 : ℂ) :
    rk4V (Y := ℂ) (fun z _ => lam * z) 0 h 1 z0
      = (1 + h * lam + (h * lam) ^ 2 / 2 + (h * lam) ^ 3 / 6 + (h * lam) ^ 4 / 24) * z0 := by
  have := rk4V_linear_step (Y := ℂ) (LinearMap.mulLeft ℝ lam) h z0
  simp only [LinearMap.mulLeft_apply] at this
  rw [this]
  simp only [Complex.real_smul]
  push_cast
  ring

/-- the 2×2 coupling `J = [[0,1],[-1,0]]` scaled by `c` -/
def Jtab (c : ℝ) : Tab ℝ 2 2 := Tab.ofFn (fun i j => if i.val = 0 ∧ j.val = 1 then c else if i.val = 1 ∧ j.val = 0 then -c else 0)

def zeroTab : Tab ℝ 2 2 := Tab.ofFn (fun _ _ => 0)

/-- the witness generator: degenerate zero Hamiltonian, constant derivative coupling `τ·v = J/2` at both ends of the step
    (so `W00 = W11 = J/2`, cross term `W01 = J`), `dt = 1` -/
theorem hiMat_witness (t : ℝ) :
    hiMat (fun _ => 0) zeroTab zeroTab (Jtab (1/2)) (Jtab (1/2)) (Jtab 1) 1 t
      = !![0, -(Complex.I / 2); Complex.I / 2, 0] := by
  ext i j
  fin_cases i <;> fin_cases j <;>
    simp [hiMat, zeroTab, Jtab, Tab.get_ofFn, Complex.ext_iff] <;> ring

/-- Bloch-type coordinates of a 2×2 matrix -/
def fz (X : Matrix (Fin 2) (Fin 2) ℂ) : ℂ := (X 0 0 - X 1 1) + Complex.I * (X 0 1 + X 1 0)
def fzb (X : Matrix (Fin 2) (Fin 2) ℂ) : ℂ := (X 0 0 - X 1 1) - Complex.I * (X 0 1 + X 1 0)
def fd (X : Matrix (Fin 2) (Fin 2) ℂ) : ℂ := X 0 1 - X 1 0

/-- `tr X² = ((tr X)² + fz·fzb − fd²)/2` for every 2×2 matrix -/
theorem trace_sq_two (X : Matrix (Fin 2) (Fin 2) ℂ) :
    (X * X).trace = (X.trace ^ 2 + fz X * fzb X - fd X ^ 2) / 2 := by
  simp only [Matrix.trace, Matrix.diag, Matrix.mul_apply, Fin.sum_univ_two, fz, fzb, fd]
  have hI : Complex.I ^ 2 = -1 := Complex.I_sq
  have hI3 : Complex.I ^ 3 = -Complex.I := by rw [pow_succ, hI]; ring
  have hI4 : Complex.I ^ 4 = 1 := by rw [show (4 : ℕ) = 2 * 2 from rfl, pow_mul, hI]; ring
  ring_nf
  simp only [hI, hI3, hI4]
  ring

/-- the right-hand side of the witness, on matrices -/
noncomputable def Gw (X : Matrix (Fin 2) (Fin 2) ℂ) : Matrix (Fin 2) (Fin 2) ℂ :=
  (-Complex.I) • (!![0, -(Complex.I / 2); Complex.I / 2, 0] * X - X * !![0, -(Complex.I / 2); Complex.I / 2, 0])

theorem fz_Gw (X : Matrix (Fin 2) (Fin 2) ℂ) : fz (Gw X) = Complex.I * fz X := by
  simp only [fz, Gw, Matrix.smul_apply, Matrix.sub_apply, Matrix.mul_apply, Fin.sum_univ_two, smul_eq_mul,
    Matrix.of_apply, Matrix.cons_val', Matrix.cons_val_zero, Matrix.cons_val_one, Matrix.cons_val_fin_one]
  have hI : Complex.I ^ 2 = -1 := Complex.I_sq
  have hI3 : Complex.I ^ 3 = -Complex.I := by rw [pow_succ, hI]; ring
  have hI4 : Complex.I ^ 4 = 1 := by rw [show (4 : ℕ) = 2 * 2 from rfl, pow_mul, hI]; ring
  ring_nf
  simp only [hI, hI3, hI4]
  ring

theorem fzb_Gw (X : Matrix (Fin 2) (Fin 2) ℂ) : fzb (Gw X) = (-Complex.I) * fzb X := by
  simp only [fzb, Gw, Matrix.smul_apply, Matrix.sub_apply, Matrix.mul_apply, Fin.sum_univ_two, smul_eq_mul,
    Matrix.of_apply, Matrix.cons_val', Matrix.cons_val_zero, Matrix.cons_val_one, Matrix.cons_val_fin_one]
  have hI : Complex.I ^ 2 = -1 := Complex.I_sq
  have hI3 : Complex.I ^ 3 = -Complex.I := by rw [pow_succ, hI]; ring
  have hI4 : Complex.I ^ 4 = 1 := by rw [show (4 : ℕ) = 2 * 2 from rfl, pow_mul, hI]; ring
  ring_nf
  simp only [hI, hI3, hI4]
  ring

theorem fd_Gw (X : Matrix (Fin 2) (Fin 2) ℂ) : fd (Gw X) = 0 * fd X := by
  simp only [fd, Gw, Matrix.smul_apply, Matrix.sub_apply, Matrix.mul_apply, Fin.sum_univ_two, smul_eq_mul,
    Matrix.of_apply, Matrix.cons_val', Matrix.cons_val_zero, Matrix.cons_val_one, Matrix.cons_val_fin_one]
  ring

/-- the witness run: ONE linear-rk4 step (`dt = 1`, one sub-step) from the pure state `|0⟩⟨0|` with a degenerate zero
    Hamiltonian and the constant coupling above -/
noncomputable def rhoW : Tab (Cx ℝ) 2 2 :=
  rk4 (α := ℝ) madd msmul
    (fun r t => rk4Ydot (fun _ => 0) zeroTab zeroTab (Jtab (1/2)) (Jtab (1/2)) (Jtab 1) 1 r t) 0 1 1
    (Tab.ofFn (fun i j => if i.val = 0 ∧ j.val = 0 then (⟨1, 0⟩ : Cx ℝ) else ⟨0, 0⟩))

private theorem transportW (f : Matrix (Fin 2) (Fin 2) ℂ → ℂ) (lam : ℂ)
    (hadd : ∀ A B, f (A + B) = f A + f B) (hsmul : ∀ (c : ℝ) A, f ((c : ℂ) • A) = (c : ℂ) * f A)
    (hG : ∀ X, f (Gw X) = lam * f X) :
    f (toM rhoW) = (1 + lam + lam ^ 2 / 2 + lam ^ 3 / 6 + lam ^ 4 / 24)
      * f (toM (Tab.ofFn (fun i j => if i.val = 0 ∧ j.val = 0 then (⟨1, 0⟩ : Cx ℝ) else ⟨0, 0⟩))) := by
  have tr := rk4_transport (Y := ℂ) (fun ρ => f (toM ρ))
    (fun a b => by simp only [toM_madd, hadd])
    (fun c a => by simp only [toM_msmul, hsmul, Complex.real_smul])
    (fun r t => rk4Ydot (fun _ => 0) zeroTab zeroTab (Jtab (1/2)) (Jtab (1/2)) (Jtab 1) 1 r t)
    (fun z _ => lam * z)
    (fun a t => by
      simp only [rk4Ydot_eq, hiMat_witness]
      exact hG (toM a)) 0 1 1
    (Tab.ofFn (fun i j => if i.val = 0 ∧ j.val = 0 then (⟨1, 0⟩ : Cx ℝ) else ⟨0, 0⟩))
  unfold rhoW
  rw [tr, rk4V_scalar]
  push_cast
  ring

/-- **T7 (counterexample to purity under `linear-rk4`).** One RK4 step from the pure state `|0⟩⟨0|` under a Hermitian
    generator (degenerate energies, constant derivative coupling `τ·v = J/2`, `dt = 1`) gives `tr ρ² = 1145/1152 < 1`,
    although the trace is still exactly one (`rk4_trace`) and ρ is still Hermitian (`rk4_hermitian`): the RK4 electronic
    integrator is not unitary, so "a pure initial state stays pure" fails for it at any finite sub-step. -/
theorem rk4_purity_witness : (toM rhoW * toM rhoW).trace = 1145 / 1152 ∧ (toM rhoW).trace = 1 := by
  have hρ0 : ∀ i j, toM (Tab.ofFn (fun i j : Fin 2 => if i.val = 0 ∧ j.val = 0 then (⟨1, 0⟩ : Cx ℝ) else ⟨0, 0⟩)) i j
      = if i.val = 0 ∧ j.val = 0 then 1 else 0 := by
    intro i j
    simp only [toM_apply, Tab.get_ofFn]
    split <;> apply Complex.ext <;> simp
  have htr : (toM rhoW).trace = 1 := by
    unfold rhoW
    rw [rk4_trace]
    simp only [Matrix.trace, Matrix.diag, Fin.sum_univ_two, hρ0]
    norm_num
  have hI : Complex.I ^ 2 = -1 := Complex.I_sq
  have hI3 : Complex.I ^ 3 = -Complex.I := by rw [pow_succ, hI]; ring
  have hI4 : Complex.I ^ 4 = 1 := by rw [show (4 : ℕ) = 2 * 2 from rfl, pow_mul, hI]; ring
  have h1 := transportW fz Complex.I (fun A B => by simp [fz]; ring) (fun c A => by simp [fz]; ring) fz_Gw
  have h2 := transportW fzb (-Complex.I) (fun A B => by simp [fzb]; ring) (fun c A => by simp [fzb]; ring) fzb_Gw
  have h3 := transportW fd 0 (fun A B => by simp [fd]; ring) (fun c A => by simp [fd]; ring) fd_Gw
  refine ⟨?_, htr⟩
  rw [trace_sq_two, htr, h1, h2, h3]
  simp only [fz, fzb, fd, hρ0]
  norm_num
  ring_nf
  simp only [hI, hI3, hI4]
  ring

/-- in particular the state after the step is not pure -/
theorem rk4_not_pure : toM rhoW * toM rhoW ≠ toM rhoW := by
  intro h
  have w := rk4_purity_witness
  rw [h, w.2] at w
  norm_num at w

end rk4witness

/-- an A-FSSH collapse (two states) leaves the pure active state: it is idempotent, Hermitian, trace one -/
theorem collapse_pure (k : Fin N) :
    let ρ : Matrix (Fin N) (Fin N) ℂ := Matrix.of (fun i j => if i = k ∧ j = k then 1 else 0)
    ρ * ρ = ρ ∧ ρ.IsHermitian ∧ ρ.trace = 1 := by
  intro ρ
  refine ⟨?_, ?_, ?_⟩
  · ext i j
    simp only [ρ, Matrix.mul_apply, of_apply]
    rw [Finset.sum_eq_single k]
    · by_cases hi : i = k <;> by_cases hj : j = k <;> simp [hi, hj]
    · intro b _ hb; simp [hb]
    · simp
  · ext i j
    simp only [ρ, conjTranspose_apply, of_apply]
    by_cases hi : i = k <;> by_cases hj : j = k <;> simp [hi, hj]
  · simp only [ρ, Matrix.trace, diag_apply, of_apply]
    rw [Finset.sum_eq_single k]
    · simp
    · intro b _ hb; simp [hb]
    · simp

end Mud.C02

import MudProof.RealInst
namespace Mud.C02
theorem placeholder_true : True := trivial
end Mud.C02

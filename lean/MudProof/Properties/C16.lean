/-
  C16 — trajectories stop exactly when specified and log a consistent timeline.

  Subject: MudModel/Loop.lean (`continue_simulating`, `trace`, `simulate`) at `ℝ`, for every
  combination of limits, box (scalar or per-dimension), `trace_every ≥ 1`, initial time/step
  counter, time step, and **every position stream** (the dynamics are abstracted away: the stop
  rule only reads positions).

  * `stopPred`, `continueSim_fst`, `continueSim_snd`   the predicate evaluated before the first and after every step,
                                          and how the "has been inside the box" latch evolves
  * `no_log_if_stopped_at_start`          a limit already met at the start: return at once, nothing logged
  * `loop_spec`                           complete description of a run: it takes exactly `K` steps where `K ≥ 1`
                                          is the FIRST step whose check fails (latch = inside at an earlier check);
                                          the log is  [initial] ++ [k | 0<k<K, (n0+k) % te = 0] ++ [K]  with
                                          times `t0 + k·dt`; the final state is logged exactly once
  * `times_strictly_increasing`           for `dt > 0`
  * `terminates_by_max_steps`             with `max_steps ≥ 0` the run stops within `max_steps - n0` steps
  * `kinetic_from_momentum`               kinetic energy of a snapshot = ½ Σ p_i²/m_i of the logged momentum
-/
import MudProof.RealInst
import MudModel.Loop
import MudModel.Hop
import Mathlib.Algebra.BigOperators.Fin
import Mathlib.Tactic

namespace Mud.C16
open Mud Mud.Loop

abbrev Lim := Limits ℝ
abbrev S := St ℝ

/-- the stop predicate: force-quit ∨ step limit reached ∨ time limit reached ∨ left the box after having
    been inside it (`latch`) -/
noncomputable def stopPred (L : Lim) (fq : Bool) (n : ℕ) (t : ℝ) (latch : Bool) (x : List ℝ) : Bool :=
  fq || stepsUp L.maxSteps n || timeUp t L.maxTime || (latch && !interacting L.box x)

theorem continueSim_fst (L : Lim) (s : S) (x : List ℝ) :
    (continueSim L s x).1 = !stopPred L s.forceQuit s.nsteps s.time s.found x := by
  unfold continueSim stopPred
  cases h1 : s.forceQuit
  · cases h2 : stepsUp L.maxSteps s.nsteps
    · cases h3 : timeUp s.time L.maxTime
      · cases h4 : s.found <;> simp
      · simp
    · simp
  · simp

/-- while the run continues the latch becomes "was inside at this or an earlier check" -/
theorem continueSim_snd (L : Lim) (s : S) (x : List ℝ) (h : (continueSim L s x).1 = true) :
    (continueSim L s x).2 = (s.found || interacting L.box x) := by
  unfold continueSim at h ⊢
  cases h1 : s.forceQuit
  · cases h2 : stepsUp L.maxSteps s.nsteps
    · cases h3 : timeUp s.time L.maxTime
      · cases h4 : s.found <;> simp
      · simp [h1, h2, h3] at h
    · simp [h1, h2] at h
  · simp [h1] at h

/-- **T1.** a limit already met at the start: the run returns immediately without logging -/
theorem no_log_if_stopped_at_start (L : Lim) (dt : ℝ) (te : ℕ) (r : Bool) (s0 : S) (x0 : List ℝ)
    (xs : List (List ℝ)) (h : stopPred L s0.forceQuit s0.nsteps s0.time s0.found x0 = true) :
    (simulate L dt te r s0 x0 xs).log = [] ∧ (simulate L dt te r s0 x0 xs).final.nsteps = s0.nsteps := by
  unfold simulate
  have : (continueSim L s0 x0).1 = false := by rw [continueSim_fst, h]; rfl
  cases hc : continueSim L s0 x0 with
  | mk c f =>
    rw [hc] at this
    simp only at this
    subst this
    simp

/-- latch after `k` further continuing checks on the stream `xs` -/
noncomputable def latchAt (L : Lim) (found : Bool) (xs : List (List ℝ)) (k : ℕ) : Bool :=
  found || (xs.take k).any (fun x => interacting L.box x)

/-- the log entries written inside the loop for steps `1 … K-1` (recursive form following the loop) -/
noncomputable def midLog (dt : ℝ) (te : ℕ) : ℕ → ℝ → ℕ → List (ℕ × ℝ)
  | _, _, 0 => []
  | _, _, 1 => []
  | n0, t0, K + 2 =>
    (if (n0 + 1) % te = 0 then [(n0 + 1, t0 + dt)] else []) ++ midLog dt te (n0 + 1) (t0 + dt) (K + 1)

/-- **the schedule in closed form**: the steps `k` with `0 < k < K` whose index `n0 + k` is a multiple
    of `trace_every`, each with time `t0 + k·dt` -/
theorem midLog_eq (dt : ℝ) (te : ℕ) : ∀ (K n0 : ℕ) (t0 : ℝ),
    midLog dt te n0 t0 K
      = ((List.range' 1 (K - 1)).filter (fun k => (n0 + k) % te = 0)).map
          (fun k => (n0 + k, t0 + (k : ℝ) * dt)) := by
  intro K
  induction K using Nat.strong_induction_on with
  | _ K ih =>
    intro n0 t0
    match K with
    | 0 => simp [midLog]
    | 1 => simp [midLog]
    | K + 2 =>
      rw [midLog, ih (K + 1) (by omega)]
      have hr : List.range' 1 (K + 2 - 1) = 1 :: (List.range' 1 (K + 1 - 1)).map (fun k => k + 1) := by
        have e1 : K + 2 - 1 = K + 1 := by omega
        have e2 : K + 1 - 1 = K := by omega
        rw [e1, e2, List.range'_succ]
        congr 1
        rw [List.range'_eq_map_range, List.range'_eq_map_range, List.map_map]
        apply List.map_congr_left
        intro a _; simp; ring
      have hf : (List.range' 1 (K + 1 - 1)).filter ((fun k => decide ((n0 + k) % te = 0)) ∘ fun k => k + 1)
          = (List.range' 1 (K + 1 - 1)).filter (fun k => decide ((n0 + 1 + k) % te = 0)) := by
        apply List.filter_congr
        intro a _
        simp only [Function.comp]
        have : n0 + (a + 1) = n0 + 1 + a := by ring
        rw [this]
      have hm : ((fun k => (n0 + k, t0 + (k : ℝ) * dt)) ∘ fun k => k + 1)
          = fun k => (n0 + 1 + k, t0 + dt + (k : ℝ) * dt) := by
        funext a
        simp only [Function.comp, Prod.mk.injEq]
        constructor
        · ring
        · push_cast; ring
      rw [hr]
      by_cases h : (n0 + 1) % te = 0
      · rw [List.filter_cons_of_pos (by simpa using h), List.map_cons, List.filter_map, List.map_map, hf, hm]
        simp [h]
      · rw [List.filter_cons_of_neg (by simpa using h), List.filter_map, List.map_map, hf, hm]
        simp [h]

/-- **complete specification of the loop** -/
theorem loopGo_spec (L : Lim) (dt : ℝ) (te : ℕ) : ∀ (xs : List (List ℝ)) (s : S) (acc : List (ℕ × ℝ)),
    let r := loopGo L dt te s xs acc
    (r.ranOut = true →
        (∀ k, 1 ≤ k → k ≤ xs.length →
          stopPred L s.forceQuit (s.nsteps + k) (s.time + k * dt) (latchAt L s.found xs (k - 1))
            (xs.getD (k - 1) []) = false)) ∧
    (r.ranOut = false → ∃ K, 1 ≤ K ∧ K ≤ xs.length ∧
        r.final.nsteps = s.nsteps + K ∧ r.final.time = s.time + K * dt ∧
        (∀ k, 1 ≤ k → k < K →
          stopPred L s.forceQuit (s.nsteps + k) (s.time + k * dt) (latchAt L s.found xs (k - 1))
            (xs.getD (k - 1) []) = false) ∧
        stopPred L s.forceQuit (s.nsteps + K) (s.time + K * dt) (latchAt L s.found xs (K - 1))
            (xs.getD (K - 1) []) = true ∧
        r.log = acc ++ midLog dt te s.nsteps s.time K ++ [(s.nsteps + K, s.time + K * dt)]) := by
  intro xs
  induction xs with
  | nil =>
    intro s acc
    simp only [loopGo]
    refine ⟨?_, by simp⟩
    intro _ k h1 h2
    simp at h2; omega
  | cons x xs ih =>
    intro s acc
    simp only [loopGo]
    set s1 : S := { s with time := s.time + dt, nsteps := s.nsteps + 1 } with hs1
    have hfst := continueSim_fst L s1 x
    cases hc : continueSim L s1 x with
    | mk c f =>
      rw [hc] at hfst
      simp only at hfst
      cases c with
      | false =>
        -- stops at this step: K = 1
        simp only [Bool.false_eq_true, if_false]
        refine ⟨by simp, fun _ => ⟨1, le_refl 1, by simp, by simp [hs1], by simp [hs1], ?_, ?_, ?_⟩⟩
        · intro k h1 h2; omega
        · have : stopPred L s1.forceQuit s1.nsteps s1.time s1.found x = true := by
            cases h : stopPred L s1.forceQuit s1.nsteps s1.time s1.found x <;> simp_all
          simpa [hs1, latchAt] using this
        · simp [midLog, hs1]
      | true =>
        simp only [if_true]
        have hstop : stopPred L s1.forceQuit s1.nsteps s1.time s1.found x = false := by
          cases h : stopPred L s1.forceQuit s1.nsteps s1.time s1.found x <;> simp_all
        have hsnd : f = (s.found || interacting L.box x) := by
          have := continueSim_snd L s1 x (by rw [hc])
          rw [hc] at this
          simpa [hs1] using this
        set s2 : S := { s1 with found := f } with hs2
        have ih' := ih s2 (acc ++ traceIf te s2)
        -- translate statements about (s2, xs, k) into statements about (s, x :: xs, k+1)
        have hlatch : ∀ k, latchAt L s2.found xs k = latchAt L s.found (x :: xs) (k + 1) := by
          intro k
          simp only [latchAt, hs2, hsnd, List.take_succ_cons, List.any_cons, Bool.or_assoc]
        have hshift : ∀ k, 1 ≤ k →
            stopPred L s2.forceQuit (s2.nsteps + k) (s2.time + k * dt) (latchAt L s2.found xs (k - 1))
              (xs.getD (k - 1) [])
            = stopPred L s.forceQuit (s.nsteps + (k + 1)) (s.time + ((k + 1 : ℕ) : ℝ) * dt)
              (latchAt L s.found (x :: xs) (k + 1 - 1)) ((x :: xs).getD (k + 1 - 1) []) := by
          intro k hk
          have e1 : s2.nsteps + k = s.nsteps + (k + 1) := by simp [hs2, hs1]; ring
          have e2 : s2.time + k * dt = s.time + ((k + 1 : ℕ) : ℝ) * dt := by simp [hs2, hs1]; ring
          have e3 : k + 1 - 1 = (k - 1) + 1 := by omega
          rw [e1, e2, e3, ← hlatch, List.getD_cons_succ]
        constructor
        · intro hr k h1 h2
          rcases Nat.eq_or_lt_of_le h1 with e | e
          · subst e
            simpa [hs1, latchAt] using hstop
          · have := ih'.1 hr (k - 1) (by omega) (by simp at h2; omega)
            rw [hshift (k - 1) (by omega)] at this
            have e : k - 1 + 1 = k := by omega
            simpa [e] using this
        · intro hr
          obtain ⟨K, hK1, hK2, hn, ht, hall, hK, hlog⟩ := ih'.2 hr
          refine ⟨K + 1, by omega, by simp; omega, ?_, ?_, ?_, ?_, ?_⟩
          · rw [hn]; simp [hs2, hs1]; ring
          · rw [ht]; simp [hs2, hs1]; ring
          · intro k h1 h2
            rcases Nat.eq_or_lt_of_le h1 with e | e
            · subst e
              simpa [hs1, latchAt] using hstop
            · have := hall (k - 1) (by omega) (by omega)
              rw [hshift (k - 1) (by omega)] at this
              have e : k - 1 + 1 = k := by omega
              simpa [e] using this
          · have := hK
            rw [hshift K hK1] at this
            simpa using this
          · rw [hlog]
            have hmid : midLog dt te s.nsteps s.time (K + 1)
                = traceIf te s2 ++ midLog dt te s2.nsteps s2.time K := by
              have hs2n : s2.nsteps = s.nsteps + 1 := by simp [hs2, hs1]
              have hs2t : s2.time = s.time + dt := by simp [hs2, hs1]
              obtain ⟨K', rfl⟩ : ∃ K', K = K' + 1 := ⟨K - 1, by omega⟩
              rw [midLog, hs2n, hs2t]
              simp [traceIf, hs2n, hs2t]
            rw [hmid]
            simp only [List.append_assoc]
            congr 2
            have e1 : s2.nsteps + K = s.nsteps + (K + 1) := by simp [hs2, hs1]; ring
            have e2 : s2.time + K * dt = s.time + ((K + 1 : ℕ) : ℝ) * dt := by simp [hs2, hs1]; ring
            rw [e1, e2]

/-- **T2 + T3 for `simulate()`**: if no limit is met at the start, the run takes exactly `K ≥ 1` steps,
    `K` being the first step whose check fails — never earlier, never later — and the log is
    `[initial] ++ [every trace_every-th step before K] ++ [final]`, the final state exactly once. -/
theorem simulate_spec (L : Lim) (dt : ℝ) (te : ℕ) (restarting : Bool) (s0 : S) (x0 : List ℝ)
    (xs : List (List ℝ)) (h0 : stopPred L s0.forceQuit s0.nsteps s0.time s0.found x0 = false)
    (hrun : (simulate L dt te restarting s0 x0 xs).ranOut = false) :
    ∃ K, 1 ≤ K ∧ K ≤ xs.length ∧
      (simulate L dt te restarting s0 x0 xs).final.nsteps = s0.nsteps + K ∧
      (simulate L dt te restarting s0 x0 xs).final.time = s0.time + K * dt ∧
      (∀ k, 1 ≤ k → k < K →
        stopPred L s0.forceQuit (s0.nsteps + k) (s0.time + k * dt)
          (latchAt L (s0.found || interacting L.box x0) xs (k - 1)) (xs.getD (k - 1) []) = false) ∧
      stopPred L s0.forceQuit (s0.nsteps + K) (s0.time + K * dt)
          (latchAt L (s0.found || interacting L.box x0) xs (K - 1)) (xs.getD (K - 1) []) = true ∧
      (simulate L dt te restarting s0 x0 xs).log
        = (if restarting then [] else if s0.nsteps % te = 0 then [(s0.nsteps, s0.time)] else [])
          ++ midLog dt te s0.nsteps s0.time K ++ [(s0.nsteps + K, s0.time + K * dt)] := by
  have hfst : (continueSim L s0 x0).1 = true := by rw [continueSim_fst, h0]; rfl
  have hsnd := continueSim_snd L s0 x0 hfst
  unfold simulate at hrun ⊢
  cases hc : continueSim L s0 x0 with
  | mk c f =>
    rw [hc] at hfst hsnd hrun
    simp only at hfst hsnd hrun ⊢
    subst hfst
    simp only [if_true] at hrun ⊢
    have spec := (loopGo_spec L dt te xs { s0 with found := f }
      (if restarting then [] else traceIf te { s0 with found := f })).2 hrun
    obtain ⟨K, h1, h2, h3, h4, h5, h6, h7⟩ := spec
    refine ⟨K, h1, h2, h3, h4, ?_, ?_, ?_⟩
    · intro k hk1 hk2; simpa [hsnd] using h5 k hk1 hk2
    · simpa [hsnd] using h6
    · rw [h7]
      cases restarting <;> simp [traceIf]

/-- the indices of the in-loop log entries, strictly between `n0` and `n0 + K`, strictly increasing -/
theorem midLog_indices (dt : ℝ) (te K n0 : ℕ) (t0 : ℝ) :
    (midLog dt te n0 t0 K).map Prod.fst
      = ((List.range' 1 (K - 1)).filter (fun k => (n0 + k) % te = 0)).map (fun k => n0 + k) := by
  rw [midLog_eq, List.map_map]; rfl

/-- every in-loop entry carries the time `t0 + (index - n0)·dt` -/
theorem midLog_times (dt : ℝ) (te K n0 : ℕ) (t0 : ℝ) (e : ℕ × ℝ) (he : e ∈ midLog dt te n0 t0 K) :
    ∃ k, 1 ≤ k ∧ k < K ∧ e = (n0 + k, t0 + (k : ℝ) * dt) ∧ (n0 + k) % te = 0 := by
  rw [midLog_eq] at he
  obtain ⟨k, hk, rfl⟩ := List.mem_map.mp he
  rw [List.mem_filter, List.mem_range'_1] at hk
  exact ⟨k, hk.1.1, by omega, rfl, by simpa using hk.2⟩

/-- **T4.** the logged times are strictly increasing for `dt > 0`: entries are `t0 + k·dt` with strictly
    increasing `k` (initial `k = 0`, in-loop `0 < k < K` increasing, final `k = K`) -/
theorem times_strictly_increasing (dt : ℝ) (hdt : 0 < dt) (te K n0 : ℕ) (t0 : ℝ) (hK : 1 ≤ K) :
    ([(n0, t0)] ++ midLog dt te n0 t0 K ++ [(n0 + K, t0 + (K : ℝ) * dt)]).Pairwise (fun a b => a.2 < b.2) := by
  rw [midLog_eq]
  have hmid : ((List.range' 1 (K - 1)).filter (fun k => (n0 + k) % te = 0)).Pairwise (· < ·) :=
    (List.pairwise_lt_range' (s := 1) (n := K - 1) (step := 1)).filter _
  rw [List.pairwise_append, List.pairwise_append]
  refine ⟨⟨by simp, ?_, ?_⟩, by simp, ?_⟩
  · rw [List.pairwise_map]
    exact hmid.imp (fun {a b} hab => by
      have : (a : ℝ) < b := by exact_mod_cast hab
      nlinarith)
  · intro a ha b hb
    simp only [List.mem_singleton] at ha
    obtain ⟨k, hk, rfl⟩ := List.mem_map.mp hb
    rw [List.mem_filter, List.mem_range'_1] at hk
    subst ha
    have : (0 : ℝ) < k := by exact_mod_cast (by omega : 0 < k)
    simp only
    nlinarith
  · intro a ha b hb
    simp only [List.mem_singleton] at hb
    subst hb
    rcases List.mem_append.mp ha with h | h
    · simp only [List.mem_singleton] at h
      subst h
      have : (0 : ℝ) < K := by exact_mod_cast (by omega : 0 < K)
      simp only
      nlinarith
    · obtain ⟨k, hk, rfl⟩ := List.mem_map.mp h
      rw [List.mem_filter, List.mem_range'_1] at hk
      have : (k : ℝ) < K := by exact_mod_cast (by omega : k < K)
      simp only
      nlinarith

/-- **T6.** termination: with a step limit (`max_steps ≥ 0`) the run ends within `max_steps - n0` steps:
    a position stream of that length never runs out -/
theorem terminates_by_max_steps (L : Lim) (dt : ℝ) (te : ℕ) (restarting : Bool) (s0 : S) (x0 : List ℝ)
    (xs : List (List ℝ)) (hm : 0 ≤ L.maxSteps) (hlen : L.maxSteps ≤ (s0.nsteps + xs.length : ℕ)) :
    (simulate L dt te restarting s0 x0 xs).ranOut = false := by
  unfold simulate
  cases hc : continueSim L s0 x0 with
  | mk c f =>
    cases c with
    | false => simp
    | true =>
      simp only [if_true]
      by_contra hne
      have hr : (loopGo L dt te { s0 with found := f } xs
          (if restarting then [] else traceIf te { s0 with found := f })).ranOut = true := by
        cases h : (loopGo L dt te { s0 with found := f } xs
          (if restarting then [] else traceIf te { s0 with found := f })).ranOut <;> simp_all
      have hall := (loopGo_spec L dt te xs { s0 with found := f }
        (if restarting then [] else traceIf te { s0 with found := f })).1 hr
      -- the initial check passed, so n0 < max_steps; take k = max_steps - n0
      have hfst := continueSim_fst L s0 x0
      rw [hc] at hfst
      simp only at hfst
      have hs0 : stepsUp L.maxSteps s0.nsteps = false := by
        unfold stopPred at hfst
        cases h : stepsUp L.maxSteps s0.nsteps
        · rfl
        · rw [h] at hfst; simp at hfst
      have hlt : (s0.nsteps : ℤ) < L.maxSteps := by
        unfold stepsUp at hs0
        simp [hm] at hs0
        exact hs0
      obtain ⟨k, hk⟩ : ∃ k : ℕ, (k : ℤ) = L.maxSteps - s0.nsteps := ⟨(L.maxSteps - s0.nsteps).toNat, by omega⟩
      have hk1 : 1 ≤ k := by omega
      have hk2 : k ≤ xs.length := by
        have : L.maxSteps ≤ (s0.nsteps : ℤ) + xs.length := by exact_mod_cast hlen
        omega
      have := hall k hk1 hk2
      unfold stopPred at this
      have hsu : stepsUp L.maxSteps (s0.nsteps + k) = true := by
        unfold stepsUp
        simp [hm]
        omega
      simp [hsu] at this

/-- **T5 (snapshot self-consistency).** the logged kinetic energy `½ Σ m v²` equals `½ Σ p_i²/m_i` of the
    logged momentum `p = m v`; (`energy = kinetic + potential` is literally how `total_energy` is defined) -/
theorem kinetic_from_momentum {n : ℕ} (m v : Fin n → ℝ) (hm : ∀ i, m i ≠ 0) :
    kinetic m v = 1 / 2 * ∑ i, (m i * v i) ^ 2 / m i := by
  simp only [kinetic, vsum_eq_sum, frac_real]
  congr 1
  · push_cast; ring
  · apply Finset.sum_congr rfl
    intro i _
    have := hm i
    field_simp

/-- non-vacuity: the hypothesis of `simulate_spec` is met by a concrete start (max_steps 2, no box) -/
example : stopPred { maxSteps := 2, maxTime := 100, box := none } false 0 0 false [0] = false := by
  simp [stopPred, stepsUp, timeUp, interacting]; norm_num

/-- **the logging stride is bookkeeping** (C16/C17): the state a run ends in - step count, clock, box latch - and whether the
    position stream ran out do not depend on `trace_every` (nor on what was logged so far) -/
theorem loopGo_final_indep_te (L : Lim) (dt : ℝ) (te te' : ℕ) :
    ∀ (xs : List (List ℝ)) (s : S) (acc acc' : List (ℕ × ℝ)),
      (loopGo L dt te s xs acc).final = (loopGo L dt te' s xs acc').final ∧
      (loopGo L dt te s xs acc).ranOut = (loopGo L dt te' s xs acc').ranOut := by
  intro xs
  induction xs with
  | nil => intro s acc acc'; simp [loopGo]
  | cons x xs ih =>
    intro s acc acc'
    simp only [loopGo]
    split
    · exact ih _ _ _
    · simp

/-- ... and the LAST logged entry is that final state whatever the stride (the final snapshot is forced) -/
theorem loopGo_last_is_final (L : Lim) (dt : ℝ) (te : ℕ) :
    ∀ (xs : List (List ℝ)) (s : S) (acc : List (ℕ × ℝ)), (loopGo L dt te s xs acc).ranOut = false →
      (loopGo L dt te s xs acc).log.getLast? =
        some ((loopGo L dt te s xs acc).final.nsteps, (loopGo L dt te s xs acc).final.time) := by
  intro xs
  induction xs with
  | nil => intro s acc h; simp [loopGo] at h
  | cons x xs ih =>
    intro s acc h
    simp only [loopGo] at h ⊢
    split
    · rename_i hc
      simp only [hc, if_true] at h
      exact ih _ _ h
    · simp

theorem simulate_final_indep_te (L : Lim) (dt : ℝ) (te te' : ℕ) (r : Bool) (s0 : S) (x0 : List ℝ) (xs : List (List ℝ)) :
    (simulate L dt te r s0 x0 xs).final = (simulate L dt te' r s0 x0 xs).final := by
  simp only [simulate]
  split
  · exact (loopGo_final_indep_te L dt te te' xs _ _ _).1
  · rfl


end Mud.C16

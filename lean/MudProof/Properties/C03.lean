/-
  C03 — hop probabilities and target choice follow the fewest-switches rule.

  Subject: `Mud.flux`, `Mud.gRaw`, `Mud.gkndt`, `Mud.hopperGo/hopperFirst`, `Mud.hopProbs`
  (MudModel/Hopping.lean; models of `TrajectorySH.surface_hopping` / `hopper`), at `ℝ`, `Cx ℝ`,
  for every number of states `N`.

  * `flux_rate`          ρ̇_kk = -Σ_n b_kn for ρ̇ = -i[W,ρ], ρ and W Hermitian
  * `flux_self`, `flux_antisymm`
  * `gkndt_nonneg`, `gkndt_self`, `gkndt_eq_max`
  * `gRaw_sum`           Σ_n (unclipped) = -(ρ̇_kk/ρ_kk) dt
  * `hopperGo_spec`, `hopper_partition`, `hopper_none`, `hopper_zero_slot`
  * `poisson_total`, `poisson_total_series`, `poisson_ratios`
-/
import MudProof.RealInst
import MudProof.Properties.C20
import MudModel.Hopping
import Mathlib.Algebra.BigOperators.Fin
import Mathlib.Tactic

namespace Mud.C03
open Mud Finset

variable {N : ℕ}

/-- Hermitian in the state indices, for the model's complex pairs -/
def Herm (A : Fin N → Fin N → Cx ℝ) : Prop := ∀ i j, A j i = Cx.conj (A i j)

theorem herm_diag_im {A : Fin N → Fin N → Cx ℝ} (h : Herm A) (i : Fin N) : (A i i).im = 0 := by
  have := congrArg Cx.im (h i i)
  simp [Cx.conj] at this
  linarith

/-- `kk` element of `-i [W, ρ]`, real part, written out as a sum over the intermediate index -/
noncomputable def rhoDotDiag (rho W : Fin N → Fin N → Cx ℝ) (k : Fin N) : ℝ :=
  ∑ n, (Cx.mulNegI (W k n * rho n k - rho k n * W n k)).re

/-- **T1.** the diagonal of `ρ̇ = -i[W,ρ]` is minus the sum of the fluxes `b_kn = 2 Im(ρ_kn W_nk)` -/
theorem flux_rate (rho W : Fin N → Fin N → Cx ℝ) (hr : Herm rho) (hw : Herm W) (k : Fin N) :
    rhoDotDiag rho W k = -∑ n, flux rho W k n := by
  unfold rhoDotDiag flux
  rw [← Finset.sum_neg_distrib]
  apply Finset.sum_congr rfl
  intro n _
  have h1 := hr k n
  have h2 := hw n k
  simp only [Cx.mulNegI, Cx.sub_im, Cx.mul_im, lit_real]
  rw [h1, h2]
  simp only [Cx.conj]
  push_cast
  ring

/-- **T2a.** no flux to oneself -/
theorem flux_self (rho W : Fin N → Fin N → Cx ℝ) (hr : Herm rho) (hw : Herm W) (k : Fin N) :
    flux rho W k k = 0 := by
  unfold flux
  simp [Cx.mul_im, herm_diag_im hr k, herm_diag_im hw k]

/-- **T2b.** the flux is antisymmetric: `b_kn = -b_nk` -/
theorem flux_antisymm (rho W : Fin N → Fin N → Cx ℝ) (hr : Herm rho) (hw : Herm W) (k n : Fin N) :
    flux rho W k n = -flux rho W n k := by
  unfold flux
  have h1 := hr k n
  have h2 := hw k n
  simp only [Cx.mul_im, lit_real]
  rw [h1, h2]
  simp only [Cx.conj]
  push_cast
  ring

/-- **T3a.** hop probabilities are never negative -/
theorem gkndt_nonneg (rho W : Fin N → Fin N → Cx ℝ) (k : Fin N) (dt : ℝ) (n : Fin N) :
    0 ≤ gkndt rho W k dt n := by
  unfold gkndt
  by_cases h1 : n = k
  · simp [h1]
  · rw [if_neg h1]
    dsimp only
    split_ifs with h2
    · exact le_refl _
    · exact not_lt.mp h2

/-- **T3b.** zero for `n = k` -/
theorem gkndt_self (rho W : Fin N → Fin N → Cx ℝ) (k : Fin N) (dt : ℝ) :
    gkndt rho W k dt k = 0 := by
  simp [gkndt]

/-- **T3c.** for `n ≠ k` the probability is `max(0, b_kn dt / ρ_kk)` -/
theorem gkndt_eq_max (rho W : Fin N → Fin N → Cx ℝ) (k : Fin N) (dt : ℝ) (n : Fin N) (h : n ≠ k) :
    gkndt rho W k dt n = max 0 (flux rho W k n * dt / (rho k k).re) := by
  unfold gkndt gRaw
  rw [if_neg h]
  dsimp only
  split_ifs with h2
  · exact (max_eq_left h2.le).symm
  · exact (max_eq_right (not_lt.mp h2)).symm

/-- **T3d.** the unclipped values sum to the relative rate of loss of population `k` times `dt` -/
theorem gRaw_sum (rho W : Fin N → Fin N → Cx ℝ) (hr : Herm rho) (hw : Herm W) (k : Fin N)
    (dt : ℝ) :
    ∑ n, gRaw rho W k dt n = -(rhoDotDiag rho W k / (rho k k).re) * dt := by
  rw [flux_rate rho W hr hw k]
  unfold gRaw
  have : ∀ n, flux rho W k n * dt / (rho k k).re = flux rho W k n * (dt / (rho k k).re) := by
    intro n; ring
  simp_rw [this, ← Finset.sum_mul]
  ring

/-! ### the cumulative partition -/

/-- prefix sum `p_0 + … + p_{m-1}` -/
def pre (ps : List ℝ) (m : ℕ) : ℝ := (ps.take m).sum

theorem pre_succ_cons (p : ℝ) (ps : List ℝ) (m : ℕ) : pre (p :: ps) (m + 1) = p + pre ps m := by
  simp [pre]

/-- complete specification of the scan performed by `hopper` -/
theorem hopperGo_spec (ζ : ℝ) : ∀ (ps : List ℝ) (acc : ℝ) (i : ℕ),
    match hopperGo ζ ps acc i with
    | some (j, c) => ∃ m, m < ps.length ∧ j = i + m ∧ c = acc + pre ps (m + 1) ∧ ζ < c ∧
        ∀ m' < m, acc + pre ps (m' + 1) ≤ ζ
    | none => ∀ m < ps.length, acc + pre ps (m + 1) ≤ ζ := by
  intro ps
  induction ps with
  | nil => intro acc i; simp [hopperGo]
  | cons p ps ih =>
    intro acc i
    unfold hopperGo
    by_cases h : ζ < acc + p
    · simp only [h, if_true]
      exact ⟨0, by simp, by simp, by simp [pre], by simpa using h, by simp⟩
    · simp only [h, if_false]
      have := ih (acc + p) (i + 1)
      revert this
      cases hopperGo ζ ps (acc + p) (i + 1) with
      | none =>
        intro hn m hm
        cases m with
        | zero => simpa [pre] using not_lt.mp h
        | succ m =>
          rw [pre_succ_cons]
          have := hn m (by simpa using hm)
          linarith
      | some r =>
        obtain ⟨j, c⟩ := r
        rintro ⟨m, hm, hj, hc, hz, hall⟩
        refine ⟨m + 1, by simpa using hm, by omega, ?_, hz, ?_⟩
        · rw [pre_succ_cons, hc]; ring
        · intro m' hm'
          cases m' with
          | zero => simpa [pre] using not_lt.mp h
          | succ m' =>
            rw [pre_succ_cons]
            have := hall m' (by omega)
            linarith

theorem pre_mono {ps : List ℝ} (hp : ∀ p ∈ ps, 0 ≤ p) {a b : ℕ} (hab : a ≤ b) :
    pre ps a ≤ pre ps b := by
  induction ps generalizing a b with
  | nil => simp [pre]
  | cons p ps ih =>
    cases a with
    | zero =>
      simp only [pre, List.take_zero, List.sum_nil]
      apply List.sum_nonneg
      intro x hx
      exact hp x (List.mem_of_mem_take hx)
    | succ a =>
      cases b with
      | zero => omega
      | succ b =>
        rw [pre_succ_cons, pre_succ_cons]
        have := ih (fun q hq => hp q (List.mem_cons_of_mem _ hq)) (Nat.le_of_succ_le_succ hab)
        linarith

/-- **T4.** with non-negative probabilities and a threshold `ζ ≥ 0` (thresholds are drawn from `[0,1)`), a hop to `j` is attempted **iff** `ζ` lies in `j`'s slot
    `[cum(j-1), cum(j))` of the cumulative partition; the logged probability is `cum(j)`. -/
theorem hopper_partition (ζ : ℝ) (hζ : 0 ≤ ζ) (ps : List ℝ) (hp : ∀ p ∈ ps, 0 ≤ p) (j : ℕ) (c : ℝ) :
    hopperFirst ζ ps = some (j, c) ↔
      j < ps.length ∧ c = pre ps (j + 1) ∧ pre ps j ≤ ζ ∧ ζ < pre ps (j + 1) := by
  have spec := hopperGo_spec ζ ps 0 0
  unfold hopperFirst
  constructor
  · intro h
    rw [h] at spec
    obtain ⟨m, hm, hj, hc, hz, hall⟩ := spec
    have hjm : j = m := by omega
    subst hjm
    refine ⟨hm, by simpa using hc, ?_, by rw [hc] at hz; simpa using hz⟩
    cases j with
    | zero => simpa [pre] using hζ
    | succ j =>
      have := hall j (by omega)
      simpa using this
  · rintro ⟨hj, hc, hlo, hhi⟩
    revert spec
    cases hopperGo ζ ps 0 0 with
    | none =>
      intro hn
      have := hn j hj
      simp at this
      linarith
    | some r =>
      obtain ⟨j', c'⟩ := r
      rintro ⟨m, hm, hj', hc', hz, hall⟩
      have hjm : j' = m := by omega
      subst hjm
      simp only [zero_add] at hc' hz hall
      have : j' = j := by
        rcases lt_trichotomy j' j with h | h | h
        · -- j' < j: then pre (j'+1) ≤ pre j ≤ ζ, contradicting ζ < pre (j'+1)
          have := pre_mono hp (show j' + 1 ≤ j by omega)
          rw [hc'] at hz; linarith
        · exact h
        · have := hall j h
          linarith
      subst this
      simp [hc, hc']

/-- no hop **iff** `ζ` is not below any cumulative sum -/
theorem hopper_none (ζ : ℝ) (ps : List ℝ) :
    hopperFirst ζ ps = none ↔ ∀ m < ps.length, pre ps (m + 1) ≤ ζ := by
  have spec := hopperGo_spec ζ ps 0 0
  unfold hopperFirst
  constructor
  · intro h
    rw [h] at spec
    simpa using spec
  · intro hall
    revert spec
    cases hopperGo ζ ps 0 0 with
    | none => intro _; rfl
    | some r =>
      obtain ⟨j, c⟩ := r
      rintro ⟨m, hm, _, hc, hz, _⟩
      have := hall m hm
      simp only [zero_add] at hc
      rw [hc] at hz
      linarith

theorem pre_succ (ps : List ℝ) (j : ℕ) (hj : j < ps.length) :
    pre ps (j + 1) = pre ps j + ps[j] := by
  unfold pre
  rw [List.sum_take_succ ps j hj]

/-- the slot of `j` has length exactly `probs j` -/
theorem slot_length (ps : List ℝ) (j : ℕ) (hj : j < ps.length) :
    pre ps (j + 1) - pre ps j = ps[j] := by
  rw [pre_succ ps j hj]; ring

/-- zero-width slots are never chosen -/
theorem hopper_zero_slot (ζ : ℝ) (hζ : 0 ≤ ζ) (ps : List ℝ) (hp : ∀ p ∈ ps, 0 ≤ p) (j : ℕ)
    (hj : j < ps.length) (h0 : ps[j] = 0) (c : ℝ) : hopperFirst ζ ps ≠ some (j, c) := by
  intro h
  obtain ⟨_, _, hlo, hhi⟩ := (hopper_partition ζ hζ ps hp j c).mp h
  rw [pre_succ ps j hj, h0] at hhi
  linarith

/-! ### the Poisson option -/

theorem tully_probs (g : List ℝ) : hopProbs false g = g := by simp [hopProbs]

theorem poisson_probs_sum (g : List ℝ) :
    (hopProbs true g).sum = g.sum * poissonScale g.sum := by
  simp [hopProbs, List.sum_map_mul_right]

/-- **T5a.** with the Poisson option the total is `1 - exp(-G)` (closed-form branch) -/
theorem poisson_total (g : List ℝ) (hG : ¬ |g.sum| < 1 / 1000) :
    (hopProbs true g).sum = 1 - Real.exp (-g.sum) := by
  rw [poisson_probs_sum, C20.scale_large _ hG, C20.target]
  have : g.sum ≠ 0 := by
    intro h; rw [h] at hG; simp at hG
  field_simp

/-- **T5b.** below the switch the total is within `|G|⁶/600` (< 1.7e-21) of `1 - exp(-G)` -/
theorem poisson_total_series (g : List ℝ) (hG : |g.sum| < 1 / 1000) :
    |(hopProbs true g).sum - (1 - Real.exp (-g.sum))| ≤ |g.sum| ^ 6 / 600 := by
  rw [poisson_probs_sum, C20.scale_small _ hG]
  by_cases h0 : g.sum = 0
  · simp [h0]
  · have hc := C20.series_close g.sum h0 (by linarith)
    have e : g.sum * poissonSeries g.sum - (1 - Real.exp (-g.sum))
        = g.sum * (poissonSeries g.sum - C20.target g.sum) := by
      unfold C20.target; field_simp
    rw [e, abs_mul]
    calc |g.sum| * |poissonSeries g.sum - C20.target g.sum|
        ≤ |g.sum| * (|g.sum| ^ 5 / 600) := by
          apply mul_le_mul_of_nonneg_left hc (abs_nonneg _)
      _ = |g.sum| ^ 6 / 600 := by ring

/-- **T5c.** the branching ratios are unchanged (a common factor) -/
theorem poisson_ratios (g : List ℝ) (i j : ℕ) (hi : i < g.length) (hj : j < g.length) :
    (hopProbs true g)[i]'(by simpa [hopProbs] using hi) * g[j]
      = (hopProbs true g)[j]'(by simpa [hopProbs] using hj) * g[i] := by
  simp [hopProbs]; ring

/-- non-vacuity: a Hermitian pair with a non-zero flux, and a partition with an interior slot -/
example : hopperFirst (1 / 2 : ℝ) [1 / 4, 0, 1 / 2] = some (2, 0 + 1 / 4 + 0 + 1 / 2) := by
  simp [hopperFirst, hopperGo]; norm_num

end Mud.C03

/-
  C06 — adiabatic states keep a continuous sign; results depend only on position.

  Subject: `signFix`, `rotated`, `forceVec`, `forceMatrix`, `derivCoupling` (MudModel/Basis.lean) and the
  attribute/location model of `ElectronicModel_.update` (MudModel/Clone.lean style), at `ℝ`, any N, any dimension.

  * `sign_fix_overlap`        after the sign fix every column has non-negative overlap with the reference column
  * `sign_fix_is_flip`        the fix only multiplies columns by ±1 (it never mixes or rescales states)
  * `rotated_flip`            flipping columns by signs s multiplies (Cᵀ dV C)_pq by s_p s_q
  * `force_gauge_invariant`   forces do not depend on the signs
  * `coupling_gauge`, `coupling_abs_gauge_invariant`, `force_matrix_abs_gauge_invariant`
                              couplings / force-matrix entries change by the factor s_p s_q only: their magnitudes do not
                              depend on the signs — so, `eigh` being a function of V(x), energies, forces and coupling
                              magnitudes at a position depend on the position only, not on what was computed before
  * `track_chain`             the same along a whole path of any length (induction over the path): every tracked set has
                              non-negative overlaps with its predecessor
  * `track_is_flip`, `force_history_independent`, `coupling_history_independent`
                              two histories that reach the same position get the same forces, coupling magnitudes and
                              force-matrix magnitudes there, whatever paths and starting references they came by
  * `update_fresh_results`    `update` binds hamiltonian, force, coupling, force matrix and reference of the NEW object to
                              fresh locations: no location holding an earlier result is written by a later update
-/
import MudProof.RealInst
import MudModel.Basis
import MudModel.Clone
import Mathlib.Algebra.BigOperators.Fin
import Mathlib.Tactic

namespace Mud.C06
open Mud

variable {N n : ℕ}

theorem colOverlap_eq (A B : Tab ℝ N N) (mo : Fin N) : colOverlap A B mo = ∑ r, A.get r mo * B.get r mo := by
  simp [colOverlap, vsum_eq_sum]

theorem mmul_get (A B : Tab ℝ N N) (i j : Fin N) : (mmul A B).get i j = ∑ l, A.get i l * B.get l j := by
  simp [mmul, Tab.get_ofFn, vsum_eq_sum]

/-- **T1.** each newly computed state has non-negative overlap with the state it was continued from -/
theorem sign_fix_overlap (coeff ref : Tab ℝ N N) (mo : Fin N) : 0 ≤ colOverlap (signFix coeff ref) ref mo := by
  rw [colOverlap_eq]
  simp only [signFix, Tab.get_ofFn]
  by_cases h : colOverlap coeff ref mo < 0
  · simp only [h, if_true]
    have : ∑ r, coeff.get r mo * -1 * ref.get r mo = -colOverlap coeff ref mo := by
      rw [colOverlap_eq, ← Finset.sum_neg_distrib]
      apply Finset.sum_congr rfl; intro r _; ring
    rw [this]; linarith
  · simp only [h, if_false]
    rw [← colOverlap_eq]; exact not_lt.mp h

/-- the fix multiplies each column by a sign -/
theorem sign_fix_is_flip (coeff ref : Tab ℝ N N) :
    ∃ s : Fin N → ℝ, (∀ q, s q = 1 ∨ s q = -1) ∧ ∀ r q, (signFix coeff ref).get r q = coeff.get r q * s q := by
  refine ⟨fun q => if colOverlap coeff ref q < 0 then -1 else 1, ?_, ?_⟩
  · intro q; by_cases h : colOverlap coeff ref q < 0 <;> simp [h]
  · intro r q
    simp only [signFix, Tab.get_ofFn]
    by_cases h : colOverlap coeff ref q < 0 <;> simp [h]

/-- columns multiplied by signs -/
def flipCols (C : Tab ℝ N N) (s : Fin N → ℝ) : Tab ℝ N N := Tab.ofFn (fun r q => C.get r q * s q)

/-- **T2a.** `(C'ᵀ dV C')_pq = s_p s_q (Cᵀ dV C)_pq` for `C' = C·diag(s)` -/
theorem rotated_flip (dV : Fin n → Tab ℝ N N) (C : Tab ℝ N N) (s : Fin N → ℝ) (x : Fin n) (p q : Fin N) :
    (rotated dV (flipCols C s) x).get p q = s p * s q * (rotated dV C x).get p q := by
  simp only [rotated, mmul_get, mT, flipCols, Tab.get_ofFn]
  rw [Finset.mul_sum]
  apply Finset.sum_congr rfl
  intro l _
  rw [Finset.sum_mul, Finset.sum_mul, Finset.mul_sum]
  apply Finset.sum_congr rfl
  intro k _
  ring

/-- **T2b.** forces do not depend on the sign convention -/
theorem force_gauge_invariant (dV : Fin n → Tab ℝ N N) (C : Tab ℝ N N) (s : Fin N → ℝ)
    (hs : ∀ q, s q = 1 ∨ s q = -1) (i : Fin N) (x : Fin n) :
    forceVec dV (flipCols C s) i x = forceVec dV C i x := by
  unfold forceVec
  rw [rotated_flip]
  rcases hs i with h | h <;> rw [h] <;> ring

/-- **T2c.** the coupling changes by the factor `s_p s_q` only -/
theorem coupling_gauge (g : ℝ) (dV : Fin n → Tab ℝ N N) (C : Tab ℝ N N) (E : Fin N → ℝ) (s : Fin N → ℝ)
    (p q : Fin N) (x : Fin n) :
    derivCoupling g dV (flipCols C s) E p q x = s p * s q * derivCoupling g dV C E p q x := by
  unfold derivCoupling
  by_cases hpq : p = q
  · simp [hpq]
  · rw [if_neg hpq, if_neg hpq]
    by_cases hlt : p.val < q.val
    · rw [if_pos hlt, if_pos hlt, rotated_flip]; ring
    · rw [if_neg hlt, if_neg hlt, rotated_flip]; ring

theorem coupling_abs_gauge_invariant (g : ℝ) (dV : Fin n → Tab ℝ N N) (C : Tab ℝ N N) (E : Fin N → ℝ)
    (s : Fin N → ℝ) (hs : ∀ q, s q = 1 ∨ s q = -1) (p q : Fin N) (x : Fin n) :
    |derivCoupling g dV (flipCols C s) E p q x| = |derivCoupling g dV C E p q x| := by
  rw [coupling_gauge, abs_mul, abs_mul]
  have h1 : |s p| = 1 := by rcases hs p with h | h <;> rw [h] <;> simp
  have h2 : |s q| = 1 := by rcases hs q with h | h <;> rw [h] <;> simp
  rw [h1, h2]; ring

theorem force_matrix_abs_gauge_invariant (dV : Fin n → Tab ℝ N N) (C : Tab ℝ N N) (s : Fin N → ℝ)
    (hs : ∀ q, s q = 1 ∨ s q = -1) (p q : Fin N) (x : Fin n) :
    |forceMatrix dV (flipCols C s) p q x| = |forceMatrix dV C p q x| := by
  unfold forceMatrix
  rw [rotated_flip, abs_neg, abs_neg, abs_mul, abs_mul]
  have h1 : |s p| = 1 := by rcases hs p with h | h <;> rw [h] <;> simp
  have h2 : |s q| = 1 := by rcases hs q with h | h <;> rw [h] <;> simp
  rw [h1, h2]; ring

/-! ### along a whole path of positions -/

/-- the sign each column is multiplied by -/
noncomputable def signOf (coeff ref : Tab ℝ N N) (q : Fin N) : ℝ := if colOverlap coeff ref q < 0 then -1 else 1

theorem signOf_pm (coeff ref : Tab ℝ N N) (q : Fin N) : signOf coeff ref q = 1 ∨ signOf coeff ref q = -1 := by
  unfold signOf; by_cases h : colOverlap coeff ref q < 0 <;> simp [h]

theorem signFix_eq_flipCols (coeff ref : Tab ℝ N N) : signFix coeff ref = flipCols coeff (signOf coeff ref) := by
  unfold signFix flipCols signOf
  congr 1
  funext r q
  by_cases h : colOverlap coeff ref q < 0 <;> simp [h]

theorem track_length (ref0 : Tab ℝ N N) (fresh : List (Tab ℝ N N)) : (track ref0 fresh).length = fresh.length := by
  induction fresh generalizing ref0 with
  | nil => rfl
  | cons c cs ih => simp [track, ih]

/-- **T1, every path.** along any sequence of positions, of any length, every tracked set has non-negative overlap, state
    by state, with the set it was continued from -/
theorem track_chain (ref0 : Tab ℝ N N) (fresh : List (Tab ℝ N N)) :
    List.IsChain (fun a b => ∀ mo, 0 ≤ colOverlap b a mo) (ref0 :: track ref0 fresh) := by
  induction fresh generalizing ref0 with
  | nil => simp [track]
  | cons c cs ih =>
    simp only [track]
    exact List.IsChain.cons_cons (fun mo => sign_fix_overlap c ref0 mo) (ih (signFix c ref0))

/-- every tracked set is the fresh set of its own position with columns multiplied by ±1 — whatever came before -/
theorem track_is_flip (ref0 : Tab ℝ N N) (fresh : List (Tab ℝ N N)) (i : ℕ) (hi : i < fresh.length) :
    ∃ s : Fin N → ℝ, (∀ q, s q = 1 ∨ s q = -1) ∧
      (track ref0 fresh)[i]'(by rw [track_length]; exact hi) = flipCols fresh[i] s := by
  induction fresh generalizing ref0 i with
  | nil => simp at hi
  | cons c cs ih =>
    cases i with
    | zero => exact ⟨signOf c ref0, signOf_pm c ref0, by simp [track, signFix_eq_flipCols]⟩
    | succ i =>
      obtain ⟨s, hs, h⟩ := ih (signFix c ref0) i (by simpa using hi)
      exact ⟨s, hs, by simpa [track] using h⟩

/-- **T2, every history.** two trajectories (or one trajectory revisiting a point) that reach the same position — the same fresh
    `eigh` result — along different paths, from different starting references, get the same forces there -/
theorem force_history_independent (dV : Fin n → Tab ℝ N N) (ref0 ref0' : Tab ℝ N N) (fresh fresh' : List (Tab ℝ N N))
    (i j : ℕ) (hi : i < fresh.length) (hj : j < fresh'.length) (hsame : fresh[i] = fresh'[j]) (st : Fin N) (x : Fin n) :
    forceVec dV ((track ref0 fresh)[i]'(by rw [track_length]; exact hi)) st x
      = forceVec dV ((track ref0' fresh')[j]'(by rw [track_length]; exact hj)) st x := by
  obtain ⟨s, hs, h⟩ := track_is_flip ref0 fresh i hi
  obtain ⟨s', hs', h'⟩ := track_is_flip ref0' fresh' j hj
  rw [h, h', force_gauge_invariant dV _ s hs, force_gauge_invariant dV _ s' hs', hsame]

/-- … and the same coupling magnitudes and force-matrix magnitudes -/
theorem coupling_history_independent (g : ℝ) (dV : Fin n → Tab ℝ N N) (E : Fin N → ℝ) (ref0 ref0' : Tab ℝ N N)
    (fresh fresh' : List (Tab ℝ N N)) (i j : ℕ) (hi : i < fresh.length) (hj : j < fresh'.length)
    (hsame : fresh[i] = fresh'[j]) (p q : Fin N) (x : Fin n) :
    |derivCoupling g dV ((track ref0 fresh)[i]'(by rw [track_length]; exact hi)) E p q x|
      = |derivCoupling g dV ((track ref0' fresh')[j]'(by rw [track_length]; exact hj)) E p q x| ∧
    |forceMatrix dV ((track ref0 fresh)[i]'(by rw [track_length]; exact hi)) p q x|
      = |forceMatrix dV ((track ref0' fresh')[j]'(by rw [track_length]; exact hj)) p q x| := by
  obtain ⟨s, hs, h⟩ := track_is_flip ref0 fresh i hi
  obtain ⟨s', hs', h'⟩ := track_is_flip ref0' fresh' j hj
  rw [h, h', coupling_abs_gauge_invariant g dV _ E s hs, coupling_abs_gauge_invariant g dV _ E s' hs',
    force_matrix_abs_gauge_invariant dV _ s hs, force_matrix_abs_gauge_invariant dV _ s' hs', hsame]
  exact ⟨rfl, rfl⟩

/-- the sign of a coupling between two consecutive points of a path is the sign the fresh sets give it times the two
    column signs: it can flip only if exactly one of the two states changed sign — which `track_chain` excludes -/
theorem coupling_sign_follows_states (g : ℝ) (dV : Fin n → Tab ℝ N N) (E : Fin N → ℝ) (coeff ref : Tab ℝ N N)
    (p q : Fin N) (x : Fin n) :
    derivCoupling g dV (signFix coeff ref) E p q x
      = signOf coeff ref p * signOf coeff ref q * derivCoupling g dV coeff E p q x := by
  rw [signFix_eq_flipCols, coupling_gauge]

/-! ### `update` never writes into an earlier result -/

open Mud.Clone

/-- the attributes that `compute` rebinds to freshly allocated arrays -/
def resultFields : List String := ["_hamiltonian", "_force", "_derivative_coupling", "_force_matrix", "_reference"]

/-- `update` = `copy.copy(self)` (all attributes shared) followed by `compute`, which REBINDS every result attribute
    to a fresh array: this is `cloneObj` with everything shallow except the result fields -/
def updateObj (o : Obj) (fresh : Loc → Loc) : Obj :=
  ⟨o.fields.map (fun kl => if resultFields.contains kl.1 then (kl.1, fresh kl.2) else kl)⟩

/-- **T3.** the result attributes of the new object live at fresh locations: none of them is a location of the object
    it was derived from (or of any earlier result whose locations `fresh` avoids) -/
theorem update_fresh_results (o : Obj) (fresh : Loc → Loc) (old : List Loc) (hfresh : ∀ l, fresh l ∉ old)
    (k : String) (l : Loc) (hk : resultFields.contains k = true) (h : (k, l) ∈ (updateObj o fresh).fields) :
    l ∉ old := by
  simp only [updateObj, List.mem_map] at h
  obtain ⟨kl, _, heq⟩ := h
  by_cases hr : resultFields.contains kl.1 = true
  · rw [if_pos hr] at heq
    have : fresh kl.2 = l := by injection heq
    rw [← this]; exact hfresh kl.2
  · rw [if_neg hr] at heq
    have : kl.1 = k := by rw [heq]
    rw [this] at hr
    exact absurd hk hr

end Mud.C06

/-
  C19 — initial-condition generators deliver the requested ensembles.

  Subject: MudModel/Generators.lean at `ℝ`.  The standard-normal draws `z` are numpy's (external);
  everything the code does with them is proved:

  * `boltzmann_scaled_ke`   with scaling on, (½ Σ p_i²/m_i)/n = kT/2 **exactly**, any masses > 0, any T ≥ 0,
                            any draws with non-zero kinetic energy
  * `boltzmann_raw`         with scaling off, p_i = √(m_i kT)·z_i  (so variance m_i kT for unit-variance z_i)
  * `normal_deviations`     positions/momenta are centre + (σ/2)·z and centre + (1/σ)·z
  * `kskip_iff`             a sample is skipped iff some momentum component is negative
  * `spawn_length`, `spawn_keys_distinct`, `spawn_prefix_stable`, `spawn_fresh_after`
                            every yielded sample gets its own seed sequence; child i does not depend on
                            how many are requested; later spawns never repeat a key
-/
import MudProof.RealInst
import MudModel.Generators
import Mathlib.Algebra.BigOperators.Fin
import Mathlib.Tactic

namespace Mud.C19
open Mud Finset

variable {n : ℕ}

theorem boltzmann_raw (m z : Fin n → ℝ) (kt : ℝ) (i : Fin n) :
    boltzmannRaw m z kt i = Real.sqrt (kt * m i) * z i := by
  simp [boltzmannRaw]

theorem avgKE_eq (p m : Fin n → ℝ) : avgKE p m = 1 / 2 * (∑ i, p i * p i * (1 / m i)) / n := by
  simp [avgKE, vsum_eq_sum]

/-- **T1.** with scaling, the kinetic energy per degree of freedom is exactly `kT/2` -/
theorem boltzmann_scaled_ke (m z : Fin n → ℝ) (kt : ℝ) (hkt : 0 ≤ kt)
    (hke : 0 < avgKE (boltzmannRaw m z kt) m) :
    avgKE (boltzmannScaled m z kt) m = kt / 2 := by
  unfold boltzmannScaled
  simp only [frac_real, sqrt_real]
  set p := boltzmannRaw m z kt with hp
  set s := Real.sqrt ((1 : ℕ) / (2 : ℕ) * kt / avgKE p m) with hs
  have hs2 : s * s = (1 : ℕ) / (2 : ℕ) * kt / avgKE p m := by
    apply Real.mul_self_sqrt
    apply div_nonneg _ hke.le
    push_cast; linarith
  have : avgKE (fun i => p i * s) m = s * s * avgKE p m := by
    rw [avgKE_eq, avgKE_eq]
    have : ∀ i, p i * s * (p i * s) * (1 / m i) = s * s * (p i * p i * (1 / m i)) := by
      intro i; ring
    simp_rw [this, ← mul_sum]
    ring
  rw [this, hs2]
  push_cast
  field_simp

/-- **T4a.** the deviations handed to the generator are `σ/2` and `1/σ` -/
theorem normal_deviations (pos mom sigma zx zk : Fin n → ℝ) (i : Fin n) :
    (normalSample pos mom sigma zx zk).1 i = pos i + sigma i / 2 * zx i ∧
    (normalSample pos mom sigma zx zk).2 i = mom i + 1 / sigma i * zk i := by
  refine ⟨?_, ?_⟩
  · simp only [normalSample, frac_real]; push_cast; ring
  · simp only [normalSample]

/-- **T4b.** skipped iff some component is negative: no yielded momentum has a negative component -/
theorem kskip_iff (k : Fin n → ℝ) : kskip k = true ↔ ∃ i, k i < 0 := by
  simp [kskip, List.any_eq_true, List.mem_ofFn]

theorem not_kskip_nonneg (k : Fin n → ℝ) (h : kskip k = false) (i : Fin n) : 0 ≤ k i := by
  by_contra hneg
  have : kskip k = true := (kskip_iff k).mpr ⟨i, not_le.mp hneg⟩
  rw [h] at this
  exact absurd this (by simp)

/-! ### seed sequences -/

theorem spawn_length (s : SeedSeq) (k : ℕ) : (s.spawn k).1.length = k := by
  simp [SeedSeq.spawn]

theorem spawn_get (s : SeedSeq) (k i : ℕ) (hi : i < k) :
    ((s.spawn k).1[i]'(by simpa [SeedSeq.spawn] using hi)).spawnKey = s.spawnKey ++ [s.nSpawned + i] := by
  simp [SeedSeq.spawn]

/-- **T5a.** the children of one spawn have pairwise distinct keys -/
theorem spawn_keys_distinct (s : SeedSeq) (k i j : ℕ) (hi : i < k) (hj : j < k) (hij : i ≠ j) :
    ((s.spawn k).1[i]'(by simpa [SeedSeq.spawn] using hi)).spawnKey
      ≠ ((s.spawn k).1[j]'(by simpa [SeedSeq.spawn] using hj)).spawnKey := by
  rw [spawn_get s k i hi, spawn_get s k j hj]
  intro h
  have := List.append_cancel_left h
  simp at this
  omega

/-- **T5b.** child `i` does not depend on how many children are requested -/
theorem spawn_prefix_stable (s : SeedSeq) (k k' i : ℕ) (hi : i < k) (hi' : i < k') :
    (s.spawn k).1[i]'(by simpa [SeedSeq.spawn] using hi)
      = (s.spawn k').1[i]'(by simpa [SeedSeq.spawn] using hi') := by
  simp [SeedSeq.spawn]

/-- **T5c.** a later spawn from the advanced parent never repeats an earlier child's key
    (an even-sampling spawn gets a fresh key) -/
theorem spawn_fresh_after (s : SeedSeq) (k k' i j : ℕ) (hi : i < k) (hj : j < k') :
    ((s.spawn k).1[i]'(by simpa [SeedSeq.spawn] using hi)).spawnKey
      ≠ (((s.spawn k).2.spawn k').1[j]'(by simpa [SeedSeq.spawn] using hj)).spawnKey := by
  rw [spawn_get s k i hi, spawn_get (s.spawn k).2 k' j hj]
  simp only [SeedSeq.spawn]
  intro h
  have := List.append_cancel_left h
  simp at this
  omega

/-- non-vacuity of `boltzmann_scaled_ke`: one particle, unit draw -/
example : 0 < avgKE (boltzmannRaw (fun _ : Fin 1 => (2 : ℝ)) (fun _ => 1) 3) (fun _ => 2) := by
  simp only [avgKE_eq, boltzmannRaw]
  simp

end Mud.C19

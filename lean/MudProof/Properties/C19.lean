/-
  C19 — initial-condition generators deliver the requested ensembles.

  Subject: MudModel/Generators.lean at `ℝ`.  The standard-normal draws `z` are numpy's (external);
  everything the code does with them is proved:

  * `boltzmann_scaled_ke`   with scaling on, (½ Σ p_i²/m_i)/n = kT/2 **exactly**, any masses > 0, any T ≥ 0,
                            any draws with non-zero kinetic energy
  * `boltzmann_raw`         with scaling off, p_i = √(m_i kT)·z_i  (so variance m_i kT for unit-variance z_i)
  * `normal_deviations`     positions/momenta are centre + (σ/2)·z and centre + (1/σ)·z
  * `kskip_iff`             a sample is skipped iff some momentum component is negative
  * `spawn_length`, `spawn_keys_distinct`, `spawn_prefix_stable`, `spawn_fresh_after`
                            every yielded sample gets its own seed sequence; child i does not depend on
                            how many are requested; later spawns never repeat a key
-/
import MudProof.RealInst
import MudModel.Generators
import Mathlib.Algebra.BigOperators.Fin
import Mathlib.Tactic

namespace Mud.C19
open Mud Finset

variable {n : ℕ}

theorem boltzmann_raw (m z : Fin n → ℝ) (kt : ℝ) (i : Fin n) :
    boltzmannRaw m z kt i = Real.sqrt (kt * m i) * z i := by
  simp [boltzmannRaw]

theorem avgKE_eq (p m : Fin n → ℝ) : avgKE p m = 1 / 2 * (∑ i, p i * p i * (1 / m i)) / n := by
  simp [avgKE, vsum_eq_sum]

/-- **T1.** with scaling, the kinetic energy per degree of freedom is exactly `kT/2` -/
theorem boltzmann_scaled_ke (m z : Fin n → ℝ) (kt : ℝ) (hkt : 0 ≤ kt)
    (hke : 0 < avgKE (boltzmannRaw m z kt) m) :
    avgKE (boltzmannScaled m z kt) m = kt / 2 := by
  unfold boltzmannScaled
  simp only [frac_real, sqrt_real]
  set p := boltzmannRaw m z kt with hp
  set s := Real.sqrt ((1 : ℕ) / (2 : ℕ) * kt / avgKE p m) with hs
  have hs2 : s * s = (1 : ℕ) / (2 : ℕ) * kt / avgKE p m := by
    apply Real.mul_self_sqrt
    apply div_nonneg _ hke.le
    push_cast; linarith
  have : avgKE (fun i => p i * s) m = s * s * avgKE p m := by
    rw [avgKE_eq, avgKE_eq]
    have : ∀ i, p i * s * (p i * s) * (1 / m i) = s * s * (p i * p i * (1 / m i)) := by
      intro i; ring
    simp_rw [this, ← mul_sum]
    ring
  rw [this, hs2]
  push_cast
  field_simp

/-- **T4a.** the deviations handed to the generator are `σ/2` and `1/σ` -/
theorem normal_deviations (pos mom sigma zx zk : Fin n → ℝ) (i : Fin n) :
    (normalSample pos mom sigma zx zk).1 i = pos i + sigma i / 2 * zx i ∧
    (normalSample pos mom sigma zx zk).2 i = mom i + 1 / sigma i * zk i := by
  refine ⟨?_, ?_⟩
  · simp only [normalSample, frac_real]; push_cast; ring
  · simp only [normalSample]

/-- **T4b.** skipped iff some component is negative: no yielded momentum has a negative component -/
theorem kskip_iff (k : Fin n → ℝ) : kskip k = true ↔ ∃ i, k i < 0 := by
  simp [kskip, List.any_eq_true, List.mem_ofFn]

theorem not_kskip_nonneg (k : Fin n → ℝ) (h : kskip k = false) (i : Fin n) : 0 ≤ k i := by
  by_contra hneg
  have : kskip k = true := (kskip_iff k).mpr ⟨i, not_le.mp hneg⟩
  rw [h] at this
  exact absurd this (by simp)

/-! ### seed sequences -/

theorem spawn_length (s : SeedSeq) (k : ℕ) : (s.spawn k).1.length = k := by
  simp [SeedSeq.spawn]

theorem spawn_get (s : SeedSeq) (k i : ℕ) (hi : i < k) :
    ((s.spawn k).1[i]'(by simpa [SeedSeq.spawn] using hi)).spawnKey = s.spawnKey ++ [s.nSpawned + i] := by
  simp [SeedSeq.spawn]

/-- **T5a.** the children of one spawn have pairwise distinct keys -/
theorem spawn_keys_distinct (s : SeedSeq) (k i j : ℕ) (hi : i < k) (hj : j < k) (hij : i ≠ j) :
    ((s.spawn k).1[i]'(by simpa [SeedSeq.spawn] using hi)).spawnKey
      ≠ ((s.spawn k).1[j]'(by simpa [SeedSeq.spawn] using hj)).spawnKey := by
  rw [spawn_get s k i hi, spawn_get s k j hj]
  intro h
  have := List.append_cancel_left h
  simp at this
  omega

/-- **T5b.** child `i` does not depend on how many children are requested -/
theorem spawn_prefix_stable (s : SeedSeq) (k k' i : ℕ) (hi : i < k) (hi' : i < k') :
    (s.spawn k).1[i]'(by simpa [SeedSeq.spawn] using hi)
      = (s.spawn k').1[i]'(by simpa [SeedSeq.spawn] using hi') := by
  simp [SeedSeq.spawn]

/-- **T5c.** a later spawn from the advanced parent never repeats an earlier child's key
    (an even-sampling spawn gets a fresh key) -/
theorem spawn_fresh_after (s : SeedSeq) (k k' i j : ℕ) (hi : i < k) (hj : j < k') :
    ((s.spawn k).1[i]'(by simpa [SeedSeq.spawn] using hi)).spawnKey
      ≠ (((s.spawn k).2.spawn k').1[j]'(by simpa [SeedSeq.spawn] using hj)).spawnKey := by
  rw [spawn_get s k i hi, spawn_get (s.spawn k).2 k' j hj]
  simp only [SeedSeq.spawn]
  intro h
  have := List.append_cancel_left h
  simp at this
  omega

/-! ### the generator loops -/

theorem spawn_keys_eq (s : SeedSeq) (k : ℕ) :
    (s.spawn k).1.map (·.spawnKey) = (List.range k).map (fun i => s.spawnKey ++ [s.nSpawned + i]) := by
  simp [SeedSeq.spawn, Function.comp_def]

/-- **T5d.** the keys of one spawn are pairwise distinct, as a list -/
theorem spawn_keys_nodup (s : SeedSeq) (k : ℕ) : ((s.spawn k).1.map (·.spawnKey)).Nodup := by
  rw [spawn_keys_eq]
  apply List.Nodup.map _ List.nodup_range
  intro i j h
  have := List.append_cancel_left h
  simpa using this

/-- **T3a.** the constant generator yields exactly the requested number of initial conditions … -/
theorem constGen_length {β : Type} (ic : β) (s : SeedSeq) (k : ℕ) : (constGen ic s k).1.length = k := by
  simp [constGen, spawn_length]

/-- **T3b.** … all of them identical … -/
theorem constGen_identical {β : Type} (ic : β) (s : SeedSeq) (k : ℕ) (y : β × SeedSeq) (hy : y ∈ (constGen ic s k).1) :
    y.1 = ic := by
  simp only [constGen, List.mem_map] at hy
  obtain ⟨c, _, rfl⟩ := hy
  rfl

/-- **T3c.** … each with its own seed sequence -/
theorem constGen_seeds_nodup {β : Type} (ic : β) (s : SeedSeq) (k : ℕ) :
    ((constGen ic s k).1.map (·.2.spawnKey)).Nodup := by
  have : (constGen ic s k).1.map (·.2.spawnKey) = (s.spawn k).1.map (·.spawnKey) := by
    simp [constGen, Function.comp_def]
  rw [this]; exact spawn_keys_nodup s k

/-- **T4c.** the normal generator never yields more than requested -/
theorem normalGen_length_le (pos mom sigma : Fin n → ℝ) (draws : List ((Fin n → ℝ) × (Fin n → ℝ))) (s : SeedSeq) (k : ℕ) :
    (normalGen pos mom sigma draws s k).1.length ≤ k := by
  unfold normalGen
  refine le_trans (List.length_filterMap_le _ _) ?_
  simp [List.length_zip, spawn_length]

/-- **T4d.** every yielded sample is the sample of one of the draws, and none of its momentum components is negative -/
theorem normalGen_nonneg (pos mom sigma : Fin n → ℝ) (draws : List ((Fin n → ℝ) × (Fin n → ℝ))) (s : SeedSeq) (k : ℕ)
    (y : ((Fin n → ℝ) × (Fin n → ℝ)) × SeedSeq) (hy : y ∈ (normalGen pos mom sigma draws s k).1) :
    (∃ d ∈ draws, y.1 = normalSample pos mom sigma d.1 d.2) ∧ ∀ i, 0 ≤ y.1.2 i := by
  simp only [normalGen, List.mem_filterMap] at hy
  obtain ⟨dc, hdc, h⟩ := hy
  by_cases hk : kskip (normalSample pos mom sigma dc.1.1 dc.1.2).2 = true
  · simp [hk] at h
  · simp only [hk] at h
    have hk' : kskip (normalSample pos mom sigma dc.1.1 dc.1.2).2 = false := by simpa using hk
    simp only [Bool.false_eq_true, if_false, Option.some.injEq] at h
    subst h
    refine ⟨⟨dc.1, ?_, rfl⟩, fun i => not_kskip_nonneg _ hk' i⟩
    exact List.mem_of_mem_take (List.of_mem_zip hdc).1

/-- the seeds carried by the yielded samples are a sublist of the spawned children -/
theorem normalGen_seeds_sublist (pos mom sigma : Fin n → ℝ) (draws : List ((Fin n → ℝ) × (Fin n → ℝ))) (s : SeedSeq) (k : ℕ) :
    List.Sublist ((normalGen pos mom sigma draws s k).1.map (·.2)) (s.spawn k).1 := by
  unfold normalGen
  generalize (s.spawn k).1 = cs
  generalize draws.take k = ds
  induction ds generalizing cs with
  | nil => simp
  | cons d ds ih =>
    cases cs with
    | nil => simp
    | cons c cs =>
      simp only [List.zip_cons_cons, List.filterMap_cons]
      by_cases hk : kskip (normalSample pos mom sigma d.1 d.2).2 = true
      · simp only [hk, if_true]
        exact List.Sublist.cons _ (ih cs)
      · simp only [hk, Bool.false_eq_true, if_false, List.map_cons]
        exact List.Sublist.cons_cons _ (ih cs)

/-- **T4e.** every yielded sample carries its own distinct seed sequence (a skipped draw's seed is never handed to another sample) -/
theorem normalGen_seeds_nodup (pos mom sigma : Fin n → ℝ) (draws : List ((Fin n → ℝ) × (Fin n → ℝ))) (s : SeedSeq) (k : ℕ) :
    ((normalGen pos mom sigma draws s k).1.map (·.2.spawnKey)).Nodup := by
  have h := (normalGen_seeds_sublist pos mom sigma draws s k).map (·.spawnKey)
  rw [List.map_map] at h
  exact (spawn_keys_nodup s k).sublist h

/-- **T4f.** sample `i` does not depend on how many samples are requested: the samples for `k` requests are a prefix of
    those for `k' ≥ k` requests (same draws, same seeds) -/
theorem normalGen_prefix (pos mom sigma : Fin n → ℝ) (draws : List ((Fin n → ℝ) × (Fin n → ℝ))) (s : SeedSeq) (k k' : ℕ)
    (hk : k ≤ k') :
    (normalGen pos mom sigma draws s k).1 <+: (normalGen pos mom sigma draws s k').1 := by
  unfold normalGen
  apply List.IsPrefix.filterMap
  have hs : (s.spawn k).1 = (s.spawn k').1.take k := by
    simp only [SeedSeq.spawn]
    rw [← List.map_take, List.take_range, min_eq_left hk]
  have hd : draws.take k = (draws.take k').take k := by
    rw [List.take_take, min_eq_left hk]
  rw [hs, hd]
  have : ((draws.take k').take k).zip ((s.spawn k').1.take k) = (((draws.take k').zip (s.spawn k').1)).take k := by
    simp [List.zip, List.take_zipWith]
  rw [this]
  exact List.take_prefix _ _

/-- the Boltzmann generator yields one sample per request (given enough draws) … -/
theorem boltzmannGen_length (x m : Fin n → ℝ) (kt : ℝ) (scale : Bool) (draws : List (Fin n → ℝ)) (s : SeedSeq) (k : ℕ)
    (hd : k ≤ draws.length) : (boltzmannGen x m kt scale draws s k).1.length = k := by
  simp [boltzmannGen, List.length_zip, spawn_length, hd]

/-- **T1'.** … and every sample it yields with scaling on has kinetic energy exactly `kT/2` per degree of freedom -/
theorem boltzmannGen_ke (x m : Fin n → ℝ) (kt : ℝ) (hkt : 0 ≤ kt) (draws : List (Fin n → ℝ)) (s : SeedSeq) (k : ℕ)
    (hke : ∀ z ∈ draws, 0 < avgKE (boltzmannRaw m z kt) m)
    (y : ((Fin n → ℝ) × (Fin n → ℝ)) × SeedSeq) (hy : y ∈ (boltzmannGen x m kt true draws s k).1) :
    y.1.1 = x ∧ avgKE y.1.2 m = kt / 2 := by
  simp only [boltzmannGen, List.mem_map] at hy
  obtain ⟨dc, hdc, rfl⟩ := hy
  refine ⟨rfl, ?_⟩
  simp only [if_true]
  exact boltzmann_scaled_ke m dc.1 kt hkt (hke _ (List.mem_of_mem_take (List.of_mem_zip hdc).1))

theorem boltzmannGen_seeds_nodup (x m : Fin n → ℝ) (kt : ℝ) (scale : Bool) (draws : List (Fin n → ℝ)) (s : SeedSeq) (k : ℕ) :
    ((boltzmannGen x m kt scale draws s k).1.map (·.2.spawnKey)).Nodup := by
  have h : List.Sublist ((boltzmannGen x m kt scale draws s k).1.map (·.2)) (s.spawn k).1 := by
    simp only [boltzmannGen, List.map_map]
    have : ((fun y : ((Fin n → ℝ) × (Fin n → ℝ)) × SeedSeq => y.2) ∘ fun dc : (Fin n → ℝ) × SeedSeq =>
        ((x, if scale = true then boltzmannScaled m dc.1 kt else boltzmannRaw m dc.1 kt), dc.2)) = Prod.snd := by
      funext dc; rfl
    rw [this, ← List.unzip_snd]
    generalize (s.spawn k).1 = cs
    generalize draws.take k = ds
    induction ds generalizing cs with
    | nil => simp
    | cons d ds ih =>
      cases cs with
      | nil => simp
      | cons c cs => simpa using List.Sublist.cons_cons c (by simpa using ih cs)
  have h' := h.map (·.spawnKey)
  rw [List.map_map] at h'
  exact (spawn_keys_nodup s k).sublist h'

/-- non-vacuity: two requests, the second draw has a negative momentum and is skipped; the one sample yielded carries child 0 -/
example : ((normalGen (fun _ : Fin 1 => (0 : ℝ)) (fun _ => 1) (fun _ => 1)
    [(fun _ => 0, fun _ => 0), (fun _ => 0, fun _ => -2)] ⟨7, [], 0⟩ 2).1.map (·.2.spawnKey)) = [[0]] := by
  simp [normalGen, normalSample, kskip, SeedSeq.spawn, List.range_succ]

/-- non-vacuity of `boltzmann_scaled_ke`: one particle, unit draw -/
example : 0 < avgKE (boltzmannRaw (fun _ : Fin 1 => (2 : ℝ)) (fun _ => 1) 3) (fun _ => 2) := by
  simp only [avgKE_eq, boltzmannRaw]
  simp

end Mud.C19

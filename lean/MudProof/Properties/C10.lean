/-
  C10 — even-sampling conserves statistical weight over the whole spawned tree.

  Subject: MudModel/SpawnStack.lean at `ℝ`: any sample tree (any depth, sizes), any sequence of
  accumulated-probability values handed to `next_zeta` (several thresholds crossed in one call,
  exhausted stacks), any branching ratios, any Monte-Carlo multiplicity.

  * `marginal_eq`              marginal_weights[i] = 1 - Σ_{j<i} dw_j
  * `advance_ge`, `advance_le` `next_zeta` only moves forward, never past the end
  * `crossing_step`            one call: `last_dw` = Σ of the `dw` just passed; parent weight base·mw[izeta] (0 if exhausted)
  * `child_weights_sum`        the children of one crossing carry base·last_dw·Σ_t r_t (nspawn copies of r_t/nspawn each)
  * `child_weights_nonneg`
  * `crossed_total`            over any sequence of calls the crossed `dw` add up to Σ_{j<izeta} dw_j
  * `one_level_conservation`   parent's final weight + all children's start weights = base weight, provided the
                               ratios of each crossing sum to one and — only if the stack is exhausted — Σdw = 1;
                               `one_level_loss` gives the exact loss base·(1-Σdw) otherwise
  * `tree_conservation`        by induction over the spawned family: the weights of ALL trajectories produced from one
                               initial condition sum to the initial weight
  * `tensor_total`, `tensor_length`  (C18-T3) the flattened forest of per-level rules has Π n_l points and total weight
                               Π_l (Σ w_l) = 1 for rules that integrate 1 exactly on [0,1]
-/
import MudProof.RealInst
import MudModel.SpawnStack
import Mathlib.Algebra.BigOperators.Fin
import Mathlib.Algebra.BigOperators.Group.List.Basic
import Mathlib.Algebra.Order.BigOperators.Group.List
import Mathlib.Data.List.TakeWhile
import Mathlib.Tactic

namespace Mud.C10
open Mud Mud.Spawn

abbrev T := Spawn.Tree ℝ
abbrev St := Stack ℝ

theorem marginal_eq (d : List ℝ) (i : ℕ) : marginalWeight d i = 1 - (d.take i).sum := rfl

theorem advance_ge (z : List ℝ) (i : ℕ) (a : ℝ) : i ≤ advanceTo z i a := by
  unfold advanceTo; omega

theorem advance_le (z : List ℝ) (i : ℕ) (a : ℝ) (hi : i ≤ z.length) : advanceTo z i a ≤ z.length := by
  unfold advanceTo
  have h1 := (List.takeWhile_sublist (l := z.drop i) (fun x => decide (x < a))).length_le
  have h2 : (z.drop i).length = z.length - i := List.length_drop
  omega

/-- every threshold passed by `next_zeta(a)` is below `a` -/
theorem advance_passed (z : List ℝ) (i : ℕ) (a : ℝ) (j : ℕ) (h1 : i ≤ j) (h2 : j < advanceTo z i a)
    (hj : j < z.length) : z[j] < a := by
  unfold advanceTo at h2
  have hmem : (z.drop i)[j - i]'(by rw [List.length_drop]; omega) ∈ (z.drop i).takeWhile (fun x => decide (x < a)) := by
    have hlt : j - i < ((z.drop i).takeWhile (fun x => decide (x < a))).length := by omega
    have := List.getElem_mem hlt
    rwa [(List.takeWhile_prefix (l := z.drop i) (fun x => decide (x < a))).getElem hlt] at this
  have := List.mem_takeWhile_imp hmem
  simp only [decide_eq_true_eq] at this
  have e : (z.drop i)[j - i]'(by rw [List.length_drop]; omega) = z[j] := by
    rw [List.getElem_drop]; congr 1; omega
  rw [e] at this; exact this

/-- **T2.** one `next_zeta` call: `last_dw` is the sum of the `dw` of all thresholds just passed,
    the marginal weight is `1 - Σ_{j<izeta'} dw_j` (0 if the stack is exhausted) -/
theorem crossing_step (st : St) (a : ℝ) :
    let st' := st.nextZeta a
    st'.izeta = advanceTo (zetas st.samples) st.izeta a ∧ st'.base = st.base ∧ st'.samples = st.samples ∧
    (st'.izeta ≠ st.izeta →
      st'.lastDw = (((dws st.samples).drop st.izeta).take (st'.izeta - st.izeta)).sum ∧
      st'.lastIdx = some st.izeta) ∧
    (st'.izeta = st.izeta → st'.lastDw = st.lastDw ∧ st'.lastIdx = st.lastIdx) ∧
    (st'.izeta ≠ st.samples.length → st'.weight = st.base * (1 - ((dws st.samples).take st'.izeta).sum)) ∧
    (st'.izeta = st.samples.length → st'.weight = 0) := by
  simp only [Stack.nextZeta, Stack.weight, marginalWeight]
  refine ⟨trivial, trivial, trivial, ?_, ?_, ?_, ?_⟩
  · intro h; simp [h]
  · intro h; simp [h]
  · intro h; simp [h]
  · intro h; simp [h]

/-- **children of one crossing**: `nspawn` copies per target, each `base·last_dw·(r_t/nspawn)`:
    together `base·last_dw·Σ_t r_t` -/
theorem child_weights_sum (st : St) (r : List ℝ) (ns : ℕ) (hns : 1 ≤ ns) :
    (childWeights st r ns).sum = st.base * st.lastDw * r.sum := by
  unfold childWeights
  induction r with
  | nil => simp
  | cons x xs ih =>
    rw [List.flatMap_cons, List.sum_append, ih, List.sum_replicate, List.sum_cons]
    have : (ns : ℝ) ≠ 0 := by exact_mod_cast (by omega : ns ≠ 0)
    simp only [nsmul_eq_mul]
    field_simp

theorem child_weights_nonneg (st : St) (r : List ℝ) (ns : ℕ) (hb : 0 ≤ st.base) (hd : 0 ≤ st.lastDw)
    (hr : ∀ x ∈ r, 0 ≤ x) : ∀ w ∈ childWeights st r ns, 0 ≤ w := by
  intro w hw
  unfold childWeights at hw
  rw [List.mem_flatMap] at hw
  obtain ⟨x, hx, hw⟩ := hw
  rw [List.mem_replicate] at hw
  rw [hw.2]
  have := hr x hx
  have h1 : (0 : ℝ) ≤ 1 / (ns : ℝ) := by positivity
  positivity

/-! ### a whole life of one trajectory: any sequence of `next_zeta` calls -/

/-- apply a sequence of accumulated values; collect the `last_dw` of every call that crossed something -/
noncomputable def crossings : St → List ℝ → St × List ℝ
  | st, [] => (st, [])
  | st, a :: as =>
    let st' := st.nextZeta a
    let r := crossings st' as
    (r.1, if st'.izeta ≠ st.izeta then st'.lastDw :: r.2 else r.2)

theorem sum_take_drop (d : List ℝ) (i j : ℕ) (hij : i ≤ j) :
    (d.take i).sum + ((d.drop i).take (j - i)).sum = (d.take j).sum := by
  have : d.take j = d.take i ++ (d.drop i).take (j - i) := by
    rw [← List.take_append_drop i (d.take j)]
    congr 1
    · rw [List.take_take]; congr 1; omega
    · rw [List.drop_take]
  rw [this, List.sum_append]

/-- **accounting**: over any sequence of calls the crossed `dw` add up to what lies before the final `izeta` -/
theorem crossed_total : ∀ (as : List ℝ) (st : St),
    ((dws st.samples).take st.izeta).sum + (crossings st as).2.sum
      = ((dws st.samples).take (crossings st as).1.izeta).sum ∧
    (crossings st as).1.samples = st.samples ∧ (crossings st as).1.base = st.base ∧
    st.izeta ≤ (crossings st as).1.izeta := by
  intro as
  induction as with
  | nil => intro st; simp [crossings]
  | cons a as ih =>
    intro st
    obtain ⟨hi, hb, hs, hmoved, hsame, _, _⟩ := crossing_step st a
    have hge : st.izeta ≤ (st.nextZeta a).izeta := by rw [hi]; exact advance_ge _ _ _
    obtain ⟨h1, h2, h3, h4⟩ := ih (st.nextZeta a)
    simp only [crossings]
    refine ⟨?_, by rw [h2, hs], by rw [h3, hb], le_trans hge h4⟩
    rw [hs] at h1
    by_cases hm : (st.nextZeta a).izeta ≠ st.izeta
    · rw [if_pos hm, List.sum_cons, (hmoved hm).1, ← h1,
        ← sum_take_drop (dws st.samples) st.izeta (st.nextZeta a).izeta hge]
      ring
    · rw [if_neg hm, ← h1]
      have : (st.nextZeta a).izeta = st.izeta := by
        by_contra h; exact hm h
      rw [this]

/-- weight of a stack that has not crossed anything yet -/
theorem weight_after (st : St) (as : List ℝ) (hne : as ≠ []) :
    let fin := (crossings st as).1
    (fin.izeta ≠ st.samples.length → fin.weight = st.base * (1 - ((dws st.samples).take fin.izeta).sum)) ∧
    (fin.izeta = st.samples.length → fin.weight = 0) := by
  induction as generalizing st with
  | nil => exact absurd rfl hne
  | cons a as ih =>
    obtain ⟨_, hb, hs, _, _, hw1, hw0⟩ := crossing_step st a
    simp only [crossings]
    cases as with
    | nil =>
      simp only [crossings]
      exact ⟨hw1, hw0⟩
    | cons a2 as2 =>
      have := ih (st.nextZeta a) (by simp)
      simp only [hs, hb] at this
      exact this

/-- **T3. one-level conservation.** A trajectory with base weight `b` and a fresh stack goes through any
    sequence of `next_zeta` calls; at every crossing its children get `childWeights` for ratios summing to
    one.  If the stack is not exhausted at the end, the parent's final weight plus the start weights of all
    its children equals `b`. -/
theorem one_level_conservation (samples : List T) (b : ℝ) (as : List ℝ) (hne : as ≠ [])
    (hnot : (crossings (Stack.init samples b) as).1.izeta ≠ samples.length) :
    (crossings (Stack.init samples b) as).1.weight + b * (crossings (Stack.init samples b) as).2.sum = b := by
  obtain ⟨h1, _, _, _⟩ := crossed_total as (Stack.init samples b)
  obtain ⟨hw, _⟩ := weight_after (Stack.init samples b) as hne
  simp only [Stack.init] at h1 hw hnot ⊢
  rw [hw hnot]
  simp only [List.take_zero, List.sum_nil, zero_add] at h1
  rw [h1]; ring

/-- exhausted stack: the parent keeps nothing; the family holds `b·Σdw` — so weight is conserved exactly when the
    level's `dw` sum to one (which `from_quadrature` stacks do, by C18), and the loss is `b·(1-Σdw)` otherwise -/
theorem one_level_loss (samples : List T) (b : ℝ) (as : List ℝ) (hne : as ≠ [])
    (hex : (crossings (Stack.init samples b) as).1.izeta = samples.length) :
    (crossings (Stack.init samples b) as).1.weight + b * (crossings (Stack.init samples b) as).2.sum
      = b - b * (1 - (dws samples).sum) := by
  obtain ⟨h1, _, _, _⟩ := crossed_total as (Stack.init samples b)
  obtain ⟨_, hw⟩ := weight_after (Stack.init samples b) as hne
  simp only [Stack.init] at h1 hw hex ⊢
  rw [hw hex]
  simp only [List.take_zero, List.sum_nil, zero_add] at h1
  rw [h1, hex]
  have : (dws samples).length = samples.length := by simp [dws]
  rw [← this, List.take_length]; ring

/-! ### the whole spawned family -/

/-- sum of the final weights of every trajectory of a family -/
noncomputable def leafSum : Fam ℝ → ℝ
  | .node _ f kids => f + (kids.attach.map (fun k => leafSum k.1)).sum
termination_by t => sizeOf t
decreasing_by
  simp_wf
  have := List.sizeOf_lt_of_mem k.2
  omega

/-- a family in which every trajectory satisfies the one-level balance
    (its final weight + the start weights of its own children = its start weight) -/
inductive Balanced : Fam ℝ → Prop
  | mk (w f : ℝ) (kids : List (Fam ℝ)) (hone : f + (kids.map Fam.start).sum = w)
      (hk : ∀ k ∈ kids, Balanced k) : Balanced (.node w f kids)

/-- **T4. tree conservation.** If every trajectory of the spawned family satisfies the one-level balance
    (which `one_level_conservation` + `child_weights_sum` establish for the code's weights), then the final
    weights of ALL trajectories produced from one initial condition sum to the initial weight — for any
    depth, any spawn sizes, any crossing histories. -/
theorem tree_conservation (t : Fam ℝ) (h : Balanced t) : leafSum t = t.start := by
  induction h with
  | mk w f kids hone hk ih =>
    rw [leafSum]
    have h1 : kids.attach.map (fun k => leafSum k.1) = kids.attach.map (fun k => Fam.start k.1) :=
      List.map_congr_left (fun k _ => ih k.1 k.2)
    have h2 : kids.attach.map (fun k => Fam.start k.1) = kids.map Fam.start := by
      rw [show (fun k : { x // x ∈ kids } => Fam.start k.1) = Fam.start ∘ Subtype.val from rfl,
        ← List.map_map, List.attach_map_subtype_val]
    rw [h1, h2]; exact hone

/-! ### tensor structure of `from_quadrature` (C18-T3) -/

theorem tensor_length (rules : List (List (ℝ × ℝ))) :
    (tensor rules).length = (rules.map List.length).prod := by
  induction rules with
  | nil => simp [tensor]
  | cons L rest ih =>
    simp only [tensor, List.map_cons, List.prod_cons, List.length_flatMap, List.length_map, ih]
    rw [List.map_const', List.sum_replicate]; simp

theorem tensor_total (rules : List (List (ℝ × ℝ))) :
    ((tensor rules).map Prod.snd).sum = (rules.map (fun L => (L.map Prod.snd).sum)).prod := by
  induction rules with
  | nil => simp [tensor]
  | cons L rest ih =>
    simp only [tensor, List.map_cons, List.prod_cons]
    rw [← ih]
    induction L with
    | nil => simp
    | cons zw L ihL =>
      simp only [List.flatMap_cons, List.map_append, List.sum_append, List.map_map, List.map_cons,
        List.sum_cons, add_mul]
      rw [ihL]
      congr 1
      rw [← List.sum_map_mul_left]
      congr 1

/-- rules that each integrate 1 exactly on [0,1] (Σ w = 1, C18) give a forest of total weight one -/
theorem tensor_total_one (rules : List (List (ℝ × ℝ))) (h : ∀ L ∈ rules, (L.map Prod.snd).sum = 1) :
    ((tensor rules).map Prod.snd).sum = 1 := by
  rw [tensor_total]
  apply List.prod_eq_one
  intro x hx
  obtain ⟨L, hL, rfl⟩ := List.mem_map.mp hx
  exact h L hL

end Mud.C10

/-
  C20 — the Poisson probability scaling function is accurate over its whole domain.

  Subject: `Mud.poissonScale` / `Mud.poissonScaleC` (MudModel/Poisson.lean), the model of
  `mudslide.math.poisson_prob_scale`, instantiated at `ℝ` / `Cx ℝ`.

  Exact-arithmetic content of the property:
  * `scale_zero`            value at 0 is 1 (no division in the selected branch)
  * `scale_large`           outside the switch the function *is* (1 - e^{-x})/x
  * `series_close`          inside the switch the series is within |x|⁵/600 (< 1.7e-18) of it
  * `series_close_complex`  the same for complex arguments
  * `scale_strictAnti`      strictly decreasing on [0, ∞), across the switch as well
  * `scale_range`           values in (0, 1] for x ≥ 0
  * `pinned_not_monotone`   the four-term series of the originally pinned tree is NOT monotone
                            across the switch (the defect repaired by the fix: commit)
  Floating-point accuracy of `expm1` and of the polynomial evaluation is not a Lean theorem
  (DESIGN.md §7 C20: partial); it is covered by the correspondence + 50-digit oracle.
-/
import MudProof.RealInst
import MudModel.Poisson
import Mathlib.Analysis.Convex.Slope
import Mathlib.Analysis.Convex.SpecificFunctions.Basic
import Mathlib.Analysis.Complex.Exponential
import Mathlib.Tactic

namespace Mud.C20
open Mud Finset

/-- the function the code is meant to compute -/
noncomputable def target (x : ℝ) : ℝ := (1 - Real.exp (-x)) / x

theorem scale_zero : poissonScale (0 : ℝ) = 1 := by
  simp [poissonScale, poissonSmall, poissonSeries]

theorem scale_large (x : ℝ) (h : ¬ |x| < 1 / 1000) : poissonScale x = target x := by
  have : poissonSmall x = false := by simp [poissonSmall]; linarith [not_lt.mp h]
  simp [poissonScale, this, poissonClosed, target]

theorem scale_small (x : ℝ) (h : |x| < 1 / 1000) : poissonScale x = poissonSeries x := by
  have : poissonSmall x = true := by simp [poissonSmall]; linarith
  simp [poissonScale, this]

theorem series_eq (x : ℝ) :
    poissonSeries x = 1 - x / 2 + x ^ 2 / 6 - x ^ 3 / 24 + x ^ 4 / 120 := by
  simp [poissonSeries]; ring

/-- Taylor polynomial of `e^{-x}` with six terms -/
private theorem taylor6 (x : ℝ) :
    (∑ m ∈ range 6, (-x) ^ m / (m.factorial : ℝ))
      = 1 - x + x ^ 2 / 2 - x ^ 3 / 6 + x ^ 4 / 24 - x ^ 5 / 120 := by
  simp [Finset.sum_range_succ, Nat.factorial]; ring

/-- inside the unit disc (in particular below the switch) the five-term series is within
    `|x|⁵/600` of `(1 - e^{-x})/x` -/
theorem series_close (x : ℝ) (hx0 : x ≠ 0) (hx : |x| ≤ 1) :
    |poissonSeries x - target x| ≤ |x| ^ 5 / 600 := by
  have hb := Real.exp_bound (x := -x) (by simpa using hx) (n := 6) (by norm_num)
  rw [taylor6, abs_neg] at hb
  have hpos : 0 < |x| := abs_pos.mpr hx0
  have key : poissonSeries x - target x
      = (Real.exp (-x) - (1 - x + x ^ 2 / 2 - x ^ 3 / 6 + x ^ 4 / 24 - x ^ 5 / 120)) / x := by
    rw [series_eq, target]; field_simp; ring
  rw [key, abs_div, div_le_iff₀ hpos]
  calc _ ≤ |x| ^ 6 * ((Nat.succ 6 : ℝ) / ((Nat.factorial 6 : ℝ) * (6 : ℕ))) := hb
    _ = |x| ^ 5 * (7 / 4320) * |x| := by simp [Nat.factorial]; ring
    _ ≤ |x| ^ 5 / 600 * |x| := by
        have : 0 ≤ |x| ^ 5 := by positivity
        nlinarith

/-- below the switch the error is below 1.7e-18 -/
theorem series_close_switch (x : ℝ) (hx0 : x ≠ 0) (hx : |x| < 1 / 1000) :
    |poissonScale x - target x| ≤ 1 / (6 * 10 ^ 17) := by
  rw [scale_small x hx]
  refine (series_close x hx0 (by linarith)).trans ?_
  have h0 : 0 ≤ |x| := abs_nonneg x
  have : |x| ^ 5 ≤ (1 / 1000) ^ 5 := pow_le_pow_left₀ h0 hx.le 5
  calc |x| ^ 5 / 600 ≤ (1 / 1000) ^ 5 / 600 := by linarith
    _ = 1 / (6 * 10 ^ 17) := by norm_num

/-! ### monotonicity -/

/-- `(1 - e^{-x})/x` is strictly decreasing on `(0, ∞)` (secant slopes of the convex `exp`). -/
theorem target_strictAnti {x y : ℝ} (hx : 0 < x) (hxy : x < y) : target y < target x := by
  have h := strictConvexOn_exp.secant_strict_mono (a := 0) (x := -y) (y := -x)
    (Set.mem_univ _) (Set.mem_univ _) (Set.mem_univ _) (by linarith) (by linarith) (by linarith)
  simp only [Real.exp_zero, sub_zero] at h
  have e1 : target y = (Real.exp (-y) - 1) / -y := by
    unfold target; rw [div_neg, ← neg_div]; ring_nf
  have e2 : target x = (Real.exp (-x) - 1) / -x := by
    unfold target; rw [div_neg, ← neg_div]; ring_nf
  rw [e1, e2]; exact h

/-- on `[0, 1]` the five-term series is an upper bound of the target (eight-term Taylor bound) -/
theorem series_ge_target (x : ℝ) (hx : 0 < x) (hx1 : x ≤ 1) : target x ≤ poissonSeries x := by
  have hb := Real.exp_bound (x := -x) (by rw [abs_neg, abs_of_pos hx]; exact hx1) (n := 8)
    (by norm_num)
  have t8 : (∑ m ∈ range 8, (-x) ^ m / (m.factorial : ℝ))
      = 1 - x + x ^ 2 / 2 - x ^ 3 / 6 + x ^ 4 / 24 - x ^ 5 / 120 + x ^ 6 / 720 - x ^ 7 / 5040 := by
    simp [Finset.sum_range_succ, Nat.factorial]; ring
  rw [t8, abs_neg, abs_of_pos hx] at hb
  have hb' := (abs_le.mp hb).1
  have e : ((Nat.succ 8 : ℝ) / ((Nat.factorial 8 : ℝ) * (8 : ℕ))) = 9 / 322560 := by
    simp [Nat.factorial]; norm_num
  rw [e] at hb'
  rw [series_eq, target, div_le_iff₀ hx]
  have h6 : 0 ≤ x ^ 6 := by positivity
  have : x ^ 6 * (1 / 720 - x / 5040 - x ^ 2 * (9 / 322560)) ≥ 0 := by
    apply mul_nonneg h6
    nlinarith
  nlinarith

/-- the five-term series is strictly decreasing on `[0, 1]` -/
theorem series_strictAnti {x y : ℝ} (hx : 0 ≤ x) (hxy : x < y) (hy : y ≤ 1) :
    poissonSeries y < poissonSeries x := by
  rw [series_eq, series_eq]
  have hd : 0 < y - x := by linarith
  have key : (1 - x / 2 + x ^ 2 / 6 - x ^ 3 / 24 + x ^ 4 / 120)
      - (1 - y / 2 + y ^ 2 / 6 - y ^ 3 / 24 + y ^ 4 / 120)
      = (y - x) * (1 / 2 - (x + y) / 6 + (x ^ 2 + x * y + y ^ 2) / 24
          - (x ^ 3 + x ^ 2 * y + x * y ^ 2 + y ^ 3) / 120) := by ring
  have hy0 : 0 ≤ y := by linarith
  have b1 : x + y ≤ 2 := by linarith
  have b2 : x ^ 3 + x ^ 2 * y + x * y ^ 2 + y ^ 3 ≤ 4 := by
    have hx1 : x ≤ 1 := by linarith
    have h1 : x ^ 3 ≤ 1 := pow_le_one₀ hx hx1
    have h2 : y ^ 3 ≤ 1 := pow_le_one₀ hy0 hy
    have h3 : x ^ 2 * y ≤ 1 := by
      have := mul_le_one₀ (pow_le_one₀ hx hx1 (n := 2)) hy0 hy; linarith
    have h4 : x * y ^ 2 ≤ 1 := by
      have := mul_le_one₀ hx1 (by positivity) (pow_le_one₀ hy0 hy (n := 2)); linarith
    linarith
  have b3 : 0 ≤ x ^ 2 + x * y + y ^ 2 := by positivity
  have pos : 0 < 1 / 2 - (x + y) / 6 + (x ^ 2 + x * y + y ^ 2) / 24
      - (x ^ 3 + x ^ 2 * y + x * y ^ 2 + y ^ 3) / 120 := by linarith
  have := mul_pos hd pos
  linarith

/-- **C20, monotone part.** `poisson_prob_scale` is strictly decreasing on `[0, ∞)`,
    including across the series / closed-form switch. -/
theorem scale_strictAnti {x y : ℝ} (hx : 0 ≤ x) (hxy : x < y) :
    poissonScale y < poissonScale x := by
  have hy : 0 < y := by linarith
  by_cases hsy : |y| < 1 / 1000
  · -- both in the series region
    have hsx : |x| < 1 / 1000 := by
      rw [abs_of_nonneg hx]; rw [abs_of_pos hy] at hsy; linarith
    rw [scale_small y hsy, scale_small x hsx]
    rw [abs_of_pos hy] at hsy
    exact series_strictAnti hx hxy (by linarith)
  · rw [scale_large y hsy]
    by_cases hsx : |x| < 1 / 1000
    · -- across the switch
      rw [scale_small x hsx]
      rw [abs_of_nonneg hx] at hsx
      rcases hx.eq_or_lt with h0 | h0
      · -- x = 0 : series = 1 > target y
        subst h0
        have : poissonSeries (0 : ℝ) = 1 := by simp [poissonSeries]
        rw [this]
        unfold target
        rw [div_lt_one hy]
        have := Real.add_one_lt_exp (x := -y) (by linarith)
        linarith
      · calc target y < target x := target_strictAnti h0 hxy
          _ ≤ poissonSeries x := series_ge_target x h0 (by linarith)
    · rw [scale_large x hsx]
      have h0 : 0 < x := by
        rcases hx.eq_or_lt with h0 | h0
        · subst h0; simp at hsx
        · exact h0
      exact target_strictAnti h0 hxy

/-- **C20, range part.** for real `x ≥ 0` the value lies in `(0, 1]`. -/
theorem scale_range (x : ℝ) (hx : 0 ≤ x) : 0 < poissonScale x ∧ poissonScale x ≤ 1 := by
  constructor
  · by_cases hs : |x| < 1 / 1000
    · rw [scale_small x hs, series_eq]
      rw [abs_of_nonneg hx] at hs
      have : 0 ≤ x ^ 2 := by positivity
      have : 0 ≤ x ^ 4 := by positivity
      have : x ^ 3 ≤ 1 := pow_le_one₀ hx (by linarith)
      linarith
    · rw [scale_large x hs]
      have h0 : 0 < x := by
        rcases hx.eq_or_lt with h0 | h0
        · subst h0; simp at hs
        · exact h0
      unfold target
      apply div_pos _ h0
      have : Real.exp (-x) < 1 := by
        rw [Real.exp_lt_one_iff]; linarith
      linarith
  · rcases hx.eq_or_lt with h0 | h0
    · subst h0; rw [scale_zero]
    · have := scale_strictAnti (le_refl (0 : ℝ)) h0
      rw [scale_zero] at this
      exact this.le

/-- non-vacuity: the hypotheses are met on both sides of the switch -/
example : (0 : ℝ) ≤ 1 / 2000 ∧ (1 / 2000 : ℝ) < 1 / 500 ∧ |(1 / 2000 : ℝ)| < 1 / 1000
    ∧ ¬ |(1 / 500 : ℝ)| < 1 / 1000 := by
  refine ⟨by norm_num, by norm_num, ?_, ?_⟩ <;> rw [abs_of_pos] <;> norm_num

/-! ### the originally pinned four-term series is not monotone across the switch -/

theorem pinned_small (x : ℝ) (h : |x| < 1 / 1000) : poissonScalePinned x = poissonSeries4 x := by
  have : poissonSmall x = true := by simp [poissonSmall]; linarith
  simp [poissonScalePinned, this]

theorem pinned_large (x : ℝ) (h : ¬ |x| < 1 / 1000) : poissonScalePinned x = target x := by
  have : poissonSmall x = false := by simp [poissonSmall]; linarith [not_lt.mp h]
  simp [poissonScalePinned, this, poissonClosed, target]

/-- **Counterexample for the pinned tree**: with the four-term series the function *increases*
    from `x = 1e-3 - 1e-15` to `y = 1e-3`. -/
theorem pinned_not_monotone :
    ∃ x y : ℝ, 0 ≤ x ∧ x < y ∧ poissonScalePinned x < poissonScalePinned y := by
  refine ⟨1 / 1000 - 1 / 10 ^ 15, 1 / 1000, by norm_num, by norm_num, ?_⟩
  have hx : |(1 / 1000 - 1 / 10 ^ 15 : ℝ)| < 1 / 1000 := by
    rw [abs_of_pos] <;> norm_num
  have hy : ¬ |(1 / 1000 : ℝ)| < 1 / 1000 := by
    rw [abs_of_pos] <;> norm_num
  rw [pinned_small _ hx, pinned_large _ hy]
  -- target y ≥ series5 y - y^5/600
  have hc := series_close (1 / 1000) (by norm_num) (by rw [abs_of_pos] <;> norm_num)
  have hc' := (abs_le.mp hc).2
  rw [abs_of_pos (by norm_num : (0 : ℝ) < 1 / 1000), series_eq] at hc'
  have : poissonSeries4 (1 / 1000 - 1 / 10 ^ 15 : ℝ)
      < (1 - (1 / 1000 : ℝ) / 2 + (1 / 1000) ^ 2 / 6 - (1 / 1000) ^ 3 / 24 + (1 / 1000) ^ 4 / 120)
        - (1 / 1000) ^ 5 / 600 := by
    simp only [poissonSeries4, lit_real]; norm_num
  linarith

/-! ### complex argument -/

/-- the model's complex pair as a Mathlib complex number -/
def toC (z : Cx ℝ) : ℂ := ⟨z.re, z.im⟩

noncomputable def targetC (z : ℂ) : ℂ := (1 - Complex.exp (-z)) / z

theorem seriesC_eq (z : Cx ℝ) :
    toC (poissonSeriesC z)
      = 1 - toC z / 2 + (toC z) ^ 2 / 6 - (toC z) ^ 3 / 24 + (toC z) ^ 4 / 120 := by
  apply Complex.ext <;>
  · simp [poissonSeriesC, toC, Cx.divR, pow_succ]

/-- complex version of `series_close` -/
theorem series_close_complex (z : Cx ℝ) (hz0 : toC z ≠ 0) (hz : ‖toC z‖ ≤ 1) :
    ‖toC (poissonSeriesC z) - targetC (toC z)‖ ≤ ‖toC z‖ ^ 5 / 600 := by
  set w := toC z with hw
  have hb := Complex.exp_bound (x := -w) (by simpa using hz) (n := 6) (by norm_num)
  have t6 : (∑ m ∈ range 6, (-w) ^ m / (m.factorial : ℂ))
      = 1 - w + w ^ 2 / 2 - w ^ 3 / 6 + w ^ 4 / 24 - w ^ 5 / 120 := by
    simp [Finset.sum_range_succ, Nat.factorial]; ring
  rw [t6, norm_neg] at hb
  have hpos : 0 < ‖w‖ := norm_pos_iff.mpr hz0
  have key : toC (poissonSeriesC z) - targetC w
      = (Complex.exp (-w) - (1 - w + w ^ 2 / 2 - w ^ 3 / 6 + w ^ 4 / 24 - w ^ 5 / 120)) / w := by
    rw [seriesC_eq, targetC]; field_simp; ring
  rw [key, norm_div, div_le_iff₀ hpos]
  calc _ ≤ ‖w‖ ^ 6 * ((Nat.succ 6 : ℝ) * ((Nat.factorial 6 : ℝ) * (6 : ℕ))⁻¹) := hb
    _ = ‖w‖ ^ 5 * (7 / 4320) * ‖w‖ := by simp [Nat.factorial]; ring
    _ ≤ ‖w‖ ^ 5 / 600 * ‖w‖ := by
        have : 0 ≤ ‖w‖ ^ 5 := by positivity
        nlinarith

/-- the complex switch is `‖z‖ < 1e-3` -/
theorem smallC_iff (z : Cx ℝ) : poissonSmallC z = true ↔ ‖toC z‖ < 1 / 1000 := by
  simp only [poissonSmallC, decide_eq_true_eq, sqrt_real, frac_real, Nat.cast_one]
  have : ‖toC z‖ = Real.sqrt (Cx.normSq z) := by
    rw [Complex.norm_def]
    simp [toC, Complex.normSq, Cx.normSq]
  rw [this]; norm_num

/-- outside the switch the complex function is the closed form with
    `expm1 z = e^{re} cos im - 1 + i e^{re} sin im` -/
theorem closedC_eq (z : Cx ℝ) (hz : toC z ≠ 0) :
    toC (poissonClosedC z) = targetC (toC z) := by
  have hexp : toC (Cx.expm1 (-z)) = Complex.exp (-toC z) - 1 := by
    apply Complex.ext
    · simp only [toC, Cx.expm1, Cx.neg_re, Cx.neg_im, expm1_real, cos_real, sin_real, lit_real,
        Complex.sub_re, Complex.one_re, Complex.exp_re, Complex.neg_re, Complex.neg_im]
      have h := Real.cos_two_mul (-z.im / 2)
      rw [show 2 * (-z.im / 2) = -z.im by ring] at h
      have h2 := Real.sin_sq_add_cos_sq (-z.im / 2)
      have : Real.cos (-z.im) = 1 - 2 * Real.sin (-z.im / 2) ^ 2 := by nlinarith
      push_cast
      rw [this]; ring
    · simp [toC, Cx.expm1, Complex.exp_im]
  have hne : z.re * z.re + z.im * z.im ≠ 0 := by
    intro h
    apply hz
    have h1 : z.re = 0 := by nlinarith [mul_self_nonneg z.re, mul_self_nonneg z.im]
    have h2 : z.im = 0 := by nlinarith [mul_self_nonneg z.re, mul_self_nonneg z.im]
    simp [toC, h1, h2]; rfl
  have hdiv : ∀ a b : Cx ℝ, b.re * b.re + b.im * b.im ≠ 0 → toC (Cx.div a b) = toC a / toC b := by
    intro a b hb
    apply Complex.ext
    · simp [toC, Cx.div, Complex.div_re, Complex.normSq]; field_simp
    · simp [toC, Cx.div, Complex.div_im, Complex.normSq]; field_simp
  have hneg : ∀ a : Cx ℝ, toC (-a) = -toC a := by
    intro a; apply Complex.ext <;> simp [toC]
  unfold poissonClosedC targetC
  rw [hdiv _ _ hne, hneg, hexp]; ring

end Mud.C20

/-
  C05 — every built-in model returns mutually consistent energies, forces and couplings.

  Part A (any model, any N, any dimension): algebra of `MudModel/Basis.lean`, and first-order perturbation theory
  * `coupling_zero_diag`, `coupling_antisymm`   the derivative coupling has zero diagonal and is antisymmetric
  * `force_is_diag_force_matrix`               force on state i = diagonal of the force matrix = -(Cᵀ dV C)_ii
  * `force_matrix_eq_gap_times_coupling`        off-diagonal force matrix = (E_i - E_j) d_ij  (gap above the guard)
  * `pinned_adiabatic_diag`                     the originally pinned AdiabaticModel_ kept <j|dV|j> on the diagonal
  * `hellmann_feynman`, `coupling_is_overlap_derivative`
        if C(x) stays orthonormal and diagonalises V(x) to first order, then dE_i = (Cᵀ V' C)_ii  (so the force is minus
        the gradient of the state energy) and <φ_i|φ_j'> = (Cᵀ V' C)_ij / (E_j - E_i)  (so the coupling is the overlap derivative)
  * `diabatic_representation`                   diabatic: zero coupling
  Part B (per model, every constructor parameter): each entry of the hand-written dV is the derivative of the same entry
  of V (`HasDerivAt`), away from the documented kinks: simple (x ≠ 0), dual, extended (x ≠ 0), super, model X, model S.
  Models W and Z: `modelw_spec_deriv` / `modelz_spec_deriv` (what dV must be) and `modelw_pinned_wrong` /
  `modelz_pinned_wrong` (what the pinned dV returns is not the derivative) — KNOWN FINDINGS, the suite pins them.
  Part C: the harmonic model's force is minus the gradient of its energy iff used with a symmetric Hessian.
  Shin–Metiu, the vibronic model and Subotnik2D: finite-difference oracle only (stated in DESIGN.md).
-/
import MudProof.RealInst
import MudModel.Basis
import MudModel.Models
import Mathlib.Analysis.SpecialFunctions.ExpDeriv
import Mathlib.Analysis.SpecialFunctions.Trigonometric.DerivHyp
import Mathlib.LinearAlgebra.Matrix.Symmetric
import Mathlib.Analysis.SpecialFunctions.Trigonometric.Deriv
import Mathlib.Tactic

namespace Mud.C05
open Mud

variable {N n : ℕ}

/-! ## Part A -/

theorem coupling_zero_diag (g : ℝ) (dV : Fin n → Tab ℝ N N) (C : Tab ℝ N N) (E : Fin N → ℝ) (p : Fin N) (x : Fin n) :
    derivCoupling g dV C E p p x = 0 := by simp [derivCoupling]

/-- symmetric `Cᵀ dV C` (i.e. symmetric `dV`) ⇒ antisymmetric coupling -/
theorem coupling_antisymm (g : ℝ) (dV : Fin n → Tab ℝ N N) (C : Tab ℝ N N) (E : Fin N → ℝ) (p q : Fin N) (x : Fin n)
    (hsym : (rotated dV C x).get p q = (rotated dV C x).get q p) :
    derivCoupling g dV C E p q x = -derivCoupling g dV C E q p x := by
  unfold derivCoupling
  by_cases hpq : p = q
  · subst hpq; simp
  · have hqp : ¬ q = p := fun h => hpq h.symm
    rw [if_neg hpq, if_neg hqp]
    by_cases hlt : p.val < q.val
    · have hnlt : ¬ q.val < p.val := by omega
      rw [if_pos hlt, if_neg hnlt, hsym]
      rw [div_neg, neg_neg]
    · have hlt' : q.val < p.val := by
        have : p.val ≠ q.val := fun h => hpq (Fin.ext h)
        omega
      rw [if_neg hlt, if_pos hlt', hsym, div_neg]

theorem force_is_diag_force_matrix (dV : Fin n → Tab ℝ N N) (C : Tab ℝ N N) (i : Fin N) (x : Fin n) :
    forceVec dV C i x = forceMatrix dV C i i x := rfl

/-- off-diagonal force matrix `= (E_i - E_j) d_ij` whenever the gap is not below the (positive) guard -/
theorem force_matrix_eq_gap_times_coupling (g : ℝ) (hg : 0 < g) (dV : Fin n → Tab ℝ N N) (C : Tab ℝ N N)
    (E : Fin N → ℝ) (p q : Fin N) (x : Fin n) (hpq : p ≠ q) (hgap : g ≤ |E q - E p|) :
    forceMatrix dV C p q x = (E p - E q) * derivCoupling g dV C E p q x := by
  have hne : E q - E p ≠ 0 := by
    intro h; rw [h] at hgap; simp at hgap; linarith
  have hne' : E p - E q ≠ 0 := by
    intro h; apply hne; linarith
  unfold forceMatrix derivCoupling guardedGap
  rw [if_neg hpq]
  by_cases hlt : p.val < q.val
  · rw [if_pos hlt]
    simp only [abs_real]
    rw [if_neg (not_lt.mpr hgap)]
    field_simp
    ring
  · rw [if_neg hlt]
    simp only [abs_real]
    have hgap' : g ≤ |E p - E q| := by rw [abs_sub_comm]; exact hgap
    rw [if_neg (not_lt.mpr hgap')]
    field_simp

/-- the originally pinned `AdiabaticModel_` left `<j|dV|j>` on the diagonal of the coupling tensor -/
theorem pinned_adiabatic_diag (g : ℝ) (dV : Fin n → Tab ℝ N N) (C : Tab ℝ N N) (E : Fin N → ℝ) (p : Fin N) (x : Fin n) :
    derivCouplingPinnedAdiabatic g dV C E p p x = (rotated dV C x).get p p := by
  simp [derivCouplingPinnedAdiabatic]

/-! ### first-order perturbation theory (Hellmann–Feynman and the overlap derivative) -/

section perturbation
open Matrix
variable (C C' V V' : Matrix (Fin N) (Fin N) ℝ) (E E' : Fin N → ℝ)

/-- the first-order diagonalisation condition, entry by entry:
    `A_ij (E_i - E_j) + G_ij = δ_ij E'_i` with `A = Cᵀ C'` (overlap derivative) and `G = Cᵀ V' C` -/
theorem first_order_entry
    (horth : Cᵀ * C = 1) (hdiag : Cᵀ * V * C = diagonal E)
    (horth1 : C'ᵀ * C + Cᵀ * C' = 0)
    (hdiag1 : C'ᵀ * V * C + Cᵀ * V' * C + Cᵀ * V * C' = diagonal E') (hV : Vᵀ = V) (i j : Fin N) :
    (Cᵀ * C') i j * (E i - E j) + (Cᵀ * V' * C) i j = if i = j then E' i else 0 := by
  have hCC : C * Cᵀ = 1 := mul_eq_one_comm.mp horth
  -- V C = C diag E  and  Cᵀ V = diag E Cᵀ
  have hVC : V * C = C * diagonal E := by
    calc V * C = (C * Cᵀ) * (V * C) := by rw [hCC, Matrix.one_mul]
      _ = C * (Cᵀ * V * C) := by simp only [Matrix.mul_assoc]
      _ = C * diagonal E := by rw [hdiag]
  have hCV : Cᵀ * V = diagonal E * Cᵀ := by
    have := congrArg Matrix.transpose hVC
    rw [transpose_mul, transpose_mul, hV, diagonal_transpose] at this
    exact this
  have hA : C'ᵀ * C = -(Cᵀ * C') := by
    have := horth1
    exact eq_neg_of_add_eq_zero_left this
  have e1 : C'ᵀ * V * C = -(Cᵀ * C') * diagonal E := by
    rw [Matrix.mul_assoc, hVC, ← Matrix.mul_assoc, hA]
  have e2 : Cᵀ * V * C' = diagonal E * (Cᵀ * C') := by
    rw [hCV, Matrix.mul_assoc]
  rw [e1, e2] at hdiag1
  have := congrFun (congrFun hdiag1 i) j
  simp only [Matrix.add_apply, Matrix.neg_mul, Matrix.neg_apply, Matrix.mul_diagonal, Matrix.diagonal_mul,
    Matrix.diagonal_apply] at this
  by_cases hij : i = j
  · subst hij; simp only [if_true] at this ⊢; linarith
  · simp only [if_neg hij] at this ⊢; linarith

/-- **Hellmann–Feynman**: the derivative of the state energy is the diagonal of `Cᵀ V' C`,
    so the force `-(Cᵀ dV C)_ii` is minus the gradient of the state's energy -/
theorem hellmann_feynman
    (horth : Cᵀ * C = 1) (hdiag : Cᵀ * V * C = diagonal E) (horth1 : C'ᵀ * C + Cᵀ * C' = 0)
    (hdiag1 : C'ᵀ * V * C + Cᵀ * V' * C + Cᵀ * V * C' = diagonal E') (hV : Vᵀ = V) (i : Fin N) :
    E' i = (Cᵀ * V' * C) i i := by
  have := first_order_entry C C' V V' E E' horth hdiag horth1 hdiag1 hV i i
  simp at this; linarith

/-- **the derivative coupling is the overlap derivative**: `<φ_i|φ_j'> = (Cᵀ V' C)_ij / (E_j - E_i)` for `E_i ≠ E_j` -/
theorem coupling_is_overlap_derivative
    (horth : Cᵀ * C = 1) (hdiag : Cᵀ * V * C = diagonal E) (horth1 : C'ᵀ * C + Cᵀ * C' = 0)
    (hdiag1 : C'ᵀ * V * C + Cᵀ * V' * C + Cᵀ * V * C' = diagonal E') (hV : Vᵀ = V) (i j : Fin N)
    (hE : E i ≠ E j) :
    (Cᵀ * C') i j = (Cᵀ * V' * C) i j / (E j - E i) := by
  have hij : i ≠ j := fun h => hE (by rw [h])
  have := first_order_entry C C' V V' E E' horth hdiag horth1 hdiag1 hV i j
  rw [if_neg hij] at this
  have hne : E j - E i ≠ 0 := by intro h; apply hE; linarith
  field_simp
  linarith
end perturbation

/-! ## Part B: hand-written gradients of the built-in one-dimensional models -/

section models
open Mud.Models Real

theorem hasDerivAt_tanh (x : ℝ) : HasDerivAt Real.tanh (1 / (Real.cosh x * Real.cosh x)) x := by
  have hc : Real.cosh x ≠ 0 := (Real.cosh_pos x).ne'
  have h := (Real.hasDerivAt_sinh x).div (Real.hasDerivAt_cosh x) hc
  have e : Real.tanh = Real.sinh / Real.cosh := by
    funext y; simp [Real.tanh_eq_sinh_div_cosh]
  rw [e]
  refine h.congr_deriv ?_
  have := Real.cosh_sq x
  field_simp
  nlinarith [Real.cosh_sq x]

theorem gauss_deriv (c D x : ℝ) :
    HasDerivAt (fun y => c * Real.exp (-D * y * y)) (-2 * c * D * x * Real.exp (-D * x * x)) x := by
  have e : (fun y : ℝ => c * Real.exp (-D * y * y)) = fun y => c * Real.exp (-D * y ^ 2) := by
    funext y; ring_nf
  rw [e]
  have h := (((hasDerivAt_pow 2 x).const_mul (-D)).exp).const_mul c
  refine h.congr_deriv ?_
  have : -D * x ^ 2 = -D * x * x := by ring
  simp only [this]
  push_cast; ring

theorem dual_V22_deriv (A B E0 x : ℝ) : HasDerivAt (dualV22 A B E0) (dualD22 A B x) x := by
  have h := (gauss_deriv (-A) B x).add_const E0
  have e : dualV22 A B E0 = fun y => -A * Real.exp (-B * y * y) + E0 := by
    funext y; simp [dualV22]
  rw [e]
  refine h.congr_deriv ?_
  simp [dualD22]

theorem simple_V11_deriv_pos (A B x : ℝ) (hA : 0 ≤ A) (hx : 0 < x) :
    HasDerivAt (simpleV11 A B) (simpleD11 A B x) x := by
  have hloc : (simpleV11 A B) =ᶠ[nhds x] fun y => A * (1 - Real.exp (-B * y)) := by
    filter_upwards [lt_mem_nhds hx] with y hy
    simp [simpleV11, copysign, not_lt.mpr hy.le, abs_of_pos hy, abs_of_nonneg hA]
  have h1 : HasDerivAt (fun y : ℝ => -B * y) (-B) x := by simpa using (hasDerivAt_id' x).const_mul (-B)
  have h2 := ((h1.exp).const_sub 1).const_mul A
  refine (h2.congr_of_eventuallyEq hloc).congr_deriv ?_
  simp [simpleD11, abs_of_pos hx]; ring

theorem tanTerm_deriv (a b y0 x : ℝ) : HasDerivAt (fun y => tanTerm a b (y + y0)) (tanTermD a b (x + y0)) x := by
  have h1 : HasDerivAt (fun y : ℝ => b * (y + y0)) b x := by
    simpa using ((hasDerivAt_id' x).add_const y0).const_mul b
  have h2 := ((hasDerivAt_tanh (b * (x + y0))).comp x h1).const_mul a
  have e : (fun y => tanTerm a b (y + y0)) = fun y => a * (Real.tanh ∘ fun y => b * (y + y0)) y := by
    funext y; simp [tanTerm]
  rw [e]
  refine h2.congr_deriv ?_
  simp [tanTermD]; ring

theorem gaussTerm_deriv (c y0 x : ℝ) : HasDerivAt (fun y => gaussTerm c (y + y0)) (gaussTermD c (x + y0)) x := by
  have h := gauss_deriv c 1 (x + y0)
  have e : (fun y => c * Real.exp (-1 * y * y)) = fun y => gaussTerm c y := by
    funext y; simp [gaussTerm]
  rw [e] at h
  refine (h.comp_add_const x y0).congr_deriv ?_
  simp [gaussTermD]; ring

theorem super_deriv (v x : ℝ) : HasDerivAt (superV v) (superD v x) x := by
  have h := gauss_deriv v (1 / 2) x
  have e : superV v = fun y => v * Real.exp (-(1 / 2) * y * y) := by
    funext y; simp [superV]
  rw [e]
  refine h.congr_deriv ?_
  simp [superD]; ring

theorem extended_V12_deriv_pos (B C x : ℝ) (hx : 0 < x) : HasDerivAt (extendedV12 B C) (extendedD12 B C x) x := by
  have hloc : (extendedV12 B C) =ᶠ[nhds x] fun y => B * (2 - Real.exp (-C * y)) := by
    filter_upwards [lt_mem_nhds hx] with y hy
    have h1 : ¬ y < 0 := not_lt.mpr hy.le
    simp only [extendedV12, h1, if_false, abs_real, abs_of_pos hy, exp_real, lit_real]
    push_cast; ring_nf
  have h1 : HasDerivAt (fun y : ℝ => -C * y) (-C) x := by simpa using (hasDerivAt_id' x).const_mul (-C)
  have h2 := ((h1.exp).const_sub 2).const_mul B
  refine (h2.congr_of_eventuallyEq hloc).congr_deriv ?_
  simp [extendedD12, abs_of_pos hx]; ring

theorem extended_V12_deriv_neg (B C x : ℝ) (hx : x < 0) : HasDerivAt (extendedV12 B C) (extendedD12 B C x) x := by
  have hloc : (extendedV12 B C) =ᶠ[nhds x] fun y => B * Real.exp (C * y) := by
    filter_upwards [gt_mem_nhds hx] with y hy
    simp only [extendedV12, hy, if_true, abs_real, abs_of_neg hy, exp_real]
    ring_nf
  have h1 : HasDerivAt (fun y : ℝ => C * y) C x := by simpa using (hasDerivAt_id' x).const_mul C
  have h2 := (h1.exp).const_mul B
  refine (h2.congr_of_eventuallyEq hloc).congr_deriv ?_
  simp [extendedD12, abs_of_neg hx]; ring

theorem models_V33_deriv (a d x : ℝ) : HasDerivAt (modelsV33 a d) (modelsD33 a d x) x := by
  have h1 : HasDerivAt (fun y : ℝ => d * y) d x := by simpa using (hasDerivAt_id' x).const_mul d
  have h2 := ((hasDerivAt_tanh (d * x)).comp x h1).const_mul (2 * a)
  have e : modelsV33 a d = fun y => 2 * a * (Real.tanh ∘ fun y => d * y) y := by
    funext y; simp [modelsV33]
  rw [e]
  refine h2.congr_deriv ?_
  simp [modelsD33]; ring

theorem dual_V12_deriv (C D x : ℝ) : HasDerivAt (dualV12 C D) (dualD12 C D x) x := by
  have h := gauss_deriv C D x
  have e : dualV12 C D = fun y => C * Real.exp (-D * y * y) := by
    funext y; simp [dualV12]
  rw [e]
  refine h.congr_deriv ?_
  simp [dualD12]

theorem simple_V12_deriv (C D x : ℝ) : HasDerivAt (simpleV12 C D) (simpleD12 C D x) x := by
  have h := gauss_deriv C D x
  have e : simpleV12 C D = fun y => C * Real.exp (-D * y * y) := by
    funext y; simp [simpleV12]
  rw [e]
  refine h.congr_deriv ?_
  simp [simpleD12]

theorem simple_V11_deriv_neg (A B x : ℝ) (hA : 0 ≤ A) (hx : x < 0) :
    HasDerivAt (simpleV11 A B) (simpleD11 A B x) x := by
  have hloc : (simpleV11 A B) =ᶠ[nhds x] fun y => -A * (1 - Real.exp (B * y)) := by
    filter_upwards [gt_mem_nhds hx] with y hy
    simp [simpleV11, copysign, hy, abs_of_neg hy, abs_of_nonneg hA]
  have h1 : HasDerivAt (fun y : ℝ => B * y) B x := by simpa using (hasDerivAt_id' x).const_mul B
  have h2 := ((h1.exp).const_sub 1).const_mul (-A)
  refine (h2.congr_of_eventuallyEq hloc).congr_deriv ?_
  simp [simpleD11, abs_of_neg hx]; ring

theorem tanTerm_deriv0 (a b x : ℝ) : HasDerivAt (tanTerm a b) (tanTermD a b x) x := by
  have := tanTerm_deriv a b 0 x
  simpa using this

theorem tanTerm_deriv_sub (a b xp x : ℝ) : HasDerivAt (fun y => tanTerm a b (y - xp)) (tanTermD a b (x - xp)) x := by
  have := tanTerm_deriv a b (-xp) x
  simpa [sub_eq_add_neg] using this

theorem gaussTerm_deriv_sub (c xp x : ℝ) : HasDerivAt (fun y => gaussTerm c (y - xp)) (gaussTermD c (x - xp)) x := by
  have := gaussTerm_deriv c (-xp) x
  simpa [sub_eq_add_neg] using this

theorem modelx_V11_deriv (a b xp x : ℝ) : HasDerivAt (modelxV11 a b xp) (modelxD11 a b xp x) x := by
  have h := (tanTerm_deriv0 a b x).add (tanTerm_deriv a b xp x)
  exact h

theorem modelx_V22_deriv (a b xp x : ℝ) : HasDerivAt (modelxV22 a b xp) (modelxD22 a b xp x) x := by
  have h := ((tanTerm_deriv_sub a b xp x).add (tanTerm_deriv0 a b x)).neg
  exact h

theorem modelx_V33_deriv (a b xp x : ℝ) : HasDerivAt (modelxV33 a b xp) (modelxD33 a b xp x) x := by
  have h := ((tanTerm_deriv a b xp x).sub (tanTerm_deriv_sub a b xp x)).neg
  exact h

theorem models_V11_deriv (a b xp x : ℝ) : HasDerivAt (modelsV11 a b xp) (modelsD11 a b xp x) x := by
  have h := ((tanTerm_deriv_sub a b xp x).sub (tanTerm_deriv a b xp x)).add_const a
  exact h

theorem models_V12_deriv (c xp x : ℝ) : HasDerivAt (modelsV12 c xp) (modelsD12 c xp x) x := by
  have h := (gaussTerm_deriv c xp x).add (gaussTerm_deriv_sub c xp x)
  exact h

/-- the off-diagonal couplings of models X and S are single Gaussian terms -/
theorem gaussTerm_deriv0 (c x : ℝ) : HasDerivAt (gaussTerm c) (gaussTermD c x) x := by
  have := gaussTerm_deriv c 0 x
  simpa using this

/-- model W: the gradient of a diagonal entry is its slope … -/
theorem modelw_spec_deriv (s eps : ℝ) (m : ℕ) (x : ℝ) : HasDerivAt (modelwDiag s eps m) (modelwDiagD s) x := by
  have h := ((hasDerivAt_id' x).const_mul s).add_const (((m - 1 : ℕ) : ℝ) * eps)
  have e : modelwDiag s eps m = fun y => s * y + ((m - 1 : ℕ) : ℝ) * eps := by
    funext y; simp [modelwDiag]
  rw [e]
  refine h.congr_deriv ?_
  simp [modelwDiagD]

/-- … but the pinned `dV` returns slope + offset: wrong for every state above the first when `eps ≠ 0`
    (**known finding**; likewise its off-diagonal entries: it returns `v`, the derivative of a constant is 0) -/
theorem modelw_pinned_wrong (s eps : ℝ) (m : ℕ) (hm : 2 ≤ m) (heps : eps ≠ 0) :
    modelwDiagDPinned s eps m ≠ modelwDiagD s := by
  unfold modelwDiagDPinned modelwDiagD
  intro h
  have h1 : ((m - 1 : ℕ) : ℝ) * eps = 0 := by linarith
  rcases mul_eq_zero.mp h1 with h2 | h2
  · have : (m - 1 : ℕ) = 0 := by exact_mod_cast h2
    omega
  · exact heps h2

theorem modelz_spec_deriv (N : ℕ) (eps : ℝ) (m : ℕ) (x : ℝ) : HasDerivAt (modelzDiag N eps m) (modelzDiagD N m) x := by
  by_cases h : m ≤ N / 2
  · have hd := (hasDerivAt_id' x).add_const (((m - 1 : ℕ) : ℝ) * eps)
    have e : modelzDiag N eps m = fun y => y + ((m - 1 : ℕ) : ℝ) * eps := by
      funext y; simp [modelzDiag, h]
    rw [e]
    refine hd.congr_deriv ?_
    simp [modelzDiagD, h]
  · have hd := ((hasDerivAt_id' x).const_mul (-1 : ℝ)).add_const (((N - m : ℕ) : ℝ) * eps)
    have e : modelzDiag N eps m = fun y => -1 * y + ((N - m : ℕ) : ℝ) * eps := by
      funext y; simp [modelzDiag, h]
    rw [e]
    refine hd.congr_deriv ?_
    simp [modelzDiagD, h]

/-- the pinned `dV` of model Z returns the potential itself: at `x = 0`, first state, it gives 0 instead of 1
    (**known finding**) -/
theorem modelz_pinned_wrong (N : ℕ) (eps : ℝ) (hN : 2 ≤ N) :
    modelzDiagDPinned N eps 1 (0 : ℝ) ≠ modelzDiagD N 1 := by
  have h : 1 ≤ N / 2 := by omega
  simp [modelzDiagDPinned, modelzDiag, modelzDiagD, h]
end models

/-! ## Part C: harmonic model -/

/-- `E(x) = E0 + ½ dxᵀ H0 dx`, `F = -H0 dx`: with a symmetric Hessian the force is minus the gradient of the energy:
    along any direction `u`, `d/dt E(x + t u)` at `t = 0` equals `u · H0 dx = -F·u` -/
theorem harmonic_force_is_gradient (H0 : Matrix (Fin n) (Fin n) ℝ) (hsym : H0.IsSymm) (dx u : Fin n → ℝ) (E0 : ℝ) :
    HasDerivAt (fun t : ℝ => E0 + 1 / 2 * ((dx + t • u) ⬝ᵥ (H0.mulVec (dx + t • u))))
      (u ⬝ᵥ (H0.mulVec dx)) 0 := by
  have hs : dx ⬝ᵥ H0.mulVec u = u ⬝ᵥ H0.mulVec dx := by
    rw [Matrix.dotProduct_mulVec, ← Matrix.mulVec_transpose, hsym.eq, dotProduct_comm]
  have hexp : (fun t : ℝ => E0 + 1 / 2 * ((dx + t • u) ⬝ᵥ (H0.mulVec (dx + t • u))))
      = fun t => (u ⬝ᵥ H0.mulVec dx) * t + (1 / 2 * (u ⬝ᵥ H0.mulVec u)) * t ^ 2
          + (E0 + 1 / 2 * (dx ⬝ᵥ H0.mulVec dx)) := by
    funext t
    simp only [Matrix.mulVec_add, Matrix.mulVec_smul, add_dotProduct, dotProduct_add, smul_dotProduct,
      dotProduct_smul, smul_eq_mul, hs]
    ring
  rw [hexp]
  have h1 : HasDerivAt (fun t : ℝ => (u ⬝ᵥ H0.mulVec dx) * t) (u ⬝ᵥ H0.mulVec dx) 0 := by
    simpa using (hasDerivAt_id' (0 : ℝ)).const_mul (u ⬝ᵥ H0.mulVec dx)
  have h2 : HasDerivAt (fun t : ℝ => (1 / 2 * (u ⬝ᵥ H0.mulVec u)) * t ^ 2) 0 0 := by
    simpa using (hasDerivAt_pow 2 (0 : ℝ)).const_mul (1 / 2 * (u ⬝ᵥ H0.mulVec u))
  have h := (h1.add h2).add_const (E0 + 1 / 2 * (dx ⬝ᵥ H0.mulVec dx))
  refine h.congr_deriv ?_
  simp

section models2d
open Mud.Models

/-! ### Subotnik2D: `dV[0]` is ∂V/∂x and `dV[1]` is ∂V/∂y, entry by entry -/

theorem sub2d_V11_dx (f b x : ℝ) : HasDerivAt (sub2dV11 f b) (sub2dD11x f b x) x := by
  have h := tanTerm_deriv0 (-f) b x
  have e : sub2dV11 f b = tanTerm (-f) b := by funext y; simp [sub2dV11, tanTerm]
  rw [e]
  refine h.congr_deriv ?_
  simp [sub2dD11x, tanTermD]

theorem sub2d_V12_dx (c d x : ℝ) : HasDerivAt (sub2dV12 c d) (sub2dD12x c d x) x := by
  have h := gauss_deriv c d x
  have e : (fun y => c * Real.exp (-d * y * y)) = sub2dV12 c d := by funext y; simp [sub2dV12]
  rw [e] at h
  refine h.congr_deriv ?_
  simp [sub2dD12x]; ring

theorem sub2d_Z_dx (b w g hp x y : ℝ) : HasDerivAt (fun t => sub2dZ b w g hp t y) b x := by
  have h : HasDerivAt (fun t : ℝ => b * (t - 1)) b x := by
    simpa using ((hasDerivAt_id' x).sub_const 1).const_mul b
  simpa [sub2dZ] using h.add_const (w * Real.cos (g * y + hp))

theorem sub2d_Z_dy (b w g hp x y : ℝ) : HasDerivAt (fun t => sub2dZ b w g hp x t) (-w * g * Real.sin (g * y + hp)) y := by
  have h1 : HasDerivAt (fun t : ℝ => g * t + hp) g y := by
    simpa using ((hasDerivAt_id' y).const_mul g).add_const hp
  have h2 := ((Real.hasDerivAt_cos (g * y + hp)).comp y h1).const_mul w
  have h3 := h2.const_add (b * (x - 1))
  refine (h3.congr_deriv ?_)
  ring

theorem sub2d_V22_dx (a b w g hp x y : ℝ) :
    HasDerivAt (fun t => sub2dV22 a b w g hp t y) (sub2dD22x a b w g hp x y) x := by
  have hz := sub2d_Z_dx b w g hp x y
  have h := (((hasDerivAt_tanh (sub2dZ b w g hp x y)).comp x hz).const_mul a).add_const (3 / 4 * a)
  have e : (fun t => sub2dV22 a b w g hp t y) = fun t => a * (Real.tanh ∘ fun t => sub2dZ b w g hp t y) t + 3 / 4 * a := by
    funext t; simp [sub2dV22]
  rw [e]
  refine h.congr_deriv ?_
  simp [sub2dD22x]; ring

theorem sub2d_V22_dy (a b w g hp x y : ℝ) :
    HasDerivAt (fun t => sub2dV22 a b w g hp x t) (sub2dD22y a b w g hp x y) y := by
  have hz := sub2d_Z_dy b w g hp x y
  have h := (((hasDerivAt_tanh (sub2dZ b w g hp x y)).comp y hz).const_mul a).add_const (3 / 4 * a)
  have e : (fun t => sub2dV22 a b w g hp x t) = fun t => a * (Real.tanh ∘ fun t => sub2dZ b w g hp x t) t + 3 / 4 * a := by
    funext t; simp [sub2dV22]
  rw [e]
  refine h.congr_deriv ?_
  simp [sub2dD22y]; ring

/-! ### 5-D linear vibronic model: the five gradient components, entry by entry -/

/-- derivative with respect to one tuning mode `X_i` (the other modes and θ fixed): `om_i X_i + k_i` -/
theorem vib_diag_dmode (E : ℝ) (om k An : Fin 4 → ℝ) (X : Fin 4 → ℝ) (theta : ℝ) (i : Fin 4) :
    HasDerivAt (fun t => vibDiag E om k An (Function.update X i t) theta) (vibDiagDmode om k X i) (X i) := by
  have hsum : ∀ (F : Fin 4 → ℝ → ℝ) (F' : Fin 4 → ℝ), (∀ j, HasDerivAt (F j) (F' j) (X i)) →
      HasDerivAt (fun t => ∑ j, F j t) (∑ j, F' j) (X i) := by
    intro F F' h
    exact HasDerivAt.fun_sum (u := Finset.univ) (fun j _ => h j)
  simp only [vibDiag, vsum_eq_sum, lit_real]
  have h1 : HasDerivAt (fun t => ∑ j, om j / ((2 : ℕ) : ℝ) * (Function.update X i t j * Function.update X i t j))
      (∑ j, if j = i then om i * X i else 0) (X i) := by
    apply hsum
    intro j
    by_cases hj : j = i
    · subst hj
      simp only [Function.update_self, if_true]
      have := ((hasDerivAt_id' (X j)).mul (hasDerivAt_id' (X j))).const_mul (om j / ((2 : ℕ) : ℝ))
      refine this.congr_deriv ?_
      push_cast; ring
    · simp only [Function.update_of_ne hj, hj, if_false]
      exact hasDerivAt_const _ _
  have h2 : HasDerivAt (fun t => ∑ j, k j * Function.update X i t j) (∑ j, if j = i then k i else 0) (X i) := by
    apply hsum
    intro j
    by_cases hj : j = i
    · subst hj
      simp only [Function.update_self, if_true]
      simpa using (hasDerivAt_id' (X j)).const_mul (k j)
    · simp only [Function.update_of_ne hj, hj, if_false]
      exact hasDerivAt_const _ _
  have h := ((h1.const_add E).add h2).add_const
    (∑ j : Fin 4, An j * (sin (((j.val + 1 : ℕ) : ℝ) * theta) * sin (((j.val + 1 : ℕ) : ℝ) * theta)))
  refine h.congr_deriv ?_
  simp [vibDiagDmode]

/-- derivative with respect to the torsion: `Σ An_i 2(i+1) sin((i+1)θ) cos((i+1)θ)` -/
theorem vib_diag_dtheta (E : ℝ) (om k An : Fin 4 → ℝ) (X : Fin 4 → ℝ) (theta : ℝ) :
    HasDerivAt (fun t => vibDiag E om k An X t) (vibDiagDtheta An theta) theta := by
  simp only [vibDiag, vibDiagDtheta, vsum_eq_sum, lit_real]
  have hs : ∀ j : Fin 4, HasDerivAt (fun t : ℝ => An j * (Real.sin (((j.val + 1 : ℕ) : ℝ) * t) * Real.sin (((j.val + 1 : ℕ) : ℝ) * t)))
      (An j * ((2 : ℕ) : ℝ) * ((j.val + 1 : ℕ) : ℝ) * (Real.sin (((j.val + 1 : ℕ) : ℝ) * theta) * Real.cos (((j.val + 1 : ℕ) : ℝ) * theta))) theta := by
    intro j
    have h1 : HasDerivAt (fun t : ℝ => ((j.val + 1 : ℕ) : ℝ) * t) ((j.val + 1 : ℕ) : ℝ) theta := by
      simpa using (hasDerivAt_id' theta).const_mul (((j.val + 1 : ℕ) : ℝ))
    have h2 := (Real.hasDerivAt_sin _).comp theta h1
    have h3 := (h2.mul h2).const_mul (An j)
    refine h3.congr_deriv ?_
    simp only [Function.comp]
    push_cast; ring
  have hsum := HasDerivAt.fun_sum (u := Finset.univ) (fun j _ => hs j)
  have h := hsum.const_add (E + (∑ i, om i / ((2 : ℕ) : ℝ) * (X i * X i)) + ∑ i, k i * X i)
  exact h

theorem vib_V12_dtheta (lamb r0 theta : ℝ) : HasDerivAt (vibV12 lamb r0) (vibD12theta lamb r0 theta) theta := by
  have h := (Real.hasDerivAt_sin theta).const_mul (lamb * r0)
  have e : vibV12 lamb r0 = fun y => lamb * r0 * Real.sin y := by funext y; simp [vibV12]
  rw [e]
  refine h.congr_deriv ?_
  simp [vibD12theta]

end models2d

end Mud.C05

/-
  C04 — frustrated hops are rejected; accepted hops rescale along the coupling vector.

  Subject: `Mud.hopAllowed`, `Mud.rescale`, `Mud.smallRoot/bigRoot`, `Mud.hopToIt`
  (MudModel/Hop.lean) at `ℝ`, any dimension, any positive masses, any non-zero direction.

  * `hop_allowed_down`      a downward hop (dE > 0 available) is always accepted
  * `hop_allowed_up_iff`    an upward hop is accepted iff  (v·û)² / (2 Σ û_i²/m_i) > gap   (strict)
  * `rescale_parallel`      M (v' - v) = s·û = (s/‖d‖)·d : momentum changes only along the direction
  * `bigRoot_is_root`, `smallest_root`   both are roots; the chosen one has the smaller magnitude
  * `hop_rejected_noop`     (C01) rejected ⇒ untouched
  * `hop_event_fields`      the logged event carries (from, to) = (source, target) in both outcomes
  The event/active-state bookkeeping over whole runs is in `MudProof.Properties.C16` (loop model)
  and the A-FSSH direction in `MudProof.Properties.C11`.
-/
import MudProof.Properties.C01
import MudModel.Events

namespace Mud.C04
open Mud Finset C01

variable {n : ℕ}

theorem hop_allowed_down (m v d : Fin n → ℝ) (dE : ℝ) (h : 0 < dE) :
    hopAllowed m v d dE = true := by
  simp [hopAllowed, h]

/-- **T1.** for an upward hop (`gap = -dE ≥ 0`) acceptance is exactly
    "kinetic energy along the direction, weighted by inverse masses, exceeds the gap" -/
theorem hop_allowed_up_iff (m v d : Fin n → ℝ) (hm : ∀ i, 0 < m i) (hd : ∃ i, d i ≠ 0)
    (gap : ℝ) (hg : 0 ≤ gap) :
    hopAllowed m v d (-gap) = true ↔
      gap < (dotV v (unitVec d)) ^ 2 / (2 * quadA m (unitVec d)) := by
  have ha := quadA_pos m d hm hd
  unfold hopAllowed
  have h0 : ¬ (0 : ℝ) < -gap := by linarith
  rw [if_neg h0]
  dsimp only
  rw [decide_eq_true_iff]
  simp only [lit_real, quadB]
  push_cast
  rw [lt_div_iff₀ (by linarith)]
  constructor <;> intro h <;> nlinarith

/-- **T2.** the momentum changes only along the rescale direction:
    `m_i (v'_i - v_i) = s · û_i` -/
theorem rescale_parallel (m v d : Fin n → ℝ) (hm : ∀ i, m i ≠ 0) (red : ℝ) (i : Fin n) :
    m i * (rescale m v d red i - v i)
      = smallRoot (quadA m (unitVec d)) (quadB v (unitVec d)) (-(lit 2 * red)) * unitVec d i := by
  unfold rescale
  have := hm i
  field_simp
  ring

/-- `û` is `d` divided by its norm, so the change is along `d` itself -/
theorem unitVec_parallel (d : Fin n → ℝ) (i : Fin n) :
    unitVec d i = d i / Real.sqrt (normSqV d) := by
  simp [unitVec]

theorem bigRoot_is_root (a b c : ℝ) (ha : a ≠ 0) (hd : 0 ≤ b * b - 4 * a * c) :
    a * bigRoot a b c ^ 2 + b * bigRoot a b c + c = 0 := by
  unfold bigRoot
  by_cases hc : c < 0 ∨ 0 < c
  · rw [if_pos hc]
    simp only [lit_real, sqrt_real]
    push_cast
    set r := Real.sqrt (b * b - 4 * a * c) with hr
    have hr2 : r * r = b * b - 4 * a * c := Real.mul_self_sqrt hd
    have root : ∀ q : ℝ, q * q + b * q + a * c = 0 → a * (q / a) ^ 2 + b * (q / a) + c = 0 := by
      intro q key
      have : a * (q / a) ^ 2 + b * (q / a) + c = (q * q + b * q + a * c) / a := by
        field_simp
      rw [this, key]; simp
    by_cases hb : b < 0
    · simp only [hb, if_true]; apply root; nlinarith [hr2]
    · simp only [hb, if_false]; apply root; nlinarith [hr2]
  · rw [if_neg hc]
    have : c = 0 := by
      have h1 := not_lt.mp (fun h => hc (Or.inl h)); have h2 := not_lt.mp (fun h => hc (Or.inr h))
      linarith
    subst this
    field_simp
    ring

/-- **T3.** the root applied is the one of smaller magnitude ("the smallest amount") -/
theorem smallest_root (a b c : ℝ) (ha : a ≠ 0) (hd : 0 ≤ b * b - 4 * a * c) :
    |smallRoot a b c| ≤ |bigRoot a b c| := by
  unfold smallRoot bigRoot
  by_cases hc : c < 0 ∨ 0 < c
  · rw [if_pos hc, if_pos hc]
    simp only [lit_real, sqrt_real]
    push_cast
    set r := Real.sqrt (b * b - 4 * a * c) with hr
    have hr2 : r * r = b * b - 4 * a * c := Real.mul_self_sqrt hd
    have hr0 : 0 ≤ r := Real.sqrt_nonneg _
    have hc0 : c ≠ 0 := by rcases hc with h | h <;> [exact ne_of_lt h; exact ne_of_gt h]
    -- |c/q| ≤ |q/a|  ⇔  |a c| ≤ q²
    have main : ∀ q : ℝ, q ≠ 0 → |a * c| ≤ q * q → |c / q| ≤ |q / a| := by
      intro q hq h
      rw [abs_div, abs_div, div_le_div_iff₀ (abs_pos.mpr hq) (abs_pos.mpr ha)]
      calc |c| * |a| = |a * c| := by rw [abs_mul, mul_comm]
        _ ≤ q * q := h
        _ = |q| * |q| := (abs_mul_abs_self q).symm
    have hac : |a * c| ≤ (b * b + r * r) / 4 + 0 := by
      rw [abs_le]; constructor <;> nlinarith [mul_self_nonneg b]
    by_cases hb : b < 0
    · simp only [hb, if_true]
      have hq : -(b - r) / 2 ≠ 0 := by
        intro h
        have : r = b := by linarith
        linarith
      apply main _ hq
      have : (-(b - r) / 2) * (-(b - r) / 2) = (b * b + r * r) / 4 + (-b) * r / 2 := by ring
      rw [this]
      have : 0 ≤ (-b) * r := mul_nonneg (by linarith) hr0
      linarith
    · simp only [hb, if_false]
      have hb0 : 0 ≤ b := not_lt.mp hb
      have hq : -(b + r) / 2 ≠ 0 := by
        intro h
        have h1 : r = 0 := by linarith
        have h2 : b = 0 := by linarith
        rw [h1, h2] at hr2
        have : a * c = 0 := by linarith
        rcases mul_eq_zero.mp this with h | h <;> contradiction
      apply main _ hq
      have : (-(b + r) / 2) * (-(b + r) / 2) = (b * b + r * r) / 4 + b * r / 2 := by ring
      rw [this]
      have : 0 ≤ b * r := mul_nonneg hb0 hr0
      linarith
  · rw [if_neg hc, if_neg hc]
    simp

/-- both outcomes of `hop_to_it` log the attempted pair `(source, target)` -/
theorem hop_event_fields {N : ℕ} (m v d : Fin n → ℝ) (E : Fin N → ℝ) (s t : Fin N) :
    (hopToIt m v d E s t).evFrom = s.val ∧ (hopToIt m v d E s t).evTo = t.val := by
  unfold hopToIt
  dsimp only
  split <;> exact ⟨rfl, rfl⟩

/-- non-vacuity of `hop_allowed_up_iff`: a frustrated and an allowed upward hop in 2-D -/
example : ∃ (m d : Fin 2 → ℝ), (∀ i, 0 < m i) ∧ (∃ i, d i ≠ 0) :=
  ⟨![1, 3], ![1, 2], by intro i; fin_cases i <;> simp, ⟨0, by simp⟩⟩

/-! ### event log vs. logged active state over a whole run (every step logged) -/

section events
open Mud.Events

/-- the run logs one more snapshot than there are steps -/
theorem run_length : ∀ (k a : ℕ) (atts : List Attempt), (run k a atts).1.length = atts.length + 1 := by
  intro k a atts
  induction atts generalizing k a with
  | nil => simp [run]
  | cons att rest ih =>
    cases att with
    | none => simp [run, ih]
    | hop t acc => cases acc <;> simp [run, ih]

/-- the first logged active state is the starting one -/
@[simp] theorem run_head (k a : ℕ) (atts : List Attempt) : (run k a atts).1[0]?.getD 0 = a := by
  cases atts with
  | nil => simp [run]
  | cons att rest =>
    cases att with
    | none => simp [run]
    | hop t acc => cases acc <;> simp [run]

/-- **T6a.** between consecutive snapshots the active state changes only through an accepted hop of that step, and then
    to that hop's target: `active[i+1] = target` if step `i` had an accepted attempt, `= active[i]` otherwise -/
theorem active_step : ∀ (atts : List Attempt) (k a : ℕ) (i : ℕ) (hi : i < atts.length),
    (run k a atts).1.getD (i + 1) 0 =
      match atts[i] with
      | .hop t true => t
      | _ => (run k a atts).1.getD i 0 := by
  intro atts
  induction atts with
  | nil => intro k a i hi; simp at hi
  | cons att rest ih =>
    intro k a i hi
    cases i with
    | zero =>
      cases att with
      | none => simp [run, run_head]
      | hop t acc => cases acc <;> simp [run, run_head]
    | succ i =>
      have hi' : i < rest.length := by simpa using hi
      cases att with
      | none =>
        simp only [run, List.getD_cons_succ, List.getElem_cons_succ]
        exact ih (k + 1) a i hi'
      | hop t acc =>
        cases acc
        · simp only [run, List.getD_cons_succ, List.getElem_cons_succ]
          exact ih (k + 1) a i hi'
        · simp only [run, List.getD_cons_succ, List.getElem_cons_succ]
          exact ih (k + 1) t i hi'

/-- **every logged event corresponds to an attempt**: it carries the time index of a step that had an attempt, the active
    state logged at that step as `from`, the attempt's target as `to`, and its kind says whether it was accepted -/
theorem event_sound : ∀ (atts : List Attempt) (k a : ℕ) (e : Event), e ∈ (run k a atts).2 →
    ∃ i, ∃ hi : i < atts.length, e.step = k + i ∧ atts[i] = .hop e.dst e.isHop ∧ e.src = (run k a atts).1.getD i 0 := by
  intro atts
  induction atts with
  | nil => intro k a e he; simp [run] at he
  | cons att rest ih =>
    intro k a e he
    have lift : ∀ a' : ℕ, e ∈ (run (k + 1) a' rest).2 →
        ∃ i, ∃ hi : i < (att :: rest).length, e.step = k + i ∧ (att :: rest)[i] = .hop e.dst e.isHop ∧
          e.src = (a :: (run (k + 1) a' rest).1).getD i 0 := by
      intro a' h
      obtain ⟨i, hi, h1, h2, h3⟩ := ih (k + 1) a' e h
      exact ⟨i + 1, by simpa using hi, by omega, by simpa using h2, by simpa using h3⟩
    cases att with
    | none =>
      simp only [run] at he ⊢
      exact lift a he
    | hop t acc =>
      cases acc
      · simp only [run, List.mem_cons] at he ⊢
        rcases he with rfl | he
        · exact ⟨0, by simp, by simp, by simp, by simp⟩
        · exact lift a he
      · simp only [run, List.mem_cons] at he ⊢
        rcases he with rfl | he
        · exact ⟨0, by simp, by simp, by simp, by simp⟩
        · exact lift t he

/-- **every attempt is logged**: an accepted one as a `hop` event, a rejected one as a `frustrated_hop` event -/
theorem event_complete : ∀ (atts : List Attempt) (k a : ℕ) (i : ℕ) (hi : i < atts.length) (t : ℕ) (acc : Bool),
    atts[i] = .hop t acc → (⟨acc, k + i, (run k a atts).1.getD i 0, t⟩ : Event) ∈ (run k a atts).2 := by
  intro atts
  induction atts with
  | nil => intro k a i hi; simp at hi
  | cons att rest ih =>
    intro k a i hi t acc h
    cases i with
    | zero =>
      simp only [List.getElem_cons_zero] at h
      subst h
      cases acc <;> simp [run]
    | succ i =>
      have hi' : i < rest.length := by simpa using hi
      simp only [List.getElem_cons_succ] at h
      cases att with
      | none =>
        simp only [run, List.getD_cons_succ]
        have := ih (k + 1) a i hi' t acc h
        rwa [show k + 1 + i = k + (i + 1) by omega] at this
      | hop t' acc' =>
        cases acc'
        · simp only [run, List.getD_cons_succ, List.mem_cons]
          right
          have := ih (k + 1) a i hi' t acc h
          rwa [show k + 1 + i = k + (i + 1) by omega] at this
        · simp only [run, List.getD_cons_succ, List.mem_cons]
          right
          have := ih (k + 1) t' i hi' t acc h
          rwa [show k + 1 + i = k + (i + 1) by omega] at this

/-- events are recorded in strictly increasing step order: at most one event per step -/
theorem event_steps_increasing : ∀ (atts : List Attempt) (k a : ℕ),
    ((run k a atts).2.map (·.step)).Pairwise (· < ·) ∧ ∀ e ∈ (run k a atts).2, k ≤ e.step := by
  intro atts
  induction atts with
  | nil => intro k a; simp [run]
  | cons att rest ih =>
    intro k a
    cases att with
    | none =>
      simp only [run]
      obtain ⟨h1, h2⟩ := ih (k + 1) a
      exact ⟨h1, fun e he => by have := h2 e he; omega⟩
    | hop t acc =>
      cases acc
      · simp only [run, List.map_cons, List.pairwise_cons, List.mem_cons]
        obtain ⟨h1, h2⟩ := ih (k + 1) a
        refine ⟨⟨?_, h1⟩, ?_⟩
        · intro s hs
          obtain ⟨e, he, rfl⟩ := List.mem_map.mp hs
          have := h2 e he; omega
        · rintro e (rfl | he)
          · simp
          · have := h2 e he; omega
      · simp only [run, List.map_cons, List.pairwise_cons, List.mem_cons]
        obtain ⟨h1, h2⟩ := ih (k + 1) t
        refine ⟨⟨?_, h1⟩, ?_⟩
        · intro s hs
          obtain ⟨e, he, rfl⟩ := List.mem_map.mp hs
          have := h2 e he; omega
        · rintro e (rfl | he)
          · simp
          · have := h2 e he; omega

/-- **T6b.** the number of `hop` events equals the number of accepted attempts, the number of `frustrated_hop`
    events the number of rejected ones: no other events of these kinds exist -/
theorem event_counts (k a : ℕ) (atts : List Attempt) :
    ((run k a atts).2.filter (·.isHop)).length = (atts.filter (fun x => match x with | .hop _ true => true | _ => false)).length ∧
    ((run k a atts).2.filter (fun e => !e.isHop)).length
      = (atts.filter (fun x => match x with | .hop _ false => true | _ => false)).length := by
  induction atts generalizing k a with
  | nil => simp [run]
  | cons att rest ih =>
    cases att with
    | none => simpa [run] using ih (k + 1) a
    | hop t acc =>
      cases acc
      · have := ih (k + 1) a
        simp [run, this.1, this.2]
      · have := ih (k + 1) t
        simp [run, this.1, this.2]

end events

end Mud.C04

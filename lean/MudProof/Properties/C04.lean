/-
  C04 — frustrated hops are rejected; accepted hops rescale along the coupling vector.

  Subject: `Mud.hopAllowed`, `Mud.rescale`, `Mud.smallRoot/bigRoot`, `Mud.hopToIt`
  (MudModel/Hop.lean) at `ℝ`, any dimension, any positive masses, any non-zero direction.

  * `hop_allowed_down`      a downward hop (dE > 0 available) is always accepted
  * `hop_allowed_up_iff`    an upward hop is accepted iff  (v·û)² / (2 Σ û_i²/m_i) > gap   (strict)
  * `rescale_parallel`      M (v' - v) = s·û = (s/‖d‖)·d : momentum changes only along the direction
  * `bigRoot_is_root`, `smallest_root`   both are roots; the chosen one has the smaller magnitude
  * `hop_rejected_noop`     (C01) rejected ⇒ untouched
  * `hop_event_fields`      the logged event carries (from, to) = (source, target) in both outcomes
  The event/active-state bookkeeping over whole runs is in `MudProof.Properties.C16` (loop model)
  and the A-FSSH direction in `MudProof.Properties.C11`.
-/
import MudProof.Properties.C01

namespace Mud.C04
open Mud Finset C01

variable {n : ℕ}

theorem hop_allowed_down (m v d : Fin n → ℝ) (dE : ℝ) (h : 0 < dE) :
    hopAllowed m v d dE = true := by
  simp [hopAllowed, h]

/-- **T1.** for an upward hop (`gap = -dE ≥ 0`) acceptance is exactly
    "kinetic energy along the direction, weighted by inverse masses, exceeds the gap" -/
theorem hop_allowed_up_iff (m v d : Fin n → ℝ) (hm : ∀ i, 0 < m i) (hd : ∃ i, d i ≠ 0)
    (gap : ℝ) (hg : 0 ≤ gap) :
    hopAllowed m v d (-gap) = true ↔
      gap < (dotV v (unitVec d)) ^ 2 / (2 * quadA m (unitVec d)) := by
  have ha := quadA_pos m d hm hd
  unfold hopAllowed
  have h0 : ¬ (0 : ℝ) < -gap := by linarith
  rw [if_neg h0]
  dsimp only
  rw [decide_eq_true_iff]
  simp only [lit_real, quadB]
  push_cast
  rw [lt_div_iff₀ (by linarith)]
  constructor <;> intro h <;> nlinarith

/-- **T2.** the momentum changes only along the rescale direction:
    `m_i (v'_i - v_i) = s · û_i` -/
theorem rescale_parallel (m v d : Fin n → ℝ) (hm : ∀ i, m i ≠ 0) (red : ℝ) (i : Fin n) :
    m i * (rescale m v d red i - v i)
      = smallRoot (quadA m (unitVec d)) (quadB v (unitVec d)) (-(lit 2 * red)) * unitVec d i := by
  unfold rescale
  have := hm i
  field_simp
  ring

/-- `û` is `d` divided by its norm, so the change is along `d` itself -/
theorem unitVec_parallel (d : Fin n → ℝ) (i : Fin n) :
    unitVec d i = d i / Real.sqrt (normSqV d) := by
  simp [unitVec]

theorem bigRoot_is_root (a b c : ℝ) (ha : a ≠ 0) (hd : 0 ≤ b * b - 4 * a * c) :
    a * bigRoot a b c ^ 2 + b * bigRoot a b c + c = 0 := by
  unfold bigRoot
  by_cases hc : c < 0 ∨ 0 < c
  · rw [if_pos hc]
    simp only [lit_real, sqrt_real]
    push_cast
    set r := Real.sqrt (b * b - 4 * a * c) with hr
    have hr2 : r * r = b * b - 4 * a * c := Real.mul_self_sqrt hd
    have root : ∀ q : ℝ, q * q + b * q + a * c = 0 → a * (q / a) ^ 2 + b * (q / a) + c = 0 := by
      intro q key
      have : a * (q / a) ^ 2 + b * (q / a) + c = (q * q + b * q + a * c) / a := by
        field_simp
      rw [this, key]; simp
    by_cases hb : b < 0
    · simp only [hb, if_true]; apply root; nlinarith [hr2]
    · simp only [hb, if_false]; apply root; nlinarith [hr2]
  · rw [if_neg hc]
    have : c = 0 := by
      have h1 := not_lt.mp (fun h => hc (Or.inl h)); have h2 := not_lt.mp (fun h => hc (Or.inr h))
      linarith
    subst this
    field_simp
    ring

/-- **T3.** the root applied is the one of smaller magnitude ("the smallest amount") -/
theorem smallest_root (a b c : ℝ) (ha : a ≠ 0) (hd : 0 ≤ b * b - 4 * a * c) :
    |smallRoot a b c| ≤ |bigRoot a b c| := by
  unfold smallRoot bigRoot
  by_cases hc : c < 0 ∨ 0 < c
  · rw [if_pos hc, if_pos hc]
    simp only [lit_real, sqrt_real]
    push_cast
    set r := Real.sqrt (b * b - 4 * a * c) with hr
    have hr2 : r * r = b * b - 4 * a * c := Real.mul_self_sqrt hd
    have hr0 : 0 ≤ r := Real.sqrt_nonneg _
    have hc0 : c ≠ 0 := by rcases hc with h | h <;> [exact ne_of_lt h; exact ne_of_gt h]
    -- |c/q| ≤ |q/a|  ⇔  |a c| ≤ q²
    have main : ∀ q : ℝ, q ≠ 0 → |a * c| ≤ q * q → |c / q| ≤ |q / a| := by
      intro q hq h
      rw [abs_div, abs_div, div_le_div_iff₀ (abs_pos.mpr hq) (abs_pos.mpr ha)]
      calc |c| * |a| = |a * c| := by rw [abs_mul, mul_comm]
        _ ≤ q * q := h
        _ = |q| * |q| := (abs_mul_abs_self q).symm
    have hac : |a * c| ≤ (b * b + r * r) / 4 + 0 := by
      rw [abs_le]; constructor <;> nlinarith [mul_self_nonneg b]
    by_cases hb : b < 0
    · simp only [hb, if_true]
      have hq : -(b - r) / 2 ≠ 0 := by
        intro h
        have : r = b := by linarith
        linarith
      apply main _ hq
      have : (-(b - r) / 2) * (-(b - r) / 2) = (b * b + r * r) / 4 + (-b) * r / 2 := by ring
      rw [this]
      have : 0 ≤ (-b) * r := mul_nonneg (by linarith) hr0
      linarith
    · simp only [hb, if_false]
      have hb0 : 0 ≤ b := not_lt.mp hb
      have hq : -(b + r) / 2 ≠ 0 := by
        intro h
        have h1 : r = 0 := by linarith
        have h2 : b = 0 := by linarith
        rw [h1, h2] at hr2
        have : a * c = 0 := by linarith
        rcases mul_eq_zero.mp this with h | h <;> contradiction
      apply main _ hq
      have : (-(b + r) / 2) * (-(b + r) / 2) = (b * b + r * r) / 4 + b * r / 2 := by ring
      rw [this]
      have : 0 ≤ b * r := mul_nonneg hb0 hr0
      linarith
  · rw [if_neg hc, if_neg hc]
    simp

/-- both outcomes of `hop_to_it` log the attempted pair `(source, target)` -/
theorem hop_event_fields {N : ℕ} (m v d : Fin n → ℝ) (E : Fin N → ℝ) (s t : Fin N) :
    (hopToIt m v d E s t).evFrom = s.val ∧ (hopToIt m v d E s t).evTo = t.val := by
  unfold hopToIt
  dsimp only
  split <;> exact ⟨rfl, rfl⟩

/-- non-vacuity of `hop_allowed_up_iff`: a frustrated and an allowed upward hop in 2-D -/
example : ∃ (m d : Fin 2 → ℝ), (∀ i, 0 < m i) ∧ (∃ i, d i ≠ 0) :=
  ⟨![1, 3], ![1, 2], by intro i; fin_cases i <;> simp, ⟨0, by simp⟩⟩

end Mud.C04

/-
  C11 — A-FSSH moments stay Hermitian and are re-centred correctly at hops and collapses.

  Subject: MudModel/AFSSH.lean at `ℝ`/`ℂ`, any number of states `N`, any target index.

  * `hop_shift_target_zero`, `hop_shift_differences`, `hop_shift_hermitian_diag`
                              after an accepted hop to `t`: the diagonal moment of `t` vanishes, all differences of
                              diagonal moments are unchanged (any N, any t)
  * `pinned_hop_shift_wrong`  the originally pinned loop (subtraction through a view) leaves states above the target
                              unshifted: witness N = 2, target 0
  * `moment_rhs_hermitian`    `-i[H,X] + S` is Hermitian for Hermitian H, X, S
  * `delR_rk4_hermitian`, `delP_rk4_hermitian`   both RK4 moment integrators preserve Hermiticity exactly (4 sub-steps, any dt)
  * `hadamard_phase_hermitian`, `delR_exp_hermitian`  the exponential position-moment integrator preserves Hermiticity
  * `collapse_moments_zero`   after a collapse the moments are zero (and ρ is the pure active state: `C02.collapse_pure`)
  Partial (DESIGN §7 C11): Hermiticity of the exponential momentum-moment integrator (`delPexp`, a three-index
  expression) is not closed in Lean — it is checked on the implementation; agreement of the two integrators as dt→0
  is an asymptotic statement, tested numerically.
-/
import MudProof.Properties.C02
import MudModel.AFSSH
import Mathlib.Tactic

namespace Mud.C11
open Mud Matrix Complex

variable {N : ℕ}

/-! ### the shift at a hop -/

theorem hop_shift_target_zero (d : Fin N → ℂ) (t : Fin N) : hopUpdate d t t = 0 := by
  simp [hopUpdate]

theorem hop_shift_differences (d : Fin N → ℂ) (t i j : Fin N) :
    hopUpdate d t i - hopUpdate d t j = d i - d j := by
  simp [hopUpdate]

/-- real diagonal moments stay real (Hermiticity of the diagonal) -/
theorem hop_shift_hermitian_diag (d : Fin N → ℂ) (t : Fin N) (h : ∀ i, (d i).im = 0) (i : Fin N) :
    (hopUpdate d t i).im = 0 := by
  simp [hopUpdate, h i, h t]

/-- **counterexample for the pinned tree**: two states, hop to state 0 with diagonal moments (1, 3):
    the pinned loop returns (0, 3) — state 1 is not shifted — instead of (0, 2) -/
theorem pinned_hop_shift_wrong :
    hopUpdatePinned (![1, 3] : Fin 2 → ℝ) 0 1 = 3 ∧ hopUpdate (![1, 3] : Fin 2 → ℝ) 0 1 = 2 := by
  constructor
  · simp [hopUpdatePinned]
  · simp [hopUpdate]; norm_num

/-- the pinned loop is right for states below the target and for the target itself -/
theorem pinned_hop_shift_partial (d : Fin N → ℝ) (t i : Fin N) (h : i.val ≤ t.val) :
    hopUpdatePinned d t i = hopUpdate d t i := by
  unfold hopUpdatePinned hopUpdate
  by_cases hlt : i.val < t.val
  · simp [hlt]
  · have : i = t := Fin.ext (by omega)
    subst this; simp

/-! ### Hermiticity under the rk4 moment integrators -/

theorem moment_rhs_hermitian (H X S : Matrix (Fin N) (Fin N) ℂ) (hH : H.IsHermitian) (hX : X.IsHermitian)
    (hS : S.IsHermitian) : ((-Complex.I) • (H * X - X * H) + S).IsHermitian :=
  (C02.commutator_hermitian H X hH hX).add hS

theorem momentYdot_eq (H S X : Tab (Cx ℝ) N N) :
    toM (momentYdot H S X) = (-Complex.I) • (toM H * toM X - toM X * toM H) + toM S := by
  unfold momentYdot
  simp only
  rw [toM_ofFn]
  ext i j
  simp only [of_apply, toC_add, toC_mulNegI, Matrix.add_apply, Matrix.smul_apply, smul_eq_mul, Matrix.sub_apply]
  rw [← toM_apply (msub _ _), toM_msub, toM_mmul, toM_mmul]
  rfl

/-- the Hermitian matrices as a real subspace -/
def hermSub (N : ℕ) : Submodule ℝ (Matrix (Fin N) (Fin N) ℂ) where
  carrier := {A | A.IsHermitian}
  add_mem' := fun ha hb => Matrix.IsHermitian.add ha hb
  zero_mem' := Matrix.isHermitian_zero
  smul_mem' := fun c A hA => by
    show (c • A).IsHermitian
    unfold Matrix.IsHermitian at *
    rw [conjTranspose_smul, hA]; simp

/-- an RK4 run of `Ẋ = -i[H,X] + S` keeps `X` Hermitian, for any step count and step size -/
theorem moment_rk4_hermitian (H S X0 : Tab (Cx ℝ) N N) (dt : ℝ) (ns : ℕ) (hH : (toM H).IsHermitian)
    (hS : (toM S).IsHermitian) (hX : (toM X0).IsHermitian) :
    (toM (rk4 (α := ℝ) madd msmul (fun X _ => momentYdot H S X) 0 dt ns X0)).IsHermitian := by
  have tr := C02.rk4_transport (Y := Matrix (Fin N) (Fin N) ℂ) toM toM_madd
    (fun c a => by rw [toM_msmul]; rfl)
    (fun X _ => momentYdot H S X)
    (fun Y _ => (-Complex.I) • (toM H * Y - Y * toM H) + toM S)
    (fun a _ => momentYdot_eq H S a) 0 dt ns X0
  rw [tr]
  exact C02.rk4_invariant (hermSub N) _ (fun y _ hy => moment_rhs_hermitian _ _ _ hH hy hS) 0 dt ns _ hX

/-- **`advance_delR`, rk4 branch** preserves Hermiticity (Hermitian H, δR, δP; real mass) -/
theorem delR_rk4_hermitian (H R P : Tab (Cx ℝ) N N) (dt mass : ℝ) (hH : (toM H).IsHermitian)
    (hR : (toM R).IsHermitian) (hP : (toM P).IsHermitian) : (toM (delRrk4 H dt mass R P)).IsHermitian := by
  unfold delRrk4
  apply moment_rk4_hermitian _ _ _ _ _ hH _ hR
  ext i j
  have := congrFun (congrFun hP.eq i) j
  simp only [conjTranspose_apply, toM_apply] at this ⊢
  simp only [Tab.get_ofFn, delRrk4.Cx.divR']
  apply Complex.ext
  · have h1 := congrArg Complex.re this
    simp at h1 ⊢; rw [h1]
  · have h1 := congrArg Complex.im this
    simp at h1 ⊢
    rw [← h1]; ring

/-- **`advance_delP`, rk4 branch** preserves Hermiticity (Hermitian H, δP, ρ; symmetric real δF) -/
theorem delP_rk4_hermitian (H P rho : Tab (Cx ℝ) N N) (dF : Tab ℝ N N) (dt : ℝ) (hH : (toM H).IsHermitian)
    (hP : (toM P).IsHermitian) (hrho : (toM rho).IsHermitian) (hF : ∀ i j, dF.get i j = dF.get j i) :
    (toM (delPrk4 H dt P dF rho)).IsHermitian := by
  unfold delPrk4
  apply moment_rk4_hermitian _ _ _ _ _ hH _ hP
  -- ½(δF ρ + ρ δF) is Hermitian
  have hFh : (toM (mofReal dF)).IsHermitian := by
    rw [toM_mofReal]
    ext i j
    simp [toMR, conjTranspose_apply, hF j i]
  have hs : (toM (madd (mmul (mofReal dF) rho) (mmul rho (mofReal dF)))).IsHermitian := by
    rw [toM_madd, toM_mmul, toM_mmul]
    unfold Matrix.IsHermitian at *
    rw [conjTranspose_add, conjTranspose_mul, conjTranspose_mul, hFh, hrho, add_comm]
  ext i j
  have := congrFun (congrFun hs.eq i) j
  simp only [conjTranspose_apply, toM_apply, Tab.get_ofFn, toC_smul, frac_real] at this ⊢
  rw [star_mul', this]
  simp

/-! ### the exponential position-moment integrator -/

/-- multiplying a Hermitian matrix entrywise by phases `θ_ij` with `θ_ji = conj θ_ij` keeps it Hermitian -/
theorem hadamard_phase_hermitian (A Θ : Matrix (Fin N) (Fin N) ℂ) (hA : A.IsHermitian) (hΘ : Θ.IsHermitian) :
    (Matrix.of (fun i j => A i j * Θ i j)).IsHermitian := by
  ext i j
  have h1 := congrFun (congrFun hA.eq i) j
  have h2 := congrFun (congrFun hΘ.eq i) j
  simp only [conjTranspose_apply, of_apply] at h1 h2 ⊢
  rw [star_mul', h1, h2]

theorem expiht_hermitian (eps : Fin N → ℝ) (dt : ℝ) : (toM (expiht eps dt)).IsHermitian := by
  ext i j
  simp only [conjTranspose_apply, toM_apply, expiht, Tab.get_ofFn, toC_expI]
  rw [Complex.star_def, ← Complex.exp_conj]
  congr 1
  simp [Complex.conj_ofReal]
  ring

/-- **`advance_delR`, exp branch** preserves Hermiticity (any unitary-or-not `co`; Hermitian δR, δP) -/
theorem delR_exp_hermitian (eps : Fin N → ℝ) (co R P : Tab (Cx ℝ) N N) (dt mass : ℝ)
    (hR : (toM R).IsHermitian) (hP : (toM P).IsHermitian) : (toM (delRexp eps co dt mass R P)).IsHermitian := by
  unfold delRexp
  simp only
  rw [toM_mmul, toM_mmul, toM_mH]
  apply C02.conj_hermitian
  rw [toM_mhad]
  apply hadamard_phase_hermitian _ _ _ (expiht_hermitian eps dt)
  -- RR + δV dt, both conjugated by co
  have hdelV : (toM (Tab.ofFn (fun i j => (⟨(P.get i j).re / mass, (P.get i j).im / mass⟩ : Cx ℝ)))).IsHermitian := by
    ext i j
    have := congrFun (congrFun hP.eq i) j
    simp only [conjTranspose_apply, toM_apply, Tab.get_ofFn] at this ⊢
    apply Complex.ext
    · have h1 := congrArg Complex.re this
      simp at h1 ⊢; rw [h1]
    · have h1 := congrArg Complex.im this
      simp at h1 ⊢
      rw [← h1]; ring
  have hrr : (toM (mmul (mmul (mH co) R) co)).IsHermitian := by
    rw [toM_mmul, toM_mmul, toM_mH]
    have := C02.conj_hermitian (toM co)ᴴ (toM R) hR
    rwa [conjTranspose_conjTranspose] at this
  have hdv : (toM (mmul (mmul (mH co) (Tab.ofFn (fun i j => (⟨(P.get i j).re / mass, (P.get i j).im / mass⟩ : Cx ℝ)))) co)).IsHermitian := by
    rw [toM_mmul, toM_mmul, toM_mH]
    have := C02.conj_hermitian (toM co)ᴴ _ hdelV
    rwa [conjTranspose_conjTranspose] at this
  ext i j
  have h1 := congrFun (congrFun hrr.eq i) j
  have h2 := congrFun (congrFun hdv.eq i) j
  simp only [conjTranspose_apply, toM_apply, Tab.get_ofFn, toC_add, toC_smul] at h1 h2 ⊢
  rw [star_add, star_mul', h1, h2]
  simp

/-- after a collapse the moments are identically zero -/
theorem collapse_moments_zero (n : ℕ) : ∀ (x : Fin n) (i j : Fin N),
    (fun (_ : Fin n) (_ _ : Fin N) => (0 : ℂ)) x i j = 0 := fun _ _ _ => rfl

end Mud.C11

/-
  C11 — A-FSSH moments stay Hermitian and are re-centred correctly at hops and collapses.

  Subject: MudModel/AFSSH.lean at `ℝ`/`ℂ`, any number of states `N`, any target index.

  * `hop_shift_target_zero`, `hop_shift_differences`, `hop_shift_hermitian_diag`
                              after an accepted hop to `t`: the diagonal moment of `t` vanishes, all differences of
                              diagonal moments are unchanged (any N, any t)
  * `pinned_hop_shift_wrong`  the originally pinned loop (subtraction through a view) leaves states above the target
                              unshifted: witness N = 2, target 0
  * `moment_rhs_hermitian`    `-i[H,X] + S` is Hermitian for Hermitian H, X, S
  * `delR_rk4_hermitian`, `delP_rk4_hermitian`   both RK4 moment integrators preserve Hermiticity exactly (4 sub-steps, any dt)
  * `hadamard_phase_hermitian`, `delR_exp_hermitian`  the exponential position-moment integrator preserves Hermiticity
  * `collapse_moments_zero`   after a collapse the moments are zero (and ρ is the pure active state: `C02.collapse_pure`)
  Collapse rate and collapse loop (MudModel/Collapse.lean = `gamma_collapse` + the loop in `surface_hopping`):
  * `gamma_active_zero`, `gamma_zero_of_equal_moments`, `gamma_formula` (with `sign_factor`: ddR·sign(ddR/ddP) = |ddR|·sign(ddP))
  * `collapseScan_sound`, `collapseScan_nil_iff`   an event is recorded exactly for the visited states whose random
                              number fell below their rate, with that state and rate in the event
  * `otherStates_spec`, `otherStates_length`   the loop visits every state but the active one once, in index order: N−1 draws
  * `no_collapse_of_nonpos`   no collapse while all rates ≤ 0 (e.g. zero moments) and random numbers ≥ 0
  * `collapseStep_spec`, `collapse_gives_pure_active`   a collapse resets ρ to the pure ACTIVE state (valid, idempotent,
                              trace one) and zeroes both moments; without an event nothing changes
  * `poissonScaleC_conj`, `ff_hermitian`, `delP_exp_hermitian`   the exponential momentum-moment integrator preserves Hermiticity
                              too (the source term with the three-index Poisson factors is Hermitian because the scale
                              function commutes with complex conjugation)
  Partial (DESIGN §7 C11): agreement of the two integrators as dt→0 is an asymptotic statement, tested numerically.
-/
import MudProof.Properties.C02
import MudModel.AFSSH
import MudModel.Collapse
import Mathlib.Tactic

namespace Mud.C11
open Mud Matrix Complex

variable {N : ℕ}

/-! ### the shift at a hop -/

theorem hop_shift_target_zero (d : Fin N → ℂ) (t : Fin N) : hopUpdate d t t = 0 := by
  simp [hopUpdate]

theorem hop_shift_differences (d : Fin N → ℂ) (t i j : Fin N) :
    hopUpdate d t i - hopUpdate d t j = d i - d j := by
  simp [hopUpdate]

/-- real diagonal moments stay real (Hermiticity of the diagonal) -/
theorem hop_shift_hermitian_diag (d : Fin N → ℂ) (t : Fin N) (h : ∀ i, (d i).im = 0) (i : Fin N) :
    (hopUpdate d t i).im = 0 := by
  simp [hopUpdate, h i, h t]

/-- **counterexample for the pinned tree**: two states, hop to state 0 with diagonal moments (1, 3):
    the pinned loop returns (0, 3) — state 1 is not shifted — instead of (0, 2) -/
theorem pinned_hop_shift_wrong :
    hopUpdatePinned (![1, 3] : Fin 2 → ℝ) 0 1 = 3 ∧ hopUpdate (![1, 3] : Fin 2 → ℝ) 0 1 = 2 := by
  constructor
  · simp [hopUpdatePinned]
  · simp [hopUpdate]; norm_num

/-- the pinned loop is right for states below the target and for the target itself -/
theorem pinned_hop_shift_partial (d : Fin N → ℝ) (t i : Fin N) (h : i.val ≤ t.val) :
    hopUpdatePinned d t i = hopUpdate d t i := by
  unfold hopUpdatePinned hopUpdate
  by_cases hlt : i.val < t.val
  · simp [hlt]
  · have : i = t := Fin.ext (by omega)
    subst this; simp

/-! ### Hermiticity under the rk4 moment integrators -/

theorem moment_rhs_hermitian (H X S : Matrix (Fin N) (Fin N) ℂ) (hH : H.IsHermitian) (hX : X.IsHermitian)
    (hS : S.IsHermitian) : ((-Complex.I) • (H * X - X * H) + S).IsHermitian :=
  (C02.commutator_hermitian H X hH hX).add hS

theorem momentYdot_eq (H S X : Tab (Cx ℝ) N N) :
    toM (momentYdot H S X) = (-Complex.I) • (toM H * toM X - toM X * toM H) + toM S := by
  unfold momentYdot
  simp only
  rw [toM_ofFn]
  ext i j
  simp only [of_apply, toC_add, toC_mulNegI, Matrix.add_apply, Matrix.smul_apply, smul_eq_mul, Matrix.sub_apply]
  rw [← toM_apply (msub _ _), toM_msub, toM_mmul, toM_mmul]
  rfl

/-- the Hermitian matrices as a real subspace -/
def hermSub (N : ℕ) : Submodule ℝ (Matrix (Fin N) (Fin N) ℂ) where
  carrier := {A | A.IsHermitian}
  add_mem' := fun ha hb => Matrix.IsHermitian.add ha hb
  zero_mem' := Matrix.isHermitian_zero
  smul_mem' := fun c A hA => by
    show (c • A).IsHermitian
    unfold Matrix.IsHermitian at *
    rw [conjTranspose_smul, hA]; simp

/-- an RK4 run of `Ẋ = -i[H,X] + S` keeps `X` Hermitian, for any step count and step size -/
theorem moment_rk4_hermitian (H S X0 : Tab (Cx ℝ) N N) (dt : ℝ) (ns : ℕ) (hH : (toM H).IsHermitian)
    (hS : (toM S).IsHermitian) (hX : (toM X0).IsHermitian) :
    (toM (rk4 (α := ℝ) madd msmul (fun X _ => momentYdot H S X) 0 dt ns X0)).IsHermitian := by
  have tr := C02.rk4_transport (Y := Matrix (Fin N) (Fin N) ℂ) toM toM_madd
    (fun c a => by rw [toM_msmul]; rfl)
    (fun X _ => momentYdot H S X)
    (fun Y _ => (-Complex.I) • (toM H * Y - Y * toM H) + toM S)
    (fun a _ => momentYdot_eq H S a) 0 dt ns X0
  rw [tr]
  exact C02.rk4_invariant (hermSub N) _ (fun y _ hy => moment_rhs_hermitian _ _ _ hH hy hS) 0 dt ns _ hX

/-- **`advance_delR`, rk4 branch** preserves Hermiticity (Hermitian H, δR, δP; real mass) -/
theorem delR_rk4_hermitian (H R P : Tab (Cx ℝ) N N) (dt mass : ℝ) (hH : (toM H).IsHermitian)
    (hR : (toM R).IsHermitian) (hP : (toM P).IsHermitian) : (toM (delRrk4 H dt mass R P)).IsHermitian := by
  unfold delRrk4
  apply moment_rk4_hermitian _ _ _ _ _ hH _ hR
  ext i j
  have := congrFun (congrFun hP.eq i) j
  simp only [conjTranspose_apply, toM_apply] at this ⊢
  simp only [Tab.get_ofFn, delRrk4.Cx.divR']
  apply Complex.ext
  · have h1 := congrArg Complex.re this
    simp at h1 ⊢; rw [h1]
  · have h1 := congrArg Complex.im this
    simp at h1 ⊢
    rw [← h1]; ring

/-- **`advance_delP`, rk4 branch** preserves Hermiticity (Hermitian H, δP, ρ; symmetric real δF) -/
theorem delP_rk4_hermitian (H P rho : Tab (Cx ℝ) N N) (dF : Tab ℝ N N) (dt : ℝ) (hH : (toM H).IsHermitian)
    (hP : (toM P).IsHermitian) (hrho : (toM rho).IsHermitian) (hF : ∀ i j, dF.get i j = dF.get j i) :
    (toM (delPrk4 H dt P dF rho)).IsHermitian := by
  unfold delPrk4
  apply moment_rk4_hermitian _ _ _ _ _ hH _ hP
  -- ½(δF ρ + ρ δF) is Hermitian
  have hFh : (toM (mofReal dF)).IsHermitian := by
    rw [toM_mofReal]
    ext i j
    simp [toMR, conjTranspose_apply, hF j i]
  have hs : (toM (madd (mmul (mofReal dF) rho) (mmul rho (mofReal dF)))).IsHermitian := by
    rw [toM_madd, toM_mmul, toM_mmul]
    unfold Matrix.IsHermitian at *
    rw [conjTranspose_add, conjTranspose_mul, conjTranspose_mul, hFh, hrho, add_comm]
  ext i j
  have := congrFun (congrFun hs.eq i) j
  simp only [conjTranspose_apply, toM_apply, Tab.get_ofFn, toC_smul, frac_real] at this ⊢
  rw [star_mul', this]
  simp

/-! ### the exponential position-moment integrator -/

/-- multiplying a Hermitian matrix entrywise by phases `θ_ij` with `θ_ji = conj θ_ij` keeps it Hermitian -/
theorem hadamard_phase_hermitian (A Θ : Matrix (Fin N) (Fin N) ℂ) (hA : A.IsHermitian) (hΘ : Θ.IsHermitian) :
    (Matrix.of (fun i j => A i j * Θ i j)).IsHermitian := by
  ext i j
  have h1 := congrFun (congrFun hA.eq i) j
  have h2 := congrFun (congrFun hΘ.eq i) j
  simp only [conjTranspose_apply, of_apply] at h1 h2 ⊢
  rw [star_mul', h1, h2]

theorem expiht_hermitian (eps : Fin N → ℝ) (dt : ℝ) : (toM (expiht eps dt)).IsHermitian := by
  ext i j
  simp only [conjTranspose_apply, toM_apply, expiht, Tab.get_ofFn, toC_expI]
  rw [Complex.star_def, ← Complex.exp_conj]
  congr 1
  simp [Complex.conj_ofReal]
  ring

/-- **`advance_delR`, exp branch** preserves Hermiticity (any unitary-or-not `co`; Hermitian δR, δP) -/
theorem delR_exp_hermitian (eps : Fin N → ℝ) (co R P : Tab (Cx ℝ) N N) (dt mass : ℝ)
    (hR : (toM R).IsHermitian) (hP : (toM P).IsHermitian) : (toM (delRexp eps co dt mass R P)).IsHermitian := by
  unfold delRexp
  simp only
  rw [toM_mmul, toM_mmul, toM_mH]
  apply C02.conj_hermitian
  rw [toM_mhad]
  apply hadamard_phase_hermitian _ _ _ (expiht_hermitian eps dt)
  -- RR + δV dt, both conjugated by co
  have hdelV : (toM (Tab.ofFn (fun i j => (⟨(P.get i j).re / mass, (P.get i j).im / mass⟩ : Cx ℝ)))).IsHermitian := by
    ext i j
    have := congrFun (congrFun hP.eq i) j
    simp only [conjTranspose_apply, toM_apply, Tab.get_ofFn] at this ⊢
    apply Complex.ext
    · have h1 := congrArg Complex.re this
      simp at h1 ⊢; rw [h1]
    · have h1 := congrArg Complex.im this
      simp at h1 ⊢
      rw [← h1]; ring
  have hrr : (toM (mmul (mmul (mH co) R) co)).IsHermitian := by
    rw [toM_mmul, toM_mmul, toM_mH]
    have := C02.conj_hermitian (toM co)ᴴ (toM R) hR
    rwa [conjTranspose_conjTranspose] at this
  have hdv : (toM (mmul (mmul (mH co) (Tab.ofFn (fun i j => (⟨(P.get i j).re / mass, (P.get i j).im / mass⟩ : Cx ℝ)))) co)).IsHermitian := by
    rw [toM_mmul, toM_mmul, toM_mH]
    have := C02.conj_hermitian (toM co)ᴴ _ hdelV
    rwa [conjTranspose_conjTranspose] at this
  ext i j
  have h1 := congrFun (congrFun hrr.eq i) j
  have h2 := congrFun (congrFun hdv.eq i) j
  simp only [conjTranspose_apply, toM_apply, Tab.get_ofFn, toC_add, toC_smul] at h1 h2 ⊢
  rw [star_add, star_mul', h1, h2]
  simp

/-! ### the exponential momentum-moment integrator (`advance_delP`, exp branch) -/

theorem cx_ext {a b : Cx ℝ} (h1 : a.re = b.re) (h2 : a.im = b.im) : a = b := by
  cases a; cases b; simp_all

/-- `poisson_prob_scale` commutes with complex conjugation (series and closed form have real coefficients; the switch
    depends on |x| only) -/
theorem poissonScaleC_conj (z : Cx ℝ) : poissonScaleC (Cx.conj z) = Cx.conj (poissonScaleC z) := by
  have hs : poissonSmallC (Cx.conj z) = poissonSmallC z := by
    simp [poissonSmallC, Cx.conj, Cx.normSq]
  unfold poissonScaleC
  rw [hs]
  split
  · apply cx_ext <;> simp [poissonSeriesC, Cx.conj, Cx.divR] <;> ring
  · apply cx_ext <;>
      simp [poissonClosedC, Cx.div, Cx.expm1, Cx.conj, Real.sin_neg, Real.cos_neg, neg_div] <;> ring

/-- the source term of the exponential momentum-moment integrator is Hermitian: abstract form -/
theorem ff_hermitian (D R : Matrix (Fin N) (Fin N) ℂ) (hD : D.IsHermitian) (hR : R.IsHermitian)
    (p : Fin N → Fin N → Fin N → ℂ) (c : ℝ) :
    (Matrix.of (fun i j => (c : ℂ) * ((∑ k, D i k * R k j * p j i k) + ∑ k, R i k * D k j * star (p i j k)))).IsHermitian := by
  ext i j
  have hD' : ∀ a b, star (D a b) = D b a := fun a b => by
    have := congrFun (congrFun hD.eq b) a; simpa [conjTranspose_apply] using this
  have hR' : ∀ a b, star (R a b) = R b a := fun a b => by
    have := congrFun (congrFun hR.eq b) a; simpa [conjTranspose_apply] using this
  simp only [conjTranspose_apply, of_apply, star_mul', star_add, star_sum, star_star, hD', hR']
  have hc : star (c : ℂ) = (c : ℂ) := by simp
  rw [hc, add_comm]
  congr 2
  · apply Finset.sum_congr rfl; intro k _; ring
  · apply Finset.sum_congr rfl; intro k _; ring

/-- **`advance_delP`, exp branch** preserves Hermiticity: Hermitian δP and ρ, symmetric δF (any `co`, any `dt`) -/
theorem delP_exp_hermitian (eps : Fin N → ℝ) (co P rho : Tab (Cx ℝ) N N) (dF : Tab ℝ N N) (dt : ℝ)
    (hP : (toM P).IsHermitian) (hρ : (toM rho).IsHermitian) (hF : ∀ i j, dF.get i j = dF.get j i) :
    (toM (delPexp eps co dt P dF rho)).IsHermitian := by
  unfold delPexp
  simp only
  rw [toM_mmul, toM_mmul, toM_mH]
  apply C02.conj_hermitian
  rw [toM_mhad]
  apply hadamard_phase_hermitian _ _ _ (expiht_hermitian eps dt)
  rw [toM_madd]
  apply Matrix.IsHermitian.add
  · rw [toM_mmul, toM_mmul, toM_mH]
    have := C02.conj_hermitian (toM co)ᴴ (toM P) hP
    rwa [conjTranspose_conjTranspose] at this
  · -- the source term
    have hDF : (toM (mofReal dF)).IsHermitian := by
      ext i j
      simp only [conjTranspose_apply, toM_mofReal, toMR, of_apply]
      rw [hF j i]; simp
    have hD : (toM (mmul (mmul (mH co) (mofReal dF)) co)).IsHermitian := by
      rw [toM_mmul, toM_mmul, toM_mH]
      have := C02.conj_hermitian (toM co)ᴴ _ hDF
      rwa [conjTranspose_conjTranspose] at this
    have hR : (toM (mmul (mmul (mH co) rho) co)).IsHermitian := by
      rw [toM_mmul, toM_mmul, toM_mH]
      have := C02.conj_hermitian (toM co)ᴴ _ hρ
      rwa [conjTranspose_conjTranspose] at this
    have key := ff_hermitian _ _ hD hR
      (fun i j k => toC (Cx.smul dt (-(poissonScaleC (⟨0, (2 * eps i - (eps j + eps k)) * dt⟩ : Cx ℝ))))) (-(1 / 2))
    convert key using 2
    ext i j
    simp only [toM_apply, Tab.get_ofFn, toC_smul, toC_add, toC_vsum, toC_mul, of_apply, lit_real, frac_real]
    have hconj : ∀ a b c : Fin N,
        (dt : ℂ) * toC (-(poissonScaleC (⟨0, -(((2 : ℕ) : ℝ) * eps a - (eps b + eps c)) * dt⟩ : Cx ℝ)))
          = star ((dt : ℂ) * toC (-(poissonScaleC (⟨0, (2 * eps a - (eps b + eps c)) * dt⟩ : Cx ℝ)))) := by
      intro a b c
      have e : (⟨0, -(((2 : ℕ) : ℝ) * eps a - (eps b + eps c)) * dt⟩ : Cx ℝ) = Cx.conj ⟨0, (2 * eps a - (eps b + eps c)) * dt⟩ := by
        apply cx_ext
        · simp [Cx.conj]
        · simp [Cx.conj]; ring
      rw [e, poissonScaleC_conj]
      simp only [toC_neg, toC_conj, star_mul', star_neg]
      simp
    simp only [hconj]
    norm_num

/-- after a collapse the moments are identically zero -/
theorem collapse_moments_zero (n : ℕ) : ∀ (x : Fin n) (i j : Fin N),
    (fun (_ : Fin n) (_ _ : Fin N) => (0 : ℂ)) x i j = 0 := fun _ _ _ => rfl

/-! ### the collapse rate (`gamma_collapse`) and the collapse loop of `surface_hopping` -/

section collapse
variable {N n : ℕ}

/-- the active state never collapses onto itself: its rate is zero -/
theorem gamma_active_zero (k : Fin N) (R P : Fin n → Fin N → ℝ) (F : Fin N → Fin n → ℝ) (dt : ℝ) :
    gammaCollapse k R P F dt k = 0 := by
  simp [gammaCollapse]

/-- `np.sign` at ℝ -/
theorem sgn_real (x : ℝ) : sgn x = if 0 < x then 1 else if x < 0 then -1 else 0 := rfl

theorem sgn_mul_self (x : ℝ) : x * sgn x = |x| := by
  rw [sgn_real]
  rcases lt_trichotomy 0 x with h | h | h
  · simp [h, abs_of_pos h]
  · subst h; simp
  · simp [h, not_lt.mpr h.le, abs_of_neg h]

/-- the sign factor: for a non-zero momentum difference, `ddR * sign(ddR/ddP) = |ddR| * sign(ddP)` -/
theorem sign_factor (r p : ℝ) (hp : p ≠ 0) : r * sgn (r / p) = |r| * sgn p := by
  rw [sgn_real, sgn_real]
  rcases lt_trichotomy 0 p with hp' | hp' | hp'
  · rcases lt_trichotomy 0 r with hr | hr | hr
    · simp [hp', div_pos hr hp', abs_of_pos hr]
    · subst hr; simp
    · have : r / p < 0 := div_neg_of_neg_of_pos hr hp'
      simp [hp', this, not_lt.mpr this.le, abs_of_neg hr]
  · exact absurd hp'.symm hp
  · rcases lt_trichotomy 0 r with hr | hr | hr
    · have : r / p < 0 := div_neg_of_pos_of_neg hr hp'
      simp [hp', not_lt.mpr hp'.le, this, not_lt.mpr this.le, abs_of_pos hr]
    · subst hr; simp
    · have : 0 < r / p := div_pos_of_neg_of_neg hr hp'
      simp [hp', not_lt.mpr hp'.le, this, abs_of_neg hr]

/-- **Eq. (55) as the code evaluates it**: for `i ≠ k` with non-zero momentum differences in every dimension
    `gamma_i = (dt/2) Σ_x (F_k - F_i)_x |δR_k - δR_i|_x sign(δP_k - δP_i)_x` -/
theorem gamma_formula (k i : Fin N) (hik : i ≠ k) (R P : Fin n → Fin N → ℝ) (F : Fin N → Fin n → ℝ) (dt : ℝ)
    (hP : ∀ x, P x k - P x i ≠ 0) :
    gammaCollapse k R P F dt i
      = (1 / 2) * (∑ x, (F k x - F i x) * (|R x k - R x i| * sgn (P x k - P x i))) * dt := by
  simp only [gammaCollapse, hik, if_false, vsum_eq_sum, frac_real]
  congr 2
  · norm_num
  · apply Finset.sum_congr rfl
    intro x _
    have h0 : (0 : ℝ) < HasAbs.abs (P x k - P x i) := abs_pos.mpr (hP x)
    simp only [h0, if_true]
    rw [sign_factor _ _ (hP x)]

/-- equal position moments (e.g. right after a collapse, or before any moment has built up) give rate zero -/
theorem gamma_zero_of_equal_moments (k i : Fin N) (R P : Fin n → Fin N → ℝ) (F : Fin N → Fin n → ℝ) (dt : ℝ)
    (hR : ∀ x, R x i = R x k) : gammaCollapse k R P F dt i = 0 := by
  by_cases hik : i = k
  · subst hik; exact gamma_active_zero _ _ _ _ _
  · simp only [gammaCollapse, hik, if_false, vsum_eq_sum]
    rw [Finset.sum_eq_zero]
    · ring
    · intro x _
      rw [hR x]; simp

/-! #### the collapse loop -/

/-- every recorded collapse names a visited state, carries that state's rate, and was triggered by a random number
    below the rate -/
theorem collapseScan_sound (g : ℕ → ℝ) (is : List ℕ) (es : List ℝ) (ev : CollapseEvent ℝ)
    (h : ev ∈ collapseScan g is es) :
    ev.removed ∈ is ∧ ev.gamma = g ev.removed ∧ ∃ e ∈ es, e < g ev.removed := by
  induction is generalizing es with
  | nil => simp [collapseScan] at h
  | cons i is ih =>
    cases es with
    | nil => simp [collapseScan] at h
    | cons e es =>
      simp only [collapseScan, List.mem_append] at h
      rcases h with h | h
      · by_cases he : e < g i
        · simp only [he, if_true, List.mem_singleton] at h
          subst h
          exact ⟨by simp, rfl, e, by simp, he⟩
        · simp [he] at h
      · obtain ⟨a, b, e', he', hlt⟩ := ih es h
        exact ⟨List.mem_cons_of_mem _ a, b, e', List.mem_cons_of_mem _ he', hlt⟩

/-- completeness: nothing is recorded iff no visited state's random number fell below its rate -/
theorem collapseScan_nil_iff (g : ℕ → ℝ) (is : List ℕ) (es : List ℝ) (hlen : is.length ≤ es.length) :
    collapseScan g is es = [] ↔ ∀ p ∈ is.zip es, ¬ p.2 < g p.1 := by
  induction is generalizing es with
  | nil => simp [collapseScan]
  | cons i is ih =>
    cases es with
    | nil => simp at hlen
    | cons e es =>
      simp only [List.length_cons, Nat.add_le_add_iff_right] at hlen
      simp only [collapseScan, List.append_eq_nil_iff, List.zip_cons_cons, List.mem_cons, forall_eq_or_imp, ih es hlen]
      constructor
      · rintro ⟨h1, h2⟩
        refine ⟨?_, h2⟩
        intro hlt; simp [hlt] at h1
      · rintro ⟨h1, h2⟩
        exact ⟨by simp [h1], h2⟩

/-- the loop never visits the active state, visits every other state once, in index order -/
theorem otherStates_spec (N k : ℕ) : k ∉ otherStates N k ∧ (∀ i, i ∈ otherStates N k ↔ i < N ∧ i ≠ k)
    ∧ (otherStates N k).Pairwise (· < ·) := by
  refine ⟨by simp [otherStates], fun i => by simp [otherStates], ?_⟩
  exact List.Pairwise.filter _ (List.pairwise_lt_range)

private theorem filter_eq_singleton (N k : ℕ) (hk : k < N) :
    (List.range N).filter (fun i => decide (i = k)) = [k] := by
  induction N with
  | zero => omega
  | succ m ih =>
    rw [List.range_succ, List.filter_append]
    by_cases hm : k < m
    · rw [ih hm]
      have : ¬ m = k := by omega
      simp [this]
    · have hkm : k = m := by omega
      subst hkm
      have : (List.range k).filter (fun i => decide (i = k)) = [] := by
        simp only [List.filter_eq_nil_iff, List.mem_range, decide_eq_true_eq]
        intro a ha; omega
      simp [this]

/-- exactly one random number per other state -/
theorem otherStates_length (N k : ℕ) (hk : k < N) : (otherStates N k).length = N - 1 := by
  unfold otherStates
  have h := List.length_eq_length_filter_add (l := List.range N) (fun i => decide (i ≠ k))
  have hc : ((List.range N).filter (fun i => !decide (i ≠ k))).length = 1 := by
    have : (fun i => !decide (i ≠ k)) = (fun i => decide (i = k)) := by funext i; simp
    rw [this, filter_eq_singleton N k hk]; rfl
  simp only [List.length_range] at h
  omega

/-- no collapse is possible while every rate is ≤ 0 and the random numbers are ≥ 0 (`Generator.random` ∈ [0,1)) -/
theorem no_collapse_of_nonpos (g : ℕ → ℝ) (is : List ℕ) (es : List ℝ) (hg : ∀ i, g i ≤ 0) (he : ∀ e ∈ es, 0 ≤ e) :
    collapseScan g is es = [] := by
  by_contra hne
  obtain ⟨ev, hev⟩ := List.exists_mem_of_ne_nil _ hne
  obtain ⟨_, _, e, hemem, hlt⟩ := collapseScan_sound g is es ev hev
  have := he e hemem
  have := hg ev.removed
  linarith

/-- **the collapse step**: if anything was recorded the state is reset (ρ = the pure ACTIVE state handed in, both moments
    zero), otherwise it is untouched; the events are those of the scan over the other states -/
theorem collapseStep_spec {ρ μ : Type} (g : ℕ → ℝ) (N k : ℕ) (es : List ℝ) (pureK : ρ) (zero : μ) (s : CollapseState ρ μ) :
    (collapseStep g N k es pureK zero s).2 = collapseScan g (otherStates N k) es ∧
    ((collapseStep g N k es pureK zero s).2 ≠ [] →
      (collapseStep g N k es pureK zero s).1.rho = pureK ∧ (collapseStep g N k es pureK zero s).1.delR = zero
        ∧ (collapseStep g N k es pureK zero s).1.delP = zero) ∧
    ((collapseStep g N k es pureK zero s).2 = [] → (collapseStep g N k es pureK zero s).1 = s) ∧
    (∀ ev ∈ (collapseStep g N k es pureK zero s).2, ev.removed ≠ k ∧ ev.removed < N) := by
  refine ⟨rfl, ?_, ?_, ?_⟩
  · intro h
    have h' : collapseScan g (otherStates N k) es ≠ [] := h
    have : (collapseScan g (otherStates N k) es).isEmpty = false := by
      cases hc : collapseScan g (otherStates N k) es with
      | nil => exact absurd hc h'
      | cons a l => rfl
    simp [collapseStep, this]
  · intro h
    have h' : collapseScan g (otherStates N k) es = [] := h
    simp [collapseStep, h']
  · intro ev hev
    have hev' : ev ∈ collapseScan g (otherStates N k) es := hev
    have := (collapseScan_sound g _ es ev hev').1
    have hs := (otherStates_spec N k).2.1 ev.removed
    exact ⟨(hs.mp this).2, (hs.mp this).1⟩

/-- with the model's ρ: after a collapse the density matrix is a valid pure state on the ACTIVE state
    (`C02.collapse_pure`), whatever it was before -/
theorem collapse_gives_pure_active {M : ℕ} (k : Fin M) (g : ℕ → ℝ) (es : List ℝ) (rho0 : Matrix (Fin M) (Fin M) ℂ) (μ0 : ℕ)
    (hev : collapseScan g (otherStates M k.val) es ≠ []) :
    let pureK : Matrix (Fin M) (Fin M) ℂ := Matrix.of (fun i j => if i = k ∧ j = k then 1 else 0)
    let r := collapseStep g M k.val es pureK (0 : ℕ) ⟨rho0, μ0, μ0⟩
    r.1.rho * r.1.rho = r.1.rho ∧ r.1.rho.IsHermitian ∧ r.1.rho.trace = 1 ∧ r.1.rho k k = 1 ∧ r.1.delR = 0 ∧ r.1.delP = 0 := by
  intro pureK r
  have h := (collapseStep_spec g M k.val es pureK (0 : ℕ) ⟨rho0, μ0, μ0⟩).2.1 hev
  obtain ⟨h1, h2, h3⟩ := h
  have hp := C02.collapse_pure k
  simp only at hp
  have hr : r.1.rho = pureK := h1
  refine ⟨?_, ?_, ?_, ?_, h2, h3⟩
  · rw [hr]; exact hp.1
  · rw [hr]; exact hp.2.1
  · rw [hr]; exact hp.2.2
  · rw [hr]; simp [pureK]

/-- non-vacuity: a two-state trajectory on state 0 with rate 2·… > random 1/2 collapses (one event, state 1 removed) -/
example : (collapseScan (fun i => if i = 1 then (2 : ℝ) else 0) (otherStates 2 0) [1 / 2]).map (·.removed) = [1] := by
  have : otherStates 2 0 = [1] := by decide
  rw [this]
  simp only [collapseScan]
  norm_num

end collapse

end Mud.C11

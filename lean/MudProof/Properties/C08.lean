/-
  C08 — Ehrenfest trajectories are mean-field consistent and conserve their energy.

  Subject: MudModel/Ehrenfest.lean at `ℝ`, any number of states and dimensions.

  * `potential_is_trace`        potential = Re tr(ρH); for diagonal H it is Σ ρ_ii E_i
  * `never_hops`                the active-state label never changes (any number of steps)
  * `meanfield_force_split`     -tr(ρ∇H) = Σ_i ρ_ii F_i + Σ_{i≠j} Re(ρ_ij) F_ji
  * `force_deviation`           the force the code uses (`ehrenfestForcePinned`) differs from the
                                mean-field force by exactly the coherence term
  * `force_partial`             they agree when ρ is diagonal or the force matrix has no off-diagonals
  * `force_witness`             a 2-state witness on which they differ  (KNOWN FINDING: the suite pins it)
  * `energy_rate`               d/dt(KE + tr ρH) = v·(F_used - F_meanfield) for ρ̇ = -i[W,ρ],
                                W = diag E - i d·v, F_ij = (E_i - E_j) d_ij : zero iff the full force is used
-/
import MudProof.RealInst
import MudProof.Properties.C03
import MudModel.Ehrenfest
import Mathlib.Algebra.BigOperators.Fin
import Mathlib.Tactic

namespace Mud.C08
open Mud Finset C03

variable {N n : ℕ}

theorem potential_is_trace (rho : Fin N → Fin N → Cx ℝ) (H : Fin N → Fin N → ℝ) :
    ehrenfestPotential rho H = ∑ i, ∑ j, (rho i j).re * H j i := by
  simp [ehrenfestPotential, vsum_eq_sum]

theorem potential_diag (rho : Fin N → Fin N → Cx ℝ) (E : Fin N → ℝ) :
    ehrenfestPotential rho (fun i j => if i = j then E i else 0) = ∑ i, (rho i i).re * E i := by
  rw [potential_is_trace]
  apply sum_congr rfl
  intro i _
  rw [sum_eq_single i]
  · simp
  · intro j _ hji; simp [hji]
  · simp

/-- **T2.** hopping is disabled: after any number of steps the active label is the initial one -/
theorem never_hops (state : ℕ) (steps : ℕ) : (ehrenfestHop^[steps]) state = state := by
  induction steps with
  | zero => rfl
  | succ k ih => rw [Function.iterate_succ_apply', ih]; rfl

theorem pinned_eq (rho : Fin N → Fin N → Cx ℝ) (F : Fin N → Fin n → ℝ) (x : Fin n) :
    ehrenfestForcePinned rho F x = ∑ i, (rho i i).re * F i x := by
  simp [ehrenfestForcePinned, vsum_eq_sum]

theorem spec_eq (rho : Fin N → Fin N → Cx ℝ) (FM : Fin N → Fin N → Fin n → ℝ) (x : Fin n) :
    ehrenfestForceSpec rho FM x = ∑ i, ∑ j, (rho i j).re * FM j i x := by
  simp [ehrenfestForceSpec, vsum_eq_sum]

/-- **T3.** the mean-field force is the population-weighted force plus the coherence term -/
theorem meanfield_force_split (rho : Fin N → Fin N → Cx ℝ) (FM : Fin N → Fin N → Fin n → ℝ)
    (x : Fin n) :
    ehrenfestForceSpec rho FM x
      = ∑ i, (rho i i).re * FM i i x
        + ∑ i, ∑ j ∈ univ.erase i, (rho i j).re * FM j i x := by
  rw [spec_eq, ← sum_add_distrib]
  apply sum_congr rfl
  intro i _
  rw [← add_sum_erase univ (fun j => (rho i j).re * FM j i x) (mem_univ i)]

/-- **exact deviation of the pinned code**: it omits the coherence (off-diagonal) contribution -/
theorem force_deviation (rho : Fin N → Fin N → Cx ℝ) (FM : Fin N → Fin N → Fin n → ℝ) (x : Fin n) :
    ehrenfestForceSpec rho FM x - ehrenfestForcePinned rho (fun i => FM i i) x
      = ∑ i, ∑ j ∈ univ.erase i, (rho i j).re * FM j i x := by
  rw [meanfield_force_split, pinned_eq]; ring

/-- **partial**: the code's force is the mean-field force when ρ has no coherences … -/
theorem force_partial_diag_rho (rho : Fin N → Fin N → Cx ℝ) (FM : Fin N → Fin N → Fin n → ℝ)
    (h : ∀ i j, i ≠ j → (rho i j).re = 0) (x : Fin n) :
    ehrenfestForcePinned rho (fun i => FM i i) x = ehrenfestForceSpec rho FM x := by
  have := force_deviation rho FM x
  have z : ∑ i, ∑ j ∈ univ.erase i, (rho i j).re * FM j i x = 0 := by
    apply sum_eq_zero; intro i _; apply sum_eq_zero; intro j hj
    rw [h i j (ne_of_mem_erase hj).symm]; ring
  linarith

/-- … or when the force matrix has no off-diagonal elements -/
theorem force_partial_diag_force (rho : Fin N → Fin N → Cx ℝ) (FM : Fin N → Fin N → Fin n → ℝ)
    (h : ∀ i j, i ≠ j → ∀ x, FM j i x = 0) (x : Fin n) :
    ehrenfestForcePinned rho (fun i => FM i i) x = ehrenfestForceSpec rho FM x := by
  have := force_deviation rho FM x
  have z : ∑ i, ∑ j ∈ univ.erase i, (rho i j).re * FM j i x = 0 := by
    apply sum_eq_zero; intro i _; apply sum_eq_zero; intro j hj
    rw [h i j (ne_of_mem_erase hj).symm x]; ring
  linarith

/-- witness data: two states, ρ = ½[[1,1],[1,1]], unit off-diagonal force -/
noncomputable def rhoW : Fin 2 → Fin 2 → Cx ℝ := fun _ _ => ⟨1 / 2, 0⟩
def fmW : Fin 2 → Fin 2 → Fin 1 → ℝ := fun i j _ => if i = j then 0 else 1

/-- **witness (known finding)**: the code's force is 0, the mean-field force is 1 -/
theorem force_witness :
    ehrenfestForcePinned rhoW (fun i => fmW i i) 0 = 0 ∧ ehrenfestForceSpec rhoW fmW 0 = 1 := by
  constructor
  · rw [pinned_eq]; simp [fmW]
  · rw [spec_eq]; simp [Fin.sum_univ_two, rhoW, fmW]; norm_num

/-- **T4.** energy balance.  With `ρ̇_ii = -Σ_n b_in` (C03 `flux_rate`), `b_in = 2 Im(ρ_in W_ni)`,
    `W_ni = -i τ_ni` for `n ≠ i` (`τ_ni = d_ni·v`, antisymmetric), `Ė_i = -F_i·v`, and
    `F_ni·v = (E_n - E_i) τ_ni`:
      Σ_i ρ̇_ii E_i + Σ_i ρ_ii Ė_i + v·F_used  =  v·F_used - (Σ_i ρ_ii F_i·v + Σ_{i≠n} Re ρ_in F_ni·v)
    i.e. the total energy changes at the rate `v·(F_used - F_meanfield)`. -/
theorem energy_rate (rho : Fin N → Fin N → Cx ℝ) (hr : Herm rho) (E : Fin N → ℝ)
    (τ : Fin N → Fin N → ℝ) (hτ : ∀ i j, τ j i = -τ i j) (Fv : Fin N → ℝ) (FusedV : ℝ) :
    let W : Fin N → Fin N → Cx ℝ := fun i j => ⟨if i = j then E i else 0, -τ i j⟩
    let FMv : Fin N → Fin N → ℝ := fun i j => if i = j then Fv i else (E i - E j) * τ i j
    (∑ i, rhoDotDiag rho W i * E i) + (∑ i, (rho i i).re * (-Fv i)) + FusedV
      = FusedV - ∑ i, ∑ j, (rho i j).re * FMv j i := by
  intro W FMv
  have hw : Herm W := by
    intro i j
    simp only [W, Cx.conj]
    by_cases h : i = j
    · subst h
      have hz : τ i i = 0 := by have := hτ i i; linarith
      simp [hz]
    · have h' : ¬ j = i := fun e => h e.symm
      simp [h, h', hτ i j]
  have hflux : ∀ i, rhoDotDiag rho W i = -∑ m, flux rho W i m := fun i => flux_rate rho W hr hw i
  -- b_im = 2 Im(ρ_im W_mi) = 2 (ρ_im.re * (-τ_mi) + ρ_im.im * [m=i] E_m)
  have hb : ∀ i m, flux rho W i m = -2 * (rho i m).re * τ m i := by
    intro i m
    simp only [flux, W, lit_real, Cx.mul_im]
    by_cases h : m = i
    · subst h
      have : τ m m = 0 := by have := hτ m m; linarith
      simp [herm_diag_im hr m, this]
    · simp [h]; ring
  simp_rw [hflux, hb]
  -- Σ_i E_i Σ_m 2 Re ρ_im τ_mi  symmetrised
  have hre : ∀ i m, (rho m i).re = (rho i m).re := by
    intro i m
    have := congrArg Cx.re (hr i m)
    simpa [Cx.conj] using this
  have key : ∑ i, (-∑ m, -2 * (rho i m).re * τ m i) * E i
      = -∑ i, ∑ m ∈ univ.erase i, (rho i m).re * ((E m - E i) * τ m i) := by
    have e1 : ∑ i, (-∑ m, -2 * (rho i m).re * τ m i) * E i
        = ∑ i, ∑ m, 2 * (rho i m).re * τ m i * E i := by
      apply sum_congr rfl; intro i _
      rw [neg_mul, sum_mul, ← sum_neg_distrib]
      apply sum_congr rfl; intro m _; ring
    have e2 : ∑ i, ∑ m, 2 * (rho i m).re * τ m i * E i
        = ∑ i, ∑ m, ((rho i m).re * τ m i * E i + (rho m i).re * τ i m * E m) := by
      have : ∑ i, ∑ m, (rho m i).re * τ i m * E m = ∑ i, ∑ m, (rho i m).re * τ m i * E i := by
        rw [sum_comm]
      rw [sum_congr rfl (fun i _ => sum_add_distrib), sum_add_distrib, this,
        ← sum_add_distrib]
      apply sum_congr rfl; intro i _
      rw [← sum_add_distrib]
      apply sum_congr rfl; intro m _; ring
    rw [e1, e2, ← sum_neg_distrib]
    apply sum_congr rfl; intro i _
    rw [← add_sum_erase univ _ (mem_univ i), ← sum_neg_distrib]
    have : τ i i = 0 := by have := hτ i i; linarith
    simp only [this, mul_zero, zero_mul, add_zero, zero_add]
    apply sum_congr rfl; intro m _
    rw [hre i m, hτ m i]; ring
  rw [key]
  have split : ∑ i, ∑ j, (rho i j).re * FMv j i
      = ∑ i, (rho i i).re * Fv i + ∑ i, ∑ j ∈ univ.erase i, (rho i j).re * ((E j - E i) * τ j i) := by
    rw [← sum_add_distrib]
    apply sum_congr rfl; intro i _
    rw [← add_sum_erase univ (fun j => (rho i j).re * FMv j i) (mem_univ i)]
    congr 1
    · simp [FMv]
    · apply sum_congr rfl; intro j hj
      have : j ≠ i := ne_of_mem_erase hj
      simp [FMv, this]
  rw [split]
  simp only [mul_neg, sum_neg_distrib]
  ring

end Mud.C08

/-
  C07 — time stepping is second-order accurate and time-reversible.

  Subject: `Mud.verletStep` (MudModel/Verlet.lean), `Mud.hamProp`, `Mud.midVelocity`,
  `Mud.propagatorU` (MudModel/Electronic.lean).

  Reversibility (exact, every dimension / state count / force field / number of steps):
  * `verlet_reversible`        flip ∘ Φ_dt ∘ flip ∘ Φ_dt = id on (x, v), for ANY force field
  * `verlet_run_reversible`    … for any number of steps
  * `W_reversal`               reversing the velocities turns the midpoint generator into its entrywise conjugate
  * `propagator_is_exp`        the code's step matrix C·diag(e^{-iλdt})·Cᴴ equals exp(-i dt W) for ANY eigendecomposition
                               W = C Λ Cᴴ with C unitary — so it does not depend on eigh's choice of eigenvectors
  * `exp_step_reversible`      with U = exp(-i dt W), W Hermitian: the step with the conjugated generator applied to the
                               conjugated result returns the conjugate of the start:  Ū' ρ̄' Ū'ᴴ = ρ̄
  * `full_step_reversible`, `full_run_reversible`   nuclear + electronic step together, any number of steps
  * `midpoint_needs_old_velocity`  the generator is built from ½(v_old + v_new); with the originally pinned aliasing
                               (`last_velocity` IS `velocity`) it was built from v_new alone (`aliased_midpoint`)
  Order of accuracy — PARTIAL (DESIGN §7 C07): the step map is symmetric (above) and consistent
  (`verlet_consistent`: Φ_0 = id and the first-order term is the vector field); a symmetric consistent one-step method
  has even order (Hairer–Lubich–Wanner II.3.2) — cited, not formalised for a general smooth force; the factor four is tested by
  Richardson ratios.  PROVED for harmonic models (any number of modes, masses, steps), with explicit constants:
  * `harmonicFlow_solves`          x cos ωt + (v/ω) sin ωt, v cos ωt − ω x sin ωt IS the exact solution (HasDerivAt)
  * `verlet_harmonic_local_error`  one step differs from the exact solution by at most (|x|+|v/ω|)|ω dt|³ (local error third order)
  * `vmap_iterate_bounded`         stability: the numerical solution stays within 2‖z₀‖ for all times (shadow invariant)
  * `exp_steps_compose`            a generator that does not change along the path is integrated with NO discretisation error:
                                   k electronic steps of dt are one step of k·dt, for every dt
  * `verlet_harmonic_global_error`, `…_xv`   after k steps (T = k dt) the error is at most k|ω dt|³‖z₀‖ = (|ω|T)(ω dt)²‖z₀‖:
                                   second order at fixed final time, for every k
-/
import MudProof.Properties.C02
import MudProof.Properties.C01
import MudModel.Verlet
import Mathlib.Analysis.SpecialFunctions.Trigonometric.Deriv
import Mathlib.Analysis.Complex.Trigonometric
import Mathlib.Analysis.Normed.Algebra.MatrixExponential
import Mathlib.Tactic

namespace Mud.C07
open Mud Matrix Complex

/-- the matrix exponential (Mathlib's `NormedSpace.exp`; `Mud.exp` is the model's scalar operation) -/
local notation "mexp" => NormedSpace.exp

variable {n N : ℕ}

/-! ### nuclear motion -/

/-- **T1.** velocity Verlet is exactly time-symmetric for any force field -/
theorem verlet_reversible (F : (Fin n → ℝ) → (Fin n → ℝ)) (m : Fin n → ℝ) (dt : ℝ)
    (xv : (Fin n → ℝ) × (Fin n → ℝ)) :
    flipV (verletStep F m dt (flipV (verletStep F m dt xv))) = xv := by
  obtain ⟨x, v⟩ := xv
  have hx : advancePosition (advancePosition x v (accel (F x) m) dt)
      (fun i => -(advanceVelocity v (accel (F x) m) (accel (F (advancePosition x v (accel (F x) m) dt)) m) dt i))
      (accel (F (advancePosition x v (accel (F x) m) dt)) m) dt = x := by
    funext i
    simp only [advancePosition, advanceVelocity, accel, frac_real]
    push_cast; ring
  simp only [verletStep, flipV]
  rw [hx]
  refine Prod.ext rfl ?_
  funext i
  simp only [advanceVelocity, accel, frac_real]
  push_cast; ring

theorem verlet_run_succ (F : (Fin n → ℝ) → (Fin n → ℝ)) (m : Fin n → ℝ) (dt : ℝ) (k : ℕ)
    (xv : (Fin n → ℝ) × (Fin n → ℝ)) :
    verletRun F m dt (k + 1) xv = verletStep F m dt (verletRun F m dt k xv) := by
  induction k generalizing xv with
  | zero => rfl
  | succ k ih => rw [verletRun, ih]; rfl

/-- forward `k` steps, reverse the momenta, forward `k` steps, reverse again: back at the start -/
theorem verlet_run_reversible (F : (Fin n → ℝ) → (Fin n → ℝ)) (m : Fin n → ℝ) (dt : ℝ) (k : ℕ)
    (xv : (Fin n → ℝ) × (Fin n → ℝ)) :
    flipV (verletRun F m dt k (flipV (verletRun F m dt k xv))) = xv := by
  induction k generalizing xv with
  | zero => obtain ⟨x, v⟩ := xv; simp [verletRun, flipV]
  | succ k ih =>
    rw [verletRun_succ' F m dt k xv]
    rw [verletRun, verlet_step_of_flip]
    exact ih xv
where
  verletRun_succ' (F : (Fin n → ℝ) → (Fin n → ℝ)) (m : Fin n → ℝ) (dt : ℝ) (k : ℕ)
      (xv : (Fin n → ℝ) × (Fin n → ℝ)) :
      verletRun F m dt (k + 1) xv = verletStep F m dt (verletRun F m dt k xv) := verlet_run_succ F m dt k xv
  verlet_step_of_flip {F : (Fin n → ℝ) → (Fin n → ℝ)} {m : Fin n → ℝ} {dt : ℝ} {k : ℕ}
      {xv : (Fin n → ℝ) × (Fin n → ℝ)} :
      verletRun F m dt k (verletStep F m dt (flipV (verletStep F m dt (verletRun F m dt k xv))))
        = verletRun F m dt k (flipV (verletRun F m dt k xv)) := by
    congr 1
    have := verlet_reversible F m dt (verletRun F m dt k xv)
    have h2 : flipV (flipV (verletStep F m dt (flipV (verletStep F m dt (verletRun F m dt k xv)))))
        = flipV (verletRun F m dt k xv) := by rw [this]
    simpa [flipV] using h2

/-- consistency: a step of size zero does nothing -/
theorem verlet_consistent (F : (Fin n → ℝ) → (Fin n → ℝ)) (m : Fin n → ℝ) (xv : (Fin n → ℝ) × (Fin n → ℝ)) :
    verletStep F m 0 xv = xv := by
  obtain ⟨x, v⟩ := xv
  simp only [verletStep]
  refine Prod.ext ?_ ?_ <;> funext i <;> simp [advancePosition, advanceVelocity]

/-! ### the midpoint generator under reversal -/

/-- the generator uses the mean of the old and the new velocity -/
theorem midpoint_needs_old_velocity (v vlast : Fin n → ℝ) (x : Fin n) :
    midVelocity v vlast x = (v x + vlast x) / 2 := by
  simp [midVelocity]; ring

/-- with the originally pinned aliasing (`self.last_velocity = self.velocity` followed by `+=`) both arguments were the
    same array: the "midpoint" velocity was the new velocity -/
theorem aliased_midpoint (v : Fin n → ℝ) : midVelocity v v = v := by
  funext x; simp [midVelocity]; ring

/-- **reversal of the generator**: reversed velocities give the entrywise conjugate (= transpose, W being Hermitian) -/
theorem W_reversal (H1 H0 : Tab ℝ N N) (d1 d0 : Fin N → Fin N → Fin n → ℝ) (v : Fin n → ℝ) :
    toM (hamProp H1 H0 d1 d0 (fun x => -v x)) = (toM (hamProp H1 H0 d1 d0 v)).map star := by
  ext i j
  simp only [toM_apply, hamProp, contract, Tab.get_ofFn, map_apply, frac_real]
  apply Complex.ext
  · simp
  · simp only [toC_im, vsum_eq_sum, star_def, conj_im]
    have : ∑ x, (d1 i j x + d0 i j x) * -v x = -∑ x, (d1 i j x + d0 i j x) * v x := by
      rw [← Finset.sum_neg_distrib]; apply Finset.sum_congr rfl; intro x _; ring
    rw [this]; ring

/-! ### the exponential step -/

/-- **independence of the eigenvectors**: for ANY decomposition `W = C Λ Cᴴ` with `C` unitary (what `eigh` returns,
    whatever phases or degenerate-subspace bases it picks) the code's step matrix is `exp(-i dt W)` -/
theorem propagator_is_exp (C : Matrix (Fin N) (Fin N) ℂ) (lam : Fin N → ℝ) (dt : ℝ) (hC : Cᴴ * C = 1) :
    C * Matrix.diagonal (fun i => Complex.exp (-((lam i * dt : ℝ) : ℂ) * Complex.I)) * Cᴴ
      = mexp ((-(dt : ℂ) * Complex.I) • (C * Matrix.diagonal (fun i => ((lam i : ℝ) : ℂ)) * Cᴴ)) := by
  have hinv : C⁻¹ = Cᴴ := Matrix.inv_eq_left_inv hC
  have hunit : IsUnit C := (Matrix.isUnit_iff_isUnit_det _).mpr (Matrix.isUnit_det_of_left_inverse hC)
  rw [← hinv]
  have e1 : (-(dt : ℂ) * Complex.I) • (C * Matrix.diagonal (fun i => ((lam i : ℝ) : ℂ)) * C⁻¹)
      = C * Matrix.diagonal (fun i => (-(dt : ℂ) * Complex.I) * ((lam i : ℝ) : ℂ)) * C⁻¹ := by
    have hd : Matrix.diagonal (fun i => (-(dt : ℂ) * Complex.I) * ((lam i : ℝ) : ℂ))
        = (-(dt : ℂ) * Complex.I) • Matrix.diagonal (fun i => ((lam i : ℝ) : ℂ)) := by
      ext i j
      simp only [Matrix.diagonal_apply, Matrix.smul_apply, smul_eq_mul]
      split <;> simp
    rw [hd, Matrix.mul_smul, Matrix.smul_mul]
  have hdiag : (fun i => Complex.exp (-((lam i * dt : ℝ) : ℂ) * Complex.I))
      = mexp (fun i => (-(dt : ℂ) * Complex.I) * ((lam i : ℝ) : ℂ)) := by
    funext i
    rw [Pi.coe_exp, ← Complex.exp_eq_exp_ℂ]
    congr 1
    push_cast; ring
  rw [e1, Matrix.exp_conj _ _ hunit, Matrix.exp_diagonal, hdiag]

/-- `exp(-i dt W)` is unitary for Hermitian `W` -/
theorem exp_unitary (W : Matrix (Fin N) (Fin N) ℂ) (hW : W.IsHermitian) (dt : ℝ) :
    (mexp ((-(dt : ℂ) * Complex.I) • W))ᴴ * mexp ((-(dt : ℂ) * Complex.I) • W) = 1 := by
  rw [← Matrix.exp_conjTranspose, Matrix.conjTranspose_smul, hW.eq]
  have : star (-(dt : ℂ) * Complex.I) = -(-(dt : ℂ) * Complex.I) := by
    simp [Complex.conj_ofReal]
  rw [this, neg_smul, Matrix.exp_neg]
  exact Matrix.nonsing_inv_mul _ ((Matrix.isUnit_iff_isUnit_det _).mp (Matrix.isUnit_exp _))

/-- **T2.** the electronic step is reversible: let `U = exp(-i dt W)` with `W` Hermitian and `ρ' = U ρ Uᴴ`.
    The step built from the velocity-reversed generator `W̄ = Wᵀ`, applied to the complex-conjugated `ρ'`,
    returns the complex conjugate of `ρ`. -/
theorem exp_step_reversible (W ρ : Matrix (Fin N) (Fin N) ℂ) (hW : W.IsHermitian) (dt : ℝ) :
    let U := mexp ((-(dt : ℂ) * Complex.I) • W)
    let Urev := mexp ((-(dt : ℂ) * Complex.I) • W.map star)
    Urev * (U * ρ * Uᴴ).map star * Urevᴴ = ρ.map star := by
  intro U Urev
  have hWT : W.map star = Wᵀ := by
    ext i j
    have := congrFun (congrFun hW.eq j) i
    simp only [conjTranspose_apply] at this
    simp [map_apply, transpose_apply, ← this]
  have hUrev : Urev = Uᵀ := by
    simp only [Urev, U, hWT]
    rw [← Matrix.exp_transpose, Matrix.transpose_smul]
  have hU : Uᴴ * U = 1 := exp_unitary W hW dt
  -- entrywise conjugation is a ring homomorphism on matrices
  have hmap : ∀ A B : Matrix (Fin N) (Fin N) ℂ, (A * B).map star = A.map star * B.map star := by
    intro A B
    exact Matrix.map_mul (f := starRingEnd ℂ)
  have hstarH : ∀ A : Matrix (Fin N) (Fin N) ℂ, (Aᴴ).map star = Aᵀ := by
    intro A; ext i j; simp [conjTranspose_apply]
  have hTH : ∀ A : Matrix (Fin N) (Fin N) ℂ, (Aᵀ)ᴴ = A.map star := by
    intro A; ext i j; simp [conjTranspose_apply]
  have hunit : Uᵀ * U.map star = 1 := by
    have := congrArg (fun A : Matrix (Fin N) (Fin N) ℂ => A.map star) hU
    simp only [hmap, hstarH] at this
    rw [this]
    ext i j
    simp only [Matrix.map_apply, Matrix.one_apply]
    split <;> simp
  rw [hUrev, hmap, hmap, hstarH, hTH]
  calc Uᵀ * (U.map star * ρ.map star * Uᵀ) * U.map star
      = (Uᵀ * U.map star) * ρ.map star * (Uᵀ * U.map star) := by simp only [Matrix.mul_assoc]
    _ = ρ.map star := by rw [hunit]; simp

/-! ### nuclear + electronic step together -/

/-- state of a hop-free trajectory: position, velocity, density matrix -/
structure State (n N : ℕ) where
  x : Fin n → ℝ
  v : Fin n → ℝ
  rho : Matrix (Fin N) (Fin N) ℂ

/-- reverse the momenta and complex-conjugate the density matrix -/
def reverse (s : State n N) : State n N := ⟨s.x, fun i => -s.v i, s.rho.map star⟩

/-- one full step: velocity Verlet, then `ρ ← U ρ Uᴴ` with `U = exp(-i dt G(x, x', ½(v+v')))` -/
noncomputable def fullStep (F : (Fin n → ℝ) → (Fin n → ℝ)) (m : Fin n → ℝ) (dt : ℝ)
    (G : (Fin n → ℝ) → (Fin n → ℝ) → (Fin n → ℝ) → Matrix (Fin N) (Fin N) ℂ) (s : State n N) : State n N :=
  let xv := verletStep F m dt (s.x, s.v)
  let U := mexp ((-(dt : ℂ) * Complex.I) • G s.x xv.1 (midVelocity xv.2 s.v))
  ⟨xv.1, xv.2, U * s.rho * Uᴴ⟩

/-- **full-step reversibility**: for a generator that is Hermitian, symmetric in the two end points and turns into
    its conjugate when the velocity is reversed (`W_hermitian`, `W_reversal`, and ½(H(x)+H(x')) is symmetric in x,x'),
    reversing, stepping, reversing and stepping again is the identity -/
theorem full_step_reversible (F : (Fin n → ℝ) → (Fin n → ℝ)) (m : Fin n → ℝ) (dt : ℝ)
    (G : (Fin n → ℝ) → (Fin n → ℝ) → (Fin n → ℝ) → Matrix (Fin N) (Fin N) ℂ)
    (hG : ∀ a b w, (G a b w).IsHermitian) (hsym : ∀ a b w, G a b w = G b a w)
    (hrev : ∀ a b w, G a b (fun i => -w i) = (G a b w).map star) (s : State n N) :
    reverse (fullStep F m dt G (reverse (fullStep F m dt G s))) = s := by
  obtain ⟨x, v, rho⟩ := s
  have hv := verlet_reversible F m dt (x, v)
  set xv := verletStep F m dt (x, v) with hxv
  have hxv2 : verletStep F m dt (xv.1, fun i => -xv.2 i) = (x, fun i => -v i) := by
    have := congrArg flipV hv
    simpa [flipV] using this
  simp only [fullStep, reverse]
  rw [← hxv, hxv2]
  simp only
  have hmid : midVelocity (fun i => -v i) (fun i => -xv.2 i) = fun i => -(midVelocity xv.2 v i) := by
    funext i; simp [midVelocity]; ring
  rw [hmid, hsym xv.1 x, hrev]
  have := exp_step_reversible (G x xv.1 (midVelocity xv.2 v)) rho (hG _ _ _) dt
  simp only at this
  congr 1
  · funext i; simp
  · have hh : ∀ A : Matrix (Fin N) (Fin N) ℂ, (A.map star).map star = A := by
      intro A; ext i j; simp
    rw [this, hh]

/-- iterate -/
noncomputable def fullRun (F : (Fin n → ℝ) → (Fin n → ℝ)) (m : Fin n → ℝ) (dt : ℝ)
    (G : (Fin n → ℝ) → (Fin n → ℝ) → (Fin n → ℝ) → Matrix (Fin N) (Fin N) ℂ) : ℕ → State n N → State n N
  | 0, s => s
  | k + 1, s => fullStep F m dt G (fullRun F m dt G k s)

theorem reverse_reverse (s : State n N) : reverse (reverse s) = s := by
  obtain ⟨x, v, rho⟩ := s
  simp only [reverse]
  congr 1
  · funext i; simp
  · ext i j; simp

/-- **forward-then-reversed run of any length returns to the initial state** -/
theorem full_run_reversible (F : (Fin n → ℝ) → (Fin n → ℝ)) (m : Fin n → ℝ) (dt : ℝ)
    (G : (Fin n → ℝ) → (Fin n → ℝ) → (Fin n → ℝ) → Matrix (Fin N) (Fin N) ℂ)
    (hG : ∀ a b w, (G a b w).IsHermitian) (hsym : ∀ a b w, G a b w = G b a w)
    (hrev : ∀ a b w, G a b (fun i => -w i) = (G a b w).map star) (k : ℕ) (s : State n N) :
    reverse (fullRun F m dt G k (reverse (fullRun F m dt G k s))) = s := by
  -- Ψ := reverse ∘ step is an involution, and reverse ∘ step^k ∘ reverse ∘ step^k = Ψ^k ∘ … telescopes
  have hinv : ∀ t, reverse (fullStep F m dt G (reverse (fullStep F m dt G t))) = t :=
    full_step_reversible F m dt G hG hsym hrev
  have hcomm : ∀ (j : ℕ) (t : State n N),
      fullRun F m dt G j (fullStep F m dt G t) = fullStep F m dt G (fullRun F m dt G j t) := by
    intro j
    induction j with
    | zero => intro t; rfl
    | succ j ih => intro t; simp only [fullRun]; rw [ih]
  induction k generalizing s with
  | zero => exact reverse_reverse s
  | succ k ih =>
    simp only [fullRun]
    rw [← hcomm k (reverse (fullStep F m dt G (fullRun F m dt G k s)))]
    have h1 := hinv (fullRun F m dt G k s)
    have h2 : fullStep F m dt G (reverse (fullStep F m dt G (fullRun F m dt G k s)))
        = reverse (fullRun F m dt G k s) := by
      have := congrArg reverse h1
      rwa [reverse_reverse] at this
    rw [h2]
    exact ih s

/-! ### order of accuracy on harmonic models: local error third order, global error second order -/

/-- exact flow of uncoupled harmonic modes of angular frequencies `ω_i`: the solution of `ẋ = v`, `v̇ = -ω² x` -/
noncomputable def harmonicFlow (ω : Fin n → ℝ) (t : ℝ) (xv : (Fin n → ℝ) × (Fin n → ℝ)) : (Fin n → ℝ) × (Fin n → ℝ) :=
  (fun i => xv.1 i * Real.cos (ω i * t) + xv.2 i / ω i * Real.sin (ω i * t),
   fun i => xv.2 i * Real.cos (ω i * t) - ω i * xv.1 i * Real.sin (ω i * t))

theorem harmonicFlow_zero (ω : Fin n → ℝ) (xv : (Fin n → ℝ) × (Fin n → ℝ)) : harmonicFlow ω 0 xv = xv := by
  simp [harmonicFlow]

/-- it is the exact solution: `d/dt x = v`, `d/dt v = -ω² x` (force `-m ω² x` over mass `m`) -/
theorem harmonicFlow_solves (ω : Fin n → ℝ) (hω : ∀ i, ω i ≠ 0) (xv : (Fin n → ℝ) × (Fin n → ℝ)) (i : Fin n) (t : ℝ) :
    HasDerivAt (fun s => (harmonicFlow ω s xv).1 i) ((harmonicFlow ω t xv).2 i) t ∧
    HasDerivAt (fun s => (harmonicFlow ω s xv).2 i) (-(ω i) ^ 2 * (harmonicFlow ω t xv).1 i) t := by
  have hlin : HasDerivAt (fun s : ℝ => ω i * s) (ω i) t := by
    simpa using (hasDerivAt_id t).const_mul (ω i)
  have hc : HasDerivAt (fun s => Real.cos (ω i * s)) (-Real.sin (ω i * t) * ω i) t := (Real.hasDerivAt_cos _).comp t hlin
  have hs : HasDerivAt (fun s => Real.sin (ω i * s)) (Real.cos (ω i * t) * ω i) t := (Real.hasDerivAt_sin _).comp t hlin
  constructor
  · have := (hc.const_mul (xv.1 i)).add (hs.const_mul (xv.2 i / ω i))
    simp only [harmonicFlow]
    refine this.congr_deriv ?_
    have := hω i
    field_simp
    ring
  · have := (hc.const_mul (xv.2 i)).sub (hs.const_mul (ω i * xv.1 i))
    simp only [harmonicFlow]
    refine this.congr_deriv ?_
    have := hω i
    field_simp
    ring

/-- the Verlet step on harmonic modes in closed form (θ = ω dt) -/
theorem verlet_harmonic_step (m ω : Fin n → ℝ) (hm : ∀ i, m i ≠ 0) (dt : ℝ) (xv : (Fin n → ℝ) × (Fin n → ℝ)) (i : Fin n) :
    (verletStep (C01.harmonicF (fun j => m j * ω j ^ 2)) m dt xv).1 i
      = xv.1 i * (1 - (ω i * dt) ^ 2 / 2) + xv.2 i * dt ∧
    (verletStep (C01.harmonicF (fun j => m j * ω j ^ 2)) m dt xv).2 i
      = xv.2 i * (1 - (ω i * dt) ^ 2 / 2) - ω i * xv.1 i * (ω i * dt - (ω i * dt) ^ 3 / 4) := by
  obtain ⟨x, v⟩ := xv
  have := hm i
  simp only [verletStep, advancePosition, advanceVelocity, accel, C01.harmonicF, frac_real]
  push_cast
  constructor <;> (field_simp; ring)

/-- **local error of one Verlet step is third order** (so the method is second order) on harmonic modes, with explicit
    constants: for `|ω dt| ≤ 1` the position after one step differs from the exact solution by at most
    `(|x| + |v/ω|)·|ω dt|³` and the velocity by at most `|ω|·(|x| + |v/ω|)·|ω dt|³` -/
theorem verlet_harmonic_local_error (m ω : Fin n → ℝ) (hm : ∀ i, m i ≠ 0) (hω : ∀ i, ω i ≠ 0) (dt : ℝ)
    (xv : (Fin n → ℝ) × (Fin n → ℝ)) (i : Fin n) (hθ : |ω i * dt| ≤ 1) :
    |(verletStep (C01.harmonicF (fun j => m j * ω j ^ 2)) m dt xv).1 i - (harmonicFlow ω dt xv).1 i|
      ≤ (|xv.1 i| + |xv.2 i / ω i|) * |ω i * dt| ^ 3 ∧
    |(verletStep (C01.harmonicF (fun j => m j * ω j ^ 2)) m dt xv).2 i - (harmonicFlow ω dt xv).2 i|
      ≤ |ω i| * (|xv.1 i| + |xv.2 i / ω i|) * |ω i * dt| ^ 3 := by
  obtain ⟨h1, h2⟩ := verlet_harmonic_step m ω hm dt xv i
  rw [h1, h2]
  simp only [harmonicFlow]
  have hc := Real.cos_bound hθ
  have hs := Real.sin_bound hθ
  set θ := ω i * dt with hθdef
  set x := xv.1 i
  set u := xv.2 i / ω i with hu
  have hv : xv.2 i = ω i * u := by rw [hu]; field_simp [hω i]
  have ha0 : 0 ≤ |θ| := abs_nonneg θ
  have ha3 : 0 ≤ |θ| ^ 3 := by positivity
  have ha4 : |θ| ^ 4 ≤ |θ| ^ 3 := by
    have : |θ| ^ 4 = |θ| ^ 3 * |θ| := by ring
    rw [this]; exact mul_le_of_le_one_right ha3 hθ
  have ha5 : |θ| ^ 5 ≤ |θ| ^ 3 := by
    have : |θ| ^ 5 = |θ| ^ 4 * |θ| := by ring
    rw [this]; exact le_trans (mul_le_of_le_one_right (by positivity) hθ) ha4
  have hcub : |θ ^ 3| = |θ| ^ 3 := abs_pow θ 3
  set c := Real.cos θ - (1 - θ ^ 2 / 2) with hcdef
  set sn := Real.sin θ - (θ - θ ^ 3 / 6) with hsdef
  have hx0 : 0 ≤ |x| := abs_nonneg x
  have hu0 : 0 ≤ |u| := abs_nonneg u
  constructor
  · have e : x * (1 - θ ^ 2 / 2) + xv.2 i * dt - (x * Real.cos θ + u * Real.sin θ) = -(x * c) + u * (θ ^ 3 / 6 - sn) := by
      rw [hv, hcdef, hsdef, hθdef]; ring
    rw [e]
    have hB : |θ ^ 3 / 6 - sn| ≤ |θ| ^ 3 / 6 + |θ| ^ 5 / 100 := by
      calc |θ ^ 3 / 6 - sn| ≤ |θ ^ 3 / 6| + |sn| := abs_sub _ _
        _ ≤ |θ| ^ 3 / 6 + |θ| ^ 5 / 100 := by
          have : |θ ^ 3 / 6| = |θ| ^ 3 / 6 := by rw [abs_div, hcub]; norm_num
          rw [this]; linarith
    calc |-(x * c) + u * (θ ^ 3 / 6 - sn)| ≤ |-(x * c)| + |u * (θ ^ 3 / 6 - sn)| := abs_add_le _ _
      _ = |x| * |c| + |u| * |θ ^ 3 / 6 - sn| := by rw [abs_neg, abs_mul, abs_mul]
      _ ≤ |x| * (|θ| ^ 4 * (5 / 96)) + |u| * (|θ| ^ 3 / 6 + |θ| ^ 5 / 100) := by
          gcongr
      _ ≤ (|x| + |u|) * |θ| ^ 3 := by nlinarith
  · have e : xv.2 i * (1 - θ ^ 2 / 2) - ω i * x * (θ - θ ^ 3 / 4) - (xv.2 i * Real.cos θ - ω i * x * Real.sin θ)
        = ω i * (-(u * c) + x * (sn + θ ^ 3 / 12)) := by
      rw [hv, hcdef, hsdef]; ring
    rw [e]
    have hB : |sn + θ ^ 3 / 12| ≤ |θ| ^ 5 / 100 + |θ| ^ 3 / 12 := by
      calc |sn + θ ^ 3 / 12| ≤ |sn| + |θ ^ 3 / 12| := abs_add_le _ _
        _ ≤ |θ| ^ 5 / 100 + |θ| ^ 3 / 12 := by
          have : |θ ^ 3 / 12| = |θ| ^ 3 / 12 := by rw [abs_div, hcub]; norm_num
          rw [this]; linarith
    rw [abs_mul, mul_assoc]
    apply mul_le_mul_of_nonneg_left _ (abs_nonneg _)
    calc |-(u * c) + x * (sn + θ ^ 3 / 12)| ≤ |-(u * c)| + |x * (sn + θ ^ 3 / 12)| := abs_add_le _ _
      _ = |u| * |c| + |x| * |sn + θ ^ 3 / 12| := by rw [abs_neg, abs_mul, abs_mul]
      _ ≤ |u| * (|θ| ^ 4 * (5 / 96)) + |x| * (|θ| ^ 5 / 100 + |θ| ^ 3 / 12) := by
          gcongr
      _ ≤ (|x| + |u|) * |θ| ^ 3 := by nlinarith

/-- non-vacuity: one mode, ω = 1, dt = 1/2 -/
example : |(fun _ : Fin 1 => (1 : ℝ)) 0 * (1 / 2)| ≤ 1 := by norm_num

/-! #### one mode as a complex number: stability and global error -/

/-- the Verlet step of one harmonic mode on `z = x + i·v/ω`, with `θ = ω dt` -/
noncomputable def vmap (θ : ℝ) (z : ℂ) : ℂ :=
  (((1 - θ ^ 2 / 2 : ℝ) : ℂ) - ((θ : ℝ) : ℂ) * I) * z + ((θ ^ 3 / 4 * z.re : ℝ) : ℂ) * I

/-- the shadow invariant of one mode -/
noncomputable def shadowS (θ : ℝ) (z : ℂ) : ℝ := z.im ^ 2 + z.re ^ 2 * (1 - θ ^ 2 / 4)

theorem vmap_re_im (θ : ℝ) (z : ℂ) :
    (vmap θ z).re = z.re * (1 - θ ^ 2 / 2) + z.im * θ ∧
    (vmap θ z).im = z.im * (1 - θ ^ 2 / 2) - z.re * (θ - θ ^ 3 / 4) := by
  have a2 : ((θ : ℂ) ^ 2).re = θ ^ 2 := by rw [← ofReal_pow, ofReal_re]
  have b2 : ((θ : ℂ) ^ 2).im = 0 := by rw [← ofReal_pow, ofReal_im]
  have a3 : ((θ : ℂ) ^ 3).re = θ ^ 3 := by rw [← ofReal_pow, ofReal_re]
  have b3 : ((θ : ℂ) ^ 3).im = 0 := by rw [← ofReal_pow, ofReal_im]
  constructor <;> simp [vmap, a2, b2, a3, b3] <;> ring

theorem shadowS_vmap (θ : ℝ) (z : ℂ) : shadowS θ (vmap θ z) = shadowS θ z := by
  obtain ⟨h1, h2⟩ := vmap_re_im θ z
  simp only [shadowS, h1, h2]; ring

theorem shadowS_iterate (θ : ℝ) (z : ℂ) (k : ℕ) : shadowS θ ((vmap θ)^[k] z) = shadowS θ z := by
  induction k generalizing z with
  | zero => rfl
  | succ k ih => rw [Function.iterate_succ_apply, ih, shadowS_vmap]

theorem normSq_le_shadow (θ : ℝ) (hθ : |θ| ≤ 1) (z : ℂ) : 3 / 4 * ‖z‖ ^ 2 ≤ shadowS θ z ∧ shadowS θ z ≤ ‖z‖ ^ 2 := by
  have h2 : θ ^ 2 ≤ 1 := by
    have := sq_abs θ
    nlinarith [abs_nonneg θ]
  rw [Complex.sq_norm, Complex.normSq_apply]
  simp only [shadowS]
  constructor <;> nlinarith [sq_nonneg z.re, sq_nonneg z.im, sq_nonneg θ, mul_nonneg (sq_nonneg z.re) (sq_nonneg θ)]

/-- **stability**: the numerical solution stays bounded for all times -/
theorem vmap_iterate_bounded (θ : ℝ) (hθ : |θ| ≤ 1) (z : ℂ) (k : ℕ) : ‖(vmap θ)^[k] z‖ ≤ 2 * ‖z‖ := by
  have h1 := (normSq_le_shadow θ hθ ((vmap θ)^[k] z)).1
  have h2 := (normSq_le_shadow θ hθ z).2
  rw [shadowS_iterate] at h1
  have h3 : ‖(vmap θ)^[k] z‖ ^ 2 ≤ (2 * ‖z‖) ^ 2 := by nlinarith [sq_nonneg ‖z‖]
  exact (pow_le_pow_iff_left₀ (norm_nonneg _) (by positivity) (by norm_num)).mp h3

/-- local error of the complex one-mode map against the exact rotation -/
theorem vmap_local (θ : ℝ) (hθ : |θ| ≤ 1) (w : ℂ) : ‖vmap θ w - Complex.exp (-(θ : ℂ) * I) * w‖ ≤ 17 / 36 * |θ| ^ 3 * ‖w‖ := by
  have hx : ‖(-(θ : ℂ) * I)‖ ≤ 1 := by simpa using hθ
  have hb := Complex.exp_bound hx (n := 3) (by norm_num)
  have hsum : ∑ m ∈ Finset.range 3, (-(θ : ℂ) * I) ^ m / (m.factorial : ℂ) = (((1 - θ ^ 2 / 2 : ℝ) : ℂ) - ((θ : ℝ) : ℂ) * I) := by
    simp [Finset.sum_range_succ, Nat.factorial, mul_pow, I_sq]
    ring
  rw [hsum] at hb
  have hnx : ‖(-(θ : ℂ) * I)‖ = |θ| := by simp
  rw [hnx] at hb
  have e : vmap θ w - Complex.exp (-(θ : ℂ) * I) * w
      = -((Complex.exp (-(θ : ℂ) * I) - (((1 - θ ^ 2 / 2 : ℝ) : ℂ) - ((θ : ℝ) : ℂ) * I)) * w) + ((θ ^ 3 / 4 * w.re : ℝ) : ℂ) * I := by
    simp only [vmap]; ring
  rw [e]
  have hre : |w.re| ≤ ‖w‖ := Complex.abs_re_le_norm w
  have h3 : ‖((θ ^ 3 / 4 * w.re : ℝ) : ℂ) * I‖ ≤ |θ| ^ 3 / 4 * ‖w‖ := by
    rw [norm_mul, norm_I, mul_one, Complex.norm_real, Real.norm_eq_abs, abs_mul, abs_div, abs_pow]
    have : |(4 : ℝ)| = 4 := by norm_num
    rw [this]
    exact mul_le_mul_of_nonneg_left hre (by positivity)
  calc _ ≤ ‖-((Complex.exp (-(θ : ℂ) * I) - (((1 - θ ^ 2 / 2 : ℝ) : ℂ) - ((θ : ℝ) : ℂ) * I)) * w)‖ + ‖((θ ^ 3 / 4 * w.re : ℝ) : ℂ) * I‖ :=
        norm_add_le _ _
    _ ≤ |θ| ^ 3 * ((Nat.succ 3 : ℝ) * ((Nat.factorial 3 : ℝ) * 3)⁻¹) * ‖w‖ + |θ| ^ 3 / 4 * ‖w‖ := by
        rw [norm_neg, norm_mul]
        have hb' : ‖Complex.exp (-(θ : ℂ) * I) - (((1 - θ ^ 2 / 2 : ℝ) : ℂ) - ((θ : ℝ) : ℂ) * I)‖
            ≤ |θ| ^ 3 * ((Nat.succ 3 : ℝ) * ((Nat.factorial 3 : ℝ) * 3)⁻¹) := by exact_mod_cast hb
        gcongr
    _ = 17 / 36 * |θ| ^ 3 * ‖w‖ := by
        simp [Nat.factorial]; ring

/-- **global error of `k` steps**: `‖Φ^k z − e^{−ikθ} z‖ ≤ k·|θ|³·‖z‖` -/
theorem vmap_global (θ : ℝ) (hθ : |θ| ≤ 1) (z : ℂ) (k : ℕ) :
    ‖(vmap θ)^[k] z - Complex.exp (-((k : ℝ) * θ : ℝ) * I) * z‖ ≤ k * |θ| ^ 3 * ‖z‖ := by
  induction k with
  | zero => simp
  | succ k ih =>
    rw [Function.iterate_succ_apply']
    set w := (vmap θ)^[k] z with hw
    have hrot : Complex.exp (-(((k + 1 : ℕ) : ℝ) * θ : ℝ) * I) = Complex.exp (-(θ : ℂ) * I) * Complex.exp (-((k : ℝ) * θ : ℝ) * I) := by
      rw [← Complex.exp_add]; congr 1; push_cast; ring
    have e : vmap θ w - Complex.exp (-(((k + 1 : ℕ) : ℝ) * θ : ℝ) * I) * z
        = (vmap θ w - Complex.exp (-(θ : ℂ) * I) * w) + Complex.exp (-(θ : ℂ) * I) * (w - Complex.exp (-((k : ℝ) * θ : ℝ) * I) * z) := by
      rw [hrot]; ring
    rw [e]
    have hunit : ‖Complex.exp (-(θ : ℂ) * I)‖ = 1 := by
      have := Complex.norm_exp_ofReal_mul_I (-θ)
      simpa using this
    have hloc := vmap_local θ hθ w
    have hwb := vmap_iterate_bounded θ hθ z k
    have h3 : 0 ≤ |θ| ^ 3 := by positivity
    calc _ ≤ ‖vmap θ w - Complex.exp (-(θ : ℂ) * I) * w‖ + ‖Complex.exp (-(θ : ℂ) * I) * (w - Complex.exp (-((k : ℝ) * θ : ℝ) * I) * z)‖ := norm_add_le _ _
      _ ≤ 17 / 36 * |θ| ^ 3 * ‖w‖ + k * |θ| ^ 3 * ‖z‖ := by
          rw [norm_mul, hunit, one_mul]; exact add_le_add hloc ih
      _ ≤ 17 / 36 * |θ| ^ 3 * (2 * ‖z‖) + k * |θ| ^ 3 * ‖z‖ := by gcongr
      _ ≤ ((k + 1 : ℕ) : ℝ) * |θ| ^ 3 * ‖z‖ := by
          push_cast
          nlinarith [mul_nonneg h3 (norm_nonneg z)]

/-! #### the model's Verlet run, mode by mode -/

/-- one harmonic mode of a phase-space point as the complex number `x + i·v/ω` -/
noncomputable def modeC (ω : Fin n → ℝ) (xv : (Fin n → ℝ) × (Fin n → ℝ)) (i : Fin n) : ℂ := ⟨xv.1 i, xv.2 i / ω i⟩

theorem modeC_verletStep (m ω : Fin n → ℝ) (hm : ∀ i, m i ≠ 0) (hω : ∀ i, ω i ≠ 0) (dt : ℝ)
    (xv : (Fin n → ℝ) × (Fin n → ℝ)) (i : Fin n) :
    modeC ω (verletStep (C01.harmonicF (fun j => m j * ω j ^ 2)) m dt xv) i = vmap (ω i * dt) (modeC ω xv i) := by
  obtain ⟨h1, h2⟩ := verlet_harmonic_step m ω hm dt xv i
  obtain ⟨g1, g2⟩ := vmap_re_im (ω i * dt) (modeC ω xv i)
  apply Complex.ext
  · rw [g1]; simp only [modeC]; rw [h1]
    have := hω i
    field_simp
  · rw [g2]; simp only [modeC]; rw [h2]
    have := hω i
    field_simp

theorem modeC_verletRun (m ω : Fin n → ℝ) (hm : ∀ i, m i ≠ 0) (hω : ∀ i, ω i ≠ 0) (dt : ℝ) (k : ℕ)
    (xv : (Fin n → ℝ) × (Fin n → ℝ)) (i : Fin n) :
    modeC ω (verletRun (C01.harmonicF (fun j => m j * ω j ^ 2)) m dt k xv) i = (vmap (ω i * dt))^[k] (modeC ω xv i) := by
  induction k generalizing xv with
  | zero => rfl
  | succ k ih => rw [verletRun, ih, modeC_verletStep m ω hm hω, Function.iterate_succ_apply]

theorem modeC_flow (ω : Fin n → ℝ) (hω : ∀ i, ω i ≠ 0) (t : ℝ) (xv : (Fin n → ℝ) × (Fin n → ℝ)) (i : Fin n) :
    modeC ω (harmonicFlow ω t xv) i = Complex.exp (-((ω i * t : ℝ) : ℂ) * I) * modeC ω xv i := by
  have := hω i
  apply Complex.ext
  · simp [modeC, harmonicFlow, Complex.exp_re, Complex.exp_im]
    ring
  · simp [modeC, harmonicFlow, Complex.exp_re, Complex.exp_im]
    field_simp
    ring

/-- **second-order convergence at a fixed final time, harmonic models** (any number of modes, any masses, any number of steps):
    with `θ = ω_i dt`, `|θ| ≤ 1`, after `k` steps — final time `T = k dt` — the numerical mode `x + i v/ω` differs from the exact
    one by at most `k |θ|³ ‖z₀‖ = (|ω_i| T)·(ω_i dt)²·‖z₀‖`: halving `dt` at fixed `T` divides the bound by four -/
theorem verlet_harmonic_global_error (m ω : Fin n → ℝ) (hm : ∀ i, m i ≠ 0) (hω : ∀ i, ω i ≠ 0) (dt : ℝ) (k : ℕ)
    (xv : (Fin n → ℝ) × (Fin n → ℝ)) (i : Fin n) (hθ : |ω i * dt| ≤ 1) :
    ‖modeC ω (verletRun (C01.harmonicF (fun j => m j * ω j ^ 2)) m dt k xv) i - modeC ω (harmonicFlow ω (k * dt) xv) i‖
      ≤ k * |ω i * dt| ^ 3 * ‖modeC ω xv i‖ := by
  rw [modeC_verletRun m ω hm hω, modeC_flow ω hω]
  have := vmap_global (ω i * dt) hθ (modeC ω xv i) k
  have e : ((k : ℝ) * (ω i * dt) : ℝ) = (ω i * (k * dt) : ℝ) := by ring
  rw [e] at this
  exact this

/-- … in the coordinates the trajectory logs: position and velocity -/
theorem verlet_harmonic_global_error_xv (m ω : Fin n → ℝ) (hm : ∀ i, m i ≠ 0) (hω : ∀ i, ω i ≠ 0) (dt : ℝ) (k : ℕ)
    (xv : (Fin n → ℝ) × (Fin n → ℝ)) (i : Fin n) (hθ : |ω i * dt| ≤ 1) :
    |(verletRun (C01.harmonicF (fun j => m j * ω j ^ 2)) m dt k xv).1 i - (harmonicFlow ω (k * dt) xv).1 i|
      ≤ k * |ω i * dt| ^ 3 * ‖modeC ω xv i‖ ∧
    |(verletRun (C01.harmonicF (fun j => m j * ω j ^ 2)) m dt k xv).2 i - (harmonicFlow ω (k * dt) xv).2 i|
      ≤ |ω i| * (k * |ω i * dt| ^ 3 * ‖modeC ω xv i‖) := by
  have h := verlet_harmonic_global_error m ω hm hω dt k xv i hθ
  set d := modeC ω (verletRun (C01.harmonicF (fun j => m j * ω j ^ 2)) m dt k xv) i - modeC ω (harmonicFlow ω (k * dt) xv) i
  have hre : |d.re| ≤ ‖d‖ := Complex.abs_re_le_norm d
  have him : |d.im| ≤ ‖d‖ := Complex.abs_im_le_norm d
  constructor
  · have : d.re = (verletRun (C01.harmonicF (fun j => m j * ω j ^ 2)) m dt k xv).1 i - (harmonicFlow ω (k * dt) xv).1 i := by
      simp [d, modeC]
    rw [← this]; exact le_trans hre h
  · have : (verletRun (C01.harmonicF (fun j => m j * ω j ^ 2)) m dt k xv).2 i - (harmonicFlow ω (k * dt) xv).2 i = ω i * d.im := by
      simp only [d, modeC, Complex.sub_im]
      have := hω i
      field_simp
    rw [this, abs_mul]
    exact mul_le_mul_of_nonneg_left (le_trans him h) (abs_nonneg _)

/-! ### a constant generator is integrated exactly -/

/-- the electronic step with step matrix `U` -/
def conjStep (U : Matrix (Fin N) (Fin N) ℂ) (ρ : Matrix (Fin N) (Fin N) ℂ) : Matrix (Fin N) (Fin N) ℂ := U * ρ * Uᴴ

theorem conjStep_iterate (U ρ : Matrix (Fin N) (Fin N) ℂ) (k : ℕ) : (conjStep U)^[k] ρ = conjStep (U ^ k) ρ := by
  induction k generalizing ρ with
  | zero => simp [conjStep]
  | succ k ih =>
    rw [Function.iterate_succ_apply', ih]
    simp only [conjStep, pow_succ', Matrix.conjTranspose_mul, Matrix.conjTranspose_pow]
    simp only [Matrix.mul_assoc]

/-- **a generator that does not change along the path is integrated without any discretisation error**: `k` steps of `dt`
    are one step of `k·dt`, whatever `dt` - the result at a fixed final time does not depend on the step at all -/
theorem exp_steps_compose (W ρ : Matrix (Fin N) (Fin N) ℂ) (dt : ℝ) (k : ℕ) :
    (conjStep (mexp ((-(dt : ℂ) * Complex.I) • W)))^[k] ρ
      = conjStep (mexp ((-((k * dt : ℝ) : ℂ) * Complex.I) • W)) ρ := by
  rw [conjStep_iterate, ← Matrix.exp_nsmul]
  congr 2
  rw [← Nat.cast_smul_eq_nsmul ℂ, smul_smul]
  congr 1
  push_cast; ring

end Mud.C07

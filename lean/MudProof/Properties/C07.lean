/-
  C07 — time stepping is second-order accurate and time-reversible.

  Subject: `Mud.verletStep` (MudModel/Verlet.lean), `Mud.hamProp`, `Mud.midVelocity`,
  `Mud.propagatorU` (MudModel/Electronic.lean).

  Reversibility (exact, every dimension / state count / force field / number of steps):
  * `verlet_reversible`        flip ∘ Φ_dt ∘ flip ∘ Φ_dt = id on (x, v), for ANY force field
  * `verlet_run_reversible`    … for any number of steps
  * `W_reversal`               reversing the velocities turns the midpoint generator into its entrywise conjugate
  * `propagator_is_exp`        the code's step matrix C·diag(e^{-iλdt})·Cᴴ equals exp(-i dt W) for ANY eigendecomposition
                               W = C Λ Cᴴ with C unitary — so it does not depend on eigh's choice of eigenvectors
  * `exp_step_reversible`      with U = exp(-i dt W), W Hermitian: the step with the conjugated generator applied to the
                               conjugated result returns the conjugate of the start:  Ū' ρ̄' Ū'ᴴ = ρ̄
  * `full_step_reversible`, `full_run_reversible`   nuclear + electronic step together, any number of steps
  * `midpoint_needs_old_velocity`  the generator is built from ½(v_old + v_new); with the originally pinned aliasing
                               (`last_velocity` IS `velocity`) it was built from v_new alone (`aliased_midpoint`)
  Order of accuracy — PARTIAL (DESIGN §7 C07): the step map is symmetric (above) and consistent
  (`verlet_consistent`: Φ_0 = id and the first-order term is the vector field); a symmetric consistent one-step method
  has even order (Hairer–Lubich–Wanner II.3.2) — cited, not formalised; the factor four is tested by Richardson ratios.
-/
import MudProof.Properties.C02
import MudModel.Verlet
import Mathlib.Analysis.Normed.Algebra.MatrixExponential
import Mathlib.Tactic

namespace Mud.C07
open Mud Matrix Complex

/-- the matrix exponential (Mathlib's `NormedSpace.exp`; `Mud.exp` is the model's scalar operation) -/
local notation "mexp" => NormedSpace.exp

variable {n N : ℕ}

/-! ### nuclear motion -/

/-- **T1.** velocity Verlet is exactly time-symmetric for any force field -/
theorem verlet_reversible (F : (Fin n → ℝ) → (Fin n → ℝ)) (m : Fin n → ℝ) (dt : ℝ)
    (xv : (Fin n → ℝ) × (Fin n → ℝ)) :
    flipV (verletStep F m dt (flipV (verletStep F m dt xv))) = xv := by
  obtain ⟨x, v⟩ := xv
  have hx : advancePosition (advancePosition x v (accel (F x) m) dt)
      (fun i => -(advanceVelocity v (accel (F x) m) (accel (F (advancePosition x v (accel (F x) m) dt)) m) dt i))
      (accel (F (advancePosition x v (accel (F x) m) dt)) m) dt = x := by
    funext i
    simp only [advancePosition, advanceVelocity, accel, frac_real]
    push_cast; ring
  simp only [verletStep, flipV]
  rw [hx]
  refine Prod.ext rfl ?_
  funext i
  simp only [advanceVelocity, accel, frac_real]
  push_cast; ring

theorem verlet_run_succ (F : (Fin n → ℝ) → (Fin n → ℝ)) (m : Fin n → ℝ) (dt : ℝ) (k : ℕ)
    (xv : (Fin n → ℝ) × (Fin n → ℝ)) :
    verletRun F m dt (k + 1) xv = verletStep F m dt (verletRun F m dt k xv) := by
  induction k generalizing xv with
  | zero => rfl
  | succ k ih => rw [verletRun, ih]; rfl

/-- forward `k` steps, reverse the momenta, forward `k` steps, reverse again: back at the start -/
theorem verlet_run_reversible (F : (Fin n → ℝ) → (Fin n → ℝ)) (m : Fin n → ℝ) (dt : ℝ) (k : ℕ)
    (xv : (Fin n → ℝ) × (Fin n → ℝ)) :
    flipV (verletRun F m dt k (flipV (verletRun F m dt k xv))) = xv := by
  induction k generalizing xv with
  | zero => obtain ⟨x, v⟩ := xv; simp [verletRun, flipV]
  | succ k ih =>
    rw [verletRun_succ' F m dt k xv]
    rw [verletRun, verlet_step_of_flip]
    exact ih xv
where
  verletRun_succ' (F : (Fin n → ℝ) → (Fin n → ℝ)) (m : Fin n → ℝ) (dt : ℝ) (k : ℕ)
      (xv : (Fin n → ℝ) × (Fin n → ℝ)) :
      verletRun F m dt (k + 1) xv = verletStep F m dt (verletRun F m dt k xv) := verlet_run_succ F m dt k xv
  verlet_step_of_flip {F : (Fin n → ℝ) → (Fin n → ℝ)} {m : Fin n → ℝ} {dt : ℝ} {k : ℕ}
      {xv : (Fin n → ℝ) × (Fin n → ℝ)} :
      verletRun F m dt k (verletStep F m dt (flipV (verletStep F m dt (verletRun F m dt k xv))))
        = verletRun F m dt k (flipV (verletRun F m dt k xv)) := by
    congr 1
    have := verlet_reversible F m dt (verletRun F m dt k xv)
    have h2 : flipV (flipV (verletStep F m dt (flipV (verletStep F m dt (verletRun F m dt k xv)))))
        = flipV (verletRun F m dt k xv) := by rw [this]
    simpa [flipV] using h2

/-- consistency: a step of size zero does nothing -/
theorem verlet_consistent (F : (Fin n → ℝ) → (Fin n → ℝ)) (m : Fin n → ℝ) (xv : (Fin n → ℝ) × (Fin n → ℝ)) :
    verletStep F m 0 xv = xv := by
  obtain ⟨x, v⟩ := xv
  simp only [verletStep]
  refine Prod.ext ?_ ?_ <;> funext i <;> simp [advancePosition, advanceVelocity]

/-! ### the midpoint generator under reversal -/

/-- the generator uses the mean of the old and the new velocity -/
theorem midpoint_needs_old_velocity (v vlast : Fin n → ℝ) (x : Fin n) :
    midVelocity v vlast x = (v x + vlast x) / 2 := by
  simp [midVelocity]; ring

/-- with the originally pinned aliasing (`self.last_velocity = self.velocity` followed by `+=`) both arguments were the
    same array: the "midpoint" velocity was the new velocity -/
theorem aliased_midpoint (v : Fin n → ℝ) : midVelocity v v = v := by
  funext x; simp [midVelocity]; ring

/-- **reversal of the generator**: reversed velocities give the entrywise conjugate (= transpose, W being Hermitian) -/
theorem W_reversal (H1 H0 : Tab ℝ N N) (d1 d0 : Fin N → Fin N → Fin n → ℝ) (v : Fin n → ℝ) :
    toM (hamProp H1 H0 d1 d0 (fun x => -v x)) = (toM (hamProp H1 H0 d1 d0 v)).map star := by
  ext i j
  simp only [toM_apply, hamProp, contract, Tab.get_ofFn, map_apply, frac_real]
  apply Complex.ext
  · simp
  · simp only [toC_im, vsum_eq_sum, star_def, conj_im]
    have : ∑ x, (d1 i j x + d0 i j x) * -v x = -∑ x, (d1 i j x + d0 i j x) * v x := by
      rw [← Finset.sum_neg_distrib]; apply Finset.sum_congr rfl; intro x _; ring
    rw [this]; ring

/-! ### the exponential step -/

/-- **independence of the eigenvectors**: for ANY decomposition `W = C Λ Cᴴ` with `C` unitary (what `eigh` returns,
    whatever phases or degenerate-subspace bases it picks) the code's step matrix is `exp(-i dt W)` -/
theorem propagator_is_exp (C : Matrix (Fin N) (Fin N) ℂ) (lam : Fin N → ℝ) (dt : ℝ) (hC : Cᴴ * C = 1) :
    C * Matrix.diagonal (fun i => Complex.exp (-((lam i * dt : ℝ) : ℂ) * Complex.I)) * Cᴴ
      = mexp ((-(dt : ℂ) * Complex.I) • (C * Matrix.diagonal (fun i => ((lam i : ℝ) : ℂ)) * Cᴴ)) := by
  have hinv : C⁻¹ = Cᴴ := Matrix.inv_eq_left_inv hC
  have hunit : IsUnit C := (Matrix.isUnit_iff_isUnit_det _).mpr (Matrix.isUnit_det_of_left_inverse hC)
  rw [← hinv]
  have e1 : (-(dt : ℂ) * Complex.I) • (C * Matrix.diagonal (fun i => ((lam i : ℝ) : ℂ)) * C⁻¹)
      = C * Matrix.diagonal (fun i => (-(dt : ℂ) * Complex.I) * ((lam i : ℝ) : ℂ)) * C⁻¹ := by
    have hd : Matrix.diagonal (fun i => (-(dt : ℂ) * Complex.I) * ((lam i : ℝ) : ℂ))
        = (-(dt : ℂ) * Complex.I) • Matrix.diagonal (fun i => ((lam i : ℝ) : ℂ)) := by
      ext i j
      simp only [Matrix.diagonal_apply, Matrix.smul_apply, smul_eq_mul]
      split <;> simp
    rw [hd, Matrix.mul_smul, Matrix.smul_mul]
  have hdiag : (fun i => Complex.exp (-((lam i * dt : ℝ) : ℂ) * Complex.I))
      = mexp (fun i => (-(dt : ℂ) * Complex.I) * ((lam i : ℝ) : ℂ)) := by
    funext i
    rw [Pi.coe_exp, ← Complex.exp_eq_exp_ℂ]
    congr 1
    push_cast; ring
  rw [e1, Matrix.exp_conj _ _ hunit, Matrix.exp_diagonal, hdiag]

/-- `exp(-i dt W)` is unitary for Hermitian `W` -/
theorem exp_unitary (W : Matrix (Fin N) (Fin N) ℂ) (hW : W.IsHermitian) (dt : ℝ) :
    (mexp ((-(dt : ℂ) * Complex.I) • W))ᴴ * mexp ((-(dt : ℂ) * Complex.I) • W) = 1 := by
  rw [← Matrix.exp_conjTranspose, Matrix.conjTranspose_smul, hW.eq]
  have : star (-(dt : ℂ) * Complex.I) = -(-(dt : ℂ) * Complex.I) := by
    simp [Complex.conj_ofReal]
  rw [this, neg_smul, Matrix.exp_neg]
  exact Matrix.nonsing_inv_mul _ ((Matrix.isUnit_iff_isUnit_det _).mp (Matrix.isUnit_exp _))

/-- **T2.** the electronic step is reversible: let `U = exp(-i dt W)` with `W` Hermitian and `ρ' = U ρ Uᴴ`.
    The step built from the velocity-reversed generator `W̄ = Wᵀ`, applied to the complex-conjugated `ρ'`,
    returns the complex conjugate of `ρ`. -/
theorem exp_step_reversible (W ρ : Matrix (Fin N) (Fin N) ℂ) (hW : W.IsHermitian) (dt : ℝ) :
    let U := mexp ((-(dt : ℂ) * Complex.I) • W)
    let Urev := mexp ((-(dt : ℂ) * Complex.I) • W.map star)
    Urev * (U * ρ * Uᴴ).map star * Urevᴴ = ρ.map star := by
  intro U Urev
  have hWT : W.map star = Wᵀ := by
    ext i j
    have := congrFun (congrFun hW.eq j) i
    simp only [conjTranspose_apply] at this
    simp [map_apply, transpose_apply, ← this]
  have hUrev : Urev = Uᵀ := by
    simp only [Urev, U, hWT]
    rw [← Matrix.exp_transpose, Matrix.transpose_smul]
  have hU : Uᴴ * U = 1 := exp_unitary W hW dt
  -- entrywise conjugation is a ring homomorphism on matrices
  have hmap : ∀ A B : Matrix (Fin N) (Fin N) ℂ, (A * B).map star = A.map star * B.map star := by
    intro A B
    exact Matrix.map_mul (f := starRingEnd ℂ)
  have hstarH : ∀ A : Matrix (Fin N) (Fin N) ℂ, (Aᴴ).map star = Aᵀ := by
    intro A; ext i j; simp [conjTranspose_apply]
  have hTH : ∀ A : Matrix (Fin N) (Fin N) ℂ, (Aᵀ)ᴴ = A.map star := by
    intro A; ext i j; simp [conjTranspose_apply]
  have hunit : Uᵀ * U.map star = 1 := by
    have := congrArg (fun A : Matrix (Fin N) (Fin N) ℂ => A.map star) hU
    simp only [hmap, hstarH] at this
    rw [this]
    ext i j
    simp only [Matrix.map_apply, Matrix.one_apply]
    split <;> simp
  rw [hUrev, hmap, hmap, hstarH, hTH]
  calc Uᵀ * (U.map star * ρ.map star * Uᵀ) * U.map star
      = (Uᵀ * U.map star) * ρ.map star * (Uᵀ * U.map star) := by simp only [Matrix.mul_assoc]
    _ = ρ.map star := by rw [hunit]; simp

/-! ### nuclear + electronic step together -/

/-- state of a hop-free trajectory: position, velocity, density matrix -/
structure State (n N : ℕ) where
  x : Fin n → ℝ
  v : Fin n → ℝ
  rho : Matrix (Fin N) (Fin N) ℂ

/-- reverse the momenta and complex-conjugate the density matrix -/
def reverse (s : State n N) : State n N := ⟨s.x, fun i => -s.v i, s.rho.map star⟩

/-- one full step: velocity Verlet, then `ρ ← U ρ Uᴴ` with `U = exp(-i dt G(x, x', ½(v+v')))` -/
noncomputable def fullStep (F : (Fin n → ℝ) → (Fin n → ℝ)) (m : Fin n → ℝ) (dt : ℝ)
    (G : (Fin n → ℝ) → (Fin n → ℝ) → (Fin n → ℝ) → Matrix (Fin N) (Fin N) ℂ) (s : State n N) : State n N :=
  let xv := verletStep F m dt (s.x, s.v)
  let U := mexp ((-(dt : ℂ) * Complex.I) • G s.x xv.1 (midVelocity xv.2 s.v))
  ⟨xv.1, xv.2, U * s.rho * Uᴴ⟩

/-- **full-step reversibility**: for a generator that is Hermitian, symmetric in the two end points and turns into
    its conjugate when the velocity is reversed (`W_hermitian`, `W_reversal`, and ½(H(x)+H(x')) is symmetric in x,x'),
    reversing, stepping, reversing and stepping again is the identity -/
theorem full_step_reversible (F : (Fin n → ℝ) → (Fin n → ℝ)) (m : Fin n → ℝ) (dt : ℝ)
    (G : (Fin n → ℝ) → (Fin n → ℝ) → (Fin n → ℝ) → Matrix (Fin N) (Fin N) ℂ)
    (hG : ∀ a b w, (G a b w).IsHermitian) (hsym : ∀ a b w, G a b w = G b a w)
    (hrev : ∀ a b w, G a b (fun i => -w i) = (G a b w).map star) (s : State n N) :
    reverse (fullStep F m dt G (reverse (fullStep F m dt G s))) = s := by
  obtain ⟨x, v, rho⟩ := s
  have hv := verlet_reversible F m dt (x, v)
  set xv := verletStep F m dt (x, v) with hxv
  have hxv2 : verletStep F m dt (xv.1, fun i => -xv.2 i) = (x, fun i => -v i) := by
    have := congrArg flipV hv
    simpa [flipV] using this
  simp only [fullStep, reverse]
  rw [← hxv, hxv2]
  simp only
  have hmid : midVelocity (fun i => -v i) (fun i => -xv.2 i) = fun i => -(midVelocity xv.2 v i) := by
    funext i; simp [midVelocity]; ring
  rw [hmid, hsym xv.1 x, hrev]
  have := exp_step_reversible (G x xv.1 (midVelocity xv.2 v)) rho (hG _ _ _) dt
  simp only at this
  congr 1
  · funext i; simp
  · have hh : ∀ A : Matrix (Fin N) (Fin N) ℂ, (A.map star).map star = A := by
      intro A; ext i j; simp
    rw [this, hh]

/-- iterate -/
noncomputable def fullRun (F : (Fin n → ℝ) → (Fin n → ℝ)) (m : Fin n → ℝ) (dt : ℝ)
    (G : (Fin n → ℝ) → (Fin n → ℝ) → (Fin n → ℝ) → Matrix (Fin N) (Fin N) ℂ) : ℕ → State n N → State n N
  | 0, s => s
  | k + 1, s => fullStep F m dt G (fullRun F m dt G k s)

theorem reverse_reverse (s : State n N) : reverse (reverse s) = s := by
  obtain ⟨x, v, rho⟩ := s
  simp only [reverse]
  congr 1
  · funext i; simp
  · ext i j; simp

/-- **forward-then-reversed run of any length returns to the initial state** -/
theorem full_run_reversible (F : (Fin n → ℝ) → (Fin n → ℝ)) (m : Fin n → ℝ) (dt : ℝ)
    (G : (Fin n → ℝ) → (Fin n → ℝ) → (Fin n → ℝ) → Matrix (Fin N) (Fin N) ℂ)
    (hG : ∀ a b w, (G a b w).IsHermitian) (hsym : ∀ a b w, G a b w = G b a w)
    (hrev : ∀ a b w, G a b (fun i => -w i) = (G a b w).map star) (k : ℕ) (s : State n N) :
    reverse (fullRun F m dt G k (reverse (fullRun F m dt G k s))) = s := by
  -- Ψ := reverse ∘ step is an involution, and reverse ∘ step^k ∘ reverse ∘ step^k = Ψ^k ∘ … telescopes
  have hinv : ∀ t, reverse (fullStep F m dt G (reverse (fullStep F m dt G t))) = t :=
    full_step_reversible F m dt G hG hsym hrev
  have hcomm : ∀ (j : ℕ) (t : State n N),
      fullRun F m dt G j (fullStep F m dt G t) = fullStep F m dt G (fullRun F m dt G j t) := by
    intro j
    induction j with
    | zero => intro t; rfl
    | succ j ih => intro t; simp only [fullRun]; rw [ih]
  induction k generalizing s with
  | zero => exact reverse_reverse s
  | succ k ih =>
    simp only [fullRun]
    rw [← hcomm k (reverse (fullStep F m dt G (fullRun F m dt G k s)))]
    have h1 := hinv (fullRun F m dt G k s)
    have h2 : fullStep F m dt G (reverse (fullStep F m dt G (fullRun F m dt G k s)))
        = reverse (fullRun F m dt G k s) := by
      have := congrArg reverse h1
      rwa [reverse_reverse] at this
    rw [h2]
    exact ih s

end Mud.C07

/-
  C13 — restarting from a log reproduces the uninterrupted trajectory.

  Subject: MudModel/Loop.lean.  The dynamics are deterministic functions of the state, so the content of the
  property is which state a restart reconstructs and what the restarted loop logs.

  * `loopGo_acc`, `loopGo_append`   the loop over a concatenated position stream is the loop over the first part followed by the
                                    loop over the second part started from the state the first part ended in
  * `continueSim_restart_latch`     the "has been inside the box" latch is not logged; re-evaluating the check from an unlatched
                                    state gives the same decision and the same latch whenever the run is still going
  * `restart_equiv`                 if the first k steps do not stop the run, then restarting from the state after step k (step
                                    counter n0+k, time t0+k·dt, latch cleared, `restarting=True`) logs exactly the entries the
                                    uninterrupted run logs after step k and ends in the same state at the same step — for every
                                    interruption point k, every trace_every, every stopping rule
  * `restart_counter_witness`       the originally pinned `previous_steps = len(log)` is one too many: under `max_steps` the
                                    restarted run stops one step early (fixed in /repo)
  The electronic gauge at restart (a fresh `eigh` sign instead of the tracked one) is outside this model: KNOWN FINDING
  `restart-fresh-gauge` (the reference coefficients are not in the log), see DESIGN.md.
-/
import MudProof.Properties.C16

namespace Mud.C13
open Mud Mud.Loop Mud.C16

/-- the accumulator is only ever appended to -/
theorem loopGo_acc (L : Lim) (dt : ℝ) (te : ℕ) : ∀ (xs : List (List ℝ)) (s : S) (acc : List (ℕ × ℝ)),
    (loopGo L dt te s xs acc).log = acc ++ (loopGo L dt te s xs []).log ∧
    (loopGo L dt te s xs acc).final = (loopGo L dt te s xs []).final ∧
    (loopGo L dt te s xs acc).ranOut = (loopGo L dt te s xs []).ranOut := by
  intro xs
  induction xs with
  | nil => intro s acc; simp [loopGo]
  | cons x xs ih =>
    intro s acc
    simp only [loopGo]
    cases hc : continueSim L { s with time := s.time + dt, nsteps := s.nsteps + 1 } x with
    | mk c f =>
      cases c with
      | false => simp
      | true =>
        simp only [if_true]
        obtain ⟨h1, h2, h3⟩ := ih { nsteps := s.nsteps + 1, time := s.time + dt, found := f, forceQuit := s.forceQuit }
          (acc ++ traceIf te { nsteps := s.nsteps + 1, time := s.time + dt, found := f, forceQuit := s.forceQuit })
        obtain ⟨g1, g2, g3⟩ := ih { nsteps := s.nsteps + 1, time := s.time + dt, found := f, forceQuit := s.forceQuit }
          ([] ++ traceIf te { nsteps := s.nsteps + 1, time := s.time + dt, found := f, forceQuit := s.forceQuit })
        refine ⟨?_, ?_, ?_⟩
        · rw [h1, g1]; simp
        · rw [h2, g2]
        · rw [h3, g3]

/-- **splitting the run at an interruption point** -/
theorem loopGo_append (L : Lim) (dt : ℝ) (te : ℕ) : ∀ (xs1 xs2 : List (List ℝ)) (s : S) (acc : List (ℕ × ℝ)),
    (loopGo L dt te s xs1 acc).ranOut = true →
    loopGo L dt te s (xs1 ++ xs2) acc
      = loopGo L dt te (loopGo L dt te s xs1 acc).final xs2 (loopGo L dt te s xs1 acc).log := by
  intro xs1
  induction xs1 with
  | nil => intro xs2 s acc _; simp [loopGo]
  | cons x xs ih =>
    intro xs2 s acc hr
    simp only [List.cons_append, loopGo] at hr ⊢
    cases hc : continueSim L { s with time := s.time + dt, nsteps := s.nsteps + 1 } x with
    | mk c f =>
      rw [hc] at hr
      cases c with
      | false => simp at hr
      | true =>
        simp only [if_true] at hr ⊢
        exact ih xs2 _ _ hr

/-- the latch is not stored in the log: a restart begins unlatched.  While the run is still going this changes nothing -/
theorem continueSim_restart_latch (L : Lim) (s : S) (x : List ℝ) (h : (continueSim L s x).1 = true)
    (hidem : s.found = true → interacting L.box x = true) :
    continueSim L { s with found := false } x = (true, s.found || interacting L.box x) := by
  unfold continueSim at h ⊢
  cases h1 : s.forceQuit
  · cases h2 : stepsUp L.maxSteps s.nsteps
    · cases h3 : timeUp s.time L.maxTime
      · cases h4 : s.found
        · simp
        · simp [hidem h4]
      · simp [h1, h2, h3] at h
    · simp [h1, h2] at h
  · simp [h1] at h

/-- **T1. restart equivalence.**  Let the first `k = xs1.length` steps not stop the run.  Restarting from the state
    reached after them — step counter, time, (recomputed) latch — with `restarting = True` logs exactly what the
    uninterrupted run logs after step `k`, and ends in the same final state. -/
theorem restart_equiv (L : Lim) (dt : ℝ) (te : ℕ) (s : S) (xs1 xs2 : List (List ℝ)) (acc : List (ℕ × ℝ))
    (hgo : (loopGo L dt te s xs1 acc).ranOut = true) :
    let mid := (loopGo L dt te s xs1 acc).final
    (loopGo L dt te s (xs1 ++ xs2) acc).log
        = (loopGo L dt te s xs1 acc).log ++ (loopGo L dt te mid xs2 []).log ∧
    (loopGo L dt te s (xs1 ++ xs2) acc).final = (loopGo L dt te mid xs2 []).final ∧
    (loopGo L dt te s (xs1 ++ xs2) acc).ranOut = (loopGo L dt te mid xs2 []).ranOut := by
  intro mid
  rw [loopGo_append L dt te xs1 xs2 s acc hgo]
  exact loopGo_acc L dt te xs2 mid _

/-- the restarted `simulate()` (initial check, no initial snapshot) is that second loop -/
theorem restart_simulate (L : Lim) (dt : ℝ) (te : ℕ) (mid : S) (xk : List ℝ) (xs2 : List (List ℝ))
    (hcont : (continueSim L mid xk).1 = true) (hidem : mid.found = true → interacting L.box xk = true)
    (hlatch : (continueSim L mid xk).2 = mid.found) :
    simulate L dt te true { mid with found := false } xk xs2 = loopGo L dt te mid xs2 [] := by
  unfold simulate
  rw [continueSim_restart_latch L mid xk hcont hidem]
  have hf : (mid.found || interacting L.box xk) = mid.found := by
    rw [← C16.continueSim_snd L mid xk hcont]; exact hlatch
  simp only [if_true, hf]

/-- **the pinned step counter is one too many**: run with `max_steps = 3`, interrupted after 1 step
    (log = snapshots of steps 0 and 1, so `len(log) = 2`).  Restarting with `previous_steps = len(log) = 2` takes one
    more step; the uninterrupted run takes two more. -/
theorem restart_counter_witness :
    let L : Lim := { maxSteps := 3, maxTime := 100, box := none }
    let xs : List (List ℝ) := [[2], [3], [4]]
    (simulate L 1 1 true { nsteps := 2, time := 1, found := false, forceQuit := false } [1] xs).final.nsteps - 2 = 1 ∧
    (simulate L 1 1 true { nsteps := 1, time := 1, found := false, forceQuit := false } [1] xs).final.nsteps - 1 = 2 := by
  have t1 : timeUp (1 : ℝ) 100 = false := by simp [timeUp]; norm_num
  have t2 : timeUp ((1 : ℝ) + 1) 100 = false := by simp [timeUp]; norm_num
  have t3 : timeUp ((1 : ℝ) + 1 + 1) 100 = false := by simp [timeUp]; norm_num
  constructor
  · simp [simulate, loopGo, continueSim, stepsUp, interacting, t1, t2]
  · simp [simulate, loopGo, continueSim, stepsUp, interacting, t1, t2, t3]

end Mud.C13

/-
  C14 — trace stores return exactly what was recorded across paging, reload and cloning.

  Subject: MudModel/Trace.lean (model of `YAMLTrace` / `InMemoryTrace`), any payload types,
  **every page size `pitch ≥ 1`**, every history.

  Refinement to the specification "a plain list of snapshots" (`iter t f` is the abstraction):
  * `created_inv`, `collect_refines`   Inv is established and preserved; abs(collect x) = abs ++ [x]
  * `history_refines`                  after any sequence of collects the store holds exactly that sequence
  * `len_spec`                         len = number of snapshots
  * `getitem_spec`, `getitem_neg`, `getitem_index_error`   indexing = list indexing (negative too; IndexError outside)
  * `load_refines`                     reloading from disk gives the same object state (so appends continue seamlessly),
                                       including lengths that are exact multiples of the page size
  * `mem_getitem_spec`                 the in-memory store refines the same specification
  * `clone_same_history`, `clone_fresh`, `put_other`   a clone holds the same history under a name not in the
                                       directory; operations on one trace leave every other trace's files alone
  * `uniqueName_fresh`                 new traces never reuse an existing name
-/
import MudModel.Trace
import Mathlib.Data.List.Basic
import Mathlib.Tactic

namespace Mud.C14
open Mud.Trace

variable {σ ε : Type}

/-- representation invariant tying the object fields to the files -/
def Inv (t : YT) (f : Files σ ε) : Prop :=
  ∃ (full : List (List σ)) (act : List σ) (orph : List (List σ)),
    f.pages = full ++ act :: orph ∧ (∀ p ∈ full, p.length = t.pitch) ∧
    t.nlogs = full.length + 1 ∧ act.length ≤ t.pitch ∧ orph.length ≤ 1 ∧
    t.logsize = t.pitch * full.length + act.length ∧ (act = [] → full = []) ∧
    f.main = ⟨t.nlogs, t.pitch⟩

theorem created_inv (pitch : ℕ) : Inv (createdYT pitch) (createdFiles (σ := σ) (ε := ε) pitch) :=
  ⟨[], [], [], by simp [createdFiles], by simp, by simp [createdYT], by simp, by simp,
    by simp [createdYT], by simp, by simp [createdFiles, createdYT]⟩

/-- the abstraction under the invariant: full pages then the active page -/
theorem iter_eq {t : YT} {f : Files σ ε} {full act orph}
    (hp : f.pages = full ++ act :: orph) (hn : t.nlogs = full.length + 1) :
    iter t f = full.flatten ++ act := by
  unfold iter
  rw [hp, hn, List.take_append, List.take_of_length_le (Nat.le_succ _)]
  simp

theorem roll_iff {pitch a b : ℕ} (hp : 1 ≤ pitch) (hb : b ≤ pitch) :
    (pitch * a + b) / pitch ≠ a ↔ b = pitch := by
  constructor
  · intro h
    by_contra hne
    have hlt : b < pitch := lt_of_le_of_ne hb hne
    apply h
    rw [Nat.mul_add_div (by omega), Nat.div_eq_of_lt hlt]; simp
  · intro h
    subst h
    rw [show b * a + b = b * (a + 1) by ring, Nat.mul_div_cancel_left _ (by omega)]
    omega

theorem rolls_iff {t : YT} {a b : ℕ} (hp : 1 ≤ t.pitch) (hb : b ≤ t.pitch)
    (hsize : t.logsize = t.pitch * a + b) (hn : t.nlogs = a + 1) : rolls t = true ↔ b = t.pitch := by
  unfold rolls
  rw [decide_eq_true_iff, hsize, hn]
  simpa using roll_iff (a := a) hp hb

/-- **T1.** `collect` refines list append: all its file operations succeed, the invariant is
    preserved, and the stored sequence grows by exactly the new snapshot -/
theorem collect_refines (t : YT) (f : Files σ ε) (x : σ) (hp : 1 ≤ t.pitch) (h : Inv t f) :
    ∃ f', f.applyAll (collectOps t x) = some f' ∧ Inv (collectNext t) f' ∧
      iter (collectNext t) f' = iter t f ++ [x] ∧ f'.events = f.events := by
  obtain ⟨full, act, orph, hpages, hfull, hn, hact, horph, hsize, hne, hmain⟩ := h
  have hiter := iter_eq (t := t) hpages hn
  have hr := rolls_iff hp hact hsize hn
  unfold collectOps collectNext
  by_cases hroll : rolls t = true
  · -- page roll-over
    rw [if_pos hroll, if_pos hroll]
    have hfullact : act.length = t.pitch := hr.mp hroll
    have hlen : f.pages.length = full.length + 1 + orph.length := by
      rw [hpages]; simp; ring
    have hset : listSet f.pages (full.length + 1) [x] = full ++ act :: [[x]] := by
      unfold listSet
      rw [hpages]
      rcases orph with _ | ⟨o, os⟩
      · simp
      · have : os = [] := by
          have h2 : (o :: os).length = os.length + 1 := rfl
          exact List.length_eq_zero_iff.mp (by omega)
        subst this
        have hlt : full.length + 1 < (full ++ act :: [o]).length := by simp
        rw [if_pos hlt, List.set_append]
        simp
    refine ⟨{ f with pages := full ++ act :: [[x]], main := ⟨t.nlogs + 1, t.pitch⟩ }, ?_, ?_, ?_, ?_⟩
    · simp only [Files.applyAll, Files.apply, hn]
      have hle : full.length + 1 ≤ f.pages.length := by omega
      simp [hle, hset]
    · refine ⟨full ++ [act], [x], [], by simp, ?_, by simp [hn], by simpa using hp, by simp, ?_,
        by simp, by simp⟩
      · intro p hp'
        rcases List.mem_append.mp hp' with h1 | h1
        · exact hfull p h1
        · simp at h1; rw [h1]; exact hfullact
      · simp [hsize, hfullact]; ring
    · rw [hiter]
      have hpg : ({ f with pages := full ++ act :: [[x]], main := ⟨t.nlogs + 1, t.pitch⟩ } : Files σ ε).pages
          = (full ++ [act]) ++ [x] :: [] := by simp
      have hnl : ({ t with nlogs := t.nlogs + 1, logsize := t.logsize + 1 } : YT).nlogs
          = (full ++ [act]).length + 1 := by simp [hn]
      rw [iter_eq hpg hnl]
      simp
    · rfl
  · rw [if_neg hroll, if_neg hroll]
    have hlt : act.length < t.pitch := by
      have := hr.not.mp hroll
      omega
    have hidx : full.length < f.pages.length := by rw [hpages]; simp
    have hget : f.pages[full.length] = act := by
      simp [hpages]
    refine ⟨{ f with pages := full ++ (act ++ [x]) :: orph }, ?_, ?_, ?_, ?_⟩
    · simp only [Files.applyAll, Files.apply, hn, Nat.add_sub_cancel, hidx, dif_pos, Option.bind_some]
      congr 2
      rw [hget]
      simp [hpages, List.set_append]
    · refine ⟨full, act ++ [x], orph, rfl, hfull, hn, by simp; omega, horph, by simp [hsize]; ring,
        by simp, hmain⟩
    · rw [hiter]
      have hpg : ({ f with pages := full ++ (act ++ [x]) :: orph } : Files σ ε).pages
          = full ++ (act ++ [x]) :: orph := rfl
      have hnl : ({ t with logsize := t.logsize + 1 } : YT).nlogs = full.length + 1 := hn
      rw [iter_eq hpg hnl]
      simp
    · rfl

/-- run a whole history of collects -/
def runCollects (t : YT) (f : Files σ ε) : List σ → Option (YT × Files σ ε)
  | [] => some (t, f)
  | x :: xs => (f.applyAll (collectOps t x)).bind (fun f' => runCollects (collectNext t) f' xs)

theorem collectNext_pitch (t : YT) : (collectNext t).pitch = t.pitch := by
  unfold collectNext; split <;> rfl

/-- **history refinement**: after any sequence of collects (any length, any page size ≥ 1) the
    store holds exactly the recorded sequence appended to what it held -/
theorem history_refines (xs : List σ) : ∀ (t : YT) (f : Files σ ε), 1 ≤ t.pitch → Inv t f →
    ∃ t' f', runCollects t f xs = some (t', f') ∧ Inv t' f' ∧ iter t' f' = iter t f ++ xs ∧
      t'.pitch = t.pitch := by
  induction xs with
  | nil => intro t f _ h; exact ⟨t, f, by simp [runCollects], h, by simp, rfl⟩
  | cons x xs ih =>
    intro t f hp h
    obtain ⟨f1, hops, hinv, hiter, _⟩ := collect_refines t f x hp h
    have hp1 : 1 ≤ (collectNext t).pitch := by rw [collectNext_pitch]; exact hp
    obtain ⟨t', f', hrun, hinv', hiter', hpitch⟩ := ih _ f1 hp1 hinv
    refine ⟨t', f', ?_, hinv', ?_, ?_⟩
    · simp [runCollects, hops, hrun]
    · rw [hiter', hiter]; simp
    · rw [hpitch, collectNext_pitch]

/-- from a fresh trace: the store holds exactly the history -/
theorem fresh_history (pitch : ℕ) (hp : 1 ≤ pitch) (xs : List σ) :
    ∃ t' f', runCollects (createdYT pitch) (createdFiles (σ := σ) (ε := ε) pitch) xs = some (t', f') ∧
      Inv t' f' ∧ iter t' f' = xs := by
  obtain ⟨t', f', h1, h2, h3, _⟩ := history_refines xs (createdYT pitch) (createdFiles (σ := σ) (ε := ε) pitch)
    (by simpa [createdYT] using hp) (created_inv pitch)
  refine ⟨t', f', h1, h2, ?_⟩
  rw [h3]; simp [iter, createdFiles, createdYT]

/-- **T2a.** `len` is the number of stored snapshots -/
theorem len_spec (t : YT) (f : Files σ ε) (h : Inv t f) : len t = (iter t f).length := by
  obtain ⟨full, act, orph, hpages, hfull, hn, _, _, hsize, _, _⟩ := h
  rw [iter_eq hpages hn, len, hsize]
  simp only [List.length_append, List.length_flatten]
  congr 1
  have : List.map List.length full = List.replicate full.length t.pitch := by
    apply List.eq_replicate_iff.mpr
    refine ⟨by simp, ?_⟩
    intro b hb
    obtain ⟨p, hp, rfl⟩ := List.mem_map.mp hb
    exact hfull p hp
  rw [this]; simp [Nat.mul_comm]

/-- indexing into a concatenation of equal-length pages -/
theorem flatten_uniform_get (full : List (List σ)) (pitch : ℕ) (hfull : ∀ p ∈ full, p.length = pitch)
    (rest : List σ) (page off : ℕ) (hpage : page < full.length) (hoff : off < pitch) :
    (full.flatten ++ rest)[page * pitch + off]? = (full[page]?).bind (fun p => p[off]?) := by
  induction full generalizing page with
  | nil => simp at hpage
  | cons p ps ih =>
    have hp : p.length = pitch := hfull p (List.mem_cons_self)
    cases page with
    | zero =>
      simp only [Nat.zero_mul, Nat.zero_add, List.flatten_cons, List.append_assoc,
        List.getElem?_cons_zero, Option.bind_some]
      rw [List.getElem?_append_left (by omega)]
    | succ page =>
      simp only [List.flatten_cons, List.append_assoc, List.getElem?_cons_succ]
      rw [List.getElem?_append_right (by rw [hp]; nlinarith)]
      have : (page + 1) * pitch + off - p.length = page * pitch + off := by
        rw [hp, Nat.add_mul]; omega
      rw [this]
      exact ih (fun q hq => hfull q (List.mem_cons_of_mem _ hq)) page (by simpa using hpage)

theorem normIndex_nonneg (n k : ℕ) (hk : k < n) : normIndex n (k : ℤ) = some k := by
  unfold normIndex
  have h0 : ¬ ((k : ℤ) < 0) := by omega
  have h2 : ¬ ((k : ℤ) ≥ (n : ℤ)) := by omega
  simp [h0, h2]

theorem normIndex_neg (n j : ℕ) (hj1 : 1 ≤ j) (hj : j ≤ n) : normIndex n (-(j : ℤ)) = some (n - j) := by
  unfold normIndex
  have h0 : (-(j : ℤ)) < 0 := by omega
  have h1 : ¬ ((n : ℤ) + -(j : ℤ) < 0) := by omega
  have h2 : ¬ ((n : ℤ) + -(j : ℤ) ≥ (n : ℤ)) := by omega
  simp only [h0, if_true, h1, h2, or_self, if_false]
  congr 1; omega

theorem normIndex_out (n : ℕ) (i : ℤ) (hi : i ≥ n ∨ i < -(n : ℤ)) : normIndex n i = none := by
  unfold normIndex
  by_cases hneg : i < 0
  · have : (n : ℤ) + i < 0 := by omega
    simp [hneg, this]
  · have : i ≥ (n : ℤ) := by omega
    simp [hneg, this]

/-- **T2b.** non-negative indices: `trace[k]` is the `k`-th recorded snapshot -/
theorem getitem_spec (t : YT) (f : Files σ ε) (hp : 1 ≤ t.pitch) (h : Inv t f) (k : ℕ)
    (hk : k < t.logsize) : getitem t f (k : ℤ) = (iter t f)[k]? := by
  obtain ⟨full, act, orph, hpages, hfull, hn, hact, _, hsize, _, _⟩ := h
  rw [iter_eq hpages hn]
  unfold getitem
  rw [normIndex_nonneg _ _ hk]
  simp only [Option.bind_some]
  have hmod : k - k / t.pitch * t.pitch = k % t.pitch := by
    have := Nat.div_add_mod k t.pitch
    have := Nat.mul_comm t.pitch (k / t.pitch)
    omega
  rw [hmod]
  have hoff : k % t.pitch < t.pitch := Nat.mod_lt _ (by omega)
  have hk' : k = k / t.pitch * t.pitch + k % t.pitch := by
    have := Nat.div_add_mod k t.pitch
    have := Nat.mul_comm t.pitch (k / t.pitch)
    omega
  have hflat : full.flatten.length = t.pitch * full.length := by
    rw [List.length_flatten]
    have : List.map List.length full = List.replicate full.length t.pitch := by
      apply List.eq_replicate_iff.mpr
      refine ⟨by simp, ?_⟩
      intro b hb
      obtain ⟨p, hp', rfl⟩ := List.mem_map.mp hb
      exact hfull p hp'
    rw [this]; simp [Nat.mul_comm]
  by_cases hpage : k / t.pitch < full.length
  · rw [hpages]
    conv_rhs => rw [hk']
    rw [flatten_uniform_get full t.pitch hfull act _ _ hpage hoff]
    rw [List.getElem?_append_left hpage]
  · -- in the active page
    have hq : k / t.pitch = full.length := by
      have : k < t.pitch * (full.length + 1) := by rw [hsize] at hk; nlinarith
      have := Nat.div_lt_of_lt_mul this
      omega
    have hL : (full ++ act :: orph)[full.length]? = some act := by simp
    rw [hpages, hq, hL]
    simp only [Option.bind_some]
    have e : full.length * t.pitch = t.pitch * full.length := Nat.mul_comm _ _
    rw [hq] at hk'
    have hle : full.flatten.length ≤ k := by rw [hflat]; omega
    rw [List.getElem?_append_right hle]
    congr 1
    rw [hflat]; omega

/-- **T2c.** negative indices count from the end -/
theorem getitem_neg (t : YT) (f : Files σ ε) (hp : 1 ≤ t.pitch) (h : Inv t f) (j : ℕ)
    (hj1 : 1 ≤ j) (hj : j ≤ t.logsize) :
    getitem t f (-(j : ℤ)) = (iter t f)[t.logsize - j]? := by
  rw [← getitem_spec t f hp h (t.logsize - j) (by omega)]
  unfold getitem
  rw [normIndex_neg _ _ hj1 hj, normIndex_nonneg _ _ (by omega)]

/-- **T2d.** outside `[-len, len)` indexing raises `IndexError` -/
theorem getitem_index_error (t : YT) (f : Files σ ε) (i : ℤ)
    (hi : i ≥ t.logsize ∨ i < -(t.logsize : ℤ)) : getitem t f i = none := by
  unfold getitem
  rw [normIndex_out _ _ hi]; rfl

/-- **T3.** reloading from disk reproduces the object state — for every length ≥ 1, in particular
    lengths that are exact multiples of the page size — so a later `collect` continues seamlessly
    (`collect_refines` applies to the reloaded state) -/
theorem load_refines (t : YT) (f : Files σ ε) (h : Inv t f) (hpos : 1 ≤ t.logsize) (hp : 1 ≤ t.pitch) :
    load f = .ok t := by
  obtain ⟨full, act, orph, hpages, hfull, hn, hact, _, hsize, hne, hmain⟩ := h
  unfold load
  rw [hmain, hpages, hn]
  simp only [Nat.add_sub_cancel]
  have hget : (full ++ act :: orph)[full.length]? = some act := by simp
  rw [hget]
  have hactne : act ≠ [] := by
    intro hc
    have := hne hc
    subst this; subst hc
    simp at hsize; omega
  have : act.isEmpty = false := by
    cases act with
    | nil => exact absurd rfl hactne
    | cons a as => rfl
  simp only [this]
  congr 1
  cases t
  simp_all

/-- **T6.** the in-memory store refines the same specification: list indexing with Python's
    negative indices, `IndexError` outside — so the two stores return the same data -/
theorem mem_getitem_spec (l : List σ) (k : ℕ) (hk : k < l.length) :
    memGetitem l (k : ℤ) = l[k]? ∧ memGetitem l (-((k + 1 : ℕ) : ℤ)) = l[l.length - (k + 1)]? := by
  unfold memGetitem
  rw [normIndex_nonneg _ _ hk, normIndex_neg _ _ (by omega) (by omega)]
  exact ⟨rfl, rfl⟩

theorem mem_getitem_index_error (l : List σ) (i : ℤ) (hi : i ≥ l.length ∨ i < -(l.length : ℤ)) :
    memGetitem l i = none := by
  unfold memGetitem
  rw [normIndex_out _ _ hi]; rfl

/-- both stores agree: indexing the YAML store equals indexing the in-memory store holding the same
    sequence, for every index (valid or not) -/
theorem stores_agree (t : YT) (f : Files σ ε) (hp : 1 ≤ t.pitch) (h : Inv t f) (i : ℤ) :
    getitem t f i = memGetitem (iter t f) i := by
  have hlen := len_spec t f h
  unfold len at hlen
  by_cases hi : i ≥ t.logsize ∨ i < -(t.logsize : ℤ)
  · rw [getitem_index_error t f i hi, mem_getitem_index_error _ i (by rw [← hlen]; exact hi)]
  · by_cases hneg : i < 0
    · obtain ⟨j, rfl⟩ : ∃ j : ℕ, i = -(j : ℤ) := ⟨i.natAbs, by omega⟩
      have hj1 : 1 ≤ j := by omega
      have hj : j ≤ t.logsize := by omega
      rw [getitem_neg t f hp h j hj1 hj]
      unfold memGetitem
      rw [normIndex_neg _ _ hj1 (by rw [← hlen]; exact hj), ← hlen]; rfl
    · obtain ⟨k, rfl⟩ : ∃ k : ℕ, i = (k : ℤ) := ⟨i.toNat, by omega⟩
      have hk : k < t.logsize := by omega
      rw [getitem_spec t f hp h k hk]
      unfold memGetitem
      rw [normIndex_nonneg _ _ (by rw [← hlen]; exact hk)]; rfl

/-! ### several traces in one directory -/

theorem uniqueFrom_fresh (d : Dir σ ε) : ∀ (fuel u : ℕ),
    (∀ v, u ≤ v → v < u + fuel → d.any (·.1 == v) = true) ∨ d.any (·.1 == uniqueFrom d fuel u) = false := by
  intro fuel
  induction fuel with
  | zero => intro u; left; intro v h1 h2; omega
  | succ n ih =>
    intro u
    unfold uniqueFrom
    by_cases h : d.any (·.1 == u) = true
    · rw [if_pos h]
      rcases ih (u + 1) with h' | h'
      · left
        intro v h1 h2
        rcases Nat.eq_or_lt_of_le h1 with e | e
        · rw [← e]; exact h
        · exact h' v (by omega) (by omega)
      · right; exact h'
    · rw [if_neg h]; right; exact Bool.eq_false_iff.mpr h

/-- **T5.** the name chosen for a new trace (or a clone) is not in the directory: no existing file is
    reused or overwritten -/
theorem uniqueName_fresh (d : Dir σ ε) : d.find (uniqueName d) = none := by
  have hkey : d.any (·.1 == uniqueName d) = false := by
    rcases uniqueFrom_fresh d (d.length + 1) 0 with h | h
    · -- d.length + 1 distinct keys all present in a list of length d.length: impossible
      exfalso
      have hinj : ∀ v, v < d.length + 1 → ∃ e ∈ d, e.1 = v := by
        intro v hv
        have := h v (by omega) (by omega)
        rw [List.any_eq_true] at this
        obtain ⟨e, he, heq⟩ := this
        exact ⟨e, he, by simpa using heq⟩
      have hsub : (List.range (d.length + 1)) ⊆ d.map (·.1) := by
        intro v hv
        obtain ⟨e, he, heq⟩ := hinj v (List.mem_range.mp hv)
        exact List.mem_map.mpr ⟨e, he, heq⟩
      have hnd : (List.range (d.length + 1)).Nodup := List.nodup_range
      have := List.Nodup.length_le_of_subset hnd hsub   -- wrong direction guard below
      simp at this
    · exact h
  unfold Dir.find
  have : d.find? (·.1 == uniqueName d) = none := by
    rw [List.find?_eq_none]
    intro e he
    exact List.any_eq_false.mp hkey e he
  rw [this]; rfl

/-- **T4a.** a clone starts with the same history (and events) as its original -/
theorem clone_same_history (d : Dir σ ε) (t : YT) (f : Files σ ε) :
    iter (clone d t f).2.1 (clone d t f).2.2 = iter t f ∧ (clone d t f).2.2.events = f.events := by
  simp [clone, iter, List.take_take]

/-- the clone satisfies the representation invariant (so it accepts appends like any trace) -/
theorem clone_inv (d : Dir σ ε) (t : YT) (f : Files σ ε) (h : Inv t f) :
    Inv (clone d t f).2.1 (clone d t f).2.2 := by
  obtain ⟨full, act, orph, hpages, hfull, hn, hact, horph, hsize, hne, hmain⟩ := h
  refine ⟨full, act, [], ?_, hfull, hn, hact, by simp, hsize, hne, rfl⟩
  simp only [clone]
  rw [hpages, hn, List.take_append]
  simp

/-- **T4b.** the clone lives under a name that is not in the directory -/
theorem clone_fresh (d : Dir σ ε) (t : YT) (f : Files σ ε) : d.find (clone d t f).1 = none := by
  simpa [clone] using uniqueName_fresh d

theorem find_map_other (d : Dir σ ε) (u v : ℕ) (f : Files σ ε) (h : u ≠ v) :
    (d.map (fun e => if e.1 == u then (u, f) else e)).find? (·.1 == v) = d.find? (·.1 == v) := by
  induction d with
  | nil => rfl
  | cons e es ih =>
    rw [List.map_cons, List.find?_cons, List.find?_cons, ih]
    by_cases he : (e.1 == u) = true
    · have heu : e.1 = u := by simpa using he
      have h1 : (u == v) = false := by simpa using h
      have h2 : (e.1 == v) = false := by rw [heu]; exact h1
      simp [he, h1, h2]
    · simp [he]

theorem find_put_other (d : Dir σ ε) (u v : ℕ) (f : Files σ ε) (h : u ≠ v) :
    (d.put u f).find v = d.find v := by
  unfold Dir.put Dir.find
  split
  · rw [find_map_other d u v f h]
  · rw [List.find?_append]
    have : ¬ ((u == v) = true) := by simpa using h
    cases hfind : List.find? (fun x => x.1 == v) d <;> simp [this]

/-- **T4c / independence**: writing the files of trace `u` leaves the files of every other trace
    (in particular of its clone or its original) unchanged -/
theorem put_other (d : Dir σ ε) (u v : ℕ) (f : Files σ ε) (h : u ≠ v) :
    (d.put u f).find v = d.find v := find_put_other d u v f h

/-- non-vacuity: pitch 2, three snapshots: second page rolled -/
example : ∃ t' f', runCollects (createdYT 2) (createdFiles (σ := ℕ) (ε := ℕ) 2) [7, 8, 9] = some (t', f')
    ∧ f'.pages = [[7, 8], [9]] ∧ t'.nlogs = 2 := by
  refine ⟨_, _, rfl, ?_, ?_⟩ <;> decide

end Mud.C14

/-
  C18 — quadrature rules integrate exactly to their degree on any interval.

  Subject: MudModel/Quadrature.lean (models of `mudslide.integration`) at `ℝ`, **for every point
  count `n`** and every interval `a < b`.

  midpoint / trapezoid / Simpson:
  * `*_wts_pos`, `*_pts_strictMono`, `*_pts_mem`         positive weights, increasing nodes in [a,b]
  * `midpoint_moment0/1`, `trapezoid_moment0/1`          Σw = b-a, Σ w x = (b²-a²)/2  (degree 1)
  * `simpson_panel`                                      the loop's 1,4,2,…,4,1 pattern is the sum of
                                                         three-point panels (odd n, every n)
  * `simpson_moment` (k = 0..3)                          Σ w x^k = (b^{k+1}-a^{k+1})/(k+1) (degree 3)
  Gauss–Legendre:
  * `affine_transport`      a rule exact to degree d on [-1,1] is exact to degree d on [a,b] after the
                            code's affine map (all polynomials, via `Polynomial.comp`)
  * `gl_wts_sum`, `gl_wts_pos`, `gl_pts_strictMono`, `gl_pts_mem`
  * `gl_pinned_sum`, `gl_pinned_wrong_on_default`   the originally pinned `weights *= 0.5` gives Σw = 1
                            whatever the interval (counterexample on the default [-1,1])
  Clenshaw–Curtis, with `np.fft.ifft` replaced by its definition (`ccIdft`, the real part of the inverse DFT), so that the
  whole rule is inside the model, for EVERY n ≥ 2:
  * `cc_wts_sum`            the weights sum to b-a (roots-of-unity sums `sum_cos_roots`, `idft_sum`, `idft_zero`; the
                            telescoping `sum_vbase`; the mirrored vectors `ccV_sum = 0`, `ccG_sum = s·wcc0`)
  * `cc_pts_strictMono`, `cc_pts_mem`, `cc_pts_first = a`, `cc_pts_last = b`
  * `cc_end_wts`, `cc_end_wts_pos`   closed form and positivity of the two end weights
  * `idft_reflect`, `cc_wts_symmetric`   w_i = w_{n-1-i}
  * `cc_wts_endpoints`, `cc_wts_scale`  (post-processing, any ifft result)
  * `ccH_nonpos`, `ccIdft_ge_w0`, `cc_wts_ge_end`, `cc_wts_pos`, `cc_wts_two`, `cc_wts_pos_all`
                            ALL weights are positive, for every n ≥ 2 and every interval, and none is smaller than the end weights:
                            every entry of h = v + g but the first is ≤ 0, so replacing each cosine of the inverse DFT by 1 can
                            only lower it, and Σ h = s·wcc0
  * `cc_pts_reflect`, `cc_exact_linear`   nodes symmetric about the midpoint; the rule is exact for linear functions for every n ≥ 2
  * `cc_rule_reflect`, `cc_exact_odd`     Σ w f(x) = Σ w f(a+b−x) for any integrand; every integrand odd about the midpoint is integrated
                            exactly (to zero) for every n ≥ 2
  partial (DESIGN §7 C18): exactness to degree n-1 (beyond degree 1) for all n is not proved (per-n oracle in the harness).
-/
import MudProof.RealInst
import MudModel.Quadrature
import Mathlib.Algebra.BigOperators.Fin
import Mathlib.Algebra.BigOperators.Intervals
import Mathlib.Algebra.Polynomial.Eval.Degree
import Mathlib.Analysis.SpecialFunctions.Integrals.Basic
import Mathlib.RingTheory.RootsOfUnity.Complex
import Mathlib.Tactic

namespace Mud.C18
open Mud Finset

/-! ### elementary sums -/

theorem sum_range_id (n : ℕ) : ∑ i ∈ range n, (i : ℝ) = (n : ℝ) * ((n : ℝ) - 1) / 2 := by
  induction n with
  | zero => simp
  | succ n ih => rw [sum_range_succ, ih]; push_cast; ring

theorem sum_fin_eq_range {n : ℕ} (g : ℕ → ℝ) : ∑ i : Fin n, g i.val = ∑ i ∈ range n, g i :=
  Fin.sum_univ_eq_sum_range g n

/-! ### midpoint -/

section midpoint
variable (n : ℕ) (a b : ℝ)

theorem midpoint_wts_pos (hn : 0 < n) (hab : a < b) (i : Fin n) : 0 < midpointWts n a b i := by
  simp only [midpointWts, one_mul]
  have : (0 : ℝ) < n := by exact_mod_cast hn
  apply div_pos <;> linarith

theorem midpoint_moment0 (hn : 0 < n) : ∑ i, midpointWts n a b i = b - a := by
  have : (n : ℝ) ≠ 0 := by exact_mod_cast hn.ne'
  simp [midpointWts]
  field_simp

theorem midpoint_moment1 (hn : 0 < n) :
    ∑ i, midpointWts n a b i * midpointPts n a b i = (b ^ 2 - a ^ 2) / 2 := by
  have hn' : (n : ℝ) ≠ 0 := by exact_mod_cast hn.ne'
  simp only [midpointWts, midpointPts, frac_real, one_mul]
  rw [sum_fin_eq_range (fun i => (b - a) / (n : ℝ) * (a + (b - a) / (n : ℝ) * ((i : ℝ) + (1 : ℕ) / (2 : ℕ))))]
  simp only [mul_add, sum_add_distrib, ← mul_sum, sum_const, card_range, nsmul_eq_mul, sum_range_id]
  push_cast
  field_simp
  ring

theorem midpoint_pts_strictMono (hn : 0 < n) (hab : a < b) : StrictMono (midpointPts n a b) := by
  intro i j hij
  simp only [midpointPts, frac_real]
  have hpos : 0 < (b - a) / (n : ℝ) := div_pos (by linarith) (by exact_mod_cast hn)
  have : (i.val : ℝ) < (j.val : ℝ) := by exact_mod_cast hij
  nlinarith

theorem midpoint_pts_mem (hn : 0 < n) (hab : a < b) (i : Fin n) :
    a < midpointPts n a b i ∧ midpointPts n a b i < b := by
  simp only [midpointPts, frac_real]
  have hn' : (0 : ℝ) < n := by exact_mod_cast hn
  have hi : (i.val : ℝ) + 1 ≤ n := by exact_mod_cast i.isLt
  have hi0 : (0 : ℝ) ≤ i.val := by positivity
  have hpos : 0 < (b - a) / (n : ℝ) := div_pos (by linarith) hn'
  constructor
  · have : 0 < (b - a) / (n : ℝ) * ((i.val : ℝ) + (1 : ℕ) / (2 : ℕ)) := by
      apply mul_pos hpos; push_cast; linarith
    linarith
  · have h1 : (b - a) / (n : ℝ) * ((i.val : ℝ) + (1 : ℕ) / (2 : ℕ)) < (b - a) / (n : ℝ) * n := by
      apply mul_lt_mul_of_pos_left _ hpos; push_cast; linarith
    have h2 : (b - a) / (n : ℝ) * n = b - a := by field_simp
    linarith

end midpoint

/-! ### the uniform grid shared by trapezoid and Simpson -/

section grid
variable (n : ℕ) (a b : ℝ)

theorem grid_pts_strictMono (hn : 2 ≤ n) (hab : a < b) : StrictMono (gridPts n a b) := by
  intro i j hij
  simp only [gridPts]
  have hn' : (0 : ℝ) < ((n - 1 : ℕ) : ℝ) := by exact_mod_cast (by omega : 0 < n - 1)
  have hpos : 0 < (b - a) / ((n - 1 : ℕ) : ℝ) := div_pos (by linarith) hn'
  have : (i.val : ℝ) < (j.val : ℝ) := by exact_mod_cast hij
  nlinarith

theorem grid_pts_mem (hn : 2 ≤ n) (hab : a < b) (i : Fin n) :
    a ≤ gridPts n a b i ∧ gridPts n a b i ≤ b := by
  simp only [gridPts]
  have hn' : (0 : ℝ) < ((n - 1 : ℕ) : ℝ) := by exact_mod_cast (by omega : 0 < n - 1)
  have hpos : 0 < (b - a) / ((n - 1 : ℕ) : ℝ) := div_pos (by linarith) hn'
  have hi : (i.val : ℝ) ≤ ((n - 1 : ℕ) : ℝ) := by exact_mod_cast (by omega : i.val ≤ n - 1)
  have hi0 : (0 : ℝ) ≤ i.val := by positivity
  constructor
  · have := mul_nonneg hpos.le hi0; linarith
  · have h1 := mul_le_mul_of_nonneg_left hi hpos.le
    have h2 : (b - a) / ((n - 1 : ℕ) : ℝ) * ((n - 1 : ℕ) : ℝ) = b - a := by field_simp
    linarith

theorem grid_first (hn : 2 ≤ n) : gridPts n a b ⟨0, by omega⟩ = a := by simp [gridPts]

theorem grid_last (hn : 2 ≤ n) : gridPts n a b ⟨n - 1, by omega⟩ = b := by
  simp only [gridPts]
  have hn' : ((n - 1 : ℕ) : ℝ) ≠ 0 := by exact_mod_cast (by omega : n - 1 ≠ 0)
  field_simp; ring

end grid

/-! ### trapezoid -/

section trapezoid
variable (n : ℕ) (a b : ℝ)

/-- sums against the "ends are special" pattern -/
theorem sum_ends (hn : 2 ≤ n) (c d : ℝ) (g : ℕ → ℝ) :
    ∑ i ∈ range n, (if i = 0 ∨ i = n - 1 then c else d) * g i
      = d * ∑ i ∈ range n, g i + (c - d) * (g 0 + g (n - 1)) := by
  have h : ∀ i ∈ range n, (if i = 0 ∨ i = n - 1 then c else d) * g i
      = d * g i + (c - d) * ((if i = 0 then g i else 0) + (if i = n - 1 then g i else 0)) := by
    intro i _
    by_cases h0 : i = 0
    · subst h0
      have : (0 : ℕ) ≠ n - 1 := by omega
      simp [this]; ring
    · by_cases h1 : i = n - 1
      · have h10 : n - 1 ≠ 0 := by omega
        subst h1
        simp [h10]; ring
      · simp [h0, h1]
  rw [sum_congr rfl h, sum_add_distrib, ← mul_sum, ← mul_sum, sum_add_distrib,
    sum_ite_eq' (range n) 0 g, sum_ite_eq' (range n) (n - 1) g]
  simp [mem_range, (by omega : 0 < n), (by omega : n - 1 < n)]

theorem trapezoid_wts_pos (hn : 2 ≤ n) (hab : a < b) (i : Fin n) : 0 < trapezoidWts n a b i := by
  simp only [trapezoidWts, frac_real, one_mul]
  have hn' : (0 : ℝ) < ((n - 1 : ℕ) : ℝ) := by exact_mod_cast (by omega : 0 < n - 1)
  have hpos : 0 < (b - a) / ((n - 1 : ℕ) : ℝ) := div_pos (by linarith) hn'
  split_ifs
  · push_cast; linarith
  · exact hpos

theorem trapezoid_wts_eq (i : Fin n) :
    trapezoidWts n a b i
      = (if i.val = 0 ∨ i.val = n - 1 then (b - a) / ((n - 1 : ℕ) : ℝ) / 2
          else (b - a) / ((n - 1 : ℕ) : ℝ)) := by
  simp only [trapezoidWts, frac_real, one_mul]
  split_ifs <;> push_cast <;> ring

theorem trapezoid_moment0 (hn : 2 ≤ n) : ∑ i, trapezoidWts n a b i = b - a := by
  have hn' : ((n - 1 : ℕ) : ℝ) ≠ 0 := by exact_mod_cast (by omega : n - 1 ≠ 0)
  simp_rw [trapezoid_wts_eq]
  have := sum_ends n hn ((b - a) / ((n - 1 : ℕ) : ℝ) / 2) ((b - a) / ((n - 1 : ℕ) : ℝ)) (fun _ => 1)
  simp only [mul_one] at this
  rw [sum_fin_eq_range (fun i => if i = 0 ∨ i = n - 1 then (b - a) / ((n - 1 : ℕ) : ℝ) / 2
    else (b - a) / ((n - 1 : ℕ) : ℝ)), this]
  simp only [sum_const, card_range, nsmul_eq_mul, mul_one]
  have : (n : ℝ) = ((n - 1 : ℕ) : ℝ) + 1 := by
    have : n = (n - 1) + 1 := by omega
    exact_mod_cast this
  rw [this]; field_simp; ring

theorem trapezoid_moment1 (hn : 2 ≤ n) :
    ∑ i, trapezoidWts n a b i * gridPts n a b i = (b ^ 2 - a ^ 2) / 2 := by
  have hn' : ((n - 1 : ℕ) : ℝ) ≠ 0 := by exact_mod_cast (by omega : n - 1 ≠ 0)
  simp_rw [trapezoid_wts_eq]
  simp only [gridPts]
  have := sum_ends n hn ((b - a) / ((n - 1 : ℕ) : ℝ) / 2) ((b - a) / ((n - 1 : ℕ) : ℝ))
    (fun i => a + (b - a) / ((n - 1 : ℕ) : ℝ) * (i : ℝ))
  rw [sum_fin_eq_range (fun i => (if i = 0 ∨ i = n - 1 then (b - a) / ((n - 1 : ℕ) : ℝ) / 2
    else (b - a) / ((n - 1 : ℕ) : ℝ)) * (a + (b - a) / ((n - 1 : ℕ) : ℝ) * (i : ℝ))), this]
  simp only [sum_add_distrib, ← mul_sum, sum_const, card_range, nsmul_eq_mul, sum_range_id]
  have hnn : (n : ℝ) = ((n - 1 : ℕ) : ℝ) + 1 := by
    have : n = (n - 1) + 1 := by omega
    exact_mod_cast this
  rw [hnn]; push_cast; field_simp; ring

end trapezoid

/-! ### Simpson -/

section simpson

/-- the weight pattern written by the loop is the sum of `m` three-point panels (`n = 2m+1`) -/
theorem simpson_panel (m : ℕ) (hm : 1 ≤ m) (g : ℕ → ℝ) :
    ∑ i ∈ range (2 * m + 1), (simpsonPattern (2 * m + 1) i : ℝ) * g i
      = ∑ j ∈ range m, (g (2 * j) + 4 * g (2 * j + 1) + g (2 * j + 2)) := by
  induction m, hm using Nat.le_induction with
  | base =>
    simp [sum_range_succ, simpsonPattern]
  | succ m hm ih =>
    rw [sum_range_succ (fun j => g (2 * j) + 4 * g (2 * j + 1) + g (2 * j + 2)), ← ih]
    have hL : ∑ i ∈ range (2 * (m + 1) + 1), (simpsonPattern (2 * (m + 1) + 1) i : ℝ) * g i
        = ∑ i ∈ range (2 * m), (simpsonPattern (2 * (m + 1) + 1) i : ℝ) * g i
          + (simpsonPattern (2 * (m + 1) + 1) (2 * m) : ℝ) * g (2 * m)
          + (simpsonPattern (2 * (m + 1) + 1) (2 * m + 1) : ℝ) * g (2 * m + 1)
          + (simpsonPattern (2 * (m + 1) + 1) (2 * m + 2) : ℝ) * g (2 * m + 2) := by
      rw [show 2 * (m + 1) + 1 = 2 * m + 1 + 1 + 1 by ring, sum_range_succ, sum_range_succ,
        sum_range_succ]
    have hR : ∑ i ∈ range (2 * m + 1), (simpsonPattern (2 * m + 1) i : ℝ) * g i
        = ∑ i ∈ range (2 * m), (simpsonPattern (2 * m + 1) i : ℝ) * g i
          + (simpsonPattern (2 * m + 1) (2 * m) : ℝ) * g (2 * m) := sum_range_succ _ _
    have hcongr : ∀ i ∈ range (2 * m), (simpsonPattern (2 * (m + 1) + 1) i : ℝ) * g i
        = (simpsonPattern (2 * m + 1) i : ℝ) * g i := by
      intro i hi
      have : i < 2 * m := mem_range.mp hi
      simp only [simpsonPattern]
      have h1 : i ≠ 2 * (m + 1) + 1 - 1 := by omega
      have h2 : i ≠ 2 * m + 1 - 1 := by omega
      simp only [h1, h2, or_false]
    have e1 : simpsonPattern (2 * (m + 1) + 1) (2 * m) = 2 := by
      simp only [simpsonPattern]
      have h0 : 2 * m ≠ 0 := by omega
      have h2 : 2 * m ≠ 2 * (m + 1) + 1 - 1 := by omega
      have h3 : ¬ (2 * m) % 2 = 1 := by omega
      simp only [h0, h2, h3, or_self, if_false]
    have e2 : simpsonPattern (2 * (m + 1) + 1) (2 * m + 1) = 4 := by
      simp only [simpsonPattern]
      have h0 : 2 * m + 1 ≠ 0 := by omega
      have h2 : 2 * m + 1 ≠ 2 * (m + 1) + 1 - 1 := by omega
      have h3 : (2 * m + 1) % 2 = 1 := by omega
      simp only [h0, h2, h3, or_self, if_false, if_true]
    have e3 : simpsonPattern (2 * (m + 1) + 1) (2 * m + 2) = 1 := by
      simp only [simpsonPattern]
      have h2 : 2 * m + 2 = 2 * (m + 1) + 1 - 1 := by omega
      simp only [h2, or_true, if_true]
    have e4 : simpsonPattern (2 * m + 1) (2 * m) = 1 := by
      simp only [simpsonPattern]
      have h2 : 2 * m = 2 * m + 1 - 1 := by omega
      simp only [← h2, or_true, if_true]
    rw [hL, hR, sum_congr rfl hcongr, e1, e2, e3, e4]
    push_cast
    ring

theorem simpson_wts_pos (n : ℕ) (a b : ℝ) (hn : 2 ≤ n) (hab : a < b) (i : Fin n) :
    0 < simpsonWts n a b i := by
  simp only [simpsonWts, lit_real]
  have hn' : (0 : ℝ) < ((n - 1 : ℕ) : ℝ) := by exact_mod_cast (by omega : 0 < n - 1)
  apply mul_pos
  · have : 0 < simpsonPattern n i.val := by
      simp only [simpsonPattern]; split_ifs <;> norm_num
    exact_mod_cast this
  · apply div_pos (div_pos (by linarith) hn'); norm_num

/-- antiderivative of `x^k` -/
noncomputable def F (k : ℕ) (x : ℝ) : ℝ := x ^ (k + 1) / ((k : ℝ) + 1)

/-- one panel integrates `x^k`, `k ≤ 3`, exactly -/
theorem panel_exact (k : ℕ) (hk : k ≤ 3) (x h : ℝ) :
    h / 3 * (x ^ k + 4 * (x + h) ^ k + (x + 2 * h) ^ k) = F k (x + 2 * h) - F k x := by
  unfold F
  interval_cases k <;> · push_cast; ring

/-- **Simpson integrates polynomials of degree ≤ 3 exactly**, for every odd point count
    `n = 2m+1 ≥ 3` and every interval: `Σ w_i x_i^k = (b^{k+1} - a^{k+1})/(k+1)`, `k = 0..3`. -/
theorem simpson_moment (m : ℕ) (hm : 1 ≤ m) (a b : ℝ) (k : ℕ) (hk : k ≤ 3) :
    ∑ i, simpsonWts (2 * m + 1) a b i * gridPts (2 * m + 1) a b i ^ k = F k b - F k a := by
  have hm' : ((2 * m : ℕ) : ℝ) ≠ 0 := by exact_mod_cast (by omega : 2 * m ≠ 0)
  obtain ⟨h, hh⟩ : ∃ h : ℝ, h = (b - a) / ((2 * m : ℕ) : ℝ) := ⟨_, rfl⟩
  have e : ∀ i : Fin (2 * m + 1), simpsonWts (2 * m + 1) a b i * gridPts (2 * m + 1) a b i ^ k
      = (simpsonPattern (2 * m + 1) i.val : ℝ) * (h / 3 * (a + h * (i.val : ℝ)) ^ k) := by
    intro i
    simp only [simpsonWts, gridPts, lit_real, Nat.add_sub_cancel]
    rw [← hh]
    push_cast
    ring
  simp_rw [e]
  rw [sum_fin_eq_range (fun i => (simpsonPattern (2 * m + 1) i : ℝ) * (h / 3 * (a + h * (i : ℝ)) ^ k)),
    simpson_panel m hm]
  have hp : ∀ j ∈ range m, (h / 3 * (a + h * ((2 * j : ℕ) : ℝ)) ^ k
      + 4 * (h / 3 * (a + h * ((2 * j + 1 : ℕ) : ℝ)) ^ k)
      + h / 3 * (a + h * ((2 * j + 2 : ℕ) : ℝ)) ^ k)
      = F k (a + h * ((2 * (j + 1) : ℕ) : ℝ)) - F k (a + h * ((2 * j : ℕ) : ℝ)) := by
    intro j _
    have := panel_exact k hk (a + h * ((2 * j : ℕ) : ℝ)) h
    rw [show a + h * ((2 * (j + 1) : ℕ) : ℝ) = a + h * ((2 * j : ℕ) : ℝ) + 2 * h by push_cast; ring,
      ← this]
    push_cast
    ring
  rw [sum_congr rfl hp, sum_range_sub (fun j => F k (a + h * ((2 * j : ℕ) : ℝ)))]
  have eb : a + h * ((2 * m : ℕ) : ℝ) = b := by rw [hh]; field_simp; ring
  have ea : a + h * ((2 * 0 : ℕ) : ℝ) = a := by simp
  rw [eb, ea]

end simpson

/-! ### Gauss–Legendre: the affine map -/

section gl
open Polynomial
variable {n : ℕ}

/-- **Affine transport.** If `(t, w)` integrates every polynomial of degree ≤ d exactly on `[-1,1]`
    then the nodes and weights produced by the code's affine map integrate every polynomial of
    degree ≤ d exactly on `[a,b]`. -/
theorem affine_transport (t w : Fin n → ℝ) (d : ℕ)
    (hex : ∀ p : ℝ[X], p.natDegree ≤ d → ∑ i, w i * p.eval (t i) = ∫ x in (-1 : ℝ)..1, p.eval x)
    (a b : ℝ) (hab : a < b) (q : ℝ[X]) (hq : q.natDegree ≤ d) :
    ∑ i, glWts w a b i * q.eval (glPts t a b i) = ∫ x in a..b, q.eval x := by
  set α := (b - a) / 2 with hα
  set β := (a + b) / 2 with hβ
  have hα0 : α ≠ 0 := by rw [hα]; linarith
  let r : ℝ[X] := C α * X + C β
  have hdeg : (q.comp r).natDegree ≤ d := by
    calc (q.comp r).natDegree ≤ q.natDegree * r.natDegree := natDegree_comp_le
      _ ≤ q.natDegree * 1 := by
          apply Nat.mul_le_mul_left
          exact natDegree_linear_le
      _ ≤ d := by simpa using hq
  have h1 := hex (q.comp r) hdeg
  have hpt : ∀ i, glPts t a b i = α * t i + β := by
    intro i; simp only [glPts, frac_real, hα, hβ]; push_cast; ring
  have hwt : ∀ i, glWts w a b i = w i * α := by
    intro i; simp only [glWts, frac_real, hα]; push_cast; ring
  simp_rw [hpt, hwt]
  have : ∀ i, w i * α * q.eval (α * t i + β) = α * (w i * (q.comp r).eval (t i)) := by
    intro i; simp [r, eval_comp]; ring
  simp_rw [this, ← mul_sum, h1]
  simp only [eval_comp, r, eval_add, eval_mul, eval_C, eval_X]
  have := intervalIntegral.integral_comp_mul_add (fun x => q.eval x) hα0 β (a := -1) (b := 1)
  rw [this, smul_eq_mul, ← mul_assoc, mul_inv_cancel₀ hα0, one_mul]
  congr 1 <;> simp only [hα, hβ] <;> ring

theorem gl_wts_sum (w : Fin n → ℝ) (a b : ℝ) (hw : ∑ i, w i = 2) :
    ∑ i, glWts w a b i = b - a := by
  simp only [glWts, frac_real, ← sum_mul, hw]; push_cast; ring

theorem gl_wts_pos (w : Fin n → ℝ) (a b : ℝ) (hab : a < b) (i : Fin n) (hw : 0 < w i) :
    0 < glWts w a b i := by
  simp only [glWts, frac_real]; push_cast
  apply mul_pos hw; linarith

theorem gl_pts_strictMono (t : Fin n → ℝ) (a b : ℝ) (hab : a < b) (ht : StrictMono t) :
    StrictMono (glPts t a b) := by
  intro i j hij
  have := ht hij
  simp only [glPts, frac_real]; push_cast
  nlinarith

theorem gl_pts_mem (t : Fin n → ℝ) (a b : ℝ) (hab : a < b) (i : Fin n) (h1 : -1 < t i) (h2 : t i < 1) :
    a < glPts t a b i ∧ glPts t a b i < b := by
  simp only [glPts, frac_real]; push_cast
  constructor <;> nlinarith

/-- the originally pinned code (`weights *= 0.5`): the weights sum to 1 whatever the interval -/
theorem gl_pinned_sum (w : Fin n → ℝ) (hw : ∑ i, w i = 2) : ∑ i, glWtsPinned w i = 1 := by
  simp only [glWtsPinned, frac_real, ← sum_mul, hw]; push_cast; ring

/-- **counterexample for the pinned tree**: on the default interval `[-1,1]` the weights do not
    sum to the interval length -/
theorem gl_pinned_wrong_on_default (w : Fin n → ℝ) (hw : ∑ i, w i = 2) :
    ∑ i, glWtsPinned w i ≠ (1 : ℝ) - (-1) := by
  rw [gl_pinned_sum w hw]; norm_num

end gl

/-! ### Clenshaw–Curtis: post-processing (partial) -/

theorem cc_wts_endpoints (n : ℕ) (hn : 2 ≤ n) (wcc : ℕ → ℝ) (a b : ℝ) :
    ccWts n wcc a b ⟨0, by omega⟩ = ccWts n wcc a b ⟨n - 1, by omega⟩ := by
  simp only [ccWts]
  have : n - 1 - (n - 1) = 0 := by omega
  simp [this]

theorem cc_wts_scale (n : ℕ) (wcc : ℕ → ℝ) (a b : ℝ) (i : Fin n) :
    ccWts n wcc a b i = ccWts n wcc (-1) 1 i * ((b - a) / 2) := by
  simp only [ccWts, frac_real]; push_cast; ring

/-! ### Clenshaw–Curtis with the model's own inverse DFT -/

/-- Σ_{k<s} cos(2π j k / s) = s if j = 0, else 0 (0 ≤ j < s) -/
theorem sum_cos_roots (s j : ℕ) (hj : j < s) :
    ∑ k ∈ range s, Real.cos (2 * Real.pi * ((j * k : ℕ) : ℝ) / (s : ℝ)) = if j = 0 then (s : ℝ) else 0 := by
  have hs : 0 < s := by omega
  have hsR : (s : ℝ) ≠ 0 := by positivity
  by_cases h0 : j = 0
  · subst h0; simp
  · simp only [h0, if_false]
    -- ζ = exp(2πi j / s) is an s-th root of unity different from 1
    set ζ : ℂ := Complex.exp (2 * Real.pi * Complex.I * ((j : ℂ) / (s : ℂ))) with hζ
    obtain ⟨ω, hω, hprim⟩ : ∃ ω : ℂ, ω = Complex.exp (2 * Real.pi * Complex.I / (s : ℂ)) ∧ IsPrimitiveRoot ω s :=
      ⟨_, rfl, Complex.isPrimitiveRoot_exp s (by omega)⟩
    have hζpow : ζ = ω ^ j := by
      rw [hζ, hω, ← Complex.exp_nat_mul]; congr 1; field_simp
    have hζ1 : ζ ≠ 1 := by
      rw [hζpow]; exact hprim.pow_ne_one_of_pos_of_lt (by omega) hj
    have hζs : ζ ^ s = 1 := by
      rw [hζpow, ← pow_mul, mul_comm, pow_mul, hprim.pow_eq_one, one_pow]
    have hgeom : ∑ k ∈ range s, ζ ^ k = 0 := by
      have := mul_geom_sum ζ s
      rw [hζs, sub_self] at this
      rcases mul_eq_zero.mp this with h | h
      · exact absurd (sub_eq_zero.mp h) hζ1
      · exact h
    have hre : ∀ k : ℕ, Real.cos (2 * Real.pi * ((j * k : ℕ) : ℝ) / (s : ℝ)) = (ζ ^ k).re := by
      intro k
      rw [hζ, ← Complex.exp_nat_mul]
      have : (k : ℂ) * (2 * Real.pi * Complex.I * ((j : ℂ) / (s : ℂ)))
          = ((2 * Real.pi * ((j * k : ℕ) : ℝ) / (s : ℝ) : ℝ) : ℂ) * Complex.I := by
        push_cast; field_simp
      rw [this, Complex.exp_ofReal_mul_I_re]
    rw [Finset.sum_congr rfl (fun k _ => hre k), ← Complex.re_sum, hgeom]; simp

theorem ccIdft_real (s : ℕ) (h : Fin s → ℝ) (k : ℕ) :
    ccIdft s Real.pi h k = (∑ j : Fin s, h j * Real.cos (2 * Real.pi * ((j.val * k : ℕ) : ℝ) / (s : ℝ))) / (s : ℝ) := by
  simp [ccIdft, vsum_eq_sum]

/-- the inverse DFT sums to the zero-frequency input -/
theorem idft_sum (s : ℕ) (hs : 0 < s) (h : Fin s → ℝ) :
    ∑ k ∈ range s, ccIdft s Real.pi h k = h ⟨0, hs⟩ := by
  have hsR : (s : ℝ) ≠ 0 := by positivity
  simp only [ccIdft_real]
  rw [← Finset.sum_div, Finset.sum_comm]
  have : ∀ j : Fin s, ∑ k ∈ range s, h j * Real.cos (2 * Real.pi * ((j.val * k : ℕ) : ℝ) / (s : ℝ))
      = h j * (if j.val = 0 then (s : ℝ) else 0) := by
    intro j; rw [← Finset.mul_sum, sum_cos_roots s j.val j.isLt]
  rw [Finset.sum_congr rfl (fun j _ => this j)]
  rw [Finset.sum_eq_single (⟨0, hs⟩ : Fin s)]
  · simp; field_simp
  · intro j _ hj
    have : j.val ≠ 0 := fun h0 => hj (Fin.ext h0)
    simp [this]
  · simp

/-- entry 0 of the inverse DFT is the mean of the input -/
theorem idft_zero (s : ℕ) (h : Fin s → ℝ) : ccIdft s Real.pi h 0 = (∑ j, h j) / (s : ℝ) := by
  simp [ccIdft_real]


/-- the mirrored vector `x[s - k] = x[k]` summed: both halves in terms of the base entries -/
theorem sum_mirror (s : ℕ) (hs : 0 < s) (B : ℕ → ℝ) :
    ∑ i : Fin s, (if i.val ≤ s / 2 then B i.val else B (s - i.val))
      = ∑ k ∈ range (s / 2 + 1), B k + ∑ k ∈ Ico 1 (s - s / 2), B k := by
  have hp : s / 2 + 1 ≤ s := by omega
  rw [sum_fin_eq_range (fun i => if i ≤ s / 2 then B i else B (s - i))]
  rw [← Finset.sum_range_add_sum_Ico _ hp]
  congr 1
  · apply Finset.sum_congr rfl; intro i hi
    have : i ≤ s / 2 := by have := Finset.mem_range.mp hi; omega
    simp [this]
  · have h1 : ∑ i ∈ Ico (s / 2 + 1) s, (if i ≤ s / 2 then B i else B (s - i))
        = ∑ i ∈ Ico (s / 2 + 1) s, B (s - i) := by
      apply Finset.sum_congr rfl; intro i hi
      have : ¬ i ≤ s / 2 := by have := (Finset.mem_Ico.mp hi).1; omega
      simp [this]
    rw [h1, Finset.sum_Ico_reflect B (s / 2 + 1) (by omega : s ≤ s + 1)]
    congr 1
    have a1 : s + 1 - s = 1 := by omega
    have a2 : s + 1 - (s / 2 + 1) = s - s / 2 := by omega
    rw [a1, a2]

/-- telescoping: Σ_{k<p} 2/(1-4k²) = 1 + 1/(2p-1) -/
theorem sum_vbase (p : ℕ) (hp : 1 ≤ p) :
    ∑ k ∈ range p, (2 : ℝ) / (1 - 4 * ((k * k : ℕ) : ℝ)) = 1 + 1 / (2 * (p : ℝ) - 1) := by
  induction p, hp using Nat.le_induction with
  | base => norm_num
  | succ p hp ih =>
    rw [Finset.sum_range_succ, ih]
    have hp1 : (1 : ℝ) ≤ p := by exact_mod_cast hp
    have h1 : (2 * (p : ℝ) - 1) ≠ 0 := by linarith
    have h2 : (2 * ((p : ℝ) + 1) - 1) ≠ 0 := by linarith
    have h3 : (2 * (p : ℝ) + 1) ≠ 0 := by linarith
    have key : (2 : ℝ) / (1 - 4 * ((p : ℝ) * p)) = 1 / (2 * (p : ℝ) + 1) - 1 / (2 * (p : ℝ) - 1) := by
      have : (1 - 4 * ((p : ℝ) * p)) = -((2 * (p : ℝ) + 1) * (2 * (p : ℝ) - 1)) := by ring
      rw [this]; field_simp; ring
    push_cast
    rw [key]
    have h4 : 2 * ((p : ℝ) + 1) - 1 = 2 * (p : ℝ) + 1 := by ring
    rw [h4]; ring


theorem sum_Ico_one (f : ℕ → ℝ) (m : ℕ) (hm : 1 ≤ m) : ∑ k ∈ Ico 1 m, f k = ∑ k ∈ range m, f k - f 0 := by
  rw [Finset.sum_Ico_eq_sub f hm]; simp

/-- the `v` vector of Clenshaw–Curtis sums to zero -/
theorem ccV_sum (s : ℕ) (hs : 2 ≤ s) : ∑ i : Fin s, ccV (α := ℝ) s i = 0 := by
  obtain ⟨p, hp, hdiv, hcase⟩ : ∃ p, 1 ≤ p ∧ s / 2 = p ∧ (s = 2 * p ∨ s = 2 * p + 1) := ⟨s / 2, by omega, rfl, by omega⟩
  have hp1 : (1 : ℝ) ≤ p := by exact_mod_cast hp
  have hden : (2 * (p : ℝ) - 1) ≠ 0 := by linarith
  unfold ccV
  rw [sum_mirror s (by omega) (fun k => ccVBase (α := ℝ) s k), hdiv]
  have hlow : ∑ k ∈ range p, ccVBase (α := ℝ) s k = 1 + 1 / (2 * (p : ℝ) - 1) := by
    rw [← sum_vbase p hp]; apply Finset.sum_congr rfl; intro k hk
    have : k < s / 2 := by have := Finset.mem_range.mp hk; omega
    simp [ccVBase, this]
  have hB : ccVBase (α := ℝ) s p = ((s : ℝ) - 3) / (2 * (p : ℝ) - 1) - 1 := by
    have : ¬ p < s / 2 := by omega
    simp [ccVBase, hdiv]
  have h0 : ccVBase (α := ℝ) s 0 = 2 := by
    have : 0 < s / 2 := by omega
    simp [ccVBase, this]
  rcases hcase with h | h
  · have e2 : s - p = p := by omega
    have hsR : (s : ℝ) = 2 * p := by exact_mod_cast h
    rw [e2, Finset.sum_range_succ, sum_Ico_one _ p hp, hlow, hB, h0, hsR]
    field_simp; ring
  · have e2 : s - p = p + 1 := by omega
    have hsR : (s : ℝ) = 2 * p + 1 := by exact_mod_cast h
    rw [e2, sum_Ico_one _ (p + 1) (by omega), Finset.sum_range_succ, hlow, hB, h0, hsR]
    field_simp; ring

/-- the `g` vector sums to `s * wcc0` -/
theorem ccG_sum (s : ℕ) (hs : 2 ≤ s) : ∑ i : Fin s, ccG (α := ℝ) s i = (s : ℝ) * ccW0 s := by
  obtain ⟨p, hp, hdiv, hcase⟩ : ∃ p, 1 ≤ p ∧ s / 2 = p ∧ (s = 2 * p ∨ s = 2 * p + 1) := ⟨s / 2, by omega, rfl, by omega⟩
  unfold ccG
  rw [sum_mirror s (by omega) (fun k => ccGBase (α := ℝ) s k), hdiv]
  have hlow : ∑ k ∈ range p, ccGBase (α := ℝ) s k = -((p : ℝ) * ccW0 s) := by
    have : ∀ k ∈ range p, ccGBase (α := ℝ) s k = -(ccW0 s) := by
      intro k hk
      have : k < s / 2 := by have := Finset.mem_range.mp hk; omega
      simp [ccGBase, this]
    rw [Finset.sum_congr rfl this]; simp
  have hB : ccGBase (α := ℝ) s p = ccW0 s * (((2 - s % 2) * s - 1 : ℕ) : ℝ) := by
    have : ¬ p < s / 2 := by omega
    simp [ccGBase, this]
  have h0 : ccGBase (α := ℝ) s 0 = -(ccW0 s) := by
    have : 0 < s / 2 := by omega
    simp [ccGBase, this]
  rcases hcase with h | h
  · have e2 : s - p = p := by omega
    have hm : s % 2 = 0 := by omega
    have hnat : (2 - s % 2) * s - 1 = 4 * p - 1 := by rw [hm, h]; omega
    have hc : ((4 * p - 1 : ℕ) : ℝ) = 4 * (p : ℝ) - 1 := by
      rw [Nat.cast_sub (by omega)]; push_cast; ring
    have hsR : (s : ℝ) = 2 * p := by exact_mod_cast h
    rw [e2, Finset.sum_range_succ, sum_Ico_one _ p hp, hlow, hB, h0, hnat, hc, hsR]; ring
  · have e2 : s - p = p + 1 := by omega
    have hm : s % 2 = 1 := by omega
    have hnat : (2 - s % 2) * s - 1 = 2 * p := by rw [hm, h]; omega
    have hsR : (s : ℝ) = 2 * p + 1 := by exact_mod_cast h
    rw [e2, sum_Ico_one _ (p + 1) (by omega), Finset.sum_range_succ, hlow, hB, h0, hnat, hsR]; push_cast; ring


theorem ccH_sum (s : ℕ) (hs : 2 ≤ s) : ∑ i : Fin s, ccH (α := ℝ) s i = (s : ℝ) * ccW0 s := by
  unfold ccH; rw [Finset.sum_add_distrib, ccV_sum s hs, ccG_sum s hs]; ring

theorem ccH_zero (s : ℕ) (hs : 2 ≤ s) : ccH (α := ℝ) s ⟨0, by omega⟩ = 2 - ccW0 s := by
  have : 0 < s / 2 := by omega
  simp [ccH, ccV, ccG, ccVBase, ccGBase, this]; ring

theorem ccH_one : ccH (α := ℝ) 1 ⟨0, by omega⟩ = 1 := by
  simp [ccH, ccV, ccG, ccVBase, ccGBase]; norm_num

/-- the flip and the duplicated end point: Σ weights = (Σ_{j<s} wcc j + wcc 0) (b-a)/2 -/
theorem cc_wts_sum_general (n : ℕ) (hn : 1 ≤ n) (wcc : ℕ → ℝ) (a b : ℝ) :
    ∑ i : Fin n, ccWts n wcc a b i = (∑ j ∈ range (n - 1), wcc j + wcc 0) * ((b - a) / 2) := by
  obtain ⟨s, rfl⟩ : ∃ s, n = s + 1 := ⟨n - 1, by omega⟩
  simp only [ccWts, frac_real, Nat.add_sub_cancel]
  rw [← Finset.sum_mul]
  have hrefl : ∑ i : Fin (s + 1), (if s - i.val = s then wcc 0 else wcc (s - i.val))
      = ∑ j ∈ range (s + 1), (if j = s then wcc 0 else wcc j) := by
    rw [sum_fin_eq_range (fun i => if s - i = s then wcc 0 else wcc (s - i))]
    have := Finset.sum_range_reflect (fun j => if j = s then wcc 0 else wcc j) (s + 1)
    simpa using this
  rw [hrefl, Finset.sum_range_succ]
  have : ∑ j ∈ range s, (if j = s then wcc 0 else wcc j) = ∑ j ∈ range s, wcc j := by
    apply Finset.sum_congr rfl; intro j hj
    have : j ≠ s := by have := Finset.mem_range.mp hj; omega
    simp [this]
  rw [this]; simp only [if_true]; norm_num; left; ring

/-- **Clenshaw–Curtis weights sum to the length of the interval, for every point count `n ≥ 2`** — with the inverse FFT
    replaced by its definition (`ccIdft`), nothing about the rule is a parameter any more. -/
theorem cc_wts_sum (n : ℕ) (hn : 2 ≤ n) (a b : ℝ) :
    ∑ i : Fin n, ccWts n (ccIdft (n - 1) Real.pi (ccH (n - 1))) a b i = b - a := by
  rw [cc_wts_sum_general n (by omega)]
  have hs : 0 < n - 1 := by omega
  rw [idft_sum (n - 1) hs, idft_zero]
  by_cases h1 : n - 1 = 1
  · have e : ccH (α := ℝ) (n - 1) ⟨0, hs⟩ = 1 := by
      have : ∀ s (h : 0 < s), s = 1 → ccH (α := ℝ) s ⟨0, h⟩ = 1 := by
        intro s h e; subst e; exact ccH_one
      exact this _ hs h1
    have e2 : ∑ j : Fin (n - 1), ccH (α := ℝ) (n - 1) j = 1 := by
      have : ∀ s (h : 0 < s), s = 1 → ∑ j : Fin s, ccH (α := ℝ) s j = 1 := by
        intro s h e; subst e; simpa using ccH_one
      exact this _ hs h1
    rw [e, e2, h1]; push_cast; ring
  · have h2 : 2 ≤ n - 1 := by omega
    have hsR : ((n - 1 : ℕ) : ℝ) ≠ 0 := by positivity
    rw [ccH_zero (n - 1) h2, ccH_sum (n - 1) h2]
    field_simp; ring


/-- the angle of node `i`: `π (n-1-i)/(n-1)` lies in `[0, π]` and decreases with `i` -/
theorem cc_angle_mem (n : ℕ) (hn : 2 ≤ n) (i : Fin n) :
    Real.pi * ((n - 1 - i.val : ℕ) : ℝ) / ((n - 1 : ℕ) : ℝ) ∈ Set.Icc 0 Real.pi := by
  have hs : (0 : ℝ) < ((n - 1 : ℕ) : ℝ) := by exact_mod_cast (by omega : 0 < n - 1)
  have hle : ((n - 1 - i.val : ℕ) : ℝ) ≤ ((n - 1 : ℕ) : ℝ) := by exact_mod_cast Nat.sub_le _ _
  have h0 : (0 : ℝ) ≤ ((n - 1 - i.val : ℕ) : ℝ) := by positivity
  constructor
  · have := Real.pi_pos; positivity
  · rw [div_le_iff₀ hs]; exact mul_le_mul_of_nonneg_left hle Real.pi_pos.le

theorem cc_pts_strictMono (n : ℕ) (hn : 2 ≤ n) (a b : ℝ) (hab : a < b) :
    StrictMono (ccPts n Real.pi a b) := by
  intro i j hij
  have hs : (0 : ℝ) < ((n - 1 : ℕ) : ℝ) := by exact_mod_cast (by omega : 0 < n - 1)
  have hlt : ((n - 1 - j.val : ℕ) : ℝ) < ((n - 1 - i.val : ℕ) : ℝ) := by
    have : i.val < j.val := hij
    exact_mod_cast (by omega : n - 1 - j.val < n - 1 - i.val)
  have hang : Real.pi * ((n - 1 - j.val : ℕ) : ℝ) / ((n - 1 : ℕ) : ℝ)
      < Real.pi * ((n - 1 - i.val : ℕ) : ℝ) / ((n - 1 : ℕ) : ℝ) := by
    apply div_lt_div_of_pos_right _ hs
    exact mul_lt_mul_of_pos_left hlt Real.pi_pos
  have hcos := Real.strictAntiOn_cos (cc_angle_mem n hn j) (cc_angle_mem n hn i) hang
  simp only [ccPts, cos_real, frac_real]
  have : (0 : ℝ) < b - a := by linarith
  nlinarith

theorem cc_pts_mem (n : ℕ) (hn : 2 ≤ n) (a b : ℝ) (hab : a < b) (i : Fin n) :
    ccPts n Real.pi a b i ∈ Set.Icc a b := by
  simp only [ccPts, cos_real, frac_real]
  have h1 := Real.neg_one_le_cos (Real.pi * ((n - 1 - i.val : ℕ) : ℝ) / ((n - 1 : ℕ) : ℝ))
  have h2 := Real.cos_le_one (Real.pi * ((n - 1 - i.val : ℕ) : ℝ) / ((n - 1 : ℕ) : ℝ))
  have : (0 : ℝ) < b - a := by linarith
  constructor <;> nlinarith

theorem cc_pts_first (n : ℕ) (hn : 2 ≤ n) (a b : ℝ) : ccPts n Real.pi a b ⟨0, by omega⟩ = a := by
  have hs : ((n - 1 : ℕ) : ℝ) ≠ 0 := by
    have : (0 : ℝ) < ((n - 1 : ℕ) : ℝ) := by exact_mod_cast (by omega : 0 < n - 1)
    exact this.ne'
  simp only [ccPts, cos_real, frac_real, Nat.sub_zero]
  rw [mul_div_assoc, div_self hs, mul_one, Real.cos_pi]; ring

theorem cc_pts_last (n : ℕ) (_hn : 2 ≤ n) (a b : ℝ) : ccPts n Real.pi a b ⟨n - 1, by omega⟩ = b := by
  simp only [ccPts, cos_real, frac_real, Nat.sub_self]
  simp; ring

/-- the two end weights are `wcc0 (b-a)/2 = (b-a) / (2 (s² - 1 + s mod 2))`, positive (`n ≥ 3`) -/
theorem cc_end_wts (n : ℕ) (hn : 3 ≤ n) (a b : ℝ) :
    ccWts n (ccIdft (n - 1) Real.pi (ccH (n - 1))) a b ⟨0, by omega⟩ = ccW0 (n - 1) * ((b - a) / 2) := by
  have hsR : ((n - 1 : ℕ) : ℝ) ≠ 0 := by
    have : (0 : ℝ) < ((n - 1 : ℕ) : ℝ) := by exact_mod_cast (by omega : 0 < n - 1)
    exact this.ne'
  simp only [ccWts, frac_real, Nat.sub_zero, if_true]
  rw [idft_zero, ccH_sum (n - 1) (by omega)]
  field_simp
  push_cast; ring

theorem cc_end_wts_pos (n : ℕ) (hn : 3 ≤ n) (a b : ℝ) (hab : a < b) :
    0 < ccWts n (ccIdft (n - 1) Real.pi (ccH (n - 1))) a b ⟨0, by omega⟩ := by
  rw [cc_end_wts n hn]
  have h1 : (0 : ℝ) < (((n - 1) * (n - 1) - 1 + (n - 1) % 2 : ℕ) : ℝ) := by
    have : 0 < (n - 1) * (n - 1) - 1 + (n - 1) % 2 := by
      have : 2 * 2 ≤ (n - 1) * (n - 1) := Nat.mul_le_mul (by omega) (by omega)
      omega
    exact_mod_cast this
  have : (0 : ℝ) < ccW0 (α := ℝ) (n - 1) := by unfold ccW0; positivity
  have : (0 : ℝ) < b - a := by linarith
  positivity

/-- the inverse DFT of a real vector is even in the output index: `wcc[s-k] = wcc[k]` -/
theorem idft_reflect (s : ℕ) (h : Fin s → ℝ) (k : ℕ) (hk : k ≤ s) :
    ccIdft s Real.pi h (s - k) = ccIdft s Real.pi h k := by
  by_cases hs : s = 0
  · subst hs; simp [ccIdft_real]
  have hsR : (s : ℝ) ≠ 0 := by exact_mod_cast hs
  simp only [ccIdft_real]
  congr 1
  apply Finset.sum_congr rfl
  intro j _
  congr 1
  have : 2 * Real.pi * ((j.val * (s - k) : ℕ) : ℝ) / (s : ℝ)
      = (j.val : ℕ) * (2 * Real.pi) - 2 * Real.pi * ((j.val * k : ℕ) : ℝ) / (s : ℝ) := by
    rw [Nat.mul_sub, Nat.cast_sub (Nat.mul_le_mul_left _ hk)]
    push_cast
    field_simp
  rw [this, Real.cos_nat_mul_two_pi_sub]

/-- **the Clenshaw–Curtis weights are symmetric, for every `n ≥ 2`**: `w_i = w_{n-1-i}` -/
theorem cc_wts_symmetric (n : ℕ) (hn : 2 ≤ n) (a b : ℝ) (i : Fin n) :
    ccWts n (ccIdft (n - 1) Real.pi (ccH (n - 1))) a b i
      = ccWts n (ccIdft (n - 1) Real.pi (ccH (n - 1))) a b ⟨n - 1 - i.val, by omega⟩ := by
  have hi := i.isLt
  simp only [ccWts]
  congr 1
  have e : n - 1 - (n - 1 - i.val) = i.val := by omega
  rw [e]
  by_cases h0 : i.val = 0
  · have : n - 1 - i.val = n - 1 := by omega
    simp [h0]
  · by_cases hl : i.val = n - 1
    · have : n - 1 - i.val = 0 := by omega
      simp [hl]
    · have h1 : n - 1 - i.val ≠ n - 1 := by omega
      simp only [h1, hl, if_false]
      exact idft_reflect (n - 1) (ccH (α := ℝ) (n - 1)) i.val (by omega)


/-- non-vacuity: the three-point rule on [0,2] is Simpson's 1/3, 4/3, 1/3 at the ends, and sums to 2 -/
example : ∑ i : Fin 3, ccWts 3 (ccIdft 2 Real.pi (ccH 2)) (0 : ℝ) 2 i = 2 - 0 := cc_wts_sum 3 (by norm_num) 0 2


/-- non-vacuity: the 3-point Simpson rule on [0,2] -/
example : ∑ i, simpsonWts 3 (0 : ℝ) 2 i * gridPts 3 0 2 i ^ 3 = F 3 2 - F 3 0 :=
  simpson_moment 1 (le_refl 1) 0 2 3 (le_refl 3)

/-! ### Clenshaw–Curtis: all weights are positive, for every n -/

theorem ccW0_pos (s : ℕ) (hs : 2 ≤ s) : (0 : ℝ) < ccW0 (α := ℝ) s := by
  have h1 : (0 : ℝ) < ((s * s - 1 + s % 2 : ℕ) : ℝ) := by
    have : 0 < s * s - 1 + s % 2 := by
      have : 2 * 2 ≤ s * s := Nat.mul_le_mul hs hs
      omega
    exact_mod_cast this
  unfold ccW0; positivity

/-- the middle entry of `h = v + g` is negative -/
theorem ccH_mid_neg (s p : ℕ) (hp : 1 ≤ p) (hcase : s = 2 * p ∨ s = 2 * p + 1) :
    ((s : ℝ) - 3) / (2 * (p : ℝ) - 1) - 1 + ccW0 (α := ℝ) s * (((2 - s % 2) * s - 1 : ℕ) : ℝ) ≤ 0 := by
  have hp1 : (1 : ℝ) ≤ p := by exact_mod_cast hp
  have hden : (0 : ℝ) < 2 * (p : ℝ) - 1 := by linarith
  rcases hcase with h | h
  · have hm : s % 2 = 0 := by omega
    have hnat : (2 - s % 2) * s - 1 = 4 * p - 1 := by rw [hm, h]; omega
    have hc : ((4 * p - 1 : ℕ) : ℝ) = 4 * (p : ℝ) - 1 := by
      rw [Nat.cast_sub (by omega)]; push_cast; ring
    have hw : ccW0 (α := ℝ) s = 1 / (4 * (p : ℝ) ^ 2 - 1) := by
      unfold ccW0
      have : s * s - 1 + s % 2 = 4 * p * p - 1 := by rw [hm, h]; ring_nf
      rw [this, Nat.cast_sub (by nlinarith)]; push_cast; ring
    have hsR : (s : ℝ) = 2 * p := by exact_mod_cast h
    have hd2 : (0 : ℝ) < 4 * (p : ℝ) ^ 2 - 1 := by nlinarith
    rw [hnat, hc, hw, hsR]
    have e : (2 * (p : ℝ) - 3) / (2 * (p : ℝ) - 1) - 1 + 1 / (4 * (p : ℝ) ^ 2 - 1) * (4 * (p : ℝ) - 1)
        = -3 / (4 * (p : ℝ) ^ 2 - 1) := by
      have hf : (4 * (p : ℝ) ^ 2 - 1) = (2 * (p : ℝ) - 1) * (2 * (p : ℝ) + 1) := by ring
      rw [hf]
      have : (2 * (p : ℝ) + 1) ≠ 0 := by linarith
      field_simp
      ring
    rw [e]
    exact div_nonpos_of_nonpos_of_nonneg (by norm_num) hd2.le
  · have hm : s % 2 = 1 := by omega
    have hnat : (2 - s % 2) * s - 1 = 2 * p := by rw [hm, h]; omega
    have hw : ccW0 (α := ℝ) s = 1 / (2 * (p : ℝ) + 1) ^ 2 := by
      unfold ccW0
      have : s * s - 1 + s % 2 = (2 * p + 1) * (2 * p + 1) := by
        rw [hm, h]
        have : 1 ≤ (2 * p + 1) * (2 * p + 1) := Nat.one_le_iff_ne_zero.mpr (by positivity)
        omega
      rw [this]; push_cast; ring
    have hsR : (s : ℝ) = 2 * p + 1 := by exact_mod_cast h
    rw [hnat, hw, hsR]
    have e : (2 * (p : ℝ) + 1 - 3) / (2 * (p : ℝ) - 1) - 1 + 1 / (2 * (p : ℝ) + 1) ^ 2 * ((2 * p : ℕ) : ℝ)
        = -(6 * (p : ℝ) + 1) / ((2 * (p : ℝ) - 1) * (2 * (p : ℝ) + 1) ^ 2) := by
      have : (2 * (p : ℝ) + 1) ≠ 0 := by linarith
      push_cast
      field_simp
      ring
    rw [e]
    apply div_nonpos_of_nonpos_of_nonneg
    · linarith
    · positivity

/-- every entry of `h = v + g` other than the first is `≤ 0` -/
theorem ccH_nonpos (s : ℕ) (hs : 2 ≤ s) (i : Fin s) (hi : i.val ≠ 0) : ccH (α := ℝ) s i ≤ 0 := by
  obtain ⟨p, hp, hdiv, hcase⟩ : ∃ p, 1 ≤ p ∧ s / 2 = p ∧ (s = 2 * p ∨ s = 2 * p + 1) := ⟨s / 2, by omega, rfl, by omega⟩
  have hw := ccW0_pos s hs
  -- the value for a base index `k`
  have hbase : ∀ k : ℕ, 1 ≤ k → ccVBase (α := ℝ) s k + ccGBase (α := ℝ) s k ≤ 0 := by
    intro k hk
    by_cases hlt : k < s / 2
    · have hk1 : (1 : ℝ) ≤ k := by exact_mod_cast hk
      have hneg : 1 - 4 * ((k * k : ℕ) : ℝ) ≤ 0 := by push_cast; nlinarith
      have : (2 : ℝ) / (1 - 4 * ((k * k : ℕ) : ℝ)) ≤ 0 := div_nonpos_of_nonneg_of_nonpos (by norm_num) hneg
      simp only [ccVBase, ccGBase, hlt, if_true, lit_real]
      push_cast at this ⊢
      linarith
    · have hlt' : ¬ k < p := by rwa [hdiv] at hlt
      simp only [ccVBase, ccGBase, hdiv, hlt', if_false, lit_real]
      have := ccH_mid_neg s p hp hcase
      push_cast at this ⊢
      linarith
  unfold ccH ccV ccG
  by_cases hle : i.val ≤ s / 2
  · simp only [hle, if_true]
    exact hbase i.val (by omega)
  · simp only [hle, if_false]
    exact hbase (s - i.val) (by have := i.isLt; omega)

/-- **every entry of the inverse DFT is at least `wcc0`**: all `h_j` with `j ≠ 0` are `≤ 0`, so replacing every cosine by one
    can only lower the sum, and the sum of the `h_j` is `s·wcc0` -/
theorem ccIdft_ge_w0 (s : ℕ) (hs : 2 ≤ s) (k : ℕ) : ccW0 (α := ℝ) s ≤ ccIdft s Real.pi (ccH s) k := by
  have hsR : (0 : ℝ) < (s : ℝ) := by exact_mod_cast (by omega : 0 < s)
  rw [ccIdft_real, le_div_iff₀ hsR, mul_comm, ← ccH_sum s hs]
  apply Finset.sum_le_sum
  intro j _
  by_cases hj : j.val = 0
  · simp [hj]
  · exact le_mul_of_le_one_right (ccH_nonpos s hs j hj) (Real.cos_le_one _)

/-- **all Clenshaw–Curtis weights are positive, for every point count `n ≥ 3` and every interval**; no interior weight is smaller
    than the two end weights -/
theorem cc_wts_ge_end (n : ℕ) (hn : 3 ≤ n) (a b : ℝ) (hab : a < b) (i : Fin n) :
    ccW0 (α := ℝ) (n - 1) * ((b - a) / 2) ≤ ccWts n (ccIdft (n - 1) Real.pi (ccH (n - 1))) a b i := by
  have hba : (0 : ℝ) ≤ (b - a) / 2 := by linarith
  simp only [ccWts, frac_real]
  have e : ((1 : ℕ) : ℝ) / ((2 : ℕ) : ℝ) * (b - a) = (b - a) / 2 := by push_cast; ring
  rw [e]
  apply mul_le_mul_of_nonneg_right _ hba
  split
  · exact ccIdft_ge_w0 (n - 1) (by omega) 0
  · exact ccIdft_ge_w0 (n - 1) (by omega) _

theorem cc_wts_pos (n : ℕ) (hn : 3 ≤ n) (a b : ℝ) (hab : a < b) (i : Fin n) :
    0 < ccWts n (ccIdft (n - 1) Real.pi (ccH (n - 1))) a b i := by
  have h1 := ccW0_pos (n - 1) (by omega)
  have h2 : (0 : ℝ) < (b - a) / 2 := by linarith
  exact lt_of_lt_of_le (by positivity) (cc_wts_ge_end n hn a b hab i)

/-- the two-point rule (`n = 2`, the trapezoid): both weights are `(b-a)/2` -/
theorem cc_wts_two (a b : ℝ) (i : Fin 2) : ccWts 2 (ccIdft 1 Real.pi (ccH 1)) a b i = (b - a) / 2 := by
  have h0 : ccIdft 1 Real.pi (ccH (α := ℝ) 1) 0 = 1 := by
    rw [idft_zero]; simp
    exact ccH_one
  have : ∀ j : ℕ, (if j = 2 - 1 then ccIdft 1 Real.pi (ccH (α := ℝ) 1) 0 else ccIdft 1 Real.pi (ccH (α := ℝ) 1) j) = 1 := by
    intro j
    by_cases hj : j = 2 - 1
    · simp [hj, h0]
    · simp only [hj, if_false]
      rw [ccIdft_real]; simp
      exact ccH_one
  simp only [ccWts, frac_real, this]
  push_cast; ring

/-- … so the weights are positive for **every** `n ≥ 2` -/
theorem cc_wts_pos_all (n : ℕ) (hn : 2 ≤ n) (a b : ℝ) (hab : a < b) (i : Fin n) :
    0 < ccWts n (ccIdft (n - 1) Real.pi (ccH (n - 1))) a b i := by
  by_cases h2 : n = 2
  · subst h2
    rw [cc_wts_two]; linarith
  · exact cc_wts_pos n (by omega) a b hab i

/-! ### Clenshaw–Curtis: exact for linear functions, for every n -/

/-- the Clenshaw–Curtis nodes are symmetric about the midpoint: `x_i + x_{n-1-i} = a + b` -/
theorem cc_pts_reflect (n : ℕ) (hn : 2 ≤ n) (a b : ℝ) (i : Fin n) :
    ccPts n Real.pi a b i + ccPts n Real.pi a b ⟨n - 1 - i.val, by omega⟩ = a + b := by
  have hi := i.isLt
  have hs : ((n - 1 : ℕ) : ℝ) ≠ 0 := by
    have : (0 : ℝ) < ((n - 1 : ℕ) : ℝ) := by exact_mod_cast (by omega : 0 < n - 1)
    exact this.ne'
  simp only [ccPts, cos_real, frac_real]
  have e : n - 1 - (n - 1 - i.val) = i.val := by omega
  rw [e]
  have hang : Real.pi * ((n - 1 - i.val : ℕ) : ℝ) / ((n - 1 : ℕ) : ℝ) = Real.pi - Real.pi * ((i.val : ℕ) : ℝ) / ((n - 1 : ℕ) : ℝ) := by
    rw [Nat.cast_sub (by omega)]
    field_simp
  rw [hang, Real.cos_pi_sub]
  push_cast; ring

/-- **the Clenshaw–Curtis rule is exact for linear functions, for every `n ≥ 2`** (weights and nodes are both symmetric about the
    midpoint): `Σ w_i x_i = (b² - a²)/2` -/
theorem cc_exact_linear (n : ℕ) (hn : 2 ≤ n) (a b : ℝ) :
    ∑ i : Fin n, ccWts n (ccIdft (n - 1) Real.pi (ccH (n - 1))) a b i * ccPts n Real.pi a b i = (b ^ 2 - a ^ 2) / 2 := by
  set w := ccWts n (ccIdft (n - 1) Real.pi (ccH (n - 1))) a b with hw
  set x := ccPts n Real.pi a b with hx
  set S := ∑ i : Fin n, w i * x i with hS
  -- reindex by the reflection i ↦ n-1-i
  have hrev : S = ∑ i : Fin n, w i * (a + b - x i) := by
    have h1 : S = ∑ i : Fin n, w (Fin.rev i) * x (Fin.rev i) := by
      rw [hS]; exact (Equiv.sum_comp Fin.revPerm (fun i => w i * x i)).symm
    rw [h1]
    apply Finset.sum_congr rfl
    intro i _
    have hr : Fin.rev i = ⟨n - 1 - i.val, by have := i.isLt; omega⟩ := by
      apply Fin.ext; simp [Fin.rev]; omega
    rw [hr]
    have h2 : w ⟨n - 1 - i.val, by have := i.isLt; omega⟩ = w i := (cc_wts_symmetric n hn a b i).symm
    have h3 : x i + x ⟨n - 1 - i.val, by have := i.isLt; omega⟩ = a + b := cc_pts_reflect n hn a b i
    rw [h2]
    congr 1
    linarith
  have hsum : ∑ i : Fin n, w i = b - a := cc_wts_sum n hn a b
  have : S = (a + b) * (b - a) - S := by
    conv_lhs => rw [hrev]
    simp only [mul_sub, Finset.sum_sub_distrib, ← Finset.sum_mul, hsum]
    ring
  linarith


/-- reflection of the rule: for ANY integrand, `Σ w_i f(x_i) = Σ w_i f(a + b - x_i)` -/
theorem cc_rule_reflect (n : ℕ) (hn : 2 ≤ n) (a b : ℝ) (f : ℝ → ℝ) :
    ∑ i : Fin n, ccWts n (ccIdft (n - 1) Real.pi (ccH (n - 1))) a b i * f (ccPts n Real.pi a b i)
      = ∑ i : Fin n, ccWts n (ccIdft (n - 1) Real.pi (ccH (n - 1))) a b i * f (a + b - ccPts n Real.pi a b i) := by
  set w := ccWts n (ccIdft (n - 1) Real.pi (ccH (n - 1))) a b with hw
  set x := ccPts n Real.pi a b with hx
  have h1 : ∑ i : Fin n, w i * f (x i) = ∑ i : Fin n, w (Fin.rev i) * f (x (Fin.rev i)) :=
    (Equiv.sum_comp Fin.revPerm (fun i => w i * f (x i))).symm
  rw [h1]
  apply Finset.sum_congr rfl
  intro i _
  have hr : Fin.rev i = ⟨n - 1 - i.val, by have := i.isLt; omega⟩ := by
    apply Fin.ext; simp [Fin.rev]; omega
  rw [hr]
  have h2 : w ⟨n - 1 - i.val, by have := i.isLt; omega⟩ = w i := (cc_wts_symmetric n hn a b i).symm
  have h3 : x i + x ⟨n - 1 - i.val, by have := i.isLt; omega⟩ = a + b := cc_pts_reflect n hn a b i
  rw [h2]
  congr 2
  linarith

/-- **every integrand that is odd about the midpoint is integrated exactly (to zero), for every `n ≥ 2`** - in particular every odd
    power of `x - (a+b)/2`: the rule's degree of exactness is odd -/
theorem cc_exact_odd (n : ℕ) (hn : 2 ≤ n) (a b : ℝ) (f : ℝ → ℝ) (hodd : ∀ t, f (a + b - t) = -f t) :
    ∑ i : Fin n, ccWts n (ccIdft (n - 1) Real.pi (ccH (n - 1))) a b i * f (ccPts n Real.pi a b i) = 0 := by
  have h := cc_rule_reflect n hn a b f
  simp only [hodd, mul_neg, Finset.sum_neg_distrib] at h
  linarith

end Mud.C18

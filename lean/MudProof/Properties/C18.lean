/-
  C18 — quadrature rules integrate exactly to their degree on any interval.

  Subject: MudModel/Quadrature.lean (models of `mudslide.integration`) at `ℝ`, **for every point
  count `n`** and every interval `a < b`.

  midpoint / trapezoid / Simpson:
  * `*_wts_pos`, `*_pts_strictMono`, `*_pts_mem`         positive weights, increasing nodes in [a,b]
  * `midpoint_moment0/1`, `trapezoid_moment0/1`          Σw = b-a, Σ w x = (b²-a²)/2  (degree 1)
  * `simpson_panel`                                      the loop's 1,4,2,…,4,1 pattern is the sum of
                                                         three-point panels (odd n, every n)
  * `simpson_moment` (k = 0..3)                          Σ w x^k = (b^{k+1}-a^{k+1})/(k+1) (degree 3)
  Gauss–Legendre:
  * `affine_transport`      a rule exact to degree d on [-1,1] is exact to degree d on [a,b] after the
                            code's affine map (all polynomials, via `Polynomial.comp`)
  * `gl_wts_sum`, `gl_wts_pos`, `gl_pts_strictMono`, `gl_pts_mem`
  * `gl_pinned_sum`, `gl_pinned_wrong_on_default`   the originally pinned `weights *= 0.5` gives Σw = 1
                            whatever the interval (counterexample on the default [-1,1])
  Clenshaw–Curtis (partial, DESIGN §7 C18): `cc_wts_endpoints`, `cc_wts_scale`; exactness for all n is
  not proved (per-n test in the harness).
-/
import MudProof.RealInst
import MudModel.Quadrature
import Mathlib.Algebra.BigOperators.Fin
import Mathlib.Algebra.BigOperators.Intervals
import Mathlib.Algebra.Polynomial.Eval.Degree
import Mathlib.Analysis.SpecialFunctions.Integrals.Basic
import Mathlib.Tactic

namespace Mud.C18
open Mud Finset

/-! ### elementary sums -/

theorem sum_range_id (n : ℕ) : ∑ i ∈ range n, (i : ℝ) = (n : ℝ) * ((n : ℝ) - 1) / 2 := by
  induction n with
  | zero => simp
  | succ n ih => rw [sum_range_succ, ih]; push_cast; ring

theorem sum_fin_eq_range {n : ℕ} (g : ℕ → ℝ) : ∑ i : Fin n, g i.val = ∑ i ∈ range n, g i :=
  Fin.sum_univ_eq_sum_range g n

/-! ### midpoint -/

section midpoint
variable (n : ℕ) (a b : ℝ)

theorem midpoint_wts_pos (hn : 0 < n) (hab : a < b) (i : Fin n) : 0 < midpointWts n a b i := by
  simp only [midpointWts, one_mul]
  have : (0 : ℝ) < n := by exact_mod_cast hn
  apply div_pos <;> linarith

theorem midpoint_moment0 (hn : 0 < n) : ∑ i, midpointWts n a b i = b - a := by
  have : (n : ℝ) ≠ 0 := by exact_mod_cast hn.ne'
  simp [midpointWts]
  field_simp

theorem midpoint_moment1 (hn : 0 < n) :
    ∑ i, midpointWts n a b i * midpointPts n a b i = (b ^ 2 - a ^ 2) / 2 := by
  have hn' : (n : ℝ) ≠ 0 := by exact_mod_cast hn.ne'
  simp only [midpointWts, midpointPts, frac_real, one_mul]
  rw [sum_fin_eq_range (fun i => (b - a) / (n : ℝ) * (a + (b - a) / (n : ℝ) * ((i : ℝ) + (1 : ℕ) / (2 : ℕ))))]
  simp only [mul_add, sum_add_distrib, ← mul_sum, sum_const, card_range, nsmul_eq_mul, sum_range_id]
  push_cast
  field_simp
  ring

theorem midpoint_pts_strictMono (hn : 0 < n) (hab : a < b) : StrictMono (midpointPts n a b) := by
  intro i j hij
  simp only [midpointPts, frac_real]
  have hpos : 0 < (b - a) / (n : ℝ) := div_pos (by linarith) (by exact_mod_cast hn)
  have : (i.val : ℝ) < (j.val : ℝ) := by exact_mod_cast hij
  nlinarith

theorem midpoint_pts_mem (hn : 0 < n) (hab : a < b) (i : Fin n) :
    a < midpointPts n a b i ∧ midpointPts n a b i < b := by
  simp only [midpointPts, frac_real]
  have hn' : (0 : ℝ) < n := by exact_mod_cast hn
  have hi : (i.val : ℝ) + 1 ≤ n := by exact_mod_cast i.isLt
  have hi0 : (0 : ℝ) ≤ i.val := by positivity
  have hpos : 0 < (b - a) / (n : ℝ) := div_pos (by linarith) hn'
  constructor
  · have : 0 < (b - a) / (n : ℝ) * ((i.val : ℝ) + (1 : ℕ) / (2 : ℕ)) := by
      apply mul_pos hpos; push_cast; linarith
    linarith
  · have h1 : (b - a) / (n : ℝ) * ((i.val : ℝ) + (1 : ℕ) / (2 : ℕ)) < (b - a) / (n : ℝ) * n := by
      apply mul_lt_mul_of_pos_left _ hpos; push_cast; linarith
    have h2 : (b - a) / (n : ℝ) * n = b - a := by field_simp
    linarith

end midpoint

/-! ### the uniform grid shared by trapezoid and Simpson -/

section grid
variable (n : ℕ) (a b : ℝ)

theorem grid_pts_strictMono (hn : 2 ≤ n) (hab : a < b) : StrictMono (gridPts n a b) := by
  intro i j hij
  simp only [gridPts]
  have hn' : (0 : ℝ) < ((n - 1 : ℕ) : ℝ) := by exact_mod_cast (by omega : 0 < n - 1)
  have hpos : 0 < (b - a) / ((n - 1 : ℕ) : ℝ) := div_pos (by linarith) hn'
  have : (i.val : ℝ) < (j.val : ℝ) := by exact_mod_cast hij
  nlinarith

theorem grid_pts_mem (hn : 2 ≤ n) (hab : a < b) (i : Fin n) :
    a ≤ gridPts n a b i ∧ gridPts n a b i ≤ b := by
  simp only [gridPts]
  have hn' : (0 : ℝ) < ((n - 1 : ℕ) : ℝ) := by exact_mod_cast (by omega : 0 < n - 1)
  have hpos : 0 < (b - a) / ((n - 1 : ℕ) : ℝ) := div_pos (by linarith) hn'
  have hi : (i.val : ℝ) ≤ ((n - 1 : ℕ) : ℝ) := by exact_mod_cast (by omega : i.val ≤ n - 1)
  have hi0 : (0 : ℝ) ≤ i.val := by positivity
  constructor
  · have := mul_nonneg hpos.le hi0; linarith
  · have h1 := mul_le_mul_of_nonneg_left hi hpos.le
    have h2 : (b - a) / ((n - 1 : ℕ) : ℝ) * ((n - 1 : ℕ) : ℝ) = b - a := by field_simp
    linarith

theorem grid_first (hn : 2 ≤ n) : gridPts n a b ⟨0, by omega⟩ = a := by simp [gridPts]

theorem grid_last (hn : 2 ≤ n) : gridPts n a b ⟨n - 1, by omega⟩ = b := by
  simp only [gridPts]
  have hn' : ((n - 1 : ℕ) : ℝ) ≠ 0 := by exact_mod_cast (by omega : n - 1 ≠ 0)
  field_simp; ring

end grid

/-! ### trapezoid -/

section trapezoid
variable (n : ℕ) (a b : ℝ)

/-- sums against the "ends are special" pattern -/
theorem sum_ends (hn : 2 ≤ n) (c d : ℝ) (g : ℕ → ℝ) :
    ∑ i ∈ range n, (if i = 0 ∨ i = n - 1 then c else d) * g i
      = d * ∑ i ∈ range n, g i + (c - d) * (g 0 + g (n - 1)) := by
  have h : ∀ i ∈ range n, (if i = 0 ∨ i = n - 1 then c else d) * g i
      = d * g i + (c - d) * ((if i = 0 then g i else 0) + (if i = n - 1 then g i else 0)) := by
    intro i _
    by_cases h0 : i = 0
    · subst h0
      have : (0 : ℕ) ≠ n - 1 := by omega
      simp [this]; ring
    · by_cases h1 : i = n - 1
      · have h10 : n - 1 ≠ 0 := by omega
        subst h1
        simp [h10]; ring
      · simp [h0, h1]
  rw [sum_congr rfl h, sum_add_distrib, ← mul_sum, ← mul_sum, sum_add_distrib,
    sum_ite_eq' (range n) 0 g, sum_ite_eq' (range n) (n - 1) g]
  simp [mem_range, (by omega : 0 < n), (by omega : n - 1 < n)]

theorem trapezoid_wts_pos (hn : 2 ≤ n) (hab : a < b) (i : Fin n) : 0 < trapezoidWts n a b i := by
  simp only [trapezoidWts, frac_real, one_mul]
  have hn' : (0 : ℝ) < ((n - 1 : ℕ) : ℝ) := by exact_mod_cast (by omega : 0 < n - 1)
  have hpos : 0 < (b - a) / ((n - 1 : ℕ) : ℝ) := div_pos (by linarith) hn'
  split_ifs
  · push_cast; linarith
  · exact hpos

theorem trapezoid_wts_eq (i : Fin n) :
    trapezoidWts n a b i
      = (if i.val = 0 ∨ i.val = n - 1 then (b - a) / ((n - 1 : ℕ) : ℝ) / 2
          else (b - a) / ((n - 1 : ℕ) : ℝ)) := by
  simp only [trapezoidWts, frac_real, one_mul]
  split_ifs <;> push_cast <;> ring

theorem trapezoid_moment0 (hn : 2 ≤ n) : ∑ i, trapezoidWts n a b i = b - a := by
  have hn' : ((n - 1 : ℕ) : ℝ) ≠ 0 := by exact_mod_cast (by omega : n - 1 ≠ 0)
  simp_rw [trapezoid_wts_eq]
  have := sum_ends n hn ((b - a) / ((n - 1 : ℕ) : ℝ) / 2) ((b - a) / ((n - 1 : ℕ) : ℝ)) (fun _ => 1)
  simp only [mul_one] at this
  rw [sum_fin_eq_range (fun i => if i = 0 ∨ i = n - 1 then (b - a) / ((n - 1 : ℕ) : ℝ) / 2
    else (b - a) / ((n - 1 : ℕ) : ℝ)), this]
  simp only [sum_const, card_range, nsmul_eq_mul, mul_one]
  have : (n : ℝ) = ((n - 1 : ℕ) : ℝ) + 1 := by
    have : n = (n - 1) + 1 := by omega
    exact_mod_cast this
  rw [this]; field_simp; ring

theorem trapezoid_moment1 (hn : 2 ≤ n) :
    ∑ i, trapezoidWts n a b i * gridPts n a b i = (b ^ 2 - a ^ 2) / 2 := by
  have hn' : ((n - 1 : ℕ) : ℝ) ≠ 0 := by exact_mod_cast (by omega : n - 1 ≠ 0)
  simp_rw [trapezoid_wts_eq]
  simp only [gridPts]
  have := sum_ends n hn ((b - a) / ((n - 1 : ℕ) : ℝ) / 2) ((b - a) / ((n - 1 : ℕ) : ℝ))
    (fun i => a + (b - a) / ((n - 1 : ℕ) : ℝ) * (i : ℝ))
  rw [sum_fin_eq_range (fun i => (if i = 0 ∨ i = n - 1 then (b - a) / ((n - 1 : ℕ) : ℝ) / 2
    else (b - a) / ((n - 1 : ℕ) : ℝ)) * (a + (b - a) / ((n - 1 : ℕ) : ℝ) * (i : ℝ))), this]
  simp only [sum_add_distrib, ← mul_sum, sum_const, card_range, nsmul_eq_mul, sum_range_id]
  have hnn : (n : ℝ) = ((n - 1 : ℕ) : ℝ) + 1 := by
    have : n = (n - 1) + 1 := by omega
    exact_mod_cast this
  rw [hnn]; push_cast; field_simp; ring

end trapezoid

/-! ### Simpson -/

section simpson

/-- the weight pattern written by the loop is the sum of `m` three-point panels (`n = 2m+1`) -/
theorem simpson_panel (m : ℕ) (hm : 1 ≤ m) (g : ℕ → ℝ) :
    ∑ i ∈ range (2 * m + 1), (simpsonPattern (2 * m + 1) i : ℝ) * g i
      = ∑ j ∈ range m, (g (2 * j) + 4 * g (2 * j + 1) + g (2 * j + 2)) := by
  induction m, hm using Nat.le_induction with
  | base =>
    simp [sum_range_succ, simpsonPattern]
  | succ m hm ih =>
    rw [sum_range_succ (fun j => g (2 * j) + 4 * g (2 * j + 1) + g (2 * j + 2)), ← ih]
    have hL : ∑ i ∈ range (2 * (m + 1) + 1), (simpsonPattern (2 * (m + 1) + 1) i : ℝ) * g i
        = ∑ i ∈ range (2 * m), (simpsonPattern (2 * (m + 1) + 1) i : ℝ) * g i
          + (simpsonPattern (2 * (m + 1) + 1) (2 * m) : ℝ) * g (2 * m)
          + (simpsonPattern (2 * (m + 1) + 1) (2 * m + 1) : ℝ) * g (2 * m + 1)
          + (simpsonPattern (2 * (m + 1) + 1) (2 * m + 2) : ℝ) * g (2 * m + 2) := by
      rw [show 2 * (m + 1) + 1 = 2 * m + 1 + 1 + 1 by ring, sum_range_succ, sum_range_succ,
        sum_range_succ]
    have hR : ∑ i ∈ range (2 * m + 1), (simpsonPattern (2 * m + 1) i : ℝ) * g i
        = ∑ i ∈ range (2 * m), (simpsonPattern (2 * m + 1) i : ℝ) * g i
          + (simpsonPattern (2 * m + 1) (2 * m) : ℝ) * g (2 * m) := sum_range_succ _ _
    have hcongr : ∀ i ∈ range (2 * m), (simpsonPattern (2 * (m + 1) + 1) i : ℝ) * g i
        = (simpsonPattern (2 * m + 1) i : ℝ) * g i := by
      intro i hi
      have : i < 2 * m := mem_range.mp hi
      simp only [simpsonPattern]
      have h1 : i ≠ 2 * (m + 1) + 1 - 1 := by omega
      have h2 : i ≠ 2 * m + 1 - 1 := by omega
      simp only [h1, h2, or_false]
    have e1 : simpsonPattern (2 * (m + 1) + 1) (2 * m) = 2 := by
      simp only [simpsonPattern]
      have h0 : 2 * m ≠ 0 := by omega
      have h2 : 2 * m ≠ 2 * (m + 1) + 1 - 1 := by omega
      have h3 : ¬ (2 * m) % 2 = 1 := by omega
      simp only [h0, h2, h3, or_self, if_false]
    have e2 : simpsonPattern (2 * (m + 1) + 1) (2 * m + 1) = 4 := by
      simp only [simpsonPattern]
      have h0 : 2 * m + 1 ≠ 0 := by omega
      have h2 : 2 * m + 1 ≠ 2 * (m + 1) + 1 - 1 := by omega
      have h3 : (2 * m + 1) % 2 = 1 := by omega
      simp only [h0, h2, h3, or_self, if_false, if_true]
    have e3 : simpsonPattern (2 * (m + 1) + 1) (2 * m + 2) = 1 := by
      simp only [simpsonPattern]
      have h2 : 2 * m + 2 = 2 * (m + 1) + 1 - 1 := by omega
      simp only [h2, or_true, if_true]
    have e4 : simpsonPattern (2 * m + 1) (2 * m) = 1 := by
      simp only [simpsonPattern]
      have h2 : 2 * m = 2 * m + 1 - 1 := by omega
      simp only [← h2, or_true, if_true]
    rw [hL, hR, sum_congr rfl hcongr, e1, e2, e3, e4]
    push_cast
    ring

theorem simpson_wts_pos (n : ℕ) (a b : ℝ) (hn : 2 ≤ n) (hab : a < b) (i : Fin n) :
    0 < simpsonWts n a b i := by
  simp only [simpsonWts, lit_real]
  have hn' : (0 : ℝ) < ((n - 1 : ℕ) : ℝ) := by exact_mod_cast (by omega : 0 < n - 1)
  apply mul_pos
  · have : 0 < simpsonPattern n i.val := by
      simp only [simpsonPattern]; split_ifs <;> norm_num
    exact_mod_cast this
  · apply div_pos (div_pos (by linarith) hn'); norm_num

/-- antiderivative of `x^k` -/
noncomputable def F (k : ℕ) (x : ℝ) : ℝ := x ^ (k + 1) / ((k : ℝ) + 1)

/-- one panel integrates `x^k`, `k ≤ 3`, exactly -/
theorem panel_exact (k : ℕ) (hk : k ≤ 3) (x h : ℝ) :
    h / 3 * (x ^ k + 4 * (x + h) ^ k + (x + 2 * h) ^ k) = F k (x + 2 * h) - F k x := by
  unfold F
  interval_cases k <;> · push_cast; ring

/-- **Simpson integrates polynomials of degree ≤ 3 exactly**, for every odd point count
    `n = 2m+1 ≥ 3` and every interval: `Σ w_i x_i^k = (b^{k+1} - a^{k+1})/(k+1)`, `k = 0..3`. -/
theorem simpson_moment (m : ℕ) (hm : 1 ≤ m) (a b : ℝ) (k : ℕ) (hk : k ≤ 3) :
    ∑ i, simpsonWts (2 * m + 1) a b i * gridPts (2 * m + 1) a b i ^ k = F k b - F k a := by
  have hm' : ((2 * m : ℕ) : ℝ) ≠ 0 := by exact_mod_cast (by omega : 2 * m ≠ 0)
  obtain ⟨h, hh⟩ : ∃ h : ℝ, h = (b - a) / ((2 * m : ℕ) : ℝ) := ⟨_, rfl⟩
  have e : ∀ i : Fin (2 * m + 1), simpsonWts (2 * m + 1) a b i * gridPts (2 * m + 1) a b i ^ k
      = (simpsonPattern (2 * m + 1) i.val : ℝ) * (h / 3 * (a + h * (i.val : ℝ)) ^ k) := by
    intro i
    simp only [simpsonWts, gridPts, lit_real, Nat.add_sub_cancel]
    rw [← hh]
    push_cast
    ring
  simp_rw [e]
  rw [sum_fin_eq_range (fun i => (simpsonPattern (2 * m + 1) i : ℝ) * (h / 3 * (a + h * (i : ℝ)) ^ k)),
    simpson_panel m hm]
  have hp : ∀ j ∈ range m, (h / 3 * (a + h * ((2 * j : ℕ) : ℝ)) ^ k
      + 4 * (h / 3 * (a + h * ((2 * j + 1 : ℕ) : ℝ)) ^ k)
      + h / 3 * (a + h * ((2 * j + 2 : ℕ) : ℝ)) ^ k)
      = F k (a + h * ((2 * (j + 1) : ℕ) : ℝ)) - F k (a + h * ((2 * j : ℕ) : ℝ)) := by
    intro j _
    have := panel_exact k hk (a + h * ((2 * j : ℕ) : ℝ)) h
    rw [show a + h * ((2 * (j + 1) : ℕ) : ℝ) = a + h * ((2 * j : ℕ) : ℝ) + 2 * h by push_cast; ring,
      ← this]
    push_cast
    ring
  rw [sum_congr rfl hp, sum_range_sub (fun j => F k (a + h * ((2 * j : ℕ) : ℝ)))]
  have eb : a + h * ((2 * m : ℕ) : ℝ) = b := by rw [hh]; field_simp; ring
  have ea : a + h * ((2 * 0 : ℕ) : ℝ) = a := by simp
  rw [eb, ea]

end simpson

/-! ### Gauss–Legendre: the affine map -/

section gl
open Polynomial
variable {n : ℕ}

/-- **Affine transport.** If `(t, w)` integrates every polynomial of degree ≤ d exactly on `[-1,1]`
    then the nodes and weights produced by the code's affine map integrate every polynomial of
    degree ≤ d exactly on `[a,b]`. -/
theorem affine_transport (t w : Fin n → ℝ) (d : ℕ)
    (hex : ∀ p : ℝ[X], p.natDegree ≤ d → ∑ i, w i * p.eval (t i) = ∫ x in (-1 : ℝ)..1, p.eval x)
    (a b : ℝ) (hab : a < b) (q : ℝ[X]) (hq : q.natDegree ≤ d) :
    ∑ i, glWts w a b i * q.eval (glPts t a b i) = ∫ x in a..b, q.eval x := by
  set α := (b - a) / 2 with hα
  set β := (a + b) / 2 with hβ
  have hα0 : α ≠ 0 := by rw [hα]; linarith
  let r : ℝ[X] := C α * X + C β
  have hdeg : (q.comp r).natDegree ≤ d := by
    calc (q.comp r).natDegree ≤ q.natDegree * r.natDegree := natDegree_comp_le
      _ ≤ q.natDegree * 1 := by
          apply Nat.mul_le_mul_left
          exact natDegree_linear_le
      _ ≤ d := by simpa using hq
  have h1 := hex (q.comp r) hdeg
  have hpt : ∀ i, glPts t a b i = α * t i + β := by
    intro i; simp only [glPts, frac_real, hα, hβ]; push_cast; ring
  have hwt : ∀ i, glWts w a b i = w i * α := by
    intro i; simp only [glWts, frac_real, hα]; push_cast; ring
  simp_rw [hpt, hwt]
  have : ∀ i, w i * α * q.eval (α * t i + β) = α * (w i * (q.comp r).eval (t i)) := by
    intro i; simp [r, eval_comp]; ring
  simp_rw [this, ← mul_sum, h1]
  simp only [eval_comp, r, eval_add, eval_mul, eval_C, eval_X]
  have := intervalIntegral.integral_comp_mul_add (fun x => q.eval x) hα0 β (a := -1) (b := 1)
  rw [this, smul_eq_mul, ← mul_assoc, mul_inv_cancel₀ hα0, one_mul]
  congr 1 <;> simp only [hα, hβ] <;> ring

theorem gl_wts_sum (w : Fin n → ℝ) (a b : ℝ) (hw : ∑ i, w i = 2) :
    ∑ i, glWts w a b i = b - a := by
  simp only [glWts, frac_real, ← sum_mul, hw]; push_cast; ring

theorem gl_wts_pos (w : Fin n → ℝ) (a b : ℝ) (hab : a < b) (i : Fin n) (hw : 0 < w i) :
    0 < glWts w a b i := by
  simp only [glWts, frac_real]; push_cast
  apply mul_pos hw; linarith

theorem gl_pts_strictMono (t : Fin n → ℝ) (a b : ℝ) (hab : a < b) (ht : StrictMono t) :
    StrictMono (glPts t a b) := by
  intro i j hij
  have := ht hij
  simp only [glPts, frac_real]; push_cast
  nlinarith

theorem gl_pts_mem (t : Fin n → ℝ) (a b : ℝ) (hab : a < b) (i : Fin n) (h1 : -1 < t i) (h2 : t i < 1) :
    a < glPts t a b i ∧ glPts t a b i < b := by
  simp only [glPts, frac_real]; push_cast
  constructor <;> nlinarith

/-- the originally pinned code (`weights *= 0.5`): the weights sum to 1 whatever the interval -/
theorem gl_pinned_sum (w : Fin n → ℝ) (hw : ∑ i, w i = 2) : ∑ i, glWtsPinned w i = 1 := by
  simp only [glWtsPinned, frac_real, ← sum_mul, hw]; push_cast; ring

/-- **counterexample for the pinned tree**: on the default interval `[-1,1]` the weights do not
    sum to the interval length -/
theorem gl_pinned_wrong_on_default (w : Fin n → ℝ) (hw : ∑ i, w i = 2) :
    ∑ i, glWtsPinned w i ≠ (1 : ℝ) - (-1) := by
  rw [gl_pinned_sum w hw]; norm_num

end gl

/-! ### Clenshaw–Curtis: post-processing (partial) -/

theorem cc_wts_endpoints (n : ℕ) (hn : 2 ≤ n) (wcc : ℕ → ℝ) (a b : ℝ) :
    ccWts n wcc a b ⟨0, by omega⟩ = ccWts n wcc a b ⟨n - 1, by omega⟩ := by
  simp only [ccWts]
  have : n - 1 - (n - 1) = 0 := by omega
  simp [this]

theorem cc_wts_scale (n : ℕ) (wcc : ℕ → ℝ) (a b : ℝ) (i : Fin n) :
    ccWts n wcc a b i = ccWts n wcc (-1) 1 i * ((b - a) / 2) := by
  simp only [ccWts, frac_real]; push_cast; ring

/-- non-vacuity: the 3-point Simpson rule on [0,2] -/
example : ∑ i, simpsonWts 3 (0 : ℝ) 2 i * gridPts 3 0 2 i ^ 3 = F 3 2 - F 3 0 :=
  simpson_moment 1 (le_refl 1) 0 2 3 (le_refl 3)

end Mud.C18

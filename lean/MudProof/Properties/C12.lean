/-
  C12 — runs are reproducible from seeds; batch members use independent random streams; clones.

  The model is a set of functions, so "same inputs, same run" is definitional; what needs proof is the
  hidden state:

  * `thresholds_in_order`    the k-th threshold used is the k-th element of (user list ++ generator stream):
                             user thresholds are consumed in the order given before any generator number
  * `clone_shares_only`      after the (repaired) `__deepcopy__` a location is shared between clone and original
                             iff it belongs to an attribute named in `shallow_only` (the work queue)
  * `clone_fields_same`      the clone has the same attributes in the same order
  * `clone_evolves_equally`  equal states evolve equally under any step function, for any number of steps
  * `pinned_clone_raises`    the originally pinned test (`v not in shallow_only` on the VALUE) fails as soon as an
                             attribute holds a numpy array — i.e. for every trajectory  (fixed in /repo)
  * seed bookkeeping (`spawn_keys_distinct`, `spawn_prefix_stable`, `spawn_fresh_after`) is proved in C19 and
    re-exported here; that distinct spawn keys give statistically independent streams is numpy's contract.
-/
import MudModel.Clone
import MudProof.Properties.C19
import Mathlib.Tactic

namespace Mud.C12
open Mud Mud.Clone

/-- **T1.** thresholds are consumed in order: first the user list, then the generator stream -/
theorem thresholds_in_order {β : Type} : ∀ (k : ℕ) (zl stream : List β), k ≤ zl.length + stream.length →
    drawMany k zl stream = (zl ++ stream).take k := by
  intro k
  induction k with
  | zero => intro zl stream _; simp [drawMany]
  | succ k ih =>
    intro zl stream hk
    cases zl with
    | cons z zs =>
      simp only [drawMany, drawZeta, List.cons_append, List.take_succ_cons]
      rw [ih zs stream (by simp at hk; omega)]
    | nil =>
      cases stream with
      | nil => simp at hk
      | cons r rs =>
        simp only [drawMany, drawZeta, List.nil_append, List.take_succ_cons]
        rw [ih [] rs (by simp at hk ⊢; omega)]
        simp

theorem clone_fields_same (o : Obj) (sh : List String) (fresh : Loc → Loc) :
    (cloneObj o sh fresh).fields.map (·.1) = o.fields.map (·.1) := by
  simp only [cloneObj, List.map_map]
  apply List.map_congr_left
  intro kl _
  simp only [Function.comp]
  split <;> rfl

/-- **T3.** with copies allocated at fresh locations (not used by the original), a location of the clone is
    also a location of the original **only** through an attribute listed in `shallow_only` -/
theorem clone_shares_only (o : Obj) (sh : List String) (fresh : Loc → Loc)
    (hfresh : ∀ l ∈ locs o, fresh l ∉ locs o) (k : String) (l : Loc)
    (hc : (k, l) ∈ (cloneObj o sh fresh).fields) (hl : l ∈ locs o) : sh.contains k = true := by
  simp only [cloneObj, List.mem_map] at hc
  obtain ⟨kl, hkl, heq⟩ := hc
  by_cases hs : sh.contains kl.1 = true
  · rw [if_pos hs] at heq
    have hk : kl.1 = k := by rw [heq]
    rw [← hk]; exact hs
  · rw [if_neg hs] at heq
    have hk : kl.1 = k := by injection heq
    have hl' : fresh kl.2 = l := by injection heq
    exfalso
    have : kl.2 ∈ locs o := List.mem_map.mpr ⟨kl, hkl, rfl⟩
    exact hfresh kl.2 this (hl' ▸ hl)

/-- the queue itself IS shared (deliberately) -/
theorem clone_shares_queue (o : Obj) (sh : List String) (fresh : Loc → Loc) (k : String) (l : Loc)
    (hk : (k, l) ∈ o.fields) (hs : sh.contains k = true) : (k, l) ∈ (cloneObj o sh fresh).fields := by
  simp only [cloneObj, List.mem_map]
  exact ⟨(k, l), hk, by rw [if_pos hs]⟩

/-- **T4.** a clone that starts in the same state evolves exactly as the original, for any number of steps -/
theorem clone_evolves_equally {σ : Type} (step : σ → σ) (s c : σ) (h : c = s) (n : ℕ) :
    step^[n] c = step^[n] s := by rw [h]

/-- **the originally pinned `__deepcopy__` raises for every trajectory**: its attributes include numpy arrays
    (`position`, `velocity`, `rho`, `mass`) and `v not in ["queue"]` on an array raises `ValueError` -/
theorem pinned_clone_raises (vals : List Val) (h : Val.array ∈ vals) : pinnedClone vals ["queue"] = none := by
  unfold pinnedClone
  induction vals with
  | nil => simp at h
  | cons v vs ih =>
    rw [List.mapM_cons]
    rcases List.mem_cons.mp h with h1 | h1
    · subst h1; simp [pinnedTest]
    · rw [ih h1]
      cases pinnedTest v ["queue"] <;> simp

/-- non-vacuity: the repaired clone of an object with a queue and two arrays shares exactly the queue -/
example : (cloneObj ⟨[("position", 0), ("queue", 1), ("rho", 2)]⟩ ["queue"] (· + 10)).fields
    = [("position", 10), ("queue", 1), ("rho", 12)] := by decide

-- seed bookkeeping re-exported from C19
alias spawn_keys_distinct := Mud.C19.spawn_keys_distinct
alias spawn_prefix_stable := Mud.C19.spawn_prefix_stable
alias spawn_fresh_after := Mud.C19.spawn_fresh_after

end Mud.C12

/-
  C09 — cumulative FSSH hops exactly when the accumulated probability crosses its threshold.

  Subject: `Mud.cumAccumulate`, `Mud.cumHopper`, `Mud.cumFirst`, `Mud.choiceIdx`, `Mud.drawZeta`
  (MudModel/Hopping.lean; models of `TrajectoryCum.hopper` and `draw_new_zeta`) at `ℝ`.

  * `acc_closed_form`, `acc_fold_closed_form`   after rates G_1..G_k : 1 - (1-a)·exp(-ΣG_i)
  * `cumHopper_attempt_iff`                     the hopper attempts iff ζ < that value
  * `attempt_at_first_crossing`                 first attempt = first index with 1 - exp(-ΣG) > ζ
  * `cumHopper_reset`                           on attempt: accumulation 0, fresh threshold
  * `drawZeta_list_first`, `drawZeta_then_stream`   user thresholds first, in order (also C12)
  * `choice_slot`                               target by inverse CDF of g/G: slot of length g_j/G
  * `poisson_equivalence`                       ζ-measure of "first attempt at step k"
                                                = Π_{i<k}(1-p_i)·p_k, p_i = 1 - exp(-G_i)
  * `zero_rate_no_attempt`
-/
import MudProof.RealInst
import MudProof.Properties.C03
import MudModel.Hopping
import Mathlib.Analysis.Complex.ExponentialBounds
import Mathlib.Tactic

namespace Mud.C09
open Mud C03

theorem acc_closed_form (a G : ℝ) : cumAccumulate a G = 1 - (1 - a) * Real.exp (-G) := by
  simp [cumAccumulate]; ring

/-- accumulation after a whole list of rates without an attempt -/
noncomputable def accFold (a : ℝ) (Gs : List ℝ) : ℝ := Gs.foldl cumAccumulate a

theorem acc_fold_closed_form (a : ℝ) (Gs : List ℝ) :
    accFold a Gs = 1 - (1 - a) * Real.exp (-Gs.sum) := by
  unfold accFold
  induction Gs generalizing a with
  | nil => simp
  | cons G Gs ih =>
    rw [List.foldl_cons, ih, acc_closed_form, List.sum_cons]
    rw [show -(G + Gs.sum) = -G + -Gs.sum by ring, Real.exp_add]
    ring

/-- starting from zero: `1 - Π exp(-G_i)` -/
theorem acc_from_zero (Gs : List ℝ) : accFold 0 Gs = 1 - Real.exp (-Gs.sum) := by
  rw [acc_fold_closed_form]; ring

theorem exp_neg_sum_eq_prod (Gs : List ℝ) :
    Real.exp (-Gs.sum) = (Gs.map (fun G => Real.exp (-G))).prod := by
  induction Gs with
  | nil => simp
  | cons G Gs ih =>
    rw [List.sum_cons, List.map_cons, List.prod_cons, ← ih,
      show -(G + Gs.sum) = -G + -Gs.sum by ring, Real.exp_add]

/-- one call: an attempt happens iff the threshold is below the new accumulated value -/
theorem cumHopper_attempt_iff (s : CumState ℝ) (g : List ℝ) (u nz : ℝ) :
    (cumHopper s g u nz).2.isSome = true ↔ s.zeta < 1 - (1 - s.probCum) * Real.exp (-g.sum) := by
  unfold cumHopper
  dsimp only
  rw [acc_closed_form]
  split <;> simp_all

/-- no attempt: the accumulation is carried, the threshold kept -/
theorem cumHopper_carry (s : CumState ℝ) (g : List ℝ) (u nz : ℝ)
    (h : ¬ s.zeta < cumAccumulate s.probCum g.sum) :
    (cumHopper s g u nz).1 = { probCum := cumAccumulate s.probCum g.sum, zeta := s.zeta } ∧
    (cumHopper s g u nz).2 = none := by
  unfold cumHopper
  dsimp only
  rw [if_neg h]
  exact ⟨rfl, rfl⟩

/-- **T3.** on an attempt the accumulation is reset to zero and the fresh threshold installed;
    the attempt reports the threshold that triggered it and the accumulated probability -/
theorem cumHopper_reset (s : CumState ℝ) (g : List ℝ) (u nz : ℝ)
    (h : s.zeta < cumAccumulate s.probCum g.sum) :
    (cumHopper s g u nz).1 = { probCum := 0, zeta := nz } ∧
    ∃ t, (cumHopper s g u nz).2 = some (t, s.zeta, cumAccumulate s.probCum g.sum) := by
  unfold cumHopper
  dsimp only
  rw [if_pos h]
  exact ⟨rfl, _, rfl⟩

/-- **T2.** the first attempt happens at the first step `k` at which
    `1 - (1-a)·exp(-(G_0+…+G_k))` exceeds `ζ` — never earlier, never later -/
theorem cumFirst_spec (ζ : ℝ) : ∀ (Gs : List ℝ) (a : ℝ) (i : ℕ),
    match cumFirst ζ a Gs i with
    | some j => ∃ k, k < Gs.length ∧ j = i + k ∧ ζ < 1 - (1 - a) * Real.exp (-pre Gs (k + 1)) ∧
        ∀ k' < k, 1 - (1 - a) * Real.exp (-pre Gs (k' + 1)) ≤ ζ
    | none => ∀ k < Gs.length, 1 - (1 - a) * Real.exp (-pre Gs (k + 1)) ≤ ζ := by
  intro Gs
  induction Gs with
  | nil => intro a i; simp [cumFirst]
  | cons G Gs ih =>
    intro a i
    unfold cumFirst
    dsimp only
    have hstep : ∀ m, 1 - (1 - cumAccumulate a G) * Real.exp (-pre Gs m)
        = 1 - (1 - a) * Real.exp (-pre (G :: Gs) (m + 1)) := by
      intro m
      rw [pre_succ_cons, acc_closed_form, show -(G + pre Gs m) = -G + -pre Gs m by ring,
        Real.exp_add]
      ring
    have h0 : cumAccumulate a G = 1 - (1 - a) * Real.exp (-pre (G :: Gs) (0 + 1)) := by
      rw [acc_closed_form]; simp [pre]
    by_cases h : ζ < cumAccumulate a G
    · rw [if_pos h]
      exact ⟨0, by simp, by simp, by rw [← h0]; exact h, by simp⟩
    · rw [if_neg h]
      have := ih (cumAccumulate a G) (i + 1)
      revert this
      cases cumFirst ζ (cumAccumulate a G) Gs (i + 1) with
      | none =>
        intro hn k hk
        cases k with
        | zero => rw [← h0]; exact not_lt.mp h
        | succ k => rw [← hstep]; exact hn k (by simpa using hk)
      | some j =>
        rintro ⟨k, hk, hj, hz, hall⟩
        refine ⟨k + 1, by simpa using hk, by omega, by rw [← hstep]; exact hz, ?_⟩
        intro k' hk'
        cases k' with
        | zero => rw [← h0]; exact not_lt.mp h
        | succ k' => rw [← hstep]; exact hall k' (by omega)

/-- **T2 (from a fresh threshold).** starting at accumulation 0 the attempt happens at the first
    `k` with `1 - Π_{i≤k} exp(-G_i) > ζ` -/
theorem attempt_at_first_crossing (ζ : ℝ) (Gs : List ℝ) (k : ℕ) (hk : cumFirst ζ 0 Gs 0 = some k) :
    k < Gs.length ∧ ζ < 1 - Real.exp (-pre Gs (k + 1)) ∧
      ∀ k' < k, 1 - Real.exp (-pre Gs (k' + 1)) ≤ ζ := by
  have spec := cumFirst_spec ζ Gs 0 0
  rw [hk] at spec
  obtain ⟨k', hk', hj, hz, hall⟩ := spec
  have : k = k' := by omega
  subst this
  refine ⟨hk', by simpa using hz, ?_⟩
  intro j hj'
  simpa using hall j hj'

/-- **T6.** a zero total rate never triggers an attempt (`g/G` is never evaluated at `G = 0`) -/
theorem zero_rate_no_attempt (s : CumState ℝ) (g : List ℝ) (u nz : ℝ) (hG : g.sum = 0)
    (hz : s.probCum ≤ s.zeta) : (cumHopper s g u nz).2 = none := by
  apply (cumHopper_carry s g u nz _).2
  rw [hG, acc_closed_form]
  simp
  linarith

/-- **T5.** the set of thresholds for which the first attempt happens at step `k` is the interval
    `[A_{k-1}, A_k)`, `A_k = 1 - Π_{i≤k} exp(-G_i)`; its length is `Π_{i<k}(1-p_i)·p_k` with
    `p_i = 1 - exp(-G_i)`: the hop-time law of standard FSSH with Poisson probabilities. -/
theorem poisson_equivalence (Gs : List ℝ) (k : ℕ) (hk : k < Gs.length) :
    (1 - Real.exp (-pre Gs (k + 1))) - (1 - Real.exp (-pre Gs k))
      = ((Gs.take k).map (fun G => 1 - (1 - Real.exp (-G)))).prod * (1 - Real.exp (-Gs[k])) := by
  rw [pre_succ Gs k hk]
  have : ((Gs.take k).map (fun G => 1 - (1 - Real.exp (-G)))).prod = Real.exp (-pre Gs k) := by
    unfold pre
    rw [exp_neg_sum_eq_prod]
    congr 1
    apply List.map_congr_left
    intro G _; ring
  rw [this, show -(pre Gs k + Gs[k]) = -pre Gs k + -Gs[k] by ring, Real.exp_add]
  ring

/-! ### thresholds -/

/-- user-supplied thresholds are consumed first, in the order given -/
theorem drawZeta_list_first {β : Type} (z : β) (zs stream : List β) :
    drawZeta (z :: zs) stream = some (z, zs, stream) := rfl

/-- only when the list is exhausted is a generator number used -/
theorem drawZeta_then_stream {β : Type} (r : β) (rs : List β) :
    drawZeta ([] : List β) (r :: rs) = some (r, [], rs) := rfl

/-! ### the target draw -/

theorem cumsumGo_eq (p : List ℝ) (acc : ℝ) :
    cumsumGo p acc = (List.range p.length).map (fun m => acc + pre p (m + 1)) := by
  induction p generalizing acc with
  | nil => simp [cumsumGo]
  | cons x xs ih =>
    rw [cumsumGo, ih, List.length_cons, List.range_succ_eq_map, List.map_cons, List.map_map]
    congr 1
    · simp [pre]
    · apply List.map_congr_left
      intro m _
      simp only [Function.comp, pre_succ_cons]
      ring

theorem firstLess_spec (u : ℝ) : ∀ (cs : List ℝ) (i : ℕ),
    match firstLess u cs i with
    | some j => ∃ k, ∃ hk : k < cs.length, j = i + k ∧ u < cs[k] ∧ ∀ k' (hk' : k' < k), cs[k'] ≤ u
    | none => ∀ k (hk : k < cs.length), cs[k] ≤ u := by
  intro cs
  induction cs with
  | nil => intro i; simp [firstLess]
  | cons c cs ih =>
    intro i
    unfold firstLess
    by_cases h : u < c
    · rw [if_pos h]
      exact ⟨0, by simp, by simp, by simpa using h, by simp⟩
    · rw [if_neg h]
      have := ih (i + 1)
      revert this
      cases firstLess u cs (i + 1) with
      | none =>
        intro hn k hk
        cases k with
        | zero => simpa using not_lt.mp h
        | succ k => simpa using hn k (by simpa using hk)
      | some j =>
        rintro ⟨k, hk, hj, hu, hall⟩
        refine ⟨k + 1, by simpa using hk, by omega, by simpa using hu, ?_⟩
        intro k' hk'
        cases k' with
        | zero => simpa using not_lt.mp h
        | succ k' => simpa using hall k' (by omega)

/-- **T4.** the target is drawn by inverse CDF: `choice` returns `j` exactly when the uniform number
    lies in `j`'s slot `[cdf(j-1), cdf(j))`, `cdf(j) = (p_0+…+p_j)/Σp`; the slot has length `p_j/Σp`. -/
theorem choice_slot (u : ℝ) (p : List ℝ) (j : ℕ) (h : choiceIdx u p = some j) :
    ∃ hj : j < p.length, u < pre p (j + 1) / pre p p.length ∧
      (∀ k < j, pre p (k + 1) / pre p p.length ≤ u) ∧
      pre p (j + 1) / pre p p.length - pre p j / pre p p.length = p[j] / pre p p.length := by
  unfold choiceIdx cumsum at h
  rw [cumsumGo_eq] at h
  simp only [zero_add] at h
  rcases Nat.eq_zero_or_pos p.length with h0 | hlen
  · have : p = [] := List.length_eq_zero_iff.mp h0
    subst this; simp at h
  · have hne : (List.range p.length).map (fun m => pre p (m + 1)) ≠ [] := by
      intro hc
      rw [List.map_eq_nil_iff, List.range_eq_nil] at hc
      omega
    have hlast : ((List.range p.length).map (fun m => pre p (m + 1))).getLast?
        = some (pre p p.length) := by
      rw [List.getLast?_eq_some_getLast hne]
      simp only [List.getLast_map, Option.some.injEq]
      rw [List.getLast_range]
      rw [Nat.sub_add_cancel hlen]
    rw [hlast] at h
    replace h : firstLess u (((List.range p.length).map (fun m => pre p (m + 1))).map
        (· / pre p p.length)) 0 = some j := h
    have spec := firstLess_spec u
      (((List.range p.length).map (fun m => pre p (m + 1))).map (· / pre p p.length)) 0
    rw [h] at spec
    obtain ⟨k, hk, hj, hu, hall⟩ := spec
    have hkj : j = k := by omega
    subst hkj
    have hk' : j < p.length := by simpa using hk
    refine ⟨hk', by simpa using hu, ?_, ?_⟩
    · intro k hkj
      have := hall k hkj
      simpa using this
    · rw [pre_succ p j hk']; ring

/-- non-vacuity: a concrete first crossing at step 1 -/
example : cumFirst (1 / 2 : ℝ) 0 [0, 1] 0 = some 1 := by
  have h1 : cumAccumulate (0 : ℝ) 0 = 0 := by simp [cumAccumulate]
  have h2 : (1 / 2 : ℝ) < cumAccumulate 0 1 := by
    rw [acc_closed_form]
    have := Real.exp_one_gt_d9
    have : Real.exp (-1) < 1 / 2 := by
      rw [Real.exp_neg, inv_lt_comm₀ (Real.exp_pos 1) (by norm_num)]
      linarith
    linarith
  unfold cumFirst
  dsimp only
  rw [h1, if_neg (by norm_num)]
  unfold cumFirst
  dsimp only
  rw [if_pos h2]

end Mud.C09

/-
  C01 — trajectories conserve total energy; accepted hops conserve it exactly.

  Subject: `Mud.hopToIt`, `Mud.rescale`, `Mud.smallRoot`, `Mud.kinetic` (MudModel/Hop.lean) and
  `Mud.verletStep` (MudModel/Verlet.lean) at `ℝ`, for every dimension `n`, every mass vector
  with positive entries, every non-zero rescale direction, every state count `N`.

  * `smallRoot_is_root`        the chosen scale factor solves `a s² + b s + c = 0`
  * `rescale_energy`           KE' = KE + reduction           (any root)
  * `hop_energy_exact`         accepted ⇒ KE' + E_target = KE + E_source   **exactly**
  * `hop_rejected_noop`        rejected ⇒ state and velocity unchanged
  * `harmonic_shadow_step/run` Verlet on a harmonic surface conserves a shadow energy exactly, for
                               any number of steps; `harmonic_energy_drift` bounds the true-energy
                               drift by (ω²dt²/2)·E₀ uniformly in the number of steps (O(dt²), no
                               secular drift)
  Partial (DESIGN §7 C01): the O(dt²) drift bound for a general smooth potential is not derived in
  Lean; `C01_trajectory_energy_partial` = harmonic theorem + exact time symmetry (C07).
-/
import MudProof.RealInst
import MudModel.Verlet
import Mathlib.Algebra.BigOperators.Fin
import Mathlib.Tactic

namespace Mud.C01
open Mud Finset

variable {n : ℕ}

/-! ### the quadratic -/

theorem smallRoot_is_root (a b c : ℝ) (ha : a ≠ 0) (hd : 0 ≤ b * b - 4 * a * c) :
    a * smallRoot a b c ^ 2 + b * smallRoot a b c + c = 0 := by
  unfold smallRoot
  by_cases hc : c < 0 ∨ 0 < c
  · rw [if_pos hc]
    simp only [lit_real, sqrt_real]
    push_cast
    set r := Real.sqrt (b * b - 4 * a * c) with hr
    have hr2 : r * r = b * b - 4 * a * c := Real.mul_self_sqrt hd
    have hr0 : 0 ≤ r := Real.sqrt_nonneg _
    have hc0 : c ≠ 0 := by rcases hc with h | h <;> [exact ne_of_lt h; exact ne_of_gt h]
    have root : ∀ q : ℝ, q ≠ 0 → q * q + b * q + a * c = 0 → a * (c / q) ^ 2 + b * (c / q) + c = 0 := by
      intro q hq key
      have : a * (c / q) ^ 2 + b * (c / q) + c = c * (q * q + b * q + a * c) / q ^ 2 := by
        field_simp
        ring
      rw [this, key]; simp
    by_cases hb : b < 0
    · simp only [hb, if_true]
      have hq : -(b - r) / 2 ≠ 0 := by
        intro h
        have : r = b := by linarith
        rw [this] at hr2
        have : a * c = 0 := by linarith
        rcases mul_eq_zero.mp this with h | h <;> contradiction
      apply root _ hq
      nlinarith [hr2]
    · simp only [hb, if_false]
      have hq : -(b + r) / 2 ≠ 0 := by
        intro h
        have hb0 : 0 ≤ b := not_lt.mp hb
        have : r = -b := by linarith
        have hb' : b = 0 := by linarith
        have : r = 0 := by linarith
        rw [this, hb'] at hr2
        have : a * c = 0 := by linarith
        rcases mul_eq_zero.mp this with h | h <;> contradiction
      apply root _ hq
      nlinarith [hr2]
  · rw [if_neg hc]
    have : c = 0 := by
      have h1 := not_lt.mp (fun h => hc (Or.inl h)); have h2 := not_lt.mp (fun h => hc (Or.inr h)); linarith
    simp [this]

/-! ### the momentum jump -/

theorem kinetic_eq (m v : Fin n → ℝ) : kinetic m v = 1 / 2 * ∑ i, m i * v i * v i := by
  simp [kinetic, vsum_eq_sum]

theorem quadA_eq (m u : Fin n → ℝ) : quadA m u = ∑ i, 1 / m i * u i * u i := by
  simp [quadA, vsum_eq_sum]

theorem quadB_eq (v u : Fin n → ℝ) : quadB v u = 2 * ∑ i, v i * u i := by
  simp [quadB, dotV, vsum_eq_sum]

/-- adding `s·u/m` to the velocity changes the kinetic energy by `(a s² + b s)/2` -/
theorem kinetic_shift (m v u : Fin n → ℝ) (hm : ∀ i, m i ≠ 0) (s : ℝ) :
    kinetic m (fun i => v i + s * (1 / m i) * u i)
      = kinetic m v + (quadA m u * s ^ 2 + quadB v u * s) / 2 := by
  rw [kinetic_eq, kinetic_eq, quadA_eq, quadB_eq]
  have : ∀ i, m i * (v i + s * (1 / m i) * u i) * (v i + s * (1 / m i) * u i)
      = m i * v i * v i + (1 / m i * u i * u i) * s ^ 2 + 2 * (v i * u i) * s := by
    intro i; have := hm i; field_simp; ring
  simp_rw [this, Finset.sum_add_distrib, ← Finset.sum_mul, ← Finset.mul_sum]
  ring

/-- **`rescale_component` changes the kinetic energy by exactly `reduction`** whenever the
    quadratic has a real root (`b² ≥ 4ac`) and `a ≠ 0`. -/
theorem rescale_energy (m v d : Fin n → ℝ) (hm : ∀ i, m i ≠ 0) (red : ℝ)
    (ha : quadA m (unitVec d) ≠ 0)
    (hd : 0 ≤ quadB v (unitVec d) * quadB v (unitVec d) - 4 * quadA m (unitVec d) * (-(2 * red))) :
    kinetic m (rescale m v d red) = kinetic m v + red := by
  unfold rescale
  simp only [lit_real]
  push_cast
  rw [kinetic_shift m v (unitVec d) hm]
  have := smallRoot_is_root (quadA m (unitVec d)) (quadB v (unitVec d)) (-(2 * red)) ha hd
  linarith

/-- `a = Σ u_i²/m_i > 0` for positive masses and a non-zero direction -/
theorem quadA_pos (m d : Fin n → ℝ) (hm : ∀ i, 0 < m i) (hd : ∃ i, d i ≠ 0) :
    0 < quadA m (unitVec d) := by
  rw [quadA_eq]
  obtain ⟨j, hj⟩ := hd
  have hns : 0 < normSqV d := by
    simp only [normSqV, vsum_eq_sum]
    apply Finset.sum_pos'
    · intro i _; exact mul_self_nonneg _
    · exact ⟨j, Finset.mem_univ _, mul_self_pos.mpr hj⟩
  have hnrm : 0 < Real.sqrt (normSqV d) := Real.sqrt_pos.mpr hns
  apply Finset.sum_pos'
  · intro i _
    have := hm i
    have h1 : 0 ≤ 1 / m i := by positivity
    have := mul_self_nonneg (unitVec d i)
    nlinarith [mul_nonneg h1 this]
  · refine ⟨j, Finset.mem_univ _, ?_⟩
    have h1 : 0 < 1 / m j := by have := hm j; positivity
    have hu : unitVec d j ≠ 0 := by
      simp only [unitVec, sqrt_real]
      exact div_ne_zero hj (ne_of_gt hnrm)
    have := mul_self_pos.mpr hu
    nlinarith [mul_pos h1 this]

/-- acceptance implies that the quadratic has real roots -/
theorem allowed_disc (m v d : Fin n → ℝ) (hm : ∀ i, 0 < m i) (hd : ∃ i, d i ≠ 0) (dE : ℝ)
    (h : hopAllowed m v d dE = true) :
    0 ≤ quadB v (unitVec d) * quadB v (unitVec d) - 4 * quadA m (unitVec d) * (-(2 * dE)) := by
  have ha := quadA_pos m d hm hd
  unfold hopAllowed at h
  by_cases h0 : 0 < dE
  · have : 0 ≤ quadB v (unitVec d) * quadB v (unitVec d) := mul_self_nonneg _
    nlinarith [mul_pos ha h0]
  · rw [if_neg h0] at h
    have h' := of_decide_eq_true h
    simp only [lit_real] at h'
    push_cast at h'
    linarith

/-- **T1 (C01).** Every accepted hop changes the kinetic energy by exactly minus the jump in
    active-state potential energy: `KE' + E_target = KE + E_source`, for any number of states,
    any number of dimensions and unequal masses. -/
theorem hop_energy_exact {N : ℕ} (m v d : Fin n → ℝ) (hm : ∀ i, 0 < m i) (hd : ∃ i, d i ≠ 0)
    (E : Fin N → ℝ) (s t : Fin N) (hacc : (hopToIt m v d E s t).accepted = true) :
    kinetic m (hopToIt m v d E s t).velocity + E t = kinetic m v + E s := by
  unfold hopToIt at hacc ⊢
  dsimp only at hacc ⊢
  by_cases h : hopAllowed m v d (-(E t - E s)) = true
  · rw [if_pos h]
    have hdisc := allowed_disc m v d hm hd _ h
    have ha := ne_of_gt (quadA_pos m d hm hd)
    show kinetic m (rescale m v d (-(E t - E s))) + E t = kinetic m v + E s
    rw [rescale_energy m v d (fun i => ne_of_gt (hm i)) _ ha hdisc]
    ring
  · rw [if_neg h] at hacc
    exact absurd hacc (by simp)

/-- an accepted hop moves the active state to the target -/
theorem hop_accepted_state {N : ℕ} (m v d : Fin n → ℝ) (E : Fin N → ℝ) (s t : Fin N)
    (hacc : (hopToIt m v d E s t).accepted = true) : (hopToIt m v d E s t).state = t.val := by
  unfold hopToIt at hacc ⊢
  dsimp only at hacc ⊢
  by_cases h : hopAllowed m v d (-(E t - E s)) = true
  · rw [if_pos h]
  · rw [if_neg h] at hacc
    exact absurd hacc (by simp)

/-- **T2 (C01/C04).** A rejected (frustrated) hop leaves state and velocity untouched. -/
theorem hop_rejected_noop {N : ℕ} (m v d : Fin n → ℝ) (E : Fin N → ℝ) (s t : Fin N)
    (hrej : (hopToIt m v d E s t).accepted = false) :
    (hopToIt m v d E s t).velocity = v ∧ (hopToIt m v d E s t).state = s.val := by
  unfold hopToIt at hrej ⊢
  dsimp only at hrej ⊢
  by_cases h : hopAllowed m v d (-(E t - E s)) = true
  · rw [if_pos h] at hrej
    exact absurd hrej (by simp)
  · rw [if_neg h]
    exact ⟨rfl, rfl⟩

/-- non-vacuity: a two-dimensional, unequal-mass, downward hop is accepted -/
example : (hopToIt (n := 2) (N := 2) (![1, 3] : Fin 2 → ℝ) ![1, 1] ![1, 2] (![1, 0] : Fin 2 → ℝ)
    0 1).accepted = true := by
  simp [hopToIt, hopAllowed]

/-! ### Verlet on a harmonic surface: exact shadow energy, uniform O(dt²) drift -/

/-- harmonic force, mode by mode: `F_i = -k_i x_i` -/
def harmonicF (k : Fin n → ℝ) (x : Fin n → ℝ) : Fin n → ℝ := fun i => -(k i * x i)

/-- potential energy `½ Σ k_i x_i²` -/
noncomputable def harmonicV (k x : Fin n → ℝ) : ℝ := 1 / 2 * ∑ i, k i * x i * x i

/-- shadow energy conserved exactly by the Verlet step -/
noncomputable def shadow (k m : Fin n → ℝ) (dt : ℝ) (xv : (Fin n → ℝ) × (Fin n → ℝ)) : ℝ :=
  kinetic m xv.2 + harmonicV k xv.1 - dt ^ 2 / 8 * ∑ i, (k i * xv.1 i) ^ 2 / m i

theorem harmonic_shadow_step (k m : Fin n → ℝ) (hm : ∀ i, m i ≠ 0) (dt : ℝ)
    (xv : (Fin n → ℝ) × (Fin n → ℝ)) :
    shadow k m dt (verletStep (harmonicF k) m dt xv) = shadow k m dt xv := by
  obtain ⟨x, v⟩ := xv
  simp only [shadow, kinetic_eq, harmonicV, verletStep, advancePosition, advanceVelocity, accel,
    harmonicF, frac_real]
  push_cast
  simp only [Finset.mul_sum, ← Finset.sum_add_distrib, ← Finset.sum_sub_distrib]
  apply Finset.sum_congr rfl
  intro i _
  have := hm i
  field_simp
  ring

/-- the shadow energy is conserved over **any number of steps** -/
theorem harmonic_shadow_run (k m : Fin n → ℝ) (hm : ∀ i, m i ≠ 0) (dt : ℝ) (steps : ℕ)
    (xv : (Fin n → ℝ) × (Fin n → ℝ)) :
    shadow k m dt (verletRun (harmonicF k) m dt steps xv) = shadow k m dt xv := by
  induction steps generalizing xv with
  | zero => rfl
  | succ j ih => rw [verletRun, ih, harmonic_shadow_step k m hm]

/-- true total energy on the harmonic surface -/
noncomputable def energy (k m : Fin n → ℝ) (xv : (Fin n → ℝ) × (Fin n → ℝ)) : ℝ :=
  kinetic m xv.2 + harmonicV k xv.1

/-- **O(dt²), no secular drift**: if `k_i dt² ≤ 2 m_i` for every mode (`ω_i dt ≤ √2`), the
    true energy after **any** number of Verlet steps differs from the initial energy by at most
    `c·E₀/(1-c)·… ≤ 2 c E₀` with `c = max_i ω_i² dt²/4`, stated mode-free as:
    `|E_k - E_0| ≤ (dt²/4)·Ω·2·E_0` for any `Ω ≥ k_i/m_i`, `Ω dt² ≤ 2`. -/
theorem harmonic_energy_drift (k m : Fin n → ℝ) (hm : ∀ i, 0 < m i) (hk : ∀ i, 0 ≤ k i)
    (dt Ω : ℝ) (hΩ : ∀ i, k i / m i ≤ Ω) (hΩ0 : 0 ≤ Ω) (hdt : Ω * dt ^ 2 ≤ 2) (steps : ℕ)
    (xv : (Fin n → ℝ) × (Fin n → ℝ)) :
    |energy k m (verletRun (harmonicF k) m dt steps xv) - energy k m xv|
      ≤ Ω * dt ^ 2 / 2 * energy k m xv := by
  have hm' : ∀ i, m i ≠ 0 := fun i => ne_of_gt (hm i)
  have hcons := harmonic_shadow_run k m hm' dt steps xv
  set yw := verletRun (harmonicF k) m dt steps xv with hyw
  -- Q(x) = Σ (k x)²/m  satisfies 0 ≤ Q ≤ 2 Ω V(x)
  have hQ : ∀ x : Fin n → ℝ, 0 ≤ ∑ i, (k i * x i) ^ 2 / m i ∧
      ∑ i, (k i * x i) ^ 2 / m i ≤ 2 * Ω * harmonicV k x := by
    intro x
    constructor
    · apply Finset.sum_nonneg; intro i _
      have := hm i; positivity
    · unfold harmonicV
      rw [Finset.mul_sum, Finset.mul_sum]
      apply Finset.sum_le_sum
      intro i _
      have h1 := hΩ i
      have h2 := hm i
      have h3 := hk i
      have h4 : 0 ≤ k i * x i * x i := by nlinarith [mul_self_nonneg (x i)]
      have : (k i * x i) ^ 2 / m i = k i / m i * (k i * x i * x i) := by field_simp
      rw [this]
      nlinarith [mul_le_mul_of_nonneg_right h1 h4]
  have hV : ∀ x : Fin n → ℝ, 0 ≤ harmonicV k x := by
    intro x; unfold harmonicV
    have : 0 ≤ ∑ i, k i * x i * x i := by
      apply Finset.sum_nonneg; intro i _; nlinarith [hk i, mul_self_nonneg (x i)]
    linarith
  have hK : ∀ w : Fin n → ℝ, 0 ≤ kinetic m w := by
    intro w; rw [kinetic_eq]
    have : 0 ≤ ∑ i, m i * w i * w i := by
      apply Finset.sum_nonneg; intro i _; nlinarith [hm i, mul_self_nonneg (w i)]
    linarith
  unfold shadow at hcons
  unfold energy
  obtain ⟨q0lo, q0hi⟩ := hQ xv.1
  obtain ⟨q1lo, q1hi⟩ := hQ yw.1
  have v0 := hV xv.1
  have v1 := hV yw.1
  have k0 := hK xv.2
  have k1 := hK yw.2
  have hd2 : 0 ≤ dt ^ 2 := by positivity
  -- c := Ω dt²/4 ≤ 1/2 ;  E1 - E0 = dt²/8 (Q1 - Q0)
  have e : kinetic m yw.2 + harmonicV k yw.1 - (kinetic m xv.2 + harmonicV k xv.1)
      = dt ^ 2 / 8 * (∑ i, (k i * yw.1 i) ^ 2 / m i) - dt ^ 2 / 8 * (∑ i, (k i * xv.1 i) ^ 2 / m i) := by
    linarith
  rw [e, abs_le]
  -- V1 (1 - c) ≤ shadow = E0 - dt²/8 Q0 ≤ E0
  have hV1 : harmonicV k yw.1 * (1 - Ω * dt ^ 2 / 4) ≤ kinetic m xv.2 + harmonicV k xv.1 := by
    nlinarith [mul_nonneg hd2 q0lo, mul_le_mul_of_nonneg_left q1hi hd2]
  have hhalf : (1 : ℝ) / 2 ≤ 1 - Ω * dt ^ 2 / 4 := by linarith
  have hV1' : harmonicV k yw.1 ≤ 2 * (kinetic m xv.2 + harmonicV k xv.1) := by
    nlinarith
  constructor
  · nlinarith [mul_nonneg hd2 q1lo, mul_le_mul_of_nonneg_left q0hi hd2, mul_nonneg hΩ0 hd2]
  · nlinarith [mul_nonneg hd2 q0lo, mul_le_mul_of_nonneg_left q1hi hd2, mul_nonneg hΩ0 hd2,
      mul_le_mul_of_nonneg_left hV1' (mul_nonneg hΩ0 hd2)]

end Mud.C01

/-
  C17 — batch outcome statistics are normalised weighted frequencies of the final states.

  Subject: MudModel/Batch.lean at `ℝ`, for any number of traces, any weights ≥ 0 with Σw > 0.

  * `indicator_01`, `indicator_total`   per trace: entries are 0/1 and (1-D, active < nst) sum to 1
  * `outcome_eq`                        the table entry is Σ w_t·1[t ends in (s,side)] / Σ w_t
  * `outcome_nonneg`, `outcome_le_one`  every entry in [0,1]
  * `outcome_total`                     the entries sum to one
  * `outcome_perm`, `counts_perm`, `hopHist_perm`   unchanged by reordering the trajectories
  * `counts_eq_card`                    counts = number of traces ending there
  * `hopHist_total`                     the printed hop-count histogram sums to one
  * `driverRow_length`, `driverRow_get` the driver row is the row-major table
-/
import MudProof.RealInst
import MudModel.Batch
import Mathlib.Algebra.BigOperators.Fin
import Mathlib.Algebra.Order.BigOperators.Group.List
import Mathlib.Tactic

namespace Mud.C17
open Mud

theorem indicator_01 (t : TraceEnd ℝ) (s side : ℕ) : indicator t s side = 0 ∨ indicator t s side = 1 := by
  unfold indicator; split_ifs <;> simp

theorem indicator_nonneg (t : TraceEnd ℝ) (s side : ℕ) : 0 ≤ indicator t s side := by
  rcases indicator_01 t s side with h | h <;> rw [h] <;> norm_num

theorem sideOf_lt_two (x : ℝ) : sideOf x < 2 := by unfold sideOf; split_ifs <;> norm_num

/-- a one-dimensional trace ending on a state `< nst` is counted in exactly one cell -/
theorem indicator_total (t : TraceEnd ℝ) (nst : ℕ) (h1 : t.ndim = 1) (ha : t.active < nst) :
    ∑ s ∈ Finset.range nst, (indicator t s 0 + indicator t s 1) = 1 := by
  have hside : ∀ s, indicator t s 0 + indicator t s 1 = if t.active = s then 1 else 0 := by
    intro s
    unfold indicator
    simp only [h1, ne_eq, not_true_eq_false, if_false]
    by_cases hs : t.active = s
    · unfold sideOf; split_ifs <;> simp_all
    · simp [hs]
  simp_rw [hside]
  rw [Finset.sum_ite_eq (Finset.range nst) t.active (fun _ => (1 : ℝ))]
  simp [ha]

/-- multi-dimensional traces contribute nothing (the table is for one-dimensional models) -/
theorem indicator_multid (t : TraceEnd ℝ) (h : t.ndim ≠ 1) (s side : ℕ) : indicator t s side = 0 := by
  simp [indicator, h]

theorem outcome_eq (ts : List (TraceEnd ℝ)) (s side : ℕ) :
    outcome ts s side = (ts.map (fun t => t.weight * indicator t s side)).sum / (ts.map (·.weight)).sum :=
  rfl

theorem weighted_le (ts : List (TraceEnd ℝ)) (hw : ∀ t ∈ ts, 0 ≤ t.weight) (s side : ℕ) :
    (ts.map (fun t => t.weight * indicator t s side)).sum ≤ (ts.map (·.weight)).sum := by
  apply List.sum_le_sum
  intro t ht
  rcases indicator_01 t s side with h | h <;> rw [h] <;> have := hw t ht <;> linarith

theorem weighted_nonneg (ts : List (TraceEnd ℝ)) (hw : ∀ t ∈ ts, 0 ≤ t.weight) (s side : ℕ) :
    0 ≤ (ts.map (fun t => t.weight * indicator t s side)).sum := by
  apply List.sum_nonneg
  intro x hx
  obtain ⟨t, ht, rfl⟩ := List.mem_map.mp hx
  exact mul_nonneg (hw t ht) (indicator_nonneg t s side)

/-- **every entry lies in [0,1]** -/
theorem outcome_nonneg (ts : List (TraceEnd ℝ)) (hw : ∀ t ∈ ts, 0 ≤ t.weight)
    (hpos : 0 < weightNorm ts) (s side : ℕ) : 0 ≤ outcome ts s side :=
  div_nonneg (weighted_nonneg ts hw s side) hpos.le

theorem outcome_le_one (ts : List (TraceEnd ℝ)) (hw : ∀ t ∈ ts, 0 ≤ t.weight)
    (hpos : 0 < weightNorm ts) (s side : ℕ) : outcome ts s side ≤ 1 := by
  unfold outcome
  rw [div_le_one hpos]
  exact weighted_le ts hw s side

theorem sum_map_add (ts : List (TraceEnd ℝ)) (f g : TraceEnd ℝ → ℝ) :
    (ts.map f).sum + (ts.map g).sum = (ts.map (fun t => f t + g t)).sum := by
  induction ts with
  | nil => simp
  | cons t ts ih => simp only [List.map_cons, List.sum_cons]; linarith

theorem sum_map_sum_comm (ts : List (TraceEnd ℝ)) (nst : ℕ) (f : TraceEnd ℝ → ℕ → ℝ) :
    ∑ s ∈ Finset.range nst, (ts.map (fun t => f t s)).sum
      = (ts.map (fun t => ∑ s ∈ Finset.range nst, f t s)).sum := by
  induction ts with
  | nil => simp
  | cons t ts ih => simp [Finset.sum_add_distrib, ih]

/-- **the entries sum to one** (one-dimensional model, every trace ends on one of the `nst` states) -/
theorem outcome_total (ts : List (TraceEnd ℝ)) (nst : ℕ) (hpos : 0 < weightNorm ts)
    (h1 : ∀ t ∈ ts, t.ndim = 1) (ha : ∀ t ∈ ts, t.active < nst) :
    ∑ s ∈ Finset.range nst, (outcome ts s 0 + outcome ts s 1) = 1 := by
  unfold outcome
  simp_rw [← add_div]
  rw [← Finset.sum_div, div_eq_one_iff_eq hpos.ne']
  have : ∀ s, (ts.map (fun t => t.weight * indicator t s 0)).sum
      + (ts.map (fun t => t.weight * indicator t s 1)).sum
      = (ts.map (fun t => t.weight * (indicator t s 0 + indicator t s 1))).sum := by
    intro s
    rw [sum_map_add]
    congr 1
    apply List.map_congr_left
    intro t _; ring
  simp_rw [this]
  rw [sum_map_sum_comm ts nst (fun t s => t.weight * (indicator t s 0 + indicator t s 1))]
  unfold weightNorm
  congr 1
  apply List.map_congr_left
  intro t ht
  rw [← Finset.mul_sum, indicator_total t nst (h1 t ht) (ha t ht), mul_one]

/-- **unchanged by reordering trajectories** -/
theorem outcome_perm {ts ts' : List (TraceEnd ℝ)} (h : ts.Perm ts') (s side : ℕ) :
    outcome ts s side = outcome ts' s side := by
  unfold outcome weightNorm
  rw [(h.map _).sum_eq, (h.map _).sum_eq]

theorem counts_perm {ts ts' : List (TraceEnd ℝ)} (h : ts.Perm ts') (s side : ℕ) :
    counts ts s side = counts ts' s side := by
  unfold counts
  rw [(h.map _).sum_eq]

theorem hopHist_perm {ts ts' : List (TraceEnd ℝ)} (h : ts.Perm ts') (i : ℕ) :
    hopHist ts i = hopHist ts' i := by
  unfold hopHist weightNorm
  rw [((h.filter _).map _).sum_eq, (h.map _).sum_eq]

/-- the unweighted counts are the number of traces ending in the cell -/
theorem counts_eq_card (ts : List (TraceEnd ℝ)) (s side : ℕ) :
    counts ts s side = ((ts.filter (fun t => decide (indicator t s side = 1))).length : ℝ) := by
  unfold counts
  induction ts with
  | nil => simp
  | cons t ts ih =>
    simp only [List.map_cons, List.sum_cons, List.filter_cons]
    rcases indicator_01 t s side with h | h
    · simp [h, ih]
    · simp [h, ih]; ring

theorem hist_split (m : ℕ) : ∀ (l : List (TraceEnd ℝ)), (∀ t ∈ l, t.nhops ≤ m) →
    ∑ i ∈ Finset.range (m + 1), ((List.filter (fun t => t.nhops == i) l).map (·.weight)).sum
      = (l.map (·.weight)).sum := by
  intro l
  induction l with
  | nil => simp
  | cons u us ihu =>
    intro hl
    have hu : u.nhops ≤ m := hl u (List.mem_cons_self)
    have key' : ∀ i, ((List.filter (fun t => t.nhops == i) (u :: us)).map (·.weight)).sum
        = (if u.nhops = i then u.weight else 0)
          + ((List.filter (fun t => t.nhops == i) us).map (·.weight)).sum := by
      intro i
      by_cases h : u.nhops = i
      · simp [h]
      · simp [h]
    simp_rw [key', Finset.sum_add_distrib]
    rw [Finset.sum_ite_eq (Finset.range (m + 1)) u.nhops (fun _ => u.weight),
      ihu (fun t ht => hl t (List.mem_cons_of_mem _ ht))]
    simp [Nat.lt_succ_iff, hu]

/-- splitting the weights by hop count loses nothing: the histogram sums to one -/
theorem hopHist_total (ts : List (TraceEnd ℝ)) (hpos : 0 < weightNorm ts) (m : ℕ)
    (hm : ∀ t ∈ ts, t.nhops ≤ m) :
    ∑ i ∈ Finset.range (m + 1), hopHist ts i = 1 := by
  unfold hopHist
  rw [← Finset.sum_div, div_eq_one_iff_eq hpos.ne']
  exact hist_split m ts hm

theorem driverRow_length (ts : List (TraceEnd ℝ)) (nst : ℕ) : (driverRow ts nst).length = 2 * nst := by
  unfold driverRow
  induction nst with
  | zero => simp
  | succ n ih => rw [List.range_succ, List.flatMap_append, List.length_append, ih]; simp; ring

/-- non-vacuity: two traces with unequal weights -/
example : outcome [({ weight := 1, ndim := 1, active := 0, pos0 := -1, nhops := 0 } : TraceEnd ℝ),
    { weight := 3, ndim := 1, active := 1, pos0 := 2, nhops := 1 }] 1 1 = 3 / 4 := by
  simp [outcome, weightNorm, indicator, sideOf]; norm_num

end Mud.C17

/-
  MudModel.Hopping — fewest-switches probabilities and the hop decision.

  Mirrors `TrajectorySH.surface_hopping` (the `gkndt` vector), `TrajectorySH.hopper`
  (tully / poisson, cumulative partition, first index), `TrajectorySH.draw_new_zeta`,
  `TrajectoryCum.hopper` (cumulative_sh.py) and the inverse-CDF draw of
  `numpy.random.Generator.choice(range(N), p=...)` (cdf = cumsum(p)/cumsum(p)[-1];
  index = searchsorted(cdf, u, side='right')).
-/
import MudModel.Poisson

namespace Mud
variable {α : Type}

section gk
variable [Add α] [Sub α] [Mul α] [Div α] [Neg α] [Zero α] [NatCast α] [LT α] [DecidableLT α]

/-- `b_kn = 2 Im(ρ_kn W_nk)` : population flux from `k` to `n` -/
def flux {N : Nat} (rho W : Fin N → Fin N → Cx α) (k n : Fin N) : α :=
  lit 2 * ((rho k n) * (W n k)).im

/-- `gkndt` of `surface_hopping` before the self-hop is zeroed and before clipping:
    `2 Im(ρ_kn W_nk) dt / Re ρ_kk` (Python association order: `2*Im * dt / Re`) -/
def gRaw {N : Nat} (rho W : Fin N → Fin N → Cx α) (k : Fin N) (dt : α) (n : Fin N) : α :=
  flux rho W k n * dt / (rho k k).re

/-- `gkndt` handed to `hopper`: self-hop zeroed, clipped at 0 (`np.maximum(g, 0.0)`) -/
def gkndt {N : Nat} (rho W : Fin N → Fin N → Cx α) (k : Fin N) (dt : α) (n : Fin N) : α :=
  if n = k then 0 else
    let g := gRaw rho W k dt n
    if g < 0 then 0 else g
end gk

section hopper
variable [Add α] [LT α] [DecidableLT α]

/-- first index whose running sum exceeds `ζ` (`np.less(zeta, np.cumsum(probs))`, first `True`);
    returns the index and the cumulative sum there (the logged `prob`). -/
def hopperGo (ζ : α) : List α → α → Nat → Option (Nat × α)
  | [], _, _ => none
  | p :: ps, acc, i =>
    let acc' := acc + p
    if ζ < acc' then some (i, acc') else hopperGo ζ ps acc' (i + 1)

def hopperFirst [Zero α] (ζ : α) (probs : List α) : Option (Nat × α) :=
  hopperGo ζ probs 0 0

/-- running sums, `np.cumsum` -/
def cumsumGo : List α → α → List α
  | [], _ => []
  | p :: ps, acc => (acc + p) :: cumsumGo ps (acc + p)

def cumsum [Zero α] (l : List α) : List α := cumsumGo l 0
end hopper

section hopperOpt
variable [Add α] [Sub α] [Mul α] [Div α] [Neg α] [Zero α] [One α] [NatCast α] [LT α]
  [DecidableLT α] [HasAbs α] [HasExp α]

/-- `probs` of `hopper`: `tully` → `g`; `poisson` → `g * poisson_prob_scale(sum g)` -/
def hopProbs (poisson : Bool) (g : List α) : List α :=
  if poisson then
    let s := poissonScale g.sum
    g.map (fun x => x * s)
  else g

/-- result of `TrajectorySH.hopper`: `(self.hopping, target?)` -/
def hopper (poisson : Bool) (ζ : α) (g : List α) : α × Option (Nat × α) :=
  let probs := hopProbs poisson g
  (probs.sum, hopperFirst ζ probs)
end hopperOpt

/-- `draw_new_zeta`: pop the head of the user list, else take the next generator number.
    State = (remaining user list, remaining generator stream as a list). -/
def drawZeta {β : Type} (zetaList : List β) (stream : List β) : Option (β × List β × List β) :=
  match zetaList with
  | z :: zs => some (z, zs, stream)
  | [] => match stream with
    | r :: rs => some (r, [], rs)
    | [] => none

section cum
variable [Add α] [Sub α] [Mul α] [Div α] [Neg α] [Zero α] [One α] [LT α] [DecidableLT α]
  [HasExp α]

/-- `accumulated + (accumulated - 1) * expm1(-G)` -/
def cumAccumulate (a G : α) : α := a + (a - 1) * expm1 (-G)

/-- index of the first step at which the accumulated probability exceeds `ζ`, for a sequence of
    per-step total rates `G_i`, starting from accumulation `a` (the no-attempt branch of
    `TrajectoryCum.hopper` iterated) -/
def cumFirst (ζ : α) : α → List α → Nat → Option Nat
  | _, [], _ => none
  | a, G :: Gs, i =>
    let acc := cumAccumulate a G
    if ζ < acc then some i else cumFirst ζ acc Gs (i + 1)

/-- `Generator.choice(range(N), p=p)` given the uniform draw `u`:
    `cdf = cumsum(p); cdf /= cdf[-1]; searchsorted(cdf, u, side='right')` = first `i` with `u < cdf_i` -/
def firstLess (u : α) : List α → Nat → Option Nat
  | [], _ => none
  | c :: cs, i => if u < c then some i else firstLess u cs (i + 1)

def choiceIdx (u : α) (p : List α) : Option Nat :=
  let c := cumsum p
  match c.getLast? with
  | none => none
  | some tot => firstLess u (c.map (· / tot)) 0

/-- state of the cumulative hopper -/
structure CumState (α : Type) where
  probCum : α
  zeta : α

/-- one call of `TrajectoryCum.hopper` with rates `g`.
    `u` : the uniform number `choice` would draw; `newZeta` : what `draw_new_zeta` would return.
    Returns the new state and `some (target, zeta_used, prob)` on an attempt. -/
def cumHopper (s : CumState α) (g : List α) (u newZeta : α) :
    CumState α × Option (Option Nat × α × α) :=
  let G := g.sum
  let acc := cumAccumulate s.probCum G
  if s.zeta < acc then
    let target := choiceIdx u (g.map (· / G))
    ({ probCum := 0, zeta := newZeta }, some (target, s.zeta, acc))
  else
    ({ probCum := acc, zeta := s.zeta }, none)
end cum

end Mud

/-
  MudModel.Quadrature — `mudslide.integration`: midpoint, trapezoid, simpson, the affine map around
  `numpy.polynomial.legendre.leggauss` (Gauss–Legendre) and the pre/post-processing around
  `numpy.fft.ifft` of `clenshaw_curtis`.  `leggauss` and `ifft` are parameters of the model.
-/
import MudModel.Num

namespace Mud
variable {α : Type}
variable [Add α] [Sub α] [Mul α] [Div α] [Neg α] [Zero α] [One α] [NatCast α]

/-- `points = a + ((b - a) / n * (np.arange(n) + 0.5))` -/
def midpointPts (n : Nat) (a b : α) : Fin n → α :=
  fun i => a + (b - a) / (n : α) * ((i.val : α) + frac 1 2)

/-- `weights = np.ones(n) * (b - a) / n` -/
def midpointWts (n : Nat) (a b : α) : Fin n → α :=
  fun _ => 1 * (b - a) / (n : α)

/-- `points = a + ((b - a) / ninterval) * np.arange(n)` (trapezoid and simpson) -/
def gridPts (n : Nat) (a b : α) : Fin n → α :=
  fun i => a + (b - a) / ((n - 1 : Nat) : α) * (i.val : α)

/-- trapezoid weights: `(b-a)/ninterval`, halved at both ends -/
def trapezoidWts (n : Nat) (a b : α) : Fin n → α :=
  fun i =>
    let w := 1 * (b - a) / ((n - 1 : Nat) : α)
    if i.val = 0 ∨ i.val = n - 1 then w * frac 1 2 else w

/-- the pattern `1,4,2,4,…,2,4,1` written by the loop of `simpson` -/
def simpsonPattern (n : Nat) (i : Nat) : Nat :=
  if i = 0 ∨ i = n - 1 then 1 else if i % 2 = 1 then 4 else 2

/-- simpson weights: pattern `* ((b - a) / ninterval / 3)` -/
def simpsonWts (n : Nat) (a b : α) : Fin n → α :=
  fun i => (simpsonPattern n i.val : α) * ((b - a) / ((n - 1 : Nat) : α) / lit 3)

/-- Gauss–Legendre nodes on `[a,b]` from the `leggauss` nodes `t` on `[-1,1]`:
    `points * 0.5 * (b - a) + 0.5 * (a + b)` -/
def glPts {n : Nat} (t : Fin n → α) (a b : α) : Fin n → α :=
  fun i => t i * frac 1 2 * (b - a) + frac 1 2 * (a + b)

/-- Gauss–Legendre weights as the property requires them: `w * 0.5 * (b - a)` -/
def glWts {n : Nat} (w : Fin n → α) (a b : α) : Fin n → α :=
  fun i => w i * (frac 1 2 * (b - a))

/-- Gauss–Legendre weights of the originally pinned tree: `weights *= 0.5` -/
def glWtsPinned {n : Nat} (w : Fin n → α) : Fin n → α :=
  fun i => w i * frac 1 2

/-! ### Clenshaw–Curtis: everything around the inverse FFT -/

/-- `wcc0 = 1 / (s*s - 1 + s % 2)`, `s = nsegments` -/
def ccW0 (s : Nat) : α := 1 / ((s * s - 1 + s % 2 : Nat) : α)

/-- entries `0 … s//2` of the `v` vector -/
def ccVBase (s : Nat) (k : Nat) : α :=
  if k < s / 2 then lit 2 / (1 - lit 4 * ((k * k : Nat) : α))
  else ((s : α) - lit 3) / (lit 2 * ((s / 2 : Nat) : α) - 1) - 1

/-- the `v` vector after the mirror assignment `v[s - kk] = v[kk]` -/
def ccV (s : Nat) (i : Fin s) : α :=
  if i.val ≤ s / 2 then ccVBase s i.val else ccVBase s (s - i.val)

def ccGBase (s : Nat) (k : Nat) : α :=
  if k < s / 2 then -(ccW0 s) else ccW0 s * (((2 - s % 2) * s - 1 : Nat) : α)

def ccG (s : Nat) (i : Fin s) : α :=
  if i.val ≤ s / 2 then ccGBase s i.val else ccGBase s (s - i.val)

/-- `h = v + g`, the input of `np.fft.ifft` -/
def ccH (s : Nat) (i : Fin s) : α := ccV s i + ccG s i

/-- what `np.fft.ifft(h).real` is for a REAL input vector `h` of length `s`: the real part of the inverse discrete Fourier
    transform, `wcc[k] = (1/s) Σ_j h[j] cos(2π j k / s)`. With this definition the inverse FFT is no longer a parameter of the
    Clenshaw–Curtis model; the harness checks numpy's `ifft` against it (it is the documented definition of `ifft`). -/
def ccIdft [HasTrig α] (s : Nat) (pi : α) (h : Fin s → α) (k : Nat) : α :=
  vsum (fun j : Fin s => h j * cos (lit 2 * pi * ((j.val * k : Nat) : α) / (s : α))) / (s : α)

/-- nodes: `cos(pi * flip(arange(n)) / s) * 0.5 * (b - a) + 0.5 * (a + b)` (`pi` is a parameter) -/
def ccPts [HasTrig α] (n : Nat) (pi a b : α) : Fin n → α :=
  fun i => cos (pi * ((n - 1 - i.val : Nat) : α) / ((n - 1 : Nat) : α)) * frac 1 2 * (b - a)
    + frac 1 2 * (a + b)

/-- weights from the real part `wcc` of the inverse FFT (length `s = n - 1`):
    `out[:s] = wcc; out[s] = out[0]; out = flip(out); out *= 0.5 * (b - a)` -/
def ccWts (n : Nat) (wcc : Nat → α) (a b : α) : Fin n → α :=
  fun i =>
    let j := n - 1 - i.val          -- flip
    (if j = n - 1 then wcc 0 else wcc j) * (frac 1 2 * (b - a))

end Mud

/-
  MudModel.Verlet — velocity Verlet as written in `TrajectorySH.advance_position/advance_velocity`
  and `AdiabaticMD.advance_position/advance_velocity`, `total_energy`.

    position += velocity*dt + 0.5*acceleration*dt*dt          (acceleration = F(x_old)/mass)
    velocity += 0.5*(last_acceleration + this_acceleration)*dt
-/
import MudModel.Hop

namespace Mud
variable {α : Type} {n : Nat}
variable [Add α] [Mul α] [Div α] [NatCast α]

/-- `force / mass` -/
def accel (F m : Fin n → α) : Fin n → α := fun i => F i / m i

/-- `advance_position` -/
def advancePosition (x v a : Fin n → α) (dt : α) : Fin n → α :=
  fun i => x i + (v i * dt + frac 1 2 * a i * dt * dt)

/-- `advance_velocity` -/
def advanceVelocity (v aLast aThis : Fin n → α) (dt : α) : Fin n → α :=
  fun i => v i + frac 1 2 * (aLast i + aThis i) * dt

/-- one nuclear step with a force field `F` (the force of the active state as a function of position) -/
def verletStep (F : (Fin n → α) → (Fin n → α)) (m : Fin n → α) (dt : α)
    (xv : (Fin n → α) × (Fin n → α)) : (Fin n → α) × (Fin n → α) :=
  let a0 := accel (F xv.1) m
  let x' := advancePosition xv.1 xv.2 a0 dt
  let a1 := accel (F x') m
  (x', advanceVelocity xv.2 a0 a1 dt)

/-- `k` steps -/
def verletRun (F : (Fin n → α) → (Fin n → α)) (m : Fin n → α) (dt : α) :
    Nat → (Fin n → α) × (Fin n → α) → (Fin n → α) × (Fin n → α)
  | 0, xv => xv
  | k + 1, xv => verletRun F m dt k (verletStep F m dt xv)

/-- momentum reversal -/
def flipV [Neg α] (xv : (Fin n → α) × (Fin n → α)) : (Fin n → α) × (Fin n → α) :=
  (xv.1, fun i => -(xv.2 i))

end Mud

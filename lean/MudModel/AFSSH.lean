/-
  MudModel.AFSSH — the A-FSSH moments (`mudslide.afssh.AugmentedFSSH`), one nuclear dimension `x`
  at a time (the code loops / einsums over `x`; the matrices of different `x` never mix).

  `hopUpdate` is the repaired shift (a copy of the target's diagonal is subtracted);
  `hopUpdatePinned` is what the originally pinned code did: it subtracted through a *view* of the
  target's diagonal, which is zeroed when the loop reaches the target, so later states are not shifted.
-/
import MudModel.Electronic
import MudModel.Poisson

namespace Mud
variable {α : Type} {N : Nat}

/-- diagonal moments after an accepted hop to `t`: `d_i ← d_i - d_t` for every state `i` -/
def hopUpdate [Sub α] (d : Fin N → α) (t : Fin N) : Fin N → α := fun i => d i - d t

/-- the originally pinned loop `for i: d[i] -= view(d[t])` -/
def hopUpdatePinned [Sub α] [Zero α] (d : Fin N → α) (t : Fin N) : Fin N → α :=
  fun i => if i.val < t.val then d i - d t else if i = t then d t - d t else d i - 0

section
variable [Add α] [Sub α] [Mul α] [Div α] [Neg α] [Zero α] [One α] [NatCast α]

/-- `compute_delF`: force matrix with the active-state force subtracted from every diagonal entry -/
def delF (FM : M α N N) (F0 : α) : M α N N :=
  Tab.ofFn (fun i j => if i = j then FM.get i j - F0 else FM.get i j)

/-- right-hand side `-i[H, X] + S` of both rk4 moment integrators -/
def momentYdot (H S : M (Cx α) N N) (X : M (Cx α) N N) : M (Cx α) N N :=
  let comm := msub (mmul H X) (mmul X H)
  Tab.ofFn (fun i j => Cx.mulNegI (comm.get i j) + S.get i j)

/-- `advance_delR`, rk4 branch: four RK4 steps of `Ṙ = -i[H,R] + δP/m` -/
def delRrk4 (H : M (Cx α) N N) (dt mass : α) (R P : M (Cx α) N N) : M (Cx α) N N :=
  let delV : M (Cx α) N N := Tab.ofFn (fun i j => Cx.divR' (P.get i j) mass)
  rk4 (Y := M (Cx α) N N) madd msmul (fun X _ => momentYdot H delV X) 0 dt 4 R
where
  Cx.divR' (a : Cx α) (s : α) : Cx α := ⟨a.re / s, a.im / s⟩

/-- `advance_delP`, rk4 branch: `Ṗ = -i[H,P] + ½(δF ρ + ρ δF)` -/
def delPrk4 (H : M (Cx α) N N) (dt : α) (P : M (Cx α) N N) (dF : M α N N) (rho : M (Cx α) N N) : M (Cx α) N N :=
  let dFc := mofReal dF
  let s := madd (mmul dFc rho) (mmul rho dFc)
  let half : M (Cx α) N N := Tab.ofFn (fun i j => Cx.smul (frac 1 2) (s.get i j))
  rk4 (Y := M (Cx α) N N) madd msmul (fun X _ => momentYdot H half X) 0 dt 4 P
end

section
variable [Add α] [Sub α] [Mul α] [Div α] [Neg α] [Zero α] [One α] [NatCast α] [HasTrig α]

/-- `exp(-i dt (ε_i - ε_j))` -/
def expiht (eps : Fin N → α) (dt : α) : M (Cx α) N N :=
  Tab.ofFn (fun i j => Cx.expI (-(dt * (eps i - eps j))))

/-- `advance_delR`, exp branch, given `eps, co = eigh(H)` -/
def delRexp (eps : Fin N → α) (co : M (Cx α) N N) (dt mass : α) (R P : M (Cx α) N N) : M (Cx α) N N :=
  let coH := mH co
  let delV : M (Cx α) N N := Tab.ofFn (fun i j => ⟨(P.get i j).re / mass, (P.get i j).im / mass⟩)
  let dv := mmul (mmul coH delV) co
  let rr := mmul (mmul coH R) co
  let rt := mhad (Tab.ofFn (fun i j => rr.get i j + Cx.smul dt (dv.get i j))) (expiht eps dt)
  mmul (mmul co rt) coH
end

section
variable [Add α] [Sub α] [Mul α] [Div α] [Neg α] [Zero α] [One α] [NatCast α] [HasTrig α]
  [LT α] [DecidableLT α] [HasSqrt α] [HasExp α]

/-- `advance_delP`, exp branch -/
def delPexp (eps : Fin N → α) (co : M (Cx α) N N) (dt : α) (P : M (Cx α) N N) (dF : M α N N)
    (rho : M (Cx α) N N) : M (Cx α) N N :=
  let coH := mH co
  -- poiss[i,j,k] = -poisson_prob_scale(i * eee[i,j,k] * dt) * dt, eee[i,j,k] = 2 eps_i - (eps_j + eps_k)
  let eee (i j k : Fin N) : α := lit 2 * eps i - (eps j + eps k)
  let poiss (i j k : Fin N) : Cx α := Cx.smul dt (-(poissonScaleC ⟨0, eee i j k * dt⟩))
  let poissStar (i j k : Fin N) : Cx α := Cx.smul dt (-(poissonScaleC ⟨0, -(eee i j k) * dt⟩))
  let dFe := mmul (mmul coH (mofReal dF)) co
  let pp := mmul (mmul coH P) co
  let rh := mmul (mmul coH rho) co
  let ff : M (Cx α) N N := Tab.ofFn (fun i j =>
    let a := vsum (fun k => dFe.get i k * rh.get k j * poiss j i k)
    let b := vsum (fun k => rh.get i k * dFe.get k j * poissStar i j k)
    Cx.smul (-(frac 1 2)) (a + b))
  let pt := mhad (madd pp ff) (expiht eps dt)
  mmul (mmul co pt) coH
end

end Mud

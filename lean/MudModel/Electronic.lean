/-
  MudModel.Electronic — propagation of the electronic density matrix
  (`TrajectorySH.hamiltonian_propagator`, `propagate_electronics` both branches, `propagation.rk4`).

  `numpy.linalg.eigh` is a parameter: the `exp` branch takes the eigenvalues/eigenvectors the
  implementation obtained for `W`; the `linear-rk4` branch those of the previous Hamiltonian.
-/
import MudModel.Mat

namespace Mud
variable {α : Type} {N n : Nat}

section
variable [Add α] [Sub α] [Mul α] [Div α] [Neg α] [Zero α] [One α] [NatCast α]

/-- `einsum("ijx,x->ij", tau, v)` -/
def contract (tau : Fin N → Fin N → Fin n → α) (v : Fin n → α) : M α N N :=
  Tab.ofFn (fun i j => vsum (fun x => tau i j x * v x))

/-- the midpoint velocity `0.5 * (velocity + last_velocity)` -/
def midVelocity (v vlast : Fin n → α) : Fin n → α := fun x => frac 1 2 * (v x + vlast x)

/-- `hamiltonian_propagator`: `W = 0.5 (H_this + H_last) - i · 0.5 Σ_x (d_this + d_last)_x velo_x` -/
def hamProp (Hthis Hlast : M α N N) (dthis dlast : Fin N → Fin N → Fin n → α) (velo : Fin n → α) :
    M (Cx α) N N :=
  let TV := contract (fun i j x => dthis i j x + dlast i j x) velo
  Tab.ofFn (fun i j => ⟨frac 1 2 * (Hthis.get i j + Hlast.get i j), -(frac 1 2 * TV.get i j)⟩)
end

section
variable [Add α] [Sub α] [Mul α] [Div α] [Neg α] [Zero α] [One α] [NatCast α] [HasTrig α]

/-- `exp(-1j * diags * dt)` -/
def phaseVec (diags : Fin N → α) (dt : α) : Fin N → Cx α := fun i => Cx.expI (-(diags i * dt))

/-- `U = coeff · diag(exp(-i λ dt)) · coeff†` -/
def propagatorU (diags : Fin N → α) (coeff : M (Cx α) N N) (dt : α) : M (Cx α) N N :=
  mmul (mmul coeff (mdiag (phaseVec diags dt))) (mH coeff)

/-- the `exp` branch: `rho ← U rho U†` -/
def expStep (diags : Fin N → α) (coeff : M (Cx α) N N) (dt : α) (rho : M (Cx α) N N) : M (Cx α) N N :=
  let U := propagatorU diags coeff dt
  mmul U (mmul rho (mH U))
end

/-! ### `propagation.rk4`, generic in the state type -/

section rk4
variable {Y : Type}

/-- one classical RK4 step of size `h` from `(t, y)`; `add`/`smul` are the vector-space operations of the state -/
def rk4One [Add α] [Mul α] [Div α] [NatCast α] (add : Y → Y → Y) (smul : α → Y → Y) (ydot : Y → α → Y)
    (h t : α) (y : Y) : Y :=
  let k1 := ydot y t
  let k2 := ydot (add y (smul (frac 1 2 * h) k1)) (t + frac 1 2 * h)
  let k3 := ydot (add y (smul (frac 1 2 * h) k2)) (t + frac 1 2 * h)
  let k4 := ydot (add y (smul h k3)) (t + h)
  add y (smul (h / lit 6) (add (add (add k1 (smul (lit 2) k2)) (smul (lit 2) k3)) k4))

/-- `rk4(y0, ydot, t0, tf, nsteps)` : `t = t0 + i*dt` at step `i` -/
def rk4 [Add α] [Sub α] [Mul α] [Div α] [NatCast α] (add : Y → Y → Y) (smul : α → Y → Y) (ydot : Y → α → Y)
    (t0 tf : α) (nsteps : Nat) (y0 : Y) : Y :=
  let h := (tf - t0) / (nsteps : α)
  (List.range nsteps).foldl (fun y (i : Nat) => rk4One add smul ydot h (t0 + (i : α) * h) y) y0
end rk4

section
variable [Add α] [Sub α] [Mul α] [Div α] [Neg α] [Zero α] [One α] [NatCast α] [HasTrig α]
  [LT α] [DecidableLT α]

/-- the interaction-picture right-hand side of the `linear-rk4` branch -/
def rk4Ydot (eigs : Fin N → α) (H0 H1 W00 W11 W01 : M α N N) (dt : α) (rho : M (Cx α) N N) (t : α) :
    M (Cx α) N N :=
  let w0 := 1 - t / dt
  let w1 := t / dt
  let HI : M (Cx α) N N := Tab.ofFn (fun i j =>
    let h := H0.get i j * (w0 - 1) + H1.get i j * w1
    let w := w0 * w0 * W00.get i j + w1 * w1 * W11.get i j + w0 * w1 * W01.get i j
    -- phases_ij = exp(i ε_i t) · conj(exp(i ε_j t))
    (⟨h, -w⟩ : Cx α) * (Cx.expI (eigs i * t) * Cx.conj (Cx.expI (eigs j * t))))
  let comm := msub (mmul HI rho) (mmul rho HI)
  Tab.ofFn (fun i j => Cx.mulNegI (comm.get i j))

/-- number of electronic sub-steps: start value doubled while `dt / nsteps > max_electronic_dt` -/
def substeps (dt maxdt : α) : Nat → Nat → Nat
  | 0, ns => ns
  | fuel + 1, ns => if maxdt < dt / (ns : α) then substeps dt maxdt fuel (ns * 2) else ns

/-- the `linear-rk4` branch given `eigs, vecs = eigh(last_H)` -/
def rk4Step (eigs : Fin N → α) (vecs : M α N N) (lastH thisH TV00 TV11 TV01 : M α N N) (dt : α)
    (nsteps : Nat) (rho : M (Cx α) N N) : M (Cx α) N N :=
  let vT := mT vecs
  let rot (A : M α N N) : M α N N := mmul (mmul vT A) vecs
  let H0 := rot lastH
  let H1 := rot thisH
  let W00 := rot TV00
  let W11 := rot TV11
  let W01 := rot TV01
  let vC : M (Cx α) N N := mofReal vecs
  let vTC : M (Cx α) N N := mofReal vT
  let rho0 := mmul (mmul vTC rho) vC
  let tmp := rk4 (Y := M (Cx α) N N) madd msmul
    (fun r t => rk4Ydot eigs H0 H1 W00 W11 W01 dt r t) 0 dt nsteps rho0
  -- phases_ij = conj(exp(i ε_i dt)) · exp(i ε_j dt)
  let ph : M (Cx α) N N := Tab.ofFn (fun i j => Cx.conj (Cx.expI (eigs i * dt)) * Cx.expI (eigs j * dt))
  mmul (mmul vC (mhad tmp ph)) vTC
end

end Mud
